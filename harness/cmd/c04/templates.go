package main

import (
	"bytes"
	"fmt"
	"os"
	"os/exec"
	"runtime/debug"
	"sort"
	"strconv"
	"strings"
	"sync"
	"time"

	"github.com/arnodel/golua/code"
	rt "github.com/arnodel/golua/runtime"
	"verifharness/hlib"
)

// A template is a Lua program parameterised by a size N.  expect (optional) gives the value the
// program must return when it compiles and runs to completion (anything else is class WRONG).
type template struct {
	name    string
	gen     func(n int) string
	expect  func(n int) string // hlib.Enc of the first returned value; nil = not checked
	quick   []int
	thor    []int
	nolimit bool // run at the root context (needed when the program itself uses runtime.callcontext)
	group   string
	// answer: every (template, N) is a small program that must answer at once (a TIMEOUT is class HANG)
	answer bool
}

func rep(s string, n int) string { return strings.Repeat(s, n) }

func seq(n int, f func(i int) string, sep string) string {
	var sb strings.Builder
	for i := 1; i <= n; i++ {
		if i > 1 {
			sb.WriteString(sep)
		}
		sb.WriteString(f(i))
	}
	return sb.String()
}

func num(i int) string  { return strconv.Itoa(i) }
func encI(n int) string { return "i" + strconv.Itoa(n) }

var (
	nestQ   = []int{100} // deep nesting is the business of the deep-* family
	nestT   = []int{100, 1000, 10000, 100000, 1000000}
	countQ  = []int{200, 255, 256, 300}
	countT  = []int{200, 254, 255, 256, 257, 300, 1000, 65535, 65536, 70000}
	listQ   = []int{254, 255, 300, 1000}
	listT   = []int{255, 256, 257, 300, 1000, 65535, 65536, 65537, 70000, 300000}
	depthQ  = []int{10, 300, 5000}
	depthT  = []int{10, 200, 1000, 5000, 100000, 1000000, 10000000}
	hugeQ   = []int{1000, 1 << 31, 1 << 40}
	hugeT   = []int{1000, 1000000, 1 << 31, 1 << 40, 1 << 62}
	single  = []int{1}
	jumpQ   = []int{1000, 16500} // the exact thresholds are compared with the model in the limits phase
	jumpT   = []int{1000, 10000, 16000, 16380, 16390, 16500, 20000, 32760, 32770, 33000, 40000, 70000, 140000}
	constQ  = []int{1000}
	constT  = []int{1000, 65000, 65530, 65534, 65535, 65536, 65537, 65540, 70000, 140000}
	lengthQ = []int{1000, 100000}
	lengthT = []int{1000, 100000, 1000000, 10000000}
)

func templates() []template {
	var ts []template
	add := func(group, name string, q, t []int, gen func(n int) string, expect func(n int) string) {
		ts = append(ts, template{name: name, gen: gen, expect: expect, quick: q, thor: t, group: group})
	}
	// ---- nesting at compile time -------------------------------------------------
	add("nest", "nest-parens", nestQ, nestT, func(n int) string { return "return " + rep("(", n) + "1" + rep(")", n) }, func(n int) string { return "i1" })
	add("nest", "nest-tables", nestQ, nestT, func(n int) string { return "return " + rep("{", n) + rep("}", n) }, nil)
	add("nest", "nest-functions", nestQ, nestT, func(n int) string { return rep("local function f() ", n) + rep(" end", n) + " return 1" }, func(n int) string { return "i1" })
	add("nest", "nest-funcexp", nestQ, nestT, func(n int) string { return "return " + rep("function() return ", n) + "1" + rep(" end", n) }, nil)
	add("nest", "nest-do", nestQ, nestT, func(n int) string { return rep("do ", n) + rep("end ", n) + "return 1" }, func(n int) string { return "i1" })
	add("nest", "nest-if", nestQ, nestT, func(n int) string {
		return "local x = true " + rep("if x then ", n) + "x = 5 " + rep("end ", n) + "return x"
	}, func(n int) string { return "i5" })
	add("nest", "nest-while", nestQ, nestT, func(n int) string { return "local x " + rep("while x do ", n) + rep("end ", n) + "return 1" }, func(n int) string { return "i1" })
	add("nest", "nest-for", nestQ, nestT, func(n int) string {
		return "local c = 0 " + rep("for i = 1, 1 do ", n) + "c = c + 1 " + rep("end ", n) + "return c"
	}, func(n int) string { return "i1" })
	add("nest", "nest-repeat", nestQ, nestT, func(n int) string { return rep("repeat ", n) + rep("until true ", n) + "return 1" }, func(n int) string { return "i1" })
	add("nest", "nest-index", nestQ, nestT, func(n int) string { return "local t = {} t[1] = 1 return t" + rep("[t", n) + "[1]" + rep("]", n) }, func(n int) string { return "i1" })
	add("nest", "nest-call-args", nestQ, nestT, func(n int) string {
		return "local function f(x) return x end return " + rep("f(", n) + "1" + rep(")", n)
	}, func(n int) string { return "i1" })
	add("nest", "chain-unm", nestQ, nestT, func(n int) string { return "return " + rep("- ", n) + "1" }, func(n int) string { return encI(1 - 2*(n%2)) })
	add("nest", "chain-not", nestQ, nestT, func(n int) string { return "return " + rep("not ", n) + "1" }, func(n int) string {
		if n%2 == 1 {
			return "F"
		}
		return "t"
	})
	add("nest", "chain-len", nestQ, nestT, func(n int) string { return "return " + rep("#", n) + "{}" }, nil)
	add("nest", "chain-bnot", nestQ, nestT, func(n int) string { return "return " + rep("~", n) + "0" }, func(n int) string { return encI(-(n % 2)) })
	add("nest", "chain-concat", nestQ, nestT, func(n int) string { return "local a = 'x' return #(a" + rep("..a", n) + ")" }, func(n int) string { return encI(n + 1) })
	add("nest", "chain-add", nestQ, nestT, func(n int) string { return "return 1" + rep("+1", n) }, func(n int) string { return encI(n + 1) })
	add("nest", "chain-pow", nestQ, nestT, func(n int) string { return "return 2" + rep("^1", n) }, nil)
	add("nest", "chain-and", nestQ, nestT, func(n int) string { return "local a = 1 return a" + rep(" and a", n) }, func(n int) string { return "i1" })
	add("nest", "chain-or", nestQ, nestT, func(n int) string { return "local a = false return a" + rep(" or a", n) + " or 7" }, func(n int) string { return "i7" })
	add("nest", "chain-eq", nestQ, nestT, func(n int) string { return "return 1" + rep("==1", n) }, nil)
	add("nest", "chain-lt", nestQ, nestT, func(n int) string { return "local ok = pcall(function() return 1" + rep("<2", n) + " end) return 1" }, func(n int) string { return "i1" })
	add("nest", "chain-field", nestQ, nestT, func(n int) string { return "local t = {} t.a = t t.v = 3 return t" + rep(".a", n) + ".v" }, func(n int) string { return "i3" })
	add("nest", "chain-call", nestQ, nestT, func(n int) string { return "local function f() return f end return f" + rep("()", n) + " == f" }, func(n int) string { return "t" })
	add("nest", "chain-method", nestQ, nestT, func(n int) string {
		return "local o = {} function o:m() return self end return o" + rep(":m()", n) + " == o"
	}, func(n int) string { return "t" })
	add("nest", "chain-strcall", nestQ, nestT, func(n int) string { return "local function f() return f end return f" + rep("''", n) + " == f" }, func(n int) string { return "t" })
	add("nest", "chain-elseif", nestQ, nestT, func(n int) string {
		return "local x = false if x then return 0" + rep(" elseif x then return 0", n) + " else return 9 end"
	}, func(n int) string { return "i9" })
	add("nest", "chain-semicolons", nestQ, nestT, func(n int) string { return rep(";", n) + "return 1" }, func(n int) string { return "i1" })
	add("nest", "chain-labels", nestQ, nestT, func(n int) string {
		return seq(n, func(i int) string { return "::l" + num(i) + "::" }, " ") + " return 1"
	}, func(n int) string { return "i1" })
	add("nest", "chain-gotos", nestQ, nestT, func(n int) string {
		return seq(n, func(i int) string { return "goto l" + num(i) + " ::l" + num(i) + "::" }, " ") + " return 1"
	}, func(n int) string { return "i1" })
	add("nest", "nest-longbracket-level", lengthQ, lengthT, func(n int) string { return "return #[" + rep("=", n) + "[ab]" + rep("=", n) + "]" }, func(n int) string { return "i2" })
	// ---- every recursive production of the grammar, deep enough to exhaust the Go stack if the parser or
	// the compiler recursed without a limit (the text is cheap: a fixed tree refuses it after 200 levels, and
	// the iteratively parsed chains end as "function too large" / "expression too complex")
	deepQ := []int{3000000}
	deepT := []int{300, 100000, 3000000, 10000000}
	chainQ := []int{150000}
	chainT := []int{1000000, 4000000}
	deep := func(name string, q, t []int, gen func(n int) string) { add("deep", name, q, t, gen, nil) }
	for _, u := range [][2]string{{"unm", "- "}, {"not", "not "}, {"len", "#"}, {"bnot", "~"}, {"unm-nospace-parens", "-("}} {
		u := u
		closer := ""
		if strings.HasSuffix(u[1], "(") {
			closer = ")"
		}
		deep("deep-unary-"+u[0], deepQ, deepT, func(n int) string { return "return " + rep(u[1], n) + "a" + rep(closer, n) })
	}
	deep("deep-unary-mix", deepQ, deepT, func(n int) string { return "return " + rep("- not # ~ ", n/4) + "a" })
	deep("deep-unary-under-binary", deepQ, deepT, func(n int) string { return "return a + " + rep("- ", n) + "a * 2" })
	deep("deep-pow-right", deepQ, deepT, func(n int) string { return "return a" + rep("^a", n) })
	deep("deep-pow-unary-right", deepQ, deepT, func(n int) string { return "return a" + rep("^-a", n) })
	deep("deep-parens", deepQ, deepT, func(n int) string { return "return " + rep("(", n) + "a" + rep(")", n) })
	deep("deep-parens-unclosed", deepQ, deepT, func(n int) string { return "return " + rep("(", n) })
	deep("deep-tables", deepQ, deepT, func(n int) string { return "return " + rep("{", n) + rep("}", n) })
	deep("deep-tables-keyed", deepQ, deepT, func(n int) string { return "return " + rep("{[", n) })
	deep("deep-index-brackets", deepQ, deepT, func(n int) string { return "return a" + rep("[a", n) + rep("]", n) })
	deep("deep-call-args", deepQ, deepT, func(n int) string { return "return " + rep("f(", n) + rep(")", n) })
	deep("deep-call-table-args", deepQ, deepT, func(n int) string { return "return " + rep("f{", n) + rep("}", n) })
	deep("deep-function-bodies", deepQ, deepT, func(n int) string { return "return " + rep("function() return ", n) + "1" + rep(" end", n) })
	deep("deep-function-stats", deepQ, deepT, func(n int) string { return rep("function f() ", n) })
	deep("deep-do", deepQ, deepT, func(n int) string { return rep("do ", n) })
	deep("deep-if", deepQ, deepT, func(n int) string { return rep("if a then ", n) })
	deep("deep-if-else", deepQ, deepT, func(n int) string { return rep("if a then else ", n) })
	deep("deep-while", deepQ, deepT, func(n int) string { return rep("while a do ", n) })
	deep("deep-for", deepQ, deepT, func(n int) string { return rep("for i=1,2 do ", n) })
	deep("deep-for-in", deepQ, deepT, func(n int) string { return rep("for k in a do ", n) })
	deep("deep-repeat", deepQ, deepT, func(n int) string { return rep("repeat ", n) })
	deep("deep-repeat-until-exp", deepQ, deepT, func(n int) string { return "repeat until " + rep("(", n) })
	deep("deep-local-function", deepQ, deepT, func(n int) string { return rep("local function f() ", n) })
	deep("deep-method-args", deepQ, deepT, func(n int) string { return "return " + rep("a:m(", n) })
	deep("deep-assign-index", deepQ, deepT, func(n int) string { return rep("a[", n) })
	// iteratively parsed chains (left- or right-leaning trees built in a loop)
	deep("deep-concat-right", chainQ, chainT, func(n int) string { return "return a" + rep("..a", n) })
	deep("deep-and-or-ladder", chainQ, chainT, func(n int) string { return "return a" + rep(" and a or a", n/2) })
	deep("deep-binary-mixed-precedence", chainQ, chainT, func(n int) string { return "return a" + rep("+a*a..a<a", n/4) })
	deep("deep-field-chain", chainQ, chainT, func(n int) string { return "return a" + rep(".b", n) })
	deep("deep-call-chain", chainQ, chainT, func(n int) string { return "return f" + rep("()", n) })
	deep("deep-method-chain", chainQ, chainT, func(n int) string { return "return a" + rep(":m()", n) })
	deep("deep-index-chain", chainQ, chainT, func(n int) string { return "return a" + rep("[1]", n) })
	deep("deep-string-call-chain", chainQ, chainT, func(n int) string { return "return f" + rep("''", n) })
	deep("deep-elseif-ladder", chainQ, chainT, func(n int) string { return "if a then" + rep(" elseif a then", n) + " end" })
	deep("deep-statement-sequence-of-calls", chainQ, chainT, func(n int) string { return rep("f() ", n) })
	// ---- counts: locals, upvalues, params, args, returns, list items -----------------
	add("count", "locals-one-stat", countQ, countT, func(n int) string {
		return "local " + seq(n, func(i int) string { return "a" + num(i) }, ",") + " = 1 return a1"
	}, func(n int) string { return "i1" })
	add("count", "locals-many-stats", countQ, countT, func(n int) string {
		return seq(n, func(i int) string { return "local a" + num(i) + " = " + num(i) }, " ") + " return a" + num(n)
	}, func(n int) string { return encI(n) })
	add("count", "locals-in-blocks", countQ, countT, func(n int) string { // not simultaneously live: must compile
		return "local s = 0 " + seq(n, func(i int) string { return "do local a = " + num(i) + " s = s + a end" }, " ") + " return s"
	}, func(n int) string { return encI(n * (n + 1) / 2) })
	add("count", "upvalues", countQ, countT, func(n int) string {
		// levels of 100 locals each; the innermost function captures every one of them
		levels := (n + 99) / 100
		var sb strings.Builder
		var names []string
		for l := 0; l < levels; l++ {
			sb.WriteString("local function f" + num(l) + "() ")
			for i := 0; i < 100 && len(names) < n; i++ {
				nm := "v" + num(l) + "_" + num(i)
				names = append(names, nm)
				sb.WriteString("local " + nm + " = 1 ")
			}
		}
		sb.WriteString("return function() return " + strings.Join(names, "+") + " end ")
		for l := levels - 1; l >= 0; l-- {
			sb.WriteString("end ")
			if l > 0 {
				sb.WriteString("return f" + num(l) + "() ")
			}
		}
		sb.WriteString("return f0()()")
		return sb.String()
	}, func(n int) string { return encI(n) })
	add("count", "params", countQ, countT, func(n int) string {
		ps := seq(n, func(i int) string { return "p" + num(i) }, ",")
		return "local function f(" + ps + ") return p" + num(n) + " end return f(" + seq(n, num, ",") + ")"
	}, func(n int) string { return encI(n) })
	add("count", "args", listQ, listT, func(n int) string {
		return "local function f(...) return select('#', ...) end return f(" + seq(n, num, ",") + ")"
	}, func(n int) string { return encI(n) })
	add("count", "returns", listQ, listT, func(n int) string {
		return "local function f() return " + seq(n, num, ",") + " end return select('#', f())"
	}, func(n int) string { return encI(n) })
	add("count", "list-items", listQ, listT, func(n int) string { return "return #{" + seq(n, num, ",") + "}" }, func(n int) string { return encI(n) })
	add("count", "list-items-then-call", listQ, listT, func(n int) string {
		return "local function g() return 7, 8, 9 end local t = {" + seq(n, num, ",") + ", g()} return #t * 10 + t[#t]"
	}, func(n int) string { return encI((n+3)*10 + 9) })
	add("count", "list-items-then-vararg", listQ, listT, func(n int) string {
		return "local function g(...) local t = {" + seq(n, num, ",") + ", ...} return #t * 10 + t[#t] end return g(7, 8, 9)"
	}, func(n int) string { return encI((n+3)*10 + 9) })
	add("count", "named-fields", listQ, listT, func(n int) string {
		return "local t = {" + seq(n, func(i int) string { return "k" + num(i) + "=" + num(i) }, ",") + "} return t.k" + num(n)
	}, func(n int) string { return encI(n) })
	add("count", "assign-targets-from-vararg", listQ, listT, func(n int) string {
		return "local function f(...) local t = {} " + seq(n, func(i int) string { return "t[" + num(i) + "]" }, ",") + " = ... return t[" + num(n) + "] end return f(" + seq(n, num, ",") + ")"
	}, func(n int) string { return encI(n) })
	add("count", "assign-globals-from-call", listQ, listT, func(n int) string {
		return "local function g() return " + seq(n, num, ",") + " end " + seq(n, func(i int) string { return "g" + num(i) }, ",") + " = g() return g" + num(n)
	}, func(n int) string { return encI(n) })
	add("count", "local-from-vararg", countQ, countT, func(n int) string {
		return "local function f(...) local " + seq(n, func(i int) string { return "a" + num(i) }, ",") + " = ... return a" + num(n) + " end return f(" + seq(n, num, ",") + ")"
	}, func(n int) string { return encI(n) })
	add("count", "for-in-vars", countQ, countT, func(n int) string {
		return "local function it(s, c) if c then return nil end return " + seq(n, num, ",") + " end for " + seq(n, func(i int) string { return "v" + num(i) }, ",") + " in it do return v" + num(n) + " end"
	}, func(n int) string { return encI(n) })
	add("count", "tbc-variables", countQ, countT, func(n int) string {
		return "local c = 0 local mt = {__close = function() c = c + 1 end} do " + seq(n, func(i int) string { return "local x" + num(i) + " <close> = setmetatable({}, mt)" }, " ") + " end return c"
	}, func(n int) string { return encI(n) })
	add("count", "tbc-in-nested-blocks", countQ, countT, func(n int) string {
		return "local c = 0 local mt = {__close = function() c = c + 1 end} " + rep("do local x <close> = setmetatable({}, mt) ", n) + rep("end ", n) + " return c"
	}, func(n int) string { return encI(n) })
	add("count", "nested-closures-consts", constQ, constT, func(n int) string { // n function constants in one function
		return "local t = {} " + seq(n, func(i int) string { return "t[1] = function() end" }, " ") + " return 1"
	}, func(n int) string { return "i1" })
	// ---- constants table ---------------------------------------------------------
	add("consts", "distinct-string-constants", constQ, constT, func(n int) string {
		return "local x " + seq(n, func(i int) string { return "x = 's" + num(i) + "'" }, " ") + " return x"
	}, func(n int) string { return "s" + hlib.Hex("s"+num(n)) })
	add("consts", "distinct-float-constants", []int{1000, 70000}, constT, func(n int) string {
		return "local x = 0 " + seq(n, func(i int) string { return "x = x + " + num(i) + ".5" }, " ") + " return x"
	}, nil)
	add("consts", "distinct-global-names", constQ, constT, func(n int) string {
		return seq(n, func(i int) string { return "g" + num(i) + " = 1" }, " ") + " return g" + num(n)
	}, func(n int) string { return "i1" })
	// ---- jump distance -------------------------------------------------------------
	add("jump", "forward-jump-if-false", jumpQ, jumpT, func(n int) string {
		return "local x, c = 0, false if c then " + rep("x = x + 1 ", n) + "end return x"
	}, func(n int) string { return "i0" })
	add("jump", "forward-jump-if-true", jumpQ, jumpT, func(n int) string {
		return "local x, c = 0, true if c then " + rep("x = x + 1 ", n) + "else x = -1 end return x"
	}, func(n int) string { return encI(n) })
	add("jump", "backward-jump-while", jumpQ, jumpT, func(n int) string {
		return "local x, i = 0, 0 while i < 2 do " + rep("x = x + 1 ", n) + "i = i + 1 end return x"
	}, func(n int) string { return encI(2 * n) })
	add("jump", "backward-jump-for", jumpQ, jumpT, func(n int) string {
		return "local x = 0 for i = 1, 2 do " + rep("x = x + 1 ", n) + "end return x"
	}, func(n int) string { return encI(2 * n) })
	add("jump", "goto-forward", jumpQ, jumpT, func(n int) string {
		return "local x = 0 goto done " + "do " + rep("x = x + 1 ", n) + "end ::done:: return x"
	}, func(n int) string { return "i0" })
	add("jump", "break-out-of-big-loop", jumpQ, jumpT, func(n int) string {
		return "local x = 0 while true do x = x + 1 if x > 0 then break end " + rep("x = x + 1 ", n) + "end return x"
	}, func(n int) string { return "i1" })
	add("jump", "and-or-short-circuit", jumpQ, jumpT, func(n int) string {
		return "local f = false local x = f and (" + "1" + rep("+1", n) + ") return x"
	}, func(n int) string { return "F" })
	add("jump", "forward-jump-wraps-into-body", []int{21001}, []int{20000, 21000, 21001, 21002, 25000}, func(n int) string {
		// the skipped body is longer than 65536 opcodes and contains an early return: if the 16-bit
		// offset wraps, execution lands inside the body and returns a non-zero x
		return "local x, c = 0, false if c then " + rep("x = x + 1 ", 1000) + "do return x end " + rep("x = 0 ", n%3) + rep("x = x + 1 ", n) + "end return x"
	}, func(n int) string { return "i0" })
	// ---- lengths -----------------------------------------------------------------------
	add("length", "long-identifier", lengthQ, lengthT, func(n int) string { return "local " + rep("a", n) + " = 4 return " + rep("a", n) }, func(n int) string { return "i4" })
	add("length", "long-string-literal", lengthQ, lengthT, func(n int) string { return "return #'" + rep("s", n) + "'" }, func(n int) string { return encI(n) })
	add("length", "long-longstring", lengthQ, lengthT, func(n int) string { return "return #[[" + rep("s\n", n) + "]]" }, func(n int) string { return encI(2 * n) })
	add("length", "long-comment", lengthQ, lengthT, func(n int) string { return "--" + rep("c", n) + "\n--[[" + rep("c\n", n) + "]] return 1" }, func(n int) string { return "i1" })
	add("length", "long-numeral", lengthQ, lengthT, func(n int) string {
		return "return 0 * 1" + rep("0", n) + ", 0x" + rep("f", n) + ", 0." + rep("0", n) + "1, 1e" + rep("9", 30)
	}, nil)
	add("length", "many-lines", lengthQ, lengthT, func(n int) string { return rep("\n", n) + "return 1 +" }, nil)
	add("length", "long-escapes", lengthQ, lengthT, func(n int) string { return "return #\"" + rep("\\x41\\65\\u{41}\\z  \\n", n) + "\"" }, func(n int) string { return encI(4 * n) })
	// ---- run time: recursion -------------------------------------------------------------
	rtm := func(name string, q, t []int, gen func(n int) string, expect func(n int) string) {
		add("runtime", name, q, t, gen, expect)
	}
	rtm("recursion-lua", depthQ, depthT, func(n int) string {
		return "local function f(n) if n == 0 then return 0 end return 1 + f(n - 1) end return f(" + num(n) + ")"
	}, func(n int) string { return encI(n) })
	rtm("recursion-pcall", depthQ, depthT, func(n int) string {
		return "local function f(n) if n == 0 then return 0 end local ok, v = pcall(f, n - 1) if not ok then error(v, 0) end return v + 1 end return select(2, pcall(f, " + num(n) + ")) ~= nil"
	}, func(n int) string { return "t" })
	rtm("recursion-index-function", depthQ, depthT, func(n int) string {
		return "local mt = {} mt.__index = function(t, k) if k == 0 then return 0 end return t[k - 1] + 1 end local t = setmetatable({}, mt) return select(2, pcall(function() return t[" + num(n) + "] end)) ~= nil"
	}, func(n int) string { return "t" })
	rtm("index-table-chain", depthQ, depthT, func(n int) string {
		return "local t = {v = 1} for i = 1, " + num(n) + " do t = setmetatable({}, {__index = t}) end return t.v"
	}, func(n int) string { return "i1" })
	rtm("newindex-table-chain", depthQ, depthT, func(n int) string {
		return "local base = {} local t = base for i = 1, " + num(n) + " do t = setmetatable({}, {__newindex = t}) end t.v = 2 return base.v"
	}, func(n int) string { return "i2" })
	rtm("index-loop", single, single, func(n int) string {
		return "local t = {} setmetatable(t, {__index = t}) return select(2, pcall(function() return t.x end)) == nil or true"
	}, nil)
	rtm("call-chain", depthQ, depthT, func(n int) string {
		return "local f = function() return 5 end for i = 1, " + num(n) + " do f = setmetatable({}, {__call = f}) end return (select(2, pcall(f))) ~= nil"
	}, func(n int) string { return "t" })
	rtm("recursion-call-metamethod", depthQ, depthT, func(n int) string {
		return "local o o = setmetatable({}, {__call = function(self, n) if n == 0 then return 0 end return 1 + o(n - 1) end}) return select(2, pcall(o, " + num(n) + ")) ~= nil"
	}, func(n int) string { return "t" })
	rtm("recursion-tostring", depthQ, depthT, func(n int) string {
		return "local d = 0 local o o = setmetatable({}, {__tostring = function() d = d + 1 if d > " + num(n) + " then return 'x' end return tostring(o) end}) return select(2, pcall(tostring, o)) ~= nil"
	}, func(n int) string { return "t" })
	rtm("recursion-concat", depthQ, depthT, func(n int) string {
		return "local d = 0 local o o = setmetatable({}, {__concat = function(a, b) d = d + 1 if d > " + num(n) + " then return 'x' end return o .. 1 end}) return select(2, pcall(function() return o .. 1 end)) ~= nil"
	}, func(n int) string { return "t" })
	rtm("recursion-eq", depthQ, depthT, func(n int) string {
		return "local d = 0 local a, b local mt = {__eq = function() d = d + 1 if d > " + num(n) + " then return true end return a == b end} a, b = setmetatable({}, mt), setmetatable({}, mt) return select(2, pcall(function() return a == b end)) ~= nil"
	}, func(n int) string { return "t" })
	rtm("recursion-lt", depthQ, depthT, func(n int) string {
		return "local d = 0 local a local mt = {__lt = function() d = d + 1 if d > " + num(n) + " then return true end return a < a end, __le = function() return a < a end} a = setmetatable({}, mt) return select(2, pcall(function() return a <= a end)) ~= nil"
	}, func(n int) string { return "t" })
	rtm("recursion-len-unm-arith", depthQ, depthT, func(n int) string {
		return "local d = 0 local a local mt = {__len = function() d = d + 1 if d > " + num(n) + " then return 1 end return -a end, __unm = function() return a + 1 end, __add = function() return #a end} a = setmetatable({}, mt) return select(2, pcall(function() return #a end)) ~= nil"
	}, func(n int) string { return "t" })
	rtm("recursion-close", depthQ, depthT, func(n int) string {
		return "local function f(n) if n == 0 then return 0 end local x <close> = setmetatable({}, {__close = function() end}) return 1 + f(n - 1) end return select(2, pcall(f, " + num(n) + ")) ~= nil"
	}, func(n int) string { return "t" })
	rtm("close-handler-recursion", depthQ, depthT, func(n int) string {
		return "local d = 0 local function mk() return setmetatable({}, {__close = function() d = d + 1 if d < " + num(n) + " then local y <close> = mk() end end}) end local ok = pcall(function() local x <close> = mk() end) return d > 0"
	}, func(n int) string { return "t" })
	rtm("close-error-chain", depthQ, depthT, func(n int) string {
		return "local ok, e = pcall(function() " + "for i = 1, 1 do " + seq(min(n, 200), func(i int) string {
			return "local x" + num(i) + " <close> = setmetatable({}, {__close = function(_, e) error('c" + num(i) + "', 0) end})"
		}, " ") + " error('first', 0) end end) return e"
	}, nil)
	rtm("gc-finalizer-recursion", depthQ, depthT, func(n int) string {
		return "local d = 0 local function mk() setmetatable({}, {__gc = function() d = d + 1 if d < " + num(min(n, 100000)) + " then mk() collectgarbage() end end}) end mk() collectgarbage() collectgarbage() return 1"
	}, func(n int) string { return "i1" })
	rtm("gc-finalizer-errors", single, single, func(n int) string {
		return "for i = 1, 100 do setmetatable({}, {__gc = function(o) error(setmetatable({}, {__tostring = function() error('again') end})) end}) end collectgarbage() collectgarbage() return 1"
	}, func(n int) string { return "i1" })
	rtm("sort-comparator-recursion", depthQ, depthT, func(n int) string {
		return "local d = 0 local t = {3, 1, 2} local function cmp(a, b) d = d + 1 if d < " + num(n) + " then table.sort({3, 2, 1}, cmp) end return a < b end return select(2, pcall(table.sort, t, cmp)) == nil or true"
	}, func(n int) string { return "t" })
	rtm("sort-bad-comparators", single, single, func(n int) string {
		return `local t = {} for i = 1, 1000 do t[i] = (i * 7919) % 1000 end
local r = {pcall(table.sort, t, function(a, b) return true end), pcall(table.sort, t, function(a, b) return false end),
  pcall(table.sort, t, function(a, b) return a <= b end), pcall(table.sort, t, function(a, b) error("cmp") end),
  pcall(table.sort, t, function(a, b) t[#t + 1] = 1 return a < b end), pcall(table.sort, t, function(a, b) for k in pairs(t) do t[k] = nil end return a < b end),
  pcall(table.sort, {1, "a", 2}), pcall(table.sort, {1, 2, nil, 4}), pcall(table.sort, setmetatable({}, {__len = function() return 2^40 end})),
  pcall(table.sort, setmetatable({}, {__len = function() return -5 end})), pcall(table.sort, t, function(a, b) return coroutine.yield() end)}
return #r > 0`
	}, func(n int) string { return "t" })
	rtm("gsub-callback-recursion", depthQ, depthT, func(n int) string {
		return "local d = 0 local function f(s) d = d + 1 if d < " + num(n) + " then return (s:gsub('.', f)) end return s end return select(2, pcall(f, 'ab')) ~= nil"
	}, func(n int) string { return "t" })
	rtm("coroutine-wrap-recursion", depthQ, depthT, func(n int) string {
		return "local function f(n) if n == 0 then return 0 end return 1 + coroutine.wrap(f)(n - 1) end return select(2, pcall(f, " + num(n) + ")) ~= nil"
	}, func(n int) string { return "t" })
	rtm("coroutine-resume-recursion", depthQ, depthT, func(n int) string {
		return "local function f(n) if n == 0 then return 0 end local co = coroutine.create(f) local ok, v = coroutine.resume(co, n - 1) if not ok then error(v, 0) end return v + 1 end return select(2, pcall(f, " + num(n) + ")) ~= nil"
	}, func(n int) string { return "t" })
	rtm("coroutine-many-suspended", depthQ, depthT, func(n int) string {
		return "local t = {} for i = 1, " + num(n) + " do local co = coroutine.create(function() coroutine.yield() end) coroutine.resume(co) t[i] = co end return #t > 0"
	}, func(n int) string { return "t" })
	rtm("coroutine-misuse", single, single, func(n int) string {
		return `local co co = coroutine.create(function() return coroutine.resume(co) end)
local r = {coroutine.resume(co)}
local co2 = coroutine.wrap(function() return pcall(coroutine.yield, 1) end)
r[#r + 1] = co2() r[#r + 1] = co2()
r[#r + 1] = pcall(coroutine.yield, 1)
r[#r + 1] = pcall(coroutine.close, coroutine.running())
r[#r + 1] = pcall(coroutine.resume, coroutine.running())
local co3 = coroutine.create(function() coroutine.close(co3) end) r[#r + 1] = coroutine.resume(co3)
local co4 = coroutine.wrap(function() error(setmetatable({}, {__tostring = function() error("x") end})) end) r[#r + 1] = pcall(co4) r[#r + 1] = pcall(co4)
local co5 = coroutine.create(function() local x <close> = setmetatable({}, {__close = function() coroutine.yield() end}) error("e") end) r[#r + 1] = coroutine.resume(co5) r[#r + 1] = coroutine.resume(co5) r[#r + 1] = coroutine.close(co5)
setmetatable({}, {__gc = function() coroutine.yield() end}) collectgarbage()
local co6 = coroutine.wrap(function() table.sort({3, 2, 1}, function(a, b) coroutine.yield() return a < b end) end) r[#r + 1] = pcall(co6) r[#r + 1] = pcall(co6)
local co7 = coroutine.wrap(function() ("x"):gsub(".", function() coroutine.yield() end) end) r[#r + 1] = pcall(co7) r[#r + 1] = pcall(co7)
local co8 = coroutine.wrap(function() for k in coroutine.wrap(function() coroutine.yield(1) end) do coroutine.yield(k) end end) r[#r + 1] = co8()
return #r > 0`
	}, func(n int) string { return "t" })
	rtm("xpcall-handler-recursion", depthQ, depthT, func(n int) string {
		return "local d = 0 local function h(m) d = d + 1 if d < " + num(n) + " then error(m) end return 'done' end return select('#', xpcall(error, h, 'x')) > 0"
	}, func(n int) string { return "t" })
	rtm("hang-xpcall-handler-operator-error", single, single, func(n int) string {
		return `return select("#", xpcall(function() error("x") end, function(m) return -"a" end)) > 0`
	}, func(n int) string { return "t" })
	rtm("error-objects", single, single, func(n int) string {
		return `local bad = setmetatable({}, {__tostring = function() error("tostring fails") end})
local r = {pcall(error, bad), pcall(error, nil), pcall(error, coroutine.create(print)), pcall(error, print), pcall(error, 1/0), pcall(error, "lvl", 1e308), pcall(error, "lvl", -1), pcall(error, "x", "y")}
r[#r + 1] = pcall(tostring, bad) r[#r + 1] = pcall(print, bad) r[#r + 1] = pcall(string.format, "%s", bad) r[#r + 1] = pcall(table.concat, {bad})
r[#r + 1] = xpcall(error, function() error(bad) end, bad)
r[#r + 1] = xpcall(error, bad) r[#r + 1] = pcall(xpcall) r[#r + 1] = pcall(xpcall, print) r[#r + 1] = xpcall(error, 1)
error(bad)`
	}, nil)
	// ---- run time: huge counts under the memory limit ---------------------------------------
	rtm("string-rep-huge", hugeQ, hugeT, func(n int) string { return "return select('#', pcall(string.rep, 'x', " + num(n) + ")) > 0" }, func(n int) string { return "t" })
	rtm("string-rep-sep-huge", hugeQ, hugeT, func(n int) string {
		return "return select('#', pcall(string.rep, 'ab', " + num(n) + ", 'cd')) > 0 and select('#', pcall(string.rep, '', " + num(n) + ", '')) > 0 and select('#', pcall(string.rep, '', " + num(n) + ", 'x')) > 0"
	}, func(n int) string { return "t" })
	rtm("table-concat-huge", hugeQ, hugeT, func(n int) string {
		return "return select('#', pcall(table.concat, {}, 'x', 1, " + num(n) + ")) > 0 and select('#', pcall(table.concat, {'a'}, ('x'):rep(1000), -" + num(n) + ", 1)) > 0"
	}, func(n int) string { return "t" })
	rtm("table-unpack-huge", hugeQ, hugeT, func(n int) string {
		return "return select('#', pcall(table.unpack, {}, 1, " + num(n) + ")) > 0 and select('#', pcall(table.unpack, {}, -" + num(n) + ", 1)) > 0 and select('#', pcall(table.unpack, {}, math.mininteger, math.maxinteger)) > 0"
	}, func(n int) string { return "t" })
	rtm("select-huge", hugeQ, hugeT, func(n int) string {
		return "return select('#', pcall(select, " + num(n) + ", 1, 2)) > 0 and select('#', pcall(select, -" + num(n) + ", 1, 2)) > 0 and pcall(function() return select('#', table.unpack({}, 1, " + num(min(n, 1<<24)) + ")) end) ~= nil"
	}, func(n int) string { return "t" })
	rtm("string-format-width", hugeQ, hugeT, func(n int) string {
		return "local r = {pcall(string.format, '%" + num(n) + "d', 1), pcall(string.format, '%." + num(n) + "f', 1.5), pcall(string.format, '%-" + num(n) + "s', 'x'), pcall(string.format, '%." + num(n) + "s', 'x'), pcall(string.format, '%0" + num(n) + "x', 1), pcall(string.format, '%" + num(n) + "q', 'x'), pcall(string.format, '%#" + num(n) + ".99g', 1)} return #r > 0"
	}, func(n int) string { return "t" })
	rtm("string-format-many", depthQ, depthT, func(n int) string {
		return "return select('#', pcall(string.format, ('%s'):rep(" + num(n) + "), 1)) > 0 and select('#', pcall(string.format, ('%%'):rep(" + num(n) + "))) > 0 and select('#', pcall(string.format, ('%5.2'):rep(" + num(n) + "))) > 0"
	}, func(n int) string { return "t" })
	rtm("string-byte-char-huge", depthQ, depthT, func(n int) string {
		return "local s = ('x'):rep(" + num(n) + ") return select('#', pcall(function() return string.char(s:byte(1, -1)) end)) > 0 and select('#', pcall(string.byte, s, -" + num(n) + "0, " + num(n) + "0)) > 0"
	}, func(n int) string { return "t" })
	rtm("table-insert-move-huge", hugeQ, hugeT, func(n int) string {
		return "local t = {1, 2, 3} local r = {pcall(table.insert, t, " + num(n) + ", 1), pcall(table.remove, t, " + num(n) + "), pcall(table.move, t, 1, " + num(n) + ", 2), pcall(table.move, t, -" + num(n) + ", 1, math.maxinteger), pcall(table.move, t, 1, 2, math.maxinteger), pcall(table.move, t, math.mininteger, 0, 1)} return #r > 0"
	}, func(n int) string { return "t" })
	rtm("table-functions-with-len-metamethod", []int{1000, 100000}, hugeT, func(n int) string {
		return "local p = setmetatable({}, {__len = function() return " + num(n) + " end, __index = function(t, i) return i end, __newindex = function() end}) local r = {pcall(table.insert, p, 1), pcall(table.remove, p), pcall(table.concat, p), pcall(table.unpack, p), pcall(table.sort, p), pcall(table.insert, p, 1, 1), pcall(ipairs(p)), pcall(next, p)} return #r > 0"
	}, func(n int) string { return "t" })
	rtm("pack-unpack-sizes", hugeQ, hugeT, func(n int) string {
		return "local r = {pcall(string.pack, 'i" + num(n) + "', 1), pcall(string.pack, 'c" + num(n) + "', ''), pcall(string.packsize, 'c" + num(n) + "c" + num(n) + "'), pcall(string.pack, '!" + num(n) + " i4', 1), pcall(string.unpack, 'c" + num(n) + "', 'abc'), pcall(string.unpack, 's', 'abc', " + num(n) + "), pcall(string.unpack, 'i4', 'abcdefgh', -" + num(n) + "), pcall(string.pack, 's1', ('x'):rep(300)), pcall(string.packsize, ('i8'):rep(" + num(min(n, 100000)) + ")), pcall(string.pack, 'j', 2^63), pcall(string.unpack, 'I16', ('\\255'):rep(16)), pcall(string.unpack, 'i9', ('\\255'):rep(9)), pcall(string.unpack, 'f', 'abc'), pcall(string.pack, 'Xi16')} return #r > 0"
	}, func(n int) string { return "t" })
	rtm("utf8-huge", hugeQ, hugeT, func(n int) string {
		return "local r = {pcall(utf8.char, " + num(n) + "), pcall(utf8.char, -1), pcall(utf8.codepoint, 'abc', -" + num(n) + ", " + num(n) + "), pcall(utf8.offset, 'abc', " + num(n) + "), pcall(utf8.offset, 'abc', -" + num(n) + "), pcall(utf8.offset, 'abc', 1, " + num(n) + "), pcall(utf8.len, 'abc', " + num(n) + "), pcall(utf8.len, 'abc', 1, -" + num(n) + "), pcall(utf8.codepoint, '\\xf4\\x90\\x80\\x80'), pcall(utf8.len, '\\xfd\\xbf\\xbf\\xbf\\xbf\\xbf', 1, -1, true), pcall(utf8.codes('\\xff'), '\\xff', 0), pcall(utf8.codes('abc'), 'abc', " + num(n) + "), pcall(utf8.codes('abc'), 'abc', -" + num(n) + ")} return #r > 0"
	}, func(n int) string { return "t" })
	rtm("string-sub-find-positions", hugeQ, hugeT, func(n int) string {
		return "local s = 'hello' local r = {s:sub(" + num(n) + "), s:sub(-" + num(n) + "), s:sub(1, " + num(n) + "), s:sub(-" + num(n) + ", -" + num(n) + "), s:sub(math.mininteger, math.maxinteger), s:sub(math.maxinteger, math.mininteger), s:find('l', " + num(n) + "), s:find('l', -" + num(n) + "), s:find('', " + num(n) + "), s:find('', 6), s:find('', 7), s:match('l', math.mininteger), s:byte(math.mininteger, math.mininteger), s:byte(" + num(n) + "), pcall(s.gmatch, s, 'l', " + num(n) + "), s:find('l', math.maxinteger, true), s:find('', math.mininteger, true), s:find('', 100, true), s:rep(-" + num(n) + "), s:rep(0, s)} return 1"
	}, func(n int) string { return "i1" })
	// ---- patterns -------------------------------------------------------------------------
	rtm("pattern-nested-captures", depthQ, depthT, func(n int) string {
		return "return select('#', pcall(string.find, ('x'):rep(10), ('('):rep(" + num(n) + ") .. 'x' .. (')'):rep(" + num(n) + "))) > 0"
	}, func(n int) string { return "t" })
	rtm("pattern-many-items", []int{5, 20}, []int{5, 20, 25, 30, 200, 1000}, func(n int) string {
		return "local s = ('a'):rep(" + num(min(n, 5000)) + ") local r = {pcall(string.find, s, ('a?'):rep(" + num(n) + ") .. 'b'), pcall(string.find, s, ('.-'):rep(" + num(n) + ") .. 'b'), pcall(string.find, s, ('a*'):rep(" + num(n) + ") .. 'b'), pcall(string.match, s, ('[a-z]'):rep(" + num(n) + ")), pcall(string.gsub, s, ('%w'):rep(" + num(n) + "), '%0')} return #r > 0"
	}, func(n int) string { return "t" })
	rtm("pattern-long-subject-backtracking", depthQ, depthT, func(n int) string {
		return "local s = ('a'):rep(" + num(n) + ") local r = {pcall(string.find, s, '.-b'), pcall(string.find, s, '(.-)(.-)(.-)b'), pcall(string.match, s, '^(a*)*$'), pcall(string.find, s, 'a*a*a*a*b'), pcall(string.gsub, s, 'a-', 'x'), pcall(string.find, s, '%b()'), pcall(string.find, ('('):rep(" + num(n) + "), '%b()'), pcall(string.find, s, '%f[b]'), pcall(string.gmatch(s, '()'))} return #r > 0"
	}, func(n int) string { return "t" })
	rtm("pattern-malformed", single, single, func(n int) string {
		return `local pats = {"%", "[", "[a", "[a-", "[%", "%b", "%bx", "%f", "%f[", "(", ")", "(()", "%1", "(%1)", "(a)%2", "[]", "[^]", "[]]", "[^]]", "%g", "a**", "*", "+", "-", "?", "^*", "$*", "^^", "$$", "a$b", "()()()()()()()()()()()()()()()()()()()()()()()()()()()()()()()()()", "%z", "[%a-z]", "[z-a]", "[a-%%]", "%b()%", "\0", "[\0]", "%\0", "(", "%f[^\0]", ".-", "^.-$", "[%", "%f[%", "[%]", "[%a", "(()())%3", "%0", "(%0)"}
local subs = {"", "a", "abc", "(a)", "\0", "a\0b", "%", "[]"}
local n = 0
for _, p in ipairs(pats) do for _, s in ipairs(subs) do
  pcall(string.find, s, p) pcall(string.match, s, p) pcall(string.gsub, s, p, "%1") pcall(string.gsub, s, p, "%") pcall(string.gsub, s, p, "%9") pcall(string.gsub, s, p, {}) pcall(string.gsub, s, p, print)
  pcall(function() for a in string.gmatch(s, p) do n = n + 1 if n > 1000 then break end end end) pcall(string.find, s, p, 1, true) pcall(string.find, s, p, -1) pcall(string.find, s, p, 10)
end end
return 1`
	}, func(n int) string { return "i1" })
	// ---- load ---------------------------------------------------------------------------
	rtm("load-readers", single, single, func(n int) string {
		return `local r = {}
r[#r + 1] = load(function() error("reader error") end)
r[#r + 1] = load(function() error(setmetatable({}, {__tostring = function() error("x") end})) end)
r[#r + 1] = load(function() return 1 end)
r[#r + 1] = load(function() return {} end)
r[#r + 1] = load(function() return true end)
r[#r + 1] = load(function() return print end)
r[#r + 1] = load(function() return "" end)
r[#r + 1] = load(function() return nil end)
r[#r + 1] = load(function() return end)
local i = 0 r[#r + 1] = load(function() i = i + 1 if i < 5 then return "local x = 1 " end if i == 5 then return 5 end end)
r[#r + 1] = pcall(load, function() return load(function() return load(function() error("deep") end) end) end)
r[#r + 1] = pcall(load, coroutine.wrap(function() coroutine.yield("return ") coroutine.yield("1") end))
local co = coroutine.wrap(function() return load(function() return coroutine.yield() end) end) r[#r + 1] = pcall(co) r[#r + 1] = pcall(co, "return 1") r[#r + 1] = pcall(co)
r[#r + 1] = pcall(load) r[#r + 1] = pcall(load, nil) r[#r + 1] = pcall(load, 1) r[#r + 1] = pcall(load, {}) r[#r + 1] = pcall(load, "x", {}) r[#r + 1] = pcall(load, "x", "n", {}) r[#r + 1] = pcall(load, "x", "n", "q")
r[#r + 1] = pcall(load, "return 1", "n", "t", 5) r[#r + 1] = pcall(load("return x", "n", "t", 5))
r[#r + 1] = pcall(load, "\27Lua") r[#r + 1] = pcall(load, "\27") r[#r + 1] = pcall(load, "\27Lua", "n", "t") r[#r + 1] = pcall(load, "return 1", "n", "b") r[#r + 1] = pcall(load, "", "n", "")
r[#r + 1] = pcall(load, ("x"):rep(100000)) r[#r + 1] = pcall(load, "#!shebang\nreturn 1") r[#r + 1] = pcall(load, "#")
local function rec(n) if n == 0 then return "return 1" end return load(rec(n - 1)) and ("return load(" .. ("%q"):format(rec(n - 1)) .. ")") end r[#r + 1] = pcall(rec, 8)
return 1`
	}, func(n int) string { return "i1" })
	rtm("load-corrupt-size-field", single, single, func(n int) string {
		// dump of an empty chunk named "x": 4-byte prefix, source (8-byte length + "x"), function name (8-byte
		// length + bytes), then the 8-byte opcode count; its 5th byte set to 1 asks for 2^32 opcodes (16 GiB)
		return `local d = string.dump(load("", "x")) local p = 26 + d:byte(14) d = d:sub(1, p - 1) .. "\1" .. d:sub(p + 1) return select("#", pcall(load, d, "x", "b")) > 0`
	}, func(n int) string { return "t" })
	rtm("load-dump-truncated-and-flipped", single, single, func(n int) string {
		return `local function f(a, ...) local t = {a, ..., "str", 1.5, 10000000000, true, nil} local function g() return t, a end for i = 1, 3 do t[i] = g end return g, ... end
local d = string.dump(f)
local n = 0
for k = 0, #d do if pcall(load, d:sub(1, k), "t", "b") then n = n + 1 end end
for k = 1, #d do
  for _, b in ipairs{0, 1, 127, 128, 255} do pcall(load, d:sub(1, k - 1) .. string.char(b) .. d:sub(k + 1), "f", "b") end
end
pcall(load, d .. d, "dd", "b") pcall(load, d:sub(2), "d2", "b") pcall(load, d:rep(3), "d3", "b")
pcall(string.dump, print) pcall(string.dump) pcall(string.dump, 1) pcall(string.dump, f, true) pcall(string.dump, coroutine.wrap(f))
return n >= 1`
	}, func(n int) string { return "t" })

	// ---- size overflow at the ROOT context (no memory limit): sizes that no allocation can satisfy must
	// be refused with a Lua error, not by a Go panic (makeslice: len out of range) or a fatal out-of-memory.
	// Only sizes >= 2^49 are used: below that an unlimited context may legitimately try to allocate.
	ovSizes := []int{1 << 49, 1 << 50, 1 << 55, 1 << 60, 1 << 61, 1<<62 - 1, 1 << 62, 1<<63 - 1}
	ovf := func(name string, calls func(n string) []string) {
		ts = append(ts, template{name: name, group: "overflow", nolimit: true, quick: single, thor: single,
			gen: func(int) string {
				var sb strings.Builder
				sb.WriteString("local r = 0\n")
				for _, n := range ovSizes {
					for _, c := range calls(num(n)) {
						sb.WriteString("r = r + select('#', pcall(" + c + "))\n")
					}
				}
				sb.WriteString("return r > 0")
				return sb.String()
			}, expect: func(int) string { return "t" }})
	}
	ovf("overflow-string-rep", func(n string) []string {
		return []string{"string.rep, 'x', " + n, "string.rep, 'ab', " + n, "string.rep, 'ab', " + n + ", 'c'", "string.rep, 'a', " + n + ", 'c'",
			"string.rep, '', " + n + ", 'c'", "string.rep, 'abc', " + n + ", ''", "string.rep, ('x'):rep(1000), " + n, "string.rep, ('x'):rep(1000), " + n + " // 1000, ('y'):rep(1000)"}
	})
	ovf("overflow-table-unpack-select", func(n string) []string {
		return []string{"table.unpack, {}, 1, " + n, "table.unpack, {}, -" + n + ", 1", "table.unpack, {1, 2, 3}, math.mininteger, " + n,
			"select, " + n + ", 1, 2", "select, -" + n + ", 1, 2", "table.pack, table.unpack({}, 1, 3)",
			"table.concat, {}, '', 1, " + n, "table.concat, {'a'}, ('s'):rep(100), -" + n + ", " + n}
	})
	ovf("overflow-string-unpack-packsize", func(n string) []string {
		// (string.pack with a huge 'c' size pads byte by byte until memory runs out: gradual exhaustion in a
		// context without a memory limit, which is the host's choice, so it is not part of this family)
		return []string{"string.packsize, 'c" + n + "'", "string.packsize, 'c" + n + "c" + n + "c" + n + "c" + n + "'",
			"string.unpack, 'c" + n + "', 'abc'", "string.unpack, 's8', ('\\255'):rep(7) .. '\\127'",
			"string.unpack, 'c1', 'abc', " + n, "string.unpack, 'z', 'abc', -" + n}
	})
	ovf("overflow-string-misc", func(n string) []string {
		return []string{"string.format, '%" + n + "d', 1", "string.format, '%." + n + "s', 'x'", "string.char, " + n, "string.byte, 'abc', 1, " + n, "string.byte, 'abc', -" + n + ", " + n,
			"string.sub, 'abc', -" + n + ", " + n, "string.find, 'abc', 'b', " + n, "string.gsub, 'abc', 'b', 'x', " + n, "utf8.char, " + n, "utf8.offset, 'abc', " + n, "utf8.codepoint, 'abc', 1, " + n,
			"utf8.len, 'abc', " + n, "math.random, " + n, "math.random, -" + n + ", " + n, "string.format, ('%%'):rep(10) .. '%" + n + "s', 'x'"}
	})
	ovf("overflow-load-reader", func(n string) []string {
		return []string{"load, 'return ' .. " + n + " .. ' + ' .. " + n, "tonumber, ('9'):rep(400)", "tonumber, '1e" + n + "'", "tonumber, '0x" + "ffffffffffffffffffffffff" + "p" + n + "'", "math.tointeger, '" + n + "'"}
	})
	// ---- coroutine topologies: every misuse is an ordinary error or result, never a Go panic, a deadlock
	// (these templates must answer at once: a TIMEOUT is a violation) or a process exit
	cot := func(name, body, want string) {
		ts = append(ts, template{name: "coroutine-" + name, group: "coroutine", nolimit: name == "kill-inside-coroutine", quick: single, thor: single,
			gen: func(int) string { return body }, expect: func(int) string { return want }})
	}
	cot("resume-self", `local co co = coroutine.create(function() return coroutine.resume(co) end)
local ok, ok2, msg = coroutine.resume(co) return ok == true and ok2 == false and type(msg) == "string" and coroutine.status(co) == "dead"`, "t")
	cot("resume-resumer", `local outer outer = coroutine.create(function()
  local inner = coroutine.create(function() return coroutine.resume(outer, "from inner") end)
  local r = table.pack(coroutine.resume(inner)) return "outer done", table.unpack(r, 1, r.n) end)
local r = table.pack(coroutine.resume(outer))
return r[1] == true and r[2] == "outer done" and r[3] == true and r[4] == false and type(r[5]) == "string" and coroutine.status(outer) == "dead"`, "t")
	cot("resume-resumer-chain", `local cos = {}
for i = 1, 5 do cos[i] = coroutine.create(function() if i < 5 then return coroutine.resume(cos[i + 1]) end
  local r = {} for j = 1, 5 do r[j] = select("#", coroutine.resume(cos[j])) end return table.concat(r, ",") end) end
local r = table.pack(coroutine.resume(cos[1])) return r[1] == true and type(r[r.n]) == "string"`, "t")
	cot("resume-main-from-coroutine", `local main = coroutine.running()
local co = coroutine.create(function() return coroutine.resume(main) end)
local ok, ok2, msg = coroutine.resume(co) return ok == true and ok2 == false and type(msg) == "string"`, "t")
	cot("wrap-self", `local w w = coroutine.wrap(function() return pcall(w) end)
local ok, msg = w() return ok == false and msg ~= nil`, "t")
	cot("wrap-resumer", `local outer outer = coroutine.wrap(function() local inner = coroutine.wrap(function() return pcall(outer) end) return inner() end)
local ok, msg = outer() return ok == false and msg ~= nil`, "t")
	cot("wrap-dead-and-error", `local w = coroutine.wrap(function() return 1 end) w()
local ok1 = pcall(w) local w2 = coroutine.wrap(function() error("boom") end) local ok2 = pcall(w2) local ok3 = pcall(w2)
return ok1 == false and ok2 == false and ok3 == false`, "t")
	cot("close-running-normal-self", `local main = coroutine.running()
local r = {pcall(coroutine.close, main)}
local co co = coroutine.create(function() local a = {pcall(coroutine.close, co)}
  local inner = coroutine.create(function() return pcall(coroutine.close, co) end)
  local b = {coroutine.resume(inner)} return a[1], b[2] end)
local ok, a1, b2 = coroutine.resume(co)
return r[1] == false and ok == true and a1 == false and b2 == false and coroutine.close(co) == true and coroutine.status(co) == "dead"`, "t")
	cot("close-suspended-with-pending-closes", `local log = {}
local co = coroutine.create(function() local a <close> = setmetatable({}, {__close = function() log[#log + 1] = "a" end})
  local b <close> = setmetatable({}, {__close = function() log[#log + 1] = "b" error("in b") end}) coroutine.yield(1) end)
coroutine.resume(co) local ok, err = coroutine.close(co)
return ok == false and #log == 2 and coroutine.status(co) == "dead" and coroutine.close(co) == false`, "t")
	cot("resume-inside-close-handler", `local other = coroutine.create(function() coroutine.yield("y1") return "done" end)
local r = {}
local co = coroutine.create(function() local x <close> = setmetatable({}, {__close = function() r[#r + 1] = select(2, coroutine.resume(other)) r[#r + 1] = select(2, coroutine.resume(other)) end}) coroutine.yield() end)
coroutine.resume(co) coroutine.close(co)
local co2 = coroutine.create(function() local x <close> = setmetatable({}, {__close = function() r[#r + 1] = select("#", coroutine.resume(co2)) end}) error("e") end)
coroutine.resume(co2)
return r[1] == "y1" and r[2] == "done"`, "t")
	cot("yield-inside-close-handler", `local co = coroutine.create(function() do local x <close> = setmetatable({}, {__close = function() coroutine.yield("from close") end}) end return "end" end)
local a = {coroutine.resume(co)} local b = {coroutine.resume(co)}
return a[1] == true and coroutine.status(co) == "dead" or a[1] == false`, "t")
	cot("resume-and-yield-inside-gc", `local co = coroutine.create(function() coroutine.yield(1) return 2 end)
for i = 1, 50 do setmetatable({}, {__gc = function() pcall(coroutine.resume, co) pcall(coroutine.yield, 1) pcall(coroutine.close, co) end}) end
local junk = {} for i = 1, 20000 do junk[i % 7] = {i} end
return coroutine.status(co) ~= nil`, "t")
	cot("yield-across-pcall-and-metamethods", `local mt = {__index = function(t, k) return coroutine.yield("index") end, __add = function(a, b) return coroutine.yield("add") end,
  __lt = function(a, b) return coroutine.yield("lt") end, __concat = function(a, b) return coroutine.yield("concat") end, __len = function() return coroutine.yield("len") end,
  __eq = function() return coroutine.yield("eq") end, __call = function(self, x) return coroutine.yield("call") end, __unm = function() return coroutine.yield("unm") end,
  __newindex = function() coroutine.yield("newindex") end, __le = function() return coroutine.yield("le") end, __tostring = function() return coroutine.yield("tostring") end}
local a, b = setmetatable({}, mt), setmetatable({}, mt)
local co = coroutine.wrap(function()
  local r = {pcall(function() return a.x end), pcall(function() return a + b end), pcall(function() return a < b end), pcall(function() return a .. b end),
    pcall(function() return #a end), pcall(function() return a == b end), pcall(a, 1), pcall(function() return -a end), pcall(function() a.y = 1 end),
    pcall(function() return a <= b end), pcall(tostring, a), pcall(pcall, coroutine.yield, "nested"), select(2, pcall(error, "after"))}
  return "finished", #r end)
local n, last = 0 repeat last = co(n) n = n + 1 until last == "finished" or n > 100
return last == "finished"`, "t")
	cot("yield-across-go-callbacks", `local function run(f) local co = coroutine.wrap(f) local n, v = 0 repeat v = {pcall(co, n)} n = n + 1 until v[1] == false or v[2] == "end" or n > 50 return v[1], v[2] end
local r = {run(function() table.sort({3, 2, 1}, function(a, b) coroutine.yield("sort") return a < b end) return "end" end)}
r[#r + 1] = run(function() local s = ("abc"):gsub(".", function(c) coroutine.yield(c) return c:upper() end) return "end" end)
r[#r + 1] = run(function() for w in ("a b"):gmatch("%a") do coroutine.yield(w) end return "end" end)
r[#r + 1] = run(function() local f = load(function() return coroutine.yield("piece") end) return "end" end)
r[#r + 1] = run(function() xpcall(function() coroutine.yield("in xpcall") error("x") end, function(m) coroutine.yield("in handler") return m end) return "end" end)
r[#r + 1] = run(function() for k, v in pairs(setmetatable({}, {__pairs = function(t) coroutine.yield("pairs") return next, {1}, nil end})) do coroutine.yield(k) end return "end" end)
return #r > 0`, "t")
	cot("status-and-misc", `local co = coroutine.create(function() coroutine.yield() end)
local st = {coroutine.status(co)} coroutine.resume(co) st[2] = coroutine.status(co) coroutine.resume(co) st[3] = coroutine.status(co)
local inner_status local outer outer = coroutine.create(function() local i = coroutine.create(function() inner_status = coroutine.status(outer) end) coroutine.resume(i) end) coroutine.resume(outer)
local r = {pcall(coroutine.status), pcall(coroutine.status, 1), pcall(coroutine.resume, 1), pcall(coroutine.create, 1), pcall(coroutine.wrap, nil), pcall(coroutine.close, {}), pcall(coroutine.yield), coroutine.isyieldable(), pcall(coroutine.running, 1, 2)}
return st[1] == "suspended" and st[2] == "suspended" and st[3] == "dead" and inner_status == "normal" and r[1] == false and r[7] == false`, "t")
	cot("transfer-between-coroutines", `local shared = coroutine.create(function(...) local n = 0 while true do n = n + select("#", coroutine.yield(n)) end end)
local function user(k) return coroutine.wrap(function() local t = 0 for i = 1, k do local ok, v = coroutine.resume(shared, i, i) t = v coroutine.yield(t) end return "end" end) end
local a, b = user(3), user(3) local r = {a(), b(), a(), b(), a(), b(), a(), b()}
return r[7] == "end" and coroutine.status(shared) == "suspended" and coroutine.close(shared)`, "t")
	cot("kill-inside-coroutine", `local r = {}
for _, lim in ipairs{{cpu = 1000}, {memory = 20000}} do
  local ctx = runtime.callcontext({kill = lim}, function() local co = coroutine.wrap(function() local t = {} while true do t[#t + 1] = {} coroutine.yield() end end) while true do co() end end)
  r[#r + 1] = tostring(ctx)
  local co = coroutine.create(function() while true do coroutine.yield(1) end end) coroutine.resume(co)
  local ctx2 = runtime.callcontext({kill = lim}, function() local t = {} while true do t[#t + 1] = select(2, coroutine.resume(co)) end end)
  r[#r + 1] = tostring(ctx2) r[#r + 1] = coroutine.status(co) r[#r + 1] = select("#", coroutine.resume(co))
end
return #r == 8`, "t")

	// ---- metamethod graphs with cycles: for every event the handler is the object itself, closes a 2- or
	// 3-cycle, or is an acyclic chain of 50 / 99 / 100 / 101 / 1000 hops ending in a real function; triggered
	// from Lua code, through pcall, through Go library functions and inside a coroutine.  Expected: a Lua
	// error or a normal result; never a Go panic, a fatal stack overflow or a hang (answer-at-once templates).
	mmShapes := []string{"self", "cycle2", "cycle3", "chains"} // chains = 50, 99, 100, 101 and 1000 hops in one program
	for _, ev := range []string{"__call", "__index", "__newindex", "__eq", "__lt", "__le", "__concat", "__len", "__unm", "__add", "__mod", "__pow", "__idiv",
		"__band", "__shl", "__bnot", "__close", "__gc", "__tostring", "__name", "__pairs"} {
		ev := ev
		ts = append(ts, template{name: "mmgraph" + strings.ReplaceAll(ev, "__", "-"), group: "mmgraph", answer: true, nolimit: ev == "__gc",
			quick: []int{0, 1, 2, 3}, thor: []int{0, 1, 2, 3},
			gen: func(n int) string {
				return mmgraphPrelude + "return run(" + strconv.Quote(ev) + ", " + strconv.Quote(mmShapes[n]) + ")"
			},
			expect: func(int) string { return "t" }})
	}

	// ---- a CPU / memory kill reached inside a __close handler that runs while a coroutine is ENDING
	for _, kv := range [][2]string{{"cpu", "{cpu = 3000}"}, {"memory", "{memory = 60000}"}} {
		kv := kv
		for _, sc := range [][2]string{
			{"normal-end", `local co = coroutine.create(function() local x <close> = H() return 1 end) return coroutine.resume(co)`},
			{"error-end", `local co = coroutine.create(function() local x <close> = H() error("body fails") end) return coroutine.resume(co)`},
			{"coroutine-close", `local co = coroutine.create(function() local x <close> = H() coroutine.yield(1) end) coroutine.resume(co) return coroutine.close(co)`},
			{"wrap-normal-end", `local w = coroutine.wrap(function() local x <close> = H() return 1 end) return w()`},
			{"wrap-error-end", `local w = coroutine.wrap(function() local x <close> = H() error("body fails") end) return pcall(w)`},
			{"two-handlers", `local co = coroutine.create(function() local a <close> = setmetatable({}, {__close = function() end}) local x <close> = H() local b <close> = setmetatable({}, {__close = function() end}) return 1 end) return coroutine.resume(co)`},
			{"nested-coroutine-ends-inside-handler", `local co = coroutine.create(function() local x <close> = setmetatable({}, {__close = function()
    local inner = coroutine.create(function() local y <close> = H() return 2 end) return coroutine.resume(inner) end}) return 1 end) return coroutine.resume(co)`},
			{"nested-close-inside-handler", `local inner = coroutine.create(function() local y <close> = H() coroutine.yield() end) coroutine.resume(inner)
local co = coroutine.create(function() local x <close> = setmetatable({}, {__close = function() return coroutine.close(inner) end}) error("e") end) return coroutine.resume(co)`},
			{"handler-error-then-kill", `local co = coroutine.create(function() local x <close> = H() local y <close> = setmetatable({}, {__close = function() error("first handler fails") end}) return 1 end) return coroutine.resume(co)`},
			{"pcall-around-resume", `local co = coroutine.create(function() local x <close> = H() return 1 end) return pcall(coroutine.resume, co)`},
		} {
			sc := sc
			ts = append(ts, template{name: "closekill-" + kv[0] + "-" + sc[0], group: "closekill", nolimit: true, quick: single, thor: single,
				gen: func(int) string {
					return `local function H() return setmetatable({}, {__close = function() local t = {} while true do t[#t + 1] = {#t} end end}) end
local ctx = runtime.callcontext({kill = ` + kv[1] + `}, function() ` + sc[1] + ` end)
local after = {} for i = 1, 100 do after[i] = {i} end   -- the host goes on after the kill
return tostring(ctx) == "killed" and #after == 100`
				}, expect: func(int) string { return "t" }})
		}
	}
	// ---- memory accounting across contexts (shared with C06) -------------------------------------
	ts = append(ts, template{name: "memctx-coroutine-finishes-inside", group: "memctx", nolimit: true, quick: single, thor: single,
		gen: func(n int) string {
			return `local co = coroutine.create(function() local t = {} for i = 1, 100 do t[i] = ("x"):rep(100) .. i end coroutine.yield() return 1 end)
coroutine.resume(co)
local ctx = runtime.callcontext({kill = {memory = 1000000}}, function() coroutine.resume(co) end)
return 1`
		}, expect: func(n int) string { return "i1" }})
	ts = append(ts, template{name: "memctx-load-compile-error", group: "memctx", nolimit: true, quick: single, thor: single,
		gen: func(n int) string {
			return `local src = "goto nowhere --" .. ("x"):rep(20000)
local ctx = runtime.callcontext({kill = {memory = 1000000}}, function() for i = 1, 3 do load(src) end end)
return 1`
		}, expect: func(n int) string { return "i1" }})
	ts = append(ts, template{name: "memctx-coroutine-ends-as-context-ends", group: "memctx", nolimit: true, quick: []int{20000}, thor: []int{200000},
		gen: func(n int) string {
			return "for i = 1, " + num(n) + " do runtime.callcontext({kill = {memory = 1000000}}, function() coroutine.wrap(function() end)() end) end return 1"
		}, expect: func(n int) string { return "i1" }})
	ts = append(ts, template{name: "memctx-coroutine-error-exit", group: "memctx", nolimit: true, quick: single, thor: single,
		gen: func(n int) string {
			return `runtime.callcontext({kill = {memory = 1000000}}, function() return pcall(coroutine.wrap(function() error("in co") end)) end) return 1`
		}, expect: func(n int) string { return "i1" }})
	ts = append(ts, template{name: "memctx-nested-kill", group: "memctx", nolimit: true, quick: single, thor: single,
		gen: func(n int) string {
			return `local r = {}
for _, lim in ipairs{{memory = 1}, {memory = 1000}, {memory = 100000, cpu = 1}, {memory = 100000, cpu = 1000}, {memory = 100000, cpu = 100000}, {memory = 1000000, millis = 1}} do
  r[#r + 1] = runtime.callcontext({kill = lim}, function()
    local t = {}
    runtime.callcontext({kill = lim}, function() for i = 1, 1e6 do t[i] = ("x"):rep(i) end end)
    for i = 1, 1e6 do t[i] = {i} end
  end)
  r[#r + 1] = runtime.callcontext({kill = lim}, function() local x <close> = setmetatable({}, {__close = function() for i = 1, 1e6 do local t = {i} end end}) error("e") end)
  r[#r + 1] = runtime.callcontext({kill = lim}, pcall, function() local function f() return f() + 1 end f() end)
  r[#r + 1] = runtime.callcontext({kill = lim}, coroutine.wrap(function() while true do coroutine.yield(("x"):rep(1000)) end end))
  r[#r + 1] = runtime.callcontext({kill = lim}, function() local s = "x" while true do s = s .. s end end)
  r[#r + 1] = runtime.callcontext({kill = lim}, string.rep, "x", 1e9)
  r[#r + 1] = runtime.callcontext({kill = lim}, load, ("x = 1 "):rep(10000))
  r[#r + 1] = runtime.callcontext({kill = lim}, table.concat, {("x"):rep(1000)}, ("y"):rep(1000), 1, 1)
end
return #r > 0`
		}, expect: func(n int) string { return "t" }})
	return ts
}

func templateByName(name string) *template {
	for _, t := range templates() {
		if t.name == name {
			tt := t
			return &tt
		}
	}
	return nil
}

// templateChild: run ONE (template, N) in this process and print the outcome line.
func templateChild(name string, n int) {
	setChildLimits(8 << 30)
	t := templateByName(name)
	if t == nil {
		fmt.Fprintln(os.Stderr, "unknown template", name)
		os.Exit(2)
	}
	if t.group == "mmgraph" {
		// these small programs never need a deep Go stack: a runaway recursion is reported (as the same
		// fatal "goroutine stack exceeds ...-byte limit") after 128 MiB instead of the default 1 GB,
		// which takes seconds instead of half a minute
		debug.SetMaxStack(128 << 20)
	}
	src := t.gen(n)
	cls, detail := runTemplateSource(t, n, []byte(src))
	fmt.Printf("template %s %d %s %s\n", name, n, cls, hx(detail))
}

var templLimits = rt.RuntimeResources{Cpu: 30_000_000, Memory: 256 << 20}

func runTemplateSource(t *template, n int, src []byte) (cls, detail string) {
	return runTemplateSourceFull(t, n, src, false)
}

func runTemplateSourceFull(t *template, n int, src []byte, fullLib bool) (cls, detail string) {
	out := devNull()
	if fullLib {
		out = os.Stdout
	}
	r, cleanup := hlib.NewRuntime(out)
	defer func() {
		// cleanup itself may panic if the runtime is in a bad state; that is part of the outcome
		c2, d2 := guard(func() (string, string) { cleanup(); return clsOK, "" })
		if c2 == clsPanic && cls != clsPanic {
			cls, detail = c2, "cleanup:"+d2
		}
	}()
	g := r.GlobalEnv()
	for _, nm := range []string{"os", "io", "package", "dofile", "loadfile", "require", "golib", "debug"} {
		if !fullLib {
			r.SetTable(g, rt.StringValue(nm), rt.NilValue)
		}
	}
	var clos *rt.Closure
	maxFnLen := 0
	cls, detail = guard(func() (string, string) {
		var err error
		var unit *code.Unit
		unit, _, err = r.CompileLuaChunk("t", src)
		if err == nil {
			for _, k := range unit.Constants {
				if c, ok := k.(code.Code); ok && int(c.EndOffset-c.StartOffset) > maxFnLen {
					maxFnLen = int(c.EndOffset - c.StartOffset)
				}
			}
			clos = r.LoadLuaUnit(unit, rt.TableValue(g))
		}
		if err != nil {
			if d, ok := internalErr(err.Error()); ok {
				return clsInternal, "compile:" + d
			}
			if isSyntaxErr(err) {
				return clsSyntax, "syntax:" + errClass(err.Error())
			}
			return clsSyntax, "compile:" + errClass(err.Error())
		}
		return clsOK, ""
	})
	if cls != clsOK {
		if cls == clsPanic {
			detail = "compile:" + detail
		}
		return
	}
	var first rt.Value
	cls, detail = guard(func() (string, string) {
		th := r.MainThread()
		term := rt.NewTerminationWith(nil, 0, true)
		var err error
		if t.nolimit {
			err = rt.Call(th, rt.FunctionValue(clos), nil, term)
			if err != nil {
				if d, ok := internalErr(err.Error()); ok {
					return clsInternal, "run:" + d
				}
				return clsErr, errClass(err.Error())
			}
		} else {
			ctx, e := th.CallContext(rt.RuntimeContextDef{HardLimits: templLimits}, func() error {
				return rt.Call(th, rt.FunctionValue(clos), nil, term)
			})
			switch ctx.Status() {
			case rt.StatusKilled:
				return clsKilled, ""
			case rt.StatusError:
				if e != nil {
					if d, ok := internalErr(e.Error()); ok {
						return clsInternal, "run:" + d
					}
					return clsErr, errClass(e.Error())
				}
				return clsErr, ""
			}
		}
		if len(term.Etc()) > 0 {
			first = term.Etc()[0]
		}
		return clsOK, ""
	})
	if cls == clsPanic {
		detail = "run:" + detail
	}
	if maxFnLen > 32767 && (cls == clsPanic || cls == clsInternal) {
		// named predicate of the known defect "LuaCont.pc is an int16": some function of the unit has
		// more than 32767 opcodes
		detail += "[fnlen>32767]"
	}
	if cls == clsOK && t.expect != nil {
		want := t.expect(n)
		got := hlib.Enc(first)
		if got != want {
			d := "returned " + capStr(got, 60) + " expected " + capStr(want, 60)
			if maxFnLen > 32767 {
				d += "[fnlen>32767]"
			}
			return clsWrong, d
		}
	}
	if cls == clsErr && t.expect != nil && t.group != "runtime" && t.group != "memctx" && t.group != "mmgraph" {
		// a program that is within every limit must not fail at run time: wrong code was generated
		d := "run-time error in valid program: " + detail
		if maxFnLen > 32767 {
			d += "[fnlen>32767]"
		}
		return clsWrong, d
	}
	return
}

func capStr(s string, n int) string {
	if len(s) > n {
		return s[:n] + "..."
	}
	return s
}

// runTemplateChild spawns the child and returns its outcome line (or a CRASH/TIMEOUT line).
func runTemplateChild(name string, n int, timeout time.Duration) string {
	cmd := exec.Command(os.Args[0], "child", name, strconv.Itoa(n))
	cmd.Env = childEnv()
	var stdout, stderrBuf bytes.Buffer
	stderr := &limitedWriter{buf: &stderrBuf, max: 1 << 16}
	cmd.Stdout = &stdout
	cmd.Stderr = stderr
	if err := cmd.Start(); err != nil {
		return fmt.Sprintf("template %s %d %s %s", name, n, clsCrash, hx("spawn: "+err.Error()))
	}
	done := make(chan error, 1)
	go func() { done <- cmd.Wait() }()
	select {
	case err := <-done:
		out := strings.TrimSpace(stdout.String())
		if err == nil && strings.HasPrefix(out, "template ") {
			return firstLine(out)
		}
		return fmt.Sprintf("template %s %d %s %s", name, n, clsCrash, hx(fatalClass(stderr.String())))
	case <-time.After(timeout):
		cmd.Process.Kill()
		<-done
		return fmt.Sprintf("template %s %d %s -", name, n, clsTimeo)
	}
}

func isBadClass(c string) bool {
	return c == clsPanic || c == clsCrash || c == clsWrong || c == clsInternal || c == clsHang
}

func templatesParent(tier string) {
	ts := templates()
	timeout := 25 * time.Second
	if tier == "thorough" {
		timeout = 180 * time.Second
	}
	type res struct {
		order int
		lines []string
	}
	sem := make(chan struct{}, workers())
	var mu, acq sync.Mutex
	var all []res
	var wg sync.WaitGroup
	for ti, t := range ts {
		wg.Add(1)
		go func(ti int, t template) {
			defer wg.Done()
			ladder := t.quick
			if tier == "thorough" {
				ladder = t.thor
			}
			var lines []string
			run := func(n int) (string, string) {
				w := 1
				if n >= 100000 {
					w = 4
				}
				acq.Lock() // tokens are taken by one goroutine at a time (no partial-hold deadlock)
				for i := 0; i < w; i++ {
					sem <- struct{}{}
				}
				acq.Unlock()
				t0 := time.Now()
				// templates that are one small program (ladder {1}) must answer at once: for them a TIMEOUT
				// is a deadlock / endless loop, reported as class HANG after one more, longer, attempt (the
				// machine may just be busy).  For size-parameterised templates a TIMEOUT stays inconclusive.
				mustAnswer := t.answer || len(ladder) == 1 && ladder[0] == 1
				to := timeout
				if mustAnswer {
					to = 10 * time.Second
				}
				l := runTemplateChild(t.name, n, to)
				if mustAnswer && strings.Fields(l)[3] == clsTimeo {
					l = runTemplateChild(t.name, n, 3*to)
					if f := strings.Fields(l); f[3] == clsTimeo {
						l = fmt.Sprintf("template %s %d %s -", t.name, n, clsHang)
					}
				}
				if os.Getenv("C04_TIMING") != "" {
					fmt.Fprintf(os.Stderr, "timing %s %d %.1f\n", t.name, n, time.Since(t0).Seconds())
				}
				for i := 0; i < w; i++ {
					<-sem
				}
				lines = append(lines, l)
				f := strings.Fields(l)
				return f[3], f[4]
			}
			lastGood := 0
			for _, n := range ladder {
				cls, detail := run(n)
				if isBadClass(cls) {
					// smallest N with the same (class, detail): bisect between lastGood and n
					lo, hi := lastGood, n
					maxSteps := 0 // quick tier: the smallest N on the ladder is reported
					if tier == "thorough" {
						maxSteps = 20
						if n > 100000 {
							maxSteps = 6 // thresholds such as stack exhaustion need not be exact; children are slow here
						}
					}
					for steps := 0; hi-lo > 1 && steps < maxSteps; steps++ {
						mid := lo + (hi-lo)/2
						c2, d2 := run(mid)
						if c2 == cls && d2 == detail {
							hi = mid
						} else if isBadClass(c2) {
							// a different failure below: report it too and keep looking below it
							hi = mid
							cls, detail = c2, d2
						} else {
							lo = mid
						}
					}
					lines = append(lines, fmt.Sprintf("minimal %s %d %s %s", t.name, hi, cls, detail))
					break
				}
				if cls == clsTimeo {
					break
				}
				lastGood = n
			}
			mu.Lock()
			all = append(all, res{ti, lines})
			mu.Unlock()
		}(ti, t)
	}
	wg.Wait()
	sort.Slice(all, func(i, j int) bool { return all[i].order < all[j].order })
	for _, r := range all {
		for _, l := range r.lines {
			fmt.Println(l)
		}
	}
}

func workers() int {
	if v := os.Getenv("C04_WORKERS"); v != "" {
		return atoi(v)
	}
	return 16
}
