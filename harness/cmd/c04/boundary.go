package main

import (
	"fmt"
	"sort"
	"strings"

	rt "github.com/arnodel/golua/runtime"
	"verifharness/hlib"
)

// Boundary-aware argument tuples per library function (in addition to the generic edge-value pool):
// each case is a function path and the Lua source of its argument list (no spaces, so that it can
// be printed as one protocol field and replayed: `c04 replay call utf8.char lua:0x7FFFFFFF,0x80`).

type boundaryCase struct {
	path string
	args string
}

var codePoints = []string{"0x7F", "0x80", "0x7FF", "0x800", "0xFFFF", "0x10000", "0x10FFFF", "0x110000", "0x1FFFFF",
	"0x200000", "0x3FFFFFF", "0x4000000", "0x7FFFFFFF", "0x80000000", "-1", "0xD800", "0"}

// strings around the UTF-8 encoding boundaries (Lua 5.4 \u{} escapes go up to 2^31-1) and malformed ones
var utf8Strings = []string{`""`, `"a"`, `"\u{7F}"`, `"\u{80}"`, `"\u{7FF}"`, `"\u{800}"`, `"\u{FFFF}"`, `"\u{10000}"`, `"\u{10FFFF}"`,
	`"\u{110000}"`, `"\u{1FFFFF}"`, `"\u{200000}"`, `"\u{3FFFFFF}"`, `"\u{4000000}"`, `"\u{7FFFFFFF}"`, `"\u{D800}"`,
	`"a\u{7FFFFFFF}b\u{10FFFF}c\u{80}"`, `"\xff"`, `"\xfd\xbf\xbf\xbf\xbf\xbf"`, `"\xfe\xbf\xbf\xbf\xbf\xbf\xbf"`, `"\xf4\x90"`, `"\xc0\x80"`,
	`"\xe0\x80\x80"`, `"\x80"`, `"ab\xf8\x88\x80\x80\x80"`, `"\xfc\x84\x80\x80\x80\x80z"`}

var bigInts = []string{"math.mininteger", "-(1<<31)", "-4", "-3", "-1", "0", "1", "2", "3", "4", "1<<31", "1<<47", "1<<53", "math.maxinteger"}
var positions = []string{"math.mininteger", "-6", "-5", "-1", "0", "1", "2", "5", "6", "7", "math.maxinteger"}

func boundaryCases(tier string) []boundaryCase {
	var cs []boundaryCase
	add := func(path string, args ...string) {
		for _, a := range args {
			// one protocol field: spaces only occur inside string literals here
			cs = append(cs, boundaryCase{path, strings.ReplaceAll(a, " ", "\\32")})
		}
	}
	rng := hlib.NewRng(hlib.Seed()*31337 + 17)
	pick := func(xs []string) string { return xs[rng.Below(len(xs))] }
	// ---- utf8
	for _, a := range codePoints {
		add("utf8.char", a)
		for _, b := range codePoints {
			add("utf8.char", a+","+b)
		}
	}
	nTriples := 150
	if tier == "thorough" {
		nTriples = 3000
	}
	for i := 0; i < nTriples; i++ {
		add("utf8.char", pick(codePoints)+","+pick(codePoints)+","+pick(codePoints))
		add("utf8.char", pick(codePoints)+","+pick(codePoints)+","+pick(codePoints)+","+pick(codePoints)+","+pick(codePoints))
	}
	add("utf8.char", strings.Join(codePoints[:14], ","), strings.TrimSuffix(strings.Repeat("0x7FFFFFFF,", 2), ","),
		strings.TrimSuffix(strings.Repeat("0x7FFFFFFF,", 10), ","), strings.TrimSuffix(strings.Repeat("0x7FFFFFFF,", 100), ","),
		strings.TrimSuffix(strings.Repeat("0x200000,", 50), ","), strings.TrimSuffix(strings.Repeat("0x10FFFF,", 300), ","))
	for _, s := range utf8Strings {
		for _, lax := range []string{"", ",true", ",false"} {
			for _, ij := range []string{"1,1", "1,-1", "2,2", "-1,-1", "1,#" + s, "2,-2", "0,0", "#" + s + "+1,#" + s + "+1"} {
				add("utf8.codepoint", s+","+ij+lax)
				add("utf8.len", s+","+ij+lax)
			}
			add("utf8.len", s+",nil,nil"+lax)
			add("utf8.codes", s+lax)
		}
		add("utf8.codepoint", s)
		add("utf8.len", s)
		for _, n := range []string{"-3", "-2", "-1", "0", "1", "2", "3", "math.maxinteger", "math.mininteger"} {
			add("utf8.offset", s+","+n)
			for _, i := range []string{"1", "2", "-1", "#" + s, "#" + s + "+1", "0", "#" + s + "+2"} {
				add("utf8.offset", s+","+n+","+i)
			}
		}
	}
	// ---- string.char
	bytesB := []string{"-1", "0", "1", "127", "128", "255", "256", "1<<31", "math.maxinteger", "math.mininteger", `"65"`, "65.0", "65.5"}
	for _, a := range bytesB {
		add("string.char", a)
		for _, b := range bytesB {
			add("string.char", a+","+b)
		}
	}
	add("string.char", strings.TrimSuffix(strings.Repeat("255,", 300), ","), strings.TrimSuffix(strings.Repeat("0,", 1000), ","))
	// ---- string.rep sizes (under the memory limit of the calls phase; the no-limit overflow family is in templates.go)
	for _, s := range []string{`""`, `"a"`, `"ab"`, `("x"):rep(300)`} {
		for _, n := range append([]string{"1<<20", "1<<40", "1<<48", "1<<61", "(1<<62)-1", "1<<62"}, bigInts...) {
			add("string.rep", s+","+n)
			for _, sep := range []string{`""`, `"c"`, `("y"):rep(300)`} {
				add("string.rep", s+","+n+","+sep)
			}
		}
	}
	// ---- table.concat / unpack ranges, insert / remove positions, move
	for _, t := range []string{"{}", "{1,2,3}", `{"a","b"}`, `{"a",nil,"c"}`} {
		for _, i := range bigInts {
			for _, j := range bigInts {
				add("table.concat", t+`,"",`+i+","+j)
				add("table.unpack", t+","+i+","+j)
			}
			add("table.concat", t+`,"x",`+i)
			add("table.unpack", t+","+i)
			add("table.insert", t+","+i+",0")
			add("table.remove", t+","+i)
		}
	}
	mv := []string{"math.mininteger", "-1", "0", "1", "3", "math.maxinteger"}
	for _, f := range mv {
		for _, e := range mv {
			for _, tp := range []string{"math.mininteger", "0", "1", "2", "math.maxinteger"} {
				add("table.move", "{1,2,3},"+f+","+e+","+tp)
			}
		}
	}
	// ---- select
	for _, n := range append([]string{`"#"`, "1.5", `"2"`, `"-1"`, "1e100", "-1e100", "0/0"}, bigInts...) {
		add("select", n, n+",1", n+",1,2", n+",1,2,3", n+",nil,nil")
	}
	// ---- string positions
	for _, i := range positions {
		for _, j := range positions {
			add("string.sub", `"hello",`+i+","+j)
			add("string.byte", `"hello",`+i+","+j)
		}
		add("string.sub", `"hello",`+i, `"",`+i)
		add("string.byte", `"hello",`+i)
		add("string.find", `"hello","l",`+i, `"hello","l",`+i+",true", `"hello","",`+i, `"hello","",`+i+",true", `"","",`+i)
		add("string.match", `"hello","l+",`+i, `"hello","()",`+i)
		add("string.gmatch", `"hello","l",`+i)
		add("string.unpack", `"i4","abcdefgh",`+i, `"z","abc\0def",`+i, `"s1","\3abcdef",`+i, `"","",`+i)
	}
	// ---- string.format widths / precisions
	for _, f := range []string{"%99d", "%100d", "%.99d", "%.100d", "%099d", "%-99d", "%+99.99d", "%99999999999999999999d", "%.99999999999999999999d",
		"%1$d", "%*d", "%.*d", "%ld", "%5", "%5.", "%5.3", "%-", "%#", "%0", "% d", "%#x", "%#o", "%#.3x", "%+.0d", "%.0d", "%99x", "%99o", "%99c", "%99i", "%99u"} {
		add("string.format", `"`+f+`",1`, `"`+f+`",0`, `"`+f+`",math.mininteger`, `"`+f+`"`)
	}
	for _, f := range []string{"%99s", "%100s", "%.99s", "%.100s", "%-99.99s", "%99q", "%.3q", "%5q", "%99a", "%.99a", "%.99f", "%.100f", "%99.99f", "%.99e", "%.99g", "%#.99g", "%99.99a"} {
		add("string.format", `"`+f+`","x"`, `"`+f+`",1.5`, `"`+f+`",1e308`, `"`+f+`",0/0`, `"`+f+`",("x"):rep(300)`, `"`+f+`",-1/0`)
	}
	// ---- pack / unpack / packsize sizes
	for _, f := range []string{"i0", "i1", "i16", "i17", "I0", "I16", "I17", "c0", "c1", "c2147483648", "c9223372036854775807", "c9223372036854775808",
		"c99999999999999999999", "!0", "!1", "!16", "!17", "!3", "s0", "s1", "s16", "s17", "z", "x", "Xi16", "Xi17", "X", "i16i16", "<I16", ">I16", "=I16",
		"j", "J", "T", "f", "d", "n", "b", "B", "h", "H", "l", "L", " ", "<>=!", "i 4", "i4 ", "c", "s", "!", "Xc1", "!16Xi16", "i7", "I9", "!2i3i8"} {
		add("string.packsize", `"`+f+`"`)
		add("string.pack", `"`+f+`",1`, `"`+f+`",""`, `"`+f+`",-1`, `"`+f+`",math.mininteger`, `"`+f+`",math.maxinteger,1`, `"`+f+`","abc"`, `"`+f+`"`)
		add("string.unpack", `"`+f+`",""`, `"`+f+`",("\255"):rep(40)`, `"`+f+`",("\0"):rep(40)`, `"`+f+`",("\127"):rep(17)`)
	}
	// ---- math
	for _, a := range bigInts {
		add("math.random", a, a+","+a, a+",math.maxinteger", "math.mininteger,"+a, "0,"+a, a+",0")
		add("math.tointeger", a, a+".0")
		add("math.abs", a)
		add("math.fmod", a+",-1", a+",0", a+",math.mininteger", a+",0.0")
		add("math.ult", a+",-1")
	}
	// ---- tostring / tonumber bases
	for _, b := range []string{"1", "2", "10", "16", "36", "37", "0", "-1", "math.maxinteger", "math.mininteger", "2.0", "2.5"} {
		add("tonumber", `"10",`+b, `"zz",`+b, `"",`+b, `" -7fffffffffffffff ",`+b, `"1e1",`+b, `"-",`+b, `"١",`+b)
	}
	// one runtime per function: keep the cases of a function together
	sort.SliceStable(cs, func(i, j int) bool { return cs[i].path < cs[j].path })
	return cs
}

// boundaryArgs evaluates the Lua argument list of a case in the worker's runtime.
func (e *callEnv) boundaryArgs(args string) ([]rt.Value, error) {
	clos, err := e.r.CompileAndLoadLuaChunk("args", []byte("return "+args), rt.TableValue(e.r.GlobalEnv()))
	if err != nil {
		return nil, fmt.Errorf("argument list does not compile: %v", err)
	}
	term := rt.NewTerminationWith(nil, 0, true)
	if err := rt.Call(e.r.MainThread(), rt.FunctionValue(clos), nil, term); err != nil {
		return nil, fmt.Errorf("argument list does not evaluate: %v", err)
	}
	return append([]rt.Value(nil), term.Etc()...), nil
}

func (e *callEnv) runBoundary(c boundaryCase) (cls, detail, flags string) {
	fn, ok := e.fns[c.path]
	if !ok {
		return clsErr, "function not found in this runtime", "-"
	}
	var args []rt.Value
	cls, detail = guard(func() (string, string) {
		var err error
		args, err = e.boundaryArgs(c.args)
		if err != nil {
			return clsErr, err.Error()
		}
		return clsOK, ""
	})
	if cls != clsOK {
		return cls, "args:" + detail, "-"
	}
	return e.call(fn, args)
}
