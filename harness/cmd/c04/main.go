// c04: crash search for property C04 ("no Lua source or program can crash the host").
//
//	c04 texts <tier> [files...]     source texts (token alphabet strings, mutated corpus, extra files) -> one line per case
//	c04 templates <tier>            adversarial templates, each (template, N) in a child process
//	c04 calls <tier>                every reachable Go function x edge-value argument tuples
//	c04 limits <tier>               size-parameterised programs for the Limits model (observed compile outcome per size)
//	c04 replay text <hex> | template <name> <N> | call <path> <arg>...
//
// Internal modes (children of the above): textworker, callworker, child.
//
// Output lines (stdout):
//
//	text <hex-source> <class> <detail-hex> <flags>
//	template <name> <N> <class> <detail-hex>
//	call <path> <args,comma-separated> <class> <detail-hex>
//
// class: ok | lua-error | syntax-error | killed | PANIC | CRASH | TIMEOUT | WRONG
// detail for PANIC: "<normalised message>|<top golua frame>"; for CRASH: the fatal error class.
package main

import (
	"bufio"
	"bytes"
	"encoding/hex"
	"fmt"
	"os"
	"os/exec"
	"regexp"
	"runtime"
	"runtime/debug"
	"strconv"
	"strings"
	"sync"
	"syscall"
	"time"

	rt "github.com/arnodel/golua/runtime"
	"github.com/arnodel/golua/scanner"
	"github.com/arnodel/golua/token"
	"verifharness/hlib"
)

func main() {
	if len(os.Args) < 2 {
		usage()
	}
	switch os.Args[1] {
	case "texts":
		textsParent(arg(2, "quick"), os.Args[min(3, len(os.Args)):])
	case "textworker":
		textWorker(arg(2, "quick"), atoi(arg(3, "0")), atoi(arg(4, "0")), os.Args[min(5, len(os.Args)):])
	case "templates":
		templatesParent(arg(2, "quick"))
	case "child":
		templateChild(arg(2, ""), atoi(arg(3, "1")))
	case "calls":
		callsParent(arg(2, "quick"))
	case "callworker":
		callWorker(arg(2, "quick"), atoi(arg(3, "0")), atoi(arg(4, "0")))
	case "limits":
		limitsMode(arg(2, "quick"))
	case "replay":
		replay(os.Args[2:])
	case "shrinktext":
		src, _ := hex.DecodeString(arg(2, ""))
		cls, detail := runTextChild(string(src))
		fmt.Fprintf(os.Stderr, "initial outcome: %s %s\n", cls, detail)
		m := shrinkCrashingText(string(src), cls, detail, 120*time.Second)
		fmt.Printf("%s\n# %q\n", hex.EncodeToString([]byte(m)), m)
	case "lua": // c04 lua FILE [limited]: run a file with the full standard library (manual experiments)
		b, err := os.ReadFile(arg(2, ""))
		if err != nil {
			fmt.Fprintln(os.Stderr, err)
			os.Exit(2)
		}
		t := &template{name: "file", nolimit: arg(3, "") != "limited"}
		cls, detail := runTemplateSourceFull(t, 0, b, true)
		fmt.Println(cls, detail)
	default:
		usage()
	}
}

func usage() {
	fmt.Fprintln(os.Stderr, "usage: c04 texts|templates|calls|limits <tier> | replay ...")
	os.Exit(2)
}

func arg(i int, def string) string {
	if i < len(os.Args) {
		return os.Args[i]
	}
	return def
}

func atoi(s string) int {
	n, err := strconv.Atoi(s)
	if err != nil {
		fmt.Fprintln(os.Stderr, "bad number", s)
		os.Exit(2)
	}
	return n
}

func min(a, b int) int {
	if a < b {
		return a
	}
	return b
}

// ---------------------------------------------------------------------------
// outcome classification

const (
	clsOK     = "ok"
	clsErr    = "lua-error"
	clsSyntax = "syntax-error"
	clsKilled = "killed"
	clsPanic  = "PANIC"
	clsCrash  = "CRASH"
	clsTimeo  = "TIMEOUT"
	clsWrong  = "WRONG"
	// a Go runtime panic (index out of range, nil dereference, ...) or a non-error panic value that a
	// blanket recover() inside golua turned into an ordinary error
	clsInternal = "INTERNAL"
	// a one-program template that does not answer (deadlock, endless loop in Go code)
	clsHang = "HANG"
)

// internalErr recognises error texts that are recovered Go panics.
func internalErr(msg string) (string, bool) {
	if i := strings.Index(msg, "runtime error: "); i >= 0 {
		return normMsg(msg[i:]), true
	}
	if strings.HasSuffix(msg, "Unknown error") {
		return "Unknown error (non-error panic value recovered by the parser)", true
	}
	return "", false
}

var (
	reHexAddr = regexp.MustCompile(`0x[0-9a-fA-F]+`)
	reNum     = regexp.MustCompile(`-?[0-9]+`)
	reFrame   = regexp.MustCompile(`^(\S+)\(`)
)

// normMsg replaces addresses and numbers so that the same defect has the same message.
func normMsg(s string) string {
	s = reHexAddr.ReplaceAllString(s, "ADDR")
	s = reNum.ReplaceAllString(s, "N")
	if len(s) > 160 {
		s = s[:160]
	}
	return strings.ReplaceAll(s, "\n", " ")
}

// topFrame finds, in a debug.Stack() taken inside the recovering deferred function, the golua
// function in which the ORIGINAL panic was raised (the frame below the last `panic(` line, skipping
// the Go runtime's own frames).
func topFrame(stack []byte) string {
	lines := strings.Split(string(stack), "\n")
	via := ""
	fallback := ""
	last := -1
	for i, l := range lines {
		if strings.HasPrefix(l, "panic(") {
			last = i
		}
	}
	for i := last + 1; i < len(lines); i++ {
		l := lines[i]
		if strings.HasPrefix(l, "\t") || l == "" {
			continue
		}
		m := reFrame.FindStringSubmatch(l)
		if m == nil {
			continue
		}
		f := m[1]
		if strings.HasPrefix(f, "runtime.") || strings.HasPrefix(f, "panic") {
			continue
		}
		if !strings.HasPrefix(f, "github.com/arnodel/golua/") && !strings.HasPrefix(f, "main.") && fallback == "" {
			// a frame of the Go standard library (strings.Repeat, bytes.Buffer...): remember it, but
			// prefer the golua function that called it
			fallback = f
			continue
		}
		if !strings.HasPrefix(f, "github.com/arnodel/golua/") && fallback != "" {
			if strings.HasPrefix(f, "main.") {
				return fallback + via
			}
			continue
		}
		f = cleanFrame(f)
		if isReleaseHelper(f) {
			via = "(via ReleaseMem)"
			continue
		}
		return f + via
	}
	if fallback != "" {
		return fallback + via
	}
	return "?" + via
}

func cleanFrame(f string) string {
	f = strings.TrimPrefix(f, "github.com/arnodel/golua/")
	// drop closure suffixes and pointer-receiver brackets
	f = regexp.MustCompile(`(\.func[0-9]+)+(\.[0-9]+)*$`).ReplaceAllString(f, "")
	return strings.ReplaceAll(strings.ReplaceAll(f, "(*", ""), ")", "")
}

func isReleaseHelper(f string) bool {
	return strings.HasPrefix(f, "runtime.runtimeContextManager.Release")
}

// guard runs f, converting a Go panic into (PANIC, "msg|frame").  ContextTerminationError escaping
// (it should not, CallContext recovers it) is reported as killed.
func guard(f func() (string, string)) (cls, detail string) {
	defer func() {
		if p := recover(); p != nil {
			if _, ok := p.(rt.ContextTerminationError); ok {
				cls, detail = clsKilled, "escaped"
				return
			}
			cls = clsPanic
			detail = normMsg(fmt.Sprint(p)) + "|" + topFrame(debug.Stack())
		}
	}()
	return f()
}

func isSyntaxErr(err error) bool {
	if _, ok := rt.AsSyntaxError(err); ok {
		return true
	}
	return false
}

// limits used when running compiled programs
var runLimits = rt.RuntimeResources{Cpu: 500_000, Memory: 64 << 20}

// compileAndRun compiles src at the root context (no limits) and, when it compiles, runs it in a
// CPU+memory limited context.  flags: "c" compiled, "r" ran to completion.
func compileAndRun(r *rt.Runtime, src []byte, limits rt.RuntimeResources) (cls, detail, flags string) {
	var clos *rt.Closure
	cls, detail = guard(func() (string, string) {
		var err error
		clos, err = r.CompileAndLoadLuaChunk("t", src, rt.TableValue(r.GlobalEnv()))
		if err != nil {
			if d, ok := internalErr(err.Error()); ok {
				return clsInternal, d
			}
			if isSyntaxErr(err) {
				return clsSyntax, errClass(err.Error())
			}
			return clsSyntax, "compile:" + errClass(err.Error())
		}
		return clsOK, ""
	})
	if cls != clsOK {
		if cls == clsPanic || cls == clsInternal {
			detail = "compile:" + detail
		}
		if cls == clsSyntax && scansFully(src) {
			return cls, detail, "s"
		}
		return cls, detail, ""
	}
	flags = "sc"
	cls, detail = guard(func() (string, string) {
		t := r.MainThread()
		ctx, err := t.CallContext(rt.RuntimeContextDef{HardLimits: limits}, func() error {
			return rt.Call(t, rt.FunctionValue(clos), nil, rt.NewTerminationWith(nil, 0, true))
		})
		switch ctx.Status() {
		case rt.StatusKilled:
			return clsKilled, ""
		case rt.StatusError:
			if err != nil {
				if d, ok := internalErr(err.Error()); ok {
					return clsInternal, d
				}
				return clsErr, errClass(err.Error())
			}
			return clsErr, ""
		}
		return clsOK, ""
	})
	if cls == clsPanic || cls == clsInternal {
		detail = "run:" + detail
	}
	if cls == clsOK {
		flags += "r"
	}
	return
}

// errClass maps an error text to a coarse class (texts are not compared; this is for the histogram)
func errClass(msg string) string {
	m := reNum.ReplaceAllString(msg, "N")
	if i := strings.LastIndex(m, ": "); i >= 0 && i+2 < len(m) {
		m = m[i+2:]
	}
	if len(m) > 40 {
		m = m[:40]
	}
	return m
}

// scansFully: golua's scanner tokenises the whole text without an INVALID token (the text "reaches
// past the scanner")
func scansFully(src []byte) (ok bool) {
	defer func() {
		if recover() != nil {
			ok = false
		}
	}()
	sc := scanner.New("t", src)
	for i := 0; i < len(src)+2; i++ {
		tok := sc.Scan()
		if tok == nil || tok.Type == token.INVALID {
			return false
		}
		if tok.Type == token.EOF {
			return true
		}
	}
	return false
}

func newTextRuntime() (*rt.Runtime, func()) {
	r, cleanup := hlib.NewRuntime(devNull())
	// programs run from mutated texts must not reach the outside world
	g := r.GlobalEnv()
	for _, n := range []string{"os", "io", "package", "dofile", "loadfile", "require", "golib", "debug"} {
		r.SetTable(g, rt.StringValue(n), rt.NilValue)
	}
	return r, cleanup
}

var devNullF *os.File

func devNull() *os.File {
	if devNullF == nil {
		devNullF, _ = os.OpenFile(os.DevNull, os.O_WRONLY, 0)
	}
	return devNullF
}

// ---------------------------------------------------------------------------
// supervised workers: the parent splits [0,n) into chunks; a worker prints one line per case and
// flushes; if a worker dies, the case after its last printed line is the culprit (class CRASH) and
// the rest of the chunk is re-queued.

type job struct{ from, to int }

func superviseWorkers(mode string, tier string, n int, extra []string, lineIdx func(string) int, mkCrashLine func(idx int, class string, detail string) string, perCaseTimeout time.Duration) {
	nw := runtime.NumCPU()
	if v := os.Getenv("C04_WORKERS"); v != "" {
		nw = atoi(v)
	}
	chunk := (n + nw*8 - 1) / (nw * 8)
	if chunk < 1 {
		chunk = 1
	}
	if chunk > 4000 {
		chunk = 4000
	}
	var mu sync.Mutex
	confirmedHangs := 0 // TIMEOUTs that persisted when the case was run again alone (guarded by mu)
	hangs := 0          // watchdog verdicts so far (guarded by mu)
	inflight := 0       // jobs being processed (guarded by mu)
	var queue []job
	for i := 0; i < n; i += chunk {
		queue = append(queue, job{i, min(i+chunk, n)})
	}
	out := bufio.NewWriterSize(os.Stdout, 1<<20)
	defer out.Flush()
	var wg sync.WaitGroup
	for w := 0; w < nw; w++ {
		wg.Add(1)
		go func() {
			defer wg.Done()
			for {
				mu.Lock()
				if len(queue) == 0 {
					// jobs in flight may still put work back on the queue
					idle := inflight == 0
					mu.Unlock()
					if idle {
						return
					}
					time.Sleep(50 * time.Millisecond)
					continue
				}
				j := queue[0]
				queue = queue[1:]
				inflight++
				mu.Unlock()
				for j.from < j.to {
					var wenv []string
					mu.Lock()
					if hangs >= 10 {
						// the tree under test hangs on many inputs: do not spend 10 s on each of the rest
						wenv = []string{"C04_CASE_TIMEOUT=2"}
					}
					mu.Unlock()
					lines, stderr, status := runWorker(mode, tier, j, extra, perCaseTimeout, wenv...)
					if n := len(lines); n > 0 && status == "ok" {
						if f := strings.Fields(lines[n-1]); len(f) > 3 && (f[2] == clsTimeo || f[3] == clsTimeo) {
							mu.Lock()
							hangs++
							mu.Unlock()
							// the worker's watchdog fired: the machine may just be busy, so the case is run
							// once more, alone, with a 4x longer limit; that result is the one reported.
							// Once a few hangs have been confirmed that way the tree under test really hangs
							// (e.g. a deadlock in the scanner): later watchdog verdicts are then reported as
							// they are, so that the phase still ends in reasonable time with the inputs.
							mu.Lock()
							confirm := confirmedHangs < 3
							mu.Unlock()
							if confirm {
								l2, _, st2 := runWorker(mode, tier, job{j.from + n - 1, j.from + n}, extra, 90*time.Second, "C04_CASE_TIMEOUT=60")
								if st2 == "ok" && len(l2) == 1 {
									lines[n-1] = l2[0]
									if f2 := strings.Fields(l2[0]); len(f2) > 3 && (f2[2] == clsTimeo || f2[3] == clsTimeo) {
										mu.Lock()
										confirmedHangs++
										mu.Unlock()
									}
								}
							}
						}
					}
					mu.Lock()
					for _, l := range lines {
						out.WriteString(l)
						out.WriteByte('\n')
					}
					mu.Unlock()
					done := len(lines)
					if status == "ok" && j.from+done >= j.to {
						break
					}
					if status == "ok" {
						// clean exit before the end of the job: the worker's own watchdog reported a hanging
						// case (its TIMEOUT line is the last one) and stopped.  The rest of the job goes back
						// to the queue in small pieces so that all workers share it (hanging inputs cluster).
						mu.Lock()
						for a := j.from + done; a < j.to; a += 25 {
							queue = append(queue, job{a, min(a+25, j.to)})
						}
						mu.Unlock()
						break
					}
					// the worker died on case j.from+done
					idx := j.from + done
					cls, detail := clsCrash, fatalClass(stderr)
					if status == "timeout" {
						// the machine may just be busy: run this one case alone with a generous budget
						l2, _, st2 := runWorker(mode, tier, job{idx, idx + 1}, extra, 90*time.Second)
						if st2 == "ok" && len(l2) == 1 {
							mu.Lock()
							out.WriteString(l2[0])
							out.WriteByte('\n')
							mu.Unlock()
							j.from = idx + 1
							continue
						}
						cls, detail = clsTimeo, ""
					}
					mu.Lock()
					out.WriteString(mkCrashLine(idx, cls, detail))
					out.WriteByte('\n')
					mu.Unlock()
					j.from = idx + 1
				}
				mu.Lock()
				inflight--
				mu.Unlock()
			}
		}()
	}
	wg.Wait()
}

// runWorker runs one worker process over a job; returns its complete output lines, its stderr tail
// and "ok" | "died" | "timeout".
func runWorker(mode, tier string, j job, extra []string, perCase time.Duration, env ...string) ([]string, string, string) {
	args := append([]string{mode, tier, strconv.Itoa(j.from), strconv.Itoa(j.to)}, extra...)
	cmd := exec.Command(os.Args[0], args...)
	cmd.Env = append(childEnv(), env...)
	var stdout, stderrBuf bytes.Buffer
	stderr := &limitedWriter{buf: &stderrBuf, max: 1 << 16}
	cmd.Stdout = &stdout
	cmd.Stderr = stderr
	cmd.Stdin = nil
	if err := cmd.Start(); err != nil {
		return nil, err.Error(), "died"
	}
	doneCh := make(chan error, 1)
	go func() { doneCh <- cmd.Wait() }()
	budget := 30*time.Second + time.Duration(j.to-j.from)*perCase
	status := "ok"
	select {
	case err := <-doneCh:
		if err != nil {
			status = "died"
		}
	case <-time.After(budget):
		cmd.Process.Kill()
		<-doneCh
		status = "timeout"
	}
	s := stdout.String()
	var lines []string
	for _, l := range strings.Split(s, "\n") {
		if l != "" {
			lines = append(lines, l)
		}
	}
	// an incomplete last line (no trailing newline) is dropped
	if !strings.HasSuffix(s, "\n") && len(lines) > 0 {
		lines = lines[:len(lines)-1]
	}
	return lines, stderr.String(), status
}

// limitedWriter keeps the first max/4 bytes (where "fatal error: ..." / "panic: ..." is) and the last
// max bytes of what is written to it.
type limitedWriter struct {
	buf  *bytes.Buffer
	max  int
	head []byte
}

func (w *limitedWriter) Write(p []byte) (int, error) {
	if len(w.head) < w.max/4 {
		k := w.max/4 - len(w.head)
		if k > len(p) {
			k = len(p)
		}
		w.head = append(w.head, p[:k]...)
	}
	w.buf.Write(p)
	if w.buf.Len() > 2*w.max {
		b := append([]byte(nil), w.buf.Bytes()[w.buf.Len()-w.max:]...)
		w.buf.Reset()
		w.buf.Write(b)
	}
	return len(p), nil
}

// String: head + tail (the head only when the tail no longer contains it)
func (w *limitedWriter) String() string {
	t := w.buf.String()
	if strings.HasPrefix(t, string(w.head)) {
		return t
	}
	return string(w.head) + "\n...\n" + t
}

func childEnv() []string {
	env := []string{}
	for _, e := range os.Environ() {
		if strings.HasPrefix(e, "GOMEMLIMIT=") || strings.HasPrefix(e, "GOTRACEBACK=") {
			continue
		}
		env = append(env, e)
	}
	// GOLUA_PLUGINS_ROOT="" makes golib.import refuse at once instead of running the Go toolchain
	// (`go list`, `go build -buildmode=plugin`) on the pool strings
	return append(env, "GOMEMLIMIT=3GiB", "GOTRACEBACK=single", "GOLUA_PLUGINS_ROOT=")
}

// fatalClass classifies the stderr of a dead child.
func fatalClass(stderr string) string {
	switch {
	case strings.Contains(stderr, "goroutine stack exceeds"):
		return "fatal: stack overflow (goroutine stack exceeds limit)"
	case strings.Contains(stderr, "fatal error: stack overflow"):
		return "fatal: stack overflow"
	case strings.Contains(stderr, "out of memory") || strings.Contains(stderr, "cannot allocate memory"):
		return "fatal: out of memory"
	case strings.Contains(stderr, "fatal error: all goroutines are asleep"):
		return "fatal: deadlock"
	case strings.Contains(stderr, "fatal error:"):
		i := strings.Index(stderr, "fatal error:")
		return normMsg(firstLine(stderr[i:]))
	case strings.Contains(stderr, "panic: "):
		i := strings.Index(stderr, "panic: ")
		msg := firstLine(stderr[i+7:])
		// "panic: X [recovered]\n\tpanic: Y": Y is what killed the process
		rest := stderr[i:]
		first := strings.TrimSuffix(msg, " [recovered]")
		same := false
		for {
			nl := strings.IndexByte(rest, '\n')
			if nl < 0 || !strings.HasPrefix(rest[nl+1:], "\tpanic: ") {
				break
			}
			rest = rest[nl+2:]
			msg = firstLine(rest[7:])
			same = strings.TrimSuffix(msg, " [recovered]") == first
		}
		return "panic: " + normMsg(msg) + "|" + crashFrame(stderr[i:], same)
	}
	if len(stderr) > 120 {
		stderr = stderr[len(stderr)-120:]
	}
	return "died: " + normMsg(stderr)
}

// crashFrame: first golua frame of an unrecovered panic trace
// crashFrame: where the panic that killed the process was raised.  The dying goroutine is printed
// first, innermost frame first.  "panic: V [recovered] / panic: V" (the same value re-panicked by a
// deferred function) -> the frame below the last `panic(` line is the original site; otherwise (a
// different panic raised while unwinding, or a plain panic) it is the innermost golua frame.
func crashFrame(trace string, samePanicRepanicked bool) string {
	g := trace
	if i := strings.Index(trace, "\ngoroutine "); i >= 0 {
		g = trace[i+1:]
		if j := strings.Index(g, "\n\n"); j >= 0 {
			g = g[:j]
		}
	}
	if samePanicRepanicked {
		if f := topFrame([]byte(g)); !strings.HasPrefix(f, "?") {
			return f
		}
	}
	via := ""
	for _, l := range strings.Split(g, "\n") {
		if strings.HasPrefix(l, "github.com/arnodel/golua/") {
			if m := reFrame.FindStringSubmatch(l); m != nil {
				f := cleanFrame(m[1])
				if isReleaseHelper(f) {
					via = "(via ReleaseMem)"
					continue
				}
				return f + via
			}
		}
	}
	return "?" + via
}

func firstLine(s string) string {
	if i := strings.IndexByte(s, '\n'); i >= 0 {
		return s[:i]
	}
	return s
}

// watchdog: a worker arms it before every case; if the case does not finish in time the watchdog
// prints the case's TIMEOUT line itself and ends the process (the supervisor continues after it).
type watchdog struct {
	mu       sync.Mutex
	deadline time.Time
	line     string
	out      *bufio.Writer
}

func newWatchdog(out *bufio.Writer) *watchdog {
	w := &watchdog{out: out}
	go func() {
		for {
			time.Sleep(200 * time.Millisecond)
			w.mu.Lock()
			if !w.deadline.IsZero() && time.Now().After(w.deadline) {
				w.out.WriteString(w.line + "\n")
				w.out.Flush()
				os.Exit(0)
			}
			w.mu.Unlock()
		}
	}()
	return w
}

func (w *watchdog) arm(d time.Duration, timeoutLine string) {
	w.mu.Lock()
	w.deadline = time.Now().Add(d)
	w.line = timeoutLine
	w.mu.Unlock()
}

// emit writes a result line (disarming the watchdog first so that both cannot write)
func (w *watchdog) emit(line string) {
	w.mu.Lock()
	w.deadline = time.Time{}
	w.out.WriteString(line + "\n")
	w.out.Flush()
	w.mu.Unlock()
}

// setChildLimits caps the address space of this process (ulimit -v equivalent).
func setChildLimits(asBytes uint64) {
	lim := syscall.Rlimit{Cur: asBytes, Max: asBytes}
	_ = syscall.Setrlimit(syscall.RLIMIT_AS, &lim)
}

func hx(s string) string {
	if s == "" {
		return "-"
	}
	return hex.EncodeToString([]byte(s))
}

// ---------------------------------------------------------------------------
// replay

func replay(args []string) {
	if len(args) < 2 {
		usage()
	}
	switch args[0] {
	case "text":
		src, err := hex.DecodeString(args[1])
		if err != nil {
			fmt.Fprintln(os.Stderr, err)
			os.Exit(2)
		}
		r, cleanup := newTextRuntime()
		defer cleanup()
		cls, detail, flags := compileAndRun(r, src, runLimits)
		fmt.Printf("text %s %s %s %s\n", args[1], cls, hx(detail), flags)
		fmt.Printf("# source: %q\n# outcome: %s %s\n", src, cls, detail)
	case "template":
		if len(args) < 3 {
			usage()
		}
		fmt.Println(runTemplateChild(args[1], atoi(args[2]), 120*time.Second))
	case "call":
		replayCall(args[1], args[2:])
	default:
		usage()
	}
}
