package main

import (
	"fmt"
	"os"
	"strconv"
	"strings"
	"sync"

	"github.com/arnodel/golua/code"
	rt "github.com/arnodel/golua/runtime"
	"verifharness/hlib"
)

// limits mode: size-parameterised programs around each limit modelled in lean/GoluaVerif/Model/Limits.lean.
// One line per case:   limit <kind> <size> <observed> <measure>
// observed: ok | compile-error | panic | wrong ; measure: the quantity the model takes as input
// (live locals / positional items / constants in the unit / opcodes of the longest function — the last
// two are given by construction and CHECKED against the compiled unit whenever it compiles: a mismatch
// is reported as `miscount`).

type limitCase struct {
	kind string
	size int
}

func limitCases(tier string) []limitCase {
	var cs []limitCase
	add := func(kind string, sizes ...int) {
		for _, s := range sizes {
			cs = append(cs, limitCase{kind, s})
		}
	}
	add("live-locals", 1, 100, 200, 250, 251, 256, 257, 300, 1000)
	add("ctor-tail", 0, 1, 100, 253, 254, 255, 256, 300, 1000)
	add("constants", 1000, 65535, 65536, 65537, 65600)
	add("straight-line", 100, 10000, 10900, 10921, 10922, 10923, 10930, 12000)
	add("skipped-body", 100, 10000, 10900, 10915, 10925, 10930, 12000, 22000)
	if tier == "thorough" {
		add("live-locals", 252, 253, 254, 255, 500, 5000)
		add("ctor-tail", 2, 10, 200, 250, 251, 252, 257, 500, 5000)
		add("constants", 10, 30000, 65530, 65534, 65538, 70000, 100000)
		for n := 10905; n <= 10935; n++ {
			add("straight-line", n)
			add("skipped-body", n)
		}
		add("straight-line", 20000, 30000, 40000)
		add("skipped-body", 20000, 21001, 30000, 40000)
	}
	return cs
}

func limitProgram(kind string, n int) (src string, expect string, measure int) {
	switch kind {
	case "live-locals":
		return "local " + seq(n, func(i int) string { return "a" + num(i) }, ",") + " = 1 return a1", "i1", n
	case "ctor-tail":
		items := seq(n, num, ",")
		if n > 0 {
			items += ","
		}
		return "local function g() return 7 end local t = {" + items + " g()} return #t", encI(n + 1), n
	case "constants":
		// n constants in the unit: K function prototypes + 1 main prototype + distinct strings
		K := 8
		strs := n - K - 1
		if strs < 0 {
			K, strs = 0, n-1
		}
		var sb strings.Builder
		id := 0
		for f := 0; f < K; f++ {
			m := strs / K
			if f < strs%K {
				m++
			}
			sb.WriteString("local function f" + num(f) + "() local x ")
			for j := 0; j < m; j++ {
				sb.WriteString("x = 's" + num(id) + "' ")
				id++
			}
			sb.WriteString("return x end ")
		}
		if K == 0 {
			sb.WriteString("local x ")
			for j := 0; j < strs; j++ {
				sb.WriteString("x = 's" + num(id) + "' ")
				id++
			}
		}
		sb.WriteString("return 1")
		return sb.String(), "i1", n
	case "straight-line":
		return "local x = 0 " + rep("x = x + 1 ", n) + "return x", encI(n), 3*n + 4 // opcodes by construction, checked below
	case "skipped-body":
		return "local x, c = 0, false if c then " + rep("x = x + 1 ", n) + "end return x", "i0", 3*n + 6
	}
	return "", "", 0
}

func runLimitCase(c limitCase) string {
	src, expect, measure := limitProgram(c.kind, c.size)
	r, cleanup := hlib.NewRuntime(devNull())
	defer func() { guard(func() (string, string) { cleanup(); return "", "" }) }()
	var clos *rt.Closure
	observed := ""
	cls, _ := guard(func() (string, string) {
		unit, _, err := r.CompileLuaChunk("t", []byte(src))
		if err != nil {
			if _, internal := internalErr(err.Error()); internal {
				return "panic", ""
			}
			return "compile-error", ""
		}
		maxFn := 0
		for _, k := range unit.Constants {
			if cc, ok := k.(code.Code); ok && int(cc.EndOffset-cc.StartOffset) > maxFn {
				maxFn = int(cc.EndOffset - cc.StartOffset)
			}
		}
		switch c.kind {
		case "constants":
			if len(unit.Constants) != measure {
				return "miscount", strconv.Itoa(len(unit.Constants))
			}
		case "straight-line", "skipped-body":
			if maxFn != measure {
				return "miscount", strconv.Itoa(maxFn)
			}
		}
		clos = r.LoadLuaUnit(unit, rt.TableValue(r.GlobalEnv()))
		return clsOK, ""
	})
	switch cls {
	case clsPanic:
		observed = "panic"
	case clsOK:
	default:
		observed = cls
	}
	if observed == "" {
		var first rt.Value
		cls2, _ := guard(func() (string, string) {
			th := r.MainThread()
			term := rt.NewTerminationWith(nil, 0, true)
			ctx, _ := th.CallContext(rt.RuntimeContextDef{HardLimits: templLimits}, func() error {
				return rt.Call(th, rt.FunctionValue(clos), nil, term)
			})
			if ctx.Status() != rt.StatusDone {
				return clsErr, ""
			}
			if len(term.Etc()) > 0 {
				first = term.Etc()[0]
			}
			return clsOK, ""
		})
		if cls2 == clsOK && hlib.Enc(first) == expect {
			observed = "ok"
		} else {
			observed = "wrong"
		}
	}
	return fmt.Sprintf("limit %s %d %s %d", c.kind, c.size, observed, measure)
}

func limitsMode(tier string) {
	if tier == "one" { // c04 limits one <kind> <size>
		if len(os.Args) < 5 {
			usage()
		}
		fmt.Println(runLimitCase(limitCase{os.Args[3], atoi(os.Args[4])}))
		return
	}
	cs := limitCases(tier)
	out := make([]string, len(cs))
	sem := make(chan struct{}, 8)
	var wg sync.WaitGroup
	for i, c := range cs {
		wg.Add(1)
		sem <- struct{}{}
		go func(i int, c limitCase) {
			defer wg.Done()
			out[i] = runLimitCase(c)
			<-sem
		}(i, c)
	}
	wg.Wait()
	for _, l := range out {
		fmt.Println(l)
	}
}
