// render.go — Lua source text of a program in several renderings.  All renderings put
// the same statements on the same lines, so the `chunk:line:` prefixes agree.
package main

import (
	"fmt"
	"math"
	"strconv"
	"strings"

	"verifharness/hlib"
)

type Style struct {
	Name   string
	Parens bool // redundant parentheses
	Fancy  bool // random whitespace / comments / literal spellings / sugar
	Rng    *hlib.Rng
}

type tok struct {
	s     string
	space bool // canonical: a space before this token
}

type renderer struct {
	st     Style
	lines  []string
	cur    []tok
	indent int
	line   int // 1-based number of the line being built
	inReturn bool
}

var binPrec = map[string]int{
	"or": 1, "and": 2,
	"lt": 3, "gt": 3, "le": 3, "ge": 3, "ne": 3, "eq": 3,
	"bor": 4, "bxor": 5, "band": 6, "shl": 7, "shr": 7,
	"concat": 8, "add": 9, "sub": 9,
	"mul": 10, "div": 10, "idiv": 10, "mod": 10,
	"pow": 12,
}

const unaryPrec = 11

var binSym = map[string]string{
	"or": "or", "and": "and", "lt": "<", "gt": ">", "le": "<=", "ge": ">=", "ne": "~=", "eq": "==",
	"bor": "|", "bxor": "~", "band": "&", "shl": "<<", "shr": ">>", "concat": "..", "add": "+", "sub": "-",
	"mul": "*", "div": "/", "idiv": "//", "mod": "%", "pow": "^",
}

var unSym = map[string]string{"neg": "-", "not": "not", "len": "#", "bnot": "~"}

var keywords = map[string]bool{"and": true, "break": true, "do": true, "else": true, "elseif": true, "end": true,
	"false": true, "for": true, "function": true, "goto": true, "if": true, "in": true, "local": true, "nil": true,
	"not": true, "or": true, "repeat": true, "return": true, "then": true, "true": true, "until": true, "while": true}

func isIdent(s string) bool {
	if s == "" || keywords[s] {
		return false
	}
	for i, c := range []byte(s) {
		if c == '_' || (c >= 'a' && c <= 'z') || (c >= 'A' && c <= 'Z') || (i > 0 && c >= '0' && c <= '9') {
			continue
		}
		return false
	}
	return true
}

func (r *renderer) chance(p int) bool { return r.st.Fancy && r.st.Rng.Chance(p) }

func (r *renderer) t(s string)  { r.cur = append(r.cur, tok{s, true}) }  // token with a space before
func (r *renderer) tn(s string) { r.cur = append(r.cur, tok{s, false}) } // token glued to the previous one

var fancyComments = []string{"--[[c]]", "--[==[ ]] ]==]", "--[[ -- ]]", "--[=[x]=]"}

func (r *renderer) nl() {
	var b strings.Builder
	if r.st.Fancy {
		switch r.st.Rng.Below(4) {
		case 0:
			b.WriteString(strings.Repeat("\t", r.indent))
		case 1:
			b.WriteString(strings.Repeat(" ", r.st.Rng.Below(7)))
		default:
			b.WriteString(strings.Repeat("  ", r.indent))
		}
	} else {
		b.WriteString(strings.Repeat("  ", r.indent))
	}
	prev := ""
	for i, tk := range r.cur {
		sep := ""
		if i > 0 {
			if tk.space {
				sep = " "
			}
			force := (strings.HasSuffix(prev, "-") && strings.HasPrefix(tk.s, "-")) ||
				(strings.HasSuffix(prev, "[") && strings.HasPrefix(tk.s, "[")) ||
				(strings.HasSuffix(prev, ".") && strings.HasPrefix(tk.s, ".")) ||
				(len(prev) > 0 && isWordByte(prev[len(prev)-1]) && len(tk.s) > 0 && isWordByte(tk.s[0]))
			if force && sep == "" {
				sep = " "
			}
			if r.st.Fancy {
				switch r.st.Rng.Below(12) {
				case 0:
					sep = "  "
				case 1:
					sep = "\t"
				case 2:
					sep = " " + fancyComments[r.st.Rng.Below(len(fancyComments))] + " "
				case 3:
					if sep == "" {
						sep = " "
					}
				}
			}
		}
		b.WriteString(sep)
		b.WriteString(tk.s)
		prev = tk.s
	}
	if r.st.Fancy && len(r.cur) > 0 {
		switch r.st.Rng.Below(8) {
		case 0:
			b.WriteString(" -- trailing comment ]] \"")
		case 1:
			if !r.inReturn {
				b.WriteString(" ;")
			}
		case 2:
			b.WriteString("   ")
		}
	}
	r.lines = append(r.lines, b.String())
	r.cur = nil
	r.line++
}

func isWordByte(c byte) bool {
	return c == '_' || (c >= 'a' && c <= 'z') || (c >= 'A' && c <= 'Z') || (c >= '0' && c <= '9')
}

// ---- literals -------------------------------------------------------------------

func (r *renderer) intLit(n int64) string {
	if n < 0 {
		if n == math.MinInt64 {
			return "math.mininteger"
		}
		return "(-" + r.intLit(-n) + ")"
	}
	if r.chance(30) {
		if r.st.Rng.Bool() {
			return fmt.Sprintf("0x%x", n)
		}
		return fmt.Sprintf("0X%X", n)
	}
	return strconv.FormatInt(n, 10)
}

func (r *renderer) fltLit(f float64) string {
	if math.IsNaN(f) {
		return "(0/0)"
	}
	if math.IsInf(f, 1) {
		return "math.huge"
	}
	if math.IsInf(f, -1) {
		return "(-math.huge)"
	}
	if f < 0 || (f == 0 && math.Signbit(f)) {
		return "(-" + r.fltLit(-f) + ")"
	}
	if r.chance(25) {
		return strconv.FormatFloat(f, 'x', -1, 64)
	}
	if r.chance(20) {
		return strconv.FormatFloat(f, 'e', -1, 64)
	}
	s := strconv.FormatFloat(f, 'g', -1, 64)
	if !strings.ContainsAny(s, ".eE") {
		s += ".0"
	}
	return s
}

func (r *renderer) strLit(s string) string {
	printable := true
	for _, c := range []byte(s) {
		if c < 32 || c > 126 {
			printable = false
		}
	}
	if r.st.Fancy && printable && s != "" && !strings.Contains(s, "]") && r.st.Rng.Chance(20) {
		if r.st.Rng.Bool() {
			return "[[" + s + "]]"
		}
		return "[==[" + s + "]==]"
	}
	q := byte('"')
	if r.chance(40) {
		q = '\''
	}
	var b strings.Builder
	b.WriteByte(q)
	bs := []byte(s)
	for i, c := range bs {
		nextDigit := i+1 < len(bs) && bs[i+1] >= '0' && bs[i+1] <= '9'
		switch {
		case c == q || c == '\\':
			b.WriteByte('\\')
			b.WriteByte(c)
		case c == '\n':
			b.WriteString("\\n")
		case c == '\t' && !r.st.Fancy:
			b.WriteString("\\t")
		case c >= 32 && c <= 126:
			if r.st.Fancy && r.st.Rng.Chance(10) {
				switch r.st.Rng.Below(3) {
				case 0:
					fmt.Fprintf(&b, "\\x%02x", c)
				case 1:
					fmt.Fprintf(&b, "\\u{%x}", c)
				default:
					fmt.Fprintf(&b, "\\%03d", c)
				}
			} else {
				b.WriteByte(c)
			}
			nextSpace := i+1 < len(bs) && (bs[i+1] == ' ' || (bs[i+1] >= 9 && bs[i+1] <= 13))
			if r.st.Fancy && !nextSpace && r.st.Rng.Chance(4) {
				b.WriteString("\\z  \t ") // \z skips the following white space (so never before a real space)
			}
		default:
			if r.st.Fancy && r.st.Rng.Bool() {
				fmt.Fprintf(&b, "\\x%02X", c)
			} else if nextDigit || r.st.Rng == nil || !r.st.Fancy {
				fmt.Fprintf(&b, "\\%03d", c)
			} else {
				fmt.Fprintf(&b, "\\%d", c)
			}
		}
	}
	b.WriteByte(q)
	return b.String()
}

// ---- expressions -----------------------------------------------------------------

func multiValued(e *E) bool { return e.Op == "call" || e.Op == "meth" || e.Op == "vararg" }

func prec(e *E) int {
	switch e.Op {
	case "bin":
		return binPrec[e.S]
	case "un":
		return unaryPrec
	case "int":
		if e.I < 0 {
			return 99 // rendered with its own parentheses
		}
	}
	return 99
}

// expr emits e; single = the context takes exactly one value anyway (so redundant parentheses are allowed
// even around calls and `...`).
func (r *renderer) expr(e *E, single bool) {
	if r.st.Parens && (single || !multiValued(e)) && e.Op != "par" {
		p := 35
		if r.st.Fancy {
			p = 12
		}
		if r.st.Rng.Chance(p) {
			r.tn("(")
			r.expr0(e)
			r.tn(")")
			return
		}
	}
	r.expr0(e)
}

func (r *renderer) wrapped(e *E, need bool) {
	if need {
		r.tn("(")
		r.expr0(e)
		r.tn(")")
	} else {
		r.expr(e, true)
	}
}

func (r *renderer) prefix(e *E) {
	switch e.Op {
	case "var", "idx", "call", "meth", "par":
		r.expr0(e)
	default:
		r.tn("(")
		r.expr0(e)
		r.tn(")")
	}
}

func (r *renderer) args(es []*E) {
	if r.st.Fancy && len(es) == 1 && r.st.Rng.Chance(30) {
		if es[0].Op == "str" {
			r.t(r.strLit(es[0].S))
			return
		}
		if es[0].Op == "tbl" {
			r.expr0(es[0])
			return
		}
	}
	r.tn("(")
	r.exprList(es)
	r.tn(")")
}

func (r *renderer) exprList(es []*E) {
	for i, e := range es {
		if i > 0 {
			r.tn(",")
		}
		last := i == len(es)-1
		r.exprSp(e, !last, i > 0)
	}
}

// exprSp emits e with a canonical space before its first token when sp is set.
func (r *renderer) exprSp(e *E, single bool, sp bool) {
	n := len(r.cur)
	r.expr(e, single)
	if sp && n < len(r.cur) {
		r.cur[n].space = true
	}
}

func (r *renderer) expr0(e *E) {
	switch e.Op {
	case "nil", "true", "false":
		r.tn(e.Op)
	case "vararg":
		r.tn("...")
	case "int":
		r.tn(r.intLit(e.I))
	case "flt":
		r.tn(r.fltLit(e.F))
	case "str":
		r.tn(r.strLit(e.S))
	case "var":
		r.tn(e.S)
	case "idx":
		r.prefix(e.Kids[0])
		k := e.Kids[1]
		if k.Op == "str" && isIdent(k.S) && !r.chance(25) {
			r.tn(".")
			r.tn(k.S)
		} else {
			r.tn("[")
			r.expr(k, true)
			r.tn("]")
		}
	case "call":
		r.prefix(e.Kids[0])
		r.args(e.Kids[1:])
	case "meth":
		r.prefix(e.Kids[0])
		r.tn(":")
		r.tn(e.S)
		r.args(e.Kids[1:])
	case "fn":
		r.tn("function")
		r.funcBody(e.Fn, false)
	case "bin":
		p := binPrec[e.S]
		rightAssoc := e.S == "concat" || e.S == "pow"
		a, b := e.Kids[0], e.Kids[1]
		pa, pb := prec(a), prec(b)
		needA := pa < p || (pa == p && rightAssoc)
		needB := pb < p || (pb == p && !rightAssoc)
		if e.S == "pow" {
			needA = pa <= unaryPrec || pa == p
			needB = pb < unaryPrec
		}
		r.wrapped(a, needA)
		r.t(binSym[e.S])
		n := len(r.cur)
		r.wrapped(b, needB)
		if n < len(r.cur) {
			r.cur[n].space = true
		}
	case "un":
		a := e.Kids[0]
		r.tn(unSym[e.S])
		n := len(r.cur)
		r.wrapped(a, prec(a) < unaryPrec)
		if e.S == "not" && n < len(r.cur) {
			r.cur[n].space = true
		}
	case "par":
		r.tn("(")
		r.expr0(e.Kids[0])
		r.tn(")")
	case "tbl":
		r.tn("{")
		for i, f := range e.Fields {
			if i > 0 {
				if r.chance(30) {
					r.tn(";")
				} else {
					r.tn(",")
				}
			}
			last := i == len(e.Fields)-1
			n := len(r.cur)
			if f.Key == nil {
				r.expr(f.Val, !last)
			} else {
				if f.Key.Op == "str" && isIdent(f.Key.S) && !r.chance(25) {
					r.tn(f.Key.S)
				} else {
					r.tn("[")
					r.expr(f.Key, true)
					r.tn("]")
				}
				r.t("=")
				r.exprSp(f.Val, true, true)
			}
			if i > 0 && n < len(r.cur) {
				r.cur[n].space = true
			}
		}
		if len(e.Fields) > 0 && r.chance(20) {
			r.tn(",")
		}
		r.tn("}")
	default:
		panic("render: bad expr op " + e.Op)
	}
}

// funcBody emits `(params)` and the body, ending with `end`; the current line continues after `end`.
func (r *renderer) funcBody(f *Func, skipSelf bool) {
	params := f.Params
	if skipSelf {
		params = params[1:]
	}
	r.tn("(")
	for i, p := range params {
		if i > 0 {
			r.tn(",")
			r.t(p)
		} else {
			r.tn(p)
		}
	}
	if f.Vararg {
		if len(params) > 0 {
			r.tn(",")
			r.t("...")
		} else {
			r.tn("...")
		}
	}
	r.tn(")")
	r.nl()
	r.indent++
	r.block(f.Body)
	r.indent--
	r.tn("end")
}

// ---- statements -------------------------------------------------------------------

func (r *renderer) setLine(s *S) {
	if s.Line != 0 && s.Line != r.line && r.st.Name != "canon" {
		panic(fmt.Sprintf("rendering %s moves a statement from line %d to %d", r.st.Name, s.Line, r.line))
	}
	s.Line = r.line
}

func (r *renderer) block(ss []*S) {
	for _, s := range ss {
		r.stmt(s)
	}
}

// dotted name chain of identifiers (for `function a.b.c()` sugar)
func nameChain(e *E) ([]string, bool) {
	switch e.Op {
	case "var":
		return []string{e.S}, true
	case "idx":
		if e.Kids[1].Op == "str" && isIdent(e.Kids[1].S) {
			if c, ok := nameChain(e.Kids[0]); ok {
				return append(c, e.Kids[1].S), true
			}
		}
	}
	return nil, false
}

// longForm spells a string that contains line breaks as a long bracket: the level is the smallest one the content
// cannot close; a first line break right after the opening bracket is not part of the string (so one is added when
// the content itself starts with a line break, and sometimes anyway).  Returns the literal and the number of line
// breaks it contains.
func longForm(s string, extraLevel int) (string, int) {
	extra := strings.HasPrefix(s, "\n") || len(s)%2 == 0
	n := 0
	for {
		closer := "]" + strings.Repeat("=", n) + "]"
		if strings.Index(s+closer, closer) == len(s) {
			break
		}
		n++
	}
	n += extraLevel
	eq := strings.Repeat("=", n)
	lit := "[" + eq + "["
	cnt := strings.Count(s, "\n")
	if extra {
		lit += "\n"
		cnt++
	}
	return lit + s + "]" + eq + "]", cnt
}

func multilineLiteral(s *S) (string, bool) {
	if s.Op == "local" && len(s.Names) == 1 && len(s.Es) == 1 && s.Es[0].Op == "str" && strings.Contains(s.Es[0].S, "\n") && !strings.Contains(s.Es[0].S, "\r") {
		return s.Es[0].S, true
	}
	return "", false
}

func (r *renderer) stmt(s *S) {
	switch s.Op {
	case "local":
		r.setLine(s)
		if content, ok := multilineLiteral(s); ok {
			// `local name = <string with line breaks>`: quoted in the canonical rendering (padded with blank lines),
			// a long bracket spanning the same number of lines in the others
			r.tn("local")
			r.t(s.Names[0])
			if s.Attribs[0] != "-" {
				r.t("<" + s.Attribs[0] + ">")
			}
			r.t("=")
			if r.st.Name == "canon" {
				_, cnt := longForm(content, 0)
				r.t(r.strLit(content))
				r.nl()
				for i := 0; i < cnt; i++ {
					r.lines = append(r.lines, "")
					r.line++
				}
			} else {
				lvl := 0
				if r.st.Fancy {
					lvl = r.st.Rng.Below(3)
				}
				lit, cnt := longForm(content, lvl)
				r.t(lit)
				r.nl()
				r.line += cnt
			}
			return
		}
		r.tn("local")
		for i, n := range s.Names {
			if i > 0 {
				r.tn(",")
			}
			r.t(n)
			if s.Attribs[i] != "-" {
				r.t("<" + s.Attribs[i] + ">")
			}
		}
		if len(s.Es) > 0 {
			r.t("=")
			n := len(r.cur)
			r.exprList(s.Es)
			if n < len(r.cur) {
				r.cur[n].space = true
			}
		}
		r.nl()
	case "assign":
		r.setLine(s)
		if r.st.Fancy && len(s.Targets) == 1 && len(s.Es) == 1 && s.Es[0].Op == "fn" && r.st.Rng.Chance(60) {
			if chain, ok := nameChain(s.Targets[0]); ok {
				f := s.Es[0].Fn
				r.tn("function")
				method := len(chain) > 1 && len(f.Params) > 0 && f.Params[0] == "self" && r.st.Rng.Chance(80)
				for i, c := range chain {
					if i == 0 {
						r.t(c)
					} else if i == len(chain)-1 && method {
						r.tn(":")
						r.tn(c)
					} else {
						r.tn(".")
						r.tn(c)
					}
				}
				r.funcBody(f, method)
				r.nl()
				return
			}
		}
		for i, t := range s.Targets {
			if i > 0 {
				r.tn(",")
			}
			n := len(r.cur)
			r.expr0(t)
			if i > 0 {
				r.cur[n].space = true
			}
		}
		r.t("=")
		n := len(r.cur)
		r.exprList(s.Es)
		if n < len(r.cur) {
			r.cur[n].space = true
		}
		r.nl()
	case "call":
		r.setLine(s)
		n0 := len(r.cur)
		r.expr0(s.Es[0])
		if n0 < len(r.cur) && strings.HasPrefix(r.cur[n0].s, "(") {
			// a statement must not start with `(`: it would continue the previous one
			r.cur = append(r.cur[:n0], append([]tok{{";", false}}, r.cur[n0:]...)...)
		}
		r.nl()
	case "do":
		r.tn("do")
		r.nl()
		r.indent++
		r.block(s.Body)
		r.indent--
		r.tn("end")
		r.nl()
	case "while":
		r.setLine(s)
		r.tn("while")
		r.exprSp(s.Cond, true, true)
		r.t("do")
		r.nl()
		r.indent++
		r.block(s.Body)
		r.indent--
		r.tn("end")
		r.nl()
	case "repeat":
		r.tn("repeat")
		r.nl()
		r.indent++
		r.block(s.Body)
		r.indent--
		r.setLine(s)
		r.tn("until")
		r.exprSp(s.Cond, true, true)
		r.nl()
	case "if":
		r.ifChain(s, "if")
		r.tn("end")
		r.nl()
	case "fornum":
		r.setLine(s)
		r.tn("for")
		r.t(s.Names[0])
		r.t("=")
		for i, e := range s.Es {
			if i > 0 {
				r.tn(",")
			}
			r.exprSp(e, true, true)
		}
		r.t("do")
		r.nl()
		r.indent++
		r.block(s.Body)
		r.indent--
		r.tn("end")
		r.nl()
	case "forin":
		r.setLine(s)
		r.tn("for")
		for i, n := range s.Names {
			if i > 0 {
				r.tn(",")
			}
			r.t(n)
		}
		r.t("in")
		n := len(r.cur)
		r.exprList(s.Es)
		if n < len(r.cur) {
			r.cur[n].space = true
		}
		r.t("do")
		r.nl()
		r.indent++
		r.block(s.Body)
		r.indent--
		r.tn("end")
		r.nl()
	case "localfn":
		r.setLine(s)
		r.tn("local")
		r.t("function")
		r.t(s.Names[0])
		r.funcBody(s.Fn, false)
		r.nl()
	case "return":
		r.setLine(s)
		savedRet := r.inReturn
		r.inReturn = true
		r.tn("return")
		if len(s.Es) > 0 {
			n := len(r.cur)
			r.exprList(s.Es)
			if n < len(r.cur) {
				r.cur[n].space = true
			}
		}
		if r.chance(20) {
			r.tn(";")
		}
		r.nl()
		r.inReturn = savedRet
	case "break":
		r.tn("break")
		r.nl()
	case "goto":
		r.tn("goto")
		r.t(s.Names[0])
		r.nl()
	case "label":
		r.tn("::")
		r.tn(s.Names[0])
		r.tn("::")
		r.nl()
	default:
		panic("render: bad stmt op " + s.Op)
	}
}

// ifChain renders `if c then … [elseif …] [else …]` without the final `end`: an else branch that
// consists of a single `if` statement is always rendered as `elseif` (so that lines agree).
func (r *renderer) ifChain(s *S, kw string) {
	r.setLine(s)
	r.tn(kw)
	r.exprSp(s.Cond, true, true)
	r.t("then")
	r.nl()
	r.indent++
	r.block(s.Body)
	r.indent--
	if len(s.Else) == 1 && s.Else[0].Op == "if" {
		r.ifChain(s.Else[0], "elseif")
	} else if len(s.Else) > 0 {
		r.tn("else")
		r.nl()
		r.indent++
		r.block(s.Else)
		r.indent--
	}
}

// Render assigns line numbers (canonical style first!) and returns the source text.
func Render(prog []*S, st Style) string {
	r := &renderer{st: st, line: 1}
	r.block(prog)
	return strings.Join(r.lines, "\n") + "\n"
}

func clearLines(ss []*S) {
	for _, s := range ss {
		s.Line = 0
		clearLines(s.Body)
		clearLines(s.Else)
		if s.Fn != nil {
			clearLines(s.Fn.Body)
		}
		for _, e := range append(append([]*E{}, s.Es...), s.Targets...) {
			clearLinesE(e)
		}
		if s.Cond != nil {
			clearLinesE(s.Cond)
		}
	}
}

func clearLinesE(e *E) {
	if e.Fn != nil {
		clearLines(e.Fn.Body)
	}
	for _, k := range e.Kids {
		clearLinesE(k)
	}
	for _, f := range e.Fields {
		if f.Key != nil {
			clearLinesE(f.Key)
		}
		clearLinesE(f.Val)
	}
}
