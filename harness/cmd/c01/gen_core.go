// gen_core.go — state of the type- and scope-directed program generator (DESIGN §13).
package main

import (
	"fmt"

	"verifharness/hlib"
)

type Kind int

const (
	KNil Kind = iota
	KBool
	KInt
	KFloat
	KStr    // string that is not used as a number
	KNumStr // string holding an integer numeral ("10", " 7 ", "0x10")
	KSeq    // table: sequence of integers without holes
	KRec    // table: record with known fields
	KObj    // table with a metatable (class)
	KFunc
	KAny // statically unknown (results of pcall, mixed and/or …): only emitted, compared with ==, type()d
)

type FnInfo struct {
	Params []Kind
	Vararg bool
	Rets   []Kind
	Pure   bool // no emit, no writes to anything but its own locals, cannot raise
}

type Class struct {
	Metas   map[string]bool // metamethods defined
	Methods []string        // methods reachable through __index (each takes (self, int) and returns an int)
	IdxFn   bool            // __index is a function
}

type VarInfo struct {
	Name   string
	Kind   Kind
	Mut    bool // random assignment statements may assign to it
	Small  bool // immutable integer known to lie in [0, 12]
	Fields map[string]Kind
	FNames []string
	Fn     *FnInfo
	Cls    *Class
	FnDepth int // function nesting depth at which it was declared
}

type G struct {
	rng     *hlib.Rng
	c11     bool
	pool    bool // C14: bias towards what stresses the register / continuation / cell pools
	scopes  [][]*VarInfo
	ctr     int
	depth   int // statement nesting
	fnDepth int
	vararg  bool // inside a vararg function
	loops   int  // enclosing loops inside the current function
	budget  int
	feats   map[string]bool
	sites   map[string]int // deliberate error sites by class
	protDepth int          // >0: inside a function that is only run under pcall/xpcall
}

// longHistory: iteration count of the long error histories (set from C01_LONG; 0 = default 1200..1400 only)
var longHistory int

func NewG(seed uint64, c11 bool) *G {
	return &G{rng: hlib.NewRng(seed), c11: c11, scopes: [][]*VarInfo{{}}, feats: map[string]bool{}, sites: map[string]int{}}
}

func (g *G) fresh(prefix string) string {
	g.ctr++
	return fmt.Sprintf("%s%d", prefix, g.ctr)
}

func (g *G) push()  { g.scopes = append(g.scopes, nil) }
func (g *G) pop()   { g.scopes = g.scopes[:len(g.scopes)-1] }
func (g *G) declare(v *VarInfo) *VarInfo {
	v.FnDepth = g.fnDepth
	g.scopes[len(g.scopes)-1] = append(g.scopes[len(g.scopes)-1], v)
	return v
}

// vars returns the visible variables satisfying pred (innermost first; shadowed names skipped).
func (g *G) vars(pred func(*VarInfo) bool) []*VarInfo {
	seen := map[string]bool{}
	var out []*VarInfo
	for i := len(g.scopes) - 1; i >= 0; i-- {
		sc := g.scopes[i]
		for j := len(sc) - 1; j >= 0; j-- {
			v := sc[j]
			if seen[v.Name] {
				continue
			}
			seen[v.Name] = true
			if pred(v) {
				out = append(out, v)
			}
		}
	}
	return out
}

func (g *G) pickVar(pred func(*VarInfo) bool) *VarInfo {
	vs := g.vars(pred)
	if len(vs) == 0 {
		return nil
	}
	return vs[g.rng.Below(len(vs))]
}

func (g *G) ofKind(k Kind) func(*VarInfo) bool { return func(v *VarInfo) bool { return v.Kind == k } }

func (g *G) pick(n int) int      { return g.rng.Below(n) }
func (g *G) chance(p int) bool   { return g.rng.Chance(p) }
func (g *G) feat(f string)       { g.feats[f] = true }

func (g *G) pickS(xs []string) string   { return xs[g.rng.Below(len(xs))] }
func (g *G) pickI(xs []int64) int64     { return xs[g.rng.Below(len(xs))] }
func (g *G) pickF(xs []float64) float64 { return xs[g.rng.Below(len(xs))] }
func (g *G) pickK(xs []Kind) Kind       { return xs[g.rng.Below(len(xs))] }
func (g *G) pickE(xs []*E) *E           { return xs[g.rng.Below(len(xs))] }

// weighted choice: returns the index chosen
func (g *G) weighted(ws []int) int {
	t := 0
	for _, w := range ws {
		t += w
	}
	r := g.rng.Below(t)
	for i, w := range ws {
		if r < w {
			return i
		}
		r -= w
	}
	return len(ws) - 1
}

var strPool = []string{"", "a", "b", "hi", "abc", "Hello", "x y", "key", "boom", "E1", "tab\there", "q\"uote", "back\\slash",
	"nl\nline", "\x00nul", "caf\xc3\xa9", "\xff\xfe", "zzz", "A", "lua 5.4"}
var numStrPool = []string{"10", "7", " 7 ", "0x10", "-3", "0", "42", "  12", "0X0a"}
var fieldPool = []string{"x", "y", "n", "name", "val", "key", "id", "count", "end", "a b"}
var intPool = []int64{0, 1, 2, 3, 4, 5, 7, 8, 10, 16, 31, 32, 63, 64, 100, 255, 256, 1000, 65535, 32767, 32768, 32769, 40000, 50000, 65534, 65536, -32768, -32769, -40000, -65535, 1 << 31, 1<<31 - 1, 1 << 32,
	1 << 53, 1<<53 + 1, 1<<62 + 3, 9223372036854775807, -1, -2, -5, -7, -64, -100, -9223372036854775807}
var fltPool = []float64{0.0, 0.5, 1.0, 1.5, 2.0, 2.25, 3.0, 4.0, 0.125, 10.0, 100.5, 1024.0, 1e10, 65536.0, 9007199254740992.0, 3.75}
