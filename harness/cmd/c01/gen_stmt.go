// gen_stmt.go — statement templates, part 1: locals, assignment, emit, control flow, functions.
package main

func (g *G) exprDepth() int { return 1 + g.pick(3) }

// block generates up to n statements in a fresh scope.
func (g *G) block(n int) []*S {
	g.push()
	defer g.pop()
	return g.stmts(n)
}

func (g *G) stmts(n int) []*S {
	var out []*S
	for i := 0; i < n && g.budget > 0; i++ {
		out = append(out, g.stmt()...)
	}
	return out
}

type tmpl struct {
	w int
	f func(*G) []*S
}

var templates []tmpl

func init() {
	templates = []tmpl{
		{14, (*G).tLocal}, {10, (*G).tAssign}, {16, (*G).tEmit}, {7, (*G).tIf}, {4, (*G).tWhile}, {3, (*G).tRepeat},
		{6, (*G).tForNum}, {5, (*G).tForIn}, {6, (*G).tFuncDef}, {7, (*G).tCallImpure}, {3, (*G).tDo},
		{4, (*G).tClosureCounter}, {4, (*G).tLoopClosures}, {4, (*G).tMultiAssign}, {4, (*G).tTable},
		{5, (*G).tVarargFn}, {4, (*G).tGoto}, {6, (*G).tTypeError}, {5, (*G).tErrorValue}, {6, (*G).tMeta},
		{3, (*G).tMethod}, {2, (*G).tTbc}, {3, (*G).tTruncExpand}, {2, (*G).tRecursion}, {2, (*G).tStringCoerce},
		{4, (*G).tForEdge}, {2, (*G).tXpcall}, {2, (*G).tNestedProtect}, {5, (*G).tIndexChain}, {2, (*G).tSelect},
		{0, (*G).tErrorSite}, {0, (*G).tPoolStress}, {5, (*G).tCoroutine}, {0, (*G).tLongHistory}, {5, (*G).tSurplus}, {6, (*G).tEvalOrder}, {3, (*G).tLongString},
	}
}

func (g *G) stmt() []*S {
	g.budget--
	ws := make([]int, len(templates))
	for i, t := range templates {
		ws[i] = t.w
		if g.depth >= 3 && i >= 3 {
			ws[i] = 0 // deep inside: only locals, assignments, emits
		}
	}
	if g.c11 {
		for _, i := range []int{17, 18, 26, 27} {
			if ws[i] > 0 {
				ws[i] *= 3
			}
		}
		if g.depth < 3 {
			ws[30] = 40 // tErrorSite
			ws[32] = 10 // tCoroutine
		}
	}
	return templates[g.weighted(ws)].f(g)
}

func (g *G) tLocal() []*S {
	n := 1 + g.weighted([]int{70, 20, 10})
	var names []string
	var es []*E
	var vs []*VarInfo
	kinds := []Kind{KInt, KInt, KInt, KStr, KFloat, KBool, KNumStr, KSeq, KNil}
	for i := 0; i < n; i++ {
		k := g.pickK(kinds)
		name := g.fresh("v")
		names = append(names, name)
		es = append(es, g.genKind(k, g.exprDepth()))
		v := &VarInfo{Name: name, Kind: k, Mut: g.chance(60)}
		if k == KNil {
			v.Kind = KAny
		}
		vs = append(vs, v)
	}
	s := Local(names, es...)
	// attribs: const for immutable variables
	for i, v := range vs {
		if !v.Mut && g.chance(30) {
			s.Attribs[i] = "const"
		}
	}
	// fewer or more values than names (adjustment): only with trailing names of kind any
	if g.chance(10) {
		name := g.fresh("v")
		s.Names = append(s.Names, name)
		s.Attribs = append(s.Attribs, "-")
		vs = append(vs, &VarInfo{Name: name, Kind: KAny, Mut: true})
	}
	for _, v := range vs {
		g.declare(v)
	}
	return []*S{s}
}

func assignable(v *VarInfo) bool {
	return v.Mut && (v.Kind == KInt || v.Kind == KStr || v.Kind == KFloat || v.Kind == KBool || v.Kind == KAny || v.Kind == KNumStr)
}

func (g *G) tAssign() []*S {
	v := g.pickVar(assignable)
	if v == nil {
		return g.tLocal()
	}
	switch {
	case g.chance(20):
		// field / element update
		if t := g.pickVar(g.ofKind(KRec)); t != nil && len(t.FNames) > 0 {
			f := g.pickS(t.FNames)
			return []*S{Assign1(Dot(g.use(t), f), g.genKind(t.Fields[f], g.exprDepth()))}
		}
	case g.chance(10):
		// a global variable
		name := g.pickS([]string{"G1", "G2", "G3"})
		return []*S{Assign1(Var(name), g.genInt(1)), Emit(Var(name))}
	}
	return []*S{Assign1(g.use(v), g.genKind(v.Kind, g.exprDepth()))}
}

func (g *G) tEmit() []*S {
	n := 1 + g.pick(3)
	var es []*E
	for i := 0; i < n; i++ {
		es = append(es, g.genEmittable(g.exprDepth()))
	}
	return []*S{Emit(es...)}
}

func (g *G) nested(f func() []*S) []*S {
	g.depth++
	defer func() { g.depth-- }()
	return f()
}

func (g *G) tIf() []*S {
	return g.nested(func() []*S {
		s := If(g.genBool(2), g.block(1+g.pick(3)), nil)
		cur := s
		for g.chance(35) {
			nx := If(g.genBool(2), g.block(1+g.pick(2)), nil)
			cur.Else = []*S{nx}
			cur = nx
		}
		if g.chance(50) {
			cur.Else = g.block(1 + g.pick(2))
			if len(cur.Else) == 1 && cur.Else[0].Op == "if" {
				cur.Else = append(cur.Else, Emit(Str("else")))
			}
		}
		return []*S{s}
	})
}

func (g *G) loopBody(n int, extra ...*S) []*S {
	g.loops++
	defer func() { g.loops-- }()
	g.feat("loop")
	g.push()
	defer g.pop()
	body := g.stmts(n)
	if g.chance(15) {
		body = append(body, If(g.genBool(1), []*S{Break()}, nil))
	}
	return append(body, extra...)
}

func (g *G) tWhile() []*S {
	return g.nested(func() []*S {
		i := g.fresh("i")
		n := int64(1 + g.pick(5))
		g.push()
		defer g.pop()
		g.declare(&VarInfo{Name: i, Kind: KInt})
		body := g.loopBody(1+g.pick(3), Assign1(Var(i), Bin("add", Var(i), Int(1))))
		return []*S{Do(Local1(i, Int(0)), While(Bin("lt", Var(i), Int(n)), body...))}
	})
}

func (g *G) tRepeat() []*S {
	return g.nested(func() []*S {
		i := g.fresh("i")
		n := int64(1 + g.pick(4))
		g.push()
		defer g.pop()
		g.declare(&VarInfo{Name: i, Kind: KInt})
		// the condition refers to a local declared inside the body (§3.3.4)
		d := g.fresh("d")
		g.loops++
		g.feat("loop")
		g.push()
		body := g.stmts(1 + g.pick(2))
		body = append(body, Assign1(Var(i), Bin("add", Var(i), Int(1))), Local1(d, Bin("ge", Var(i), Int(n))))
		g.pop()
		g.loops--
		return []*S{Do(Local1(i, Int(0)), Repeat(Var(d), body...))}
	})
}

func (g *G) tForNum() []*S {
	return g.nested(func() []*S {
		i := g.fresh("i")
		var e1, e2, e3 *E
		kind := KInt
		switch g.weighted([]int{50, 20, 15, 15}) {
		case 0:
			e1, e2 = Int(int64(g.pick(4))), Int(int64(g.pick(7)))
		case 1:
			e1, e2, e3 = Int(int64(g.pick(10))), Int(int64(g.pick(4))-2), Int(-int64(1+g.pick(3)))
		case 2:
			e1, e2, e3 = Int(1), Int(int64(3+g.pick(8))), Int(int64(1+g.pick(4)))
		default:
			kind = KFloat
			e1, e2, e3 = Flt(g.pickF([]float64{0.0, 1.0, 0.5})), Flt(g.pickF([]float64{2.0, 2.5, 3.0})), Flt(g.pickF([]float64{0.5, 0.25, 1.0}))
			if g.chance(55) {
				e1 = Int(int64(g.pick(2))) // integer start with a float step: a float loop from the first iteration on
				if g.chance(40) {
					e3 = Flt(1.0)
				}
			}
		}
		if kind == KInt && g.chance(15) {
			e2 = Flt(float64(g.pick(6)) + 0.5) // a float limit is clipped
		}
		g.push()
		defer g.pop()
		g.declare(&VarInfo{Name: i, Kind: kind})
		body := g.loopBody(1 + g.pick(3))
		if kind == KFloat {
			// the subtype of the control variable is observable from the first iteration on
			body = append([]*S{Emit(Var(i), Call(Dot(Var("math"), "type"), Var(i)))}, body...)
		} else if g.chance(40) {
			body = append([]*S{Emit(Var(i))}, body...)
		}
		return []*S{ForNum(i, e1, e2, e3, body...)}
	})
}

func (g *G) tForIn() []*S {
	return g.nested(func() []*S {
		k, v := g.fresh("k"), g.fresh("x")
		acc := g.fresh("acc")
		switch g.pick(4) {
		case 0, 1:
			// ipairs over a sequence: order is determined
			t := g.genSeq(1)
			g.push()
			defer g.pop()
			g.declare(&VarInfo{Name: k, Kind: KInt})
			g.declare(&VarInfo{Name: v, Kind: KInt})
			body := g.loopBody(1+g.pick(2))
			body = append([]*S{Emit(Var(k), Var(v))}, body...)
			return []*S{ForIn([]string{k, v}, []*E{CallN("ipairs", t)}, body...)}
		case 2:
			// pairs: only an order-independent aggregate is observed
			t := g.genSeq(1)
			fn := g.pickS([]string{"pairs", "next"})
			es := []*E{CallN("pairs", t)}
			if fn == "next" {
				es = []*E{Var("next"), t}
			}
			return []*S{Do(Local([]string{acc, "cnt"}, Int(0), Int(0)),
				ForIn([]string{k, v}, es, Assign([]*E{Var(acc), Var("cnt")}, Bin("add", Var(acc), Bin("mul", Var(k), Var(v))), Bin("add", Var("cnt"), Int(1)))),
				Emit(Var(acc), Var("cnt")))}
		default:
			// a stateless iterator function written in Lua
			it := g.fresh("it")
			n := int64(1 + g.pick(4))
			g.push()
			defer g.pop()
			g.declare(&VarInfo{Name: k, Kind: KInt})
			body := g.loopBody(1 + g.pick(2))
			body = append([]*S{Emit(Var(k))}, body...)
			return []*S{Do(
				LocalFn(it, []string{"s", "c"}, false, If(Bin("lt", Var("c"), Var("s")), []*S{Return(Bin("add", Var("c"), Int(1)), Bin("mul", Var("c"), Int(2)))}, nil)),
				ForIn([]string{k, v}, []*E{Var(it), Int(n), Int(0)}, body...))}
		}
	})
}

func (g *G) tDo() []*S {
	return g.nested(func() []*S {
		// shadowing: a new local with the name of an existing one
		if v := g.pickVar(func(v *VarInfo) bool { return v.Kind == KInt }); v != nil && g.chance(50) {
			g.push()
			defer g.pop()
			sh := Local1(v.Name, Bin("add", g.use(v), Int(1)))
			g.declare(&VarInfo{Name: v.Name, Kind: KInt, Mut: true})
			body := append([]*S{sh}, g.stmts(1+g.pick(2))...)
			return []*S{Do(append(body, Emit(Var(v.Name)))...), Emit(Var(v.Name))}
		}
		return []*S{Do(g.block(1 + g.pick(3))...)}
	})
}

// function body in a fresh function scope; params are declared with their kinds.
func (g *G) funcBody(params []string, kinds []Kind, vararg bool, gen func() []*S) []*S {
	g.push()
	g.fnDepth++
	sv, sl, sd := g.vararg, g.loops, g.depth
	g.vararg, g.loops = vararg, 0
	g.depth++
	for i, p := range params {
		g.declare(&VarInfo{Name: p, Kind: kinds[i], Mut: g.chance(40)})
	}
	body := gen()
	g.vararg, g.loops, g.depth = sv, sl, sd
	g.fnDepth--
	g.pop()
	return body
}

func (g *G) tFuncDef() []*S {
	name := g.fresh("f")
	np := g.pick(4)
	var params []string
	var kinds []Kind
	for i := 0; i < np; i++ {
		params = append(params, g.fresh("p"))
		kinds = append(kinds, g.pickK([]Kind{KInt, KInt, KStr, KFloat, KBool}))
	}
	nr := g.weighted([]int{10, 60, 20, 10})
	var rets []Kind
	for i := 0; i < nr; i++ {
		rets = append(rets, g.pickK([]Kind{KInt, KInt, KStr, KFloat, KBool}))
	}
	pure := g.chance(50)
	info := &FnInfo{Params: kinds, Rets: rets, Pure: pure}
	body := g.funcBody(params, kinds, false, func() []*S {
		var b []*S
		retE := func() []*E {
			var es []*E
			for _, k := range rets {
				es = append(es, g.genKind(k, 2))
			}
			return es
		}
		if pure {
			for i := g.pick(3); i > 0; i-- {
				b = append(b, g.tLocal()...)
			}
			if g.chance(40) {
				b = append(b, If(g.genBool(2), []*S{Return(retE()...)}, nil))
			}
		} else {
			b = append(b, g.stmts(1+g.pick(4))...)
			if g.chance(30) {
				b = append(b, If(g.genBool(2), []*S{Emit(Str("early")), Return(retE()...)}, nil))
			}
		}
		return append(b, Return(retE()...))
	})
	v := &VarInfo{Name: name, Kind: KFunc, Fn: info}
	var def *S
	switch g.pick(3) {
	case 0:
		def = Local1(name, Fn(params, false, body...))
	default:
		def = LocalFn(name, params, false, body...)
	}
	g.declare(v)
	return []*S{def}
}

// an impure call: the only impure operand of its statement
func (g *G) tCallImpure() []*S {
	f := g.pickVar(func(v *VarInfo) bool { return v.Kind == KFunc && !v.Fn.Vararg })
	if f == nil {
		return g.tFuncDef()
	}
	var args []*E
	for _, k := range f.Fn.Params {
		args = append(args, g.genKind(k, 1))
	}
	// extra / missing trailing arguments are legal (adjustment)
	if g.chance(10) {
		args = append(args, g.genInt(0))
	}
	call := Call(g.use(f), args...)
	switch g.weighted([]int{30, 30, 20, 20}) {
	case 0:
		return []*S{Emit(call)}
	case 1:
		var names []string
		for i := 0; i < len(f.Fn.Rets)+g.pick(2); i++ {
			n := g.fresh("r")
			names = append(names, n)
			k := KAny
			if i < len(f.Fn.Rets) {
				k = f.Fn.Rets[i]
			}
			defer g.declare(&VarInfo{Name: n, Kind: k, Mut: true})
		}
		if len(names) == 0 {
			return []*S{CallS(call)}
		}
		return []*S{Local(names, call)}
	case 2:
		return []*S{CallS(call)}
	default:
		if len(f.Fn.Rets) > 0 && f.Fn.Rets[0] == KInt {
			return []*S{Emit(Bin(g.pickS([]string{"add", "mul", "sub"}), call, g.intLit()))}
		}
		return []*S{Emit(Str("r"), call)}
	}
}

func (g *G) tClosureCounter() []*S {
	g.feat("closure")
	mk, c := g.fresh("mk"), g.fresh("c")
	a, b := g.fresh("ca"), g.fresh("cb")
	step := int64(1 + g.pick(3))
	def := LocalFn(mk, []string{"start"}, false,
		Local1(c, Var("start")),
		Return(Fn(nil, false, Assign1(Var(c), Bin("add", Var(c), Int(step))), Return(Var(c)))))
	out := []*S{def, Local([]string{a, b}, Call(Var(mk), Int(int64(g.pick(5)))), Call(Var(mk), Int(100)))}
	for i := 0; i < 2+g.pick(3); i++ {
		out = append(out, Emit(Call(Var(g.pickS([]string{a, b})))))
	}
	info := &FnInfo{Rets: []Kind{KInt}}
	g.declare(&VarInfo{Name: a, Kind: KFunc, Fn: info})
	g.declare(&VarInfo{Name: b, Kind: KFunc, Fn: info})
	return out
}

// closures created in different iterations capture different variables
func (g *G) tLoopClosures() []*S {
	g.feat("closure")
	g.feat("loop")
	fs, i, j := g.fresh("fs"), g.fresh("i"), g.fresh("j")
	n := int64(2 + g.pick(3))
	store := Assign1(Idx(Var(fs), Bin("add", Un("len", Var(fs)), Int(1))), Fn(nil, false, Assign1(Var(j), Bin("add", Var(j), Int(1))), Return(Var(i), Var(j))))
	var loop *S
	switch g.pick(4) {
	case 0:
		loop = ForNum(i, Int(1), Int(n), nil, Local1(j, Bin("mul", Var(i), Int(10))), store)
	case 1:
		loop = ForIn([]string{i, "_"}, []*E{CallN("ipairs", Tbl(Pos(Int(5)), Pos(Int(6)), Pos(Int(7))))}, Local1(j, Bin("mul", Var(i), Int(10))), store)
	case 2:
		// while: the variable declared in the body is fresh per iteration, the counter is shared
		loop = Do(Local1(i, Int(0)), While(Bin("lt", Var(i), Int(n)), Assign1(Var(i), Bin("add", Var(i), Int(1))), Local1(j, Bin("mul", Var(i), Int(10))), store))
	default:
		// backward goto over a local declaration
		g.feat("goto")
		top := g.fresh("L")
		loop = Do(Local1(i, Int(0)), Label(top), Assign1(Var(i), Bin("add", Var(i), Int(1))), Local1(j, Bin("mul", Var(i), Int(10))), store,
			If(Bin("lt", Var(i), Int(n)), []*S{Goto(top)}, nil))
	}
	k, f := g.fresh("k"), g.fresh("fn")
	return []*S{Local1(fs, Tbl()), loop,
		ForIn([]string{k, f}, []*E{CallN("ipairs", Var(fs))}, Emit(Var(k), Call(Var(f))), Emit(Call(Var(f))))}
}

func (g *G) tMultiAssign() []*S {
	g.feat("multi-assign")
	a := g.pickVar(func(v *VarInfo) bool { return v.Mut && v.Kind == KInt })
	b := g.pickVar(func(v *VarInfo) bool { return v.Mut && v.Kind == KInt && v != a })
	switch {
	case g.chance(30):
		// overlapping table targets and sources with different keys: t[i], t[j] = t[j], t[i]; three-way rotation
		// through fields and a local (the targets never alias each other, so the unspecified order of the
		// assignments cannot be observed)
		t, i, j, x := g.fresh("t"), g.fresh("i"), g.fresh("j"), g.fresh("x")
		vi, vj := int64(1+g.pick(2)), int64(3+g.pick(2))
		return []*S{Do(Local([]string{t, i, j, x}, Tbl(Pos(Int(10)), Pos(Int(20)), Pos(Int(30)), Pos(Int(40)), NV("k", Str("K"))), Int(vi), Int(vj), Str("X")),
			Assign([]*E{Idx(Var(t), Var(i)), Idx(Var(t), Var(j))}, Idx(Var(t), Var(j)), Idx(Var(t), Var(i))),
			Emit(Idx(Var(t), Int(1)), Idx(Var(t), Int(2)), Idx(Var(t), Int(3)), Idx(Var(t), Int(4))),
			Assign([]*E{Dot(Var(t), "k"), Var(x), Idx(Var(t), Bin("add", Var(i), Int(0)))}, Var(x), Idx(Var(t), Var(i)), Dot(Var(t), "k")),
			Emit(Dot(Var(t), "k"), Var(x), Idx(Var(t), Var(i))),
			Assign([]*E{Var(i), Var(j), Idx(Var(t), Var(j))}, Var(j), Var(i), Bin("mul", Var(i), Var(j))),
			Emit(Var(i), Var(j), Idx(Var(t), Int(vj))))}
	case a != nil && b != nil && g.chance(50):
		// swap / rotate: all right-hand sides are evaluated before any assignment
		return []*S{Assign([]*E{g.use(a), g.use(b)}, g.use(b), Bin("add", g.use(a), g.use(b))), Emit(g.use(a), g.use(b))}
	default:
		// the manual's example: i, t[i] = i+1, 20 sets t[old i]
		i, t := g.fresh("i"), g.fresh("t")
		n := int64(1 + g.pick(3))
		return []*S{Do(Local([]string{i, t}, Int(n), Tbl(Pos(Int(1)), Pos(Int(2)), Pos(Int(3)), Pos(Int(4)), Pos(Int(5)))),
			Assign([]*E{Var(i), Idx(Var(t), Var(i))}, Bin("add", Var(i), Int(1)), Int(20)),
			Emit(Var(i), Idx(Var(t), Int(n)), Idx(Var(t), Int(n+1))),
			Assign([]*E{Idx(Var(t), Var(i)), Var(i)}, Var(i), Idx(Var(t), Var(i))),
			Emit(Var(i), Idx(Var(t), Int(n+1))),
			// more values than targets, fewer values than targets
			Assign([]*E{Var(i), Idx(Var(t), Int(5))}, Int(7)),
			Emit(Var(i), Idx(Var(t), Int(5)), Un("len", Var(t))))}
	}
}

func (g *G) tTable() []*S {
	t := g.fresh("t")
	switch g.pick(3) {
	case 0:
		ctor, n := g.genSeqCtor(2)
		v := g.declare(&VarInfo{Name: t, Kind: KSeq})
		out := []*S{Local1(t, ctor), Emit(Un("len", g.use(v)))}
		if g.chance(60) {
			out = append(out, CallS(Call(Dot(Var("table"), "insert"), Var(t), g.genInt(1))), Emit(Un("len", Var(t)), Idx(Var(t), Int(int64(n+1)))))
			if g.chance(40) {
				out = append(out, Emit(Call(Dot(Var("table"), "remove"), Var(t)), Un("len", Var(t))))
			}
		}
		if g.chance(40) {
			out = append(out, Emit(Call(Dot(Var("table"), "concat"), Var(t), Str(","))))
		}
		if g.chance(40) {
			out = append(out, Emit(Call(Dot(Var("table"), "unpack"), Var(t))))
		}
		return out
	case 1:
		// record: named, computed and positional fields mixed (no repeated keys)
		v := &VarInfo{Name: t, Kind: KRec, Fields: map[string]Kind{}}
		ctor := Tbl()
		for _, f := range fieldPool {
			if g.chance(35) {
				k := g.pickK([]Kind{KInt, KStr, KFloat, KBool})
				v.Fields[f] = k
				v.FNames = append(v.FNames, f)
				if g.chance(25) {
					ctor.Fields = append(ctor.Fields, KV(Bin("concat", Str(f[:1]), Str(f[1:])), g.genKind(k, 1)))
				} else {
					ctor.Fields = append(ctor.Fields, NV(f, g.genKind(k, 1)))
				}
			}
			if g.chance(15) {
				ctor.Fields = append(ctor.Fields, Pos(g.genInt(1)))
			}
		}
		g.declare(v)
		out := []*S{Local1(t, ctor), Emit(Un("len", Var(t)))}
		for _, f := range v.FNames {
			if g.chance(50) {
				out = append(out, Emit(Str(f), Dot(Var(t), f)))
			}
		}
		return out
	default:
		// nested tables and aliasing
		u := g.fresh("u")
		return []*S{Local1(t, Tbl(NV("in", Tbl(Pos(Int(1)), Pos(Int(2)))), NV("n", g.genInt(1)))), Local1(u, Dot(Var(t), "in")),
			Assign1(Idx(Var(u), Int(3)), g.genInt(1)), Emit(Un("len", Dot(Var(t), "in")), Idx(Dot(Var(t), "in"), Int(3)), Bin("eq", Var(u), Dot(Var(t), "in")), Bin("eq", Var(u), Tbl()))}
	}
}
