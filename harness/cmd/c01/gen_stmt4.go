// gen_stmt4.go — coroutines: producer/consumer, generators in for-in, errors caught by resume, yield across pcall,
// wrap, status, close with pending to-be-closed variables.
package main

func co(name string, args ...*E) *E { return Call(Dot(Var("coroutine"), name), args...) }

func (g *G) tCoroutine() []*S {
	g.feat("coroutine")
	c := g.fresh("co")
	n := int64(2 + g.pick(3))
	switch g.pick(10) {
	case 0:
		// generator: values passed out by yield and in by resume
		return []*S{Local1(c, co("create", Fn([]string{"a", "b"}, false,
			Emit(Str("start"), Var("a"), Var("b")),
			Local1("x", co("yield", Bin("add", Var("a"), Var("b")))),
			Emit(Str("got"), Var("x")),
			Local([]string{"y", "z"}, co("yield", Bin("mul", Var("x"), Int(2)), Str("two"))),
			Emit(Str("got2"), Var("y"), Var("z")),
			Return(Str("done"), Var("y"))))),
			Emit(co("status", Var(c))),
			Emit(co("resume", Var(c), g.genInt(0), Int(10))),
			Emit(co("status", Var(c))),
			Emit(co("resume", Var(c), g.genInt(0))),
			Emit(co("resume", Var(c), Str("p"), Str("q"), Str("extra"))),
			Emit(co("status", Var(c))),
			Emit(co("resume", Var(c))),
			Emit(co("status", Var(c)))}
	case 1:
		// a wrapped generator driving a generic for; the loop body has its own state
		g.feat("loop")
		acc := g.fresh("acc")
		return []*S{Local1(acc, Int(0)),
			ForIn([]string{"v", "w"}, []*E{co("wrap", Fn(nil, false,
				ForNum("i", Int(1), Int(n), nil, CallS(co("yield", Var("i"), Bin("mul", Var("i"), Var("i"))))),
				Emit(Str("generator finished"))))},
				Assign1(Var(acc), Bin("add", Var(acc), Var("w"))), Emit(Var("v"), Var("w"), Var(acc))),
			Emit(Var(acc))}
	case 2:
		// producer / consumer: two coroutines, one resuming the other (status normal)
		g.feat("loop")
		prod, cons := g.fresh("prod"), g.fresh("cons")
		return []*S{Local([]string{prod, cons}),
			Assign1(Var(prod), co("create", Fn(nil, false,
				ForNum("i", Int(1), Int(n), nil, Emit(Str("produce"), Var("i")), CallS(co("yield", Bin("mul", Var("i"), Int(10))))),
				Return(Nil())))),
			Assign1(Var(cons), co("create", Fn(nil, false,
				While(True(),
					Local([]string{"ok", "v"}, co("resume", Var(prod))),
					Emit(Str("consume"), Var("ok"), Var("v"), co("status", Var(prod)), co("status", Var(cons))),
					If(Bin("eq", Var("v"), Nil()), []*S{Break()}, nil),
					CallS(co("yield", Var("v")))),
				Return(Str("consumer done"))))),
			Repeat(Bin("eq", co("status", Var(cons)), Str("dead")),
				Emit(Str("main"), co("resume", Var(cons)))),
			Emit(co("status", Var(prod)), co("status", Var(cons)))}
	case 3:
		// an error inside a coroutine is caught by resume: value by identity; the coroutine is dead afterwards
		g.feat("error")
		ev := g.fresh("ev")
		return []*S{Local1(ev, Tbl()),
			Local1(c, co("create", Fn([]string{"x"}, false, Emit(Str("in")), CallS(co("yield", Int(1))), CallS(CallN("error", Var(ev))), Emit(Str("unreachable"))))),
			Emit(co("resume", Var(c), Int(0))),
			Local([]string{"ok", "e"}, co("resume", Var(c))),
			Emit(Var("ok"), Bin("eq", Var("e"), Var(ev)), co("status", Var(c))),
			Emit(co("resume", Var(c))),
			Emit(co("close", Var(c))), Emit(co("status", Var(c)))}
	case 4:
		// a runtime error with its position inside a coroutine; pcall inside the coroutine; yield across pcall
		g.feat("error")
		return []*S{Local1(c, co("create", Fn(nil, false,
			Local([]string{"ok", "v"}, CallN("pcall", Fn(nil, false, Local1("r", co("yield", Str("from inside pcall"))), Emit(Str("resumed with"), Var("r")), CallS(CallN("error", Str("E1"))), Return(Var("r"))))),
			Emit(Str("pcall in coroutine"), Var("ok"), Var("v")),
			Local1("t", Nil()),
			Return(Dot(Var("t"), "x"))))),
			Emit(co("resume", Var(c))),
			Emit(co("resume", Var(c), g.genInt(0))),
			Emit(co("status", Var(c)))}
	case 5:
		// wrap: results, and an error (a table) propagating to the caller of the wrapped function
		g.feat("error")
		ev, w := g.fresh("ev"), g.fresh("w")
		return []*S{Local1(ev, Tbl()),
			Local1(w, co("wrap", Fn([]string{"a"}, true, Local1("b", co("yield", Var("a"), CallN("select", Str("#"), Vararg()))), CallS(CallN("error", Var(ev)))))),
			Emit(Call(Var(w), Int(1), Int(2), Int(3))),
			Local([]string{"ok", "e"}, CallN("pcall", Var(w), Str("second"))),
			Emit(Var("ok"), Bin("eq", Var("e"), Var(ev)), CallN("type", Var(w)))}
	case 6:
		// status / running / isyieldable seen from inside and outside
		return []*S{Local1(c, Nil()),
			Assign1(Var(c), co("create", Fn(nil, false,
				Local([]string{"me", "ismain"}, co("running")),
				Emit(Bin("eq", Var("me"), Var(c)), Var("ismain"), co("isyieldable"), co("status", Var(c)), CallN("type", Var("me"))),
				CallS(co("yield")),
				Emit(co("resume", Var(c)))))),
			Emit(CallN("select", Int(2), co("running")), co("isyieldable")),
			Emit(co("resume", Var(c))), Emit(co("resume", Var(c))), Emit(co("status", Var(c))),
			Emit(CallN("pcall", Fn(nil, false, Local1("r", co("yield", Int(1))), Return(Var("r")))))}
	case 7:
		// close a suspended coroutine with pending to-be-closed variables; closing a fresh and a dead one
		g.feat("metamethod")
		mk := func(tag string) *E {
			return CallN("setmetatable", Tbl(), Tbl(NV("__close", Fn([]string{"o", "e"}, false, Emit(Str("closing"), Str(tag), Bin("eq", Var("e"), Nil()))))))
		}
		return []*S{Local1(c, co("create", Fn(nil, false,
			LocalAttr("a", "close", mk("a")),
			Do(LocalAttr("b", "close", mk("b")), CallS(co("yield", Str("suspended inside"))), Emit(Str("unreachable"))),
			Emit(Str("unreachable 2"))))),
			Emit(co("resume", Var(c))),
			Emit(co("status", Var(c))),
			Emit(co("close", Var(c))),
			Emit(co("status", Var(c)), co("resume", Var(c))),
			Emit(co("close", co("create", Var("type"))))}
	case 8:
		// yield from nested Lua calls, from an iterator and from a metamethod; state after an error caught by resume
		g.feat("metamethod")
		g.feat("loop")
		cnt := g.fresh("cnt")
		return []*S{Local1(cnt, Int(0)),
			LocalFn("inner", []string{"k"}, false, Assign1(Var(cnt), Bin("add", Var(cnt), Int(1))), Return(co("yield", Str("inner"), Var("k")))),
			LocalFn("outer", []string{"k"}, false, Local1("r", CallN("inner", Bin("add", Var("k"), Int(1)))), Return(Bin("concat", Str("back:"), CallN("tostring", Var("r"))))),
			Local1("obj", CallN("setmetatable", Tbl(), Tbl(NV("__index", Fn([]string{"t", "k"}, false, Return(co("yield", Str("index"), Var("k"))))), NV("__add", Fn([]string{"x", "y"}, false, Return(co("yield", Str("add")))))))),
			Local1(c, co("create", Fn(nil, false,
				Emit(CallN("outer", Int(1))),
				Emit(Dot(Var("obj"), "field")),
				Emit(Bin("add", Var("obj"), Int(1))),
				ForIn([]string{"i"}, []*E{Fn([]string{"s", "ctl"}, false, If(Bin("lt", Var("ctl"), Int(2)), []*S{Return(co("yield", Str("iter"), Var("ctl")))}, nil)), Nil(), Int(0)}, Emit(Str("loop"), Var("i"))),
				Return(Str("end"))))),
			Emit(co("resume", Var(c))), Emit(co("resume", Var(c), Int(7))), Emit(co("resume", Var(c), Str("fv"))),
			Emit(co("resume", Var(c), Int(100))), Emit(co("resume", Var(c), Int(1))), Emit(co("resume", Var(c), Int(2))),
			Emit(co("resume", Var(c), Int(5))), Emit(Var(cnt), co("status", Var(c)))}
	default:
		// after an error caught by resume, loops and further coroutines still work (C11's statement)
		g.feat("error")
		g.feat("loop")
		t := g.fresh("st")
		return []*S{Local1(t, Tbl()),
			ForNum("i", Int(1), Int(n), nil,
				Local1("w", co("create", Fn([]string{"k"}, false, Assign1(Idx(Var(t), Bin("add", Un("len", Var(t)), Int(1))), Var("k")), If(Bin("eq", Bin("mod", Var("k"), Int(2)), Int(0)), []*S{CallS(CallN("error", Bin("concat", Str("even "), Var("k")), Int(0)))}, nil), Return(Bin("mul", Var("k"), Int(3)))))),
				Emit(co("resume", Var("w"), Var("i")), co("status", Var("w")))),
			Emit(Un("len", Var(t)), Call(Dot(Var("table"), "concat"), Var(t), Str(",")))}
	}
}
