// shrink.go — delta debugging of a program on which golua and the reference interpreter disagree,
// and the semantics-preserving rewrites used to attribute a disagreement to a known defect.
package main

import (
	"bufio"
	"fmt"
	"os"
	"os/exec"
	"regexp"
	"strings"
	"time"

	rt "github.com/arnodel/golua/runtime"
	"verifharness/hlib"
)

// ---- single-edit enumeration ---------------------------------------------------------

type editor struct {
	k, n int // apply edit number k; n counts the sites seen
}

func (ed *editor) site(apply func()) {
	if ed.n == ed.k {
		apply()
	}
	ed.n++
}

func (ed *editor) block(b *[]*S) {
	orig := *b // edits replace *b by a new slice; keep walking the original
	for i := range orig {
		i := i
		s := orig[i]
		// delete the statement
		ed.site(func() { *b = append(append([]*S{}, (*b)[:i]...), (*b)[i+1:]...) })
		// replace a compound statement by its body / else branch
		if len(s.Body) > 0 || s.Op == "do" {
			ed.site(func() { *b = append(append(append([]*S{}, (*b)[:i]...), s.Body...), (*b)[i+1:]...) })
		}
		if len(s.Else) > 0 {
			ed.site(func() { *b = append(append(append([]*S{}, (*b)[:i]...), s.Else...), (*b)[i+1:]...) })
		}
		if s.Fn != nil && s.Op == "localfn" {
			ed.site(func() { *b = append(append(append([]*S{}, (*b)[:i]...), s.Fn.Body...), (*b)[i+1:]...) })
		}
	}
	for _, s := range orig {
		ed.stmt(s)
	}
}

func (ed *editor) exprs(es *[]*E, minLen int) {
	orig := *es
	for i := range orig {
		i := i
		if len(orig) > minLen {
			ed.site(func() { *es = append(append([]*E{}, orig[:i]...), orig[i+1:]...) })
		}
	}
	for i := range orig {
		ed.expr(&orig[i])
	}
}

func (ed *editor) stmt(s *S) {
	switch s.Op {
	case "local":
		if len(s.Names) > 1 {
			ed.site(func() { s.Names = s.Names[:len(s.Names)-1]; s.Attribs = s.Attribs[:len(s.Attribs)-1] })
		}
		for i := range s.Attribs {
			i := i
			if s.Attribs[i] != "-" {
				ed.site(func() { s.Attribs[i] = "-" })
			}
		}
		ed.exprs(&s.Es, 0)
	case "assign":
		if len(s.Targets) > 1 {
			ed.site(func() { s.Targets = s.Targets[:len(s.Targets)-1] })
		}
		for i := range s.Targets {
			if s.Targets[i].Op == "idx" {
				ed.expr(&s.Targets[i].Kids[0])
				ed.expr(&s.Targets[i].Kids[1])
			}
		}
		ed.exprs(&s.Es, 1)
	case "call":
		// the call expression itself: arguments, callee
		c := s.Es[0]
		if c.Op == "call" || c.Op == "meth" {
			args := append([]*E{}, c.Kids[1:]...)
			ed.exprs(&args, 0)
			c.Kids = append([]*E{c.Kids[0]}, args...)
			ed.expr(&c.Kids[0])
		}
	case "return":
		ed.exprs(&s.Es, 0)
	case "fornum", "forin":
		min := 2
		if s.Op == "forin" {
			min = 1
		}
		ed.exprs(&s.Es, min)
	}
	if s.Cond != nil {
		ed.expr(&s.Cond)
	}
	ed.block(&s.Body)
	ed.block(&s.Else)
	if s.Fn != nil {
		ed.block(&s.Fn.Body)
	}
}

func (ed *editor) expr(p **E) {
	e := *p
	switch e.Op {
	case "nil", "true", "false", "vararg", "var":
		if e.Op != "nil" {
			ed.site(func() { *p = Nil() })
		}
		return
	case "int":
		if e.I != 0 {
			ed.site(func() { *p = &E{Op: "int", I: 0} })
			if e.I > 1 || e.I < -1 {
				ed.site(func() { *p = &E{Op: "int", I: e.I / 2} })
			}
		}
		return
	case "flt":
		ed.site(func() { *p = &E{Op: "int", I: 0} })
		return
	case "str":
		if e.S != "" {
			ed.site(func() { *p = Str("") })
			if len(e.S) > 1 {
				ed.site(func() { *p = Str(e.S[:len(e.S)/2]) })
			}
		}
		return
	}
	// replace by a child or by nil / 0
	for i := range e.Kids {
		i := i
		ed.site(func() { *p = e.Kids[i] })
	}
	ed.site(func() { *p = Nil() })
	ed.site(func() { *p = &E{Op: "int", I: 0} })
	switch e.Op {
	case "call", "meth":
		args := append([]*E{}, e.Kids[1:]...)
		ed.exprs(&args, 0)
		e.Kids = append([]*E{e.Kids[0]}, args...)
		ed.expr(&e.Kids[0])
		return
	case "tbl":
		origF := e.Fields
		for i := range origF {
			i := i
			ed.site(func() { e.Fields = append(append([]*Field{}, origF[:i]...), origF[i+1:]...) })
		}
		for _, f := range origF {
			if f.Key != nil {
				ed.expr(&f.Key)
			}
			ed.expr(&f.Val)
		}
		return
	case "fn":
		if len(e.Fn.Params) > 0 {
			ed.site(func() { e.Fn.Params = e.Fn.Params[:len(e.Fn.Params)-1] })
		}
		ed.block(&e.Fn.Body)
		return
	}
	for i := range e.Kids {
		ed.expr(&e.Kids[i])
	}
}

func countEdits(prog []*S) int {
	c := CloneBlock(prog)
	ed := &editor{k: -1}
	ed.block(&c)
	return ed.n
}

func applyEdit(prog []*S, k int) []*S {
	c := CloneBlock(prog)
	ed := &editor{k: k}
	ed.block(&c)
	return c
}

// ---- verdicts ---------------------------------------------------------------------

var outRe = regexp.MustCompile(`^T\[(.*)\] (ok|err)\[(.*)\]$`)

// diffCategory names the way two outcomes differ ("" = they agree, "invalid" = not comparable).
func diffCategory(golua, oracle string) string {
	if strings.HasPrefix(oracle, "oof") || strings.HasPrefix(oracle, "unsup") || strings.Contains(oracle, "parse-error") || oracle == "" {
		return "invalid"
	}
	if golua == oracle {
		return ""
	}
	if strings.HasPrefix(golua, "compile-error") {
		return "compile"
	}
	if strings.HasPrefix(golua, "panic") || strings.HasPrefix(golua, "killed") || golua == "timeout" {
		return "crash"
	}
	g, o := outRe.FindStringSubmatch(golua), outRe.FindStringSubmatch(oracle)
	if g == nil || o == nil {
		return "form"
	}
	if g[2] != o[2] {
		return "class"
	}
	if g[1] != o[1] {
		return "trace"
	}
	return "result"
}

type oracleProc struct{ path string }

// run feeds the P/R lines to one oracle process and returns its answers keyed by "<id> <tag>".
func (op oracleProc) run(lines []string) map[string]string {
	cmd := exec.Command(op.path, "c01")
	cmd.Stdin = strings.NewReader(strings.Join(lines, "\n") + "\n")
	out, err := cmd.Output()
	res := map[string]string{}
	if err != nil {
		fmt.Fprintln(os.Stderr, "oracle failed:", err)
		return res
	}
	for _, l := range strings.Split(string(out), "\n") {
		parts := strings.SplitN(l, " ", 3)
		if len(parts) == 3 {
			res[parts[0]+" "+parts[1]] = parts[2]
		}
	}
	return res
}

type verdict struct {
	cat           string
	golua, oracle string
	tag           string
}

// judge evaluates candidates: for each the first disagreeing argument tuple (canonical rendering).
func judge(op oracleProc, cands [][]*S, argLines [][]string) []verdict {
	var lines []string
	gol := make([][]string, len(cands))
	for ci, c := range cands {
		id := fmt.Sprintf("c%d", ci)
		clearLines(c)
		src := Render(c, Style{Name: "canon"})
		lines = append(lines, "P "+id+" "+ProgSexp(c))
		for ai, a := range argLines {
			lines = append(lines, fmt.Sprintf("R %s a%d %s", id, ai, strings.Join(a, " ")))
			gol[ci] = append(gol[ci], RunLua(src, decArgs(a)))
		}
	}
	ans := op.run(lines)
	out := make([]verdict, len(cands))
	for ci := range cands {
		v := verdict{cat: ""}
		for ai := range argLines {
			o := ans[fmt.Sprintf("c%d a%d", ci, ai)]
			cat := diffCategory(gol[ci][ai], o)
			if cat == "invalid" {
				v = verdict{cat: "invalid"}
				break
			}
			if cat != "" && v.cat == "" {
				v = verdict{cat, gol[ci][ai], o, fmt.Sprintf("a%d", ai)}
			}
		}
		out[ci] = v
	}
	return out
}

func readProgFile(path string) (prog []*S, argLines [][]string) {
	f, err := os.Open(path)
	if err != nil {
		fmt.Fprintln(os.Stderr, err)
		os.Exit(2)
	}
	defer f.Close()
	sc := bufio.NewScanner(f)
	sc.Buffer(make([]byte, 1<<20), 1<<26)
	for sc.Scan() {
		line := sc.Text()
		if strings.HasPrefix(line, "P ") {
			parts := strings.SplitN(line, " ", 3)
			prog, err = ParseProg(parts[2])
			if err != nil {
				fmt.Fprintln(os.Stderr, "cannot parse program:", err)
				os.Exit(2)
			}
		} else if strings.HasPrefix(line, "R ") {
			parts := strings.Split(line, " ")
			argLines = append(argLines, parts[3:])
		}
	}
	if prog == nil {
		fmt.Fprintln(os.Stderr, "no P line in", path)
		os.Exit(2)
	}
	if len(argLines) == 0 {
		argLines = [][]string{{}}
	}
	return
}

func size(prog []*S) int { return len(ProgSexp(prog)) }

// shrinkMain: c01 shrink <oracle-binary> <file>
func shrinkMain(args []string) {
	if len(args) < 2 {
		usage()
	}
	op := oracleProc{args[0]}
	prog, argLines := readProgFile(args[1])
	base := judge(op, [][]*S{prog}, argLines)[0]
	if base.cat == "" || base.cat == "invalid" {
		hlib.Emit("SHRINK no-disagreement", base.cat)
		return
	}
	// keep only the first disagreeing argument tuple
	for ai := range argLines {
		if fmt.Sprintf("a%d", ai) == base.tag {
			argLines = [][]string{argLines[ai]}
			break
		}
	}
	const batch = 16
	rounds, tested := 0, 0
	deadline := time.Now().Add(40 * time.Second)
	for pass := 0; pass < 6 && time.Now().Before(deadline); pass++ {
		improved := false
		k := 0
		for k < countEdits(prog) && tested < 20000 && time.Now().Before(deadline) {
			n := countEdits(prog)
			var cands [][]*S
			for j := k; j < k+batch && j < n; j++ {
				cands = append(cands, applyEdit(prog, j))
			}
			tested += len(cands)
			hit := -1
			for ci, v := range judge(op, cands, argLines) {
				if v.cat == base.cat && size(cands[ci]) < size(prog) {
					hit = ci
					break
				}
			}
			if hit >= 0 {
				prog = cands[hit]
				k += hit // the sites before the hit were rejected; stay at the hit position
				improved = true
				rounds++
			} else {
				k += len(cands)
			}
		}
		if !improved {
			break
		}
	}
	final := judge(op, [][]*S{prog}, argLines)[0]
	clearLines(prog)
	src := Render(prog, Style{Name: "canon"})
	hlib.Emit("SHRUNK category", final.cat, "rounds", fmt.Sprint(rounds))
	for _, l := range strings.Split(strings.TrimRight(src, "\n"), "\n") {
		hlib.Emit("LUA", l)
	}
	hlib.Emit("P shrunk", ProgSexp(prog))
	for ai, a := range argLines {
		hlib.Emit("R shrunk", fmt.Sprintf("a%d", ai), strings.Join(a, " "))
	}
	hlib.Emit("GOLUA", final.tag, final.golua)
	hlib.Emit("ORACLE", final.tag, final.oracle)
	hlib.Emit("KEY", canonKey(prog))
}

var identRe = regexp.MustCompile(`\b([a-zA-Z_]+)\d+\b`)

// canonKey: the S-expression with line numbers dropped and generated identifiers renumbered in order of appearance.
func canonKey(prog []*S) string {
	c := CloneBlock(prog)
	clearLines(c)
	s := ProgSexp(c)
	seen := map[string]string{}
	s = identRe.ReplaceAllStringFunc(s, func(m string) string {
		if n, ok := seen[m]; ok {
			return n
		}
		sub := identRe.FindStringSubmatch(m)
		n := fmt.Sprintf("%s%d", sub[1], len(seen)+1)
		seen[m] = n
		return n
	})
	return s
}

// ---- rewrites -----------------------------------------------------------------------

func mapExprs(ss []*S, f func(*E) *E) {
	var me func(e *E) *E
	me = func(e *E) *E {
		for i, k := range e.Kids {
			e.Kids[i] = me(k)
		}
		for _, fl := range e.Fields {
			if fl.Key != nil {
				fl.Key = me(fl.Key)
			}
			fl.Val = me(fl.Val)
		}
		if e.Fn != nil {
			mapExprs(e.Fn.Body, f)
		}
		return f(e)
	}
	for _, s := range ss {
		for i, e := range s.Targets {
			s.Targets[i] = me(e)
		}
		for i, e := range s.Es {
			s.Es[i] = me(e)
		}
		if s.Cond != nil {
			s.Cond = me(s.Cond)
		}
		mapExprs(s.Body, f)
		mapExprs(s.Else, f)
		if s.Fn != nil {
			mapExprs(s.Fn.Body, f)
		}
	}
}

func allStmts(ss []*S, f func(*S)) {
	for _, s := range ss {
		f(s)
		allStmts(s.Body, f)
		allStmts(s.Else, f)
		if s.Fn != nil {
			allStmts(s.Fn.Body, f)
		}
		var ve func(e *E)
		ve = func(e *E) {
			if e == nil {
				return
			}
			if e.Fn != nil {
				allStmts(e.Fn.Body, f)
			}
			for _, k := range e.Kids {
				ve(k)
			}
			for _, fl := range e.Fields {
				ve(fl.Key)
				ve(fl.Val)
			}
		}
		for _, e := range s.Targets {
			ve(e)
		}
		for _, e := range s.Es {
			ve(e)
		}
		ve(s.Cond)
	}
}

var numeralRe = regexp.MustCompile(`^\s*[-+]?(0[xX][0-9a-fA-F]+|[0-9]+\.?[0-9]*([eE][-+]?[0-9]+)?|\.[0-9]+([eE][-+]?[0-9]+)?)\s*$`)

// Rewrites are program transformations that avoid one recorded defect each while keeping the reference outcome.
// (The rewrites for the generic-for capture, `(...)`, `^` line and assert prefix defects were retired when those
// defects were repaired in /repo.)
var Rewrites = map[string]func(prog []*S) []*S{
}

// rewriteMain: c01 rewrite <mode> <name[+name…]> <nargs> <idx>…  — regenerate the programs, rewrite, run golua.
func rewriteMain(args []string) {
	if len(args) < 4 {
		usage()
	}
	mode, names := args[0], strings.Split(args[1], "+")
	nargs := atoi(args[2])
	seed := hlib.Seed()
	for _, a := range args[3:] {
		idx := atoi(a)
		p := GenProgram(seed, mode, idx)
		prog := p.Stmts
		var changed []string
		for _, n := range names {
			f, ok := Rewrites[n]
			if !ok {
				fmt.Fprintln(os.Stderr, "unknown rewrite", n)
				os.Exit(2)
			}
			before := canonKey(prog)
			prog = f(prog)
			if canonKey(prog) != before {
				changed = append(changed, n)
			}
		}
		clearLines(prog)
		id := p.ID + "~" + args[1]
		hlib.Emit("W", id, strings.Join(changed, "+"))
		sts := styles(seed, idx)
		var srcs []string
		for _, st := range sts {
			srcs = append(srcs, Render(prog, st))
		}
		hlib.Emit("P", id, ProgSexp(prog))
		for ai := 0; ai < nargs && ai < len(p.Args); ai++ {
			tag := fmt.Sprintf("a%d", ai)
			hlib.Emit("R", id, tag, encArgs(p.Args[ai]))
			for si, st := range sts {
				hlib.Emit("G", id, st.Name, tag, RunLua(srcs[si], p.Args[ai]))
			}
		}
	}
}

var _ = rt.NilValue
