// gen_stmt3.go — C11: error sites at every kind of position, under pcall / xpcall, with follow-up
// statements that check the state after the catch.
package main

// raiser returns statements that raise when executed, and the expressions to emit about the caught value `e`.
func (g *G) raiser(ev string) (raise []*S, observe func(e string) []*E) {
	switch g.weighted([]int{50, 30, 20}) {
	case 0:
		ops := g.badOps()
		op := ops[g.pick(len(ops))]
		g.sites[op.cls]++
		return op.mk(g), func(e string) []*E { return []*E{Var(e)} }
	case 1:
		g.sites["error(table)"]++
		return []*S{CallS(CallN("error", Var(ev)))}, func(e string) []*E {
			return []*E{Bin("eq", Var(e), Var(ev)), CallN("type", Var(e))}
		}
	default:
		g.sites["error(string,level)"]++
		lvl := g.pick(3)
		return []*S{CallS(CallN("error", g.genStr(0), Int(int64(lvl))))}, func(e string) []*E { return []*E{Var(e)} }
	}
}

// protect wraps body (statements of a function) in pcall or xpcall and emits the outcome.
func (g *G) protect(body []*S, observe func(e string) []*E) []*S {
	ok, e := g.fresh("ok"), g.fresh("e")
	var call *E
	if g.chance(30) {
		g.sites["xpcall"]++
		call = CallN("xpcall", Fn(nil, false, body...), Fn([]string{"m"}, false, Emit(Str("handler")), Return(Var("m"), Str("extra"))))
	} else {
		call = CallN("pcall", Fn(nil, false, body...))
	}
	return []*S{Local([]string{ok, e}, call), Emit(append([]*E{Var(ok)}, observe(e)...)...)}
}

func (g *G) tErrorSite() []*S {
	g.feat("error")
	ev, cnt, log := g.fresh("ev"), g.fresh("cnt"), g.fresh("log")
	pre := []*S{Local([]string{ev, cnt, log}, Tbl(NV("tag", g.genInt(0))), Int(0), Tbl())}
	step := func(tag string) []*S {
		return []*S{Assign1(Var(cnt), Bin("add", Var(cnt), Int(1))), Assign1(Idx(Var(log), Bin("add", Un("len", Var(log)), Int(1))), Str(tag))}
	}
	var raise []*S
	var observe func(string) []*E
	g.funcBody(nil, nil, false, func() []*S {
		raise, observe = g.raiser(ev)
		return nil
	})
	bad := g.fresh("bad")
	defBad := LocalFn(bad, nil, true, append(step("bad"), raise...)...)
	var body []*S
	kind := g.pick(15)
	if kind >= 13 {
		return g.closeRaisesDuringReturn()
	}
	switch kind {
	case 0:
		// inside a binary / unary metamethod
		g.feat("metamethod")
		g.sites["site:metamethod"]++
		m := binMetas[g.pick(len(binMetas))]
		o := g.fresh("o")
		pre = append(pre, defBad, Local1(o, CallN("setmetatable", Tbl(), Tbl(NV(m.mm, Fn([]string{"x", "y"}, false, Emit(Str(m.mm)), Return(Call(Var(bad)))))))))
		other := g.genInt(0)
		if m.mm == "__concat" {
			other = g.genStr(0)
		}
		if g.chance(50) {
			body = []*S{Local1("r", Bin(m.op, Var(o), other)), Emit(Str("unreachable"))}
		} else {
			body = []*S{Local1("r", Bin(m.op, other, Var(o))), Emit(Str("unreachable"))}
		}
	case 1:
		// inside __index / __newindex / __call / __len / __eq / __lt / __le / __unm
		g.feat("metamethod")
		g.sites["site:metamethod2"]++
		o, o2 := g.fresh("o"), g.fresh("p")
		mm := g.pickS([]string{"__index", "__newindex", "__call", "__len", "__eq", "__lt", "__le", "__unm"})
		mt := g.fresh("mt")
		pre = append(pre, defBad, Local1(mt, Tbl(NV(mm, Fn([]string{"x", "y", "z"}, false, Emit(Str(mm)), Return(Call(Var(bad))))))),
			Local([]string{o, o2}, CallN("setmetatable", Tbl(), Var(mt)), CallN("setmetatable", Tbl(), Var(mt))))
		switch mm {
		case "__index":
			body = []*S{Local1("r", Dot(Var(o), "missing"))}
		case "__newindex":
			body = []*S{Assign1(Dot(Var(o), "fresh"), Int(1))}
		case "__call":
			body = []*S{Local1("r", Call(Var(o), Int(1)))}
		case "__len":
			body = []*S{Local1("r", Un("len", Var(o)))}
		case "__eq":
			body = []*S{Local1("r", Bin("eq", Var(o), Var(o2)))}
		case "__lt":
			body = []*S{Local1("r", Bin(g.pickS([]string{"lt", "gt"}), Var(o), Var(o2)))}
		case "__le":
			body = []*S{Local1("r", Bin(g.pickS([]string{"le", "ge"}), Var(o), Int(3)))}
		default:
			body = []*S{Local1("r", Un("neg", Var(o)))}
		}
		body = append(body, Emit(Str("unreachable")))
	case 2:
		// inside an iterator function, on a later call
		g.feat("loop")
		g.sites["site:iterator"]++
		it := g.fresh("it")
		n := int64(1 + g.pick(3))
		pre = append(pre, defBad, LocalFn(it, []string{"s", "c"}, false, If(Bin("ge", Var("c"), Int(n)), []*S{CallS(Call(Var(bad)))}, nil), Return(Bin("add", Var("c"), Int(1)))))
		body = []*S{ForIn([]string{"i"}, []*E{Var(it), Nil(), Int(0)}, append(step("iter"), Emit(Var("i")))...), Emit(Str("unreachable"))}
	case 3:
		// three Lua frames deep; each frame has work before and after the call
		g.sites["site:nested"]++
		f1, f2 := g.fresh("f"), g.fresh("f")
		pre = append(pre, defBad,
			LocalFn(f2, []string{"x"}, false, append(step("f2"), Local1("r", Call(Var(bad), Var("x"))), Emit(Str("unreachable f2")), Return(Var("r")))...),
			LocalFn(f1, []string{"x"}, false, append(step("f1"), Local1("r", Call(Var(f2), Bin("add", Var("x"), Int(1)))), Emit(Str("unreachable f1")), Return(Var("r")))...))
		body = []*S{Local1("r", Call(Var(f1), g.genInt(0))), Emit(Str("unreachable"))}
	case 4:
		// error(msg, 2): the position is the caller's line, not the checker's
		g.sites["site:level2"]++
		chk, user := g.fresh("check"), g.fresh("user")
		pre = append(pre, LocalFn(chk, []string{"x"}, false, If(Bin("lt", Var("x"), Int(0)), []*S{CallS(CallN("error", Str("negative"), Int(2)))}, nil), Return(Var("x"))),
			LocalFn(user, []string{"x"}, false, append(step("user"), Local1("a", Call(Var(chk), Int(5))), Local1("b", Call(Var(chk), Var("x"))), Emit(Str("unreachable")), Return(Bin("add", Var("a"), Var("b"))))...))
		observe = func(e string) []*E { return []*E{Var(e)} }
		body = []*S{Local1("r", Call(Var(user), Int(-1))), Emit(Str("unreachable"))}
	case 5:
		g.sites["site:table-constructor"]++
		pre = append(pre, defBad)
		body = []*S{Local1("t", Tbl(Pos(Int(1)), NV("k", Call(Var(bad))), Pos(Int(3)))), Emit(Str("unreachable"))}
	case 6:
		g.sites["site:argument"]++
		pre = append(pre, defBad)
		body = []*S{Emit(Str("arg"), Call(Var(bad)), Int(3)), Emit(Str("unreachable"))}
	case 7:
		g.sites["site:condition"]++
		pre = append(pre, defBad)
		switch g.pick(3) {
		case 0:
			body = []*S{If(Call(Var(bad)), []*S{Emit(Str("then"))}, []*S{Emit(Str("else"))})}
		case 1:
			body = []*S{While(Call(Var(bad)), Emit(Str("loop")))}
		default:
			body = []*S{Repeat(Call(Var(bad)), append(step("rep"), Emit(Str("body")))...)}
		}
		body = append(body, Emit(Str("unreachable")))
	case 8:
		g.sites["site:for-bound"]++
		g.feat("loop")
		pre = append(pre, defBad)
		body = []*S{ForNum("i", Int(1), Call(Var(bad)), nil, Emit(Var("i"))), Emit(Str("unreachable"))}
	case 9:
		g.sites["site:operand"]++
		pre = append(pre, defBad)
		switch g.pick(3) {
		case 0:
			body = []*S{Local1("r", Bin("add", Int(1), Call(Var(bad))))}
		case 1:
			body = []*S{Local1("r", Bin("and", g.genBool(0), Call(Var(bad)))), Local1("q", Bin("or", Nil(), Call(Var(bad))))}
		default:
			body = []*S{Emit(Str("before return")), Return(Par(Call(Var(bad))), Int(2))}
		}
	case 10:
		// inside a to-be-closed scope: the __close handler sees the error value, then pcall gets it
		g.feat("metamethod")
		g.sites["site:tbc-scope"]++
		pre = append(pre, defBad)
		closer := CallN("setmetatable", Tbl(), Tbl(NV("__close", Fn([]string{"o", "e"}, false, append(step("close"), Emit(Str("closing"), Bin("eq", Var("e"), Nil())))...))))
		body = []*S{Do(LocalAttr("c1", "close", closer), LocalAttr("c2", "close", closer.Clone()), CallS(Call(Var(bad))), Emit(Str("unreachable")))}
	case 11:
		// the __close handler itself raises: on normal exit, and while another error is in flight (it replaces it)
		g.feat("metamethod")
		g.sites["site:in-close-handler"]++
		pre = append(pre, defBad)
		closer := CallN("setmetatable", Tbl(), Tbl(NV("__close", Fn([]string{"o", "e"}, false, Emit(Str("closing"), Bin("eq", Var("e"), Nil())), CallS(Call(Var(bad)))))))
		inner := []*S{LocalAttr("c1", "close", closer), Emit(Str("body"))}
		if g.chance(50) {
			inner = append(inner, CallS(CallN("error", Str("first"), Int(0))))
		}
		body = []*S{Do(inner...), Emit(Str("unreachable"))}
		// (always under pcall: what a message handler sees of errors in __close is not fixed by the manual)
		ok, e := g.fresh("ok"), g.fresh("e")
		out := append(pre, Local([]string{ok, e}, CallN("pcall", Fn(nil, false, body...))), Emit(append([]*E{Var(ok)}, observe(e)...)...))
		return append(out, g.followUp(cnt, log, ev)...)
	default:
		// an error caught inside a message handler does not disturb the outer xpcall
		g.sites["site:handler-internal-pcall"]++
		pre = append(pre, defBad)
		ok, e := g.fresh("ok"), g.fresh("e")
		h := Fn([]string{"m"}, false, Local([]string{"hok", "he"}, CallN("pcall", Var("error"), Tbl())), Emit(Str("handler"), Var("hok"), CallN("type", Var("he"))), Return(Var("m")))
		out := append(pre, Local([]string{ok, e}, CallN("xpcall", Var(bad), h, Int(1))), Emit(append([]*E{Var(ok)}, observe(e)...)...))
		return append(out, g.followUp(cnt, log, ev)...)
	}
	out := append(pre, g.protect(body, observe)...)
	return append(out, g.followUp(cnt, log, ev)...)
}

// follow-up statements after a catch: variables, tables, later calls and loops still behave
func (g *G) followUp(cnt, log, ev string) []*S {
	out := []*S{Emit(Var(cnt), Un("len", Var(log)), Call(Dot(Var("table"), "concat"), Var(log), Str(",")), Dot(Var(ev), "tag"))}
	out = append(out, Assign1(Var(cnt), Bin("add", Var(cnt), Int(100))), Assign1(Dot(Var(ev), "tag"), Str("after")))
	if g.chance(50) {
		out = append(out, ForNum("i", Int(1), Int(2), nil, Assign1(Var(cnt), Bin("add", Var(cnt), Var("i")))))
	}
	return append(out, Emit(Var(cnt), Dot(Var(ev), "tag"), CallN("pcall", Fn(nil, false, Return(Un("len", Var(log)))))))
}

// ---- C14: programs that stress the register / continuation / cell pools -----------------------

// tPoolStress: deep and tail recursion, closures captured in loops, error unwinding through many frames,
// many distinct frame sizes, metamethod re-entrancy, varargs of varying length.
func (g *G) tPoolStress() []*S {
	switch g.pick(7) {
	case 0:
		// deep non-tail recursion with captured variables and a frame of varying size
		g.feat("closure")
		f := g.fresh("deep")
		depth := int64(20 + g.pick(120))
		return []*S{LocalFn(f, []string{"n"}, false,
			Local([]string{"a", "b", "c"}, Var("n"), Bin("mul", Var("n"), Int(2)), Bin("add", Var("n"), Int(1))),
			LocalFn("g", nil, false, Return(Bin("add", Var("a"), Bin("sub", Var("b"), Var("c"))))),
			If(Bin("eq", Var("n"), Int(0)), []*S{Return(Int(0))}, nil),
			Return(Bin("add", Call(Var("g")), Call(Var(f), Bin("sub", Var("n"), Int(1)))))),
			Emit(Call(Var(f), Int(depth)))}
	case 1:
		// long tail-call chain between two functions (continuations are recycled)
		a, b := g.fresh("ta"), g.fresh("tb")
		n := int64(200 + g.pick(3000))
		return []*S{Local([]string{a, b}),
			Assign1(Var(a), Fn([]string{"n", "acc"}, false, If(Bin("eq", Var("n"), Int(0)), []*S{Return(Var("acc"))}, nil), Return(Call(Var(b), Bin("sub", Var("n"), Int(1)), Bin("add", Var("acc"), Int(1)))))),
			Assign1(Var(b), Fn([]string{"n", "acc"}, false, Return(Call(Var(a), Var("n"), Bin("bxor", Var("acc"), Var("n")))))),
			Emit(Call(Var(a), Int(n), Int(0)))}
	case 2:
		// an error thrown under many frames, caught at the top; then the same functions are used again
		g.feat("error")
		f := g.fresh("unw")
		depth := int64(10 + g.pick(80))
		return []*S{LocalFn(f, []string{"n", "t"}, false,
			Local([]string{"x", "y"}, Bin("mul", Var("n"), Int(3)), Tbl(Pos(Var("n")))),
			If(Bin("eq", Var("n"), Int(0)), []*S{CallS(CallN("error", Var("t")))}, nil),
			Local1("r", Call(Var(f), Bin("sub", Var("n"), Int(1)), Var("t"))),
			Return(Bin("add", Var("r"), Bin("add", Var("x"), Idx(Var("y"), Int(1)))))),
			Local1("tag", Tbl()),
			Local([]string{"ok", "e"}, CallN("pcall", Var(f), Int(depth), Var("tag"))),
			Emit(Var("ok"), Bin("eq", Var("e"), Var("tag"))),
			Emit(CallN("pcall", Var(f), Int(3), Str("again")))}
	case 3:
		// functions with many different frame sizes, called in a loop
		g.feat("loop")
		var out []*S
		var names []string
		for k := 1; k <= 3+g.pick(8); k++ {
			f := g.fresh("fr")
			names = append(names, f)
			var locals []string
			var vals []*E
			sum := Var("p")
			for j := 0; j < k*2; j++ {
				n := g.fresh("l")
				locals = append(locals, n)
				vals = append(vals, Bin("add", Var("p"), Int(int64(j))))
				sum = Bin("add", sum, Var(n))
			}
			out = append(out, LocalFn(f, []string{"p"}, false, Local(locals, vals...), Return(sum)))
		}
		var calls []*E
		for _, f := range names {
			calls = append(calls, Call(Var(f), Var("i")))
		}
		return append(out, ForNum("i", Int(1), Int(int64(3+g.pick(20))), nil, Emit(calls...)))
	case 4:
		// metamethod re-entrancy: __index functions and __add handlers that trigger further metamethods
		g.feat("metamethod")
		mt, a := g.fresh("rmt"), g.fresh("ro")
		depth := int64(2 + g.pick(12))
		return []*S{Local1(mt, Tbl()),
			Assign1(Dot(Var(mt), "__index"), Fn([]string{"t", "k"}, false,
				If(Bin("le", Var("k"), Int(0)), []*S{Return(Int(0))}, nil),
				Return(Bin("add", Var("k"), Idx(CallN("setmetatable", Tbl(), Var(mt)), Bin("sub", Var("k"), Int(1))))))),
			Assign1(Dot(Var(mt), "__add"), Fn([]string{"x", "y"}, false,
				If(Bin("eq", CallN("type", Var("y")), Str("number")), []*S{If(Bin("le", Var("y"), Int(0)), []*S{Return(Int(0))}, nil), Return(Bin("add", Int(1), Bin("add", Var("x"), Bin("sub", Var("y"), Int(1)))))}, nil),
				Return(Int(-1)))),
			Local1(a, CallN("setmetatable", Tbl(), Var(mt))),
			Emit(Idx(Var(a), Int(depth)), Bin("add", Var(a), Int(depth)))}
	case 5:
		// varargs of growing length passed down and back
		g.feat("vararg")
		f := g.fresh("vg")
		n := int64(3 + g.pick(25))
		return []*S{LocalFn(f, []string{"n"}, true,
			If(Bin("eq", Var("n"), Int(0)), []*S{Return(CallN("select", Str("#"), Vararg()), Vararg())}, nil),
			Return(Call(Var(f), Bin("sub", Var("n"), Int(1)), Var("n"), Vararg()))),
			Emit(Call(Var(f), Int(n)))}
	default:
		// many closures created in nested loops, each capturing its own variables; called later in another order
		g.feat("closure")
		g.feat("loop")
		fs := g.fresh("cl")
		n, m := int64(2+g.pick(6)), int64(2+g.pick(6))
		return []*S{Local1(fs, Tbl()),
			ForNum("i", Int(1), Int(n), nil, ForNum("j", Int(1), Int(m), nil,
				Local1("k", Bin("add", Bin("mul", Var("i"), Int(100)), Var("j"))),
				Assign1(Idx(Var(fs), Bin("add", Un("len", Var(fs)), Int(1))), Fn(nil, false, Assign1(Var("k"), Bin("add", Var("k"), Int(1))), Return(Var("i"), Var("j"), Var("k")))))),
			ForNum("q", Un("len", Var(fs)), Int(1), Int(-1), Emit(Call(Idx(Var(fs), Var("q"))))),
			Emit(Call(Idx(Var(fs), Int(1))))}
	}
}


// tLongHistory: a long sequence of errors raised by host (Go) functions and caught in the same thread —
// by pcall, by xpcall with a handler, by coroutine.resume and through coroutine.wrap — followed by ordinary nested
// calls: nothing may accumulate.  Only aggregates are emitted.
func (g *G) tLongHistory() []*S { return g.longHistory(g.pick(7)) }

func (g *G) longHistory(variant int) []*S {
	g.feat("error")
	g.feat("loop")
	g.sites["site:long-history"]++
	n := int64(1200 + g.pick(200))
	if longHistory > 0 && g.chance(25) {
		n = int64(longHistory + g.pick(300))
	}
	cnt, bad := g.fresh("cnt"), g.fresh("bad")
	var catch []*S // statements of the loop body; they set ok, e
	switch variant {
	case 0:
		catch = []*S{Local([]string{"ok", "e"}, CallN("pcall", Var("error"), Var("i")))}
	case 1:
		catch = []*S{Local([]string{"ok", "e"}, CallN("pcall", Fn(nil, false, CallS(CallN("error", Var("i"), Int(0))))))}
	case 2:
		catch = []*S{Local([]string{"ok", "e"}, CallN("pcall", Var("assert"), Bool(false), Var("i")))}
	case 3:
		// a failing library call (the message is not observed, only that it failed)
		catch = []*S{Local([]string{"ok", "m"}, CallN("pcall", g.pickE([]*E{Var("setmetatable"), Var("ipairs"), Dot(Var("string"), "rep"), Var("rawset")}))),
			Local1("e", Bin("and", Bin("eq", CallN("type", Var("m")), Str("string")), Var("i")))}
	case 4:
		catch = []*S{Local([]string{"ok", "e"}, CallN("xpcall", Var("error"), Fn([]string{"m"}, false, Return(Var("m"))), Var("i")))}
	case 5:
		// through a coroutine: resume returns false, the value
		catch = []*S{Local([]string{"ok", "e"}, co("resume", co("create", Var("error")), Var("i")))}
	default:
		// through a wrapped coroutine, the error re-raised in the caller and caught by pcall
		catch = []*S{Local([]string{"ok", "e"}, CallN("pcall", co("wrap", Fn([]string{"v"}, false, CallS(CallN("error", Tbl(NV("v", Var("v"))))))), Var("i"))),
			Assign1(Var("e"), Bin("and", Bin("eq", CallN("type", Var("e")), Str("table")), Dot(Var("e"), "v")))}
	}
	body := append(catch, If(Bin("and", Un("not", Var("ok")), Bin("eq", Var("e"), Var("i"))), []*S{Assign1(Var(cnt), Bin("add", Var(cnt), Int(1)))}, []*S{Assign1(Var(bad), Bin("add", Var(bad), Int(1)))}))
	nest := g.fresh("nest")
	return []*S{Local([]string{cnt, bad}, Int(0), Int(0)),
		ForNum("i", Int(1), Int(n), nil, body...),
		Emit(Var(cnt), Var(bad)),
		// afterwards everything still works: nested Lua and host calls, protected calls, coroutines
		LocalFn(nest, []string{"k"}, false, If(Bin("eq", Var("k"), Int(0)), []*S{Return(CallN("tostring", Int(0)))}, nil), Return(Bin("concat", CallN("tostring", Var("k")), CallN(nest, Bin("sub", Var("k"), Int(1)))))),
		Emit(Call(Var(nest), Int(int64(5+g.pick(20)))), CallN("pcall", Var("tostring"), Int(12)), CallN("select", Str("#"), CallN("pcall", Dot(Var("string"), "rep"), Str("x"), Int(3)))),
		Emit(co("resume", co("create", Fn([]string{"a"}, false, Return(CallN("type", Var("a")), CallN("pcall", Var("error"), Str("z"), Int(0))))), Int(1)))}
}
