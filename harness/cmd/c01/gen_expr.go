// gen_expr.go — pure, well-typed expressions by static kind.  "Pure" = no emit, no write,
// cannot raise: so the (unspecified) evaluation order of operands cannot be observed.
package main

// closure use: referring to a variable declared in an enclosing function
func (g *G) use(v *VarInfo) *E {
	if v.FnDepth < g.fnDepth {
		g.feat("closure")
	}
	return Var(v.Name)
}

func (g *G) smallInt() *E { return Int(int64(g.pick(13))) }

func (g *G) intLit() *E {
	if g.chance(70) {
		return Int(int64(g.pick(21)) - 4)
	}
	return Int(g.pickI(intPool))
}

func (g *G) nonZeroLit() *E {
	n := g.pickI([]int64{1, 2, 3, 4, 5, 7, 8, 10, 16, 64, 1000, -1, -2, -3, -7, 1 << 32, -9223372036854775807})
	return Int(n)
}

func (g *G) genInt(d int) *E {
	if d <= 0 {
		if v := g.pickVar(g.ofKind(KInt)); v != nil && g.chance(60) {
			return g.use(v)
		}
		return g.intLit()
	}
	switch g.weighted([]int{10, 14, 22, 6, 8, 5, 4, 4, 4, 4, 4, 3, 3, 3, 3, 2}) {
	case 0:
		return g.intLit()
	case 1:
		if v := g.pickVar(g.ofKind(KInt)); v != nil {
			return g.use(v)
		}
		return g.intLit()
	case 2:
		op := g.pickS([]string{"add", "sub", "mul", "add", "sub"})
		return Bin(op, g.genInt(d-1), g.genInt(d-1))
	case 3:
		op := g.pickS([]string{"idiv", "mod"})
		return Bin(op, g.genInt(d-1), g.nonZeroLit())
	case 4:
		op := g.pickS([]string{"band", "bor", "bxor"})
		return Bin(op, g.genIntish(d-1), g.genIntish(d-1))
	case 5:
		op := g.pickS([]string{"shl", "shr"})
		return Bin(op, g.genInt(d-1), Int(g.pickI([]int64{0, 1, 2, 5, 31, 32, 62, 63, 64, 65, -1, -3, -64, 100})))
	case 6:
		return Un(g.pickS([]string{"neg", "bnot"}), g.genInt(d-1))
	case 7:
		if g.chance(50) {
			return Un("len", g.genStr(d-1))
		}
		if v := g.pickVar(g.ofKind(KSeq)); v != nil {
			return Un("len", g.use(v))
		}
		return Un("len", g.genStr(d-1))
	case 8:
		if g.vararg {
			g.feat("vararg")
			return CallN("select", Str("#"), Vararg())
		}
		return Par(g.genInt(d - 1))
	case 9:
		return Call(Dot(Var("math"), "floor"), g.genFloatSmall(d-1))
	case 10:
		if f := g.pickVar(func(v *VarInfo) bool {
			return v.Kind == KFunc && v.Fn.Pure && len(v.Fn.Rets) > 0 && v.Fn.Rets[0] == KInt
		}); f != nil {
			return g.callPure(f, d-1)
		}
		return g.genInt(d - 1)
	case 11:
		if v := g.pickVar(func(v *VarInfo) bool { return v.Kind == KRec && hasField(v, KInt) }); v != nil {
			return Dot(g.use(v), fieldOf(g, v, KInt))
		}
		return g.genInt(d - 1)
	case 12:
		// coercion of a numeral string in arithmetic
		return Bin(g.pickS([]string{"add", "sub", "mul"}), g.genNumStr(), g.genInt(d-1))
	case 13:
		return CallN("tonumber", g.genNumStr())
	case 14:
		switch g.pick(3) {
		case 0:
			return Call(Dot(Var("string"), "len"), g.genStr(d-1))
		case 1:
			return Meth(g.genStr(d-1), "len")
		default:
			return Call(Dot(Var("string"), "byte"), Str(g.pickS([]string{"a", "Z", "hello", "\xff"})), Int(1))
		}
	default:
		// typed selection through and/or
		if g.chance(50) {
			return Bin("or", Nil(), g.genInt(d-1))
		}
		return Bin("and", g.genStr(0), g.genInt(d-1))
	}
}

// operand of a bitwise operator: an integer or a float with an integer value (strings: the 5.4 core does
// not coerce them and the string library defines no bitwise metamethods — left out)
func (g *G) genIntish(d int) *E {
	if g.pick(10) == 0 {
		return Flt(float64(g.pick(100)))
	}
	return g.genInt(d)
}

func hasField(v *VarInfo, k Kind) bool {
	for _, fk := range v.Fields {
		if fk == k {
			return true
		}
	}
	return false
}

func fieldOf(g *G, v *VarInfo, k Kind) string {
	var c []string
	for _, n := range v.FNames {
		if v.Fields[n] == k {
			c = append(c, n)
		}
	}
	return g.pickS(c)
}

func (g *G) callPure(f *VarInfo, d int) *E {
	args := []*E{}
	for _, k := range f.Fn.Params {
		args = append(args, g.genKind(k, d))
	}
	if f.Fn.Vararg {
		for i := g.pick(3); i > 0; i-- {
			args = append(args, g.genInt(0))
		}
	}
	return Call(g.use(f), args...)
}

func (g *G) genFloatLit() *E { return Flt(g.pickF(fltPool)) }

// floats of moderate size (safe for math.floor → integer)
func (g *G) genFloatSmall(d int) *E {
	if d <= 0 || g.chance(40) {
		return Flt(g.pickF([]float64{0.5, 1.5, 2.25, 3.0, 7.75, 100.5, 0.125}))
	}
	return Bin(g.pickS([]string{"add", "mul", "sub"}), g.genFloatSmall(d-1), Flt(g.pickF([]float64{0.5, 2.0, 1.25, 3.0})))
}

func (g *G) genFloat(d int) *E {
	if d <= 0 {
		if v := g.pickVar(g.ofKind(KFloat)); v != nil && g.chance(50) {
			return g.use(v)
		}
		return g.genFloatLit()
	}
	switch g.weighted([]int{10, 10, 20, 10, 6, 5, 5, 4, 3}) {
	case 0:
		return g.genFloatLit()
	case 1:
		if v := g.pickVar(g.ofKind(KFloat)); v != nil {
			return g.use(v)
		}
		return g.genFloatLit()
	case 2:
		return Bin(g.pickS([]string{"add", "sub", "mul", "div"}), g.genFloat(d-1), g.genFloat(d-1))
	case 3:
		// mixed int/float and true division of integers
		if g.chance(50) {
			return Bin("div", g.genInt(d-1), g.genInt(d-1))
		}
		return Bin(g.pickS([]string{"add", "sub", "mul"}), g.genInt(d-1), g.genFloat(d-1))
	case 4:
		return Bin(g.pickS([]string{"idiv", "mod"}), g.genFloat(d-1), Flt(g.pickF([]float64{0.5, 2.0, 3.0, -1.5, 0.25, 7.0})))
	case 5:
		// exact powers only (libm is not modelled)
		return Bin("pow", g.pickE([]*E{Int(2), Int(3), Flt(0.5), Int(10), Flt(2.0)}), Int(int64(g.pick(9))))
	case 6:
		return Un("neg", g.genFloat(d-1))
	case 7:
		if v := g.pickVar(func(v *VarInfo) bool { return v.Kind == KRec && hasField(v, KFloat) }); v != nil {
			return Dot(g.use(v), fieldOf(g, v, KFloat))
		}
		return g.genFloat(d - 1)
	default:
		return Bin("add", g.genNumStr(), g.genFloatLit())
	}
}

func (g *G) genNumStr() *E {
	if v := g.pickVar(g.ofKind(KNumStr)); v != nil && g.chance(40) {
		return g.use(v)
	}
	return Str(g.pickS(numStrPool))
}

func (g *G) genStr(d int) *E {
	if d <= 0 {
		if v := g.pickVar(g.ofKind(KStr)); v != nil && g.chance(50) {
			return g.use(v)
		}
		return Str(g.pickS(strPool))
	}
	switch g.weighted([]int{10, 10, 18, 6, 6, 4, 4, 5, 4, 3, 3}) {
	case 0:
		return Str(g.pickS(strPool))
	case 1:
		if v := g.pickVar(g.ofKind(KStr)); v != nil {
			return g.use(v)
		}
		return Str(g.pickS(strPool))
	case 2:
		a, b := g.genStrOrInt(d-1), g.genStrOrInt(d-1)
		return Bin("concat", a, b)
	case 3:
		return Meth(g.genStr(d-1), "sub", Int(int64(g.pick(7))-2), Int(int64(g.pick(9))-3))
	case 4:
		// ASCII only (case mapping / reversal of other bytes is C19's business)
		return Meth(Str(g.pickS([]string{"abc", "Hello", "x y", "lua 5.4", "", "Zz09"})), g.pickS([]string{"upper", "lower", "reverse"}))
	case 5:
		return Call(Dot(Var("string"), "rep"), g.genStr(d-1), Int(int64(g.pick(4))), Str(g.pickS([]string{"", ",", "--"})))
	case 6:
		return Call(Dot(Var("string"), "char"), Int(int64(65+g.pick(26))), Int(int64(g.pick(256))))
	case 7:
		return CallN("tostring", g.genKind(g.pickK([]Kind{KInt, KBool, KNil, KStr}), d-1))
	case 8:
		return CallN("type", g.genKind(g.pickK([]Kind{KInt, KBool, KNil, KStr, KFloat, KSeq, KFunc}), d-1))
	case 9:
		return Call(Dot(Var("math"), "type"), g.genKind(g.pickK([]Kind{KInt, KFloat}), d-1))
	default:
		if v := g.pickVar(func(v *VarInfo) bool { return v.Kind == KRec && hasField(v, KStr) }); v != nil {
			return Dot(g.use(v), fieldOf(g, v, KStr))
		}
		return g.genStr(d - 1)
	}
}

func (g *G) genStrOrInt(d int) *E {
	if g.chance(30) {
		return g.genInt(d)
	}
	return g.genStr(d)
}

func (g *G) genBool(d int) *E {
	if d <= 0 {
		if v := g.pickVar(g.ofKind(KBool)); v != nil && g.chance(50) {
			return g.use(v)
		}
		return Bool(g.chance(50))
	}
	cmp := []string{"lt", "le", "gt", "ge", "eq", "ne"}
	switch g.weighted([]int{4, 6, 20, 8, 8, 8, 6, 6, 4, 4}) {
	case 0:
		return Bool(g.chance(50))
	case 1:
		if v := g.pickVar(g.ofKind(KBool)); v != nil {
			return g.use(v)
		}
		return Bool(g.chance(50))
	case 2:
		return Bin(g.pickS(cmp), g.genInt(d-1), g.genInt(d-1))
	case 3:
		// int/float comparison (exact, §3.4.4); comparisons with NaN are all false
		if g.chance(15) {
			nan := Bin("div", Int(0), Int(0))
			if g.chance(50) {
				return Bin(g.pickS(cmp), nan, g.genFloat(d-1))
			}
			return Bin(g.pickS(cmp), g.genInt(d-1), nan)
		}
		if g.chance(50) {
			return Bin(g.pickS(cmp), g.genInt(d-1), g.genFloat(d-1))
		}
		return Bin(g.pickS(cmp), g.genFloat(d-1), g.genFloat(d-1))
	case 4:
		return Bin(g.pickS(cmp), g.genStr(d-1), g.genStr(d-1))
	case 5:
		return Un("not", g.genKind(g.pickK([]Kind{KBool, KNil, KInt, KStr}), d-1))
	case 6:
		return Bin(g.pickS([]string{"and", "or"}), g.genBool(d-1), g.genBool(d-1))
	case 7:
		// equality across kinds is always false, never an error
		k1 := g.pickK([]Kind{KInt, KStr, KBool, KNil, KFloat, KNumStr, KSeq})
		k2 := g.pickK([]Kind{KInt, KStr, KBool, KNil, KFloat, KNumStr, KSeq})
		return Bin(g.pickS([]string{"eq", "ne"}), g.genKind(k1, d-1), g.genKind(k2, d-1))
	case 8:
		return CallN("rawequal", g.genKind(g.pickK([]Kind{KInt, KStr, KFloat}), d-1), g.genKind(g.pickK([]Kind{KInt, KStr, KFloat}), d-1))
	default:
		return Bin("eq", Call(Dot(Var("math"), "type"), g.genKind(g.pickK([]Kind{KInt, KFloat}), d-1)), Str(g.pickS([]string{"integer", "float"})))
	}
}

func (g *G) genNil() *E {
	switch g.pick(4) {
	case 0:
		if v := g.pickVar(g.ofKind(KRec)); v != nil {
			return Dot(g.use(v), "nosuch")
		}
	case 1:
		if v := g.pickVar(g.ofKind(KSeq)); v != nil {
			return Idx(g.use(v), Int(1000))
		}
	case 2:
		return Var("undefinedglobal")
	}
	return Nil()
}

// a fresh sequence constructor (positional ints; sometimes explicit integer keys or a float key that
// normalises to an integer) — never repeated keys
func (g *G) genSeqCtor(d int) (*E, int) {
	n := g.pick(6)
	t := Tbl()
	switch {
	case n > 0 && g.chance(12):
		for i := 1; i <= n; i++ {
			k := Int(int64(i))
			if g.chance(30) {
				k = Flt(float64(i))
			}
			t.Fields = append(t.Fields, KV(k, g.genInt(d-1)))
		}
	default:
		for i := 0; i < n; i++ {
			t.Fields = append(t.Fields, Pos(g.genInt(d-1)))
		}
	}
	return t, n
}

func (g *G) genSeq(d int) *E {
	if v := g.pickVar(g.ofKind(KSeq)); v != nil && g.chance(60) {
		return g.use(v)
	}
	t, _ := g.genSeqCtor(d)
	return t
}

func (g *G) genFunc() *E {
	if v := g.pickVar(g.ofKind(KFunc)); v != nil {
		return g.use(v)
	}
	return Var("type")
}

func (g *G) genKind(k Kind, d int) *E {
	switch k {
	case KNil:
		return g.genNil()
	case KBool:
		return g.genBool(d)
	case KInt:
		return g.genInt(d)
	case KFloat:
		return g.genFloat(d)
	case KStr:
		return g.genStr(d)
	case KNumStr:
		return g.genNumStr()
	case KSeq:
		return g.genSeq(d)
	case KFunc:
		return g.genFunc()
	case KAny:
		if v := g.pickVar(g.ofKind(KAny)); v != nil && g.chance(50) {
			return g.use(v)
		}
		return g.genKind(g.pickK([]Kind{KNil, KBool, KInt, KFloat, KStr}), d)
	}
	return g.genInt(d)
}

// scalar kinds whose values may be handed to emit (floats are printed as bits; tables/functions as type)
var emitKinds = []Kind{KInt, KInt, KInt, KStr, KStr, KBool, KFloat, KNil, KAny, KNumStr}

func (g *G) genEmittable(d int) *E {
	k := g.pickK(emitKinds)
	return g.genKind(k, d)
}
