// c01: whole-pipeline differential harness for C01 / C11.
//
// ast.go — the program representation shared by the generator, the renderers
// (Lua text), the S-expression emitter/reader (input of the Lean reference
// interpreter) and the shrinker.
package main

import (
	"encoding/hex"
	"fmt"
	"math"
	"strconv"
	"strings"
)

// E is an expression node.
type E struct {
	Op     string // nil true false int flt str vararg var idx call meth fn bin un par tbl
	I      int64
	F      float64
	S      string // string payload / variable name / operator name / method name
	Kids   []*E   // idx: t,k  call: f,args…  meth: obj,args…  bin: a,b  un: a  par: e
	Fields []*Field
	Fn     *Func
}

// Field of a table constructor: Key == nil → positional.
type Field struct {
	Key *E
	Val *E
}

type Func struct {
	Params []string
	Vararg bool
	Body   []*S
}

// S is a statement node.
type S struct {
	Op      string // local assign call do while repeat if fornum forin localfn return break goto label
	Line    int
	Names   []string // local / forin / fornum(1) / localfn(1) / goto,label(1)
	Attribs []string // local: "-", "const", "close"
	Targets []*E
	Es      []*E // local/assign/return values, call: [callexpr], fornum: e1,e2[,e3], forin: explist
	Cond    *E
	Body    []*S
	Else    []*S
	Fn      *Func
}

// ---- constructors -------------------------------------------------------

func Nil() *E            { return &E{Op: "nil"} }
func True() *E           { return &E{Op: "true"} }
func False() *E          { return &E{Op: "false"} }
func Bool(b bool) *E     { if b { return True() }; return False() }
func Vararg() *E         { return &E{Op: "vararg"} }
func Var(n string) *E    { return &E{Op: "var", S: n} }
func Str(s string) *E    { return &E{Op: "str", S: s} }
func Flt(f float64) *E   { return &E{Op: "flt", F: f} }
func Par(e *E) *E        { return &E{Op: "par", Kids: []*E{e}} }
func Idx(t, k *E) *E     { return &E{Op: "idx", Kids: []*E{t, k}} }
func Dot(t *E, n string) *E { return Idx(t, Str(n)) }
func Call(f *E, args ...*E) *E { return &E{Op: "call", Kids: append([]*E{f}, args...)} }
func CallN(name string, args ...*E) *E { return Call(Var(name), args...) }
func Meth(o *E, name string, args ...*E) *E {
	return &E{Op: "meth", S: name, Kids: append([]*E{o}, args...)}
}
func Bin(op string, a, b *E) *E { return &E{Op: "bin", S: op, Kids: []*E{a, b}} }
func Un(op string, a *E) *E     { return &E{Op: "un", S: op, Kids: []*E{a}} }
func Fn(params []string, vararg bool, body ...*S) *E {
	return &E{Op: "fn", Fn: &Func{Params: params, Vararg: vararg, Body: body}}
}
func Tbl(fields ...*Field) *E { return &E{Op: "tbl", Fields: fields} }
func Pos(v *E) *Field          { return &Field{Val: v} }
func KV(k, v *E) *Field        { return &Field{Key: k, Val: v} }
func NV(name string, v *E) *Field { return &Field{Key: Str(name), Val: v} }

// Int builds an integer constant; negative values are `-n` (unary minus on a literal) as in source text.
func Int(n int64) *E {
	if n < 0 && n != math.MinInt64 {
		return Un("neg", &E{Op: "int", I: -n})
	}
	if n == math.MinInt64 {
		return Dot(Var("math"), "mininteger")
	}
	return &E{Op: "int", I: n}
}

func Local(names []string, es ...*E) *S {
	at := make([]string, len(names))
	for i := range at {
		at[i] = "-"
	}
	return &S{Op: "local", Names: names, Attribs: at, Es: es}
}
func Local1(name string, e *E) *S { return Local([]string{name}, e) }
func LocalAttr(name, attr string, e *E) *S {
	return &S{Op: "local", Names: []string{name}, Attribs: []string{attr}, Es: []*E{e}}
}
func Assign(targets []*E, es ...*E) *S { return &S{Op: "assign", Targets: targets, Es: es} }
func Assign1(t *E, e *E) *S            { return Assign([]*E{t}, e) }
func CallS(e *E) *S                    { return &S{Op: "call", Es: []*E{e}} }
func Emit(args ...*E) *S               { return CallS(CallN("emit", args...)) }
func Do(body ...*S) *S                 { return &S{Op: "do", Body: body} }
func While(c *E, body ...*S) *S        { return &S{Op: "while", Cond: c, Body: body} }
func Repeat(c *E, body ...*S) *S       { return &S{Op: "repeat", Cond: c, Body: body} }
func If(c *E, thn []*S, els []*S) *S   { return &S{Op: "if", Cond: c, Body: thn, Else: els} }
func ForNum(v string, e1, e2, e3 *E, body ...*S) *S {
	es := []*E{e1, e2}
	if e3 != nil {
		es = append(es, e3)
	}
	return &S{Op: "fornum", Names: []string{v}, Es: es, Body: body}
}
func ForIn(names []string, es []*E, body ...*S) *S {
	return &S{Op: "forin", Names: names, Es: es, Body: body}
}
func LocalFn(name string, params []string, vararg bool, body ...*S) *S {
	return &S{Op: "localfn", Names: []string{name}, Fn: &Func{Params: params, Vararg: vararg, Body: body}}
}
func Return(es ...*E) *S   { return &S{Op: "return", Es: es} }
func Break() *S            { return &S{Op: "break"} }
func Goto(l string) *S     { return &S{Op: "goto", Names: []string{l}} }
func Label(l string) *S    { return &S{Op: "label", Names: []string{l}} }

// ---- S-expressions --------------------------------------------------------

func (e *E) Sexp(b *strings.Builder) {
	switch e.Op {
	case "nil", "true", "false":
		b.WriteString(e.Op)
	case "vararg":
		b.WriteString("...")
	case "int":
		fmt.Fprintf(b, "(i %d)", e.I)
	case "flt":
		fmt.Fprintf(b, "(f %016x)", math.Float64bits(e.F))
	case "str":
		if e.S == "" {
			b.WriteString("(s)")
		} else {
			fmt.Fprintf(b, "(s %s)", hex.EncodeToString([]byte(e.S)))
		}
	case "var":
		fmt.Fprintf(b, "(var %s)", e.S)
	case "idx":
		b.WriteString("(idx ")
		e.Kids[0].Sexp(b)
		b.WriteByte(' ')
		e.Kids[1].Sexp(b)
		b.WriteByte(')')
	case "call":
		b.WriteString("(call")
		for _, k := range e.Kids {
			b.WriteByte(' ')
			k.Sexp(b)
		}
		b.WriteByte(')')
	case "meth":
		b.WriteString("(meth ")
		e.Kids[0].Sexp(b)
		fmt.Fprintf(b, " %s", hex.EncodeToString([]byte(e.S)))
		for _, k := range e.Kids[1:] {
			b.WriteByte(' ')
			k.Sexp(b)
		}
		b.WriteByte(')')
	case "fn":
		e.Fn.Sexp(b)
	case "bin":
		fmt.Fprintf(b, "(bin %s ", e.S)
		e.Kids[0].Sexp(b)
		b.WriteByte(' ')
		e.Kids[1].Sexp(b)
		b.WriteByte(')')
	case "un":
		fmt.Fprintf(b, "(un %s ", e.S)
		e.Kids[0].Sexp(b)
		b.WriteByte(')')
	case "par":
		b.WriteString("(par ")
		e.Kids[0].Sexp(b)
		b.WriteByte(')')
	case "tbl":
		b.WriteString("(tbl")
		for _, f := range e.Fields {
			if f.Key == nil {
				b.WriteString(" (pos ")
				f.Val.Sexp(b)
			} else {
				b.WriteString(" (kv ")
				f.Key.Sexp(b)
				b.WriteByte(' ')
				f.Val.Sexp(b)
			}
			b.WriteByte(')')
		}
		b.WriteByte(')')
	default:
		panic("sexp: bad expr op " + e.Op)
	}
}

func (f *Func) Sexp(b *strings.Builder) {
	b.WriteString("(fn (")
	b.WriteString(strings.Join(f.Params, " "))
	b.WriteString(") ")
	if f.Vararg {
		b.WriteString("1 ")
	} else {
		b.WriteString("0 ")
	}
	blockSexp(b, f.Body)
	b.WriteByte(')')
}

func esSexp(b *strings.Builder, es []*E) {
	b.WriteByte('(')
	for i, e := range es {
		if i > 0 {
			b.WriteByte(' ')
		}
		e.Sexp(b)
	}
	b.WriteByte(')')
}

func blockSexp(b *strings.Builder, ss []*S) {
	b.WriteByte('(')
	for i, s := range ss {
		if i > 0 {
			b.WriteByte(' ')
		}
		s.Sexp(b)
	}
	b.WriteByte(')')
}

func (s *S) Sexp(b *strings.Builder) {
	switch s.Op {
	case "local":
		fmt.Fprintf(b, "(local %d (", s.Line)
		for i, n := range s.Names {
			if i > 0 {
				b.WriteByte(' ')
			}
			fmt.Fprintf(b, "(%s %s)", n, s.Attribs[i])
		}
		b.WriteString(") ")
		esSexp(b, s.Es)
		b.WriteByte(')')
	case "assign":
		fmt.Fprintf(b, "(assign %d ", s.Line)
		esSexp(b, s.Targets)
		b.WriteByte(' ')
		esSexp(b, s.Es)
		b.WriteByte(')')
	case "call":
		fmt.Fprintf(b, "(callS %d ", s.Line)
		s.Es[0].Sexp(b)
		b.WriteByte(')')
	case "do":
		b.WriteString("(do ")
		blockSexp(b, s.Body)
		b.WriteByte(')')
	case "while":
		fmt.Fprintf(b, "(while %d ", s.Line)
		s.Cond.Sexp(b)
		b.WriteByte(' ')
		blockSexp(b, s.Body)
		b.WriteByte(')')
	case "repeat":
		b.WriteString("(repeat ")
		blockSexp(b, s.Body)
		fmt.Fprintf(b, " %d ", s.Line)
		s.Cond.Sexp(b)
		b.WriteByte(')')
	case "if":
		fmt.Fprintf(b, "(if %d ", s.Line)
		s.Cond.Sexp(b)
		b.WriteByte(' ')
		blockSexp(b, s.Body)
		b.WriteByte(' ')
		blockSexp(b, s.Else)
		b.WriteByte(')')
	case "fornum":
		fmt.Fprintf(b, "(fornum %d %s ", s.Line, s.Names[0])
		s.Es[0].Sexp(b)
		b.WriteByte(' ')
		s.Es[1].Sexp(b)
		b.WriteByte(' ')
		if len(s.Es) > 2 {
			s.Es[2].Sexp(b)
		} else {
			b.WriteByte('-')
		}
		b.WriteByte(' ')
		blockSexp(b, s.Body)
		b.WriteByte(')')
	case "forin":
		fmt.Fprintf(b, "(forin %d (%s) ", s.Line, strings.Join(s.Names, " "))
		esSexp(b, s.Es)
		b.WriteByte(' ')
		blockSexp(b, s.Body)
		b.WriteByte(')')
	case "localfn":
		fmt.Fprintf(b, "(localfn %d %s ", s.Line, s.Names[0])
		s.Fn.Sexp(b)
		b.WriteByte(')')
	case "return":
		fmt.Fprintf(b, "(return %d ", s.Line)
		esSexp(b, s.Es)
		b.WriteByte(')')
	case "break":
		b.WriteString("(break)")
	case "goto":
		fmt.Fprintf(b, "(goto %s)", s.Names[0])
	case "label":
		fmt.Fprintf(b, "(label %s)", s.Names[0])
	default:
		panic("sexp: bad stmt op " + s.Op)
	}
}

func ProgSexp(prog []*S) string {
	var b strings.Builder
	blockSexp(&b, prog)
	return b.String()
}

// ---- reading S-expressions back (shrinker input) -------------------------------

type sx struct {
	atom string
	list []*sx
	isL  bool
}

func parseSx(s string) (*sx, error) {
	stack := [][]*sx{{}}
	cur := ""
	flush := func() {
		if cur != "" {
			stack[len(stack)-1] = append(stack[len(stack)-1], &sx{atom: cur})
			cur = ""
		}
	}
	for _, c := range s {
		switch c {
		case '(':
			flush()
			stack = append(stack, []*sx{})
		case ')':
			flush()
			if len(stack) < 2 {
				return nil, fmt.Errorf("unbalanced )")
			}
			top := stack[len(stack)-1]
			stack = stack[:len(stack)-1]
			stack[len(stack)-1] = append(stack[len(stack)-1], &sx{list: top, isL: true})
		case ' ', '\n', '\t':
			flush()
		default:
			cur += string(c)
		}
	}
	flush()
	if len(stack) != 1 || len(stack[0]) != 1 {
		return nil, fmt.Errorf("expected one S-expression")
	}
	return stack[0][0], nil
}

func (x *sx) head() string {
	if x.isL && len(x.list) > 0 && !x.list[0].isL {
		return x.list[0].atom
	}
	return ""
}

func sxExpr(x *sx) *E {
	if !x.isL {
		switch x.atom {
		case "nil", "true", "false":
			return &E{Op: x.atom}
		case "...":
			return Vararg()
		}
		panic("bad expr atom " + x.atom)
	}
	l := x.list
	switch x.head() {
	case "i":
		n, err := strconv.ParseInt(l[1].atom, 10, 64)
		if err != nil {
			panic(err)
		}
		return &E{Op: "int", I: n}
	case "f":
		n, err := strconv.ParseUint(l[1].atom, 16, 64)
		if err != nil {
			panic(err)
		}
		return Flt(math.Float64frombits(n))
	case "s":
		if len(l) == 1 {
			return Str("")
		}
		bs, err := hex.DecodeString(l[1].atom)
		if err != nil {
			panic(err)
		}
		return Str(string(bs))
	case "var":
		return Var(l[1].atom)
	case "idx":
		return Idx(sxExpr(l[1]), sxExpr(l[2]))
	case "call":
		e := &E{Op: "call"}
		for _, k := range l[1:] {
			e.Kids = append(e.Kids, sxExpr(k))
		}
		return e
	case "meth":
		bs, _ := hex.DecodeString(l[2].atom)
		e := &E{Op: "meth", S: string(bs), Kids: []*E{sxExpr(l[1])}}
		for _, k := range l[3:] {
			e.Kids = append(e.Kids, sxExpr(k))
		}
		return e
	case "fn":
		return &E{Op: "fn", Fn: sxFunc(x)}
	case "bin":
		return Bin(l[1].atom, sxExpr(l[2]), sxExpr(l[3]))
	case "un":
		return Un(l[1].atom, sxExpr(l[2]))
	case "par":
		return Par(sxExpr(l[1]))
	case "tbl":
		e := &E{Op: "tbl"}
		for _, f := range l[1:] {
			if f.head() == "pos" {
				e.Fields = append(e.Fields, Pos(sxExpr(f.list[1])))
			} else {
				e.Fields = append(e.Fields, KV(sxExpr(f.list[1]), sxExpr(f.list[2])))
			}
		}
		return e
	}
	panic("bad expr form " + x.head())
}

func sxFunc(x *sx) *Func {
	l := x.list
	f := &Func{Vararg: l[2].atom == "1"}
	for _, p := range l[1].list {
		f.Params = append(f.Params, p.atom)
	}
	f.Body = sxBlock(l[3])
	return f
}

func sxEs(x *sx) []*E {
	var out []*E
	for _, k := range x.list {
		out = append(out, sxExpr(k))
	}
	return out
}

func sxBlock(x *sx) []*S {
	out := []*S{}
	for _, k := range x.list {
		out = append(out, sxStmt(k))
	}
	return out
}

func atoi(s string) int {
	n, err := strconv.Atoi(s)
	if err != nil {
		panic(err)
	}
	return n
}

func sxStmt(x *sx) *S {
	l := x.list
	switch x.head() {
	case "local":
		s := &S{Op: "local", Line: atoi(l[1].atom), Es: sxEs(l[3])}
		for _, n := range l[2].list {
			s.Names = append(s.Names, n.list[0].atom)
			s.Attribs = append(s.Attribs, n.list[1].atom)
		}
		return s
	case "assign":
		return &S{Op: "assign", Line: atoi(l[1].atom), Targets: sxEs(l[2]), Es: sxEs(l[3])}
	case "callS":
		return &S{Op: "call", Line: atoi(l[1].atom), Es: []*E{sxExpr(l[2])}}
	case "do":
		return &S{Op: "do", Body: sxBlock(l[1])}
	case "while":
		return &S{Op: "while", Line: atoi(l[1].atom), Cond: sxExpr(l[2]), Body: sxBlock(l[3])}
	case "repeat":
		return &S{Op: "repeat", Body: sxBlock(l[1]), Line: atoi(l[2].atom), Cond: sxExpr(l[3])}
	case "if":
		return &S{Op: "if", Line: atoi(l[1].atom), Cond: sxExpr(l[2]), Body: sxBlock(l[3]), Else: sxBlock(l[4])}
	case "fornum":
		s := &S{Op: "fornum", Line: atoi(l[1].atom), Names: []string{l[2].atom}, Es: []*E{sxExpr(l[3]), sxExpr(l[4])}, Body: sxBlock(l[6])}
		if l[5].isL || l[5].atom != "-" {
			s.Es = append(s.Es, sxExpr(l[5]))
		}
		return s
	case "forin":
		s := &S{Op: "forin", Line: atoi(l[1].atom), Es: sxEs(l[3]), Body: sxBlock(l[4])}
		for _, n := range l[2].list {
			s.Names = append(s.Names, n.atom)
		}
		return s
	case "localfn":
		return &S{Op: "localfn", Line: atoi(l[1].atom), Names: []string{l[2].atom}, Fn: sxFunc(l[3])}
	case "return":
		return &S{Op: "return", Line: atoi(l[1].atom), Es: sxEs(l[2])}
	case "break":
		return Break()
	case "goto":
		return Goto(l[1].atom)
	case "label":
		return Label(l[1].atom)
	}
	panic("bad stmt form " + x.head())
}

func ParseProg(s string) (prog []*S, err error) {
	defer func() {
		if p := recover(); p != nil {
			err = fmt.Errorf("%v", p)
		}
	}()
	x, err := parseSx(s)
	if err != nil {
		return nil, err
	}
	return sxBlock(x), nil
}

// ---- deep copy ------------------------------------------------------------------

func (e *E) Clone() *E {
	if e == nil {
		return nil
	}
	c := *e
	c.Kids = make([]*E, len(e.Kids))
	for i, k := range e.Kids {
		c.Kids[i] = k.Clone()
	}
	if e.Fields != nil {
		c.Fields = make([]*Field, len(e.Fields))
		for i, f := range e.Fields {
			c.Fields[i] = &Field{Key: f.Key.Clone(), Val: f.Val.Clone()}
		}
	}
	c.Fn = e.Fn.Clone()
	return &c
}

func (f *Func) Clone() *Func {
	if f == nil {
		return nil
	}
	return &Func{Params: append([]string(nil), f.Params...), Vararg: f.Vararg, Body: CloneBlock(f.Body)}
}

func CloneEs(es []*E) []*E {
	if es == nil {
		return nil
	}
	out := make([]*E, len(es))
	for i, e := range es {
		out[i] = e.Clone()
	}
	return out
}

func CloneBlock(ss []*S) []*S {
	if ss == nil {
		return nil
	}
	out := make([]*S, len(ss))
	for i, s := range ss {
		out[i] = s.Clone()
	}
	return out
}

func (s *S) Clone() *S {
	c := *s
	c.Names = append([]string(nil), s.Names...)
	c.Attribs = append([]string(nil), s.Attribs...)
	c.Targets = CloneEs(s.Targets)
	c.Es = CloneEs(s.Es)
	c.Cond = s.Cond.Clone()
	c.Body = CloneBlock(s.Body)
	c.Else = CloneBlock(s.Else)
	c.Fn = s.Fn.Clone()
	return &c
}
