// run.go — runs Lua source through the real golua pipeline and prints outcomes in the
// canonical form shared with the Lean oracle.
package main

import (
	"context"
	"fmt"
	"os"
	"os/exec"
	"regexp"
	"strings"
	"time"

	rt "github.com/arnodel/golua/runtime"
	"verifharness/hlib"
)

const chunkName = "chunk"

var posRe = regexp.MustCompile(`^(` + chunkName + `:\d+: )?(.*)$`)

// runtime error texts → classes (texts other than the position prefix are not part of the property)
var classRes = []struct {
	re  *regexp.Regexp
	cls string
}{
	{regexp.MustCompile(`^attempt to perform arithmetic on`), "arith"},
	{regexp.MustCompile(`^attempt to divide by zero`), "divzero"},
	{regexp.MustCompile(`^attempt to (add|sub|mul|div|mod|pow|idiv|unm|subtract|multiply|divide|negate) `), "arith"},
	{regexp.MustCompile(`^attempt to divide by zero`), "divzero"},
	{regexp.MustCompile(`^attempt to perform 'n%0'`), "modzero"},
	{regexp.MustCompile(`^attempt to perform 'n//0'`), "divzero"},
	{regexp.MustCompile(`^number has no integer representation`), "noint"},
	{regexp.MustCompile(`^attempt to perform bitwise`), "bitwise"},
	{regexp.MustCompile(`^attempt to concatenate`), "concat"},
	{regexp.MustCompile(`^attempt to call`), "call"},
	{regexp.MustCompile(`^attempt to index .* without __newindex`), "index"},
	{regexp.MustCompile(`^attempt to index`), "index"},
	{regexp.MustCompile(`^attempt to compare`), "compare"},
	{regexp.MustCompile(`^attempt to get length`), "length"},
	{regexp.MustCompile(`^index is nil`), "indexnil"},
	{regexp.MustCompile(`^table index is nil`), "indexnil"},
	{regexp.MustCompile(`^index is NaN`), "indexnan"},
	{regexp.MustCompile(`^table index is NaN`), "indexnan"},
	{regexp.MustCompile(`^'for' step is zero`), "forstep0"},
	{regexp.MustCompile(`^'for' initial value`), "forinit"},
	{regexp.MustCompile(`^'for' limit`), "forlimit"},
	{regexp.MustCompile(`^'for' step`), "forstep"},
	{regexp.MustCompile(`^cannot set metatable`), "protected"},
	{regexp.MustCompile(`^bad argument`), "badarg"},
	{regexp.MustCompile(`^#\d+ must be`), "badarg"},
	{regexp.MustCompile(`^#\d+ out of range`), "badarg"},
	{regexp.MustCompile(`missing a __close metamethod`), "noclose"},
	{regexp.MustCompile(`value needed`), "badarg"},
	{regexp.MustCompile(`^cannot change a protected metatable`), "protected"},
	{regexp.MustCompile(`got a non-closable value`), "noclose"},
	{regexp.MustCompile(`^invalid key`), "badkey"},
	{regexp.MustCompile(`^'__tostring' must return a string`), "tostring-nonstring"},
	{regexp.MustCompile(`^cannot resume dead (coroutine|thread)`), "codead"},
	{regexp.MustCompile(`^cannot resume (non-suspended|running|normal)`), "conotsuspended"},
	{regexp.MustCompile(`^(attempt to yield from outside a coroutine|cannot yield from main thread)`), "yieldmain"},
	{regexp.MustCompile(`^cannot close (a )?(running|normal)`), "coclose"},
}

// canonStr maps a runtime error message to `<prefix>!<class>`; other strings are unchanged.
func canonStr(s string) string {
	m := posRe.FindStringSubmatch(s)
	if m == nil {
		return s
	}
	for _, c := range classRes {
		if c.re.MatchString(m[2]) {
			return m[1] + "!" + c.cls
		}
	}
	return s
}

func encVal(v rt.Value) string {
	if s, ok := v.TryString(); ok {
		return "s" + hlib.Hex(canonStr(s))
	}
	e := hlib.Enc(v)
	if strings.HasPrefix(e, "f") {
		f := v.AsFloat()
		if f != f {
			return "fnan"
		}
	}
	if strings.HasPrefix(e, "o") {
		switch v.Type() {
		case rt.TableType:
			return "otable"
		case rt.FunctionType:
			return "ofunction"
		}
	}
	return e
}

func encVals(vs []rt.Value) string {
	parts := make([]string, len(vs))
	for i, v := range vs {
		parts[i] = encVal(v)
	}
	return strings.Join(parts, ",")
}

// RunLua runs runLua with a wall-clock bound.  A mutated golua may spin inside Go code that no CPU limit
// reaches; such a goroutine cannot be stopped, so after the first timeout every further run happens in a child
// process (`c01 runone`, killed on timeout) and the abandoned goroutine only costs one core until exit.
var (
	poisoned bool
	timeouts int
)

func RunLua(src string, args []rt.Value) string {
	if poisoned {
		return runIsolated(src, args)
	}
	ch := make(chan string, 1)
	go func() { ch <- runLua(src, args) }()
	select {
	case o := <-ch:
		return o
	case <-time.After(4 * time.Second):
		// either golua really hangs or the machine is overloaded: decide in a child process with a generous bound
		poisoned = true
		return runIsolated(src, args)
	}
}

func runIsolated(src string, args []rt.Value) string {
	exe, err := os.Executable()
	if err != nil {
		return "panic cannot find own executable"
	}
	argv := []string{"runone"}
	for _, a := range args {
		argv = append(argv, hlib.Enc(a))
	}
	limit := 20 * time.Second
	if timeouts >= 8 { // golua really hangs on many programs (a mutated tree): do not spend minutes on each
		limit = 3 * time.Second
	}
	ctx, cancel := context.WithTimeout(context.Background(), limit)
	defer cancel()
	cmd := exec.CommandContext(ctx, exe, argv...)
	cmd.Stdin = strings.NewReader(src)
	out, err := cmd.Output()
	if ctx.Err() != nil {
		timeouts++
		return "timeout"
	}
	if err != nil && len(out) == 0 {
		return "panic child process: " + err.Error()
	}
	return strings.TrimRight(string(out), "\n")
}

// runLua loads src as chunk "chunk" in a fresh runtime and calls it; the result is the canonical outcome.
func runLua(src string, args []rt.Value) (outcome string) {
	var trace []string
	defer func() {
		if p := recover(); p != nil {
			outcome = fmt.Sprintf("panic %v", p)
		}
	}()
	r, cleanup := hlib.NewRuntime(os.Stderr)
	defer cleanup()
	env := r.GlobalEnv()
	g1 := r.SetEnvGoFunc(env, "emit", func(t *rt.Thread, c *rt.GoCont) (rt.Cont, error) {
		trace = append(trace, encVals(c.Etc()))
		return c.Next(), nil
	}, 0, true)
	g2 := r.SetEnvGoFunc(env, "args", func(t *rt.Thread, c *rt.GoCont) (rt.Cont, error) {
		next := c.Next()
		t.Push(next, args...)
		return next, nil
	}, 0, false)
	rt.SolemnlyDeclareCompliance(rt.ComplyCpuSafe|rt.ComplyMemSafe|rt.ComplyIoSafe|rt.ComplyTimeSafe, g1, g2)
	clos, err := hlib.Load(r, chunkName, src)
	if err != nil {
		return "compile-error " + strings.ReplaceAll(err.Error(), "\n", " ")
	}
	var (
		class string
		res   []rt.Value
		cerr  error
	)
	// a CPU limit so that a (mutated) golua cannot hang the harness
	func() {
		defer func() {
			if p := recover(); p != nil {
				if _, ok := p.(rt.ContextTerminationError); ok {
					class = hlib.KILLED
					return
				}
				class = hlib.PANIC
				cerr = fmt.Errorf("%v", p)
			}
		}()
		r.PushContext(rt.RuntimeContextDef{HardLimits: rt.RuntimeResources{Cpu: 3_000_000}})
		defer r.PopContext()
		term := rt.NewTerminationWith(nil, 0, true)
		cerr = rt.Call(r.MainThread(), rt.FunctionValue(clos), nil, term)
		if cerr != nil {
			class = hlib.ERR
		} else {
			class = hlib.OK
			res = append([]rt.Value(nil), term.Etc()...)
		}
	}()
	t := "T[" + strings.Join(trace, "|") + "]"
	switch class {
	case hlib.OK:
		return t + " ok[" + encVals(res) + "]"
	case hlib.ERR:
		v, ok := hlib.ErrValue(cerr)
		if !ok {
			v = rt.StringValue(cerr.Error())
		}
		return t + " err[" + encVal(v) + "]"
	case hlib.KILLED:
		return "killed"
	}
	return fmt.Sprintf("panic %v", cerr)
}
