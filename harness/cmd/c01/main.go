package main

import (
	"fmt"
	"strconv"
	"io"
	"os"
	"strings"

	rt "github.com/arnodel/golua/runtime"
	"verifharness/hlib"
)

func usage() {
	fmt.Fprintln(os.Stderr, `usage:
  c01 gen <mode:c01|c11> <nprograms> [firstIndex]   generate programs, run golua, print P/L/R/G/F lines
  c01 lua <file.lua> [args…]                        run one Lua file through golua, print the outcome
  c01 show <mode> <index>                           print program <index> of this seed (canonical Lua + S-expression)
  c01 shrink <oracle-binary> <file>                 delta-debug the program in <file> (P line + R lines)
  c01 rewrite <mode> <name[+name]> <nargs> <idx>…   regenerate programs, apply defect-avoiding rewrites, run golua`)
	os.Exit(2)
}

func decArgs(ss []string) []rt.Value {
	var out []rt.Value
	for _, s := range ss {
		v, err := hlib.Dec(s)
		if err != nil {
			fmt.Fprintln(os.Stderr, "bad argument value", s)
			os.Exit(2)
		}
		out = append(out, v)
	}
	return out
}

func main() {
	defer hlib.Out.Flush()
	if len(os.Args) < 2 {
		usage()
	}
	if v, err := strconv.Atoi(os.Getenv("C01_LONG")); err == nil {
		longHistory = v
	}
	switch os.Args[1] {
	case "lua":
		if len(os.Args) < 3 {
			usage()
		}
		src, err := os.ReadFile(os.Args[2])
		if err != nil {
			fmt.Fprintln(os.Stderr, err)
			os.Exit(2)
		}
		hlib.Emit(RunLua(string(src), decArgs(os.Args[3:])))
	case "runone":
		// child-process mode of RunLua: source on stdin, argument values on the command line
		src, err := io.ReadAll(os.Stdin)
		if err != nil {
			os.Exit(2)
		}
		hlib.Emit(runLua(string(src), decArgs(os.Args[2:])))
	case "sexp":
		// c01 sexp <file>…: read P/R lines, print the canonical Lua text (as `L` lines), the P/R lines with fresh
		// line numbers, and golua's outcome in every rendering (`G` lines)
		for fi, path := range os.Args[2:] {
			prog, argLines := readProgFile(path)
			clearLines(prog)
			id := fmt.Sprintf("file%d", fi)
			sts := styles(hlib.Seed(), fi)
			var srcs []string
			for _, st := range sts {
				srcs = append(srcs, Render(prog, st))
			}
			for _, l := range strings.Split(strings.TrimRight(srcs[0], "\n"), "\n") {
				hlib.Emit("L", id, l)
			}
			hlib.Emit("P", id, ProgSexp(prog))
			for ai, a := range argLines {
				tag := fmt.Sprintf("a%d", ai)
				hlib.Emit("R", id, tag, strings.Join(a, " "))
				for si, st := range sts {
					hlib.Emit("G", id, st.Name, tag, RunLua(srcs[si], decArgs(a)))
				}
			}
		}
	case "gen":
		genMain(os.Args[2:])
	case "luafile":
		luafileMain(os.Args[2:])
	case "show":
		showMain(os.Args[2:])
	case "shrink":
		shrinkMain(os.Args[2:])
	case "rewrite":
		rewriteMain(os.Args[2:])
	default:
		usage()
	}
}
