// gen_main.go — program assembly, the `gen` and `show` modes, construct histogram.
package main

import (
	"fmt"
	"os"
	"sort"
	"strconv"
	"strings"

	rt "github.com/arnodel/golua/runtime"
	"verifharness/hlib"
)

type Program struct {
	ID    string
	Stmts []*S
	Feats map[string]bool
	Sites map[string]int
	Args  [][]rt.Value
}

func mix(seed uint64, idx int, salt uint64) uint64 {
	r := hlib.NewRng(seed ^ (uint64(idx)+1)*0x9E3779B97F4A7C15 ^ salt*0xD1B54A32D192ED03)
	r.Next()
	return r.Next()
}

// GenProgram builds program number idx of this seed.
func GenProgram(seed uint64, mode string, idx int) *Program {
	g := NewG(mix(seed, idx, 1), mode == "c11")
	g.pool = mode == "c14"
	g.budget = 6 + g.pick(14)
	// inputs: (small int, int, string)
	a1, a2, a3 := "a1", "a2", "a3"
	g.declare(&VarInfo{Name: a1, Kind: KInt, Small: true})
	g.declare(&VarInfo{Name: a2, Kind: KInt})
	g.declare(&VarInfo{Name: a3, Kind: KStr})
	prog := []*S{Local([]string{a1, a2, a3}, CallN("args"))}
	for g.budget > 0 {
		prog = append(prog, g.stmt()...)
	}
	// every 25th program ends with a long history of caught host-function errors (7 variants in rotation)
	if !g.pool && idx%25 == 7 {
		prog = append(prog, g.longHistory((idx/25)%7)...)
	}
	// final observation of every scalar variable still in scope, then the chunk's results
	var finals []*E
	for _, v := range g.vars(func(v *VarInfo) bool {
		return v.FnDepth == 0 && (v.Kind == KInt || v.Kind == KStr || v.Kind == KBool || v.Kind == KFloat)
	}) {
		if len(finals) < 6 {
			finals = append(finals, Var(v.Name))
		}
	}
	prog = append(prog, Emit(append([]*E{Str("final")}, finals...)...))
	switch g.pick(4) {
	case 0:
		prog = append(prog, Return(g.genInt(1), g.genStr(1)))
	case 1:
		prog = append(prog, Return(g.genEmittable(1)))
	case 2:
		if (g.c11 || g.chance(30)) && !g.pool { // (C14 prints the error text: no table values, whose text is an address)
			// an error that reaches the embedding caller
			prog = append(prog, CallS(CallN("error", g.pickE([]*E{Str("top"), Tbl(), Int(7), Nil()}), Int(int64(g.pick(3))))))
			g.feat("error")
		}
	}
	p := &Program{ID: fmt.Sprintf("%s-%d-%d", mode, seed, idx), Stmts: prog, Feats: g.feats, Sites: g.sites}
	ar := hlib.NewRng(mix(seed, idx, 2))
	strs := []string{"in", "", "Zed", "10", "x\x00y"}
	for k := 0; k < 3; k++ {
		p.Args = append(p.Args, []rt.Value{rt.IntValue(int64(ar.Below(6))), rt.IntValue([]int64{0, 3, -4, 1 << 40, 9223372036854775807}[ar.Below(5)] + int64(ar.Below(3))), rt.StringValue(strs[ar.Below(len(strs))])})
	}
	return p
}

func styles(seed uint64, idx int) []Style {
	return []Style{
		{Name: "canon"},
		{Name: "paren", Parens: true, Rng: hlib.NewRng(mix(seed, idx, 3))},
		{Name: "fancy", Parens: true, Fancy: true, Rng: hlib.NewRng(mix(seed, idx, 4))},
	}
}

func encArgs(vs []rt.Value) string {
	parts := make([]string, len(vs))
	for i, v := range vs {
		parts[i] = hlib.Enc(v)
	}
	return strings.Join(parts, " ")
}

// ---- histogram -----------------------------------------------------------------

type hist map[string]int

func (h hist) stmts(ss []*S) {
	for _, s := range ss {
		h["stmt:"+s.Op]++
		for _, a := range s.Attribs {
			if a != "-" {
				h["attrib:"+a]++
			}
		}
		if s.Op == "assign" && len(s.Targets) > 1 {
			h["stmt:multi-assign"]++
		}
		for _, e := range s.Targets {
			h.expr(e)
		}
		for _, e := range s.Es {
			h.expr(e)
		}
		if s.Cond != nil {
			h.expr(s.Cond)
		}
		h.stmts(s.Body)
		h.stmts(s.Else)
		if s.Fn != nil {
			h.stmts(s.Fn.Body)
			if s.Fn.Vararg {
				h["fn:vararg"]++
			}
		}
	}
}

var builtinNames = map[string]bool{"emit": true, "args": true, "error": true, "pcall": true, "xpcall": true, "assert": true, "select": true,
	"type": true, "rawget": true, "rawset": true, "rawequal": true, "rawlen": true, "setmetatable": true, "getmetatable": true, "next": true,
	"pairs": true, "ipairs": true, "tostring": true, "tonumber": true}

func (h hist) expr(e *E) {
	switch e.Op {
	case "bin":
		h["binop:"+e.S]++
	case "un":
		h["unop:"+e.S]++
	case "call":
		h["expr:call"]++
		f := e.Kids[0]
		if f.Op == "var" && builtinNames[f.S] {
			h["builtin:"+f.S]++
		}
		if f.Op == "idx" && f.Kids[0].Op == "var" && f.Kids[1].Op == "str" && (f.Kids[0].S == "math" || f.Kids[0].S == "string" || f.Kids[0].S == "table" || f.Kids[0].S == "coroutine") {
			h["builtin:"+f.Kids[0].S+"."+f.Kids[1].S]++
		}
		if n := len(e.Kids); n > 2 {
			for _, a := range e.Kids[1 : n-1] {
				if multiValued(a) {
					h["call:multi-in-middle"]++
				}
			}
		}
		if n := len(e.Kids); n > 1 && multiValued(e.Kids[n-1]) {
			h["call:multi-last"]++
		}
	case "str":
		if strings.HasPrefix(e.S, "__") && !strings.Contains(e.S, " ") {
			h["meta:"+e.S]++
		}
		h["expr:str"]++
	default:
		h["expr:"+e.Op]++
	}
	for _, k := range e.Kids {
		h.expr(k)
	}
	for _, f := range e.Fields {
		if f.Key != nil {
			h.expr(f.Key)
			h["field:keyed"]++
		} else {
			h["field:positional"]++
			if multiValued(f.Val) {
				h["field:multi"]++
			}
		}
		h.expr(f.Val)
	}
	if e.Fn != nil {
		h.stmts(e.Fn.Body)
		if e.Fn.Vararg {
			h["fn:vararg"]++
		}
	}
}

// ---- modes -----------------------------------------------------------------------

func genMain(args []string) {
	if len(args) < 2 {
		usage()
	}
	mode := args[0]
	n, _ := strconv.Atoi(args[1])
	first := 0
	if len(args) > 2 {
		first, _ = strconv.Atoi(args[2])
	}
	nargs := 2
	if len(args) > 3 {
		nargs, _ = strconv.Atoi(args[3])
	}
	seed := hlib.Seed()
	h := hist{}
	for idx := first; idx < first+n; idx++ {
		p := GenProgram(seed, mode, idx)
		var srcs []string
		sts := styles(seed, idx)
		for _, st := range sts {
			srcs = append(srcs, Render(p.Stmts, st))
		}
		hlib.Emit("P", p.ID, ProgSexp(p.Stmts))
		var fs []string
		for f := range p.Feats {
			fs = append(fs, f)
		}
		sort.Strings(fs)
		hlib.Emit("F", p.ID, strings.Join(fs, ","))
		h.stmts(p.Stmts)
		for c, k := range p.Sites {
			h["error-site:"+c] += k
		}
		for ai := 0; ai < nargs && ai < len(p.Args); ai++ {
			tag := fmt.Sprintf("a%d", ai)
			hlib.Emit("R", p.ID, tag, encArgs(p.Args[ai]))
			for si, st := range sts {
				hlib.Emit("G", p.ID, st.Name, tag, RunLua(srcs[si], p.Args[ai]))
			}
		}
		hlib.Out.Flush()
	}
	var keys []string
	for k := range h {
		keys = append(keys, k)
	}
	sort.Strings(keys)
	for _, k := range keys {
		hlib.Emit("H", strings.ReplaceAll(k, " ", "_"), strconv.Itoa(h[k]))
	}
}

// luafileMain: c01 luafile <mode> <n> <outfile> — n programs as Lua text (canonical rendering), separated by
// lines `--@@`; `args()` is defined by a first line so that the programs run in any harness that provides `emit`
// (used by C14 to compare the traces of the same programs across build tags).
func luafileMain(args []string) {
	if len(args) < 3 {
		usage()
	}
	mode := args[0]
	n, _ := strconv.Atoi(args[1])
	seed := hlib.Seed()
	var b strings.Builder
	for idx := 0; idx < n; idx++ {
		p := GenProgram(seed, mode, idx)
		src := Render(p.Stmts, Style{Name: "canon"})
		if idx > 0 {
			b.WriteString("--@@\n")
		}
		a := p.Args[0]
		fmt.Fprintf(&b, "function args() return %d, %d, %s end ", a[0].AsInt(), a[1].AsInt(), strconv.Quote(a[2].AsString()))
		b.WriteString(src)
	}
	if err := os.WriteFile(args[2], []byte(b.String()), 0o644); err != nil {
		fmt.Fprintln(os.Stderr, err)
		os.Exit(2)
	}
	hlib.Emit("wrote", strconv.Itoa(n), "programs to", args[2])
}

func showMain(args []string) {
	if len(args) < 2 {
		usage()
	}
	idx, _ := strconv.Atoi(args[1])
	p := GenProgram(hlib.Seed(), args[0], idx)
	style := "canon"
	if len(args) > 2 {
		style = args[2]
	}
	src := ""
	for _, st := range styles(hlib.Seed(), idx) {
		s := Render(p.Stmts, st)
		if st.Name == style {
			src = s
		}
	}
	fmt.Fprint(hlib.Out, src)
	hlib.Emit("P", p.ID, ProgSexp(p.Stmts))
	for ai, a := range p.Args {
		hlib.Emit("R", p.ID, fmt.Sprintf("a%d", ai), encArgs(a))
	}
	_ = os.Stdout
}
