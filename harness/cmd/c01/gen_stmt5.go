// gen_stmt5.go — surplus expressions, manual-determined evaluation order with visible side effects,
// string literals with line breaks (long-bracket spellings).
package main

// seDef defines `local function NAME(v, ...) emit("se", v) return v, ... end`: a call with a visible side effect.
func (g *G) seDef() (string, *S) {
	se := g.fresh("se")
	return se, LocalFn(se, []string{"v"}, true, Emit(Str("se"), Var("v")), Return(Var("v"), Vararg()))
}

// tSurplus: more expressions than variables.  Every expression is evaluated (a call or `...` that is not the last
// one adjusted to one value), the extra values are discarded, an error raised by an extra expression propagates.
// Only ONE expression of each list has a side effect (the manual does not fix the order inside a list).
func (g *G) tSurplus() []*S {
	g.sites["site:surplus-expressions"]++
	se, def := g.seDef()
	out := []*S{def}
	mr := g.fresh("mr")
	out = append(out, LocalFn(mr, nil, false, Emit(Str("mr called")), Return(Int(7), Int(8), Int(9))))
	x, y, t := g.fresh("x"), g.fresh("y"), g.fresh("t")
	out = append(out, Local([]string{x, y, t}, Int(0), Int(0), Tbl()))
	call := func(v *E) *E { return Call(Var(se), v) }
	for i := 0; i < 3+g.pick(4); i++ {
		a, b := g.fresh("a"), g.fresh("b")
		switch g.pick(12) {
		case 0:
			out = append(out, Local1(a, Int(1)), Emit(Var(a)))
			out[len(out)-2].Es = append(out[len(out)-2].Es, call(g.genInt(0)))
		case 1:
			out = append(out, Local([]string{a, b}, Int(1), Str("two"), call(Str("third"))), Emit(Var(a), Var(b)))
		case 2:
			// a surplus call that is not the last expression: adjusted to one value, still evaluated
			out = append(out, Local([]string{a}, Int(1), call(Int(2)), Int(3), Nil()), Emit(Var(a)))
		case 3:
			out = append(out, Assign([]*E{Var(x), Var(y)}, Int(int64(i)), Int(2), call(Int(3))), Emit(Var(x), Var(y)))
		case 4:
			// indexed targets
			out = append(out, Assign([]*E{Idx(Var(t), Int(1)), Dot(Var(t), "k")}, Str("one"), Str("kv"), Call(Var(mr))), Emit(Idx(Var(t), Int(1)), Dot(Var(t), "k"), Idx(Var(t), Int(2))))
		case 5:
			// a multi-result call as the only surplus expression
			out = append(out, Local([]string{a}, Int(1), Call(Var(mr))), Emit(Var(a)))
		case 6:
			// attribs
			s := Local([]string{a, b}, Int(1), Str("c"), call(Str("const extra")))
			s.Attribs[0] = "const"
			out = append(out, s, Emit(Var(a), Var(b)))
		case 7:
			s := &S{Op: "local", Names: []string{a}, Attribs: []string{"close"}, Es: []*E{Nil(), call(Str("close extra"))}}
			out = append(out, Do(s, Emit(Var(a))))
		case 8:
			// an erroring surplus expression: the error propagates, nothing is assigned
			g.feat("error")
			ev := g.fresh("ev")
			out = append(out, Local1(ev, Tbl()),
				Local([]string{"ok", "e"}, CallN("pcall", Fn(nil, false, Assign([]*E{Var(x)}, Int(100), CallN("error", Var(ev)))))),
				Emit(Var("ok"), Bin("eq", Var("e"), Var(ev)), Var(x)),
				Local([]string{"ok2", "e2"}, CallN("pcall", Fn(nil, false, Local([]string{"q"}, Int(1), Bin("add", Nil(), Int(1))), Return(Var("q"))))),
				Emit(Var("ok2"), Var("e2")))
		case 9:
			// `...` among the surplus expressions (the main chunk has no varargs; inside a vararg function it has)
			va := g.fresh("va")
			out = append(out, LocalFn(va, nil, true, Local([]string{"p"}, Int(1), Vararg(), call(Str("after dots"))), Local([]string{"q"}, Int(2), Vararg()), Return(Var("p"), Var("q"), CallN("select", Str("#"), Vararg()))),
				Emit(Call(Var(va))), Emit(Call(Var(va), Int(5), Int(6))))
			g.feat("vararg")
		case 10:
			// generic for with more than four expressions in its list
			g.feat("loop")
			it := g.fresh("it")
			out = append(out, LocalFn(it, []string{"s", "c"}, false, If(Bin("lt", Var("c"), Var("s")), []*S{Return(Bin("add", Var("c"), Int(1)))}, nil)),
				ForIn([]string{"i"}, []*E{Var(it), Int(int64(1 + g.pick(3))), Int(0), Nil(), call(Str("fifth")), Int(6)}, Emit(Str("loop"), Var("i"))))
		default:
			// no variable at all receives the value of a call statement's extra arguments — and a surplus
			// expression in a `local` without any use afterwards
			out = append(out, Local([]string{"_"}, Nil(), call(Str("unused"))))
		}
	}
	return []*S{Do(out...)}
}

// tEvalOrder: the evaluation orders the manual does fix, each made visible by side effects.
func (g *G) tEvalOrder() []*S {
	g.sites["site:eval-order"]++
	se, def := g.seDef()
	call := func(v *E) *E { return Call(Var(se), v) }
	out := []*S{def}
	r := g.fresh("r")
	switch g.pick(15) {
	case 0:
		// short circuit: the second operand is evaluated only when needed, after the first
		out = append(out, Local1(r, Bin("and", call(Nil()), call(Int(1)))), Emit(Var(r)),
			Assign1(Var(r), Bin("or", call(Int(1)), call(Int(2)))), Emit(Var(r)),
			Assign1(Var(r), Bin("or", call(False()), call(Int(3)))), Emit(Var(r)),
			Assign1(Var(r), Bin("and", call(Int(1)), Bin("or", call(Nil()), call(Str("z"))))), Emit(Var(r)))
	case 1:
		// if / elseif conditions in order, until the first true one
		out = append(out, If(call(False()), []*S{Emit(Str("b1"))}, []*S{If(call(g.genBool(0)), []*S{Emit(Str("b2"))}, []*S{If(call(True()), []*S{Emit(Str("b3"))}, []*S{Emit(Str("b4"))})})}))
	case 2:
		// while / repeat conditions are re-evaluated for every iteration
		g.feat("loop")
		i := g.fresh("i")
		out = append(out, Local1(i, Int(0)), While(call(Bin("lt", Var(i), Int(int64(1+g.pick(3))))), Assign1(Var(i), Bin("add", Var(i), Int(1)))),
			Repeat(call(Bin("ge", Var(i), Int(int64(3+g.pick(2))))), Assign1(Var(i), Bin("add", Var(i), Int(1)))), Emit(Var(i)))
	case 3:
		// the control expressions of a numeric for are evaluated once
		g.feat("loop")
		which := g.pick(3)
		e1, e2, e3 := Int(1), Int(int64(2+g.pick(3))), Int(1)
		switch which {
		case 0:
			e1 = call(Int(1))
		case 1:
			e2 = call(e2)
		default:
			e3 = call(Int(1))
		}
		out = append(out, ForNum("i", e1, e2, e3, Emit(Str("body"), Var("i"))))
	case 4:
		// o:m(...) evaluates o once
		g.feat("metamethod")
		o := g.fresh("o")
		out = append(out, Local1(o, Tbl(NV("n", g.genInt(0)), NV("m", Fn([]string{"self", "d"}, false, Return(Bin("add", Dot(Var("self"), "n"), Var("d"))))))),
			Emit(Meth(call(Var(o)), "m", Int(5))), Emit(Call(Dot(call(Var(o)), "m"), Var(o), Int(6))))
	case 5:
		// a.b.c = v: the __index of the prefix runs before the __newindex of the assignment
		g.feat("metamethod")
		inner, outer := g.fresh("inner"), g.fresh("outer")
		out = append(out, Local1(inner, CallN("setmetatable", Tbl(), Tbl(NV("__newindex", Fn([]string{"t", "k", "v"}, false, Emit(Str("__newindex"), Var("k"), Var("v")), CallS(CallN("rawset", Var("t"), Var("k"), Var("v")))))))),
			Local1(outer, CallN("setmetatable", Tbl(), Tbl(NV("__index", Fn([]string{"t", "k"}, false, Emit(Str("__index"), Var("k")), Return(Var(inner))))))),
			Assign1(Dot(Dot(Var(outer), "b"), "c"), g.genInt(0)), Emit(CallN("rawget", Var(inner), Str("c"))),
			Assign1(Idx(Idx(Var(outer), Int(1)), Str("d")), Str("dv")), Emit(CallN("rawget", Var(inner), Str("d")), CallN("rawget", Var(outer), Str("b"))))
	case 6:
		// associativity seen through metamethods: .. and ^ group to the right, - to the left
		g.feat("metamethod")
		mt := g.fresh("mt")
		mk := func(tag string) *E { return CallN("setmetatable", Tbl(NV("tag", Str(tag))), Var(mt)) }
		tagOf := func(v string) *E {
			return Bin("or", Bin("and", Bin("eq", CallN("type", Var(v)), Str("table")), CallN("rawget", Var(v), Str("tag"))), Var(v))
		}
		op := []struct{ mm, op string }{{"__concat", "concat"}, {"__pow", "pow"}, {"__sub", "sub"}, {"__idiv", "idiv"}}[g.pick(4)]
		out = append(out, Local1(mt, Tbl()),
			Assign1(Dot(Var(mt), op.mm), Fn([]string{"x", "y"}, false, Emit(Str(op.mm), tagOf("x"), tagOf("y")), Return(CallN("setmetatable", Tbl(NV("tag", Bin("concat", Bin("concat", Bin("concat", Str("("), CallN("tostring", tagOf("x"))), CallN("tostring", tagOf("y"))), Str(")")))), Var(mt))))),
			Local([]string{"pa", "pb", "pc"}, mk("a"), mk("b"), mk("c")),
			Emit(CallN("rawget", Bin(op.op, Bin(op.op, Var("pa"), Var("pb")), Var("pc")), Str("tag"))),
			Emit(CallN("rawget", Bin(op.op, Var("pa"), Bin(op.op, Var("pb"), Var("pc"))), Str("tag"))))
	case 7:
		// one field / one argument / one index with a side effect among pure ones
		t := g.fresh("t")
		out = append(out, Local1(t, Tbl(Pos(Int(1)), Pos(call(Int(2))), NV("k", Int(3)), Pos(Int(4)))), Emit(Idx(Var(t), Int(1)), Idx(Var(t), Int(2)), Idx(Var(t), Int(3)), Dot(Var(t), "k")),
			Emit(Idx(Var(t), call(Int(2)))), Emit(Idx(call(Var(t)), Int(3))), Emit(Str("arg"), call(Str("middle")), Int(3)),
			CallS(Call(call(Var("emit")), Str("callee evaluated first"))))
	case 8:
		// `local function f` sees itself, `local f = function` does not
		out = append(out, Do(Local1("f", Fn(nil, false, Return(CallN("type", Var("f"))))), LocalFn("g", nil, false, Return(CallN("type", Var("g")))), Emit(CallN("f"), CallN("g"))),
			// `local x = x` : the right-hand side still sees the outer variable
			Do(Local1("sx", Int(1)), Do(Local1("sx", Bin("add", Var("sx"), Int(10))), Emit(Var("sx"))), Emit(Var("sx"))))
	case 9:
		// two closures sharing one variable; a third one created later shares it too
		g.feat("closure")
		out = append(out, Local([]string{"get", "set", "get2"}),
			Do(Local1("shared", g.genInt(0)), Assign([]*E{Var("get"), Var("set")}, Fn(nil, false, Return(Var("shared"))), Fn([]string{"v"}, false, Assign1(Var("shared"), Var("v")))),
				Assign1(Var("get2"), Fn(nil, false, Assign1(Var("shared"), Bin("add", Var("shared"), Int(1))), Return(Var("shared"))))),
			Emit(CallN("get")), CallS(CallN("set", Int(41))), Emit(CallN("get2"), CallN("get")))
	case 10:
		// closures created in a loop that is left by break: each keeps its own variable
		g.feat("closure")
		g.feat("loop")
		fs := g.fresh("fs")
		n := int64(2 + g.pick(3))
		out = append(out, Local1(fs, Tbl()),
			ForNum("i", Int(1), Int(10), nil, Local1("j", Bin("mul", Var("i"), Int(7))),
				Assign1(Idx(Var(fs), Var("i")), Fn(nil, false, Assign1(Var("j"), Bin("add", Var("j"), Int(1))), Return(Var("i"), Var("j")))),
				If(Bin("ge", Var("i"), Int(n)), []*S{Break()}, nil), Emit(Str("after break test"), Var("i"))),
			ForNum("q", Un("len", Var(fs)), Int(1), Int(-1), Emit(Call(Idx(Var(fs), Var("q"))))), Emit(Call(Idx(Var(fs), Int(1)))))
	case 11:
		// varargs of the main chunk (none are passed)
		g.feat("vararg")
		if g.fnDepth == 0 {
			out = append(out, Emit(CallN("select", Str("#"), Vararg())), Local([]string{"m1", "m2"}, Vararg()), Emit(Var("m1"), Var("m2"), Tbl(Pos(Vararg()))), Emit(Str("dots"), Vararg()))
		} else {
			out = append(out, Emit(Str("not the main chunk")))
		}
	case 12:
		// arguments are evaluated before the call, the call before the use of its results; nested calls inside out
		out = append(out, Emit(call(call(call(Int(1))))), Local1(r, Bin("add", call(Int(2)), Int(1))), Emit(Var(r)),
			Emit(Un("neg", call(Int(3)))), Emit(Un("len", call(Str("abc")))), Emit(Un("not", call(Nil()))))
	case 13:
		// upvalues of upvalues: a closure three functions deep updates variables of both enclosing functions
		g.feat("closure")
		out = append(out, LocalFn("l1", []string{"a"}, false,
			LocalFn("l2", []string{"b"}, false, Return(Fn([]string{"c"}, false, Assign([]*E{Var("a"), Var("b")}, Bin("add", Var("a"), Int(1)), Bin("add", Var("b"), Var("c"))), Return(Var("a"), Var("b"), Var("c"))))),
			Return(CallN("l2", Bin("mul", Var("a"), Int(10))), CallN("l2", Int(0)))),
			Local([]string{"k1", "k2"}, CallN("l1", g.genInt(0))),
			Emit(CallN("k1", Int(5))), Emit(CallN("k2", Int(7))), Emit(CallN("k1", Int(1))))
	default:
		// a statement's expression is evaluated before its assignment: the function sees the old value
		x := g.fresh("x")
		out = append(out, Local1(x, Int(1)), LocalFn("old", nil, false, Emit(Str("old value"), Var(x)), Return(Bin("add", Var(x), Int(1)))),
			Assign1(Var(x), CallN("old")), Assign1(Var(x), CallN("old")), Emit(Var(x)))
	}
	return []*S{Do(out...)}
}

// tLongString: string literals that contain line breaks, also spelled as long brackets by the non-canonical
// renderings (the value is the string itself: a first line break right after the opening bracket is skipped,
// all others are part of the string)
func (g *G) tLongString() []*S {
	g.sites["site:long-string"]++
	var out []*S
	var names []*E
	for i := 0; i < 1+g.pick(3); i++ {
		lead := []string{"", "\n", "\n\n"}[g.pick(3)]
		body := g.pickS([]string{"foo", "a\nb", "x]]y", "]=]", "tail\n", "two\n\nblank", "", "]", "[[nested]]", "q\"uote'"})
		n := g.fresh("ls")
		out = append(out, Local1(n, Str(lead+body)))
		names = append(names, Var(n))
		out = append(out, Emit(Var(n), Un("len", Var(n)), Call(Dot(Var("string"), "byte"), Var(n), Int(1), Int(3))))
	}
	return out
}
