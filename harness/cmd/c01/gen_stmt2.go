// gen_stmt2.go — statement templates, part 2: varargs, goto, errors, metatables, tbc.
package main

func (g *G) tVarargFn() []*S {
	g.feat("vararg")
	f := g.fresh("va")
	var body []*S
	sv := g.vararg
	g.vararg = true
	switch g.pick(4) {
	case 0:
		body = []*S{Emit(CallN("select", Str("#"), Vararg())), Return(Vararg())}
	case 1:
		// `...` in the middle is truncated, at the end expanded
		body = []*S{Local1("t", Tbl(Pos(Vararg()), Pos(Str("mid")), Pos(Vararg()))), Emit(Idx(Var("t"), Int(1)), Idx(Var("t"), Int(2)), Idx(Var("t"), Int(3)), Idx(Var("t"), Int(4))), Return(CallN("select", Str("#"), Vararg()), Vararg())}
	case 2:
		body = []*S{Local1("p", Tbl(NV("n", CallN("select", Str("#"), Vararg())), Pos(Vararg()))), Emit(Dot(Var("p"), "n"), Idx(Var("p"), Int(1)), Idx(Var("p"), Int(2)), Idx(Var("p"), Int(3))),
			Local([]string{"a", "b"}, Vararg()), Emit(Var("a"), Var("b")), Return(CallN("select", Int(int64(-1-g.pick(2))), Str("pad"), Str("pad2"), Vararg()))}
	default:
		body = []*S{Local1("n", CallN("select", Str("#"), Vararg())), If(Bin("gt", Var("n"), Int(1)), []*S{Return(Call(Var(f), CallN("select", Int(2), Vararg())))}, nil), Return(Var("n"), Par(Vararg()))}
	}
	g.vararg = sv
	out := []*S{LocalFn(f, nil, true, body...)}
	for i := 0; i < 1+g.pick(3); i++ {
		var args []*E
		for j := g.pick(4); j > 0; j-- {
			args = append(args, g.genKind(g.pickK([]Kind{KInt, KStr, KNil, KBool}), 1))
		}
		out = append(out, Emit(Call(Var(f), args...)))
	}
	g.declare(&VarInfo{Name: f, Kind: KFunc, Fn: &FnInfo{Vararg: true, Rets: []Kind{KAny}}})
	return out
}

func (g *G) tGoto() []*S {
	g.feat("goto")
	return g.nested(func() []*S {
		switch g.pick(4) {
		case 0:
			// continue-style
			i, l := g.fresh("i"), g.fresh("cont")
			g.push()
			defer g.pop()
			g.declare(&VarInfo{Name: i, Kind: KInt})
			body := []*S{If(Bin("eq", Bin("mod", Var(i), Int(int64(2+g.pick(2)))), Int(0)), []*S{Goto(l)}, nil)}
			body = append(body, g.loopBody(1+g.pick(2))...)
			body = append(body, Emit(Str("it"), Var(i)), Label(l))
			return []*S{ForNum(i, Int(1), Int(int64(3+g.pick(4))), nil, body...)}
		case 1:
			// backward jump forming a loop
			i, l := g.fresh("i"), g.fresh("top")
			return []*S{Do(Local1(i, Int(0)), Label(l), Assign1(Var(i), Bin("add", Var(i), Int(1))), Emit(Var(i)),
				If(Bin("lt", Var(i), Int(int64(2+g.pick(3)))), []*S{Goto(l)}, nil))}
		case 2:
			// leaving nested loops
			i, j, l := g.fresh("i"), g.fresh("j"), g.fresh("out")
			g.feat("loop")
			return []*S{Do(ForNum(i, Int(1), Int(3), nil, ForNum(j, Int(1), Int(3), nil, Emit(Var(i), Var(j)),
				If(Bin("eq", Bin("mul", Var(i), Var(j)), Int(int64(2+g.pick(4)))), []*S{Goto(l)}, nil))), Label(l), Emit(Str("out")))}
		default:
			// forward jump over statements, label followed by more statements in an enclosing block
			l := g.fresh("skip")
			return []*S{Do(If(g.genBool(2), []*S{Goto(l)}, nil), Emit(Str("not skipped")), Label(l), Emit(Str("after")))}
		}
	})
}

// ---- errors ------------------------------------------------------------------------

type badOp struct {
	cls string
	mk  func(g *G) []*S // statements of the protected function's body (the last one raises)
}

func (g *G) badOps() []badOp {
	tv := func() *E { // a table-valued operand
		if v := g.pickVar(g.ofKind(KSeq)); v != nil && g.chance(50) {
			return g.use(v)
		}
		return Tbl()
	}
	sv := func() *E { return Str(g.pickS([]string{"abc", "x", ""})) }
	ar := func() string { return g.pickS([]string{"add", "sub", "mul", "div", "mod", "pow", "idiv"}) }
	return []badOp{
		{"arith", func(g *G) []*S { return []*S{Return(Bin(ar(), g.genInt(1), Nil()))} }},
		{"arith", func(g *G) []*S { return []*S{Return(Bin(ar(), tv(), g.genInt(1)))} }},
		{"arith", func(g *G) []*S { return []*S{Return(Bin(ar(), sv(), g.genInt(1)))} }},
		{"arith", func(g *G) []*S { return []*S{Local1("y", g.genInt(0)), Local1("r", Bin(ar(), Var("y"), sv())), Return(Var("r"))} }},
		{"arith", func(g *G) []*S { return []*S{Return(Bin(ar(), g.genBool(0), g.genFloat(0)))} }},
		{"arith", func(g *G) []*S { return []*S{Return(Un("neg", tv()))} }},
		{"arith", func(g *G) []*S { return []*S{Local1("u", Nil()), Return(Bin("add", Var("u"), Int(1)))} }},
		{"concat", func(g *G) []*S { return []*S{Return(Bin("concat", g.genStr(1), Nil()))} }},
		{"concat", func(g *G) []*S { return []*S{Return(Bin("concat", tv(), g.genStr(1)))} }},
		{"concat", func(g *G) []*S { return []*S{Return(Bin("concat", g.genBool(0), g.genInt(0)))} }},
		{"call", func(g *G) []*S { return []*S{Return(CallN("undefinedfn", g.genInt(0)))} }},
		{"call", func(g *G) []*S { return []*S{Local1("u", g.genInt(0)), Return(Call(Var("u")))} }},
		{"call", func(g *G) []*S { return []*S{CallS(Call(Par(sv()))), Return()} }},
		{"call", func(g *G) []*S { return []*S{Return(Call(tv(), Int(1)))} }},
		{"call", func(g *G) []*S { return []*S{Return(Meth(tv(), "nomethod"))} }},
		{"index", func(g *G) []*S { return []*S{Local1("u", Nil()), Return(Dot(Var("u"), "x"))} }},
		{"index", func(g *G) []*S { return []*S{Return(Idx(Par(g.genInt(0)), Int(1)))} }},
		{"index", func(g *G) []*S { return []*S{Return(Dot(Dot(tv(), "a"), "b"))} }},
		{"index", func(g *G) []*S { return []*S{Local1("u", g.genBool(0)), Assign1(Dot(Var("u"), "x"), Int(1))} }},
		{"index", func(g *G) []*S { return []*S{Assign1(Dot(Var("undefinedglobal"), "x"), Int(1))} }},
		{"compare", func(g *G) []*S { return []*S{Return(Bin(g.pickS([]string{"lt", "le", "gt", "ge"}), g.genInt(1), g.genStr(0)))} }},
		{"compare", func(g *G) []*S { return []*S{Return(Bin(g.pickS([]string{"lt", "le", "gt", "ge"}), tv(), tv()))} }},
		{"compare", func(g *G) []*S { return []*S{Return(Bin("lt", Nil(), g.genInt(0)))} }},
		{"compare", func(g *G) []*S { return []*S{Return(Bin("le", g.genBool(0), g.genBool(0)))} }},
		{"length", func(g *G) []*S { return []*S{Return(Un("len", g.genInt(0)))} }},
		{"length", func(g *G) []*S { return []*S{Return(Un("len", Nil()))} }},
		{"noint", func(g *G) []*S { return []*S{Return(Bin(g.pickS([]string{"band", "bor", "bxor", "shl", "shr"}), Flt(1.5), g.genInt(0)))} }},
		{"noint", func(g *G) []*S { return []*S{Return(Un("bnot", Flt(2.5)))} }},
		{"noint", func(g *G) []*S { return []*S{Return(Bin("bor", g.genInt(0), Bin("div", Int(1), Int(0))))} }},
		{"bitwise", func(g *G) []*S { return []*S{Return(Bin("band", tv(), Int(1)))} }},
		{"bitwise", func(g *G) []*S { return []*S{Return(Un("bnot", Nil()))} }},
		{"bitwise", func(g *G) []*S { return []*S{Return(Bin("shl", Int(1), sv()))} }},
		{"divzero", func(g *G) []*S { return []*S{Return(Bin("idiv", g.genInt(1), Int(0)))} }},
		{"modzero", func(g *G) []*S { return []*S{Return(Bin("mod", g.genInt(1), Int(0)))} }},
		{"indexnil", func(g *G) []*S { return []*S{Local1("t", Tbl()), Assign1(Idx(Var("t"), Nil()), Int(1))} }},
		{"indexnan", func(g *G) []*S { return []*S{Local1("t", Tbl()), Assign1(Idx(Var("t"), Bin("div", Int(0), Int(0))), Int(1))} }},
		{"indexnil", func(g *G) []*S { return []*S{Return(Tbl(KV(Nil(), Int(1))))} }},
		{"forinit", func(g *G) []*S { return []*S{ForNum("i", tv(), Int(2), nil, Emit(Var("i")))} }},
		{"forlimit", func(g *G) []*S { return []*S{ForNum("i", Int(1), Nil(), nil, Emit(Var("i")))} }},
		{"forstep0", func(g *G) []*S { return []*S{ForNum("i", Int(1), Int(2), Int(0), Emit(Var("i")))} }},
		{"call", func(g *G) []*S { return []*S{ForIn([]string{"k"}, []*E{g.genInt(0)}, Emit(Var("k")))} }},
		// (not in tail position: after a tail call to a host function there is no Lua frame left to take the line from)
		{"badarg", func(g *G) []*S { return []*S{Local1("r", CallN("setmetatable", g.genInt(0), Tbl())), Return(Var("r"))} }},
		{"badarg", func(g *G) []*S { return []*S{Local1("r", CallN("ipairs")), Return(Var("r"))} }},
		{"badarg", func(g *G) []*S { return []*S{CallS(CallN("rawset", Int(1), Int(2), Int(3))), Return()} }},
		{"badarg", func(g *G) []*S { return []*S{Local1("r", CallN("select", Int(0), Int(1))), Return(Var("r"))} }},
		{"protected", func(g *G) []*S {
			return []*S{Local1("p", CallN("setmetatable", Tbl(), Tbl(NV("__metatable", Str("locked"))))), Emit(CallN("getmetatable", Var("p"))), CallS(CallN("setmetatable", Var("p"), Tbl())), Return()}
		}},
		{"assert", func(g *G) []*S {
			if g.chance(50) {
				return []*S{CallS(CallN("assert", Bool(false), Int(7))), Return()}
			}
			return []*S{CallS(CallN("assert", Bool(false))), Return()}
		}},
		{"assert", func(g *G) []*S { return []*S{CallS(CallN("assert", Nil(), Tbl())), Return()} }},
		{"assert", func(g *G) []*S {
			if g.chance(40) {
				return []*S{Emit(CallN("assert", g.genInt(0), Str("unused"))), CallS(CallN("assert", Nil(), Bool(true))), Return()}
			}
			return []*S{CallS(CallN("assert", Bool(false), Str("amsg"))), Return()}
		}},
	}
}

// a deliberate type error under pcall: class and `chunk:line:` prefix are observed
func (g *G) tTypeError() []*S {
	g.feat("error")
	ops := g.badOps()
	op := ops[g.pick(len(ops))]
	g.sites[op.cls]++
	var pre []*S
	body := g.funcBody(nil, nil, false, func() []*S {
		if g.chance(30) {
			pre = g.stmts(1)
		}
		return append(pre, op.mk(g)...)
	})
	ok, e := g.fresh("ok"), g.fresh("e")
	g.declare(&VarInfo{Name: ok, Kind: KBool})
	g.declare(&VarInfo{Name: e, Kind: KAny})
	return []*S{Local([]string{ok, e}, CallN("pcall", Fn(nil, false, body...))), Emit(Var(ok), Var(e))}
}

// error(v [, level]) with every kind of value, caught by pcall; identity of table values is observed
func (g *G) tErrorValue() []*S {
	g.feat("error")
	ok, e := g.fresh("ok"), g.fresh("e")
	ev := g.fresh("ev")
	g.sites["error()"]++
	switch g.pick(6) {
	case 0:
		// table by identity
		return []*S{Local1(ev, Tbl(NV("code", g.genInt(0)))),
			Local([]string{ok, e}, CallN("pcall", Fn(nil, false, Emit(Str("before")), CallS(CallN("error", Var(ev))), Emit(Str("unreachable"))))),
			Emit(Var(ok), Bin("eq", Var(e), Var(ev)), CallN("rawequal", Var(e), Var(ev)), Dot(Var(e), "code"))}
	case 1:
		// string at level 1 (default), explicit 1, 0 (no position), 2 (caller)
		lvl := g.pick(4)
		args := []*E{g.genStr(1)}
		if lvl == 1 {
			args = append(args, Int(1))
		} else if lvl == 2 {
			args = append(args, Int(0))
		} else if lvl == 3 {
			args = append(args, Int(2))
		}
		thrower := g.fresh("th")
		return []*S{LocalFn(thrower, []string{"m"}, false, CallS(CallN("error", append([]*E{Var("m")}, args[1:]...)...))),
			Local([]string{ok, e}, CallN("pcall", Fn(nil, false, CallS(Call(Var(thrower), args[0])), Emit(Str("unreachable"))))),
			Emit(Var(ok), Var(e))}
	case 2:
		// non-string scalars are never decorated
		v := g.genKind(g.pickK([]Kind{KInt, KFloat, KBool, KNil}), 1)
		return []*S{Local([]string{ok, e}, CallN("pcall", Fn(nil, false, CallS(CallN("error", v, Int(int64(g.pick(3))))), Emit(Str("unreachable"))))), Emit(Var(ok), Var(e), CallN("type", Var(e)))}
	case 3:
		// pcall passes arguments and returns all results
		return []*S{Emit(CallN("pcall", Fn([]string{"a", "b"}, true, Return(Var("b"), Var("a"), Vararg())), g.genInt(0), g.genStr(0), g.genInt(0), Nil()))}
	case 4:
		// error with a function / with no argument
		return []*S{Local([]string{ok, e}, CallN("pcall", Var("error"))), Emit(Var(ok), Var(e)),
			Local([]string{ok + "b", e + "b"}, CallN("pcall", Fn(nil, false, CallS(CallN("error", Var("type")))))), Emit(Var(ok+"b"), Bin("eq", Var(e+"b"), Var("type")))}
	default:
		// rethrow: the value travels through two protected calls unchanged
		return []*S{Local1(ev, Tbl()),
			Local([]string{ok, e}, CallN("pcall", Fn(nil, false,
				Local([]string{"ok2", "e2"}, CallN("pcall", Var("error"), Var(ev))),
				Emit(Str("inner"), Var("ok2"), Bin("eq", Var("e2"), Var(ev))),
				CallS(CallN("error", Var("e2"), Int(0)))))),
			Emit(Var(ok), Bin("eq", Var(e), Var(ev)))}
	}
}

func (g *G) tXpcall() []*S {
	g.feat("error")
	g.sites["xpcall"]++
	ok, e, h := g.fresh("ok"), g.fresh("e"), g.fresh("h")
	ev := g.fresh("ev")
	// the handler returns two values: only the first one becomes the error value
	handler := LocalFn(h, []string{"m"}, false, Emit(Str("handler"), Var("m")), Return(Tbl(NV("wrapped", Var("m"))), Str("second result")))
	ops := g.badOps()
	op := ops[g.pick(len(ops))]
	var body []*S
	switch g.pick(3) {
	case 0:
		body = g.funcBody(nil, nil, false, func() []*S { return op.mk(g) })
		g.sites[op.cls]++
	case 1:
		body = []*S{Emit(Str("in")), CallS(CallN("error", Var(ev))), Emit(Str("unreachable"))}
	default:
		// no error: handler not called, results passed through
		body = []*S{Return(g.genInt(1), g.genStr(1))}
	}
	return []*S{handler, Local1(ev, Tbl()),
		Local([]string{ok, e, e + "x"}, CallN("xpcall", Fn(nil, true, body...), Var(h), g.genInt(0))),
		Emit(Var(ok), CallN("type", Var(e)), Bin("and", Bin("eq", CallN("type", Var(e)), Str("table")), Bin("eq", Dot(Var(e), "wrapped"), Var(ev))), Var(e + "x")),
		If(Bin("eq", CallN("type", Var(e)), Str("table")), []*S{Emit(Dot(Var(e), "wrapped"))}, nil)}
}

// nestings of pcall / xpcall: only the nearest protected call sees the error; afterwards state is consistent
func (g *G) tNestedProtect() []*S {
	g.feat("error")
	g.feat("closure")
	g.sites["nested"]++
	cnt, t := g.fresh("cnt"), g.fresh("st")
	ok, e := g.fresh("ok"), g.fresh("e")
	ops := g.badOps()
	op := ops[g.pick(len(ops))]
	g.sites[op.cls]++
	inner := g.funcBody(nil, nil, false, func() []*S {
		return append([]*S{Assign1(Var(cnt), Bin("add", Var(cnt), Int(1))), Assign1(Idx(Var(t), Bin("add", Un("len", Var(t)), Int(1))), Str("inner"))}, op.mk(g)...)
	})
	prot := g.pickS([]string{"pcall", "xpcall"})
	innerCall := CallN("pcall", Fn(nil, false, inner...))
	if prot == "xpcall" {
		innerCall = CallN("xpcall", Fn(nil, false, inner...), Fn([]string{"m"}, false, Emit(Str("h1"), Var("m")), Return(Str("handled"))))
	}
	outerBody := []*S{
		Local([]string{"iok", "ie"}, innerCall),
		Emit(Str("inner result"), Var("iok"), Var("ie")),
		Assign1(Var(cnt), Bin("add", Var(cnt), Int(10))),
	}
	if g.chance(50) {
		outerBody = append(outerBody, CallS(CallN("error", Str("outer"), Int(int64(g.pick(2))))))
	} else {
		outerBody = append(outerBody, Return(Str("fine")))
	}
	return []*S{Local([]string{cnt, t}, Int(0), Tbl()),
		Local([]string{ok, e}, CallN("pcall", Fn(nil, false, outerBody...))),
		Emit(Var(ok), Var(e), Var(cnt), Un("len", Var(t))),
		// follow-up: the state still works
		Assign1(Idx(Var(t), Bin("add", Un("len", Var(t)), Int(1))), Str("after")),
		Emit(Call(Dot(Var("table"), "concat"), Var(t), Str(",")), CallN("pcall", Fn(nil, false, Return(Var(cnt)))))}
}

// ---- metatables -------------------------------------------------------------------

var binMetas = []struct{ mm, op string }{
	{"__add", "add"}, {"__sub", "sub"}, {"__mul", "mul"}, {"__div", "div"}, {"__mod", "mod"}, {"__pow", "pow"}, {"__idiv", "idiv"},
	{"__band", "band"}, {"__bor", "bor"}, {"__bxor", "bxor"}, {"__shl", "shl"}, {"__shr", "shr"}, {"__concat", "concat"},
}

func (g *G) tMeta() []*S {
	g.feat("metamethod")
	mt, a, b := g.fresh("mt"), g.fresh("oa"), g.fresh("ob")
	out := []*S{Local1(mt, Tbl())}
	mk := func(tag int64) *E { return CallN("setmetatable", Tbl(NV("tag", Int(tag))), Var(mt)) }
	tagOf := func(v string) *E {
		return Bin("or", Bin("and", Bin("eq", CallN("type", Var(v)), Str("table")), CallN("rawget", Var(v), Str("tag"))), Var(v))
	}
	switch g.pick(7) {
	case 0, 1:
		// binary operator metamethods: object op object, object op scalar, scalar op object
		m := binMetas[g.pick(len(binMetas))]
		out = append(out, Assign1(Dot(Var(mt), m.mm), Fn([]string{"x", "y"}, false, Emit(Str(m.mm), tagOf("x"), tagOf("y")), Return(g.genInt(1), Str("extra")))),
			Local([]string{a, b}, mk(1), mk(2)))
		scalar := g.genInt(0)
		if m.mm == "__concat" {
			scalar = g.genStr(0)
		}
		for _, pair := range [][2]*E{{Var(a), Var(b)}, {Var(a), scalar}, {scalar.Clone(), Var(b)}} {
			if g.chance(70) {
				out = append(out, Emit(Bin(m.op, pair[0], pair[1])))
			}
		}
		// operands with different metatables: the first operand's metamethod is the one used
		if g.chance(60) {
			mt2, c := g.fresh("mt"), g.fresh("oc")
			out = append(out, Local1(mt2, Tbl(NV(m.mm, Fn([]string{"x", "y"}, false, Emit(Str("second class"), tagOf("x"), tagOf("y")), Return(Str("from second")))))),
				Local1(c, CallN("setmetatable", Tbl(NV("tag", Int(3))), Var(mt2))),
				Emit(Bin(m.op, Var(a), Var(c))), Emit(Bin(m.op, Var(c), Var(a))))
		}
		// left-nested chain: the result of the metamethod feeds the raw operation
		if m.op == "add" || m.op == "mul" || m.op == "bor" {
			out = append(out, Emit(Bin(m.op, Bin(m.op, Var(a), Var(b)), g.genInt(0))))
		}
	case 2:
		// unary: __unm __bnot __len
		m := []struct{ mm, op string }{{"__unm", "neg"}, {"__bnot", "bnot"}, {"__len", "len"}}[g.pick(3)]
		out = append(out, Assign1(Dot(Var(mt), m.mm), Fn([]string{"x", "y"}, false, Emit(Str(m.mm), tagOf("x")), Return(g.genInt(1)))),
			Local1(a, mk(1)), Emit(Un(m.op, Var(a))))
	case 3:
		// comparison: __lt __le __eq (results converted to booleans; __eq only for two different tables)
		out = append(out,
			Assign1(Dot(Var(mt), "__lt"), Fn([]string{"x", "y"}, false, Emit(Str("__lt"), tagOf("x"), tagOf("y")), Return(g.pickE([]*E{Int(1), Nil(), True(), False(), Str("")})))),
			Assign1(Dot(Var(mt), "__le"), Fn([]string{"x", "y"}, false, Emit(Str("__le"), tagOf("x"), tagOf("y")), Return(g.pickE([]*E{Int(0), Nil(), True(), False()})))),
			Assign1(Dot(Var(mt), "__eq"), Fn([]string{"x", "y"}, false, Emit(Str("__eq"), tagOf("x"), tagOf("y")), Return(g.pickE([]*E{Int(0), Nil(), True(), False()})))),
			Local([]string{a, b}, mk(1), mk(2)))
		for _, op := range []string{"lt", "le", "gt", "ge", "eq", "ne"} {
			if g.chance(60) {
				out = append(out, Emit(Str(op), Bin(op, Var(a), Var(b))))
			}
		}
		out = append(out, Emit(Bin("eq", Var(a), Var(a)), Bin("eq", Var(a), Int(1)), Bin("lt", Var(a), Int(5)), Bin("ge", Int(5), Var(b))))
		// a type that defines __lt only: `>` is `<` with the operands swapped and still works
		if g.chance(60) {
			lo := g.fresh("lo")
			out = append(out, Local1(lo, Tbl(NV("__lt", Fn([]string{"x", "y"}, false, Emit(Str("only __lt"), tagOf("x"), tagOf("y")), Return(Bin("lt", CallN("rawget", Var("x"), Str("tag")), CallN("rawget", Var("y"), Str("tag")))))))),
				Local([]string{"p1", "p2"}, CallN("setmetatable", Tbl(NV("tag", Int(1))), Var(lo)), CallN("setmetatable", Tbl(NV("tag", Int(2))), Var(lo))),
				Emit(Bin("gt", Var("p1"), Var("p2"))), Emit(Bin("gt", Var("p2"), Var("p1"))), Emit(Bin("lt", Var("p1"), Var("p2"))))
		}
	case 4:
		// __index / __newindex functions
		out = append(out,
			Assign1(Dot(Var(mt), "__index"), Fn([]string{"t", "k"}, false, Emit(Str("__index"), Var("k")), Return(Bin("concat", Str("dflt:"), CallN("tostring", Var("k")))))),
			Assign1(Dot(Var(mt), "__newindex"), Fn([]string{"t", "k", "v"}, false, Emit(Str("__newindex"), Var("k"), Var("v")), CallS(CallN("rawset", Var("t"), Var("k"), Bin("mul", Var("v"), Int(2)))))),
			Local1(a, mk(1)),
			Emit(Dot(Var(a), "tag"), Dot(Var(a), "missing"), Idx(Var(a), Int(7))),
			Assign1(Dot(Var(a), "fresh"), Int(21)), Assign1(Dot(Var(a), "fresh"), Int(5)), Assign1(Dot(Var(a), "tag"), Int(9)),
			Emit(Dot(Var(a), "fresh"), Dot(Var(a), "tag"), CallN("rawget", Var(a), Str("missing"))))
	case 5:
		// __call, including a callable object as __call
		out = append(out,
			Assign1(Dot(Var(mt), "__call"), Fn([]string{"self"}, true, Emit(Str("__call"), tagOf("self"), CallN("select", Str("#"), Vararg())), Return(Vararg()))),
			Local1(a, mk(1)),
			Emit(Call(Var(a), g.genInt(0), g.genStr(0))), Emit(Call(Var(a))), Emit(CallN("pcall", Var(a), Int(1), Int(2))))
		g.feat("vararg")
	default:
		// __tostring, __metatable, __concat with numbers, __len via rawlen
		out = append(out,
			Assign1(Dot(Var(mt), "__tostring"), Fn([]string{"x"}, false, Return(Bin("concat", Str("obj#"), Dot(Var("x"), "tag"))))),
			Assign1(Dot(Var(mt), "__metatable"), Str("private")),
			Assign1(Dot(Var(mt), "__len"), Fn(nil, false, Return(Int(42)))),
			Local1(a, mk(3)),
			Emit(CallN("tostring", Var(a)), CallN("getmetatable", Var(a)), Un("len", Var(a)), CallN("rawlen", Var(a))),
			Emit(CallN("pcall", Fn(nil, false, CallS(CallN("setmetatable", Var(a), Tbl())), Return(Int(1))))))
	}
	return out
}

// class pattern: methods through __index = table, method definition and call sugar
func (g *G) tMethod() []*S {
	g.feat("metamethod")
	cls, o := g.fresh("Cls"), g.fresh("o")
	return []*S{Local1(cls, Tbl()), Assign1(Dot(Var(cls), "__index"), Var(cls)),
		Assign1(Dot(Var(cls), "new"), Fn([]string{"self", "n"}, false, Return(CallN("setmetatable", Tbl(NV("n", Var("n"))), Var("self"))))),
		Assign1(Dot(Var(cls), "add"), Fn([]string{"self", "d"}, false, Assign1(Dot(Var("self"), "n"), Bin("add", Dot(Var("self"), "n"), Var("d"))), Return(Var("self")))),
		Assign1(Dot(Var(cls), "get"), Fn([]string{"self"}, true, Return(Dot(Var("self"), "n"), Vararg()))),
		Local1(o, Meth(Var(cls), "new", g.genInt(1))),
		Emit(Meth(Meth(Meth(Var(o), "add", g.genInt(0)), "add", Int(1)), "get", Str("x"))),
		Emit(Call(Dot(Var(o), "get"), Var(o)), Bin("eq", Dot(Var(o), "get"), Dot(Var(cls), "get")), CallN("rawget", Var(o), Str("get")))}
}

func (g *G) tIndexChain() []*S {
	g.feat("metamethod")
	a, b, c := g.fresh("base"), g.fresh("mid"), g.fresh("leaf")
	if g.chance(35) {
		return []*S{Local1(a, Tbl(NV("x", g.genInt(0)), NV("shared", Str("base")))),
			Local1(b, CallN("setmetatable", Tbl(NV("y", g.genInt(0)), NV("shared", Str("mid"))), Tbl(NV("__index", Var(a))))),
			Local1(c, CallN("setmetatable", Tbl(), Tbl(NV("__index", Var(b)), NV("__newindex", Var(a))))),
			Emit(Dot(Var(c), "x"), Dot(Var(c), "y"), Dot(Var(c), "shared"), Dot(Var(c), "none")),
			Assign1(Dot(Var(c), "z"), Int(5)),
			Emit(CallN("rawget", Var(c), Str("z")), Dot(Var(a), "z"), Dot(Var(c), "z"))}
	}
	// chains of tables that END IN A FUNCTION observing its first argument: the handler must receive the table
	// reached at that stage of the chain (the one whose lookup failed), not the object originally indexed —
	// for __index and for __newindex, with 1 to 3 table steps before the function
	steps := 1 + g.pick(3)
	names := []string{}
	for i := 0; i <= steps; i++ {
		names = append(names, g.fresh("lv"))
	}
	// names[steps] is the last table; its metatable holds the functions
	last := names[steps]
	out := []*S{Local1(last, CallN("setmetatable", Tbl(NV("kind", Str("L"+last)), NV("own"+last, g.genInt(0))), Tbl(
		NV("__index", Fn([]string{"t", "k"}, false,
			Emit(Str("__index fn"), CallN("rawget", Var("t"), Str("kind")), Var("k"), Bin("eq", Var("t"), Var(last))),
			Return(Bin("concat", Bin("concat", CallN("rawget", Var("t"), Str("kind")), Str(":")), CallN("tostring", Var("k")))))),
		NV("__newindex", Fn([]string{"t", "k", "v"}, false,
			Emit(Str("__newindex fn"), CallN("rawget", Var("t"), Str("kind")), Var("k"), Var("v"), Bin("eq", Var("t"), Var(last))),
			CallS(CallN("rawset", Var("t"), Var("k"), Var("v"))))))))}
	for i := steps - 1; i >= 0; i-- {
		out = append(out, Local1(names[i], CallN("setmetatable", Tbl(NV("kind", Str("L"+names[i]))), Tbl(NV("__index", Var(names[i+1])), NV("__newindex", Var(names[i+1]))))))
	}
	obj := names[0]
	key := g.pickS([]string{"missing", "zzz", "name"})
	out = append(out,
		Emit(Dot(Var(obj), "kind"), Dot(Var(obj), "own"+last)),
		Emit(Dot(Var(obj), key), Idx(Var(obj), g.genInt(0))),
		Emit(Dot(Var(names[steps/2]), key)),
		Assign1(Dot(Var(obj), "fresh"), g.genInt(0)),
		Emit(CallN("rawget", Var(obj), Str("fresh")), CallN("rawget", Var(last), Str("fresh")), Dot(Var(obj), "fresh")),
		Assign1(Dot(Var(obj), "kind"), Str("changed")),
		Emit(CallN("rawget", Var(obj), Str("kind")), CallN("rawget", Var(last), Str("kind"))),
		// a handler directly on the object's own metatable receives the object itself
		Local1(c, CallN("setmetatable", Tbl(), Tbl(NV("__index", Fn([]string{"t", "k"}, false, Return(Bin("eq", Var("t"), Var(c)))))))),
		Emit(Dot(Var(c), "anything")))
	_ = a
	_ = b
	return out
}

func (g *G) tTbc() []*S {
	g.feat("metamethod")
	mt := g.fresh("cmt")
	mk := func(tag string) *E { return CallN("setmetatable", Tbl(NV("tag", Str(tag))), Var(mt)) }
	def := Local1(mt, Tbl(NV("__close", Fn([]string{"o", "e"}, false, Emit(Str("close"), Dot(Var("o"), "tag"), Bin("eq", Var("e"), Nil()), Var("e"))))))
	a, b := g.fresh("ca"), g.fresh("cb")
	switch g.pick(6) {
	case 0:
		// normal exit: reverse order
		return []*S{def, Do(LocalAttr(a, "close", mk("a")), LocalAttr(b, "close", mk("b")), LocalAttr("cn", "close", Nil()), Emit(Str("body"))), Emit(Str("after"))}
	case 1:
		// break out of a loop
		g.feat("loop")
		return []*S{def, ForNum("i", Int(1), Int(3), nil, LocalAttr(a, "close", mk("loop")), Emit(Var("i")), If(Bin("eq", Var("i"), Int(2)), []*S{Break()}, nil))}
	case 2:
		// return: values are computed before closing
		f := g.fresh("f")
		return []*S{def, LocalFn(f, nil, false, LocalAttr(a, "close", mk("ret")), Return(Dot(Var(a), "tag"), Int(1))), Emit(Call(Var(f)))}
	case 3:
		// error: the handler receives the error value; the error continues to pcall
		g.feat("error")
		return []*S{def, Emit(CallN("pcall", Fn(nil, false, LocalAttr(a, "close", mk("err")), CallS(CallN("error", Str("E1"), Int(0))))))}
	default:
		return g.closeRaisesDuringReturn()
	}
}

// the __close handler raises while the function executes `return v1, v2, …` under pcall / xpcall: the protected
// call returns exactly (false, error value) — the values already computed for the return are gone; the NUMBER of
// results is observed
func (g *G) closeRaisesDuringReturn() []*S {
	g.feat("error")
	g.feat("metamethod")
	g.sites["site:close-raises-during-return"]++
	ev, f := g.fresh("ev"), g.fresh("f")
	var rets []*E
	for i := 0; i < 1+g.pick(4); i++ {
		rets = append(rets, g.genKind(g.pickK([]Kind{KInt, KStr, KBool}), 0))
	}
	errv := Var(ev)
	if g.chance(30) {
		errv = Str("close failed")
	}
	closer := CallN("setmetatable", Tbl(), Tbl(NV("__close", Fn([]string{"o", "e"}, false, Emit(Str("closing"), Bin("eq", Var("e"), Nil())), CallS(CallN("error", errv, Int(0)))))))
	body := []*S{LocalAttr("c1", "close", closer)}
	if g.chance(40) {
		body = append(body, LocalAttr("c0", "close", CallN("setmetatable", Tbl(), Tbl(NV("__close", Fn([]string{"o", "e"}, false, Emit(Str("outer close"), Bin("eq", Var("e"), Var(ev)), CallN("type", Var("e")))))))))
		body[0], body[1] = body[1], body[0]
	}
	body = append(body, Return(rets...))
	out := []*S{Local1(ev, Tbl()), LocalFn(f, nil, false, body...)}
	prot := func() *E {
		if g.chance(35) {
			return CallN("xpcall", Var(f), Fn([]string{"m"}, false, Return(Var("m"))))
		}
		return CallN("pcall", Var(f))
	}
	out = append(out,
		Emit(CallN("select", Str("#"), prot())),
		Emit(prot()),
		Local([]string{"ok", "e", "x1", "x2"}, prot()),
		Emit(Var("ok"), Bin("eq", Var("e"), Var(ev)), Var("x1"), Var("x2")),
		Local1("t", Tbl(Pos(prot()))), Emit(Un("len", Var("t"))))
	return out
}

func (g *G) tTruncExpand() []*S {
	f := g.fresh("mr")
	n := int64(g.pick(4))
	var rets []*E
	for i := int64(0); i < n; i++ {
		rets = append(rets, Int(10+i))
	}
	def := LocalFn(f, nil, false, Return(rets...))
	call := func() *E { return Call(Var(f)) }
	t := g.fresh("t")
	return []*S{def,
		Emit(call(), Str("|")), Emit(Str("|"), call()), Emit(Par(call())), Emit(call(), call()),
		Local1(t, Tbl(Pos(call()), Pos(call()))), Emit(Un("len", Var(t))),
		Local1(t+"b", Tbl(Pos(call()), Pos(Par(call())))), Emit(Un("len", Var(t+"b"))),
		Local([]string{"a", "b", "c"}, call()), Emit(Var("a"), Var("b"), Var("c")),
		Local([]string{"d", "e"}, Par(call()), call()), Emit(Var("d"), Var("e")),
		Emit(CallN("select", Str("#"), call()), CallN("select", Str("#"), call(), call()), CallN("select", Str("#"), Par(call()))),
		// keyed fields do not take part in the counting of positional fields: a trailing call after keyed fields
		Local1(t+"k", Tbl(NV("x", Int(1)), Pos(call()))),
		Emit(Dot(Var(t+"k"), "x"), Idx(Var(t+"k"), Int(1)), Idx(Var(t+"k"), Int(2)), Idx(Var(t+"k"), Int(3)), Idx(Var(t+"k"), Int(4))),
		Local1(t+"m", Tbl(Pos(Str("h")), KV(Int(10), True()), NV("k", Str("v")), Pos(Str("i")), KV(Bin("concat", Str("a"), Str("b")), Int(0)), Pos(call()))),
		Emit(Idx(Var(t+"m"), Int(1)), Idx(Var(t+"m"), Int(2)), Idx(Var(t+"m"), Int(3)), Idx(Var(t+"m"), Int(4)), Idx(Var(t+"m"), Int(5)), Idx(Var(t+"m"), Int(6)), Idx(Var(t+"m"), Int(7)))}
}

func (g *G) tRecursion() []*S {
	f := g.fresh("rec")
	n := int64(1 + g.pick(8))
	switch g.pick(3) {
	case 0:
		return []*S{LocalFn(f, []string{"n"}, false, If(Bin("le", Var("n"), Int(1)), []*S{Return(Int(1))}, nil), Return(Bin("mul", Var("n"), Call(Var(f), Bin("sub", Var("n"), Int(1)))))), Emit(Call(Var(f), Int(n)))}
	case 1:
		// tail recursion with an accumulator
		return []*S{LocalFn(f, []string{"n", "acc"}, false, If(Bin("eq", Var("n"), Int(0)), []*S{Return(Var("acc"))}, nil), Return(Call(Var(f), Bin("sub", Var("n"), Int(1)), Bin("add", Var("acc"), Var("n"))))), Emit(Call(Var(f), Int(n*5), Int(0)))}
	default:
		// mutual recursion through a forward-declared local
		ev, od := g.fresh("ev"), g.fresh("od")
		return []*S{Local([]string{ev, od}),
			Assign1(Var(ev), Fn([]string{"n"}, false, If(Bin("eq", Var("n"), Int(0)), []*S{Return(True())}, nil), Return(Call(Var(od), Bin("sub", Var("n"), Int(1)))))),
			Assign1(Var(od), Fn([]string{"n"}, false, If(Bin("eq", Var("n"), Int(0)), []*S{Return(False())}, nil), Return(Call(Var(ev), Bin("sub", Var("n"), Int(1)))))),
			Emit(Call(Var(ev), Int(n)), Call(Var(od), Int(n)))}
	}
}

func (g *G) tStringCoerce() []*S {
	return []*S{Emit(Bin("add", Str("10"), Int(5)), Bin("mul", Str("3"), Str("4")), Bin("concat", Int(10), Int(20)), Bin("sub", Str(" 0x10 "), Int(1)),
		Un("neg", Str("2")), Bin("idiv", Str("7"), Int(2)), Bin("eq", Str("10"), Int(10)), Bin("lt", Str("10"), Str("9")),
		Bin("add", Str("1.5"), Int(1)), CallN("tonumber", Str("0x1F")), CallN("tonumber", Str("  12  ")), CallN("tonumber", Str("1e")), CallN("tonumber", Str("")),
		CallN("tonumber", Str("12a")), CallN("tonumber", Nil()), Call(Dot(Var("math"), "tointeger"), Flt(3.0)), Call(Dot(Var("math"), "tointeger"), Flt(3.5)))}
}

func (g *G) tForEdge() []*S {
	g.feat("loop")
	mx, mn := Dot(Var("math"), "maxinteger"), Dot(Var("math"), "mininteger")
	switch g.pick(7) {
	case 5:
		// an integer initial value with a float step: the loop is a float loop from its first iteration on
		return []*S{ForNum("i", Int(int64(g.pick(3))), Int(int64(2+g.pick(2))), Flt(g.pickF([]float64{0.5, 1.0, 2.0})), Emit(Var("i"), Call(Dot(Var("math"), "type"), Var("i")), Bin("idiv", Var("i"), Int(1))))}
	case 6:
		return []*S{ForNum("i", Int(int64(3+g.pick(2))), Int(1), Flt(g.pickF([]float64{-1.0, -0.5, -2.0})), Emit(Var("i"), Call(Dot(Var("math"), "type"), Var("i")))),
			ForNum("i", Flt(1.0), Int(2), Int(1), Emit(Var("i"), Call(Dot(Var("math"), "type"), Var("i"))))}
	case 0:
		return []*S{ForNum("i", Bin("sub", mx, Int(2)), mx, nil, Emit(Var("i")))}
	case 1:
		return []*S{ForNum("i", Bin("add", mn, Int(2)), mn, Int(-1), Emit(Var("i")))}
	case 2:
		return []*S{ForNum("i", Bin("sub", mx, Int(5)), mx, Int(3), Emit(Var("i")))}
	case 3:
		// the loop variable is a copy: assigning to it does not affect the iteration
		return []*S{ForNum("i", Int(1), Int(3), nil, Emit(Var("i")), Assign1(Var("i"), Bin("mul", Var("i"), Int(10))), Emit(Var("i")))}
	default:
		return []*S{ForNum("i", Int(1), Dot(Var("math"), "huge"), nil, Emit(Var("i")), If(Bin("ge", Var("i"), Int(3)), []*S{Break()}, nil)),
			ForNum("i", Int(3), Int(1), nil, Emit(Str("never"))), ForNum("i", Int(1), Flt(0.5), nil, Emit(Str("never")))}
	}
}

func (g *G) tSelect() []*S {
	return []*S{Emit(CallN("select", Int(2), Str("a"), Str("b"), Str("c"))), Emit(CallN("select", Int(-1), Str("a"), Str("b"), Str("c"))),
		Emit(CallN("select", Str("#"))), Emit(CallN("select", Str("#"), Nil(), Nil())), Emit(CallN("pcall", Fn(nil, false, Local1("r", CallN("select", Int(0), Int(1))), Return(Var("r"))))),
		Emit(Par(CallN("select", Int(int64(1+g.pick(3))), g.genInt(0), g.genStr(0), g.genBool(0))))}
}
