// c08: correspondence harness for compliance flags / iosafe.
//
// Enumerates every Go function reachable in a REAL golua runtime from _G, package.loaded, the
// metatables of standard values and the values standard functions hand out (iterators, wrapped
// coroutines, context objects), and calls each one under runtime.callcontext({flags=F}) for every
// subset F of {memsafe, cpusafe, iosafe, timesafe} with argument tuples from an edge-value pool,
// spelled directly, through pcall, through a metamethod, through coroutine.wrap and through load.
//
// Output, one line per item (fields separated by a single space, strings hex-encoded):
//
//	fn <sym> <luaNameHex> <declaredFlags> <nArgs> <hasEtc> <via> <pathHex>
//	case <sym> <luaNameHex> <F> <spelling> <tupleId> <outcome> <effect>
//
// outcome: missing:<mask> | ok | err | killed | panic | skipped ; effect: none | fs:<what> | proc | read
//
// Effects are observed on a sentinel directory (which is also the working directory and TMPDIR), on the
// process table (wait4) and on what the call hands back (file handles / iterators / strings carrying the
// sentinel marker).
package main

import (
	"encoding/hex"
	"fmt"
	"os"
	"path/filepath"
	"regexp"
	goruntime "runtime"
	"sort"
	"strconv"
	"strings"
	"sync"
	"syscall"
	"time"

	rt "github.com/arnodel/golua/runtime"
	"verifharness/hlib"
)

const marker = "VERIF-SENTINEL-MARKER-7f3a91"

var flagNames = []struct {
	bit  int
	name string
}{{1, "memsafe"}, {2, "cpusafe"}, {4, "iosafe"}, {8, "timesafe"}}

func flagString(f int) string {
	var p []string
	for _, fn := range flagNames {
		if f&fn.bit != 0 {
			p = append(p, fn.name)
		}
	}
	return strings.Join(p, " ")
}

var missingRe = regexp.MustCompile(`missing flags: ([a-z ]+)`)

func parseMissing(msg string) (int, bool) {
	m := missingRe.FindStringSubmatch(msg)
	if m == nil {
		return 0, false
	}
	mask := 0
	for _, w := range strings.Fields(m[1]) {
		for _, fn := range flagNames {
			if fn.name == w {
				mask |= fn.bit
			}
		}
	}
	return mask, mask != 0
}

// ---------------------------------------------------------------------------
// sentinel directory

type sentinel struct {
	dir  string
	base map[string]string
	w    *watcher
}

func newSentinel(dir string) *sentinel {
	s := &sentinel{dir: dir}
	os.RemoveAll(dir)
	s.reset()
	s.base = s.snapshot()
	s.w = newWatcher()
	s.rewatch()
	return s
}

var sentinelDirs = []string{".", "cwd", "tmp", "sub"}

func (s *sentinel) files() map[string]string {
	return map[string]string{
		"data.txt":    marker + "\nline2\n3.5\n",
		"victim.txt":  "victim\n",
		"script.lua":  "SENTINEL_SCRIPT_RAN = true\nreturn '" + marker + "'\n",
		"cwd/mod.lua": "return '" + marker + "'\n",
	}
}

// reset puts the sentinel back into its canonical state without removing the watched directories
func (s *sentinel) reset() {
	for _, d := range sentinelDirs {
		must(os.MkdirAll(filepath.Join(s.dir, d), 0o755))
	}
	files := s.files()
	for _, d := range sentinelDirs {
		ents, _ := os.ReadDir(filepath.Join(s.dir, d))
		for _, en := range ents {
			rel := filepath.Join(d, en.Name())
			if d == "." {
				rel = en.Name()
			}
			isDir := false
			for _, x := range sentinelDirs {
				if x == rel {
					isDir = true
				}
			}
			if isDir && en.IsDir() {
				continue
			}
			if _, keep := files[rel]; keep && !en.IsDir() {
				continue
			}
			os.RemoveAll(filepath.Join(s.dir, rel))
		}
	}
	for rel, content := range files {
		p := filepath.Join(s.dir, rel)
		if b, err := os.ReadFile(p); err != nil || string(b) != content {
			os.Remove(p)
			must(os.WriteFile(p, []byte(content), 0o644))
		}
	}
}

// closeCase ends the observation window of one case (or of a piece of harness bookkeeping).  In this order:
//  1. wait until the process has no children left (what a spawned child does to the directory has then happened);
//  2. read the inotify queue: events are queued synchronously by whoever makes the file system call, so everything
//     the case did in this process, and everything its children did, is in the queue now;
//  3. an effect on the file system is a NET change of the directory against its canonical state (events without a
//     net change come from finalisers of earlier runtimes closing files that restore() had already unlinked);
//  4. if anything happened, force the releases that belong to this case (Go GC + golua finalisers: temp files, open
//     handles), put the directory back and re-establish the watches;
//  5. barrier: create and remove a marker file and read the queue until the marker's removal has been seen — the
//     harness's own directory walks, restores and the marker itself are thereby consumed, and the next window
//     starts with an empty queue.
//
// Returns: had children, net change (""), names opened/read (only meaningful when there is no net change).
func (s *sentinel) closeCase(release func()) (proc bool, change string, opened []string) {
	proc = reapChildren()
	if s.w == nil {
		change = s.diff()
		if change != "" || proc {
			if release != nil {
				release()
				reapChildren()
			}
			s.restore()
		}
		return
	}
	changed, opened := s.w.poll()
	if len(changed) > 0 {
		change = s.diff()
	}
	if change != "" || proc {
		if release != nil {
			release()
			reapChildren()
		}
		s.restore()
	}
	s.barrier()
	return proc, change, opened
}

var barrierSeq int

// barrier: see closeCase
func (s *sentinel) barrier() {
	if s.w == nil {
		return
	}
	barrierSeq++
	name := fmt.Sprintf(".barrier-%d", barrierSeq)
	p := filepath.Join(s.dir, name)
	fd, err := syscall.Open(p, syscall.O_CREAT|syscall.O_WRONLY|syscall.O_CLOEXEC, 0o600)
	if err != nil {
		s.w.poll()
		return
	}
	syscall.Close(fd)
	syscall.Unlink(p)
	for i := 0; i < 1000; i++ {
		if s.w.drainUntilRemoved(name) {
			return
		}
		time.Sleep(100 * time.Microsecond)
	}
}

// settle: close a window whose events belong to harness bookkeeping (building a runtime, probes)
func (s *sentinel) settle() {
	s.closeCase(nil)
}

func (s *sentinel) rewatch() {
	if s.w == nil {
		return
	}
	for _, d := range sentinelDirs {
		s.w.add(filepath.Join(s.dir, d), d)
	}
	s.w.poll() // drop the events our own bookkeeping caused
}

// watcher: inotify on the sentinel directories — sees creations, removals, writes AND opens/reads
type watcher struct {
	fd  int
	wds map[int32]string
}

const inMask = 0x1 | 0x2 | 0x4 | 0x8 | 0x20 | 0x40 | 0x80 | 0x100 | 0x200 | 0x400

func newWatcher() *watcher {
	fd, err := syscall.InotifyInit1(syscall.IN_NONBLOCK | syscall.IN_CLOEXEC)
	if err != nil {
		return nil
	}
	return &watcher{fd: fd, wds: map[int32]string{}}
}

func (w *watcher) add(path, rel string) {
	wd, err := syscall.InotifyAddWatch(w.fd, path, inMask)
	if err == nil {
		w.wds[int32(wd)] = rel
	}
}

// drainUntilRemoved discards queued events; true once the removal (IN_DELETE) of `name` in the root has been read
func (w *watcher) drainUntilRemoved(name string) bool {
	var buf [16384]byte
	seen := false
	for {
		n, err := syscall.Read(w.fd, buf[:])
		if n <= 0 || err != nil {
			return seen
		}
		off := 0
		for off+16 <= n {
			mask := uint32(buf[off+4]) | uint32(buf[off+5])<<8 | uint32(buf[off+6])<<16 | uint32(buf[off+7])<<24
			l := int(uint32(buf[off+12]) | uint32(buf[off+13])<<8 | uint32(buf[off+14])<<16 | uint32(buf[off+15])<<24)
			nm := strings.TrimRight(string(buf[off+16:off+16+l]), "\x00")
			off += 16 + l
			if mask&0x200 != 0 && nm == name {
				seen = true
			}
		}
		if seen {
			// keep reading until the queue is empty
			for {
				n, err := syscall.Read(w.fd, buf[:])
				if n <= 0 || err != nil {
					return true
				}
			}
		}
	}
}

// poll returns (changed, opened): canonical names of entries created/removed/written and of entries opened/read
func (w *watcher) poll() (changed, opened []string) {
	var buf [16384]byte
	seenC, seenO := map[string]bool{}, map[string]bool{}
	for {
		n, err := syscall.Read(w.fd, buf[:])
		if n <= 0 || err != nil {
			break
		}
		off := 0
		for off+16 <= n {
			wd := int32(uint32(buf[off]) | uint32(buf[off+1])<<8 | uint32(buf[off+2])<<16 | uint32(buf[off+3])<<24)
			mask := uint32(buf[off+4]) | uint32(buf[off+5])<<8 | uint32(buf[off+6])<<16 | uint32(buf[off+7])<<24
			l := int(uint32(buf[off+12]) | uint32(buf[off+13])<<8 | uint32(buf[off+14])<<16 | uint32(buf[off+15])<<24)
			name := strings.TrimRight(string(buf[off+16:off+16+l]), "\x00")
			off += 16 + l
			dir := w.wds[wd]
			rel := name
			if dir != "." && dir != "" {
				rel = dir + "/" + name
				if dir == "tmp" || dir == "cwd" {
					if name != "mod.lua" && name != "" {
						rel = dir + "/*"
					}
				}
			}
			if name == "" {
				rel = dir
			}
			if mask&(0x2|0x4|0x8|0x40|0x80|0x100|0x200|0x400) != 0 {
				if !seenC[rel] {
					seenC[rel] = true
					changed = append(changed, rel)
				}
			} else if mask&(0x1|0x20) != 0 {
				if !seenO[rel] {
					seenO[rel] = true
					opened = append(opened, rel)
				}
			}
		}
	}
	sort.Strings(changed)
	sort.Strings(opened)
	return
}

func must(err error) {
	if err != nil {
		fmt.Fprintln(os.Stderr, "c08 harness:", err)
		os.Exit(2)
	}
}

func (s *sentinel) snapshot() map[string]string {
	m := map[string]string{}
	filepath.Walk(s.dir, func(p string, info os.FileInfo, err error) error {
		if err != nil {
			return nil
		}
		rel, _ := filepath.Rel(s.dir, p)
		if info.IsDir() {
			m[rel] = "dir"
		} else {
			m[rel] = fmt.Sprintf("f:%d:%d", info.Size(), info.ModTime().UnixNano())
		}
		return nil
	})
	return m
}

// diff returns "" if nothing changed, else a short canonical description
func (s *sentinel) diff() string {
	now := s.snapshot()
	var d []string
	for k, v := range now {
		if b, ok := s.base[k]; !ok {
			d = append(d, "created:"+k)
		} else if b != v {
			d = append(d, "modified:"+k)
		}
	}
	for k := range s.base {
		if _, ok := now[k]; !ok {
			d = append(d, "removed:"+k)
		}
	}
	if len(d) == 0 {
		return ""
	}
	sort.Strings(d)
	// temp file names are random: canonicalise
	for i, x := range d {
		if strings.HasPrefix(x, "created:tmp/") {
			d[i] = "created:tmp/*"
		}
		if strings.HasPrefix(x, "created:cwd/") {
			d[i] = "created:cwd/*"
		}
	}
	if len(d) > 3 {
		d = d[:3]
	}
	return strings.Join(d, ",")
}

func (s *sentinel) restore() {
	s.reset()
	s.base = s.snapshot()
	s.rewatch()
}

// reapChildren waits until this process has NO child process left (running or zombie) and reports whether there
// was one.  A child started by the case (io.popen) is thereby finished — and whatever it does to the sentinel
// directory has happened — before the case is closed; nothing of it can spill into the next case.  Children that
// do not finish within 3 s are killed (found through /proc).
func reapChildren() bool {
	found := false
	deadline := time.Now().Add(3 * time.Second)
	killed := false
	for {
		var ws syscall.WaitStatus
		pid, err := syscall.Wait4(-1, &ws, syscall.WNOHANG, nil)
		if err == syscall.EINTR {
			continue
		}
		if err != nil { // ECHILD: no children at all
			return found
		}
		found = true
		if pid != 0 {
			continue // reaped one, look for more
		}
		// children exist and are still running
		if time.Now().After(deadline) && !killed {
			killChildren()
			killed = true
			deadline = time.Now().Add(3 * time.Second)
		} else if time.Now().After(deadline) {
			return found
		}
		time.Sleep(500 * time.Microsecond)
	}
}

func killChildren() {
	self := os.Getpid()
	ents, _ := os.ReadDir("/proc")
	for _, en := range ents {
		pid, err := strconv.Atoi(en.Name())
		if err != nil || pid == self {
			continue
		}
		b, err := os.ReadFile("/proc/" + en.Name() + "/stat")
		if err != nil {
			continue
		}
		// pid (comm) state ppid ...
		st := string(b)
		if i := strings.LastIndex(st, ")"); i >= 0 {
			f := strings.Fields(st[i+1:])
			if len(f) >= 2 {
				if pp, _ := strconv.Atoi(f[1]); pp == self {
					syscall.Kill(pid, syscall.SIGKILL)
				}
			}
		}
	}
}

// ---------------------------------------------------------------------------
// enumeration of Go functions

type fnInfo struct {
	f     *rt.GoFunction
	val   rt.Value
	sym   string
	name  string
	flags int
	nArgs int
	etc   bool
	via   string // global | meta | loaded | derived
	path  string
}

const prelude = `
local S = ...
local spell = {}
spell.direct = function(g, ...) return g(...) end
spell.pcall = function(g, ...) return pcall(g, ...) end
spell.call = function(g, ...) return setmetatable({}, {__call = g})(...) end
spell.index = function(g, k) return setmetatable({}, {__index = g})[k] end
spell.wrap = function(g, ...) return coroutine.wrap(function(...) return g(...) end)(...) end
spell.load = function(g, ...) return load("local g = ... return g(select(2, ...))")(g, ...) end
local function run(flags, sp, g, ...)
  local ctx, a, b = runtime.callcontext({flags = flags}, spell[sp], g, ...)
  return ctx.status, a, b
end
-- the context keeps running after a refused call: the refused call is caught and a second,
-- always-permitted Go function (type) is called in the same context
local function runthen(flags, g, ...)
  local n = select('#', ...)
  local args = {...}
  local ctx, ok, msg, after = runtime.callcontext({flags = flags}, function()
    local ok, msg = pcall(g, table.unpack(args, 1, n))
    return ok, msg, type(1)
  end)
  return ctx.status, ok, msg, after
end
-- nested contexts: defs is a list of callcontext definitions, outermost first
local function runnest(defs, g)
  local function go(i)
    if i > #defs then return g() end
    local ctx, a = runtime.callcontext(defs[i], go, i + 1)
    if ctx.status ~= "done" then error(tostring(a or ctx.status), 0) end
    return a
  end
  local ok, msg = pcall(go, 1)
  return ok, tostring(msg)
end
-- calls made by code that runs AT THE EDGE of the context or is called back by a library function: g is called
-- (protected) from a __close handler when the context is left by an error / normally / when an inner pcall is
-- left, from an xpcall message handler, from a table.sort comparator, from a string.gsub callback, from a
-- coroutine created outside and resumed inside, and from a __gc finaliser of an object created inside.
-- Each returns the context status and what the protected call of g gave (nil: the callback never ran).
local function mk(g, ...)
  local n, args = select('#', ...), {...}
  local R
  local armed = true
  -- (disarmed by the harness when the case is closed: a finaliser that only runs later must not act in the
  -- observation window of another case)
  local function probe() if armed and R == nil then R = table.pack(pcall(g, table.unpack(args, 1, n))) end end
  return probe, function(cmd) if cmd == "disarm" then armed = false end return R end
end
local edge = {}
edge.close_err = function(flags, g, ...)
  local probe, res = mk(g, ...)
  local ctx = runtime.callcontext({flags = flags}, function()
    local x <close> = setmetatable({}, {__close = probe})
    error("leaving the context by an error")
  end)
  return ctx.status, res()
end
edge.close_ok = function(flags, g, ...)
  local probe, res = mk(g, ...)
  local ctx = runtime.callcontext({flags = flags}, function()
    local x <close> = setmetatable({}, {__close = probe})
    return 1
  end)
  return ctx.status, res()
end
edge.close_pcall = function(flags, g, ...)
  local probe, res = mk(g, ...)
  local ctx = runtime.callcontext({flags = flags}, function()
    return pcall(function()
      local x <close> = setmetatable({}, {__close = probe})
      error("leaving the pcall by an error")
    end)
  end)
  return ctx.status, res()
end
edge.xpcall_handler = function(flags, g, ...)
  local probe, res = mk(g, ...)
  local ctx = runtime.callcontext({flags = flags}, function()
    return xpcall(function() error("to the handler") end, function(m) probe() return m end)
  end)
  return ctx.status, res()
end
edge.sort_cmp = function(flags, g, ...)
  local probe, res = mk(g, ...)
  local ctx = runtime.callcontext({flags = flags}, function()
    local t = {3, 1, 2}
    table.sort(t, function(a, b) probe() return a < b end)
    return t[1]
  end)
  return ctx.status, res()
end
edge.gsub_cb = function(flags, g, ...)
  local probe, res = mk(g, ...)
  local ctx = runtime.callcontext({flags = flags}, function()
    return (string.gsub("abc", "b", function() probe() return "x" end))
  end)
  return ctx.status, res()
end
edge.co_outside_in = function(flags, g, ...)
  local probe, res = mk(g, ...)
  local co = coroutine.create(function() probe() return 1 end)
  local ctx = runtime.callcontext({flags = flags}, function() return coroutine.resume(co) end)
  return ctx.status, res()
end
-- the finaliser may run any time after the object died: the harness forces collections after the context has
-- ended and then asks res
edge.gc = function(flags, g, ...)
  local probe, res = mk(g, ...)
  local ctx = runtime.callcontext({flags = flags}, function()
    setmetatable({}, {__gc = probe})
    return 1
  end)
  return ctx.status, res
end
local derived = {}
local function add(name, f) local ok, v = pcall(f) if ok and v ~= nil then derived[name] = v end end
add("coroutine.wrap()", function() return coroutine.wrap(function() coroutine.yield(1) end) end)
add("string.gmatch()", function() return string.gmatch("abc", "%a") end)
add("utf8.codes()", function() return (utf8.codes("abc")) end)
add("ipairs()", function() return (ipairs({})) end)
add("pairs()", function() return (pairs({})) end)
add("io.lines(path)", function() return io.lines(S.data) end)
add("io.stdout:lines()", function() return io.stdin:lines() end)
add("runtime.context()", function() return runtime.context() end)
add("runtime.context().kill", function() return runtime.context().kill end)
add("runtime.context().killnow", function() return runtime.context().killnow end)
add("runtime.context().stopnow", function() return runtime.context().stopnow end)
add("io.stdout", function() return io.stdout end)
add("package.searchers", function() return package.searchers end)
add("debug.traceback", function() return debug.traceback end)
local pool = {
  {"nil", nil}, {"true", true}, {"0", 0}, {"1", 1}, {"-1", -1}, {"3", 3}, {"0.5", 0.5}, {"1000", 1000},
  {"''", ""}, {"'a'", "a"}, {"'r'", "r"}, {"'w'", "w"}, {"'%a'", "%a"}, {"'collect'", "collect"}, {"'mod'", "mod"},
  {"data", S.data}, {"new", S.new}, {"script", S.script}, {"victim", S.victim}, {"renamed", S.renamed}, {"sub", S.sub},
  {"cmd", S.cmd},
  {"{}", {}}, {"{1,2,3}", {1, 2, 3}}, {"{'a','b'}", {"a", "b"}},
  {"meta{}", setmetatable({}, {__index = function() return 1 end, __tostring = function() return "m" end, __len = function() return 2 end, __close = function() end})},
  {"luafn", function(...) return 1 end}, {"gofn", type},
  {"co", coroutine.create(function() coroutine.yield() end)},
  {"stdout", io.stdout},
}
return run, runthen, derived, pool, runnest, edge
`

type env struct {
	r        *rt.Runtime
	run      rt.Value
	runthen  rt.Value
	runnest  rt.Value
	edge     *rt.Table
	derived  *rt.Table
	pool     []poolVal
	sent     *sentinel
	openFile rt.Value
}

type poolVal struct {
	name string
	v    rt.Value
}

func newEnv(sent *sentinel) *env {
	r, _ := hlib.NewRuntime(devnull)
	e := &env{r: r, sent: sent}
	c, err := hlib.Load(r, "c08prelude", prelude)
	must(err)
	S := rt.NewTable()
	set := func(k, v string) { r.SetEnv(S, k, rt.StringValue(v)) }
	set("data", filepath.Join(sent.dir, "data.txt"))
	set("new", filepath.Join(sent.dir, "new.txt"))
	set("script", filepath.Join(sent.dir, "script.lua"))
	set("victim", filepath.Join(sent.dir, "victim.txt"))
	set("renamed", filepath.Join(sent.dir, "renamed.txt"))
	set("sub", filepath.Join(sent.dir, "sub"))
	set("cmd", "touch "+filepath.Join(sent.dir, "spawned"))
	class, res, msg := hlib.PCall(r, rt.FunctionValue(c), rt.TableValue(S))
	if class != hlib.OK || len(res) != 6 {
		fmt.Fprintln(os.Stderr, "c08 harness: prelude failed:", class, msg)
		os.Exit(2)
	}
	e.run, e.runthen, e.runnest = res[0], res[1], res[4]
	e.edge = res[5].AsTable()
	e.derived = res[2].AsTable()
	pt := res[3].AsTable()
	for i := int64(1); i <= pt.Len(); i++ {
		ent := pt.Get(rt.IntValue(i)).AsTable()
		e.pool = append(e.pool, poolVal{ent.Get(rt.IntValue(1)).AsString(), ent.Get(rt.IntValue(2))})
	}
	return e
}

var devnull *os.File

func goFn(v rt.Value) *rt.GoFunction {
	c, ok := v.TryCallable()
	if !ok {
		return nil
	}
	g, _ := c.(*rt.GoFunction)
	return g
}

func (e *env) enumerate() []*fnInfo {
	var out []*fnInfo
	seenF := map[*rt.GoFunction]bool{}
	seenT := map[*rt.Table]bool{}
	seenU := map[*rt.UserData]bool{}
	type item struct {
		v    rt.Value
		path string
		via  string
	}
	queue := []item{{rt.TableValue(e.r.GlobalEnv()), "_G", "global"}}
	// metatables of standard values
	queue = append(queue, item{e.r.Metatable(rt.StringValue("")), "<string metatable>", "meta"})
	// derived values (sorted for determinism)
	var dk []string
	{
		k := rt.NilValue
		for {
			nk, nv, ok := e.derived.Next(k)
			if !ok || nk.IsNil() {
				break
			}
			_ = nv
			dk = append(dk, nk.AsString())
			k = nk
		}
	}
	sort.Strings(dk)
	var later []item
	for _, k := range dk {
		later = append(later, item{e.derived.Get(rt.StringValue(k)), k, "derived"})
	}
	process := func(q []item) {
		for len(q) > 0 {
			it := q[0]
			q = q[1:]
			v := it.v
			if g := goFn(v); g != nil {
				if !seenF[g] {
					seenF[g] = true
					sym, name, fl, n, etc := rt.VerifGoFunctionInfo(g)
					out = append(out, &fnInfo{f: g, val: v, sym: sym, name: name, flags: int(fl), nArgs: n, etc: etc, via: it.via, path: it.path})
				}
				continue
			}
			if t, ok := v.TryTable(); ok && t != nil {
				if seenT[t] {
					continue
				}
				seenT[t] = true
				type kv struct {
					k string
					v rt.Value
					w rt.Value
				}
				var kvs []kv
				k := rt.NilValue
				for {
					nk, nv, ok := t.Next(k)
					if !ok || nk.IsNil() {
						break
					}
					ks, _ := nk.ToString()
					kvs = append(kvs, kv{ks, nk, nv})
					k = nk
				}
				sort.Slice(kvs, func(i, j int) bool { return kvs[i].k < kvs[j].k })
				for _, x := range kvs {
					via := it.via
					p := it.path + "." + x.k
					if it.path == "_G" {
						p = x.k
					}
					if strings.HasPrefix(p, "package.loaded") && via == "global" {
						via = "loaded"
					}
					q = append(q, item{x.w, p, via}, item{x.v, p + "<key>", via})
				}
				if mt := t.Metatable(); mt != nil {
					q = append(q, item{rt.TableValue(mt), it.path + "<metatable>", "meta"})
				}
				continue
			}
			if u, ok := v.TryUserData(); ok && u != nil {
				if seenU[u] {
					continue
				}
				seenU[u] = true
				if mt := u.Metatable(); mt != nil {
					q = append(q, item{rt.TableValue(mt), it.path + "<metatable>", "meta"})
				}
			}
		}
	}
	process(queue)
	process(later)
	return out
}

// ---------------------------------------------------------------------------
// cases

type tuple struct {
	id   string
	vals []rt.Value
}

func (e *env) tuples(tier string, fi *fnInfo, rng *hlib.Rng) (full, few, spell []tuple) {
	pv := e.pool
	byName := map[string]rt.Value{}
	for _, p := range pv {
		byName[p.name] = p.v
	}
	mk := func(names ...string) tuple {
		t := tuple{id: "(" + strings.Join(names, ",") + ")"}
		for _, n := range names {
			t.vals = append(t.vals, byName[n])
		}
		return t
	}
	full = append(full, mk())
	for _, p := range pv {
		full = append(full, mk(p.name))
	}
	// pairs that can have an effect on the outside
	eff := [][]string{{"new", "'w'"}, {"data", "'r'"}, {"data", "'a'"}, {"victim", "renamed"}, {"cmd", "'r'"}, {"cmd", "'w'"}, {"stdout", "new"},
		{"stdout", "'a'"}, {"script", "'r'"}, {"'mod'", "script"}, {"sub", "'r'"}, {"new", "'a'"}, {"luafn", "data"}, {"{}", "luafn"}, {"'a'", "data"}}
	for _, p := range eff {
		full = append(full, mk(p...))
	}
	nrand := 30
	if tier == "thorough" {
		// exhaustive pairs
		for _, a := range pv {
			for _, b := range pv {
				full = append(full, mk(a.name, b.name))
			}
		}
		nrand = 300
	}
	for i := 0; i < nrand; i++ {
		n := 2 + rng.Below(3)
		if fi.nArgs+1 > n && rng.Chance(30) {
			n = fi.nArgs + 1
		}
		var names []string
		for j := 0; j < n; j++ {
			names = append(names, pv[rng.Below(len(pv))].name)
		}
		full = append(full, mk(names...))
	}
	few = []tuple{mk(), mk("new", "'w'"), mk("cmd", "'r'"), mk("victim", "renamed"), mk("data")}
	if tier != "thorough" {
		spell = []tuple{mk("new", "'w'"), mk("cmd", "'r'"), mk("victim", "renamed")}
	} else {
		spell = few
	}
	return
}

// functions that must not be run for real in this process
func dangerous(fi *fnInfo) bool {
	return strings.HasSuffix(fi.sym, "/oslib.exit")
}

func (e *env) inspect(vals []rt.Value) bool {
	// does anything handed back carry the content of a sentinel file?
	for _, v := range vals {
		if s, ok := v.TryString(); ok && strings.Contains(s, marker) {
			return true
		}
		if u, ok := v.TryUserData(); ok && u != nil {
			// a file handle on a sentinel file: try to read it
			read := e.r.GlobalEnv().Get(rt.StringValue("io")).AsTable().Get(rt.StringValue("stdout"))
			_ = read
			mt := u.Metatable()
			if mt == nil {
				continue
			}
			idx := mt.Get(rt.StringValue("__index"))
			if it, ok := idx.TryTable(); ok {
				rd := it.Get(rt.StringValue("read"))
				if !rd.IsNil() {
					class, res, _ := hlib.PCall(e.r, rd, v, rt.StringValue("a"))
					if class == hlib.OK {
						for _, x := range res {
							if s, ok := x.TryString(); ok && strings.Contains(s, marker) {
								return true
							}
						}
					}
				}
			}
		}
		if _, ok := v.TryCallable(); ok && v.Type() == rt.FunctionType {
			if goFn(v) != nil {
				// an iterator handed back by io.lines & co: pull one item
				class, res, _ := hlib.PCall(e.r, v)
				if class == hlib.OK {
					for _, x := range res {
						if s, ok := x.TryString(); ok && strings.Contains(s, marker) {
							return true
						}
					}
				}
			}
		}
	}
	return false
}

// mark: with C08_MARKERS set, a recognisable (failing) file system call that tells a system call trace
// which case the following system calls belong to: /.c08/<kind>/<F>/<function>
var markers = os.Getenv("C08_MARKERS") != ""

// per-case watchdog: a single call that does not come back within a minute is a hang of golua (or of the harness):
// it is reported as such and the worker exits; slowness of the machine only ever shortens the enumeration (budget).
var (
	wdMu    sync.Mutex
	wdStart time.Time
	wdWhat  string
)

func wdBegin(what string) {
	wdMu.Lock()
	wdStart, wdWhat = time.Now(), what
	wdMu.Unlock()
}

func wdEnd() {
	wdMu.Lock()
	wdStart = time.Time{}
	wdMu.Unlock()
}

func watchdog() {
	for {
		time.Sleep(time.Second)
		wdMu.Lock()
		st, what := wdStart, wdWhat
		wdMu.Unlock()
		if !st.IsZero() && time.Since(st) > 90*time.Second {
			fmt.Fprintf(os.Stderr, "c08 harness: case does not return: %s\n", what)
			hlib.Emit("hang", what)
			hlib.Out.Flush()
			os.Exit(3)
		}
	}
}

// budget: C08_BUDGET_S seconds after the start no further case is started (the one in progress is finished)
var (
	startTime = time.Now()
	budget    time.Duration
	planned   int
	done      int
	exhausted bool
)

func withinBudget() bool {
	planned++
	if exhausted {
		return false
	}
	if budget > 0 && time.Since(startTime) > budget {
		exhausted = true
		return false
	}
	done++
	return true
}

func mark(kind string, F int, sym string) {
	if markers {
		syscall.Access("/.c08/"+kind+"/"+strconv.Itoa(F)+"/"+strings.ReplaceAll(sym, "/", "_"), 0)
	}
}

func (e *env) oneCase(fi *fnInfo, F int, sp string, t tuple) (outcome, effect string) {
	wdBegin(fmt.Sprintf("%s %s %d %s %s", fi.sym, hlib.Hex(fi.name), F, sp, hex.EncodeToString([]byte(t.id))))
	defer wdEnd()
	mark("case", F, fi.sym)
	args := []rt.Value{rt.StringValue(flagString(F)), rt.StringValue(sp), fi.val}
	if sp == "index" {
		if len(t.vals) > 0 {
			args = append(args, t.vals[0])
		} else {
			args = append(args, rt.StringValue("k"))
		}
	} else {
		args = append(args, t.vals...)
	}
	class, res, msg := hlib.PCall(e.r, e.run, args...)
	var handed []rt.Value
	switch class {
	case hlib.OK:
		status := ""
		if len(res) > 0 {
			status, _ = res[0].TryString()
		}
		switch status {
		case "done":
			outcome = "ok"
			handed = res[1:]
			if sp == "pcall" && len(res) >= 3 {
				if b, ok := res[1].TryBool(); ok && !b {
					outcome = "err"
					if s, ok := res[2].ToString(); ok {
						if m, ok := parseMissing(s); ok {
							outcome = "missing:" + strconv.Itoa(m)
						}
					}
				}
			}
		case "error":
			outcome = "err"
			if len(res) > 1 {
				s, _ := res[1].ToString()
				if m, ok := parseMissing(s); ok {
					outcome = "missing:" + strconv.Itoa(m)
				}
			}
		case "killed":
			outcome = "killed"
		default:
			outcome = "err"
		}
	case hlib.ERR:
		outcome = "harness-err"
		if m, ok := parseMissing(msg); ok {
			outcome = "missing:" + strconv.Itoa(m)
		}
	case hlib.KILLED:
		outcome = "killed"
	default:
		outcome = "panic"
	}
	effect = "none"
	// (a handle handed back by io.popen is a pipe to the child: reading it can block; the child itself
	// is what the process table shows)
	if !strings.HasSuffix(fi.sym, "/iolib.popen") && e.inspect(handed) {
		effect = "read"
	}
	handed = nil
	mark("end", F, fi.sym) // what follows is the harness's own bookkeeping (reaping, directory walk, barrier file)
	proc, change, opened := e.sent.closeCase(func() {
		// the case is over: what it opened or created is released now, not during some later case
		e.r.MainThread().CollectGarbage()
		goruntime.Gosched()
		e.r.MainThread().CollectGarbage()
	})
	if proc {
		effect = "proc"
	}
	if change != "" {
		if effect == "none" || effect == "read" {
			effect = "fs:" + change
		} else {
			effect += "+fs:" + change
		}
	} else if len(opened) > 0 && effect == "none" {
		effect = "open:" + strings.Join(opened, ",")
	}
	return
}

var edgeSpellings = []string{"close_err", "close_ok", "close_pcall", "xpcall_handler", "sort_cmp", "gsub_cb", "co_outside_in", "gc"}

// edgeCase: g called from code at the edge of the context (see the prelude).  outcome: missing:<mask> | ok | err |
// notrun (the callback was never called) | harness-err
func (e *env) edgeCase(fi *fnInfo, F int, sp string, t tuple) (outcome, effect string) {
	wdBegin(fmt.Sprintf("%s %s %d %s %s", fi.sym, hlib.Hex(fi.name), F, sp, hex.EncodeToString([]byte(t.id))))
	defer wdEnd()
	mark("case", F, fi.sym)
	args := append([]rt.Value{rt.StringValue(flagString(F)), fi.val}, t.vals...)
	class, res, _ := hlib.PCall(e.r, e.edge.Get(rt.StringValue(sp)), args...)
	outcome = "harness-err"
	var R rt.Value
	if class == hlib.OK && len(res) >= 1 {
		if len(res) >= 2 {
			R = res[1]
		}
		if sp == "gc" && !R.IsNil() {
			// the object died inside the context: collect now (the context is over) and ask what the finaliser saw
			getter := R
			R = rt.NilValue
			for i := 0; i < 3 && R.IsNil(); i++ {
				e.r.MainThread().CollectGarbage()
				goruntime.Gosched()
				time.Sleep(200 * time.Microsecond)
				e.r.MainThread().CollectGarbage()
				if c, r2, _ := hlib.PCall(e.r, getter); c == hlib.OK && len(r2) > 0 {
					R = r2[0]
				}
			}
			// whatever has not run by now is switched off before the window closes
			if c, r2, _ := hlib.PCall(e.r, getter, rt.StringValue("disarm")); c == hlib.OK && len(r2) > 0 && R.IsNil() {
				R = r2[0]
			}
		}
		outcome = "notrun"
		if tb, ok := R.TryTable(); ok && tb != nil {
			outcome = "err"
			if b, _ := tb.Get(rt.IntValue(1)).TryBool(); b {
				outcome = "ok"
			} else if s, ok := tb.Get(rt.IntValue(2)).ToString(); ok {
				if m, ok := parseMissing(s); ok {
					outcome = "missing:" + strconv.Itoa(m)
				}
			}
		}
	}
	effect = "none"
	mark("end", F, fi.sym)
	proc, change, opened := e.sent.closeCase(func() {
		e.r.MainThread().CollectGarbage()
		goruntime.Gosched()
		e.r.MainThread().CollectGarbage()
	})
	if proc {
		effect = "proc"
	}
	if change != "" {
		if effect == "none" {
			effect = "fs:" + change
		} else {
			effect += "+fs:" + change
		}
	} else if len(opened) > 0 && effect == "none" {
		effect = "open:" + strings.Join(opened, ",")
	}
	return
}

// effectful: the functions from which the call graph reaches an operating-system sink or a safeio gate (written by
// checks/c08.py from the regenerated graph); without the file: every function that does not declare all flags
func effectfulSet() map[string]bool {
	p := os.Getenv("C08_EFFECTFUL")
	if p == "" {
		return nil
	}
	b, err := os.ReadFile(p)
	if err != nil {
		return nil
	}
	m := map[string]bool{}
	for _, l := range strings.Fields(string(b)) {
		m[l] = true
	}
	return m
}

// nest: the call inside a chain of nested contexts (flags and hard limits), e.g. "4,0c" = a context requiring
// iosafe and inside it a context with a CPU limit
var nestChains = []string{"4,8", "1,2,4", "0c", "0m,8", "4,0t", "0,0", "8,0cm", "2,0,1"}

func (e *env) nest(fi *fnInfo, chain string) string {
	wdBegin(fmt.Sprintf("%s %s nest %s", fi.sym, hlib.Hex(fi.name), chain))
	defer wdEnd()
	mark("nest", 0, fi.sym)
	defer mark("end", 0, fi.sym)
	defs := rt.NewTable()
	for i, tok := range strings.Split(chain, ",") {
		d := rt.NewTable()
		digits := strings.TrimRight(tok, "cmt")
		f, _ := strconv.Atoi(digits)
		e.r.SetEnv(d, "flags", rt.StringValue(flagString(f)))
		kill := rt.NewTable()
		has := false
		for _, c := range tok[len(digits):] {
			has = true
			switch c {
			case 'c':
				e.r.SetEnv(kill, "cpu", rt.IntValue(1000000000))
			case 'm':
				e.r.SetEnv(kill, "memory", rt.IntValue(1000000000))
			case 't':
				e.r.SetEnv(kill, "millis", rt.IntValue(100000000))
			}
		}
		if has {
			e.r.SetEnv(d, "kill", rt.TableValue(kill))
		}
		e.r.SetTable(defs, rt.IntValue(int64(i+1)), rt.TableValue(d))
	}
	class, res, msg := hlib.PCall(e.r, e.runnest, rt.TableValue(defs), fi.val)
	if class != hlib.OK || len(res) < 2 {
		if m, ok := parseMissing(msg); ok {
			return "missing:" + strconv.Itoa(m)
		}
		return "harness-" + class
	}
	if ok, _ := res[0].TryBool(); ok {
		return "ok"
	}
	s, _ := res[1].ToString()
	if m, ok := parseMissing(s); ok {
		return "missing:" + strconv.Itoa(m)
	}
	return "err"
}

// keepsRunning: after a refused call (caught by pcall inside the context) the context goes on:
// returns the status of the context, whether the inner call was refused, and whether the call made
// AFTER it in the same context worked.
func (e *env) keepsRunning(fi *fnInfo, F int) string {
	wdBegin(fmt.Sprintf("%s %s %d then ()", fi.sym, hlib.Hex(fi.name), F))
	defer wdEnd()
	mark("case", F, fi.sym)
	defer mark("end", F, fi.sym)
	class, res, _ := hlib.PCall(e.r, e.runthen, rt.StringValue(flagString(F)), fi.val)
	if class != hlib.OK || len(res) < 4 {
		return "harness-" + class
	}
	status, _ := res[0].TryString()
	ok, _ := res[1].TryBool()
	msg, _ := res[2].ToString()
	after, _ := res[3].TryString()
	refused := "pass"
	if !ok {
		refused = "err"
		if m, isM := parseMissing(msg); isM {
			refused = "missing:" + strconv.Itoa(m)
		}
	}
	return status + "/" + refused + "/after=" + after
}

func main() {
	if len(os.Args) < 3 {
		fmt.Fprintln(os.Stderr, "usage: c08 run <quick|thorough> <sentinel-dir> [symbol-filter] | c08 one <sentinel-dir> <sym> <F> <spelling> <tuple>")
		os.Exit(2)
	}
	mode := os.Args[1]
	var err error
	devnull, err = os.OpenFile(os.DevNull, os.O_RDWR, 0)
	must(err)
	os.Stdin = devnull
	switch mode {
	case "run":
		tier, dir := os.Args[2], os.Args[3]
		filter := ""
		if len(os.Args) > 4 {
			filter = os.Args[4]
		}
		// C08_SHARD=i/n: this worker takes the functions whose index is i modulo n (its own sentinel directory)
		if sh := os.Getenv("C08_SHARD"); sh != "" {
			fmt.Sscanf(sh, "%d/%d", &shardI, &shardN)
		}
		if b, err := strconv.Atoi(os.Getenv("C08_BUDGET_S")); err == nil && b > 0 {
			budget = time.Duration(b) * time.Second
		}
		onlyEffectful = os.Getenv("C08_ONLY_EFFECTFUL") != ""
		go watchdog()
		runAll(tier, dir, filter)
		hlib.Emit("coverage", strconv.Itoa(planned), strconv.Itoa(done), fmt.Sprint(exhausted), fmt.Sprintf("%.1f", time.Since(startTime).Seconds()))
	default:
		fmt.Fprintln(os.Stderr, "unknown mode", mode)
		os.Exit(2)
	}
	hlib.Out.Flush()
}

var (
	shardI, shardN = 0, 1
	onlyEffectful  bool
)

func runAll(tier, dir, filter string) {
	dir, _ = filepath.Abs(dir)
	sent := newSentinel(dir)
	must(os.Chdir(filepath.Join(dir, "cwd")))
	os.Setenv("TMPDIR", filepath.Join(dir, "tmp"))
	os.Setenv("LUA_PATH", "")
	// golua's io library writes to os.Stdout: keep the protocol stream clean
	os.Stdout = devnull // hlib.Out keeps the real stdout

	e0 := newEnv(sent)
	fns := e0.enumerate()
	sort.SliceStable(fns, func(i, j int) bool { return fns[i].path < fns[j].path })
	for _, fi := range fns {
		hlib.Emit("fn", fi.sym, hlib.Hex(fi.name), strconv.Itoa(fi.flags), strconv.Itoa(fi.nArgs), fmt.Sprint(fi.etc), fi.via, hlib.Hex(fi.path))
	}
	effectful := effectfulSet()
	spellings := []string{"pcall", "call", "index", "wrap", "load"}
	// thorough = the quick volume for EVERY function first, then the exhaustive volume for as long as the time
	// budget lasts: running out of time thins the enumeration, it never drops a function
	passes := []string{tier}
	if tier == "thorough" {
		passes = []string{"quick", "thorough"}
	}
	for _, tier := range passes {
		rng := hlib.NewRng(hlib.Seed())
		for idx := range fns {
			if filter != "" && !strings.Contains(fns[idx].sym, filter) {
				continue
			}
			if idx%shardN != shardI {
				continue
			}
			if onlyEffectful && effectful != nil && !effectful[fns[idx].sym] {
				continue
			}
			// a fresh runtime per function: whatever a permitted call does to the runtime stays local
			var e *env
			var fi *fnInfo
			fresh := func() bool {
				e = newEnv(sent)
				defer sent.settle() // building the runtime opens the sentinel data file (io.lines seed)
				efns := e.enumerate()
				sort.SliceStable(efns, func(i, j int) bool { return efns[i].path < efns[j].path })
				if len(efns) != len(fns) || efns[idx].sym != fns[idx].sym || efns[idx].path != fns[idx].path {
					return false
				}
				fi = efns[idx]
				return true
			}
			if !fresh() {
				hlib.Emit("nondeterministic-enumeration", fns[idx].sym)
				continue
			}
			// a permitted call may leave the runtime unusable for the harness itself (debug.sethook with a
			// hook that raises): then the case is repeated once in a new runtime
			do := func(F int, sp string, t tuple) (string, string) {
				o, eff := e.oneCase(fi, F, sp, t)
				if o == "harness-err" && fresh() {
					o, eff = e.oneCase(fi, F, sp, t)
					fresh()
				}
				return o, eff
			}
			full, few, spellTuples := e.tuples(tier, fi, rng)
			for F := 0; F < 16; F++ {
				willRun := fi.flags&F == F
				if willRun && dangerous(fi) {
					hlib.Emit("case", fi.sym, hlib.Hex(fi.name), strconv.Itoa(F), "direct", "()", "skipped", "none")
					continue
				}
				// quick tier: the whole tuple pool for iosafe alone and for the function's own declaration (and, for
				// functions that do not declare everything, for no flags at all: that is where effects are expected);
				// the short list for the other subsets.  thorough: the whole pool everywhere.
				tuplesHere := few
				if tier == "thorough" || F == 4 || F == fi.flags || (F == 0 && fi.flags != 15) {
					tuplesHere = full
				}
				for _, t := range tuplesHere {
					if !withinBudget() {
						continue
					}
					o, eff := do(F, "direct", t)
					hlib.Emit("case", fi.sym, hlib.Hex(fi.name), strconv.Itoa(F), "direct", hex.EncodeToString([]byte(t.id)), o, eff)
				}
				for _, sp := range spellings {
					for _, t := range spellTuples {
						if !withinBudget() {
							continue
						}
						o, eff := do(F, sp, t)
						hlib.Emit("case", fi.sym, hlib.Hex(fi.name), strconv.Itoa(F), sp, hex.EncodeToString([]byte(t.id)), o, eff)
					}
				}
				if len(passes) == 2 && tier == "thorough" {
					continue // done in the first pass
				}
				if !withinBudget() {
					continue
				}
				th := e.keepsRunning(fi, F)
				if strings.HasPrefix(th, "harness-") && fresh() {
					th = e.keepsRunning(fi, F)
					fresh()
				}
				hlib.Emit("then", fi.sym, hlib.Hex(fi.name), strconv.Itoa(F), th)
				sent.settle() // the call made by the `then` probe may have had (permitted) effects
			}
			// calls from the edge of the context (handlers, callbacks, finalisers) for every function that can reach the outside
			isEff := fi.flags != 15
			if effectful != nil {
				isEff = effectful[fi.sym]
			}
			if len(passes) == 2 && tier == "quick" {
				isEff = false // the edge cases are enumerated once, with the thorough flag sets, in the second pass
			}
			if isEff && !dangerous(fi) {
				edgeFlags := []int{4, 8, 15}
				if tier == "thorough" {
					edgeFlags = []int{1, 2, 4, 5, 8, 12, 15}
				}
				for _, F := range edgeFlags {
					for _, sp := range edgeSpellings {
						for _, t := range few {
							if !withinBudget() {
								continue
							}
							o, eff := e.edgeCase(fi, F, sp, t)
							if o == "harness-err" && fresh() {
								o, eff = e.edgeCase(fi, F, sp, t)
								fresh()
							}
							hlib.Emit("case", fi.sym, hlib.Hex(fi.name), strconv.Itoa(F), sp, hex.EncodeToString([]byte(t.id)), o, eff)
						}
					}
				}
			}
			if !dangerous(fi) && !(len(passes) == 2 && tier == "thorough") {
				for _, ch := range nestChains {
					// a memory limit around code that ends a coroutine created outside it crashes the process
					// ("Too much mem released", a defect recorded under C06): keep those chains away from coroutines
					if strings.Contains(ch, "m") && (strings.Contains(fi.sym, "/coroutine.") || strings.Contains(fi.path, "coroutine")) {
						continue
					}
					if !withinBudget() {
						continue
					}
					o := e.nest(fi, ch)
					if strings.HasPrefix(o, "harness-") && fresh() {
						o = e.nest(fi, ch)
					}
					hlib.Emit("nest", fi.sym, hlib.Hex(fi.name), ch, o)
					sent.settle()
				}
			}
			hlib.Out.Flush()
		}
	}
}
