// c02: correspondence harness for numbers.  Runs the real golua pipeline
// (scanner → parser → compiler → VM → runtime/arith.go, comp.go, bitwise.go,
// numconv.go) on generated operands and prints one line per case:
//
//	<op> <x> [<y>] = <result>
//
// result: an encoded value, or E (Lua error), or P (Go panic).
package main

import (
	"fmt"
	"math"
	"os"
	"strconv"
	"strings"

	rt "github.com/arnodel/golua/runtime"
	"verifharness/hlib"
)

var binops = []struct{ name, src string }{
	{"add", "a + b"}, {"sub", "a - b"}, {"mul", "a * b"}, {"div", "a / b"}, {"mod", "a % b"},
	{"idiv", "a // b"}, {"pow", "a ^ b"},
	{"band", "a & b"}, {"bor", "a | b"}, {"bxor", "a ~ b"}, {"shl", "a << b"}, {"shr", "a >> b"},
	{"lt", "a < b"}, {"le", "a <= b"}, {"gt", "a > b"}, {"ge", "a >= b"}, {"eq", "a == b"}, {"ne", "a ~= b"},
	{"fmod", "math.fmod(a, b)"}, {"ult", "math.ult(a, b)"}, {"max", "math.max(a, b)"}, {"min", "math.min(a, b)"},
	{"keyeq", "(function() local t = {} t[a] = 1 return t[b] ~= nil end)()"},
	{"rawequal", "rawequal(a, b)"},
}

var unops = []struct{ name, src string }{
	{"unm", "-a"}, {"bnot", "~a"}, {"tointeger", "math.tointeger(a)"}, {"tonumber", "tonumber(a)"},
	{"abs", "math.abs(a)"}, {"floor", "math.floor(a)"}, {"ceil", "math.ceil(a)"}, {"mtype", "math.type(a)"},
	{"tofloat", "a + 0.0"}, {"strarith", "a + 0"}, {"strbit", "a | 0"}, {"fidx", "(function() local t = {} t[a] = 1 local k = next(t) return k end)()"},
}

type env struct {
	r   *rt.Runtime
	bin map[string]rt.Value
	un  map[string]rt.Value
}

func newEnv() *env {
	r, _ := hlib.NewRuntime(os.Stderr)
	e := &env{r: r, bin: map[string]rt.Value{}, un: map[string]rt.Value{}}
	for _, op := range binops {
		e.bin[op.name] = e.compile("return function(a, b) return " + op.src + " end")
	}
	for _, op := range unops {
		e.un[op.name] = e.compile("return function(a) return " + op.src + " end")
	}
	return e
}

func (e *env) compile(src string) rt.Value {
	c, err := hlib.Load(e.r, "c02", src)
	if err != nil {
		fmt.Fprintln(os.Stderr, "harness: cannot compile", src, err)
		os.Exit(2)
	}
	class, res, msg := hlib.PCall(e.r, rt.FunctionValue(c))
	if class != hlib.OK || len(res) != 1 {
		fmt.Fprintln(os.Stderr, "harness: cannot run", src, msg)
		os.Exit(2)
	}
	return res[0]
}

func (e *env) call(f rt.Value, args ...rt.Value) string {
	class, res, _ := hlib.PCall(e.r, f, args...)
	switch class {
	case hlib.OK:
		if len(res) == 0 {
			return "n"
		}
		return hlib.Enc(res[0])
	case hlib.ERR:
		return "E"
	}
	return "P"
}

func iv(n int64) rt.Value   { return rt.IntValue(n) }
func fv(f float64) rt.Value { return rt.FloatValue(f) }

func intLattice(thorough bool) []int64 {
	seen := map[int64]bool{}
	var out []int64
	add := func(n int64) {
		if !seen[n] {
			seen[n] = true
			out = append(out, n)
		}
	}
	for _, n := range []int64{0, 1, 2, 3, 5, 7, 10, 63, 64, 65, 255, 1000003} {
		add(n)
		add(-n)
	}
	for _, k := range []uint{31, 32, 52, 53, 54, 62} {
		b := int64(1) << k
		for d := int64(-2); d <= 2; d++ {
			add(b + d)
			add(-(b + d))
		}
	}
	w := int64(3)
	if thorough {
		w = 513
	}
	for d := int64(0); d <= w; d++ {
		add(math.MaxInt64 - d)
		add(math.MinInt64 + d)
	}
	for _, d := range []int64{255, 256, 257, 511, 512, 513, 1023, 1024, 1025} {
		add(math.MaxInt64 - d)
		add(math.MinInt64 + d)
	}
	return out
}

func floatLattice(thorough bool) []float64 {
	seen := map[uint64]bool{}
	var out []float64
	add := func(f float64) {
		b := math.Float64bits(f)
		if !seen[b] {
			seen[b] = true
			out = append(out, f)
		}
	}
	for _, f := range []float64{0, math.SmallestNonzeroFloat64, 0.5, 1, 1.5, 2, 2.5, 3, 7.25, 63, 64, 65, 1e15, 1e100, math.MaxFloat64, math.Inf(1)} {
		add(f)
		add(-f)
	}
	add(math.NaN())
	for _, k := range []int{31, 32, 52, 53, 54, 62, 63, 64} {
		b := math.Ldexp(1, k)
		f := b
		for i := 0; i < 3; i++ {
			f = math.Nextafter(f, math.Inf(-1))
		}
		n := 7
		if thorough && k >= 62 {
			for i := 0; i < 6; i++ {
				f = math.Nextafter(f, math.Inf(-1))
			}
			n = 19
		}
		for i := 0; i < n; i++ {
			add(f)
			add(-f)
			f = math.Nextafter(f, math.Inf(1))
		}
		add(b + 0.5)
		add(-(b + 0.5))
	}
	return out
}

func main() {
	if len(os.Args) < 2 {
		fmt.Fprintln(os.Stderr, "usage: c02 lattice quick|thorough | random N | strings quick|thorough | replay <op> <x> [<y>]")
		os.Exit(2)
	}
	defer hlib.Out.Flush()
	e := newEnv()
	switch os.Args[1] {
	case "lattice":
		thorough := len(os.Args) > 2 && os.Args[2] == "thorough"
		var vals []rt.Value
		for _, n := range intLattice(thorough) {
			vals = append(vals, iv(n))
		}
		for _, f := range floatLattice(thorough) {
			vals = append(vals, fv(f))
		}
		e.cross(vals, !thorough)
	case "random":
		n, _ := strconv.Atoi(os.Args[2])
		rng := hlib.NewRng(hlib.Seed())
		for i := 0; i < n; i++ {
			x, y := randNum(rng), randNum(rng)
			op := binops[rng.Below(len(binops))]
			hlib.Emit(op.name, hlib.Enc(x), hlib.Enc(y), "=", e.call(e.bin[op.name], x, y))
			uop := unops[rng.Below(len(unops))]
			hlib.Emit(uop.name, hlib.Enc(x), "=", e.call(e.un[uop.name], x))
		}
	case "strings":
		e.stringsMode(len(os.Args) > 2 && os.Args[2] == "thorough")
	case "replay":
		if os.Args[2] == "literal" {
			x, err := hlib.Dec(os.Args[3])
			if err != nil {
				fmt.Fprintln(os.Stderr, err)
				os.Exit(2)
			}
			hlib.Emit("literal", os.Args[3], "=", e.literal(x.AsString()))
			return
		}
		if un, ok := strOps[os.Args[2]]; ok {
			x, err := hlib.Dec(os.Args[3])
			if err != nil {
				fmt.Fprintln(os.Stderr, err)
				os.Exit(2)
			}
			hlib.Emit(os.Args[2], os.Args[3], "=", e.call(e.un[un], x))
			return
		}
		x, err := hlib.Dec(os.Args[3])
		if err != nil {
			fmt.Fprintln(os.Stderr, err)
			os.Exit(2)
		}
		if len(os.Args) > 4 {
			y, err := hlib.Dec(os.Args[4])
			if err != nil {
				fmt.Fprintln(os.Stderr, err)
				os.Exit(2)
			}
			hlib.Emit(os.Args[2], os.Args[3], os.Args[4], "=", e.call(e.bin[os.Args[2]], x, y))
		} else {
			hlib.Emit(os.Args[2], os.Args[3], "=", e.call(e.un[os.Args[2]], x))
		}
	default:
		fmt.Fprintln(os.Stderr, "unknown mode")
		os.Exit(2)
	}
}

func (e *env) cross(vals []rt.Value, all bool) {
	for _, op := range binops {
		f := e.bin[op.name]
		for _, x := range vals {
			for _, y := range vals {
				hlib.Emit(op.name, hlib.Enc(x), hlib.Enc(y), "=", e.call(f, x, y))
			}
		}
	}
	for _, op := range unops {
		f := e.un[op.name]
		for _, x := range vals {
			hlib.Emit(op.name, hlib.Enc(x), "=", e.call(f, x))
		}
	}
}

func randNum(rng *hlib.Rng) rt.Value {
	switch rng.Below(8) {
	case 0:
		return iv(int64(rng.Next()))
	case 1:
		return iv(int64(rng.Next()) >> uint(rng.Below(64)))
	case 2:
		return fv(math.Float64frombits(rng.Next()))
	case 3:
		// integral float near the int64 range
		return fv(float64(int64(rng.Next()) >> uint(rng.Below(12))))
	case 4:
		k := rng.Below(66)
		return fv(math.Ldexp(1, k) + float64(int64(rng.Below(5))-2))
	case 5:
		k := uint(rng.Below(63))
		return iv((int64(1) << k) + int64(rng.Below(5)) - 2)
	case 6:
		return fv(float64(int64(rng.Below(2001))-1000) / 8)
	default:
		return iv(int64(rng.Below(201)) - 100)
	}
}

// ---------------------------------------------------------------------------
// numeral strings: tonumber(s), s + 0 and the literal `return <s>` through the
// real scanner / parser / StringToNumber.

// line op -> compiled unary function used for it
var strOps = map[string]string{"tonumberS": "tonumber", "strarithS": "strarith"}

func (e *env) literal(s string) (res string) {
	defer func() {
		if p := recover(); p != nil {
			res = "P"
		}
	}()
	c, err := hlib.Load(e.r, "lit", "return "+s)
	if err != nil {
		return "E"
	}
	class, vals, _ := hlib.PCall(e.r, rt.FunctionValue(c))
	switch class {
	case hlib.OK:
		if len(vals) != 1 {
			return "n"
		}
		return hlib.Enc(vals[0])
	case hlib.ERR:
		return "E"
	}
	return "P"
}

func (e *env) emitString(s string, lit bool) {
	v := rt.StringValue(s)
	h := "s" + hlib.Hex(s)
	hlib.Emit("tonumberS", h, "=", e.call(e.un["tonumber"], v))
	hlib.Emit("strarithS", h, "=", e.call(e.un["strarith"], v))
	if lit {
		hlib.Emit("literal", h, "=", e.literal(s))
	}
}

func startsLikeNumeral(s string) bool {
	if len(s) > 0 && s[0] >= '0' && s[0] <= '9' {
		return true
	}
	return len(s) > 1 && s[0] == '.' && s[1] >= '0' && s[1] <= '9'
}

var numAlphabet = []byte("019afxX.ep+-_ ni")
var numAlphabetSmall = []byte("09fx.ep-_")

func (e *env) allStrings(alpha []byte, n int) {
	buf := make([]byte, n)
	var rec func(i int)
	rec = func(i int) {
		if i == n {
			s := string(buf)
			e.emitString(s, startsLikeNumeral(s) && !strings.ContainsAny(s, " +-_"))
			return
		}
		for _, c := range alpha {
			buf[i] = c
			rec(i + 1)
		}
	}
	rec(0)
}

var numCorpus = []string{
	"+-5", "++5", "-+5", "--5", "+ 5", "1_0.5", "1_0", "0x1_0", "0x1_0p0", "1_0e1", "1__0.5", "_1.5",
	"0xZZ00000000000000001", "0x-00000000000000001", "0x 0000000000000001", "0x10000000000000000", "0xffffffffffffffffff",
	"-0xffffffffffffffff", "-0x8000000000000000", "0x7fffffffffffffff", "0x8000000000000000",
	"\xc2\xa05", "5\xc2\xa0", "\xc2\x855", "\xe2\x80\x835", "\xe3\x80\x805", "\xa05", "5\x00", "\x005", "5\x00 ",
	"inf", "-inf", "+inf", "Inf", "INF", "infinity", "Infinity", "nan", "NaN", "-nan", "+Infinity", "0xinf", "in.f", "i.nf", "nan.", ".nan", "infe", "einf", "1einf",
	"0x1p", "0x1p+", "0x1p-", "0xp1", "0x.p1", "0x", "0X", "-0x", "0x.", "0x.8", "0x8.", "0x8.p1", "0x.8p1", "0x1P-2", "0X1.8", "0x1.8p0p0", "0x1e5", "0x1e+5", "0xep1",
	"1e", "1e+", "1e-", "e1", ".e1", "1.e1", ".5", "5.", ".", "", " ", "\t\n\v\f\r 7 \t\n\v\f\r", "1 2", "- 5", "-5", "+5", "-0", "+0", "-0.0", "0.0", "00", "007", "08", "1e5", "1E5", "1e+5", "1e-5", "1e05",
	"9223372036854775807", "9223372036854775808", "-9223372036854775808", "-9223372036854775809", "+9223372036854775808", "18446744073709551615", "18446744073709551616",
	"09223372036854775807", "0009223372036854775808", "9223372036854775807.0", "9223372036854775808e0",
	"9007199254740993", "9007199254740993.0", "9007199254740992.5", "9007199254740993e0", "0x20000000000001p0", "0x1.00000000000008p0", "0x1.000000000000080000000000000000000001p0", "0x1.fffffffffffff8p0", "0x1.fffffffffffff7ffffffffffffffp0",
	"1e308", "1.7976931348623157e308", "1.7976931348623158e308", "1.7976931348623159e308", "1e309", "1e400", "-1e400", "1e999999999999999999999", "1e-999999999999999999999", "0e999999999999999999999", "0x1p999999999999999999999", "0x1p-999999999999999999999", "0x0p999999999999999999999",
	"4.9e-324", "2.4703282292062327e-324", "2.4703282292062328e-324", "2.47032822920623272088284396434110686182529901307162382212792841250337753635104375932649918180817996189898282347722858865463328355177969898199387398005390939063150356595155702263922908583924491051844359318028499365361525003193704576782492193656236698636584807570015857692699037063119282795585513329278343384093519780155312465972635795746227664652728272200563740064854999770965994704540208281662262378573934507363390079677619305775067401763246736009689513405355374585166611342237666786041621596804619144672918403005300575308490487653917113865916462395249126236538818796362393732804238910186723484976682350898633885879256283027559956575244555072551893136908362547791869486679949683240497058210285131854513962138377228261454376934125320985913276672363281251e-324",
	"2.2250738585072014e-308", "2.2250738585072011e-308", "0x1p-1074", "0x1p-1075", "0x1.000001p-1075", "0x0.8p-1074", "0x1p1023", "0x1p1024", "0x1.fffffffffffffp1023", "0x1.fffffffffffff8p1023", "0x1.fffffffffffff7p1023",
	"0.1", "0.2", "0.3", "1.5", "123456789012345678901234567890", "0.000000000000000000000000000000000000000000001", "100000000000000000000000.0", "8.5070591730234615865843651857942052864e37",
	"1e23", "8.41e21", "9e15", "1.0000000000000002", "1.00000000000000011102230246251565404236316680908203125", "1.00000000000000011102230246251565404236316680908203126", "1.00000000000000011102230246251565404236316680908203124",
	"0b101", "0o17", "0b1e1", "1p5", "1f", "1d", "1L", "1.5f", "0x1.8P0", "１", "٣", "1,5", "1.5.5", "1..5", "1e5.5", "1e5e5",
}

// random numerals from the Lua numeral grammar
func genNumeral(rng *hlib.Rng) string {
	digits := func(alpha string, min, max int) string {
		n := min + rng.Below(max-min+1)
		b := make([]byte, n)
		for i := range b {
			b[i] = alpha[rng.Below(len(alpha))]
		}
		return string(b)
	}
	const dec, hex = "0123456789", "0123456789abcdefABCDEF"
	boundary := []string{"9223372036854775807", "9223372036854775808", "9223372036854775809", "18446744073709551615", "18446744073709551616",
		"9007199254740992", "9007199254740993", "4503599627370496", "179769313486231570", "17976931348623158", "22250738585072014", "49", "24703282292062327", "24703282292062328"}
	var s string
	switch rng.Below(8) {
	case 0: // decimal integer
		if rng.Chance(40) {
			s = boundary[rng.Below(len(boundary))]
		} else {
			s = digits(dec, 1, 22)
		}
	case 1: // hex integer
		pre := []string{"0x", "0X"}[rng.Below(2)]
		if rng.Chance(40) {
			s = pre + digits("0f8", 0, 3) + []string{"7fffffffffffffff", "8000000000000000", "ffffffffffffffff", "0000000000000001"}[rng.Below(4)]
		} else {
			s = pre + digits(hex, 1, 20)
		}
	case 2, 3, 4: // decimal float
		var m string
		if rng.Chance(30) {
			m = boundary[rng.Below(len(boundary))]
			if rng.Chance(50) {
				k := 1 + rng.Below(len(m)-1)
				m = m[:k] + "." + m[k:]
			}
		} else {
			switch rng.Below(4) {
			case 0:
				m = digits(dec, 1, 20) + "."
			case 1:
				m = "." + digits(dec, 1, 20)
			case 2:
				m = digits(dec, 1, 20) + "." + digits(dec, 1, 25)
			default:
				m = digits(dec, 1, 20)
			}
		}
		s = m
		if rng.Chance(70) || !strings.Contains(m, ".") {
			ex := []int{0, 1, 5, 22, 23, 300, 308, 309, 323, 324, 325, 400, 5000}[rng.Below(13)]
			if rng.Chance(30) {
				ex = rng.Below(340)
			}
			s += []string{"e", "E"}[rng.Below(2)] + []string{"", "+", "-"}[rng.Below(3)] + strconv.Itoa(ex)
		}
	default: // hex float
		pre := []string{"0x", "0X"}[rng.Below(2)]
		var m string
		switch rng.Below(4) {
		case 0:
			m = digits(hex, 1, 18) + "."
		case 1:
			m = "." + digits(hex, 1, 18)
		case 2:
			m = digits(hex, 1, 16) + "." + digits(hex, 1, 20)
		default:
			m = digits(hex, 1, 18)
		}
		if rng.Chance(30) {
			m = []string{"1.fffffffffffff8", "1.fffffffffffff7", "1.00000000000008", "1.000000000000080000001", "1.00000000000018", "20000000000001", "0.8", "0.80000000000001"}[rng.Below(8)]
		}
		s = pre + m
		if rng.Chance(75) || !strings.Contains(m, ".") {
			ex := []int{0, 1, 4, 52, 53, 63, 64, 1022, 1023, 1024, 1074, 1075, 1076, 2000}[rng.Below(14)]
			if rng.Chance(30) {
				ex = rng.Below(1100)
			}
			s += []string{"p", "P"}[rng.Below(2)] + []string{"", "+", "-"}[rng.Below(3)] + strconv.Itoa(ex)
		}
	}
	return s
}

var corruptChars = []string{"_", "+", "-", " ", ".", "e", "p", "x", "n", "0", "9", "f", "g", "\xc2\xa0", "\x00", "\t", "E", "P", "X", "i", "\n", "\xa0", "'", "z"}

func (e *env) stringsMode(thorough bool) {
	for _, s := range numCorpus {
		e.emitString(s, startsLikeNumeral(s))
	}
	maxLen := 4
	if thorough {
		maxLen = 5
	}
	for n := 0; n <= maxLen; n++ {
		e.allStrings(numAlphabet, n)
	}
	if thorough {
		e.allStrings(numAlphabetSmall, 6)
	}
	rng := hlib.NewRng(hlib.Seed() ^ 0x5eed)
	count := 4000
	if thorough {
		count = 100000
	}
	ws := []string{"", "", " ", "\t", "\n ", " \v\f\r"}
	for i := 0; i < count; i++ {
		num := genNumeral(rng)
		e.emitString(num, true)
		sign := []string{"", "", "-", "+"}[rng.Below(4)]
		dressed := ws[rng.Below(len(ws))] + sign + num + ws[rng.Below(len(ws))]
		e.emitString(dressed, false)
		// single-character corruptions of the dressed numeral
		for k := 0; k < 3; k++ {
			b := dressed
			pos := rng.Below(len(b) + 1)
			c := corruptChars[rng.Below(len(corruptChars))]
			var m string
			switch rng.Below(3) {
			case 0: // insert
				m = b[:pos] + c + b[pos:]
			case 1: // replace
				if pos == len(b) {
					pos--
				}
				m = b[:pos] + c + b[pos+1:]
			default: // delete
				if pos == len(b) {
					pos--
				}
				m = b[:pos] + b[pos+1:]
			}
			e.emitString(m, startsLikeNumeral(m) && !strings.ContainsAny(m, " \t\n\v\f\r+-"))
		}
	}
}
