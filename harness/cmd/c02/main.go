// c02: correspondence harness for numbers.  Runs the real golua pipeline
// (scanner → parser → compiler → VM → runtime/arith.go, comp.go, bitwise.go,
// numconv.go) on generated operands and prints one line per case:
//
//	<op> <x> [<y>] = <result>
//
// result: an encoded value, or E (Lua error), or P (Go panic).
package main

import (
	"fmt"
	"math"
	"os"
	"strconv"

	rt "github.com/arnodel/golua/runtime"
	"verifharness/hlib"
)

var binops = []struct{ name, src string }{
	{"add", "a + b"}, {"sub", "a - b"}, {"mul", "a * b"}, {"div", "a / b"}, {"mod", "a % b"},
	{"idiv", "a // b"}, {"pow", "a ^ b"},
	{"band", "a & b"}, {"bor", "a | b"}, {"bxor", "a ~ b"}, {"shl", "a << b"}, {"shr", "a >> b"},
	{"lt", "a < b"}, {"le", "a <= b"}, {"gt", "a > b"}, {"ge", "a >= b"}, {"eq", "a == b"}, {"ne", "a ~= b"},
	{"fmod", "math.fmod(a, b)"}, {"ult", "math.ult(a, b)"}, {"max", "math.max(a, b)"}, {"min", "math.min(a, b)"},
	{"keyeq", "(function() local t = {} t[a] = 1 return t[b] ~= nil end)()"},
	{"rawequal", "rawequal(a, b)"},
}

var unops = []struct{ name, src string }{
	{"unm", "-a"}, {"bnot", "~a"}, {"tointeger", "math.tointeger(a)"}, {"tonumber", "tonumber(a)"},
	{"abs", "math.abs(a)"}, {"floor", "math.floor(a)"}, {"ceil", "math.ceil(a)"}, {"mtype", "math.type(a)"},
	{"tofloat", "a + 0.0"}, {"strarith", "a + 0"}, {"strbit", "a | 0"}, {"fidx", "(function() local t = {} t[a] = 1 local k = next(t) return k end)()"},
}

type env struct {
	r   *rt.Runtime
	bin map[string]rt.Value
	un  map[string]rt.Value
}

func newEnv() *env {
	r, _ := hlib.NewRuntime(os.Stderr)
	e := &env{r: r, bin: map[string]rt.Value{}, un: map[string]rt.Value{}}
	for _, op := range binops {
		e.bin[op.name] = e.compile("return function(a, b) return " + op.src + " end")
	}
	for _, op := range unops {
		e.un[op.name] = e.compile("return function(a) return " + op.src + " end")
	}
	return e
}

func (e *env) compile(src string) rt.Value {
	c, err := hlib.Load(e.r, "c02", src)
	if err != nil {
		fmt.Fprintln(os.Stderr, "harness: cannot compile", src, err)
		os.Exit(2)
	}
	class, res, msg := hlib.PCall(e.r, rt.FunctionValue(c))
	if class != hlib.OK || len(res) != 1 {
		fmt.Fprintln(os.Stderr, "harness: cannot run", src, msg)
		os.Exit(2)
	}
	return res[0]
}

func (e *env) call(f rt.Value, args ...rt.Value) string {
	class, res, _ := hlib.PCall(e.r, f, args...)
	switch class {
	case hlib.OK:
		if len(res) == 0 {
			return "n"
		}
		return hlib.Enc(res[0])
	case hlib.ERR:
		return "E"
	}
	return "P"
}

func iv(n int64) rt.Value   { return rt.IntValue(n) }
func fv(f float64) rt.Value { return rt.FloatValue(f) }

func intLattice(thorough bool) []int64 {
	seen := map[int64]bool{}
	var out []int64
	add := func(n int64) {
		if !seen[n] {
			seen[n] = true
			out = append(out, n)
		}
	}
	for _, n := range []int64{0, 1, 2, 3, 5, 7, 10, 63, 64, 65, 255, 1000003} {
		add(n)
		add(-n)
	}
	for _, k := range []uint{31, 32, 52, 53, 54, 62} {
		b := int64(1) << k
		for d := int64(-2); d <= 2; d++ {
			add(b + d)
			add(-(b + d))
		}
	}
	w := int64(3)
	if thorough {
		w = 513
	}
	for d := int64(0); d <= w; d++ {
		add(math.MaxInt64 - d)
		add(math.MinInt64 + d)
	}
	for _, d := range []int64{255, 256, 257, 511, 512, 513, 1023, 1024, 1025} {
		add(math.MaxInt64 - d)
		add(math.MinInt64 + d)
	}
	return out
}

func floatLattice(thorough bool) []float64 {
	seen := map[uint64]bool{}
	var out []float64
	add := func(f float64) {
		b := math.Float64bits(f)
		if !seen[b] {
			seen[b] = true
			out = append(out, f)
		}
	}
	for _, f := range []float64{0, math.SmallestNonzeroFloat64, 0.5, 1, 1.5, 2, 2.5, 3, 7.25, 63, 64, 65, 1e15, 1e100, math.MaxFloat64, math.Inf(1)} {
		add(f)
		add(-f)
	}
	add(math.NaN())
	for _, k := range []int{31, 32, 52, 53, 54, 62, 63, 64} {
		b := math.Ldexp(1, k)
		f := b
		for i := 0; i < 3; i++ {
			f = math.Nextafter(f, math.Inf(-1))
		}
		n := 7
		if thorough && k >= 62 {
			for i := 0; i < 6; i++ {
				f = math.Nextafter(f, math.Inf(-1))
			}
			n = 19
		}
		for i := 0; i < n; i++ {
			add(f)
			add(-f)
			f = math.Nextafter(f, math.Inf(1))
		}
		add(b + 0.5)
		add(-(b + 0.5))
	}
	return out
}

func main() {
	if len(os.Args) < 2 {
		fmt.Fprintln(os.Stderr, "usage: c02 lattice quick|thorough | random N | strings quick|thorough | replay <op> <x> [<y>]")
		os.Exit(2)
	}
	defer hlib.Out.Flush()
	e := newEnv()
	switch os.Args[1] {
	case "lattice":
		thorough := len(os.Args) > 2 && os.Args[2] == "thorough"
		var vals []rt.Value
		for _, n := range intLattice(thorough) {
			vals = append(vals, iv(n))
		}
		for _, f := range floatLattice(thorough) {
			vals = append(vals, fv(f))
		}
		e.cross(vals, !thorough)
	case "random":
		n, _ := strconv.Atoi(os.Args[2])
		rng := hlib.NewRng(hlib.Seed())
		for i := 0; i < n; i++ {
			x, y := randNum(rng), randNum(rng)
			op := binops[rng.Below(len(binops))]
			hlib.Emit(op.name, hlib.Enc(x), hlib.Enc(y), "=", e.call(e.bin[op.name], x, y))
			uop := unops[rng.Below(len(unops))]
			hlib.Emit(uop.name, hlib.Enc(x), "=", e.call(e.un[uop.name], x))
		}
	case "replay":
		x, err := hlib.Dec(os.Args[3])
		if err != nil {
			fmt.Fprintln(os.Stderr, err)
			os.Exit(2)
		}
		if len(os.Args) > 4 {
			y, err := hlib.Dec(os.Args[4])
			if err != nil {
				fmt.Fprintln(os.Stderr, err)
				os.Exit(2)
			}
			hlib.Emit(os.Args[2], os.Args[3], os.Args[4], "=", e.call(e.bin[os.Args[2]], x, y))
		} else {
			hlib.Emit(os.Args[2], os.Args[3], "=", e.call(e.un[os.Args[2]], x))
		}
	default:
		fmt.Fprintln(os.Stderr, "unknown mode")
		os.Exit(2)
	}
}

func (e *env) cross(vals []rt.Value, all bool) {
	for _, op := range binops {
		f := e.bin[op.name]
		for _, x := range vals {
			for _, y := range vals {
				hlib.Emit(op.name, hlib.Enc(x), hlib.Enc(y), "=", e.call(f, x, y))
			}
		}
	}
	for _, op := range unops {
		f := e.un[op.name]
		for _, x := range vals {
			hlib.Emit(op.name, hlib.Enc(x), "=", e.call(f, x))
		}
	}
}

func randNum(rng *hlib.Rng) rt.Value {
	switch rng.Below(8) {
	case 0:
		return iv(int64(rng.Next()))
	case 1:
		return iv(int64(rng.Next()) >> uint(rng.Below(64)))
	case 2:
		return fv(math.Float64frombits(rng.Next()))
	case 3:
		// integral float near the int64 range
		return fv(float64(int64(rng.Next()) >> uint(rng.Below(12))))
	case 4:
		k := rng.Below(66)
		return fv(math.Ldexp(1, k) + float64(int64(rng.Below(5))-2))
	case 5:
		k := uint(rng.Below(63))
		return iv((int64(1) << k) + int64(rng.Below(5)) - 2)
	case 6:
		return fv(float64(int64(rng.Below(2001))-1000) / 8)
	default:
		return iv(int64(rng.Below(201)) - 100)
	}
}
