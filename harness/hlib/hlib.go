// Package hlib: shared helpers for the correspondence harnesses — PRNG, value
// encoding for the line protocol, runtime construction, protected calls.
package hlib

import (
	"bufio"
	"encoding/hex"
	"fmt"
	"io"
	"math"
	"os"
	"strconv"
	"strings"

	"github.com/arnodel/golua/lib"
	rt "github.com/arnodel/golua/runtime"
)

// Rng is splitmix64 (same as checks/common.py Rng).
type Rng struct{ s uint64 }

func NewRng(seed uint64) *Rng { return &Rng{seed} }
func (r *Rng) Next() uint64 {
	r.s += 0x9E3779B97F4A7C15
	z := r.s
	z = (z ^ (z >> 30)) * 0xBF58476D1CE4E5B9
	z = (z ^ (z >> 27)) * 0x94D049BB133111EB
	return z ^ (z >> 31)
}
func (r *Rng) Below(n int) int  { return int(r.Next() % uint64(n)) }
func (r *Rng) Bool() bool       { return r.Next()&1 == 1 }
func (r *Rng) Chance(p int) bool { return r.Below(100) < p }

// Seed reads VERIF_SEED (default 1).
func Seed() uint64 {
	if s := os.Getenv("VERIF_SEED"); s != "" {
		if n, err := strconv.ParseInt(s, 10, 64); err == nil {
			return uint64(n)
		}
	}
	return 1
}

// Enc encodes a value for the line protocol:
// n | t | F | i<dec> | f<16 hex bits> | s<hex bytes> | o<type> (other).
func Enc(v rt.Value) string {
	switch v.Type() {
	case rt.NilType:
		return "n"
	case rt.BoolType:
		if v.AsBool() {
			return "t"
		}
		return "F"
	case rt.IntType:
		return "i" + strconv.FormatInt(v.AsInt(), 10)
	case rt.FloatType:
		return fmt.Sprintf("f%016x", math.Float64bits(v.AsFloat()))
	case rt.StringType:
		return "s" + hex.EncodeToString([]byte(v.AsString()))
	}
	return "o" + v.TypeName()
}

// Dec decodes the above (only n t F i f s).
func Dec(s string) (rt.Value, error) {
	if s == "" {
		return rt.NilValue, fmt.Errorf("empty value")
	}
	switch s[0] {
	case 'n':
		return rt.NilValue, nil
	case 't':
		return rt.BoolValue(true), nil
	case 'F':
		return rt.BoolValue(false), nil
	case 'i':
		n, err := strconv.ParseInt(s[1:], 10, 64)
		return rt.IntValue(n), err
	case 'f':
		b, err := strconv.ParseUint(s[1:], 16, 64)
		return rt.FloatValue(math.Float64frombits(b)), err
	case 's':
		b, err := hex.DecodeString(s[1:])
		return rt.StringValue(string(b)), err
	}
	return rt.NilValue, fmt.Errorf("bad value %q", s)
}

// NewRuntime returns a runtime with the standard library loaded, writing to w.
func NewRuntime(w io.Writer, opts ...rt.RuntimeOption) (*rt.Runtime, func()) {
	r := rt.New(w, opts...)
	cleanup := lib.LoadAll(r)
	return r, cleanup
}

// Load compiles a chunk in r's global environment.
func Load(r *rt.Runtime, name, src string) (*rt.Closure, error) {
	return r.CompileAndLoadLuaChunk(name, []byte(src), rt.TableValue(r.GlobalEnv()))
}

// Outcome classes of a protected call.
const (
	OK     = "ok"
	ERR    = "err"
	KILLED = "killed"
	PANIC  = "panic"
)

// PCall calls f with args, recovering Go panics.  Returns class, results, message.
func PCall(r *rt.Runtime, f rt.Value, args ...rt.Value) (class string, res []rt.Value, msg string) {
	defer func() {
		if p := recover(); p != nil {
			if _, ok := p.(rt.ContextTerminationError); ok {
				class, msg = KILLED, fmt.Sprint(p)
				return
			}
			class, msg = PANIC, fmt.Sprint(p)
		}
	}()
	term := rt.NewTerminationWith(nil, 0, true)
	err := rt.Call(r.MainThread(), f, args, term)
	if err != nil {
		return ERR, nil, err.Error()
	}
	return OK, append([]rt.Value(nil), term.Etc()...), ""
}

// ErrValue extracts the Lua error value if err is a *rt.Error.
func ErrValue(err error) (rt.Value, bool) {
	if e, ok := rt.AsError(err); ok {
		return e.Value(), true
	}
	return rt.NilValue, false
}

// Out is a buffered stdout writer; call Flush at exit.
var Out = bufio.NewWriterSize(os.Stdout, 1<<20)

func Emit(parts ...string) {
	Out.WriteString(strings.Join(parts, " "))
	Out.WriteByte('\n')
}

func Hex(s string) string { return hex.EncodeToString([]byte(s)) }
