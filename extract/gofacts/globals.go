// globals.go — C20: which functions write memory reachable from a package-level variable after init.
//
// For every package-level `var g` of the module and every function f0 that mentions g (or calls an
// accessor returning memory of g), a taint is started at g inside f0 and followed
//   - through address arithmetic, loads of pointer-like values, conversions, interface boxing, phis,
//   - into "carriers" (local allocations into which a tainted pointer is stored: variadic slices,
//     spilled parameters, struct literals), from which only values of the stored type come out tainted,
//   - down into every module callee that receives a tainted argument (context-insensitively),
// and every store / map update / delete / append / call of a known external mutator through a tainted
// address is reported as a write of g by f0.  Sound only up to these rules (no return-value flow other
// than one-level accessors, no flow through the heap other than carriers); in the trusted base.
package main

import (
	"fmt"
	"go/token"
	"go/types"
	"sort"
	"strings"

	"golang.org/x/tools/go/ssa"
)

// processGlobal: functions outside the module that write process-wide state; calling one from module
// code is reported as a write of the pseudo-variable named here.
func processGlobal(f *ssa.Function) string {
	if f.Parent() != nil || f.Signature.Recv() != nil {
		return ""
	}
	pkg, name := fnPkgPath(f), f.Name()
	switch pkg {
	case "math/rand", "math/rand/v2":
		switch name {
		case "New", "NewSource", "NewZipf", "NewPCG", "NewChaCha8", "init":
			return ""
		}
		return pkg + ".globalRand"
	case "runtime/debug":
		if strings.HasPrefix(name, "Set") {
			return "runtime/debug." + name
		}
	case "os":
		switch name {
		case "Setenv", "Unsetenv", "Clearenv":
			return "os.environ"
		case "Chdir":
			return "os.cwd"
		}
	case "log":
		if strings.HasPrefix(name, "Set") {
			return "log.std"
		}
	case "runtime":
		if name == "GOMAXPROCS" {
			return "runtime.GOMAXPROCS"
		}
	case "time":
		if name == "LoadLocation" && false {
			return ""
		}
	}
	return ""
}

type wr struct {
	kind string
	pos  token.Pos
}

type taintRun struct {
	g       *graph
	ptr     map[ssa.Value]bool
	carrier map[ssa.Value]map[string]types.Type
	dirty   map[*ssa.Function]bool
	writes  []wr
	seen    map[string]bool
	budget  int
	escapes map[fieldKey]bool // struct fields into which memory of the variable was stored (it lives on in objects)
	direct  map[ssa.Value]bool // in the function where the taint starts: values read straight out of the variable
}

// directlyFrom: the values of f that are read straight out of the seeds (address arithmetic, loads, conversions,
// boxing) — not through a local copy, a call or a callee
func directlyFrom(f *ssa.Function, seeds []ssa.Value) map[ssa.Value]bool {
	d := map[ssa.Value]bool{}
	for _, s := range seeds {
		d[s] = true
	}
	for changed := true; changed; {
		changed = false
		add := func(v ssa.Value, from ssa.Value) {
			if d[from] && !d[v] {
				d[v] = true
				changed = true
			}
		}
		for _, b := range f.Blocks {
			for _, in := range b.Instrs {
				switch x := in.(type) {
				case *ssa.FieldAddr:
					add(x, x.X)
				case *ssa.IndexAddr:
					add(x, x.X)
				case *ssa.Field:
					add(x, x.X)
				case *ssa.Index:
					add(x, x.X)
				case *ssa.UnOp:
					if x.Op == token.MUL {
						add(x, x.X)
					}
				case *ssa.ChangeType:
					add(x, x.X)
				case *ssa.ChangeInterface:
					add(x, x.X)
				case *ssa.MakeInterface:
					add(x, x.X)
				case *ssa.Convert:
					add(x, x.X)
				case *ssa.Slice:
					add(x, x.X)
				case *ssa.TypeAssert:
					add(x, x.X)
				case *ssa.Phi:
					for _, e := range x.Edges {
						add(x, e)
					}
				}
			}
		}
	}
	return d
}

// fieldKey names a struct field by the struct's type and the field's index (field-based, as in VTA)
type fieldKey struct {
	typ string
	idx int
}

func fieldOf(fa *ssa.FieldAddr) (fieldKey, bool) {
	pt, ok := fa.X.Type().Underlying().(*types.Pointer)
	if !ok {
		return fieldKey{}, false
	}
	return fieldKey{typeKey(pt.Elem()), fa.Field}, true
}

func (r *taintRun) markPtr(f *ssa.Function, v ssa.Value) {
	if v != nil && !r.ptr[v] {
		r.ptr[v] = true
		r.dirty[f] = true
	}
}

func (r *taintRun) markCarrier(f *ssa.Function, v ssa.Value, tys map[string]types.Type) {
	if v == nil {
		return
	}
	m := r.carrier[v]
	if m == nil {
		m = map[string]types.Type{}
		r.carrier[v] = m
	}
	for k, t := range tys {
		if _, ok := m[k]; !ok {
			m[k] = t
			r.dirty[f] = true
		}
	}
}

func (r *taintRun) write(kind string, pos token.Pos) {
	if !r.seen[kind] {
		r.seen[kind] = true
		r.writes = append(r.writes, wr{kind, pos})
	}
}

// carrierOf: v is an address inside (or a slice of) a carrier, without passing through a load
func (r *taintRun) carrierOf(v ssa.Value) map[string]types.Type {
	for i := 0; i < 16 && v != nil; i++ {
		if m := r.carrier[v]; m != nil {
			return m
		}
		switch x := v.(type) {
		case *ssa.FieldAddr:
			v = x.X
		case *ssa.IndexAddr:
			v = x.X
		case *ssa.Slice:
			v = x.X
		case *ssa.ChangeType:
			v = x.X
		default:
			return nil
		}
	}
	return nil
}

func typeKey(t types.Type) string { return types.TypeString(t, nil) }

// comesFrom: a value of type t loaded out of a carrier may be (part of) what was parked there: t is or contains
// one of the parked types, or one of the parked types (a struct copied out of the global) contains t
func comesFrom(t types.Type, tys map[string]types.Type) bool {
	if containsType(t, tys, 0) {
		return true
	}
	for _, parked := range tys {
		if hasPart(parked, typeKey(t), 0) {
			return true
		}
	}
	return false
}

// hasPart: a struct / array value of type t has a field or element (at any depth) of the type named key
func hasPart(t types.Type, key string, depth int) bool {
	if depth > 3 {
		return false
	}
	switch u := t.Underlying().(type) {
	case *types.Struct:
		for i := 0; i < u.NumFields(); i++ {
			ft := u.Field(i).Type()
			if typeKey(ft) == key || hasPart(ft, key, depth+1) {
				return true
			}
		}
	case *types.Array:
		return typeKey(u.Elem()) == key || hasPart(u.Elem(), key, depth+1)
	}
	return false
}

// containsType: a value of type t is, or (as a struct/array) contains, a value of one of the types
func containsType(t types.Type, tys map[string]types.Type, depth int) bool {
	if _, ok := tys[typeKey(t)]; ok {
		return true
	}
	if depth > 3 {
		return false
	}
	switch u := t.Underlying().(type) {
	case *types.Struct:
		for i := 0; i < u.NumFields(); i++ {
			if containsType(u.Field(i).Type(), tys, depth+1) {
				return true
			}
		}
	case *types.Array:
		return containsType(u.Elem(), tys, depth+1)
	case *types.Tuple:
		for i := 0; i < u.Len(); i++ {
			if containsType(u.At(i).Type(), tys, depth+1) {
				return true
			}
		}
	case *types.Interface:
		// an interface value may box any of the pointer types
		for k := range tys {
			if strings.HasPrefix(k, "*") || strings.HasPrefix(k, "map[") || strings.HasPrefix(k, "[]") {
				return true
			}
		}
	}
	return false
}

func (r *taintRun) propagate(f *ssa.Function) {
	for {
		r.dirty[f] = false
		for _, b := range f.Blocks {
			for _, in := range b.Instrs {
				switch x := in.(type) {
				case *ssa.FieldAddr:
					if r.ptr[x.X] {
						r.markPtr(f, x)
					}
				case *ssa.IndexAddr:
					if r.ptr[x.X] {
						r.markPtr(f, x)
					}
				case *ssa.Field:
					if r.ptr[x.X] && pointerLike(x.Type()) {
						r.markPtr(f, x)
					}
				case *ssa.Index:
					if r.ptr[x.X] && pointerLike(x.Type()) {
						r.markPtr(f, x)
					}
				case *ssa.UnOp:
					if x.Op != token.MUL {
						continue
					}
					if r.ptr[x.X] && pointerLike(x.Type()) {
						r.markPtr(f, x) // a pointer stored in g's memory: what it points to belongs to g
					} else if tys := r.carrierOf(x.X); tys != nil && pointerLike(x.Type()) && comesFrom(x.Type(), tys) {
						r.markPtr(f, x)
					}
				case *ssa.Slice:
					if r.ptr[x.X] {
						r.markPtr(f, x)
					}
				case *ssa.ChangeType:
					if r.ptr[x.X] {
						r.markPtr(f, x)
					}
				case *ssa.ChangeInterface:
					if r.ptr[x.X] {
						r.markPtr(f, x)
					}
				case *ssa.Convert:
					if r.ptr[x.X] && pointerLike(x.Type()) {
						r.markPtr(f, x)
					}
				case *ssa.MakeInterface:
					if r.ptr[x.X] && pointerLike(x.X.Type()) {
						r.markPtr(f, x)
					}
				case *ssa.TypeAssert:
					if r.ptr[x.X] {
						r.markPtr(f, x)
					}
				case *ssa.Extract:
					if r.ptr[x.Tuple] && pointerLike(x.Type()) {
						r.markPtr(f, x)
					}
				case *ssa.Lookup:
					if r.ptr[x.X] && pointerLike(x.Type()) {
						r.markPtr(f, x)
					}
				case *ssa.Range:
					if r.ptr[x.X] {
						r.markPtr(f, x)
					}
				case *ssa.Next:
					if r.ptr[x.Iter] {
						r.markPtr(f, x)
					}
				case *ssa.Phi:
					for _, e := range x.Edges {
						if r.ptr[e] {
							r.markPtr(f, x)
						}
						if m := r.carrier[e]; m != nil {
							r.markCarrier(f, x, m)
						}
					}
				case *ssa.MakeClosure:
					// a closure capturing a tainted pointer carries it into the anonymous function
					fn := x.Fn.(*ssa.Function)
					for i, bnd := range x.Bindings {
						if i < len(fn.FreeVars) {
							if r.ptr[bnd] {
								r.markPtr(fn, fn.FreeVars[i])
							}
							if m := r.carrierOf(bnd); m != nil {
								r.markCarrier(fn, fn.FreeVars[i], m)
							}
						}
					}
				case *ssa.Store:
					if r.ptr[x.Val] && pointerLike(x.Val.Type()) && !r.ptr[x.Addr] {
						// the tainted pointer is parked in local memory: that memory becomes a carrier
						if a := localAllocRoot(x.Addr); a != nil {
							r.markCarrier(f, a, map[string]types.Type{typeKey(x.Val.Type()): x.Val.Type()})
						} else if m := r.carrierOf(x.Addr); m != nil {
							root := x.Addr
							for r.carrier[root] == nil {
								switch y := root.(type) {
								case *ssa.FieldAddr:
									root = y.X
								case *ssa.IndexAddr:
									root = y.X
								case *ssa.Slice:
									root = y.X
								case *ssa.ChangeType:
									root = y.X
								}
							}
							r.markCarrier(f, root, map[string]types.Type{typeKey(x.Val.Type()): x.Val.Type()})
						}
					}
				}
			}
		}
		if !r.dirty[f] {
			return
		}
	}
}

var readonlyMethods = map[string]bool{"String": true, "Error": true, "Len": true, "Cap": true, "Load": true, "Name": true, "Is": true,
	"As": true, "Unwrap": true, "Bytes": true, "Size": true, "Mode": true, "IsDir": true, "Fd": true, "Stat": true, "Format": true,
	"Unix": true, "UnixNano": true, "Sub": true, "Before": true, "After": true, "Equal": true, "GoString": true, "Cmp": true, "Sign": true,
	"RLock": true, "RUnlock": true}

// externalMutates: f is outside the module and is given a tainted pointer as argument i
func externalMutates(f *ssa.Function, i int) bool {
	pkg := fnPkgPath(f)
	switch pkg {
	case "regexp", "regexp/syntax", "fmt", "strings", "strconv", "errors", "unicode/utf8", "reflect", "math", "math/bits", "bytes" + "#":
		return false
	case "sync/atomic":
		n := f.Name()
		return strings.HasPrefix(n, "Store") || strings.HasPrefix(n, "Add") || strings.HasPrefix(n, "Swap") || strings.HasPrefix(n, "CompareAndSwap") ||
			strings.HasPrefix(n, "Or") || strings.HasPrefix(n, "And")
	case "sort":
		return i == 0 && (f.Name() == "Sort" || f.Name() == "Stable" || f.Name() == "Slice" || f.Name() == "SliceStable" || f.Name() == "Strings" || f.Name() == "Ints")
	case "runtime":
		return false
	}
	// a method with a pointer receiver called ON the tainted object
	if i == 0 && f.Signature.Recv() != nil {
		if _, ok := f.Signature.Recv().Type().(*types.Pointer); ok {
			return !readonlyMethods[f.Name()]
		}
	}
	if f.Signature.Recv() == nil {
		n := f.Name()
		switch pkg {
		case "encoding/binary":
			// binary.Read(r, order, data) / binary.Write(w, order, data): the byte order is only consulted
			return (n == "Read" && (i == 0 || i == 2)) || (n == "Write" && i == 0)
		case "io", "io/ioutil":
			// io.ReadFull(r, buf), io.Copy(dst, src), ioutil.ReadAll(r): they drive the methods of what they are given
			return strings.HasPrefix(n, "Read") || strings.HasPrefix(n, "Copy") || strings.HasPrefix(n, "Write")
		case "encoding/json":
			return strings.HasPrefix(n, "Unmarshal") && i == 1
		}
	}
	return false
}

func (r *taintRun) scan(f *ssa.Function, work *[]*ssa.Function) {
	for _, b := range f.Blocks {
		for _, in := range b.Instrs {
			switch x := in.(type) {
			case *ssa.Store:
				if fa, ok := x.Addr.(*ssa.FieldAddr); ok && !r.ptr[x.Addr] && r.direct[x.Val] && mutablePointer(x.Val.Type()) {
					if k, ok := fieldOf(fa); ok && r.escapes != nil {
						r.escapes[k] = true
					}
				}
				if r.ptr[x.Addr] {
					k := "store"
					switch x.Addr.(type) {
					case *ssa.FieldAddr:
						k = "field store"
					case *ssa.IndexAddr:
						k = "element store"
					}
					r.write(k+" in "+shortName(f.String()), x.Pos())
				}
			case *ssa.MapUpdate:
				if r.ptr[x.Map] {
					r.write("map store in "+shortName(f.String()), x.Pos())
				}
			case *ssa.Send:
				if r.ptr[x.Chan] {
					r.write("channel send in "+shortName(f.String()), x.Pos())
				}
			case ssa.CallInstruction:
				c := x.Common()
				if bi, ok := c.Value.(*ssa.Builtin); ok && !c.IsInvoke() {
					switch bi.Name() {
					case "delete", "clear", "copy", "append":
						if len(c.Args) > 0 && r.ptr[c.Args[0]] {
							r.write("builtin "+bi.Name()+" in "+shortName(f.String()), x.Pos())
						}
					}
					continue
				}
				args := c.Args
				if c.IsInvoke() {
					args = append([]ssa.Value{c.Value}, c.Args...)
				}
				any := false
				for _, a := range args {
					if r.ptr[a] || r.carrierOf(a) != nil {
						any = true
					}
				}
				if !any {
					continue
				}
				var callees []*ssa.Function
				if sc := c.StaticCallee(); sc != nil {
					callees = []*ssa.Function{sc}
				} else {
					have := map[*ssa.Function]bool{}
					for _, cand := range r.g.full[f] {
						if !c.IsInvoke() && cand.Signature.Recv() == nil && types.Identical(cand.Signature, c.Signature()) {
							callees = append(callees, cand)
							have[cand] = true
						} else if c.IsInvoke() && cand.Signature.Recv() != nil && cand.Name() == c.Method.Name() {
							callees = append(callees, cand)
							have[cand] = true
						}
					}
					if !c.IsInvoke() {
						// A function value may come from outside the analysed code (a host passing RuntimeOptions to
						// runtime.New): when it is handed memory of a package-level variable, every module function
						// of that signature is a possible callee (class-hierarchy style, by signature).
						for _, cand := range r.g.fns {
							if !have[cand] && r.g.isMod[cand] && len(cand.Blocks) > 0 && cand.Signature.Recv() == nil &&
								types.Identical(cand.Signature, c.Signature()) {
								callees = append(callees, cand)
							}
						}
					}
				}
				for _, callee := range callees {
					if len(callee.Blocks) == 0 || !r.g.isMod[callee] {
						for i, a := range args {
							if r.ptr[a] && pointerLike(a.Type()) && externalMutates(callee, i) {
								r.write("call of "+shortName(callee.String())+" on it in "+shortName(f.String()), x.Pos())
							}
						}
						continue
					}
					if r.budget <= 0 {
						continue
					}
					changed := false
					// closures: receiver-less call of a MakeClosure has its bindings handled in propagate
					params := callee.Params
					for i, a := range args {
						if i >= len(params) {
							break
						}
						if r.ptr[a] && pointerLike(a.Type()) && !r.ptr[params[i]] {
							r.ptr[params[i]] = true
							changed = true
						}
						if m := r.carrierOf(a); m != nil {
							before := len(r.carrier[params[i]])
							r.markCarrier(callee, params[i], m)
							if len(r.carrier[params[i]]) != before {
								changed = true
							}
						}
					}
					if changed {
						r.budget--
						*work = append(*work, callee)
					}
				}
			case *ssa.MakeClosure:
				fn := x.Fn.(*ssa.Function)
				for i, bnd := range x.Bindings {
					if i < len(fn.FreeVars) && (r.ptr[fn.FreeVars[i]] || r.carrier[fn.FreeVars[i]] != nil) {
						_ = bnd
						*work = append(*work, fn)
						break
					}
				}
			}
		}
	}
}

// holderSeed: the address of an object's field that holds (a by-value copy of) memory of the variable: the field
// itself belongs to the object, the pointers, slices and maps inside it belong to the variable
type holderSeed struct {
	v ssa.Value
	t types.Type
}

// mutablePointer: a value through which memory can be written (a pointer, map, slice, channel, or an interface /
// struct that may hold one); function values and plain data are not
func mutablePointer(t types.Type) bool {
	switch u := t.Underlying().(type) {
	case *types.Pointer, *types.Map, *types.Slice, *types.Chan, *types.Interface:
		return true
	case *types.Struct:
		for i := 0; i < u.NumFields(); i++ {
			if mutablePointer(u.Field(i).Type()) {
				return true
			}
		}
	case *types.Array:
		return mutablePointer(u.Elem())
	}
	return false
}

// writesFrom: start a taint at `seeds` inside f0 and collect the writes it leads to (f0 and callees); escapes
// (if not nil) receives the struct fields into which memory of the variable was stored on the way
func writesFrom(g *graph, f0 *ssa.Function, seeds []ssa.Value, escapes map[fieldKey]bool, holders ...holderSeed) []wr {
	r := &taintRun{g: g, ptr: map[ssa.Value]bool{}, carrier: map[ssa.Value]map[string]types.Type{}, dirty: map[*ssa.Function]bool{}, seen: map[string]bool{}, budget: 400, escapes: escapes}
	if escapes != nil {
		r.direct = directlyFrom(f0, seeds)
	}
	for _, h := range holders {
		r.carrier[h.v] = map[string]types.Type{typeKey(h.t): h.t}
	}
	for _, s := range seeds {
		r.ptr[s] = true
	}
	work := []*ssa.Function{f0}
	done := 0
	for len(work) > 0 && done < 2000 {
		f := work[len(work)-1]
		work = work[:len(work)-1]
		done++
		r.propagate(f)
		r.scan(f, &work)
	}
	return r.writes
}

func mentions(f *ssa.Function, v ssa.Value) bool {
	for _, b := range f.Blocks {
		for _, in := range b.Instrs {
			for _, op := range in.Operands(nil) {
				if *op == v {
					return true
				}
			}
		}
	}
	return false
}

func globals(facts *Facts, g *graph) {
	// roots: runtime.New, library loaders, registered Go functions
	rootName := map[int]string{}
	for _, r := range facts.Regs {
		if _, ok := rootName[r.Node]; !ok {
			rootName[r.Node] = r.Sym
		}
	}
	for i, f := range g.fns {
		if !g.isMod[f] || f.Parent() != nil {
			continue
		}
		s := f.String()
		if s == rtPath+".New" {
			rootName[i] = s
		}
		sig := f.Signature
		if sig.Recv() == nil && sig.Params().Len() == 1 && sig.Results().Len() == 2 &&
			sig.Params().At(0).Type().String() == "*"+rtPath+".Runtime" && sig.Results().At(0).Type().String() == rtPath+".Value" &&
			strings.HasPrefix(fnPkgPath(f), modPath+"/lib") {
			rootName[i] = s // a library loader
		}
		if strings.HasPrefix(s, modPath+"/lib.Load") {
			rootName[i] = s
		}
	}
	var roots []int
	for i := range rootName {
		roots = append(roots, i)
	}
	sort.Ints(roots)
	for _, i := range roots {
		facts.Roots = append(facts.Roots, rootName[i])
	}
	from := map[int]int{}
	var work []int
	for _, r := range roots {
		from[r] = r
		work = append(work, r)
	}
	for len(work) > 0 {
		u := work[0]
		work = work[1:]
		for _, v := range g.succ[u] {
			if _, ok := from[v]; !ok {
				from[v] = from[u]
				work = append(work, v)
			}
		}
	}
	var modFns []*ssa.Function
	for _, f := range g.fns {
		if g.isMod[f] && len(f.Blocks) > 0 {
			modFns = append(modFns, f)
		}
	}
	mkWriter := func(f *ssa.Function, w wr) Writer {
		id, inGraph := g.id[f]
		_, r := from[id]
		W := Writer{Fn: f.String(), Kind: w.kind, Pos: relpos(w.pos), Reachable: inGraph && r}
		if W.Reachable {
			W.From = rootName[from[id]]
		}
		return W
	}

	// every load of a struct field in the module, by field (for the second stage)
	type fieldLoad struct {
		fn   *ssa.Function
		v    ssa.Value
		addr bool // v is the address of the field (used for method calls on it / access to its parts), not a load
	}
	fieldLoads := map[fieldKey][]fieldLoad{}
	for _, f := range modFns {
		for _, b := range f.Blocks {
			for _, in := range b.Instrs {
				if fa, ok := in.(*ssa.FieldAddr); ok {
					if k, ok := fieldOf(fa); ok {
						if _, isStruct := fa.Type().Underlying().(*types.Pointer).Elem().Underlying().(*types.Struct); isStruct {
							fieldLoads[k] = append(fieldLoads[k], fieldLoad{f, fa, true})
						}
					}
					continue
				}
				u, ok := in.(*ssa.UnOp)
				if !ok || u.Op != token.MUL {
					continue
				}
				if fa, ok := u.X.(*ssa.FieldAddr); ok {
					if k, ok := fieldOf(fa); ok {
						fieldLoads[k] = append(fieldLoads[k], fieldLoad{f, u, false})
					}
				}
			}
		}
	}
	for _, p := range modPkgs {
		sp := prog.Package(p.Types)
		if sp == nil {
			continue
		}
		var names []string
		for n, m := range sp.Members {
			if _, ok := m.(*ssa.Global); ok {
				names = append(names, n)
			}
		}
		sort.Strings(names)
		for _, n := range names {
			gl := sp.Members[n].(*ssa.Global)
			if strings.HasPrefix(n, "init$guard") || strings.HasSuffix(fset.Position(gl.Pos()).Filename, "_test.go") {
				continue
			}
			G := Global{Name: p.PkgPath + "." + n, Type: gl.Type().(*types.Pointer).Elem().String(), Pos: relpos(gl.Pos()), Writers: []Writer{}}
			// accessors: functions (not init) returning memory of g
			accessor := map[*ssa.Function]map[int]bool{}
			for _, f := range modFns {
				if !mentions(f, gl) || f.Signature.Results().Len() == 0 {
					continue
				}
				r := &taintRun{g: g, ptr: map[ssa.Value]bool{gl: true}, carrier: map[ssa.Value]map[string]types.Type{}, dirty: map[*ssa.Function]bool{}, seen: map[string]bool{}}
				r.propagate(f)
				for _, b := range f.Blocks {
					for _, in := range b.Instrs {
						if ret, ok := in.(*ssa.Return); ok {
							for ri, rv := range ret.Results {
								if r.ptr[rv] && pointerLike(rv.Type()) {
									if accessor[f] == nil {
										accessor[f] = map[int]bool{}
									}
									accessor[f][ri] = true
								}
							}
						}
					}
				}
			}
			escapes := map[fieldKey]bool{}
			for _, f := range modFns {
				// (init functions and variable initialisers do not count as writers, but what they park in objects does)
				var seeds []ssa.Value
				if mentions(f, gl) {
					seeds = append(seeds, gl)
				}
				if len(accessor) > 0 {
					for _, b := range f.Blocks {
						for _, in := range b.Instrs {
							switch c := in.(type) {
							case *ssa.Call:
								if sc := c.Call.StaticCallee(); sc != nil && accessor[sc] != nil && sc.Signature.Results().Len() == 1 {
									seeds = append(seeds, c)
								}
							case *ssa.Extract:
								if call, ok := c.Tuple.(*ssa.Call); ok {
									if sc := call.Call.StaticCallee(); sc != nil && accessor[sc][c.Index] {
										seeds = append(seeds, c)
									}
								}
							}
						}
					}
				}
				if len(seeds) == 0 {
					continue
				}
				ws := writesFrom(g, f, seeds, escapes)
				if isInitFn(f) {
					continue
				}
				for _, w := range ws {
					G.Writers = append(G.Writers, mkWriter(f, w))
				}
			}
			// second stage: memory of the variable that was stored into a field of some object lives on there;
			// whoever loads that field anywhere in the module holds it again (two rounds)
			doneField := map[fieldKey]bool{}
			for round := 0; round < 1 && len(escapes) > 0; round++ {
				next := map[fieldKey]bool{}
				var ks []fieldKey
				for k := range escapes {
					if !doneField[k] {
						ks = append(ks, k)
					}
				}
				sort.Slice(ks, func(i, j int) bool { return ks[i].typ+fmt.Sprint(ks[i].idx) < ks[j].typ+fmt.Sprint(ks[j].idx) })
				for _, k := range ks {
					doneField[k] = true
					byFn := map[*ssa.Function][]ssa.Value{}
					holdFn := map[*ssa.Function][]holderSeed{}
					for _, ld := range fieldLoads[k] {
						if ld.addr {
							holdFn[ld.fn] = append(holdFn[ld.fn], holderSeed{ld.v, ld.v.Type().Underlying().(*types.Pointer).Elem()})
						} else {
							byFn[ld.fn] = append(byFn[ld.fn], ld.v)
						}
					}
					var fs []*ssa.Function
					seenFn := map[*ssa.Function]bool{}
					for f := range byFn {
						fs = append(fs, f)
						seenFn[f] = true
					}
					for f := range holdFn {
						if !seenFn[f] {
							fs = append(fs, f)
						}
					}
					sort.Slice(fs, func(i, j int) bool { return fs[i].String() < fs[j].String() })
					for _, f := range fs {
						if isInitFn(f) {
							continue
						}
						for _, w := range writesFrom(g, f, byFn[f], nil, holdFn[f]...) {
							w.kind += " (reached through the field " + shortName(k.typ) + "#" + fmt.Sprint(k.idx) + ")"
							G.Writers = append(G.Writers, mkWriter(f, w))
						}
					}
				}
				escapes = next
			}
			facts.Globals = append(facts.Globals, G)
		}
	}
	// pseudo-variables: process-wide state of packages outside the module
	pseudo := map[string]*Global{}
	for _, f := range modFns {
		if isInitFn(f) {
			continue
		}
		for _, b := range f.Blocks {
			for _, in := range b.Instrs {
				c, ok := in.(ssa.CallInstruction)
				if !ok {
					continue
				}
				callee := c.Common().StaticCallee()
				if callee == nil {
					continue
				}
				if v := processGlobal(callee); v != "" {
					G := pseudo[v]
					if G == nil {
						G = &Global{Name: v, Type: "(process-wide state outside the module)", Pos: "", Writers: []Writer{}}
						pseudo[v] = G
					}
					dup := false
					for _, w := range G.Writers {
						if w.Fn == f.String() {
							dup = true
						}
					}
					if !dup {
						G.Writers = append(G.Writers, mkWriter(f, wr{"call of " + shortName(callee.String()), in.Pos()}))
					}
				}
			}
		}
	}
	// the process-wide standard streams (globals of package os) mentioned by module code outside init
	for _, f := range modFns {
		if isInitFn(f) {
			continue
		}
		for _, b := range f.Blocks {
			for _, in := range b.Instrs {
				for _, op := range in.Operands(nil) {
					eg, ok := (*op).(*ssa.Global)
					if !ok || eg.Pkg == nil || eg.Pkg.Pkg.Path() != "os" {
						continue
					}
					if n := eg.Name(); n == "Stdin" || n == "Stdout" || n == "Stderr" {
						v := "os." + n
						G := pseudo[v]
						if G == nil {
							G = &Global{Name: v, Type: "*os.File (process-wide standard stream)", Pos: "", Writers: []Writer{}}
							pseudo[v] = G
						}
						dup := false
						for _, w := range G.Writers {
							if w.Fn == f.String() {
								dup = true
							}
						}
						if !dup {
							G.Writers = append(G.Writers, mkWriter(f, wr{"uses the stream", in.Pos()}))
						}
					}
				}
			}
		}
	}
	var pn []string
	for n := range pseudo {
		pn = append(pn, n)
	}
	sort.Strings(pn)
	for _, n := range pn {
		facts.Globals = append(facts.Globals, *pseudo[n])
	}
	facts.SharedWriters = [][2]string{}
	for _, G := range facts.Globals {
		seen := map[string]bool{}
		for _, w := range G.Writers {
			if w.Reachable && !seen[w.Fn] {
				seen[w.Fn] = true
				facts.SharedWriters = append(facts.SharedWriters, [2]string{G.Name, w.Fn})
			}
		}
	}
	_ = fmt.Sprint
}

func isInitFn(f *ssa.Function) bool {
	for g := f; g != nil; g = g.Parent() {
		if g.Parent() == nil {
			n := g.Name()
			if n == "init" || strings.HasPrefix(n, "init#") {
				return true
			}
		}
	}
	return false
}

func shortName(s string) string { return strings.ReplaceAll(s, modPath+"/", "") }

func pointerLike(t types.Type) bool {
	switch u := t.Underlying().(type) {
	case *types.Pointer, *types.Map, *types.Slice, *types.Chan, *types.Interface, *types.Signature:
		return true
	case *types.Struct:
		for i := 0; i < u.NumFields(); i++ {
			if pointerLike(u.Field(i).Type()) {
				return true
			}
		}
	case *types.Array:
		return pointerLike(u.Elem())
	case *types.Tuple:
		for i := 0; i < u.Len(); i++ {
			if pointerLike(u.At(i).Type()) {
				return true
			}
		}
	}
	return false
}

// localAllocRoot: addr is a FieldAddr/IndexAddr chain (no loads) ending in a local Alloc
func localAllocRoot(v ssa.Value) *ssa.Alloc {
	for i := 0; i < 16; i++ {
		switch x := v.(type) {
		case *ssa.Alloc:
			return x
		case *ssa.FieldAddr:
			v = x.X
		case *ssa.IndexAddr:
			v = x.X
		case *ssa.Slice:
			v = x.X
		default:
			return nil
		}
	}
	return nil
}
