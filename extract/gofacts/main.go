// gofacts: fact extractor for C08 (compliance flags / iosafe) and C20 (isolation).
//
// Re-run on every ./check; reads the Go sources under -repo (never a cached copy) and writes
//
//	<out>/Compliance.lean   every GoFunction registration site (SetEnvGoFunc / NewGoFunction), the Go
//	                        function it wraps, its Lua name, and the flags solemnly declared for it
//	<out>/CallGraph.lean    call graph restricted to callers inside the golua module (static calls +
//	                        CHA for interface calls + VTA for calls through function values), external
//	                        callees kept as leaves (plus their call-backs into the module), sinks, gates,
//	                        the iosafe-declared sources, the certificate S and the offending paths
//	<out>/Globals.lean      every package-level var of the module with the functions writing it after init
//	<json>                  the same facts with names, for checks/c08.py, checks/c20.py and the harness
//
// Nothing here is trusted by the Lean kernel except as *data*: the theorems in Props/C08.lean and
// Props/C20.lean are proved for every table, and the per-run instances are closed by `decide` on the
// tables written here.  What IS trusted: that this program reads Go correctly (see DESIGN section 5).
package main

import (
	"encoding/json"
	"flag"
	"fmt"
	"go/ast"
	"go/constant"
	"go/token"
	"go/types"
	"math/big"
	"os"
	"path/filepath"
	"regexp"
	"sort"
	"strings"

	"golang.org/x/tools/go/callgraph"
	"golang.org/x/tools/go/callgraph/cha"
	"golang.org/x/tools/go/callgraph/vta"
	"golang.org/x/tools/go/packages"
	"golang.org/x/tools/go/ssa"
	"golang.org/x/tools/go/ssa/ssautil"
	"golang.org/x/tools/go/types/typeutil"
)

const modPath = "github.com/arnodel/golua"
const rtPath = modPath + "/runtime"

var (
	repo    = flag.String("repo", "/repo", "golua working tree")
	outDir  = flag.String("out", "", "directory for the generated .lean files")
	jsonOut = flag.String("json", "", "facts file (JSON)")
)

func die(f string, a ...interface{}) {
	fmt.Fprintf(os.Stderr, "gofacts: "+f+"\n", a...)
	os.Exit(1)
}

// ---------------------------------------------------------------------------
// facts

type Node struct {
	ID    int    `json:"id"`
	Name  string `json:"name"`  // ssa name, e.g. github.com/arnodel/golua/lib/iolib.popen$1
	RtSym string `json:"rtsym"` // name as runtime.FuncForPC prints it
	Mod   bool   `json:"mod"`   // inside the golua module
	Sink  bool   `json:"sink"`
	Gate  bool   `json:"gate"`
	Pos   string `json:"pos,omitempty"`
}

type Reg struct {
	Site    string `json:"site"` // file:line of the SetEnvGoFunc/NewGoFunction call
	Kind    string `json:"kind"`
	Sym     string `json:"sym"` // ssa name of the wrapped Go function
	RtSym   string `json:"rtsym"`
	LuaName string `json:"luaName"`
	Flags   int    `json:"flags"`
	Node    int    `json:"node"`
	Var     string `json:"var,omitempty"`    // package-level variable holding the GoFunction, if any
	InFunc  string `json:"inFunc,omitempty"` // function containing the site ("" = package initialiser)
}

type Hole struct {
	Src  int   `json:"src"`
	Sink int   `json:"sink"`
	Path []int `json:"path"`
}

type Writer struct {
	Fn        string `json:"fn"`
	Kind      string `json:"kind"`
	Pos       string `json:"pos"`
	Reachable bool   `json:"reachable"`
	From      string `json:"from,omitempty"` // one root (loader / registered function / runtime.New) reaching it
}

type Global struct {
	Name    string   `json:"name"`
	Type    string   `json:"type"`
	Pos     string   `json:"pos"`
	Writers []Writer `json:"writers"`
}

type Facts struct {
	Repo          string          `json:"repo"`
	Nodes         []Node          `json:"nodes"`
	Edges         [][2]int        `json:"edges"`
	Regs          []Reg           `json:"regs"`
	Unresolved    []string        `json:"unresolved"`
	IosafeSrcs    []int           `json:"iosafeSrcs"`
	GateSrcs      []int           `json:"gateSrcs"` // what a gate calls even when it refuses / before it dispatches
	CleanSrcs     []int           `json:"cleanSrcs"`
	HoleSrcs      []int           `json:"holeSrcs"`
	S             []int           `json:"S"`
	Holes         []Hole          `json:"holes"`
	GateFacts     map[string]bool `json:"gateFacts"`
	Globals       []Global        `json:"globals"`
	SharedWriters [][2]string     `json:"sharedWriters"`
	Roots         []string        `json:"roots"`
	ExemptEdges   [][3]string     `json:"exemptEdges"`
}

// ---------------------------------------------------------------------------

var (
	fset    *token.FileSet
	prog    *ssa.Program
	modPkgs []*packages.Package
	repoAbs string
)

func relpos(p token.Pos) string {
	if !p.IsValid() {
		return ""
	}
	pp := fset.Position(p)
	fn := pp.Filename
	if r, err := filepath.Rel(repoAbs, fn); err == nil && !strings.HasPrefix(r, "..") {
		fn = r
	}
	return fmt.Sprintf("%s:%d", fn, pp.Line)
}

func isModPath(p string) bool { return p == modPath || strings.HasPrefix(p, modPath+"/") }

func fnPkgPath(f *ssa.Function) string {
	for g := f; g != nil; g = g.Parent() {
		if g.Pkg != nil {
			return g.Pkg.Pkg.Path()
		}
		if o := g.Origin(); o != nil && o.Pkg != nil {
			return o.Pkg.Pkg.Path()
		}
		if obj := g.Object(); obj != nil && obj.Pkg() != nil {
			return obj.Pkg().Path()
		}
	}
	// synthetic wrappers ($bound, $thunk) of methods: use the receiver's package
	if f.Signature != nil {
		if r := f.Signature.Recv(); r != nil {
			if n := namedOf(r.Type()); n != nil && n.Obj().Pkg() != nil {
				return n.Obj().Pkg().Path()
			}
		}
	}
	s := f.String()
	if i := strings.Index(s, modPath); i >= 0 {
		return modPath // good enough to classify as module code
	}
	return ""
}

func namedOf(t types.Type) *types.Named {
	if p, ok := t.(*types.Pointer); ok {
		t = p.Elem()
	}
	n, _ := t.(*types.Named)
	return n
}

var closureRe = regexp.MustCompile(`\$(\d+)`)

// rtSym converts an ssa function name to the spelling of runtime.FuncForPC:
// pkg.f$1 -> pkg.f.func1, pkg.f$1$2 -> pkg.f.func1.2, pkg.init$1 -> pkg.glob..func1
func rtSym(name string) string {
	i := strings.Index(name, "$")
	if i < 0 {
		return name
	}
	base, rest := name[:i], name[i:]
	if strings.HasSuffix(base, ".init") {
		base = strings.TrimSuffix(base, ".init") + ".glob."
	}
	ms := closureRe.FindAllStringSubmatch(rest, -1)
	out := base
	for k, m := range ms {
		if k == 0 {
			out += ".func" + m[1]
		} else {
			out += "." + m[1]
		}
	}
	return out
}

// ---------------------------------------------------------------------------
// sinks and gates (by name; this list is in the trusted base, DESIGN section 5)

var osSinkFuncs = map[string]bool{}

func init() {
	for _, n := range strings.Fields(`Open OpenFile Create Remove RemoveAll Rename Mkdir MkdirAll MkdirTemp CreateTemp
		ReadFile WriteFile ReadDir StartProcess Exit Chdir Setenv Unsetenv Clearenv Symlink Link Chmod Chown Lchown
		Truncate Chtimes Stat Lstat Readlink FindProcess DirFS CopyFS`) {
		osSinkFuncs[n] = true
	}
}

var osFileSinkMethods = map[string]bool{"Chmod": true, "Chown": true, "Truncate": true, "ReadDir": true, "Readdir": true,
	"Readdirnames": true, "Chdir": true}
var ioutilSinks = map[string]bool{"ReadFile": true, "WriteFile": true, "ReadDir": true, "TempFile": true, "TempDir": true}
var syscallInfoOnly = map[string]bool{"Getrusage": true, "Getpid": true, "Getppid": true, "Getuid": true, "Geteuid": true,
	"Getgid": true, "Getegid": true, "Gettimeofday": true, "Time": true, "Getpagesize": true, "Getenv": true, "Environ": true}
var filepathSinks = map[string]bool{"Walk": true, "WalkDir": true, "Glob": true, "EvalSymlinks": true}

func isSink(f *ssa.Function) bool {
	pkg := fnPkgPath(f)
	name := f.Name()
	recv := ""
	if f.Signature != nil && f.Signature.Recv() != nil {
		if n := namedOf(f.Signature.Recv().Type()); n != nil {
			recv = n.Obj().Name()
		}
	}
	if f.Parent() != nil { // closures inside stdlib functions are not entry points
		return false
	}
	switch {
	case pkg == "os":
		if recv == "" {
			return osSinkFuncs[name]
		}
		if recv == "File" {
			return osFileSinkMethods[name]
		}
		if recv == "Process" {
			return true
		}
	case pkg == "io/ioutil":
		return recv == "" && ioutilSinks[name]
	case pkg == "os/exec":
		// everything that looks up, starts or waits for a program; not the Error/String methods of its error types
		if recv == "" {
			return name != "init"
		}
		return recv == "Cmd" && name != "String" && name != "Environ"
	case pkg == "plugin":
		return true
	case pkg == "net" || strings.HasPrefix(pkg, "net/"):
		if pkg == "net/url" {
			return false
		}
		if recv == "" {
			return true
		}
		return strings.HasPrefix(name, "Dial") || strings.HasPrefix(name, "Listen") || strings.HasPrefix(name, "Accept") ||
			strings.HasPrefix(name, "Lookup") || name == "Do" || name == "Get" || name == "Post"
	case pkg == "syscall":
		// every raw system call wrapper, except those that only read facts about this process
		return recv == "" && name != "init" && !syscallInfoOnly[name]
	case pkg == "path/filepath":
		return recv == "" && filepathSinks[name]
	}
	return false
}

// exemptEdges: call edges deliberately left out of the graph, each with its justification (these are
// assumptions of the check and are listed in the evidence file).
var exemptEdges = map[[2]string]string{
	{"(*" + modPath + "/lib/iolib.File).cleanup", "os.Remove"}: "closing or releasing a temporary file created by io.tmpfile removes that file; " +
		"the file can only have been created through safeio.TempFile, i.e. outside any iosafe context (handled like writes to already-open streams)",
	{modPath + "/lib/iolib.popen$1", "(*os/exec.Cmd).Wait"}: "io.close / file:close on a handle made by io.popen waits for the child process; the closure is installed only by " +
		"io.popen, which does not declare iosafe (and alarms through lib/iolib.popen -> (*os/exec.Cmd).Start if it ever does again), so the process it waits for " +
		"cannot have been started in an iosafe context; reaping an existing child starts nothing and touches no file",
}

func isGate(f *ssa.Function) bool {
	if f.Parent() != nil {
		return false
	}
	if fnPkgPath(f) == modPath+"/safeio" && f.Name() != "init" {
		return true
	}
	return f.String() == "(*"+rtPath+".GoCont).RunInThread"
}

// ---------------------------------------------------------------------------

func main() {
	flag.Parse()
	var err error
	repoAbs, err = filepath.Abs(*repo)
	if err != nil {
		die("%v", err)
	}
	cfg := &packages.Config{
		Mode: packages.NeedName | packages.NeedFiles | packages.NeedCompiledGoFiles | packages.NeedImports |
			packages.NeedDeps | packages.NeedTypes | packages.NeedSyntax | packages.NeedTypesInfo | packages.NeedTypesSizes | packages.NeedModule,
		Dir: repoAbs,
		Env: append(os.Environ(), "GOFLAGS=-mod=mod", "GOPROXY=off", "GOSUMDB=off", "GOTOOLCHAIN=local"),
	}
	initial, err := packages.Load(cfg, "./lib/...", "./runtime/...", "./safeio/...")
	if err != nil {
		die("load: %v", err)
	}
	nerr := 0
	packages.Visit(initial, nil, func(p *packages.Package) {
		for _, e := range p.Errors {
			fmt.Fprintf(os.Stderr, "gofacts: %s: %v\n", p.PkgPath, e)
			nerr++
		}
		if isModPath(p.PkgPath) {
			modPkgs = append(modPkgs, p)
		}
	})
	if nerr > 0 {
		die("%d package errors: the tree does not type-check", nerr)
	}
	sort.Slice(modPkgs, func(i, j int) bool { return modPkgs[i].PkgPath < modPkgs[j].PkgPath })
	if len(initial) > 0 {
		fset = initial[0].Fset
	}
	var ssaPkgs []*ssa.Package
	prog, ssaPkgs = ssautil.AllPackages(initial, ssa.InstantiateGenerics)
	_ = ssaPkgs
	prog.Build()

	facts := &Facts{Repo: repoAbs, GateFacts: map[string]bool{}}
	g := buildGraph()
	regs(facts, g)
	gateFacts(facts, g)
	certificate(facts, g)
	globals(facts, g)

	if *jsonOut != "" {
		b, _ := json.MarshalIndent(facts, "", " ")
		writeAtomic(*jsonOut, string(b)+"\n")
	}
	if *outDir != "" {
		writeAtomic(filepath.Join(*outDir, "Compliance.lean"), leanCompliance(facts))
		writeAtomic(filepath.Join(*outDir, "CallGraph.lean"), leanCallGraph(facts))
		writeAtomic(filepath.Join(*outDir, "Globals.lean"), leanGlobals(facts))
	}
	fmt.Printf("gofacts: %d nodes, %d edges, %d registrations (%d unresolved), %d iosafe sources (%d clean), |S|=%d, %d hole pairs, %d globals, %d shared (var,writer) pairs\n",
		len(facts.Nodes), len(facts.Edges), len(facts.Regs), len(facts.Unresolved), len(facts.IosafeSrcs), len(facts.CleanSrcs),
		len(facts.S), len(facts.Holes), len(facts.Globals), len(facts.SharedWriters))
}

func writeAtomic(path, txt string) {
	os.MkdirAll(filepath.Dir(path), 0o755)
	tmp := path + ".tmp"
	if err := os.WriteFile(tmp, []byte(txt), 0o644); err != nil {
		die("%v", err)
	}
	if err := os.Rename(tmp, path); err != nil {
		die("%v", err)
	}
}

// ---------------------------------------------------------------------------
// call graph

type graph struct {
	fns   []*ssa.Function       // node id -> function
	id    map[*ssa.Function]int // function -> node id
	succ  map[int][]int         // reduced graph (what goes to Lean)
	full  map[*ssa.Function][]*ssa.Function
	isMod map[*ssa.Function]bool
	exempt [][2]string
	nonDyn map[*ssa.Function]map[*ssa.Function]bool // edges that do not come from a call through a function value
}

func buildGraph() *graph {
	all := ssautil.AllFunctions(prog)
	chaG := cha.CallGraph(prog)
	vtaG := vta.CallGraph(all, chaG)

	full := map[*ssa.Function]map[*ssa.Function]bool{}
	nonDyn := map[*ssa.Function]map[*ssa.Function]bool{}
	addND := func(a, b *ssa.Function) {
		if a == nil || b == nil {
			return
		}
		if nonDyn[a] == nil {
			nonDyn[a] = map[*ssa.Function]bool{}
		}
		nonDyn[a][b] = true
	}
	add := func(a, b *ssa.Function) {
		if a == nil || b == nil {
			return
		}
		m := full[a]
		if m == nil {
			m = map[*ssa.Function]bool{}
			full[a] = m
		}
		m[b] = true
	}
	// static calls and interface calls: CHA (static edges are the same in every algorithm)
	take := func(cg *callgraph.Graph, wantInvoke, wantFuncValue, wantStatic bool) {
		for _, n := range cg.Nodes {
			for _, e := range n.Out {
				if e.Site == nil {
					if wantStatic {
						add(e.Caller.Func, e.Callee.Func)
					}
					continue
				}
				c := e.Site.Common()
				switch {
				case c.IsInvoke():
					if wantInvoke {
						add(e.Caller.Func, e.Callee.Func)
						addND(e.Caller.Func, e.Callee.Func)
					}
				case c.StaticCallee() != nil:
					if wantStatic {
						add(e.Caller.Func, e.Callee.Func)
						addND(e.Caller.Func, e.Callee.Func)
					}
				default:
					if wantFuncValue {
						add(e.Caller.Func, e.Callee.Func)
					}
				}
			}
		}
	}
	take(chaG, true, false, true)
	take(vtaG, false, true, true)

	g := &graph{id: map[*ssa.Function]int{}, succ: map[int][]int{}, full: map[*ssa.Function][]*ssa.Function{}, isMod: map[*ssa.Function]bool{}, nonDyn: nonDyn}
	for f := range all {
		g.isMod[f] = isModPath(fnPkgPath(f))
	}
	for a, m := range full {
		if _, ok := g.isMod[a]; !ok {
			g.isMod[a] = isModPath(fnPkgPath(a))
		}
		for b := range m {
			if _, ok := g.isMod[b]; !ok {
				g.isMod[b] = isModPath(fnPkgPath(b))
			}
			g.full[a] = append(g.full[a], b)
		}
		sort.Slice(g.full[a], func(i, j int) bool { return g.full[a][i].String() < g.full[a][j].String() })
	}

	// module functions, sorted by name for stable ids
	var modFns []*ssa.Function
	for f, m := range g.isMod {
		if m && !isTestOnly(f) {
			modFns = append(modFns, f)
		}
	}
	sort.Slice(modFns, func(i, j int) bool {
		a, b := modFns[i].String(), modFns[j].String()
		if a != b {
			return a < b
		}
		return modFns[i].Pos() < modFns[j].Pos()
	})
	// leaves: external functions called directly from module code
	leafSet := map[*ssa.Function]bool{}
	for _, f := range modFns {
		for _, c := range g.full[f] {
			if !g.isMod[c] {
				leafSet[c] = true
			}
		}
	}
	var leaves []*ssa.Function
	for f := range leafSet {
		leaves = append(leaves, f)
	}
	sort.Slice(leaves, func(i, j int) bool { return leaves[i].String() < leaves[j].String() })
	for _, f := range append(append([]*ssa.Function{}, modFns...), leaves...) {
		if _, dup := g.id[f]; dup {
			continue
		}
		g.id[f] = len(g.fns)
		g.fns = append(g.fns, f)
	}
	edge := func(a, b *ssa.Function) {
		if _, ex := exemptEdges[[2]string{a.String(), b.String()}]; ex {
			g.exempt = append(g.exempt, [2]string{a.String(), b.String()})
			return
		}
		ia, ib := g.id[a], g.id[b]
		for _, x := range g.succ[ia] {
			if x == ib {
				return
			}
		}
		g.succ[ia] = append(g.succ[ia], ib)
	}
	for _, f := range modFns {
		for _, c := range g.full[f] {
			if _, ok := g.id[c]; ok {
				edge(f, c)
			}
		}
	}
	// call-backs: module functions an external leaf can reach through external code only
	for _, l := range leaves {
		if isSink(l) {
			continue // what a sink does afterwards is irrelevant
		}
		seen := map[*ssa.Function]bool{l: true}
		work := []*ssa.Function{l}
		for len(work) > 0 {
			x := work[len(work)-1]
			work = work[:len(work)-1]
			for _, c := range g.full[x] {
				if seen[c] {
					continue
				}
				seen[c] = true
				if g.isMod[c] {
					if _, ok := g.id[c]; ok {
						edge(l, c)
					}
					continue
				}
				work = append(work, c)
			}
		}
	}
	for k := range g.succ {
		sort.Ints(g.succ[k])
	}
	return g
}

func isTestOnly(f *ssa.Function) bool {
	p := fset.Position(f.Pos()).Filename
	return strings.HasSuffix(p, "_test.go")
}

// ---------------------------------------------------------------------------
// registrations and declared flags (AST + go/types)

type site struct {
	call    *ast.CallExpr
	regs    []*Reg // one per Go function the site may wrap (several when the function value comes from a closure factory)
	pkg     *packages.Package
	fnNodes []*ssa.Function
}

func (s *site) addFlags(fl int) {
	for _, r := range s.regs {
		r.Flags |= fl
	}
}

func calleeIs(info *types.Info, call *ast.CallExpr, recv, name string) bool {
	obj := typeutil.Callee(info, call)
	fn, ok := obj.(*types.Func)
	if !ok || fn.Pkg() == nil || fn.Pkg().Path() != rtPath || fn.Name() != name {
		return false
	}
	sig := fn.Type().(*types.Signature)
	if recv == "" {
		return sig.Recv() == nil
	}
	if sig.Recv() == nil {
		return false
	}
	n := namedOf(sig.Recv().Type())
	return n != nil && n.Obj().Name() == recv
}

func regs(facts *Facts, g *graph) {
	litFn := map[*ast.FuncLit]*ssa.Function{}
	for f := range g.isMod {
		if lit, ok := f.Syntax().(*ast.FuncLit); ok {
			litFn[lit] = f
		}
	}
	unresolved := func(pos token.Pos, f string, a ...interface{}) {
		facts.Unresolved = append(facts.Unresolved, relpos(pos)+": "+fmt.Sprintf(f, a...))
	}
	sites := map[*ast.CallExpr]*site{}
	varSite := map[types.Object]*site{}
	varAmbig := map[types.Object]bool{}
	var order []*site

	for _, p := range modPkgs {
		info := p.TypesInfo
		// variables of function type: x := func..., var x = func..., var x = factory(...)
		closureVar := map[types.Object]*ast.FuncLit{}
		factoryVar := map[types.Object]*ast.CallExpr{}
		closureVarN := map[types.Object]int{}
		for _, file := range p.Syntax {
			ast.Inspect(file, func(n ast.Node) bool {
				note := func(id *ast.Ident, rhs ast.Expr) {
					obj := info.ObjectOf(id)
					if obj == nil {
						return
					}
					closureVarN[obj]++
					switch r := ast.Unparen(rhs).(type) {
					case *ast.FuncLit:
						closureVar[obj] = r
					case *ast.CallExpr:
						factoryVar[obj] = r
					}
				}
				switch s := n.(type) {
				case *ast.AssignStmt:
					if len(s.Lhs) == len(s.Rhs) {
						for i, l := range s.Lhs {
							if id, ok := l.(*ast.Ident); ok {
								note(id, s.Rhs[i])
							}
						}
					} else {
						for _, l := range s.Lhs {
							if id, ok := l.(*ast.Ident); ok {
								if obj := info.ObjectOf(id); obj != nil {
									closureVarN[obj] += 2 // multi-value assignment: not resolvable
								}
							}
						}
					}
				case *ast.ValueSpec:
					for i, id := range s.Names {
						if i < len(s.Values) && len(s.Names) == len(s.Values) {
							note(id, s.Values[i])
						}
					}
				}
				return true
			})
		}
		for _, file := range p.Syntax {
			if strings.HasSuffix(fset.Position(file.Pos()).Filename, "_test.go") {
				continue
			}
			resolveFn := func(e ast.Expr) []*ssa.Function {
				e = ast.Unparen(e)
				switch x := e.(type) {
				case *ast.FuncLit:
					if f := litFn[x]; f != nil {
						return []*ssa.Function{f}
					}
				case *ast.Ident, *ast.SelectorExpr:
					var obj types.Object
					if id, ok := x.(*ast.Ident); ok {
						obj = info.ObjectOf(id)
					} else {
						obj = info.ObjectOf(x.(*ast.SelectorExpr).Sel)
					}
					switch o := obj.(type) {
					case *types.Func:
						if f := prog.FuncValue(o); f != nil {
							return []*ssa.Function{f}
						}
					case *types.Var:
						if closureVarN[o] != 1 {
							return nil
						}
						if lit := closureVar[o]; lit != nil && litFn[lit] != nil {
							return []*ssa.Function{litFn[lit]}
						}
						// var x = factory(...): every closure the factory returns
						if call := factoryVar[o]; call != nil {
							if fo, ok := typeutil.Callee(info, call).(*types.Func); ok {
								if ff := prog.FuncValue(fo); ff != nil {
									var out []*ssa.Function
									okAll := true
									for _, b := range ff.Blocks {
										for _, in := range b.Instrs {
											if ret, ok := in.(*ssa.Return); ok {
												for _, rv := range ret.Results {
													if mc, ok := rv.(*ssa.MakeClosure); ok {
														out = append(out, mc.Fn.(*ssa.Function))
													} else if fv, ok := rv.(*ssa.Function); ok {
														out = append(out, fv)
													} else {
														okAll = false
													}
												}
											}
										}
									}
									if okAll && len(out) > 0 {
										return out
									}
								}
							}
						}
					}
				}
				return nil
			}
			var encl []string
			var visit func(n ast.Node) bool
			curFunc := func() string {
				if len(encl) == 0 {
					return ""
				}
				return encl[len(encl)-1]
			}
			visit = func(n ast.Node) bool {
				switch x := n.(type) {
				case *ast.FuncDecl:
					name := p.PkgPath + "." + x.Name.Name
					if x.Recv != nil && len(x.Recv.List) > 0 {
						name = p.PkgPath + "." + types.ExprString(x.Recv.List[0].Type) + "." + x.Name.Name
					}
					encl = append(encl, name)
					if x.Body != nil {
						ast.Inspect(x.Body, visit)
					}
					encl = encl[:len(encl)-1]
					return false
				case *ast.CallExpr:
					isSet := calleeIs(info, x, "Runtime", "SetEnvGoFunc")
					isNew := calleeIs(info, x, "", "NewGoFunction")
					if !isSet && !isNew {
						return true
					}
					if p.PkgPath == rtPath && (curFunc() == rtPath+".*Runtime.SetEnvGoFunc" || curFunc() == rtPath+".NewGoFunction") {
						return true
					}
					var nameArg, fnArg ast.Expr
					kind := "NewGoFunction"
					if isSet {
						if len(x.Args) != 5 {
							unresolved(x.Pos(), "SetEnvGoFunc with %d arguments", len(x.Args))
							return true
						}
						nameArg, fnArg, kind = x.Args[1], x.Args[2], "SetEnvGoFunc"
					} else {
						if len(x.Args) != 4 {
							unresolved(x.Pos(), "NewGoFunction with %d arguments", len(x.Args))
							return true
						}
						nameArg, fnArg = x.Args[1], x.Args[0]
					}
					luaName := "?"
					if tv, ok := info.Types[nameArg]; ok && tv.Value != nil && tv.Value.Kind() == constant.String {
						luaName = constant.StringVal(tv.Value)
					} else {
						unresolved(x.Pos(), "%s: name is not a constant string", kind)
					}
					fns := resolveFn(fnArg)
					if len(fns) == 0 {
						unresolved(x.Pos(), "%s(%q): cannot resolve the Go function expression %s", kind, luaName, types.ExprString(fnArg))
						return true
					}
					s := &site{call: x, pkg: p, fnNodes: fns}
					for _, fn := range fns {
						s.regs = append(s.regs, &Reg{Site: relpos(x.Pos()), Kind: kind, Sym: fn.String(), RtSym: rtSym(fn.String()),
							LuaName: luaName, InFunc: curFunc()})
					}
					sites[x] = s
					order = append(order, s)
				}
				return true
			}
			ast.Inspect(file, visit)

			// variables holding a registration: x := rt.NewGoFunction(...), var x = ...
			ast.Inspect(file, func(n ast.Node) bool {
				bind := func(id *ast.Ident, rhs ast.Expr, define bool) {
					obj := info.ObjectOf(id)
					if obj == nil {
						return
					}
					call, _ := ast.Unparen(rhs).(*ast.CallExpr)
					if s := sites[call]; call != nil && s != nil {
						if varSite[obj] != nil {
							varAmbig[obj] = true
						}
						varSite[obj] = s
						if v, ok := obj.(*types.Var); ok && v.Parent() == v.Pkg().Scope() {
							for _, r := range s.regs {
								r.Var = v.Pkg().Path() + "." + v.Name()
							}
						}
					} else if !define {
						if _, ok := obj.(*types.Var); ok && obj.Type().String() == "*"+rtPath+".GoFunction" {
							varAmbig[obj] = true // assigned from something that is not a registration call
						}
					}
				}
				switch s := n.(type) {
				case *ast.AssignStmt:
					if len(s.Lhs) == len(s.Rhs) {
						for i, l := range s.Lhs {
							if id, ok := l.(*ast.Ident); ok {
								bind(id, s.Rhs[i], s.Tok == token.DEFINE)
							}
						}
					}
				case *ast.ValueSpec:
					if len(s.Names) == len(s.Values) {
						for i, id := range s.Names {
							bind(id, s.Values[i], true)
						}
					}
				}
				return true
			})
		}
	}

	// declarations
	for _, p := range modPkgs {
		info := p.TypesInfo
		for _, file := range p.Syntax {
			if strings.HasSuffix(fset.Position(file.Pos()).Filename, "_test.go") {
				continue
			}
			var curDecl *ast.FuncDecl
			ast.Inspect(file, func(n ast.Node) bool {
				if fd, ok := n.(*ast.FuncDecl); ok {
					curDecl = fd
					return true
				}
				call, ok := n.(*ast.CallExpr)
				if !ok {
					return true
				}
				isFn := calleeIs(info, call, "", "SolemnlyDeclareCompliance")
				isMeth := calleeIs(info, call, "GoFunction", "SolemnlyDeclareCompliance")
				if !isFn && !isMeth {
					return true
				}
				if p.PkgPath == rtPath && curDecl != nil && curDecl.Name.Name == "SolemnlyDeclareCompliance" {
					return true // the definitions themselves
				}
				if len(call.Args) == 0 {
					return true
				}
				flags := -1
				if tv, ok := info.Types[call.Args[0]]; ok && tv.Value != nil {
					if v, ok := constant.Int64Val(constant.ToInt(tv.Value)); ok {
						flags = int(v)
					}
				}
				if flags < 0 {
					unresolved(call.Pos(), "SolemnlyDeclareCompliance: flags are not a compile-time constant")
					return true
				}
				target := func(e ast.Expr) {
					e = ast.Unparen(e)
					if c, ok := e.(*ast.CallExpr); ok {
						if s := sites[c]; s != nil {
							s.addFlags(flags)
							return
						}
					}
					var obj types.Object
					switch x := e.(type) {
					case *ast.Ident:
						obj = info.ObjectOf(x)
					case *ast.SelectorExpr:
						obj = info.ObjectOf(x.Sel)
					}
					if obj != nil {
						if s := varSite[obj]; s != nil && !varAmbig[obj] {
							s.addFlags(flags)
							return
						}
					}
					unresolved(e.Pos(), "SolemnlyDeclareCompliance: cannot tell which GoFunction %s is", types.ExprString(e))
				}
				if isFn {
					if call.Ellipsis.IsValid() {
						unresolved(call.Pos(), "SolemnlyDeclareCompliance(flags, xs...): spread argument")
						return true
					}
					for _, a := range call.Args[1:] {
						target(a)
					}
				} else {
					sel, ok := ast.Unparen(call.Fun).(*ast.SelectorExpr)
					if !ok {
						unresolved(call.Pos(), "method value SolemnlyDeclareCompliance")
						return true
					}
					target(sel.X)
				}
				return true
			})
		}
	}
	sort.SliceStable(order, func(i, j int) bool { return order[i].regs[0].Site < order[j].regs[0].Site })
	for _, s := range order {
		for k, r := range s.regs {
			id, ok := g.id[s.fnNodes[k]]
			if !ok {
				unresolved(s.call.Pos(), "registered function %s is not a node of the call graph", r.Sym)
				continue
			}
			r.Node = id
			facts.Regs = append(facts.Regs, *r)
		}
	}
	sort.Strings(facts.Unresolved)
}

// ---------------------------------------------------------------------------
// certificate

const ComplyIoSafe = 4

func certificate(facts *Facts, g *graph) {
	for i, f := range g.fns {
		facts.Nodes = append(facts.Nodes, Node{ID: i, Name: f.String(), RtSym: rtSym(f.String()), Mod: g.isMod[f], Sink: !g.isMod[f] && isSink(f),
			Gate: g.isMod[f] && isGate(f), Pos: relpos(f.Pos())})
	}
	for u := 0; u < len(g.fns); u++ {
		for _, v := range g.succ[u] {
			facts.Edges = append(facts.Edges, [2]int{u, v})
		}
	}
	facts.ExemptEdges = [][3]string{}
	for _, e := range g.exempt {
		facts.ExemptEdges = append(facts.ExemptEdges, [3]string{e[0], e[1], exemptEdges[e]})
	}
	srcSet := map[int]bool{}
	for _, r := range facts.Regs {
		if r.Flags&ComplyIoSafe != 0 {
			srcSet[r.Node] = true
		}
	}
	for s := range srcSet {
		facts.IosafeSrcs = append(facts.IosafeSrcs, s)
	}
	sort.Ints(facts.IosafeSrcs)
	// what the gates themselves run in a context requiring iosafe:
	//   GoCont.RunInThread: everything it calls directly (CheckRequiredFlags, RequireCPU, triggerReturn, pools);
	//     its call through the function value c.f reaches only functions that declared the required flags;
	//   safeio.X: everything except the guarded sink calls (all of its callees if the guard fact failed).
	gsrc := map[int]bool{}
	for i, f := range g.fns {
		if !facts.Nodes[i].Gate {
			continue
		}
		isRun := f.String() == "(*"+rtPath+".GoCont).RunInThread"
		for _, c := range g.full[f] {
			ci, ok := g.id[c]
			if !ok {
				continue
			}
			if isRun {
				if g.nonDyn[f][c] || !facts.GateFacts["RunInThread"] {
					gsrc[ci] = true
				}
			} else {
				if !facts.Nodes[ci].Sink || !facts.GateFacts["safeio."+f.Name()] {
					gsrc[ci] = true
				}
			}
		}
	}
	for s := range gsrc {
		if !srcSet[s] {
			facts.GateSrcs = append(facts.GateSrcs, s)
		}
	}
	sort.Ints(facts.GateSrcs)
	if facts.GateSrcs == nil {
		facts.GateSrcs = []int{}
	}
	// per-source reachability avoiding gates
	reach := func(srcs []int) (map[int]int, []int) {
		parent := map[int]int{}
		var orderv []int
		var work []int
		for _, s := range srcs {
			if _, ok := parent[s]; !ok {
				parent[s] = -1
				work = append(work, s)
				orderv = append(orderv, s)
			}
		}
		for len(work) > 0 {
			u := work[0]
			work = work[1:]
			for _, v := range g.succ[u] {
				if facts.Nodes[v].Gate {
					continue
				}
				if _, ok := parent[v]; ok {
					continue
				}
				parent[v] = u
				orderv = append(orderv, v)
				work = append(work, v)
			}
		}
		return parent, orderv
	}
	for _, s := range append(append([]int{}, facts.IosafeSrcs...), facts.GateSrcs...) {
		parent, orderv := reach([]int{s})
		bad := false
		for _, v := range orderv {
			if facts.Nodes[v].Sink {
				bad = true
				var path []int
				for x := v; x != -1; x = parent[x] {
					path = append([]int{x}, path...)
				}
				facts.Holes = append(facts.Holes, Hole{Src: s, Sink: v, Path: path})
			}
		}
		if bad {
			facts.HoleSrcs = append(facts.HoleSrcs, s)
		} else {
			facts.CleanSrcs = append(facts.CleanSrcs, s)
		}
	}
	parent, _ := reach(facts.CleanSrcs)
	for v := range parent {
		facts.S = append(facts.S, v)
	}
	sort.Ints(facts.S)
	if facts.Holes == nil {
		facts.Holes = []Hole{}
	}
}

// ---------------------------------------------------------------------------
// gate facts: the flag test really stands between the entry of a gate and what it guards

// dominatedByCheck reports whether every instruction satisfying `guarded` in f lies in a block that is
// reached only through the "passed" branch of an `if` whose condition derives from a call satisfying `check`.
func guardedBy(f *ssa.Function, check func(*ssa.Call) bool, guarded func(ssa.Instruction) bool) (found bool, ok bool) {
	if len(f.Blocks) == 0 {
		return false, false
	}
	// blocks that are the "pass" successor of a check: the If's condition depends on the check call
	// and the other successor returns without reaching a guarded instruction.
	derives := func(v ssa.Value) bool {
		seen := map[ssa.Value]bool{}
		var rec func(v ssa.Value, d int) bool
		rec = func(v ssa.Value, d int) bool {
			if v == nil || seen[v] || d > 8 {
				return false
			}
			seen[v] = true
			if c, ok := v.(*ssa.Call); ok && check(c) {
				return true
			}
			if in, ok := v.(ssa.Instruction); ok {
				for _, op := range in.Operands(nil) {
					if *op != nil && rec(*op, d+1) {
						return true
					}
				}
			}
			return false
		}
		return rec(v, 0)
	}
	hasGuarded := func(b *ssa.BasicBlock) bool {
		for _, in := range b.Instrs {
			if guarded(in) {
				return true
			}
		}
		return false
	}
	// refusing(b): from b no guarded instruction is reachable
	reachGuarded := map[*ssa.BasicBlock]bool{}
	for changed := true; changed; {
		changed = false
		for _, b := range f.Blocks {
			if reachGuarded[b] {
				continue
			}
			r := hasGuarded(b)
			for _, s := range b.Succs {
				if reachGuarded[s] {
					r = true
				}
			}
			if r {
				reachGuarded[b] = true
				changed = true
			}
		}
	}
	var passBlocks []*ssa.BasicBlock
	for _, b := range f.Blocks {
		if len(b.Instrs) == 0 {
			continue
		}
		iff, ok := b.Instrs[len(b.Instrs)-1].(*ssa.If)
		if !ok || !derives(iff.Cond) {
			continue
		}
		// exactly one successor must be unable to reach a guarded instruction (the refusal branch)
		a, c := b.Succs[0], b.Succs[1]
		if reachGuarded[a] && !reachGuarded[c] {
			passBlocks = append(passBlocks, a)
		} else if reachGuarded[c] && !reachGuarded[a] {
			passBlocks = append(passBlocks, c)
		}
	}
	ok = true
	for _, b := range f.Blocks {
		if !hasGuarded(b) {
			continue
		}
		found = true
		dom := false
		for _, p := range passBlocks {
			if p.Dominates(b) && len(p.Preds) == 1 {
				dom = true
			}
		}
		if !dom {
			ok = false
		}
	}
	return found, ok
}

func gateFacts(facts *Facts, g *graph) {
	for _, f := range g.fns {
		if !g.isMod[f] || !isGate(f) {
			continue
		}
		if f.String() == "(*"+rtPath+".GoCont).RunInThread" {
			found, ok := guardedBy(f,
				func(c *ssa.Call) bool {
					// t.CheckRequiredFlags(c.safetyFlags)
					callee := c.Call.StaticCallee()
					if callee == nil || callee.Name() != "CheckRequiredFlags" || len(c.Call.Args) < 2 {
						return false
					}
					// the argument must be a load of the field safetyFlags
					u, ok := c.Call.Args[len(c.Call.Args)-1].(*ssa.UnOp)
					if !ok {
						return false
					}
					fa, ok := u.X.(*ssa.FieldAddr)
					if !ok {
						return false
					}
					st, ok := fa.X.Type().Underlying().(*types.Pointer).Elem().Underlying().(*types.Struct)
					return ok && st.Field(fa.Field).Name() == "safetyFlags"
				},
				func(in ssa.Instruction) bool {
					c, ok := in.(ssa.CallInstruction)
					if !ok {
						return false
					}
					cc := c.Common()
					if cc.IsInvoke() || cc.StaticCallee() != nil {
						return false
					}
					_, isBuiltin := cc.Value.(*ssa.Builtin)
					if isBuiltin {
						return false
					}
					if _, isClosure := cc.Value.(*ssa.MakeClosure); isClosure {
						return false // the deferred func literal of RunInThread itself
					}
					return true // a call through a function value: c.f(t, c)
				})
			facts.GateFacts["RunInThread"] = found && ok
			continue
		}
		// safeio.*: every call that leaves the module is guarded by the RequiredFlags()&ComplyIoSafe test
		found, ok := guardedBy(f,
			func(c *ssa.Call) bool {
				callee := c.Call.StaticCallee()
				return callee != nil && callee.Name() == "RequiredFlags"
			},
			func(in ssa.Instruction) bool {
				c, ok := in.(ssa.CallInstruction)
				if !ok {
					return false
				}
				callee := c.Common().StaticCallee()
				if callee == nil {
					return !c.Common().IsInvoke() // function value call
				}
				return !isModPath(fnPkgPath(callee)) && isSink(callee)
			})
		if found {
			facts.GateFacts["safeio."+f.Name()] = ok
		}
	}
}

// ---------------------------------------------------------------------------
// Lean output

func leanStr(s string) string {
	var b strings.Builder
	b.WriteByte('"')
	for _, r := range s {
		switch {
		case r == '"' || r == '\\':
			b.WriteByte('\\')
			b.WriteRune(r)
		case r < 32 || r > 126:
			fmt.Fprintf(&b, "\\u{%x}", r)
		default:
			b.WriteRune(r)
		}
	}
	b.WriteByte('"')
	return b.String()
}

const chunk = 150

func leanHeader(what string) string {
	return "/-\n  GENERATED by extract/gofacts from the Go sources on every ./check run.  DO NOT EDIT.\n  " + what + "\n-/\n"
}

func leanCompliance(f *Facts) string {
	var b strings.Builder
	b.WriteString(leanHeader("GoFunction registration sites (SetEnvGoFunc / NewGoFunction) with the flags solemnly declared for each."))
	b.WriteString("namespace GoluaVerif.Generated.Compliance\n\n")
	b.WriteString("structure Reg where\n  sym : String\n  luaName : String\n  flags : Nat\n  node : Nat\n  site : String\n  deriving Repr, DecidableEq\n\n")
	n := 0
	for i := 0; i < len(f.Regs); i += chunk {
		fmt.Fprintf(&b, "def regs%d : List Reg := [\n", n)
		end := i + chunk
		if end > len(f.Regs) {
			end = len(f.Regs)
		}
		for j := i; j < end; j++ {
			r := f.Regs[j]
			sep := ","
			if j == end-1 {
				sep = ""
			}
			fmt.Fprintf(&b, "  ⟨%s, %s, %d, %d, %s⟩%s\n", leanStr(r.RtSym), leanStr(r.LuaName), r.Flags, r.Node, leanStr(r.Site), sep)
		}
		b.WriteString("]\n\n")
		n++
	}
	b.WriteString("def regs : List Reg := ")
	if n == 0 {
		b.WriteString("[]")
	}
	for i := 0; i < n; i++ {
		if i > 0 {
			b.WriteString(" ++ ")
		}
		fmt.Fprintf(&b, "regs%d", i)
	}
	b.WriteString("\n\n/-- registration or declaration sites the extractor could not resolve (must be empty) -/\ndef unresolved : List String := [")
	for i, u := range f.Unresolved {
		if i > 0 {
			b.WriteString(", ")
		}
		b.WriteString(leanStr(u))
	}
	b.WriteString("]\n\nend GoluaVerif.Generated.Compliance\n")
	return b.String()
}

func bitmask(ids []int) string {
	if len(ids) == 0 {
		return "0"
	}
	max := 0
	for _, i := range ids {
		if i > max {
			max = i
		}
	}
	nib := make([]byte, max/4+1)
	for _, i := range ids {
		nib[i/4] |= 1 << uint(i%4)
	}
	var b strings.Builder
	b.WriteString("0x")
	for i := len(nib) - 1; i >= 0; i-- {
		b.WriteByte("0123456789abcdef"[nib[i]])
	}
	return b.String()
}

func natList(xs []int) string {
	var b strings.Builder
	b.WriteByte('[')
	for i, x := range xs {
		if i > 0 {
			b.WriteString(", ")
		}
		fmt.Fprint(&b, x)
	}
	b.WriteByte(']')
	return b.String()
}

func leanCallGraph(f *Facts) string {
	var b strings.Builder
	b.WriteString(leanHeader("Call graph restricted to callers inside the golua module; node ids index facts.json `nodes`.\n  Node sets are bitmasks (bit i = node i)."))
	b.WriteString("import GoluaVerif.Model.Graph\nnamespace GoluaVerif.Generated.CallGraph\n\n")
	fmt.Fprintf(&b, "def nNodes : Nat := %d\n\n", len(f.Nodes))
	// edges are packed: chunk = Σ_k (2^32 + u_k·2^16 + v_k)·2^(33k); Model.Graph.decodeChunk unpacks them
	if len(f.Nodes) >= 1<<16 {
		die("more than 65535 nodes: widen the edge encoding")
	}
	fmt.Fprintf(&b, "def nEdges : Nat := %d\n\n", len(f.Edges))
	b.WriteString("def chunks : List Nat := [")
	n := 0
	for i := 0; i < len(f.Edges); i += chunk {
		end := i + chunk
		if end > len(f.Edges) {
			end = len(f.Edges)
		}
		x := new(big.Int)
		for j := end - 1; j >= i; j-- {
			x.Lsh(x, 33)
			e := new(big.Int).SetUint64(1<<32 + uint64(f.Edges[j][0])<<16 + uint64(f.Edges[j][1]))
			x.Or(x, e)
		}
		if n > 0 {
			b.WriteString(",")
		}
		b.WriteString("\n  0x" + x.Text(16))
		n++
	}
	b.WriteString("]\n\n")
	b.WriteString("def graph : GoluaVerif.Model.Graph.EdgeList := chunks.map (GoluaVerif.Model.Graph.decodeChunk 256)\n\n")
	var gates, sinks []int
	var gateNames, sinkNames []string
	for _, nd := range f.Nodes {
		if nd.Gate {
			gates = append(gates, nd.ID)
			gateNames = append(gateNames, nd.Name)
		}
		if nd.Sink {
			sinks = append(sinks, nd.ID)
			sinkNames = append(sinkNames, nd.Name)
		}
	}
	fmt.Fprintf(&b, "/-- %s -/\ndef gates : Nat := %s\n\n", strings.Join(gateNames, ", "), bitmask(gates))
	fmt.Fprintf(&b, "/-- %s -/\ndef sinks : Nat := %s\n\n", strings.Join(sinkNames, ", "), bitmask(sinks))
	fmt.Fprintf(&b, "/-- every Go function registered with a declaration containing ComplyIoSafe -/\ndef iosafeSrcs : List Nat := %s\n\n", natList(f.IosafeSrcs))
	fmt.Fprintf(&b, "/-- what the gates themselves call in a context requiring iosafe (everything GoCont.RunInThread calls other than\n  through the function value c.f; everything a safeio function calls outside its guarded branch) -/\ndef gateSrcs : List Nat := %s\n\n", natList(f.GateSrcs))
	fmt.Fprintf(&b, "/-- the iosafe-declared functions from which no sink is reachable without passing a gate -/\ndef cleanSrcs : List Nat := %s\n\n", natList(f.CleanSrcs))
	fmt.Fprintf(&b, "/-- the others (each is reported as a violation by checks/c08.py) -/\ndef holeSrcs : List Nat := %s\n\n", natList(f.HoleSrcs))
	fmt.Fprintf(&b, "/-- certificate: everything reachable from cleanSrcs without passing a gate (%d nodes) -/\ndef S : Nat := %s\n\n", len(f.S), bitmask(f.S))
	b.WriteString("/-- one witness path per offending (source, sink) pair: the nodes, and for each step where its edge\n    sits in `chunks` (chunk index, offset) -/\ndef holePaths : List (List Nat × List (Nat × Nat)) := [")
	eidx := map[[2]int]int{}
	for i, e := range f.Edges {
		eidx[e] = i
	}
	for i, h := range f.Holes {
		if i > 0 {
			b.WriteString(",")
		}
		b.WriteString("\n  (" + natList(h.Path) + ", [")
		for k := 0; k+1 < len(h.Path); k++ {
			if k > 0 {
				b.WriteString(", ")
			}
			j := eidx[[2]int{h.Path[k], h.Path[k+1]}]
			fmt.Fprintf(&b, "(%d, %d)", j/chunk, j%chunk)
		}
		b.WriteString("])")
	}
	b.WriteString("]\n\n")
	keys := []string{}
	for k := range f.GateFacts {
		keys = append(keys, k)
	}
	sort.Strings(keys)
	b.WriteString("/-- for each gate: is everything it guards dominated by the passed branch of its flag test? -/\ndef gateFacts : List (String × Bool) := [")
	for i, k := range keys {
		if i > 0 {
			b.WriteString(", ")
		}
		fmt.Fprintf(&b, "(%s, %v)", leanStr(k), f.GateFacts[k])
	}
	b.WriteString("]\n\nend GoluaVerif.Generated.CallGraph\n")
	return b.String()
}

func leanGlobals(f *Facts) string {
	var b strings.Builder
	b.WriteString(leanHeader("Package-level variables of the golua module and the functions that write them after init.\n  sharedWriters = (variable, writer) pairs whose writer is reachable from runtime.New, a library loader or a registered Go function."))
	b.WriteString("namespace GoluaVerif.Generated.Globals\n\n")
	fmt.Fprintf(&b, "def nGlobals : Nat := %d\n\n", len(f.Globals))
	n := 0
	for i := 0; i < len(f.SharedWriters); i += chunk {
		end := i + chunk
		if end > len(f.SharedWriters) {
			end = len(f.SharedWriters)
		}
		fmt.Fprintf(&b, "def sharedWriters%d : List (String × String) := [\n", n)
		for j := i; j < end; j++ {
			sep := ","
			if j == end-1 {
				sep = ""
			}
			fmt.Fprintf(&b, "  (%s, %s)%s\n", leanStr(shortName(f.SharedWriters[j][0])), leanStr(shortName(f.SharedWriters[j][1])), sep)
		}
		b.WriteString("]\n\n")
		n++
	}
	b.WriteString("def sharedWriters : List (String × String) := ")
	if n == 0 {
		b.WriteString("[]")
	}
	for i := 0; i < n; i++ {
		if i > 0 {
			b.WriteString(" ++ ")
		}
		fmt.Fprintf(&b, "sharedWriters%d", i)
	}
	b.WriteString("\n\n/-- variables written after init only by functions NOT reachable from a root (not part of the obligation) -/\ndef unreachableWriters : List (String × String) := [")
	first := true
	for _, G := range f.Globals {
		for _, w := range G.Writers {
			if !w.Reachable {
				if !first {
					b.WriteString(",")
				}
				first = false
				fmt.Fprintf(&b, "\n  (%s, %s)", leanStr(shortName(G.Name)), leanStr(shortName(w.Fn)))
			}
		}
	}
	b.WriteString("]\n\nend GoluaVerif.Generated.Globals\n")
	return b.String()
}
