module verifextract

go 1.17
