// golean: a deliberately tiny Go -> Lean 4 translator for leaf functions.
//
// Usage: golean -repo /repo -spec spec.json -out <dir>
//
// spec.json: [{"module":"Comp","pkg":"runtime","types":["RuntimeResources"],
//              "consts":["NumberType"],"funcs":["ltIntAndFloat","RuntimeResources.Remove"]}]
//
// Subset: functions/methods whose params/results are integers, bool, float64 or
// structs of those; statements := = op= ++ -- if/else return; expressions:
// arithmetic, bitwise, shifts, comparisons, && || !, conversions, field access,
// calls to other translated functions; a `string` parameter is represented by its
// length (BitVec 64) and only `len(s)` may be applied to it.
// Also (added for C04, code/opcodes.go): composite literals T{f: v} / T{} of translated struct types;
// shifts by a constant count (emitted with a Nat literal); parameters whose type is a one-method
// interface (encoderToN, encoderToD) are passed "already applied" (the result of that method) and
// call sites apply the concrete type's method; a function containing `panic("const string")`, or
// calling such a function, is emitted in the `Except String` monad (`throw "msg"`, call sites `(← f x)`).
// Anything else makes the function
// UNTRANSLATABLE: the tool prints `UNTRANSLATABLE <func>: <reason>` on stderr,
// emits no definition for it (so every theorem over it fails to elaborate) and
// exits 3 after writing the rest.
package main

import (
	"crypto/sha256"
	"encoding/json"
	"flag"
	"fmt"
	"go/ast"
	"go/constant"
	"go/importer"
	"go/parser"
	"go/printer"
	"go/token"
	"go/types"
	"os"
	"path/filepath"
	"sort"
	"strings"
)

type ModSpec struct {
	Module string   `json:"module"`
	Pkg    string   `json:"pkg"`
	Types  []string `json:"types"`
	Consts []string `json:"consts"` // named types whose constants are emitted
	Funcs  []string `json:"funcs"`
	// Pure: names of functions in the package that may be called and are translated elsewhere
	Extern map[string]string `json:"extern"`
}

type pkgInfo struct {
	fset  *token.FileSet
	files []*ast.File
	info  *types.Info
	pkg   *types.Package
}

var pkgCache = map[string]*pkgInfo{}

func loadPkg(repo, rel string) (*pkgInfo, error) {
	if p, ok := pkgCache[rel]; ok {
		return p, nil
	}
	fset := token.NewFileSet()
	dir := filepath.Join(repo, rel)
	ents, err := os.ReadDir(dir)
	if err != nil {
		return nil, err
	}
	var files []*ast.File
	for _, e := range ents {
		n := e.Name()
		if !strings.HasSuffix(n, ".go") || strings.HasSuffix(n, "_test.go") {
			continue
		}
		src, err := os.ReadFile(filepath.Join(dir, n))
		if err != nil {
			return nil, err
		}
		// honour default build (no tags): skip files with a build constraint naming a tag
		if hasExcludingConstraint(string(src)) {
			continue
		}
		f, err := parser.ParseFile(fset, filepath.Join(dir, n), src, parser.ParseComments)
		if err != nil {
			return nil, err
		}
		files = append(files, f)
	}
	info := &types.Info{
		Types: map[ast.Expr]types.TypeAndValue{},
		Defs:  map[*ast.Ident]types.Object{},
		Uses:  map[*ast.Ident]types.Object{},
	}
	conf := types.Config{
		Importer: importer.ForCompiler(fset, "source", nil),
		Error:    func(err error) {}, // tolerate errors in unrelated code
	}
	pkg, _ := conf.Check("github.com/arnodel/golua/"+rel, fset, files, info)
	p := &pkgInfo{fset, files, info, pkg}
	pkgCache[rel] = p
	return p, nil
}

func hasExcludingConstraint(src string) bool {
	for _, line := range strings.Split(src, "\n") {
		line = strings.TrimSpace(line)
		if strings.HasPrefix(line, "package ") {
			return false
		}
		if strings.HasPrefix(line, "//go:build ") {
			expr := strings.TrimPrefix(line, "//go:build ")
			// default build: all custom tags false.  Evaluate the very simple forms used in golua.
			expr = strings.TrimSpace(expr)
			if strings.HasPrefix(expr, "!") && !strings.ContainsAny(expr, " &|") {
				return false // "!tag" is satisfied by default
			}
			if expr == "linux" || expr == "amd64" || expr == "unix" || strings.Contains(expr, "!windows") {
				return false
			}
			return true
		}
	}
	return false
}

type untranslatable struct{ msg string }

func bail(format string, a ...interface{}) { panic(untranslatable{fmt.Sprintf(format, a...)}) }

type tr struct {
	p      *pkgInfo
	spec   *ModSpec
	known  map[string]bool // translated function names (Lean names)
	locals map[string]bool
	// panics: translated functions that contain `panic(...)` (or call such a function); they are
	// emitted in the `Except String` monad and their call sites use `(← f args)`
	panics map[string]bool
	// ifaceParams: parameters of the function being translated whose type is a one-method interface;
	// they are passed already "applied", i.e. as the result of that method (defunctionalised)
	ifaceParams map[string]string
	inExcept    bool
}

// singleMethodIface returns the method of an interface type with exactly one, argument-less, one-result method.
func singleMethodIface(ty types.Type) (*types.Func, bool) {
	it, ok := ty.Underlying().(*types.Interface)
	if !ok || it.NumMethods() != 1 {
		return nil, false
	}
	m := it.Method(0)
	sig := m.Type().(*types.Signature)
	if sig.Params().Len() != 0 || sig.Results().Len() != 1 {
		return nil, false
	}
	return m, true
}

func (t *tr) leanType(ty types.Type) string {
	switch u := ty.(type) {
	case *types.Named:
		name := u.Obj().Name()
		if _, ok := u.Underlying().(*types.Struct); ok {
			return name
		}
		if _, ok := u.Underlying().(*types.Interface); ok {
			return t.leanType(u.Underlying())
		}
		return t.leanType(u.Underlying())
	case *types.Basic:
		switch u.Kind() {
		case types.Int64, types.Int, types.Uint64, types.Uint, types.Uintptr:
			return "(BitVec 64)"
		case types.Int32, types.Uint32:
			return "(BitVec 32)"
		case types.Int16, types.Uint16:
			return "(BitVec 16)"
		case types.Int8, types.Uint8:
			return "(BitVec 8)"
		case types.Bool, types.UntypedBool:
			return "Bool"
		case types.Float64:
			return "F64"
		case types.String:
			// a Go string is represented by its length only (int, >= 0); the only operation
			// accepted on it is len(s) (see call); anything else is outside the subset
			return "(BitVec 64)"
		}
	case *types.Interface:
		if m, ok := singleMethodIface(u); ok {
			return t.leanType(m.Type().(*types.Signature).Results().At(0).Type())
		}
	case *types.Tuple:
		var parts []string
		for i := 0; i < u.Len(); i++ {
			parts = append(parts, t.leanType(u.At(i).Type()))
		}
		if len(parts) == 1 {
			return parts[0]
		}
		return "(" + strings.Join(parts, " × ") + ")"
	}
	bail("unsupported type %s", ty)
	return ""
}

func width(ty types.Type) (int, bool, bool) { // bits, signed, isInt
	b, ok := ty.Underlying().(*types.Basic)
	if !ok {
		return 0, false, false
	}
	switch b.Kind() {
	case types.Int64, types.Int:
		return 64, true, true
	case types.Uint64, types.Uint, types.Uintptr:
		return 64, false, true
	case types.Int32:
		return 32, true, true
	case types.Uint32:
		return 32, false, true
	case types.Int16:
		return 16, true, true
	case types.Uint16:
		return 16, false, true
	case types.Int8:
		return 8, true, true
	case types.Uint8:
		return 8, false, true
	}
	return 0, false, false
}

func isFloat(ty types.Type) bool {
	b, ok := ty.Underlying().(*types.Basic)
	return ok && (b.Kind() == types.Float64 || b.Kind() == types.UntypedFloat)
}

func isBool(ty types.Type) bool {
	b, ok := ty.Underlying().(*types.Basic)
	return ok && (b.Kind() == types.Bool || b.Kind() == types.UntypedBool)
}

func (t *tr) typeOf(e ast.Expr) types.Type {
	tv, ok := t.p.info.Types[e]
	if !ok || tv.Type == nil {
		bail("no type for expression")
	}
	return tv.Type
}

func (t *tr) constVal(e ast.Expr) (string, bool) {
	tv, ok := t.p.info.Types[e]
	if !ok || tv.Value == nil {
		return "", false
	}
	ty := tv.Type
	if isBool(ty) {
		if constant.BoolVal(tv.Value) {
			return "true", true
		}
		return "false", true
	}
	if isFloat(ty) {
		v := constant.ToInt(tv.Value)
		if v.Kind() != constant.Int {
			bail("non-integral float constant %s", tv.Value.ExactString())
		}
		return fmt.Sprintf("(F64.ofInt (%s))", v.ExactString()), true
	}
	if w, _, ok := width(ty); ok {
		v := constant.ToInt(tv.Value)
		if v.Kind() != constant.Int {
			return "", false
		}
		s := v.ExactString()
		if strings.HasPrefix(s, "-") {
			return fmt.Sprintf("(BitVec.ofInt %d (%s))", w, s), true
		}
		return fmt.Sprintf("%s#%d", s, w), true
	}
	return "", false
}

func (t *tr) expr(e ast.Expr) string {
	if c, ok := t.constVal(e); ok {
		return c
	}
	switch x := e.(type) {
	case *ast.ParenExpr:
		return t.expr(x.X)
	case *ast.Ident:
		if x.Name == "true" || x.Name == "false" {
			return x.Name
		}
		if tv, ok := t.p.info.Types[x]; ok && tv.Type != nil {
			if b, ok := tv.Type.Underlying().(*types.Basic); ok && b.Info()&types.IsString != 0 {
				bail("string value %s used other than in len(%s)", x.Name, x.Name)
			}
		}
		if _, ok := t.ifaceParams[x.Name]; ok {
			bail("interface parameter %s used other than by calling its method", x.Name)
		}
		return leanIdent(x.Name)
	case *ast.SelectorExpr:
		// field access on a struct value / pointer
		if sel, ok := t.p.info.Uses[x.Sel].(*types.Var); ok && sel.IsField() {
			return fmt.Sprintf("%s.%s", t.expr(x.X), x.Sel.Name)
		}
		bail("unsupported selector %s", x.Sel.Name)
	case *ast.UnaryExpr:
		ty := t.typeOf(x.X)
		a := t.expr(x.X)
		switch x.Op {
		case token.NOT:
			return fmt.Sprintf("(!%s)", a)
		case token.SUB:
			if isFloat(ty) {
				return fmt.Sprintf("(F64.neg %s)", a)
			}
			return fmt.Sprintf("(-%s)", a)
		case token.XOR:
			return fmt.Sprintf("(~~~%s)", a)
		}
		bail("unsupported unary %s", x.Op)
	case *ast.BinaryExpr:
		return t.binary(x)
	case *ast.CallExpr:
		return t.call(x)
	case *ast.CompositeLit:
		return t.composite(x)
	}
	bail("unsupported expression %T", e)
	return ""
}

// composite translates T{f: v, ...} / T{} for a translated struct type (missing fields are zero).
func (t *tr) composite(x *ast.CompositeLit) string {
	ty := t.typeOf(x)
	named, ok := ty.(*types.Named)
	if !ok {
		bail("composite literal of unnamed type")
	}
	st, ok := named.Underlying().(*types.Struct)
	if !ok {
		bail("composite literal of non-struct type %s", ty)
	}
	vals := map[string]string{}
	for i, el := range x.Elts {
		if kv, ok := el.(*ast.KeyValueExpr); ok {
			k, ok := kv.Key.(*ast.Ident)
			if !ok {
				bail("composite literal key")
			}
			vals[k.Name] = t.expr(kv.Value)
		} else {
			vals[st.Field(i).Name()] = t.expr(el)
		}
	}
	var parts []string
	for i := 0; i < st.NumFields(); i++ {
		f := st.Field(i)
		v, ok := vals[f.Name()]
		if !ok {
			if isBool(f.Type()) {
				v = "false"
			} else if w, _, ok := width(f.Type()); ok {
				v = fmt.Sprintf("0#%d", w)
			} else {
				bail("zero value of field %s", f.Name())
			}
		}
		parts = append(parts, fmt.Sprintf("%s := %s", f.Name(), v))
	}
	return fmt.Sprintf("({ %s } : %s)", strings.Join(parts, ", "), named.Obj().Name())
}

func (t *tr) binary(x *ast.BinaryExpr) string {
	lt := t.typeOf(x.X)
	if x.Op == token.SHL || x.Op == token.SHR {
		if tv, ok := t.p.info.Types[x.Y]; ok && tv.Value != nil {
			if n, exact := constant.Uint64Val(constant.ToInt(tv.Value)); exact {
				if _, isConst := t.constVal(x); !isConst {
					// constant shift count (possibly an untyped constant): a plain Nat literal
					a := t.expr(x.X)
					_, signed, ok := width(lt)
					if !ok {
						bail("unsupported operand type %s", lt)
					}
					if x.Op == token.SHL {
						return fmt.Sprintf("(%s <<< %d)", a, n)
					}
					if signed {
						return fmt.Sprintf("(BitVec.sshiftRight %s %d)", a, n)
					}
					return fmt.Sprintf("(%s >>> %d)", a, n)
				}
			}
		}
	}
	a, b := t.expr(x.X), t.expr(x.Y)
	switch x.Op {
	case token.LAND:
		return fmt.Sprintf("(%s && %s)", a, b)
	case token.LOR:
		return fmt.Sprintf("(%s || %s)", a, b)
	}
	if isBool(lt) {
		switch x.Op {
		case token.EQL:
			return fmt.Sprintf("(%s == %s)", a, b)
		case token.NEQ:
			return fmt.Sprintf("(%s != %s)", a, b)
		}
		bail("unsupported bool op %s", x.Op)
	}
	if isFloat(lt) || isFloat(t.typeOf(x.Y)) {
		switch x.Op {
		case token.EQL:
			return fmt.Sprintf("(F64.beq %s %s)", a, b)
		case token.NEQ:
			return fmt.Sprintf("(!F64.beq %s %s)", a, b)
		case token.LSS:
			return fmt.Sprintf("(F64.blt %s %s)", a, b)
		case token.LEQ:
			return fmt.Sprintf("(F64.ble %s %s)", a, b)
		case token.GTR:
			return fmt.Sprintf("(F64.blt %s %s)", b, a)
		case token.GEQ:
			return fmt.Sprintf("(F64.ble %s %s)", b, a)
		}
		bail("unsupported float op %s (float arithmetic is not in the subset)", x.Op)
	}
	w, signed, ok := width(lt)
	if !ok {
		// untyped constant on the left: use the right operand's type
		w, signed, ok = width(t.typeOf(x.Y))
		if !ok {
			bail("unsupported operand type %s", lt)
		}
	}
	_ = w
	switch x.Op {
	case token.ADD:
		return fmt.Sprintf("(%s + %s)", a, b)
	case token.SUB:
		return fmt.Sprintf("(%s - %s)", a, b)
	case token.MUL:
		return fmt.Sprintf("(%s * %s)", a, b)
	case token.AND:
		return fmt.Sprintf("(%s &&& %s)", a, b)
	case token.OR:
		return fmt.Sprintf("(%s ||| %s)", a, b)
	case token.XOR:
		return fmt.Sprintf("(%s ^^^ %s)", a, b)
	case token.AND_NOT:
		return fmt.Sprintf("(%s &&& ~~~%s)", a, b)
	case token.QUO:
		if signed {
			return fmt.Sprintf("(BitVec.sdiv %s %s)", a, b)
		}
		return fmt.Sprintf("(%s / %s)", a, b)
	case token.REM:
		if signed {
			return fmt.Sprintf("(BitVec.srem %s %s)", a, b)
		}
		return fmt.Sprintf("(%s %% %s)", a, b)
	case token.SHL, token.SHR:
		// Go: shift count is unsigned or a non-negative constant; counts >= width give 0 (or sign fill for signed >>)
		if _, sgn, _ := width(t.typeOf(x.Y)); sgn {
			if _, isConst := t.constVal(x.Y); !isConst {
				bail("signed non-constant shift count")
			}
		}
		if x.Op == token.SHL {
			return fmt.Sprintf("(%s <<< (%s).toNat)", a, b)
		}
		if signed {
			return fmt.Sprintf("(BitVec.sshiftRight %s (%s).toNat)", a, b)
		}
		return fmt.Sprintf("(%s >>> (%s).toNat)", a, b)
	case token.EQL:
		return fmt.Sprintf("(%s == %s)", a, b)
	case token.NEQ:
		return fmt.Sprintf("(%s != %s)", a, b)
	case token.LSS:
		if signed {
			return fmt.Sprintf("(BitVec.slt %s %s)", a, b)
		}
		return fmt.Sprintf("(BitVec.ult %s %s)", a, b)
	case token.LEQ:
		if signed {
			return fmt.Sprintf("(BitVec.sle %s %s)", a, b)
		}
		return fmt.Sprintf("(BitVec.ule %s %s)", a, b)
	case token.GTR:
		if signed {
			return fmt.Sprintf("(BitVec.slt %s %s)", b, a)
		}
		return fmt.Sprintf("(BitVec.ult %s %s)", b, a)
	case token.GEQ:
		if signed {
			return fmt.Sprintf("(BitVec.sle %s %s)", b, a)
		}
		return fmt.Sprintf("(BitVec.ule %s %s)", b, a)
	}
	bail("unsupported binary op %s", x.Op)
	return ""
}

func (t *tr) call(x *ast.CallExpr) string {
	// conversion?
	if tv, ok := t.p.info.Types[x.Fun]; ok && tv.IsType() {
		if len(x.Args) != 1 {
			bail("bad conversion")
		}
		src := t.typeOf(x.Args[0])
		dst := tv.Type
		a := t.expr(x.Args[0])
		if isFloat(dst) {
			if isFloat(src) {
				return a
			}
			w, signed, ok := width(src)
			if ok && w == 64 && signed {
				return fmt.Sprintf("(F64.ofI64 %s)", a)
			}
			bail("unsupported int->float conversion from %s", src)
		}
		dw, _, dok := width(dst)
		if !dok {
			bail("unsupported conversion to %s", dst)
		}
		if isFloat(src) {
			if dw == 64 {
				if _, signed, _ := width(dst); signed {
					return fmt.Sprintf("(F64.toI64 %s)", a)
				}
			}
			bail("unsupported float->int conversion to %s", dst)
		}
		sw, ssigned, sok := width(src)
		if !sok {
			bail("unsupported conversion from %s", src)
		}
		if sw == dw {
			return a
		}
		if dw < sw {
			return fmt.Sprintf("(BitVec.truncate %d %s)", dw, a)
		}
		if ssigned {
			return fmt.Sprintf("(BitVec.signExtend %d %s)", dw, a)
		}
		return fmt.Sprintf("(BitVec.zeroExtend %d %s)", dw, a)
	}
	var name string
	var args []string
	// len(s) of a string-typed identifier: the identifier already denotes the length
	if id, ok := x.Fun.(*ast.Ident); ok && id.Name == "len" && len(x.Args) == 1 {
		if _, isBuiltin := t.p.info.Uses[id].(*types.Builtin); isBuiltin {
			if arg, ok := x.Args[0].(*ast.Ident); ok {
				if b, ok := t.typeOf(arg).Underlying().(*types.Basic); ok && b.Kind() == types.String {
					return leanIdent(arg.Name)
				}
			}
			bail("len of a non-string or non-identifier operand")
		}
	}
	switch f := x.Fun.(type) {
	case *ast.Ident:
		name = f.Name
	case *ast.SelectorExpr:
		// method call on a one-method-interface parameter: the parameter already IS the result
		if id, ok := f.X.(*ast.Ident); ok && len(x.Args) == 0 {
			if m, ok := t.ifaceParams[id.Name]; ok {
				if m != f.Sel.Name {
					bail("interface parameter %s used with method %s", id.Name, f.Sel.Name)
				}
				return leanIdent(id.Name)
			}
		}
		// method call on a value of a translated struct type
		recvT := t.typeOf(f.X)
		if ptr, ok := recvT.(*types.Pointer); ok {
			recvT = ptr.Elem()
		}
		named, ok := recvT.(*types.Named)
		if !ok {
			bail("unsupported call %s", f.Sel.Name)
		}
		name = named.Obj().Name() + "." + f.Sel.Name
		args = append(args, t.expr(f.X))
	default:
		bail("unsupported call form")
	}
	if !t.known[name] {
		bail("call to untranslated function %s", name)
	}
	var sig *types.Signature
	if tv, ok := t.p.info.Types[x.Fun]; ok {
		sig, _ = tv.Type.(*types.Signature)
	}
	for i, a := range x.Args {
		// argument passed to a one-method-interface parameter: apply the method here
		if sig != nil && i < sig.Params().Len() {
			if m, ok := singleMethodIface(sig.Params().At(i).Type()); ok {
				at := t.typeOf(a)
				if named, ok := at.(*types.Named); ok {
					if _, isIface := named.Underlying().(*types.Interface); !isIface {
						mn := named.Obj().Name() + "." + m.Name()
						if !t.known[mn] {
							bail("call to untranslated method %s", mn)
						}
						args = append(args, fmt.Sprintf("(%s %s)", leanIdent(mn), t.expr(a)))
						continue
					}
				}
				if id, ok := a.(*ast.Ident); ok && t.ifaceParams[id.Name] == m.Name() {
					args = append(args, leanIdent(id.Name))
					continue
				}
				bail("unsupported argument for interface parameter")
			}
		}
		args = append(args, t.expr(a))
	}
	if t.panics[name] {
		if !t.inExcept {
			bail("call to panicking function %s outside the Except monad", name)
		}
		return fmt.Sprintf("(← %s %s)", leanIdent(name), strings.Join(args, " "))
	}
	return fmt.Sprintf("(%s %s)", leanIdent(name), strings.Join(args, " "))
}

var leanKeywords = map[string]bool{"end": true, "at": true, "from": true, "have": true, "show": true, "fun": true, "let": true, "in": true, "do": true, "then": true, "else": true, "if": true, "match": true, "with": true, "open": true, "by": true, "where": true, "local": true, "instance": true, "def": true, "theorem": true, "structure": true, "class": true, "deriving": true, "import": true, "namespace": true, "section": true, "variable": true, "universe": true, "mut": true, "for": true, "return": true, "unless": true, "try": true, "catch": true, "finally": true, "Type": true, "Prop": true, "Sort": true, "set_option": true, "using": true, "calc": true, "nomatch": true, "private": true, "protected": true, "partial": true, "unsafe": true, "macro": true, "syntax": true, "notation": true, "infix": true, "prefix": true, "postfix": true, "export": true, "extends": true, "inductive": true, "mutual": true, "abbrev": true, "example": true, "axiom": true, "opaque": true, "attribute": true, "noncomputable": true, "omit": true, "include": true, "suffices": true, "obtain": true, "exists": true, "forall": true}

func leanIdent(s string) string {
	if leanKeywords[s] {
		return s + "'"
	}
	return s
}

// stmts translates a statement list inside an `Id.run do` block.
func (t *tr) stmts(list []ast.Stmt, ind string, sb *strings.Builder) {
	for _, s := range list {
		t.stmt(s, ind, sb)
	}
}

func (t *tr) assignTo(lhs ast.Expr, rhs string, ind string, sb *strings.Builder) {
	switch l := lhs.(type) {
	case *ast.Ident:
		if l.Name == "_" {
			fmt.Fprintf(sb, "%slet _ := %s\n", ind, rhs)
			return
		}
		fmt.Fprintf(sb, "%s%s := %s\n", ind, leanIdent(l.Name), rhs)
	case *ast.SelectorExpr:
		base, ok := l.X.(*ast.Ident)
		if !ok {
			bail("nested field assignment")
		}
		fmt.Fprintf(sb, "%s%s := { %s with %s := %s }\n", ind, leanIdent(base.Name), leanIdent(base.Name), l.Sel.Name, rhs)
	default:
		bail("unsupported assignment target %T", lhs)
	}
}

func (t *tr) stmt(s ast.Stmt, ind string, sb *strings.Builder) {
	switch x := s.(type) {
	case *ast.AssignStmt:
		if len(x.Lhs) != 1 || len(x.Rhs) != 1 {
			bail("multi-assignment")
		}
		if x.Tok == token.DEFINE {
			id, ok := x.Lhs[0].(*ast.Ident)
			if !ok {
				bail("bad :=")
			}
			fmt.Fprintf(sb, "%slet mut %s : %s := %s\n", ind, leanIdent(id.Name), t.leanType(t.typeOf(x.Rhs[0])), t.expr(x.Rhs[0]))
			return
		}
		if x.Tok == token.ASSIGN {
			t.assignTo(x.Lhs[0], t.expr(x.Rhs[0]), ind, sb)
			return
		}
		// op=
		op := map[token.Token]token.Token{
			token.ADD_ASSIGN: token.ADD, token.SUB_ASSIGN: token.SUB, token.MUL_ASSIGN: token.MUL,
			token.QUO_ASSIGN: token.QUO, token.REM_ASSIGN: token.REM, token.AND_ASSIGN: token.AND,
			token.OR_ASSIGN: token.OR, token.XOR_ASSIGN: token.XOR, token.SHL_ASSIGN: token.SHL,
			token.SHR_ASSIGN: token.SHR, token.AND_NOT_ASSIGN: token.AND_NOT,
		}[x.Tok]
		if op == token.ILLEGAL {
			bail("unsupported assignment op %s", x.Tok)
		}
		be := &ast.BinaryExpr{X: x.Lhs[0], Op: op, Y: x.Rhs[0]}
		// types for the synthetic node
		t.p.info.Types[be] = t.p.info.Types[x.Lhs[0]]
		t.assignTo(x.Lhs[0], t.binary(be), ind, sb)
	case *ast.IncDecStmt:
		w, _, ok := width(t.typeOf(x.X))
		if !ok {
			bail("++ on non-integer")
		}
		op := "+"
		if x.Tok == token.DEC {
			op = "-"
		}
		t.assignTo(x.X, fmt.Sprintf("(%s %s 1#%d)", t.expr(x.X), op, w), ind, sb)
	case *ast.ReturnStmt:
		if len(x.Results) == 0 {
			bail("bare return")
		}
		var parts []string
		for _, r := range x.Results {
			parts = append(parts, t.expr(r))
		}
		if len(parts) == 1 {
			fmt.Fprintf(sb, "%sreturn %s\n", ind, parts[0])
		} else {
			fmt.Fprintf(sb, "%sreturn (%s)\n", ind, strings.Join(parts, ", "))
		}
	case *ast.IfStmt:
		if x.Init != nil {
			t.stmt(x.Init, ind, sb)
		}
		fmt.Fprintf(sb, "%sif %s then\n", ind, t.expr(x.Cond))
		if len(x.Body.List) == 0 {
			fmt.Fprintf(sb, "%s  pure ()\n", ind)
		}
		t.stmts(x.Body.List, ind+"  ", sb)
		if x.Else != nil {
			fmt.Fprintf(sb, "%selse\n", ind)
			switch e := x.Else.(type) {
			case *ast.BlockStmt:
				if len(e.List) == 0 {
					fmt.Fprintf(sb, "%s  pure ()\n", ind)
				}
				t.stmts(e.List, ind+"  ", sb)
			case *ast.IfStmt:
				t.stmt(e, ind+"  ", sb)
			}
		}
	case *ast.BlockStmt:
		t.stmts(x.List, ind, sb)
	case *ast.ExprStmt:
		if ce, ok := x.X.(*ast.CallExpr); ok {
			if id, ok := ce.Fun.(*ast.Ident); ok && id.Name == "panic" && len(ce.Args) == 1 {
				if _, isBuiltin := t.p.info.Uses[id].(*types.Builtin); isBuiltin && t.inExcept {
					if tv, ok := t.p.info.Types[ce.Args[0]]; ok && tv.Value != nil && tv.Value.Kind() == constant.String {
						fmt.Fprintf(sb, "%sthrow %s\n", ind, leanString(constant.StringVal(tv.Value)))
						return
					}
					bail("panic with a non-constant argument")
				}
			}
		}
		bail("expression statement")
	case *ast.DeclStmt:
		gd, ok := x.Decl.(*ast.GenDecl)
		if !ok || gd.Tok != token.VAR {
			bail("unsupported declaration")
		}
		for _, sp := range gd.Specs {
			vs := sp.(*ast.ValueSpec)
			for i, n := range vs.Names {
				ty := t.p.info.Defs[n].Type()
				val := ""
				if i < len(vs.Values) {
					val = t.expr(vs.Values[i])
				} else if isBool(ty) {
					val = "false"
				} else if w, _, ok := width(ty); ok {
					val = fmt.Sprintf("0#%d", w)
				} else {
					bail("var without initialiser of type %s", ty)
				}
				fmt.Fprintf(sb, "%slet mut %s : %s := %s\n", ind, leanIdent(n.Name), t.leanType(ty), val)
			}
		}
	default:
		bail("unsupported statement %T", s)
	}
}

func (t *tr) funcDecl(fd *ast.FuncDecl, leanName string) (out string, err error) {
	defer func() {
		if r := recover(); r != nil {
			if u, ok := r.(untranslatable); ok {
				err = fmt.Errorf("%s", u.msg)
				return
			}
			panic(r)
		}
	}()
	var sb strings.Builder
	obj := t.p.info.Defs[fd.Name].(*types.Func)
	sig := obj.Type().(*types.Signature)
	var params []string
	var muts []string
	t.ifaceParams = map[string]string{}
	t.inExcept = t.mayPanic(fd)
	if recv := sig.Recv(); recv != nil {
		rt := recv.Type()
		if ptr, ok := rt.(*types.Pointer); ok {
			rt = ptr.Elem()
			bail("pointer receiver (not in the subset)")
		}
		params = append(params, fmt.Sprintf("(%s : %s)", leanIdent(recv.Name()), t.leanType(rt)))
		muts = append(muts, recv.Name())
	}
	for i := 0; i < sig.Params().Len(); i++ {
		p := sig.Params().At(i)
		params = append(params, fmt.Sprintf("(%s : %s)", leanIdent(p.Name()), t.leanType(p.Type())))
		if m, ok := singleMethodIface(p.Type()); ok {
			t.ifaceParams[p.Name()] = m.Name()
			continue
		}
		muts = append(muts, p.Name())
	}
	if sig.Results().Len() == 0 {
		bail("no result")
	}
	for i := 0; i < sig.Results().Len(); i++ {
		if sig.Results().At(i).Name() != "" {
			bail("named results")
		}
	}
	pos := t.p.fset.Position(fd.Pos())
	var src strings.Builder
	printer.Fprint(&src, t.p.fset, fd)
	sum := sha256.Sum256([]byte(src.String()))
	rel := pos.Filename
	fmt.Fprintf(&sb, "/-- translated from %s:%d  sha256=%x -/\n", rel, pos.Line, sum[:8])
	if t.inExcept {
		fmt.Fprintf(&sb, "def %s %s : Except String %s := do\n", leanIdent(leanName), strings.Join(params, " "), t.leanType(sig.Results()))
	} else {
		fmt.Fprintf(&sb, "def %s %s : %s := Id.run do\n", leanIdent(leanName), strings.Join(params, " "), t.leanType(sig.Results()))
	}
	for _, m := range muts {
		if m == "" || m == "_" {
			continue
		}
		fmt.Fprintf(&sb, "  let mut %s := %s\n", leanIdent(m), leanIdent(m))
	}
	t.stmts(fd.Body.List, "  ", &sb)
	// silence unused-mut warnings is not needed; `let mut` unused is only a linter warning
	return sb.String(), nil
}

// mayPanic: the body contains `panic(...)` or calls a translated function that may panic.
func (t *tr) mayPanic(fd *ast.FuncDecl) bool {
	found := false
	ast.Inspect(fd.Body, func(n ast.Node) bool {
		ce, ok := n.(*ast.CallExpr)
		if !ok {
			return true
		}
		switch f := ce.Fun.(type) {
		case *ast.Ident:
			if _, isBuiltin := t.p.info.Uses[f].(*types.Builtin); isBuiltin && f.Name == "panic" {
				found = true
			}
			if t.panics[f.Name] {
				found = true
			}
		case *ast.SelectorExpr:
			if tv, ok := t.p.info.Types[f.X]; ok {
				rt := tv.Type
				if ptr, ok := rt.(*types.Pointer); ok {
					rt = ptr.Elem()
				}
				if named, ok := rt.(*types.Named); ok && t.panics[named.Obj().Name()+"."+f.Sel.Name] {
					found = true
				}
			}
		}
		return true
	})
	return found
}

func leanString(s string) string {
	var sb strings.Builder
	sb.WriteByte('"')
	for _, r := range s {
		switch {
		case r == '"' || r == '\\':
			sb.WriteByte('\\')
			sb.WriteRune(r)
		case r == '\n':
			sb.WriteString("\\n")
		case r < 32 || r > 126:
			fmt.Fprintf(&sb, "\\u{%x}", r)
		default:
			sb.WriteRune(r)
		}
	}
	sb.WriteByte('"')
	return sb.String()
}

func (t *tr) structDecl(name string) (string, error) {
	obj := t.p.pkg.Scope().Lookup(name)
	if obj == nil {
		return "", fmt.Errorf("type %s not found", name)
	}
	st, ok := obj.Type().Underlying().(*types.Struct)
	if !ok {
		return "", fmt.Errorf("%s is not a struct", name)
	}
	var sb strings.Builder
	fmt.Fprintf(&sb, "structure %s where\n", name)
	var err error
	func() {
		defer func() {
			if r := recover(); r != nil {
				if u, ok := r.(untranslatable); ok {
					err = fmt.Errorf("%s", u.msg)
					return
				}
				panic(r)
			}
		}()
		for i := 0; i < st.NumFields(); i++ {
			f := st.Field(i)
			fmt.Fprintf(&sb, "  %s : %s\n", f.Name(), t.leanType(f.Type()))
		}
	}()
	fmt.Fprintf(&sb, "  deriving DecidableEq, Repr, Inhabited\n")
	return sb.String(), err
}

func (t *tr) constsOf(typeName string) string {
	var sb strings.Builder
	scope := t.p.pkg.Scope()
	names := scope.Names()
	sort.Strings(names)
	type kv struct {
		name string
		val  string
		pos  token.Pos
	}
	var out []kv
	for _, n := range names {
		c, ok := scope.Lookup(n).(*types.Const)
		if !ok {
			continue
		}
		named, ok := c.Type().(*types.Named)
		if !ok || named.Obj().Name() != typeName {
			continue
		}
		w, _, ok := width(c.Type())
		if !ok {
			continue
		}
		out = append(out, kv{n, fmt.Sprintf("%s#%d", constant.ToInt(c.Val()).ExactString(), w), c.Pos()})
	}
	sort.Slice(out, func(i, j int) bool { return out[i].pos < out[j].pos })
	for _, c := range out {
		w, _, _ := width(scope.Lookup(c.name).Type())
		fmt.Fprintf(&sb, "def %s : BitVec %d := %s\n", leanIdent(c.name), w, c.val)
	}
	return sb.String()
}

func main() {
	repo := flag.String("repo", "/repo", "repository root")
	specFile := flag.String("spec", "", "spec json")
	outDir := flag.String("out", "", "output directory for Generated/*.lean")
	flag.Parse()
	data, err := os.ReadFile(*specFile)
	if err != nil {
		fmt.Fprintln(os.Stderr, err)
		os.Exit(2)
	}
	var specs []ModSpec
	if err := json.Unmarshal(data, &specs); err != nil {
		fmt.Fprintln(os.Stderr, err)
		os.Exit(2)
	}
	failed := false
	for i := range specs {
		sp := &specs[i]
		p, err := loadPkg(*repo, sp.Pkg)
		if err != nil {
			fmt.Fprintln(os.Stderr, err)
			os.Exit(2)
		}
		t := &tr{p: p, spec: sp, known: map[string]bool{}, panics: map[string]bool{}}
		var sb strings.Builder
		fmt.Fprintf(&sb, "-- GENERATED by /verif/extract/golean from %s/%s — do not edit; rewritten on every check run.\n", *repo, sp.Pkg)
		fmt.Fprintf(&sb, "import GoluaVerif.Base.F64\nset_option linter.unusedVariables false\nnamespace GoluaVerif.Generated.%s\nopen GoluaVerif\n\n", sp.Module)
		for _, tn := range sp.Types {
			s, err := t.structDecl(tn)
			if err != nil {
				fmt.Fprintf(os.Stderr, "UNTRANSLATABLE type %s: %v\n", tn, err)
				failed = true
				continue
			}
			sb.WriteString(s + "\n")
		}
		for _, cn := range sp.Consts {
			sb.WriteString(t.constsOf(cn) + "\n")
		}
		// index function declarations
		decls := map[string]*ast.FuncDecl{}
		for _, f := range p.files {
			for _, d := range f.Decls {
				fd, ok := d.(*ast.FuncDecl)
				if !ok || fd.Body == nil {
					continue
				}
				name := fd.Name.Name
				if fd.Recv != nil && len(fd.Recv.List) == 1 {
					rt := fd.Recv.List[0].Type
					if st, ok := rt.(*ast.StarExpr); ok {
						rt = st.X
					}
					if id, ok := rt.(*ast.Ident); ok {
						name = id.Name + "." + name
					}
				}
				decls[name] = fd
			}
		}
		for _, fn := range sp.Funcs {
			fd, ok := decls[fn]
			if !ok {
				fmt.Fprintf(os.Stderr, "UNTRANSLATABLE %s.%s: function not found in %s\n", sp.Module, fn, sp.Pkg)
				failed = true
				continue
			}
			s, err := t.funcDecl(fd, fn)
			if err != nil {
				fmt.Fprintf(os.Stderr, "UNTRANSLATABLE %s.%s: %v\n", sp.Module, fn, err)
				failed = true
				continue
			}
			t.known[fn] = true
			if t.inExcept {
				t.panics[fn] = true
			}
			sb.WriteString(s + "\n")
		}
		fmt.Fprintf(&sb, "end GoluaVerif.Generated.%s\n", sp.Module)
		outPath := filepath.Join(*outDir, sp.Module+".lean")
		old, _ := os.ReadFile(outPath)
		if string(old) != sb.String() {
			if err := os.WriteFile(outPath, []byte(sb.String()), 0o644); err != nil {
				fmt.Fprintln(os.Stderr, err)
				os.Exit(2)
			}
		}
	}
	if failed {
		os.Exit(3)
	}
}
