// threadevents: fact extractor for C09.  Reads /repo/runtime/thread.go with go/ast and
// emits lean/GoluaVerif/Generated/ThreadEvents.lean: for each of Resume, Close, Yield, end,
// Start (+ the goroutine it starts), getResumeValues, sendResumeValues the ORDER of the
// events the hand-off protocol is made of, along every path through the function
// (one path per early `return`, the fall-through path last; paths ending in panic(...) are
// not protocol paths and are dropped):
//
//	X.mux.Lock() / X.mux.Unlock() (also deferred: appended at every exit, LIFO)  lock / unlock X
//	X.sendResumeValues(..) or X.resumeCh <- v                                   send X
//	X.getResumeValues() or <-X.resumeCh                                          recv X
//	close(X.resumeCh)                                                            closeCh X
//	X.status = .., X.caller = .., X.closeErr = ..                                set X
//	t.call / t.cleanupCloseStack / t.RunContinuation (run Lua code), and methods of
//	thread.go that only wrap one of them (addRunWrappers)                       run
//	go func(){..}()                                                              spawn (+ proc "<name>.go")
//	t.end(..)                                                                    callEnd
//	any other call that is not a builtin / errors.* / fmt.* / a thread-local getter /
//	a method of the thread's own closeStack                                     touch
//
// X is `self` for the method receiver and `peer` for the identifier `caller`.
// Usage: threadevents -repo /repo -out <file.lean>
package main

import (
	"crypto/sha256"
	"flag"
	"fmt"
	"go/ast"
	"go/parser"
	"go/token"
	"os"
	"path/filepath"
	"strings"
)

type walker struct {
	recv     string // receiver identifier
	cur      []string
	deferred [][]string // each entry: events of one defer, in order
	paths    [][]string
	procs    *[]proc
	name     string
	problems *[]string
}

type proc struct {
	name  string
	paths [][]string
	line  int
}

var wanted = map[string]bool{"Resume": true, "Close": true, "Yield": true, "end": true, "Start": true,
	"getResumeValues": true, "sendResumeValues": true}

var runMethods = map[string]bool{"call": true, "cleanupCloseStack": true, "RunContinuation": true}
var localGetters = map[string]bool{"CurrentCont": true, "IsMain": true, "Status": true}
var builtins = map[string]bool{"panic": true, "recover": true, "len": true, "cap": true, "append": true, "make": true,
	"new": true, "copy": true, "delete": true, "print": true, "println": true}
var purePkgs = map[string]bool{"errors": true, "fmt": true}
var stateFields = map[string]bool{"status": true, "caller": true, "closeErr": true, "currentCont": true}

func (w *walker) role(e ast.Expr) string {
	if id, ok := e.(*ast.Ident); ok {
		if id.Name == w.recv {
			return ".self"
		}
		if id.Name == "caller" {
			return ".peer"
		}
	}
	return ""
}

func (w *walker) emit(ev string) {
	if strings.HasPrefix(ev, ".set") && len(w.cur) > 0 && w.cur[len(w.cur)-1] == ev {
		return // consecutive writes to the same thread's fields are one event
	}
	w.cur = append(w.cur, ev)
}

func (w *walker) problem(pos token.Pos, msg string) {
	*w.problems = append(*w.problems, fmt.Sprintf("%s: %s", w.name, msg))
}

// expr walks an expression in evaluation order, emitting the events of the calls in it.
func (w *walker) expr(e ast.Expr) {
	switch x := e.(type) {
	case nil:
	case *ast.CallExpr:
		for _, a := range x.Args {
			w.expr(a)
		}
		w.call(x)
	case *ast.UnaryExpr:
		if x.Op == token.ARROW {
			if sel, ok := x.X.(*ast.SelectorExpr); ok && sel.Sel.Name == "resumeCh" {
				if r := w.role(sel.X); r != "" {
					w.emit(".recv " + r)
					return
				}
			}
			w.problem(x.Pos(), "receive on an unrecognised channel")
			w.emit(".touch")
			return
		}
		w.expr(x.X)
	case *ast.BinaryExpr:
		w.expr(x.X)
		w.expr(x.Y)
	case *ast.ParenExpr:
		w.expr(x.X)
	case *ast.SelectorExpr:
		w.expr(x.X)
	case *ast.CompositeLit:
		for _, el := range x.Elts {
			w.expr(el)
		}
	case *ast.KeyValueExpr:
		w.expr(x.Value)
	case *ast.TypeAssertExpr:
		w.expr(x.X)
	case *ast.StarExpr:
		w.expr(x.X)
	case *ast.IndexExpr:
		w.expr(x.X)
		w.expr(x.Index)
	case *ast.FuncLit:
		// a closure value that is not called here: no events
	}
}

func (w *walker) call(c *ast.CallExpr) {
	switch f := c.Fun.(type) {
	case *ast.Ident:
		if f.Name == "close" && len(c.Args) == 1 {
			if sel, ok := c.Args[0].(*ast.SelectorExpr); ok && sel.Sel.Name == "resumeCh" {
				if r := w.role(sel.X); r != "" {
					w.emit(".closeCh " + r)
					return
				}
			}
			w.problem(c.Pos(), "close of an unrecognised channel")
			w.emit(".touch")
			return
		}
		if builtins[f.Name] {
			return
		}
		w.emit(".touch") // package-level function of package runtime: may touch shared state
	case *ast.SelectorExpr:
		// X.mux.Lock / Unlock
		if inner, ok := f.X.(*ast.SelectorExpr); ok && inner.Sel.Name == "mux" {
			if r := w.role(inner.X); r != "" {
				switch f.Sel.Name {
				case "Lock":
					w.emit(".lock " + r)
					return
				case "Unlock":
					w.emit(".unlock " + r)
					return
				}
			}
			w.problem(c.Pos(), "mutex operation on an unrecognised thread")
			w.emit(".touch")
			return
		}
		if id, ok := f.X.(*ast.Ident); ok && purePkgs[id.Name] {
			return
		}
		// t.closeStack.size() / .truncate() / .push() / .pop(): the thread's own close stack, touched by its own
		// goroutine only — not shared runtime state
		if inner, ok := f.X.(*ast.SelectorExpr); ok && inner.Sel.Name == "closeStack" && w.role(inner.X) == ".self" {
			return
		}
		if r := w.role(f.X); r != "" {
			switch {
			case f.Sel.Name == "sendResumeValues":
				w.emit(".send " + r)
			case f.Sel.Name == "getResumeValues":
				w.emit(".recv " + r)
			case f.Sel.Name == "end":
				w.emit(".callEnd")
			case runMethods[f.Sel.Name]:
				w.emit(".run")
			case localGetters[f.Sel.Name]:
			default:
				w.emit(".touch")
			}
			return
		}
		w.expr(f.X)
		w.emit(".touch")
	case *ast.FuncLit:
		// immediately invoked closure
		w.stmts(f.Body.List)
	default:
		w.emit(".touch")
	}
}

func (w *walker) exitEvents() []string {
	out := append([]string(nil), w.cur...)
	for i := len(w.deferred) - 1; i >= 0; i-- {
		out = append(out, w.deferred[i]...)
	}
	return out
}

func (w *walker) addPath() {
	p := w.exitEvents()
	for _, q := range w.paths {
		if strings.Join(q, ",") == strings.Join(p, ",") {
			return
		}
	}
	w.paths = append(w.paths, p)
}

func isPanic(s ast.Stmt) bool {
	if es, ok := s.(*ast.ExprStmt); ok {
		if c, ok := es.X.(*ast.CallExpr); ok {
			if id, ok := c.Fun.(*ast.Ident); ok && id.Name == "panic" {
				return true
			}
		}
	}
	return false
}

// stmts walks a statement list; returns true if control cannot fall out of its end.
func (w *walker) stmts(list []ast.Stmt) bool {
	for _, s := range list {
		if w.stmt(s) {
			return true
		}
	}
	return false
}

// branch walks a branch body on a copy of the current path; if the branch terminates the
// copy is dropped (its return statements have recorded their paths), otherwise the branch
// is treated as taken (its events are kept inline).
func (w *walker) branch(list []ast.Stmt) bool {
	saved := append([]string(nil), w.cur...)
	nd := len(w.deferred)
	if w.stmts(list) {
		w.cur = saved
		w.deferred = w.deferred[:nd]
		return true
	}
	return false
}

func (w *walker) stmt(s ast.Stmt) bool {
	switch x := s.(type) {
	case *ast.ExprStmt:
		if isPanic(s) {
			return true
		}
		w.expr(x.X)
	case *ast.SendStmt:
		w.expr(x.Value)
		if sel, ok := x.Chan.(*ast.SelectorExpr); ok && sel.Sel.Name == "resumeCh" {
			if r := w.role(sel.X); r != "" {
				w.emit(".send " + r)
				return false
			}
		}
		w.problem(x.Pos(), "send on an unrecognised channel")
		w.emit(".touch")
	case *ast.AssignStmt:
		for _, r := range x.Rhs {
			w.expr(r)
		}
		for _, l := range x.Lhs {
			if sel, ok := l.(*ast.SelectorExpr); ok && stateFields[sel.Sel.Name] {
				if r := w.role(sel.X); r != "" {
					w.emit(".set " + r)
				}
			}
		}
	case *ast.DeclStmt:
		if gd, ok := x.Decl.(*ast.GenDecl); ok {
			for _, sp := range gd.Specs {
				if vs, ok := sp.(*ast.ValueSpec); ok {
					for _, v := range vs.Values {
						w.expr(v)
					}
				}
			}
		}
	case *ast.ReturnStmt:
		for _, r := range x.Results {
			w.expr(r)
		}
		w.addPath()
		return true
	case *ast.DeferStmt:
		sub := &walker{recv: w.recv, procs: w.procs, name: w.name, problems: w.problems}
		if fl, ok := x.Call.Fun.(*ast.FuncLit); ok {
			sub.stmts(fl.Body.List)
		} else {
			sub.expr(x.Call)
		}
		w.deferred = append(w.deferred, sub.cur)
	case *ast.GoStmt:
		w.emit(".spawn")
		if fl, ok := x.Call.Fun.(*ast.FuncLit); ok {
			sub := &walker{recv: w.recv, procs: w.procs, name: w.name + ".go", problems: w.problems}
			if !sub.stmts(fl.Body.List) {
				sub.addPath()
			}
			*w.procs = append(*w.procs, proc{name: sub.name, paths: sub.paths})
		} else {
			w.problem(x.Pos(), "go statement without a function literal")
		}
	case *ast.BlockStmt:
		return w.stmts(x.List)
	case *ast.IfStmt:
		if x.Init != nil {
			w.stmt(x.Init)
		}
		w.expr(x.Cond)
		t1 := w.branch(x.Body.List)
		if x.Else != nil {
			var t2 bool
			switch e := x.Else.(type) {
			case *ast.BlockStmt:
				t2 = w.branch(e.List)
			default:
				t2 = w.branch([]ast.Stmt{e})
			}
			return t1 && t2
		}
	case *ast.SwitchStmt:
		if x.Init != nil {
			w.stmt(x.Init)
		}
		w.expr(x.Tag)
		return w.clauses(x.Body.List)
	case *ast.TypeSwitchStmt:
		return w.clauses(x.Body.List)
	case *ast.ForStmt, *ast.RangeStmt, *ast.SelectStmt:
		w.problem(s.Pos(), "loop/select in a protocol function is outside the extractor's subset")
		w.emit(".touch")
	}
	return false
}

func (w *walker) clauses(list []ast.Stmt) bool {
	all := true
	hasDefault := false
	for _, c := range list {
		cc, ok := c.(*ast.CaseClause)
		if !ok {
			continue
		}
		if cc.List == nil {
			hasDefault = true
		}
		if !w.branch(cc.Body) {
			all = false
		}
	}
	return all && hasDefault
}

func leanList(xs []string) string { return "[" + strings.Join(xs, ", ") + "]" }

// addRunWrappers extends runMethods with the methods of *Thread in thread.go that only wrap a
// run method: their body calls one (possibly under defer/recover) and takes no part in the
// hand-off itself (no mutex, no resume channel).  Calling such a wrapper runs Lua code: `run`.
func addRunWrappers(file *ast.File) {
	for changed := true; changed; {
		changed = false
		for _, d := range file.Decls {
			fd, ok := d.(*ast.FuncDecl)
			if !ok || fd.Recv == nil || fd.Body == nil || wanted[fd.Name.Name] || runMethods[fd.Name.Name] {
				continue
			}
			runs, protocol := false, false
			ast.Inspect(fd.Body, func(n ast.Node) bool {
				if sel, ok := n.(*ast.SelectorExpr); ok {
					switch sel.Sel.Name {
					case "mux", "resumeCh", "sendResumeValues", "getResumeValues":
						protocol = true
					}
				}
				if call, ok := n.(*ast.CallExpr); ok {
					if sel, ok := call.Fun.(*ast.SelectorExpr); ok && runMethods[sel.Sel.Name] {
						runs = true
					}
				}
				return true
			})
			if runs && !protocol {
				runMethods[fd.Name.Name] = true
				changed = true
			}
		}
	}
}

func main() {
	repo := flag.String("repo", "/repo", "golua checkout")
	out := flag.String("out", "", "output .lean file")
	flag.Parse()
	src := filepath.Join(*repo, "runtime", "thread.go")
	data, err := os.ReadFile(src)
	if err != nil {
		fmt.Fprintln(os.Stderr, err)
		os.Exit(2)
	}
	fset := token.NewFileSet()
	file, err := parser.ParseFile(fset, src, data, 0)
	if err != nil {
		fmt.Fprintln(os.Stderr, err)
		os.Exit(2)
	}
	var procs []proc
	var problems []string
	var srcs []string
	addRunWrappers(file)
	for _, d := range file.Decls {
		fd, ok := d.(*ast.FuncDecl)
		if !ok || fd.Recv == nil || !wanted[fd.Name.Name] || fd.Body == nil {
			continue
		}
		// receiver must be *Thread
		st, ok := fd.Recv.List[0].Type.(*ast.StarExpr)
		if !ok {
			continue
		}
		if id, ok := st.X.(*ast.Ident); !ok || id.Name != "Thread" {
			continue
		}
		recv := "_"
		if len(fd.Recv.List[0].Names) > 0 {
			recv = fd.Recv.List[0].Names[0].Name
		}
		w := &walker{recv: recv, procs: &procs, name: fd.Name.Name, problems: &problems}
		if !w.stmts(fd.Body.List) {
			w.addPath()
		}
		procs = append(procs, proc{name: fd.Name.Name, paths: w.paths, line: fset.Position(fd.Pos()).Line})
		srcs = append(srcs, string(data[fset.Position(fd.Pos()).Offset:fset.Position(fd.End()).Offset]))
	}
	order := []string{"Resume", "Close", "Yield", "end", "Start", "Start.go", "getResumeValues", "sendResumeValues"}
	var b strings.Builder
	sum := sha256.Sum256([]byte(strings.Join(srcs, "\n")))
	fmt.Fprintf(&b, "/- REGENERATED on every check run by extract/threadevents from runtime/thread.go — do not edit.\n")
	fmt.Fprintf(&b, "   source hash (the extracted functions): %x -/\n", sum[:8])
	b.WriteString("import GoluaVerif.Model.CoProto\nnamespace GoluaVerif.Generated.ThreadEvents\nopen GoluaVerif.Model.CoProto\n\n")
	var names []string
	for _, n := range order {
		for _, p := range procs {
			if p.name != n {
				continue
			}
			ln := "p_" + strings.ReplaceAll(n, ".", "_")
			names = append(names, ln)
			if p.line > 0 {
				fmt.Fprintf(&b, "/-- runtime/thread.go:%d -/\n", p.line)
			}
			var ps []string
			for _, path := range p.paths {
				ps = append(ps, leanList(path))
			}
			fmt.Fprintf(&b, "def %s : Proc := ⟨%q, [\n  %s]⟩\n\n", ln, n, strings.Join(ps, ",\n  "))
		}
	}
	fmt.Fprintf(&b, "def table : List Proc := %s\n\n", leanList(names))
	fmt.Fprintf(&b, "/-- constructs the extractor could not classify (each was over-approximated as `touch`) -/\n")
	var qs []string
	for _, p := range problems {
		qs = append(qs, fmt.Sprintf("%q", p))
	}
	fmt.Fprintf(&b, "def problems : List String := %s\n\nend GoluaVerif.Generated.ThreadEvents\n", leanList(qs))
	if *out == "" {
		fmt.Print(b.String())
	} else {
		tmp := *out + ".tmp"
		if err := os.WriteFile(tmp, []byte(b.String()), 0o644); err != nil {
			fmt.Fprintln(os.Stderr, err)
			os.Exit(2)
		}
		if old, err := os.ReadFile(*out); err == nil && string(old) == b.String() {
			os.Remove(tmp) // unchanged: keep the mtime so lake does not rebuild
		} else if err := os.Rename(tmp, *out); err != nil {
			fmt.Fprintln(os.Stderr, err)
			os.Exit(2)
		}
	}
	for _, p := range problems {
		fmt.Println("UNCLASSIFIED", p)
	}
	for _, n := range order {
		found := false
		for _, p := range procs {
			if p.name == n {
				found = true
			}
		}
		if !found {
			fmt.Println("MISSING", n)
		}
	}
}
