/-
  Spec.For — what the Lua 5.4 manual §3.3.5 prescribes for the numeric `for`.

  * the three control values are evaluated once; a value that is not a number
    (after the usual string → number coercion) is an error, a zero step is an error;
  * if the initial value and the step are both integers the loop is an INTEGER loop:
    the limit may be any number; it is clipped to the integer range (`forlimit`:
    a float limit is floored for a positive step / ceiled for a negative step, a
    limit beyond the integer range clips to max/mininteger or makes the loop empty,
    a NaN limit makes the loop empty because `v <= NaN` is false); the iteration
    count is fixed before the first iteration (`count`), so the control variable
    never wraps around;
  * otherwise it is a FLOAT loop: the values are obtained by repeated float
    addition and the loop continues while `v <= limit` (`limit <= v` for a
    non-positive step).

  Integers are `BitVec 64`, floats the exact `F64` model, every definition is a
  total computable function (the oracle executes them).
-/
import GoluaVerif.Spec.Num
import GoluaVerif.Base.F64Add
namespace GoluaVerif.Spec.For
open GoluaVerif GoluaVerif.Spec

/-- a control value as the loop receives it: a number, a string (with the number its
    text denotes, if any — string → number conversion is C02's subject and a
    parameter here), or anything else -/
inductive Val where
  | num (n : Num)
  | str (conv : Option Num)
  | other
  deriving DecidableEq, Repr, Inhabited

def Val.toNum? : Val → Option Num
  | .num n => some n
  | .str c => c
  | .other => none

inductive Outcome where
  | error
  | values (vs : List Num)
  deriving DecidableEq, Repr, Inhabited

/-- every float inside the number is a genuine double (true of everything `F64.decode` produces) -/
def numWF : Num → Bool
  | .int _ => true
  | .flt f => f.WF

def minI : Int := -(2 ^ 63)
def maxI : Int := 2 ^ 63 - 1

/-- ⌊l⌋ as a mathematical integer (±2^1026 for ±∞; meaningless for NaN) -/
def floorZ (l : Num) : Int := l.key / (F64.scale : Int)
/-- ⌈l⌉ -/
def ceilZ (l : Num) : Int := -((-l.key) / (F64.scale : Int))

/-- The clipped integer limit of an integer loop (lvm.c `forlimit`), `none` = the loop does not run
    whatever the initial value is. -/
def forlimit (l : Num) (stepPos : Bool) : Option Int :=
  if l.isNaN then none
  else if stepPos then
    let z := floorZ l
    if z < minI then none else some (if maxI < z then maxI else z)
  else
    let z := ceilZ l
    if maxI < z then none else some (if z < minI then minI else z)

/-- the precomputed number of iterations of the integer loop `for v = s, l, d` (d ≠ 0) -/
def count (s : I64) (l : Num) (d : I64) : Nat :=
  let S := s.toInt
  let D := d.toInt
  match forlimit l (decide (0 < D)) with
  | none => 0
  | some lim =>
    if 0 < D then (if lim < S then 0 else ((lim - S) / D).toNat + 1)
    else (if S < lim then 0 else ((S - lim) / (-D)).toNat + 1)

/-- the value of the control variable in iteration `i` (0-based) -/
def value (s d : I64) (i : Nat) : I64 := BitVec.ofInt 64 (s.toInt + (i : Int) * d.toInt)

/-- the first `cap` values of the integer loop -/
def intValues (cap : Nat) (s : I64) (l : Num) (d : I64) : List Num :=
  (List.range (min cap (count s l d))).map fun i => Num.int (value s d i)

def toFlt : Num → F64
  | .int n => F64.ofI64 n
  | .flt f => f

/-- "the loop continues while the value is less than or equal to the limit
    (greater than or equal to for a negative step)" — exact comparison with the limit -/
def fcont (stepPos : Bool) (v : F64) (lim : Num) : Bool :=
  if stepPos then Num.le (.flt v) lim else Num.le lim (.flt v)

/-- the first `cap` values of the float loop: repeated float addition -/
def floatValues : Nat → F64 → Num → F64 → List Num
  | 0, _, _, _ => []
  | cap + 1, v, lim, d =>
    if fcont d.isPos v lim then Num.flt v :: floatValues cap (F64.fadd v d) lim d else []

/-- Second reading of the manual's two sentences, which differ only when a NaN is involved
    ("if the initial value is already greater than the limit the body is not executed", then
    "continues while v <= limit"): this is what lvm.c does.  Tolerated by the check for float
    loops with NaN operands; not used by any theorem. -/
def floatValuesRef : Nat → F64 → Num → F64 → List Num
  | 0, _, _, _ => []
  | cap + 1, v, lim, d =>
    let skip := if d.isPos then Num.lt lim (.flt v) else Num.lt (.flt v) lim
    if skip then [] else Num.flt v :: floatValues cap (F64.fadd v d) lim d

/-- `for v = a, l, d do … end`: the first `cap` values the body sees, or an error.
    `convLimit`: the manual says all three values are converted to floats in a float loop;
    the property statement compares with the limit itself.  The two readings differ only for
    integer limits that are not exactly representable (|l| > 2^53); the theorems are stated for
    `convLimit = false` and `float_limit_readings_agree` says when they coincide. -/
def run (convLimit : Bool) (cap : Nat) (a l d : Val) : Outcome :=
  match a.toNum?, l.toNum?, d.toNum? with
  | some a, some l, some d =>
    match a, d with
    | .int s, .int st =>
      if st = 0#64 then .error else .values (intValues cap s l st)
    | _, _ =>
      let fs := toFlt a
      let fd := toFlt d
      if fd.isZero then .error
      else .values (floatValues cap fs (if convLimit then .flt (toFlt l) else l) fd)
  | _, _, _ => .error

end GoluaVerif.Spec.For
