/-
  Spec.Quota — what property C05–C07 say about budgets, independent of how the Go code computes them.

  Limits live in uint64 with `0` meaning "unlimited" (runtimecontext.go: "For available resources,
  0 means unlimited").  `limLe a b` is the order "a is at most as permissive as b" on such limits.
-/
import GoluaVerif.Generated.Resources
namespace GoluaVerif.Spec.Quota
open GoluaVerif.Generated.Resources

/-- `a ⊑ b`: limit `a` allows no more than limit `b` (0 = ∞). -/
def limLe (a b : BitVec 64) : Prop := b = 0#64 ∨ (a ≠ 0#64 ∧ a.toNat ≤ b.toNat)

instance (a b : BitVec 64) : Decidable (limLe a b) := by unfold limLe; exact inferInstance

/-- componentwise `⊑` -/
def resLe (a b : RuntimeResources) : Prop :=
  limLe a.Cpu b.Cpu ∧ limLe a.Memory b.Memory ∧ limLe a.Millis b.Millis

instance (a b : RuntimeResources) : Decidable (resLe a b) := by unfold resLe; exact inferInstance

/-- the counter `v` has not reached the limit `l` -/
def below (v l : BitVec 64) : Prop := l = 0#64 ∨ v.toNat < l.toNat

instance (v l : BitVec 64) : Decidable (below v l) := by unfold below; exact inferInstance

def resBelow (v l : RuntimeResources) : Prop :=
  below v.Cpu l.Cpu ∧ below v.Memory l.Memory ∧ below v.Millis l.Millis

instance (a b : RuntimeResources) : Decidable (resBelow a b) := by unfold resBelow; exact inferInstance

/-- what is left of budget `hard` after `used` (as a limit; only meaningful when `below used hard`) -/
def remaining (hard used : BitVec 64) : BitVec 64 :=
  if hard = 0#64 then 0#64 else BitVec.ofNat 64 (hard.toNat - used.toNat)

/-- flag set `c` contains flag set `p` -/
def flagsSuperset (c p : BitVec 16) : Prop := p &&& c = p

instance (c p : BitVec 16) : Decidable (flagsSuperset c p) := by unfold flagsSuperset; exact inferInstance

theorem limLe_refl (a : BitVec 64) : limLe a a := by
  unfold limLe
  by_cases h : a = 0#64
  · exact Or.inl h
  · exact Or.inr ⟨h, Nat.le_refl _⟩

theorem limLe_trans {a b c : BitVec 64} (h1 : limLe a b) (h2 : limLe b c) : limLe a c := by
  unfold limLe at *
  rcases h2 with h2 | ⟨hb, hbc⟩
  · exact Or.inl h2
  · rcases h1 with h1 | ⟨ha, hab⟩
    · exact absurd h1 hb
    · exact Or.inr ⟨ha, Nat.le_trans hab hbc⟩

/-- a limit below a finite limit is finite -/
theorem limLe_ne_zero {a b : BitVec 64} (h : limLe a b) (hb : b ≠ 0#64) : a ≠ 0#64 := by
  rcases h with h | ⟨ha, _⟩
  · exact absurd h hb
  · exact ha

theorem limLe_le {a b : BitVec 64} (h : limLe a b) (hb : b ≠ 0#64) : a.toNat ≤ b.toNat := by
  rcases h with h | ⟨_, h⟩
  · exact absurd h hb
  · exact h

/-- the accounting covers a value of `size` bytes built between two readings of the counter while
the value is still live: charge ≥ size of what is returned -/
def ChargeCovers (before after size : Nat) : Prop := before + size ≤ after

instance (b a s : Nat) : Decidable (ChargeCovers b a s) := by unfold ChargeCovers; exact inferInstance

end GoluaVerif.Spec.Quota
