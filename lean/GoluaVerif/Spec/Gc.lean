/-
  Spec.Gc — what property C18 (and the Lua 5.4 manual §2.5.3) says about a trace of
  markings, finalisations and releases.  A trace is a list of `TEv`; a *marking epoch* is
  identified by its `order` (every `mark` event carries a fresh one).  The predicates are
  Bool-valued so that the oracle can run them on traces observed on the implementation,
  and the theorems of Props.C18 conclude exactly these predicates for the model's traces.
-/
namespace GoluaVerif.Spec.Gc

/-- one Go object: `key` = `Value.Key()`, shared by a value and its clones -/
structure Obj where
  key : Nat
  id : Nat
  clone : Bool
  /-- for clones: the pool whose `Mark` made it (clone ids are per pool) -/
  pool : Nat := 0
deriving DecidableEq, Repr, Inhabited

/-- which extraction handed a value out: pending-finalize, pending-release, all-finalize, all-release -/
inductive Kind where
  | pf | pr | af | ar
deriving DecidableEq, Repr

inductive TEv where
  /-- marking: key, epoch (markOrder), wants Finalize, wants Release -/
  | mark (key order : Nat) (f r : Bool)
  | unmark (key : Nat)
  /-- Go's collector ran the Go finaliser of `o` -/
  | fired (o : Obj)
  /-- the value of epoch `order` is handed to its `__gc` -/
  | fin (k : Kind) (val : Obj) (order : Nat)
  /-- the value of epoch `order` has its resources released -/
  | rel (k : Kind) (val : Obj) (order : Nat)
  /-- extracted for finalisation and discarded (context popped) -/
  | skip (val : Obj) (order : Nat)
deriving DecidableEq, Repr

def finOrders : List TEv → List Nat
  | [] => []
  | .fin _ _ n :: t => n :: finOrders t
  | _ :: t => finOrders t

def relOrders : List TEv → List Nat
  | [] => []
  | .rel _ _ n :: t => n :: relOrders t
  | _ :: t => relOrders t

def nodupB : List Nat → Bool
  | [] => true
  | x :: t => !t.contains x && nodupB t

/-- strictly descending -/
def descB : List Nat → Bool
  | [] => true
  | [_] => true
  | x :: y :: t => decide (y < x) && descB (y :: t)

/-- every marking epoch is finalised at most once -/
def finOnce (tr : List TEv) : Bool := nodupB (finOrders tr)

/-- every marking epoch is released at most once -/
def relOnce (tr : List TEv) : Bool := nodupB (relOrders tr)

/-- a finaliser never runs after the release of the same epoch (release comes after finalise) -/
def noFinAfterRel : List TEv → Bool
  | [] => true
  | .rel _ _ n :: t => !(finOrders t).contains n && noFinAfterRel t
  | _ :: t => noFinAfterRel t

/-- epochs finalised by close-time extraction (`af`), in the order they were handed out -/
def closeFinOrders : List TEv → List Nat
  | [] => []
  | .fin .af _ n :: t => n :: closeFinOrders t
  | _ :: t => closeFinOrders t

/-- epochs extracted for finalisation and deliberately not run (their context was popped) -/
def skipOrders : List TEv → List Nat
  | [] => []
  | .skip _ n :: t => n :: skipOrders t
  | _ :: t => skipOrders t

/-- all marking epochs, in trace order -/
def markOrders : List TEv → List Nat
  | [] => []
  | .mark _ n _ _ :: t => n :: markOrders t
  | _ :: t => markOrders t

/-- the epoch `n` was marked with the Finalize flag -/
def wantsFin (tr : List TEv) (n : Nat) : Bool :=
  tr.any (fun e => match e with | .mark _ m f _ => m == n && f | _ => false)

def wantsRel (tr : List TEv) (n : Nat) : Bool :=
  tr.any (fun e => match e with | .mark _ m _ r => m == n && r | _ => false)

/-- the last marking epoch of `key` in the trace (none if unmarked since, or never marked) -/
def currentEpoch (key : Nat) : List TEv → Option Nat
  | [] => none
  | e :: t =>
    match currentEpoch key t with
    | some n => some n
    | none =>
      if t.any (fun x => match x with | .unmark k => k == key | .mark k _ _ _ => k == key | _ => false) then none
      else match e with
        | .mark k n _ _ => if k == key then some n else none
        | _ => none

end GoluaVerif.Spec.Gc
