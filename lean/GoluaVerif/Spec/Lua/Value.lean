/-
  Spec.Lua.Value — values, the store (cells, tables, closures, event trace),
  the evaluation monad and raw (metamethod-free) table access.
  Core Lean only.
-/
import GoluaVerif.Spec.Lua.Syntax
namespace GoluaVerif.Spec.Lua
open GoluaVerif GoluaVerif.Spec

/-- host / library functions known to the reference semantics -/
inductive Builtin where
  | emit | args
  | error | pcall | xpcall | assert
  | select | type | rawget | rawset | rawequal | rawlen
  | setmetatable | getmetatable
  | next | pairs | ipairs | ipairsIter
  | tostring | tonumber
  | strLen | strSub | strRep | strByte | strChar | strUpper | strLower | strReverse
  | mathType | mathTointeger | mathFloor | mathAbs | mathMax | mathMin
  | tblUnpack | tblPack | tblInsert | tblRemove | tblConcat
  deriving DecidableEq, Repr, Inhabited

inductive Val where
  | nil
  | bool (b : Bool)
  | int (n : I64)
  | flt (f : F64)
  | str (s : Bytes)
  | table (addr : Nat)
  | func (addr : Nat)
  | builtin (b : Builtin)
  deriving DecidableEq, Inhabited

namespace Val
def truthy : Val → Bool
  | nil => false
  | bool b => b
  | _ => true

def typeName : Val → String
  | nil => "nil"
  | bool _ => "boolean"
  | int _ => "number"
  | flt _ => "number"
  | str _ => "string"
  | table _ => "table"
  | func _ => "function"
  | builtin _ => "function"

def ofString (s : String) : Val := .str s.toUTF8

def toNum? : Val → Option Num
  | int n => some (.int n)
  | flt f => some (.flt f)
  | _ => none

def ofNum : Num → Val
  | .int n => .int n
  | .flt f => .flt f

/-- table-key normalisation (§3.4.3 / §2.1): a float with an exact integer value is that integer -/
def normKey (v : Val) : Val :=
  match v with
  | flt f => ofNum (Num.normKey (.flt f))
  | v => v
end Val

/-- a table: association list in insertion order, keys normalised; a `nil` value marks an
    absent entry (kept so that `next` on a key cleared during traversal still works) -/
structure Table where
  entries : List (Val × Val)
  mt : Option Nat
  deriving Inhabited

namespace Table
def empty : Table := ⟨[], none⟩

def getL : List (Val × Val) → Val → Val
  | [], _ => .nil
  | (k, v) :: rest, key => if k = key then v else getL rest key

def setL : List (Val × Val) → Val → Val → List (Val × Val)
  | [], key, v => if v = .nil then [] else [(key, v)]
  | (k, v0) :: rest, key, v => if k = key then (k, v) :: rest else (k, v0) :: setL rest key v

/-- raw get; the key must be normalised -/
def get (t : Table) (k : Val) : Val := getL t.entries k
/-- raw set; the key must be normalised, not nil and not NaN -/
def set (t : Table) (k v : Val) : Table := { t with entries := setL t.entries k v }

/-- the border found by probing 1, 2, 3, …: the least n ≥ 0 with t[n+1] = nil
    (for a sequence without holes this is the only border) -/
def borderFrom (t : Table) : Nat → Nat → Nat
  | 0, n => n
  | fuel + 1, n => if t.get (.int (BitVec.ofNat 64 (n + 1))) = .nil then n else borderFrom t fuel (n + 1)

def border (t : Table) : Nat := borderFrom t t.entries.length 0

/-- first live entry of a list -/
def firstLive : List (Val × Val) → Option (Val × Val)
  | [] => none
  | (k, v) :: rest => if v = .nil then firstLive rest else some (k, v)

/-- entries after key `k` (none when `k` is not a key of the table) -/
def after : List (Val × Val) → Val → Option (List (Val × Val))
  | [], _ => none
  | (k, _) :: rest, key => if k = key then some rest else after rest key

/-- `next` in insertion order: `some none` = end of traversal, `none` = invalid key -/
def next (t : Table) (k : Val) : Option (Option (Val × Val)) :=
  if k = .nil then some (firstLive t.entries)
  else (after t.entries k).map firstLive
end Table

structure Closure where
  body : FuncBody
  env : List (String × Nat)
  deriving Inhabited

/-- the store: everything mutable -/
structure Store where
  cells : Array Val
  tables : Array Table
  closures : Array Closure
  /-- events handed to the host callback `emit`, oldest first -/
  trace : Array (List Val)
  /-- the tuple returned by the host callback `args()` -/
  input : List Val
  deriving Inhabited

inductive Err where
  /-- a Lua error value on its way to the nearest protected call; `handled` = a message handler
      (xpcall) has already processed it -/
  | lua (v : Val) (handled : Bool)
  /-- the program left the fragment whose behaviour the manual determines / the model covers
      (tostring of a float, …): the run is discarded, not compared -/
  | unsupported (what : String)
  deriving Inhabited

/-- evaluation monad: `none` = out of fuel (bottom), otherwise a result or an error together with
    the store at that point -/
abbrev M := ExceptT Err (StateT Store Option)

/-- out of fuel -/
def oof {α} : M α := ExceptT.mk (fun _ => none)

def unsupported {α} (what : String) : M α := throw (.unsupported what)

/-- run `x`, reify a Lua error (not `unsupported`, not out-of-fuel) as a value -/
def tryLua {α} (x : M α) : M (Except (Val × Bool) α) :=
  ExceptT.mk (do
    let r ← x.run
    match r with
    | .ok a => pure (.ok (.ok a))
    | .error (.lua v h) => pure (.ok (.error (v, h)))
    | .error e => pure (.error e))

/-! ### store primitives -/

def allocCell (v : Val) : M Nat := do
  let s ← get
  set { s with cells := s.cells.push v }
  pure s.cells.size

def readCell (i : Nat) : M Val := do
  let s ← get
  pure (s.cells.getD i .nil)

def writeCell (i : Nat) (v : Val) : M Unit :=
  modify fun s => { s with cells := s.cells.setIfInBounds i v }

def allocTable (t : Table) : M Nat := do
  let s ← get
  set { s with tables := s.tables.push t }
  pure s.tables.size

def getTable (a : Nat) : M Table := do
  let s ← get
  pure (s.tables.getD a Table.empty)

def putTable (a : Nat) (t : Table) : M Unit :=
  modify fun s => { s with tables := s.tables.setIfInBounds a t }

def allocClosure (c : Closure) : M Nat := do
  let s ← get
  set { s with closures := s.closures.push c }
  pure s.closures.size

def getClosure (a : Nat) : M Closure := do
  let s ← get
  pure (s.closures.getD a default)

def emitEvent (vs : List Val) : M Unit :=
  modify fun s => { s with trace := s.trace.push vs }

def getInput : M (List Val) := do
  let s ← get
  pure s.input

/-- dynamic context of an operation: the current lines of the active Lua functions, innermost first
    (0 = a host function's frame, which has no line), and the message handler installed by the
    nearest enclosing `xpcall` (none under `pcall`) -/
structure Dyn where
  stack : List Nat
  handler : Option Val
  deriving Inhabited

/-- lexical + dynamic context of a piece of code being executed -/
structure Ctx where
  env : List (String × Nat)
  varargs : List Val
  line : Nat
  dyn : Dyn
  /-- inside the scope of a to-be-closed variable of the current function (there `return f()` is not a tail call) -/
  inTbc : Bool := false
  deriving Inhabited

/-- the dynamic context of an operation performed by the code at `ctx.line` -/
def Ctx.here (c : Ctx) : Dyn := ⟨c.line :: c.dyn.stack, c.dyn.handler⟩

def lookupVar : List (String × Nat) → String → Option Nat
  | [], _ => none
  | (n, c) :: rest, name => if n = name then some c else lookupVar rest name

/-- the name every chunk is loaded under -/
def chunkName : String := "chunk"

def natToDec (n : Nat) : String := toString n

/-- `chunk:line: ` or nothing when there is no line -/
def posPrefix (line : Nat) : String :=
  if line = 0 then "" else chunkName ++ ":" ++ natToDec line ++ ": "

/-- level ≥ 1: the line of the level-th active function -/
def Dyn.lineAt (d : Dyn) (level : Nat) : Nat :=
  if level = 0 then 0 else d.stack.getD (level - 1) 0

/-- control-flow outcome of a statement -/
inductive Sig where
  | normal
  | brk
  | ret (vs : List Val)
  | goto_ (l : String)
  /-- internal: the value of the condition of `repeat … until`, evaluated in the body's scope -/
  | until_ (b : Bool)
  deriving Inhabited

/-- address of the global table and of the `string` library table in the initial store -/
def globalsAddr : Nat := 0
def stringLibAddr : Nat := 1

end GoluaVerif.Spec.Lua
