/-
  Spec.Lua.Value — values, the store (cells, tables, closures, event trace),
  the evaluation monad and raw (metamethod-free) table access.
  Core Lean only.
-/
import GoluaVerif.Spec.Lua.Syntax
namespace GoluaVerif.Spec.Lua
open GoluaVerif GoluaVerif.Spec

/-- host / library functions known to the reference semantics -/
inductive Builtin where
  | emit | args
  | error | pcall | xpcall | assert
  | select | type | rawget | rawset | rawequal | rawlen
  | setmetatable | getmetatable
  | next | pairs | ipairs | ipairsIter
  | tostring | tonumber
  | strLen | strSub | strRep | strByte | strChar | strUpper | strLower | strReverse
  | mathType | mathTointeger | mathFloor | mathAbs | mathMax | mathMin
  | tblUnpack | tblPack | tblInsert | tblRemove | tblConcat
  | coCreate | coResume | coYield | coWrap | coStatus | coClose | coIsyieldable | coRunning
  deriving DecidableEq, Repr, Inhabited

inductive Val where
  | nil
  | bool (b : Bool)
  | int (n : I64)
  | flt (f : F64)
  | str (s : Bytes)
  | table (addr : Nat)
  | func (addr : Nat)
  | builtin (b : Builtin)
  /-- a coroutine (index into the store's coroutine table; 0 is the main thread) -/
  | thread (co : Nat)
  /-- the function returned by `coroutine.wrap` for that coroutine -/
  | wrapfn (co : Nat)
  deriving DecidableEq, Inhabited

namespace Val
def truthy : Val → Bool
  | nil => false
  | bool b => b
  | _ => true

def typeName : Val → String
  | nil => "nil"
  | bool _ => "boolean"
  | int _ => "number"
  | flt _ => "number"
  | str _ => "string"
  | table _ => "table"
  | func _ => "function"
  | builtin _ => "function"
  | thread _ => "thread"
  | wrapfn _ => "function"

def ofString (s : String) : Val := .str s.toUTF8

def toNum? : Val → Option Num
  | int n => some (.int n)
  | flt f => some (.flt f)
  | _ => none

def ofNum : Num → Val
  | .int n => .int n
  | .flt f => .flt f

/-- table-key normalisation (§3.4.3 / §2.1): a float with an exact integer value is that integer -/
def normKey (v : Val) : Val :=
  match v with
  | flt f => ofNum (Num.normKey (.flt f))
  | v => v
end Val

/-- a table: association list in insertion order, keys normalised; a `nil` value marks an
    absent entry (kept so that `next` on a key cleared during traversal still works) -/
structure Table where
  entries : List (Val × Val)
  mt : Option Nat
  deriving Inhabited

namespace Table
def empty : Table := ⟨[], none⟩

def getL : List (Val × Val) → Val → Val
  | [], _ => .nil
  | (k, v) :: rest, key => if k = key then v else getL rest key

def setL : List (Val × Val) → Val → Val → List (Val × Val)
  | [], key, v => if v = .nil then [] else [(key, v)]
  | (k, v0) :: rest, key, v => if k = key then (k, v) :: rest else (k, v0) :: setL rest key v

/-- raw get; the key must be normalised -/
def get (t : Table) (k : Val) : Val := getL t.entries k
/-- raw set; the key must be normalised, not nil and not NaN -/
def set (t : Table) (k v : Val) : Table := { t with entries := setL t.entries k v }

/-- the border found by probing 1, 2, 3, …: the least n ≥ 0 with t[n+1] = nil
    (for a sequence without holes this is the only border) -/
def borderFrom (t : Table) : Nat → Nat → Nat
  | 0, n => n
  | fuel + 1, n => if t.get (.int (BitVec.ofNat 64 (n + 1))) = .nil then n else borderFrom t fuel (n + 1)

def border (t : Table) : Nat := borderFrom t t.entries.length 0

/-- first live entry of a list -/
def firstLive : List (Val × Val) → Option (Val × Val)
  | [] => none
  | (k, v) :: rest => if v = .nil then firstLive rest else some (k, v)

/-- entries after key `k` (none when `k` is not a key of the table) -/
def after : List (Val × Val) → Val → Option (List (Val × Val))
  | [], _ => none
  | (k, _) :: rest, key => if k = key then some rest else after rest key

/-- `next` in insertion order: `some none` = end of traversal, `none` = invalid key -/
def next (t : Table) (k : Val) : Option (Option (Val × Val)) :=
  if k = .nil then some (firstLive t.entries)
  else (after t.entries k).map firstLive
end Table

structure Closure where
  body : FuncBody
  env : List (String × Nat)
  deriving Inhabited

/-! ### coroutines: re-execution with a log

A suspended coroutine is not a captured continuation (the store cannot contain functions of the store) but a
*script*: its body function, the arguments of its first resume, and the log of everything the body has observed so
far — the result of every read of mutable state, every allocated address, the outcome of every nested resume and the
values every `yield` returned.  Resuming it re-executes the body from the start in *replay mode*: reads are answered
from the log, writes and events are skipped (they already happened), `yield` returns the logged values; when the log
is exhausted execution is live again and continues to the next `yield`, `return` or error.  Evaluation is
deterministic (Props.C01), so the replayed prefix follows exactly the path of the original execution. -/

inductive CoStatus where
  | suspended | running | normal | dead
  deriving DecidableEq, Repr, Inhabited

inductive LogEntry where
  | val (v : Val)                 -- a cell was read
  | tbl (t : Table)               -- a table was read
  | addr (a : Nat)                -- something was allocated at address a
  | status (st : CoStatus)        -- the status of a coroutine was read
  | resumed (ok : Bool) (vs : List Val)   -- a nested resume / wrap call / close returned
  | yieldRet (vs : List Val)      -- a yield returned these values (the arguments of the next resume)
  | closeSignal                   -- the coroutine is being closed at this yield (coroutine.close)
  deriving Inhabited

structure CoState where
  fn : Val
  /-- arguments of the first resume (the body is always re-executed with them) -/
  args : List Val
  started : Bool
  dead : Bool
  /-- the error value it died with, if any -/
  err : Option Val
  log : List LogEntry
  deriving Inhabited

/-- the store: everything mutable -/
structure Store where
  cells : Array Val
  tables : Array Table
  closures : Array Closure
  /-- events handed to the host callback `emit`, oldest first -/
  trace : Array (List Val)
  /-- the tuple returned by the host callback `args()` -/
  input : List Val
  /-- coroutines; index 0 stands for the main thread -/
  cos : Array CoState := #[default]
  /-- the coroutines being executed, innermost first (empty = the main thread is running) -/
  costack : List Nat := []
  /-- replay mode: log entries still to be consumed by the coroutine body being re-executed (empty = live) -/
  replay : List LogEntry := []
  /-- one recorder per running coroutine (parallel to `costack`): its log so far, newest entry first -/
  recs : List (List LogEntry) := []
  deriving Inhabited

inductive Err where
  /-- a Lua error value on its way to the nearest protected call; `handled` = a message handler
      (xpcall) has already processed it -/
  | lua (v : Val) (handled : Bool)
  /-- the program left the fragment whose behaviour the manual determines / the model covers
      (tostring of a float, …): the run is discarded, not compared -/
  | unsupported (what : String)
  /-- a coroutine body suspends with these values: travels up to the `resume` that runs it; not an error —
      protected calls and to-be-closed scopes let it pass untouched -/
  | yield (vs : List Val)
  /-- a suspended coroutine is being closed: travels from its last `yield` up to `coroutine.close`, running the
      pending to-be-closed variables on the way -/
  | closing
  deriving Inhabited

/-- evaluation monad: `none` = out of fuel (bottom), otherwise a result or an error together with
    the store at that point -/
abbrev M := ExceptT Err (StateT Store Option)

/-- out of fuel -/
def oof {α} : M α := ExceptT.mk (fun _ => none)

def unsupported {α} (what : String) : M α := throw (.unsupported what)

/-- run `x`, reify a Lua error (not `unsupported`, not out-of-fuel) as a value -/
def tryLua {α} (x : M α) : M (Except (Val × Bool) α) :=
  ExceptT.mk (do
    let r ← x.run
    match r with
    | .ok a => pure (.ok (.ok a))
    | .error (.lua v h) => pure (.ok (.error (v, h)))
    | .error e => pure (.error e))

/-- how a to-be-closed scope can be left abnormally -/
inductive TbcExit where
  | lua (v : Val) (handled : Bool)
  | closing

/-- run `x`; reify a Lua error or the closing signal (what a to-be-closed scope reacts to) -/
def tryTbc {α} (x : M α) : M (Except TbcExit α) :=
  ExceptT.mk (do
    let r ← x.run
    match r with
    | .ok a => pure (.ok (.ok a))
    | .error (.lua v h) => pure (.ok (.error (.lua v h)))
    | .error .closing => pure (.ok (.error .closing))
    | .error e => pure (.error e))

/-- how the body of a coroutine can stop running -/
inductive CoExit where
  | ret (vs : List Val)
  | err (v : Val)
  | yielded (vs : List Val)
  | closed

def tryCo (x : M (List Val)) : M CoExit :=
  ExceptT.mk (do
    let r ← x.run
    match r with
    | .ok vs => pure (.ok (.ret vs))
    | .error (.lua v _) => pure (.ok (.err v))
    | .error (.yield vs) => pure (.ok (.yielded vs))
    | .error .closing => pure (.ok .closed)
    | .error e => pure (.error e))

/-! ### store primitives (log-aware) -/

/-- append an entry to the log of the innermost running coroutine (nothing to do on the main thread) -/
def Store.record (s : Store) (e : LogEntry) : Store :=
  match s.recs with
  | r :: rs => { s with recs := (e :: r) :: rs }
  | [] => s

def divergence {α} : M α := unsupported "replay divergence (internal)"

def allocCell (v : Val) : M Nat := do
  let s ← get
  match s.replay with
  | [] =>
    set ({ s with cells := s.cells.push v }.record (.addr s.cells.size))
    pure s.cells.size
  | .addr a :: rest => do set { s with replay := rest }; pure a
  | _ :: _ => divergence

def readCell (i : Nat) : M Val := do
  let s ← get
  match s.replay with
  | [] =>
    set (s.record (.val (s.cells.getD i .nil)))
    pure (s.cells.getD i .nil)
  | .val v :: rest => do set { s with replay := rest }; pure v
  | _ :: _ => divergence

def writeCell (i : Nat) (v : Val) : M Unit :=
  modify fun s => if s.replay.isEmpty then { s with cells := s.cells.setIfInBounds i v } else s

def allocTable (t : Table) : M Nat := do
  let s ← get
  match s.replay with
  | [] =>
    set ({ s with tables := s.tables.push t }.record (.addr s.tables.size))
    pure s.tables.size
  | .addr a :: rest => do set { s with replay := rest }; pure a
  | _ :: _ => divergence

def getTable (a : Nat) : M Table := do
  let s ← get
  match s.replay with
  | [] =>
    set (s.record (.tbl (s.tables.getD a Table.empty)))
    pure (s.tables.getD a Table.empty)
  | .tbl t :: rest => do set { s with replay := rest }; pure t
  | _ :: _ => divergence

def putTable (a : Nat) (t : Table) : M Unit :=
  modify fun s => if s.replay.isEmpty then { s with tables := s.tables.setIfInBounds a t } else s

def allocClosure (c : Closure) : M Nat := do
  let s ← get
  match s.replay with
  | [] =>
    set ({ s with closures := s.closures.push c }.record (.addr s.closures.size))
    pure s.closures.size
  | .addr a :: rest => do set { s with replay := rest }; pure a
  | _ :: _ => divergence

/-- closures are immutable and never removed: no log needed -/
def getClosure (a : Nat) : M Closure := do
  let s ← get
  pure (s.closures.getD a default)

def emitEvent (vs : List Val) : M Unit :=
  modify fun s => if s.replay.isEmpty then { s with trace := s.trace.push vs } else s

def getInput : M (List Val) := do
  let s ← get
  pure s.input

def allocCo (c : CoState) : M Nat := do
  let s ← get
  match s.replay with
  | [] =>
    set ({ s with cos := s.cos.push c }.record (.addr s.cos.size))
    pure s.cos.size
  | .addr a :: rest => do set { s with replay := rest }; pure a
  | _ :: _ => divergence

/-- status of a coroutine from the resume stack (§2.6): running = innermost, normal = resumed another one -/
def Store.coStatus (s : Store) (co : Nat) : CoStatus :=
  if s.costack.headD 0 = co then .running
  else if co = 0 ∨ s.costack.contains co then .normal
  else if (s.cos.getD co default).dead then .dead
  else .suspended

def readCoStatus (co : Nat) : M CoStatus := do
  let s ← get
  match s.replay with
  | [] =>
    set (s.record (.status (s.coStatus co)))
    pure (s.coStatus co)
  | .status st :: rest => do set { s with replay := rest }; pure st
  | _ :: _ => divergence

/-- the current store (coroutine bookkeeping reads it directly) -/
def getS : M Store := get

/-- in replay mode: take the next log entry -/
def nextLog : M (Option LogEntry) := do
  let s ← get
  match s.replay with
  | [] => pure none
  | e :: rest => do set { s with replay := rest }; pure (some e)

def recordM (e : LogEntry) : M Unit := modify fun s => s.record e

def updCo (co : Nat) (f : CoState → CoState) : M Unit :=
  modify fun s => { s with cos := s.cos.setIfInBounds co (f (s.cos.getD co default)) }

/-- start (re-)executing coroutine `co` with the log `log` -/
def coEnter (co : Nat) (c : CoState) (first : List Val) (log : List LogEntry) : M Unit :=
  modify fun s =>
    { s with cos := s.cos.setIfInBounds co { c with started := true, args := first },
             costack := co :: s.costack, recs := log.reverse :: s.recs, replay := log }

/-- stop executing coroutine `co`: its recorder becomes its log -/
def coLeave (co : Nat) (upd : CoState → List LogEntry → CoState) : M Unit :=
  modify fun s =>
    { s with costack := s.costack.tail, recs := s.recs.tail, replay := [],
             cos := s.cos.setIfInBounds co (upd (s.cos.getD co default) (s.recs.headD []).reverse) }

def CoStatus.name : CoStatus → String
  | .suspended => "suspended" | .running => "running" | .normal => "normal" | .dead => "dead"

/-- dynamic context of an operation: the current lines of the active Lua functions, innermost first
    (0 = a host function's frame, which has no line), and the message handler installed by the
    nearest enclosing `xpcall` (none under `pcall`) -/
structure Dyn where
  stack : List Nat
  handler : Option Val
  deriving Inhabited

/-- lexical + dynamic context of a piece of code being executed -/
structure Ctx where
  env : List (String × Nat)
  varargs : List Val
  line : Nat
  dyn : Dyn
  /-- inside the scope of a to-be-closed variable of the current function (there `return f()` is not a tail call) -/
  inTbc : Bool := false
  deriving Inhabited

/-- the dynamic context of an operation performed by the code at `ctx.line` -/
def Ctx.here (c : Ctx) : Dyn := ⟨c.line :: c.dyn.stack, c.dyn.handler⟩

def lookupVar : List (String × Nat) → String → Option Nat
  | [], _ => none
  | (n, c) :: rest, name => if n = name then some c else lookupVar rest name

/-- the name every chunk is loaded under -/
def chunkName : String := "chunk"

def natToDec (n : Nat) : String := toString n

/-- `chunk:line: ` or nothing when there is no line -/
def posPrefix (line : Nat) : String :=
  if line = 0 then "" else chunkName ++ ":" ++ natToDec line ++ ": "

/-- level ≥ 1: the line of the level-th active function -/
def Dyn.lineAt (d : Dyn) (level : Nat) : Nat :=
  if level = 0 then 0 else d.stack.getD (level - 1) 0

/-- control-flow outcome of a statement -/
inductive Sig where
  | normal
  | brk
  | ret (vs : List Val)
  | goto_ (l : String)
  /-- internal: the value of the condition of `repeat … until`, evaluated in the body's scope -/
  | until_ (b : Bool)
  deriving Inhabited

/-- address of the global table and of the `string` library table in the initial store -/
def globalsAddr : Nat := 0
def stringLibAddr : Nat := 1

end GoluaVerif.Spec.Lua
