/-
  Spec.Lua.Syntax — abstract syntax of the Lua 5.4 fragment covered by the
  reference semantics (everything except coroutines, `_ENV` manipulation and
  integer-division-free details of the OS/IO libraries).  Statements carry the
  source line they start on (for the `chunk:line:` prefix of error messages);
  expressions are attributed to the line of the enclosing statement.
  Core Lean only.
-/
import GoluaVerif.Spec.Num
namespace GoluaVerif.Spec.Lua
open GoluaVerif

abbrev Bytes := ByteArray

inductive Attrib where
  | none | const | close
  deriving DecidableEq, Repr, Inhabited

/-- the 21 binary operators of §3.4 -/
inductive BinOp where
  | add | sub | mul | div | mod | pow | idiv
  | band | bor | bxor | shl | shr
  | concat
  | eq | ne | lt | le | gt | ge
  | and | or
  deriving DecidableEq, Repr, Inhabited

/-- the 4 unary operators -/
inductive UnOp where
  | neg | not | len | bnot
  deriving DecidableEq, Repr, Inhabited

mutual
inductive Expr where
  | nil
  | true
  | false
  | int (n : I64)
  | flt (f : F64)
  | str (s : Bytes)
  | vararg
  | var (name : String)
  | index (t k : Expr)
  | call (f : Expr) (args : List Expr)
  | method (obj : Expr) (name : Bytes) (args : List Expr)
  | func (f : FuncBody)
  | bin (op : BinOp) (a b : Expr)
  | un (op : UnOp) (a : Expr)
  | paren (e : Expr)
  | table (fields : List Field)

inductive Field where
  | pos (e : Expr)
  | named (k v : Expr)

inductive Stmt where
  | local_ (line : Nat) (names : List (String × Attrib)) (es : List Expr)
  | assign (line : Nat) (targets : List Expr) (es : List Expr)
  | callS (line : Nat) (e : Expr)
  | do_ (body : List Stmt)
  | while_ (line : Nat) (c : Expr) (body : List Stmt)
  | repeat_ (body : List Stmt) (line : Nat) (c : Expr)
  | if_ (line : Nat) (c : Expr) (thn els : List Stmt)
  | fornum (line : Nat) (v : String) (e1 e2 : Expr) (e3 : Option Expr) (body : List Stmt)
  | forin (line : Nat) (names : List String) (es : List Expr) (body : List Stmt)
  | localfn (line : Nat) (name : String) (f : FuncBody)
  | return_ (line : Nat) (es : List Expr)
  | break_
  | goto_ (label : String)
  | label (name : String)

inductive FuncBody where
  | mk (params : List String) (isVararg : Bool) (body : List Stmt)
end

instance : Inhabited Expr := ⟨.nil⟩
instance : Inhabited Stmt := ⟨.break_⟩
instance : Inhabited FuncBody := ⟨.mk [] false []⟩

abbrev Block := List Stmt

def FuncBody.params : FuncBody → List String | .mk p _ _ => p
def FuncBody.isVararg : FuncBody → Bool | .mk _ v _ => v
def FuncBody.body : FuncBody → Block | .mk _ _ b => b

/-- number of local names a statement adds to the scope of its own block -/
def Stmt.declares : Stmt → Nat
  | .local_ _ names _ => names.length
  | .localfn _ _ _ => 1
  | _ => 0

/-- position of `::l::` in a block, with the number of locals declared before it -/
def findLabel (l : String) : Block → Nat → Nat → Option (Nat × Nat)
  | [], _, _ => none
  | .label n :: rest, i, d => if n = l then some (i, d) else findLabel l rest (i + 1) d
  | s :: rest, i, d => findLabel l rest (i + 1) (d + s.declares)

end GoluaVerif.Spec.Lua
