/-
  Spec.Lua.Ops — the metamethod-free part of the operators and library functions:
  arithmetic (integer/comparison/conversion semantics from `Spec.Num`, float + − × ÷ ^ as
  parameters), string→number coercion, comparison, concatenation, numeric-for preparation,
  string functions.  All total functions.  Core Lean only.
-/
import GoluaVerif.Spec.Lua.Value
namespace GoluaVerif.Spec.Lua
open GoluaVerif GoluaVerif.Spec

/-- IEEE float arithmetic, supplied from outside (the oracle plugs in the hardware; the theorems
    hold for every choice) -/
structure FloatOps where
  add : F64 → F64 → F64
  sub : F64 → F64 → F64
  mul : F64 → F64 → F64
  div : F64 → F64 → F64
  pow : F64 → F64 → F64
  deriving Inhabited

/-- result of the raw part of an operator -/
inductive Raw where
  | ok (v : Val)
  /-- a runtime error of the given class, raised without consulting metamethods -/
  | err (cls : String)
  /-- operands not acceptable to the raw operation: consult metamethods, else error `cls` -/
  | tryMeta (cls : String)
  | unsup (what : String)
  deriving Inhabited

/-! ### bytes -/

def bytesOfString (s : String) : Bytes := s.toUTF8

def bytesLtL : List UInt8 → List UInt8 → Bool
  | _, [] => false
  | [], _ :: _ => true
  | a :: as, b :: bs => if a < b then true else if b < a then false else bytesLtL as bs

def bytesLt (a b : Bytes) : Bool := bytesLtL a.toList b.toList
def bytesLe (a b : Bytes) : Bool := !bytesLt b a

def intToBytes (n : I64) : Bytes := (toString n.toInt).toUTF8

def isSpace (c : UInt8) : Bool := c == 32 || (9 ≤ c && c ≤ 13)

def digitVal (c : UInt8) : Option Nat :=
  if 48 ≤ c && c ≤ 57 then some (c.toNat - 48) else none

def hexVal (c : UInt8) : Option Nat :=
  if 48 ≤ c && c ≤ 57 then some (c.toNat - 48)
  else if 97 ≤ c && c ≤ 102 then some (c.toNat - 87)
  else if 65 ≤ c && c ≤ 70 then some (c.toNat - 55)
  else none

def readDigits (f : UInt8 → Option Nat) (base : Nat) : List UInt8 → Nat → Nat → (Nat × Nat × List UInt8)
  | [], acc, cnt => (acc, cnt, [])
  | c :: cs, acc, cnt => match f c with
    | some d => readDigits f base cs (acc * base + d) (cnt + 1)
    | none => (acc, cnt, c :: cs)

/-- correctly rounded `num / den` (den > 0) as a non-negative finite double; `none` outside the
    normal range -/
def ratToF64 (neg : Bool) (num den : Nat) : Option F64 :=
  if num = 0 then some (.fin neg 0) else
  let sh := 1074 + 64
  let q := (num * 2 ^ sh) / den
  let sticky := if (num * 2 ^ sh) % den = 0 then 0 else 1
  let n := 2 * q + sticky
  if n < 2 ^ (52 + 65 + 52) then none else   -- below 2^-1022: subnormal, not modelled
  let r := F64.roundNat n
  let m := r / 2 ^ 65
  if F64.magOK m then some (.fin neg m) else none

inductive Str2Num where
  | num (n : Num)
  | fail
  | unsup
  deriving Inhabited

/-- `lua_stringtonumber` for the numerals the model covers: optional surrounding white space and
    sign, hexadecimal integers (wrapping), decimal integers, decimals with a fraction part -/
def str2num (s : Bytes) : Str2Num :=
  let l := s.toList.dropWhile isSpace
  let l := (l.reverse.dropWhile isSpace).reverse
  let (neg, l) := match l with
    | 45 :: r => (true, r)
    | 43 :: r => (false, r)
    | _ => (false, l)
  match l with
  | 48 :: x :: r =>
    if x == 120 || x == 88 then
      let (v, cnt, rest) := readDigits hexVal 16 r 0 0
      if cnt = 0 then .fail
      else if rest.isEmpty then
        let n : I64 := BitVec.ofNat 64 v
        .num (.int (if neg then -n else n))
      else if rest.all (fun c => (hexVal c).isSome || c == 46 || c == 112 || c == 80 || c == 43 || c == 45) then .unsup
      else .fail
    else dec neg l
  | _ => dec neg l
where
  /-- optional exponent part: `some e` for a well-formed (possibly absent) exponent -/
  expo (l : List UInt8) : Option Int :=
    match l with
    | [] => some 0
    | c :: r =>
      if c == 101 || c == 69 then
        let (eneg, r) := match r with
          | 45 :: r' => (true, r')
          | 43 :: r' => (false, r')
          | _ => (false, r)
        let (ev, ecnt, rest) := readDigits digitVal 10 r 0 0
        if ecnt = 0 || !rest.isEmpty then none
        else some (if eneg then -(ev : Int) else ev)
      else none
  mkFloat (neg : Bool) (mant : Nat) (fcnt : Nat) (e : Int) : Str2Num :=
    -- value = mant · 10^(e - fcnt)
    let p : Int := e - fcnt
    if p.natAbs > 400 then .unsup else
    let r := if p ≥ 0 then ratToF64 neg (mant * 10 ^ p.toNat) 1 else ratToF64 neg mant (10 ^ p.natAbs)
    match r with
    | some f => .num (.flt f)
    | none => .unsup
  dec (neg : Bool) (l : List UInt8) : Str2Num :=
    let (v, cnt, rest) := readDigits digitVal 10 l 0 0
    match rest with
    | [] =>
      if cnt = 0 then .fail
      else if v < 2 ^ 63 + (if neg then 1 else 0) then
        .num (.int (BitVec.ofInt 64 (if neg then -(v : Int) else v)))
      else mkFloat neg v 0 0
    | 46 :: r =>
      let (fv, fcnt, rest2) := readDigits digitVal 10 r 0 0
      if cnt + fcnt = 0 then .fail
      else match expo rest2 with
        | some e => mkFloat neg (v * 10 ^ fcnt + fv) fcnt e
        | none => .fail
    | _ =>
      if cnt = 0 then .fail
      else match expo rest with
        | some e => mkFloat neg v 0 e
        | none => .fail

/-! ### numbers -/

def toFloat : Num → F64
  | .int n => F64.ofI64 n
  | .flt f => f

/-- ⌊f⌋ as a float (exact) -/
def floorF : F64 → F64
  | .fin neg m =>
    let q := m / F64.scale
    let r := m % F64.scale
    if r = 0 then .fin neg m
    else if neg then .fin true ((q + 1) * F64.scale) else .fin false (q * F64.scale)
  | f => f

/-- ⌈f⌉ as a float (exact) -/
def ceilF (f : F64) : F64 := F64.neg (floorF (F64.neg f))

/-- `math.floor`: integer if representable, else the float -/
def floorVal (f : F64) : Val :=
  match Num.floatToInt? (floorF f) with
  | some n => .int n
  | none => .flt (floorF f)

def fzero : F64 := .fin false 0

/-- float modulo a − ⌊a/b⌋·b computed as in lvm.c (`fmod`, then one correcting addition) -/
def modF (fo : FloatOps) (a b : F64) : F64 :=
  let m := F64.fmod a b
  let adj := if F64.blt fzero m then F64.blt b fzero else (F64.blt m fzero && F64.blt fzero b)
  if adj then fo.add m b else m

/-- operand of an arithmetic operator: a number, or a string that converts (§3.4.3) -/
inductive Coerced where
  | num (n : Num)
  | no
  | unsup

def coerceArith : Val → Coerced
  | .int n => .num (.int n)
  | .flt f => .num (.flt f)
  | .str s => match str2num s with
    | .num n => .num n
    | .fail => .no
    | .unsup => .unsup
  | _ => .no

def arithNum (fo : FloatOps) (op : BinOp) (a b : Num) : Raw :=
  match op, a, b with
  | .add, .int x, .int y => .ok (.int (x + y))
  | .sub, .int x, .int y => .ok (.int (x - y))
  | .mul, .int x, .int y => .ok (.int (x * y))
  | .idiv, .int x, .int y => if y = 0#64 then .err "divzero" else .ok (.int (Num.idivInt x y))
  | .mod, .int x, .int y => if y = 0#64 then .err "modzero" else .ok (.int (Num.modInt x y))
  | .add, a, b => .ok (.flt (fo.add (toFloat a) (toFloat b)))
  | .sub, a, b => .ok (.flt (fo.sub (toFloat a) (toFloat b)))
  | .mul, a, b => .ok (.flt (fo.mul (toFloat a) (toFloat b)))
  | .div, a, b => .ok (.flt (fo.div (toFloat a) (toFloat b)))
  | .pow, a, b => .ok (.flt (fo.pow (toFloat a) (toFloat b)))
  | .idiv, a, b => .ok (.flt (floorF (fo.div (toFloat a) (toFloat b))))
  | .mod, a, b => .ok (.flt (modF fo (toFloat a) (toFloat b)))
  | _, _, _ => .unsup "arithNum: not an arithmetic operator"

def arithRaw (fo : FloatOps) (op : BinOp) (a b : Val) : Raw :=
  match coerceArith a, coerceArith b with
  | .num x, .num y => arithNum fo op x y
  | .unsup, _ => .unsup "numeral outside the modelled grammar"
  | _, .unsup => .unsup "numeral outside the modelled grammar"
  | _, _ => .tryMeta "arith"

/-- operand of a bitwise operator: `some none` = a number without integer representation -/
inductive CoercedInt where
  | int (n : I64)
  | noint
  | no
  | unsup

def coerceInt : Val → CoercedInt
  | .int n => .int n
  | .flt f => match Num.floatToInt? f with
    | some n => .int n
    | none => .noint
  | _ => .no   -- strings are not coerced by bitwise operators in 5.4 (no bitwise string metamethods)

def bitNum (op : BinOp) (x y : I64) : Raw :=
  match op with
  | .band => .ok (.int (x &&& y))
  | .bor => .ok (.int (x ||| y))
  | .bxor => .ok (.int (x ^^^ y))
  | .shl => .ok (.int (Num.shl x y))
  | .shr => .ok (.int (Num.shr x y))
  | _ => .unsup "bitNum: not a bitwise operator"

def isNumber : Val → Bool
  | .int _ => true
  | .flt _ => true
  | _ => false

def bitRaw (op : BinOp) (a b : Val) : Raw :=
  match coerceInt a, coerceInt b with
  | .int x, .int y => bitNum op x y
  | .unsup, _ => .unsup "numeral outside the modelled grammar"
  | _, .unsup => .unsup "numeral outside the modelled grammar"
  | _, _ => if isNumber a && isNumber b then .tryMeta "noint" else .tryMeta "bitwise"

def unmRaw : Val → Raw
  | .int n => .ok (.int (-n))
  | .flt f => .ok (.flt (F64.neg f))
  | .str s => match str2num s with
    | .num (.int n) => .ok (.int (-n))
    | .num (.flt f) => .ok (.flt (F64.neg f))
    | .fail => .tryMeta "arith"
    | .unsup => .unsup "numeral outside the modelled grammar"
  | _ => .tryMeta "arith"

def bnotRaw (a : Val) : Raw :=
  match coerceInt a with
  | .int n => .ok (.int (~~~n))
  | .noint => .tryMeta "noint"
  | .no => .tryMeta "bitwise"
  | .unsup => .unsup "numeral outside the modelled grammar"

/-- string form of a value for `..` : strings and integers only (floats: `%.14g`, not modelled) -/
inductive ConcatPiece where
  | bytes (b : Bytes)
  | no
  | unsup

def concatPiece : Val → ConcatPiece
  | .str s => .bytes s
  | .int n => .bytes (intToBytes n)
  | .flt _ => .unsup
  | _ => .no

def concatRaw (a b : Val) : Raw :=
  match concatPiece a, concatPiece b with
  | .bytes x, .bytes y => .ok (.str (x ++ y))
  | .no, _ => .tryMeta "concat"
  | _, .no => .tryMeta "concat"
  | _, _ => .unsup "float to string conversion"

/-- raw equality (§3.4.4): numbers by mathematical value, strings by content, objects by reference -/
def rawEq (a b : Val) : Bool :=
  match a, b with
  | .int x, .int y => x == y
  | .int x, .flt y => Num.eq (.int x) (.flt y)
  | .flt x, .int y => Num.eq (.flt x) (.int y)
  | .flt x, .flt y => F64.beq x y
  | a, b => a == b

def ltRaw (a b : Val) : Raw :=
  match a, b with
  | .str x, .str y => .ok (.bool (bytesLt x y))
  | a, b => match a.toNum?, b.toNum? with
    | some x, some y => .ok (.bool (Num.lt x y))
    | _, _ => .tryMeta "compare"

def leRaw (a b : Val) : Raw :=
  match a, b with
  | .str x, .str y => .ok (.bool (bytesLe x y))
  | a, b => match a.toNum?, b.toNum? with
    | some x, some y => .ok (.bool (Num.le x y))
    | _, _ => .tryMeta "compare"

/-! ### numeric for (§3.3.5) -/

inductive ForPrep where
  /-- integer loop: first value, step, number of further iterations -/
  | intLoop (init step : I64) (count : Nat)
  | fltLoop (init limit step : F64)
  | skip
  | err (cls : String)
  deriving Inhabited

/-- clip a float limit to an integer (floor for a positive step, ceil for a negative one);
    `none` = the loop does not run -/
def forLimit (lim : Val) (step : I64) : Option (Option I64) :=
  match lim with
  | .int l => some (some l)
  | .flt f =>
    let stepPos := BitVec.slt 0#64 step
    let r := if stepPos then floorF f else ceilF f
    match Num.floatToInt? r with
    | some l => some (some l)
    | none =>
      if F64.blt fzero f then (if stepPos then some (some I64.maxInt) else some none)
      else (if stepPos then some none else some (some I64.minInt))
  | _ => none

def forPrep (v1 v2 v3 : Val) : ForPrep :=
  match v1, v3 with
  | .int init, .int step =>
    if step = 0#64 then .err "forstep0" else
    match forLimit v2 step with
    | none => .err "forlimit"
    | some none => .skip
    | some (some limit) =>
      if BitVec.slt 0#64 step then
        if BitVec.slt limit init then .skip
        else .intLoop init step ((limit.toInt - init.toInt).toNat / step.toInt.toNat)
      else
        if BitVec.slt init limit then .skip
        else .intLoop init step ((init.toInt - limit.toInt).toNat / (-step.toInt).toNat)
  | _, _ =>
    match v1.toNum?, v2.toNum?, v3.toNum? with
    | some a, some b, some c =>
      let step := toFloat c
      if F64.beq step fzero then .err "forstep0"
      else .fltLoop (toFloat a) (toFloat b) step
    | none, _, _ => .err "forinit"
    | _, none, _ => .err "forlimit"
    | _, _, none => .err "forstep"

/-! ### string library -/

/-- Lua string position → 0-based start (clipped), for `sub`/`byte` -/
def strRange (len : Nat) (i j : Int) : Nat × Nat :=
  let l : Int := len
  let i := if i < 0 then (if i + l + 1 < 1 then 1 else i + l + 1) else if i = 0 then 1 else i
  let j := if j < 0 then j + l + 1 else if j > l then l else j
  if i > j then (0, 0) else ((i - 1).toNat, j.toNat)

def strSub (s : Bytes) (i j : Int) : Bytes :=
  let (a, b) := strRange s.size i j
  s.extract a b

def upperByte (c : UInt8) : UInt8 := if 97 ≤ c && c ≤ 122 then c - 32 else c
def lowerByte (c : UInt8) : UInt8 := if 65 ≤ c && c ≤ 90 then c + 32 else c

def bytesMap (f : UInt8 → UInt8) (s : Bytes) : Bytes := ⟨s.data.map f⟩
def bytesReverse (s : Bytes) : Bytes := ⟨s.data.reverse⟩

def bytesRep (s sep : Bytes) : Nat → Bytes
  | 0 => ByteArray.empty
  | 1 => s
  | n + 1 => s ++ sep ++ bytesRep s sep n

end GoluaVerif.Spec.Lua
