/-
  Spec.Lua.Eval — the reference semantics: a fuel-indexed definitional interpreter.

  Shape (chosen so that `eval_fuel_mono` is provable): the evaluator is written with open
  recursion.  `step r` is ONE unfolding of every evaluation judgement, in which all recursive
  uses go through the record `r`; `evalN 0` is "out of fuel" everywhere and
  `evalN (n+1) = step (evalN n)`.  Fuel therefore bounds the nesting depth of judgements (a loop
  iteration, a statement of a block and a call each cost one level).  Out of fuel is the bottom
  element `none` of the monad and propagates through every bind.
  Core Lean only.
-/
import GoluaVerif.Spec.Lua.Ops
namespace GoluaVerif.Spec.Lua
open GoluaVerif GoluaVerif.Spec

/-- assignable location, after evaluating the sub-expressions of an assignment target -/
inductive LVal where
  | cell (c : Nat)
  | global (name : String)
  | idx (t k : Val)
  | bad

/-- the evaluation judgements -/
structure Rec where
  /-- all values of an expression (calls and `...` yield any number, everything else one) -/
  exprM : Ctx → Expr → M (List Val)
  /-- expression list: every expression but the last truncated to one value, the last expanded -/
  exprs : Ctx → List Expr → M (List Val)
  /-- fields of a table constructor, stored from positional index `idx` on -/
  fields : Ctx → Nat → Nat → List Field → M Unit
  stmt : Ctx → Stmt → M Sig
  /-- run statements `i, i+1, …` of block `whole` (scope of the block starts at env length `base`;
      labels below index `lo` belong to an enclosing to-be-closed scope); `tail` = condition of an
      enclosing `repeat`, evaluated in the block's scope after its last statement -/
  stmts : Ctx → Block → Option (Nat × Expr) → Nat → Nat → Nat → M Sig
  call : Dyn → Val → List Val → M (List Val)
  index : Dyn → Val → Val → M Val
  setindex : Dyn → Val → Val → Val → M Unit
  forin : Ctx → List String → Val → Val → Val → Block → M Sig
  fornumI : Ctx → String → I64 → I64 → Nat → Block → M Sig
  fornumF : Ctx → String → F64 → F64 → F64 → Block → M Sig

/-! ### helpers that use the judgements (non-recursive) -/

/-- raise the Lua error value `v`: the message handler of the nearest `xpcall`, if any, runs here,
    at the point of the error, once; its first result replaces the error value -/
def raise {α} (r : Rec) (dyn : Dyn) (v : Val) : M α :=
  match dyn.handler with
  | none => throw (.lua v false)
  | some h => do
    let rs ← r.call ⟨0 :: dyn.stack, none⟩ h [v]
    throw (.lua (rs.headD .nil) true)

/-- a runtime error of class `cls` at the current line of the innermost active function -/
def rtError {α} (r : Rec) (dyn : Dyn) (cls : String) : M α :=
  raise r dyn (.ofString (posPrefix (dyn.stack.headD 0) ++ "!" ++ cls))

def eval1 (r : Rec) (ctx : Ctx) (e : Expr) : M Val := do
  let vs ← r.exprM ctx e
  pure (vs.headD .nil)

/-- metamethod `name` of a value (raw access to the metatable); strings have `__index` only -/
def metaOf (v : Val) (name : String) : M Val :=
  match v with
  | .table a => do
    let t ← getTable a
    match t.mt with
    | none => pure .nil
    | some m => do
      let mt ← getTable m
      pure (mt.get (.ofString name))
  | .str _ => if name = "__index" then pure (.table stringLibAddr) else pure .nil
  | _ => pure .nil

def call1 (r : Rec) (dyn : Dyn) (f : Val) (args : List Val) : M Val := do
  let rs ← r.call dyn f args
  pure (rs.headD .nil)

/-- finish an operator: raw result, or the metamethod `mm` of the first operand that has one -/
def finishBin (r : Rec) (dyn : Dyn) (raw : Raw) (mm : String) (a b : Val) : M Val :=
  match raw with
  | .ok v => pure v
  | .err cls => rtError r dyn cls
  | .unsup w => unsupported w
  | .tryMeta cls => do
    let h ← metaOf a mm
    if h ≠ .nil then call1 r dyn h [a, b] else
    let h ← metaOf b mm
    if h ≠ .nil then call1 r dyn h [a, b] else
    rtError r dyn cls

def eqVals (r : Rec) (dyn : Dyn) (a b : Val) : M Bool :=
  if rawEq a b then pure true else
  match a, b with
  | .table _, .table _ => do
    let h ← metaOf a "__eq"
    if h ≠ .nil then (do let v ← call1 r dyn h [a, b]; pure v.truthy) else
    let h ← metaOf b "__eq"
    if h ≠ .nil then (do let v ← call1 r dyn h [a, b]; pure v.truthy) else
    pure false
  | _, _ => pure false

def truthyM (x : M Val) : M Val := do
  let v ← x
  pure (.bool v.truthy)

def binop (fo : FloatOps) (r : Rec) (dyn : Dyn) (op : BinOp) (a b : Val) : M Val :=
  match op with
  | .add => finishBin r dyn (arithRaw fo op a b) "__add" a b
  | .sub => finishBin r dyn (arithRaw fo op a b) "__sub" a b
  | .mul => finishBin r dyn (arithRaw fo op a b) "__mul" a b
  | .div => finishBin r dyn (arithRaw fo op a b) "__div" a b
  | .mod => finishBin r dyn (arithRaw fo op a b) "__mod" a b
  | .pow => finishBin r dyn (arithRaw fo op a b) "__pow" a b
  | .idiv => finishBin r dyn (arithRaw fo op a b) "__idiv" a b
  | .band => finishBin r dyn (bitRaw op a b) "__band" a b
  | .bor => finishBin r dyn (bitRaw op a b) "__bor" a b
  | .bxor => finishBin r dyn (bitRaw op a b) "__bxor" a b
  | .shl => finishBin r dyn (bitRaw op a b) "__shl" a b
  | .shr => finishBin r dyn (bitRaw op a b) "__shr" a b
  | .concat => finishBin r dyn (concatRaw a b) "__concat" a b
  | .eq => do let e ← eqVals r dyn a b; pure (.bool e)
  | .ne => do let e ← eqVals r dyn a b; pure (.bool !e)
  | .lt => truthyM (finishBin r dyn (ltRaw a b) "__lt" a b)
  | .le => truthyM (finishBin r dyn (leRaw a b) "__le" a b)
  | .gt => truthyM (finishBin r dyn (ltRaw b a) "__lt" b a)
  | .ge => truthyM (finishBin r dyn (leRaw b a) "__le" b a)
  | .and => pure (if a.truthy then b else a)
  | .or => pure (if a.truthy then a else b)

def lenOf (r : Rec) (dyn : Dyn) (a : Val) : M Val :=
  match a with
  | .str s => pure (.int (BitVec.ofNat 64 s.size))
  | .table addr => do
    let h ← metaOf a "__len"
    if h ≠ .nil then call1 r dyn h [a] else
    let t ← getTable addr
    pure (.int (BitVec.ofNat 64 t.border))
  | _ => rtError r dyn "length"

def unop (r : Rec) (dyn : Dyn) (op : UnOp) (a : Val) : M Val :=
  match op with
  | .neg => finishBin r dyn (unmRaw a) "__unm" a a
  | .bnot => finishBin r dyn (bnotRaw a) "__bnot" a a
  | .not => pure (.bool !a.truthy)
  | .len => lenOf r dyn a

/-- raw assignment `t[k] = v` with the key checks of §3.4.9/§2.1 -/
def rawSetChecked (r : Rec) (dyn : Dyn) (addr : Nat) (k v : Val) : M Unit := do
  let nk := k.normKey
  if nk = .nil then rtError r dyn "indexnil" else
  if nk = .flt .nan then rtError r dyn "indexnan" else
  let t ← getTable addr
  putTable addr (t.set nk v)

def evalTarget (r : Rec) (ctx : Ctx) (e : Expr) : M LVal :=
  match e with
  | .var name => match lookupVar ctx.env name with
    | some c => pure (.cell c)
    | none => pure (.global name)
  | .index t k => do
    let tv ← eval1 r ctx t
    let kv ← eval1 r ctx k
    pure (.idx tv kv)
  | _ => pure .bad

def assignTo (r : Rec) (dyn : Dyn) (p : LVal × Val) : M PUnit :=
  match p.1 with
  | .cell c => writeCell c p.2
  | .global name => do
    let t ← getTable globalsAddr
    putTable globalsAddr (t.set (.ofString name) p.2)
  | .idx t k => r.setindex dyn t k p.2
  | .bad => unsupported "assignment to a non-variable"

/-- pad / truncate a value list to `n` values -/
def adjust : Nat → List Val → List Val
  | 0, _ => []
  | n + 1, [] => .nil :: adjust n []
  | n + 1, v :: vs => v :: adjust n vs

/-- allocate one fresh cell per name -/
def bindNames : List String → List Val → List (String × Nat) → M (List (String × Nat))
  | [], _, env => pure env
  | n :: ns, vs, env => do
    let c ← allocCell (vs.headD .nil)
    bindNames ns vs.tail ((n, c) :: env)

/-- run a to-be-closed value's `__close` metamethod -/
def closeVal (r : Rec) (dyn : Dyn) (v err : Val) : M Unit := do
  let h ← metaOf v "__close"
  let _ ← r.call dyn h [v, err]
  pure ()

/-- the to-be-closed value (if any, and not nil/false) among freshly declared locals -/
def tbcOf : List (String × Attrib) → List Val → Option Val
  | [], _ => none
  | (_, a) :: ns, vs =>
    if a = .close then
      (if (vs.headD .nil).truthy then some (vs.headD .nil) else tbcOf ns vs.tail)
    else tbcOf ns vs.tail

def toIntArg (v : Val) : Option Int :=
  match v with
  | .int n => some n.toInt
  | .flt f => (Num.floatToInt? f).map (·.toInt)
  | _ => none

def intVal (n : Int) : Val := .int (BitVec.ofInt 64 n)

/-- string argument of a string-library function: strings, and integers converted -/
def strArg (v : Val) : Option Bytes :=
  match v with
  | .str s => some s
  | .int n => some (intToBytes n)
  | _ => none

def rangeVals : Nat → Int → List Val
  | 0, _ => []
  | n + 1, i => intVal i :: rangeVals n (i + 1)

def setSeq (t : Table) : List Val → Nat → Table
  | [], _ => t
  | v :: vs, i => setSeq (t.set (intVal i) v) vs (i + 1)

def concatPieces : List Val → Bytes → Option Bytes
  | [], _ => some ByteArray.empty
  | [v], _ => strArg v
  | v :: vs, sep => match strArg v, concatPieces vs sep with
    | some a, some b => some (a ++ sep ++ b)
    | _, _ => none

def numMax (a b : Num) : Num := if Num.lt a b then b else a
def numMin (a b : Num) : Num := if Num.lt b a then b else a

def foldNums (f : Num → Num → Num) : Num → List Val → Option Num
  | acc, [] => some acc
  | acc, v :: vs => match v.toNum? with
    | some n => foldNums f (f acc n) vs
    | none => none

/-! ### coroutines -/

/-- run (re-execute) the body of coroutine `co` with the log `log`; classify how it stops and update its state -/
def coRun (r : Rec) (co : Nat) (c : CoState) (first : List Val) (log : List LogEntry) : M (Bool × List Val) := do
  coEnter co c first log
  let ex ← tryCo (r.call ⟨[0], none⟩ c.fn first)
  let s2 ← getS
  if !s2.replay.isEmpty then divergence else
  match ex with
  | .ret vs => do
    coLeave co fun c l => { c with dead := true, log := l }
    pure (true, vs)
  | .err v => do
    coLeave co fun c l => { c with dead := true, err := some v, log := l }
    pure (false, [v])
  | .yielded vs => do
    coLeave co fun c l => { c with log := l }
    pure (true, vs)
  | .closed => do
    coLeave co fun c l => { c with dead := true, log := l }
    pure (true, [])

/-- `coroutine.resume(co, args…)` as (status, values) -/
def resumeCo (r : Rec) (co : Nat) (args : List Val) : M (Bool × List Val) := do
  match ← nextLog with
  | some (.resumed ok vs) => pure (ok, vs)
  | some _ => divergence
  | none =>
    let s ← getS
    let c := s.cos.getD co default
    let res ← (match s.coStatus co with
      | .suspended =>
        if c.started then coRun r co c c.args (c.log ++ [.yieldRet args])
        else coRun r co c args []
      | .dead => pure (false, [Val.ofString "!codead"])
      | _ => pure (false, [Val.ofString "!conotsuspended"]))
    recordM (.resumed res.1 res.2)
    pure res

/-- `coroutine.close(co)` as (status, values) -/
def closeCo (r : Rec) (dyn : Dyn) (co : Nat) : M (Bool × List Val) := do
  match ← nextLog with
  | some (.resumed ok vs) => pure (ok, vs)
  | some _ => divergence
  | none =>
    let s ← getS
    let c := s.cos.getD co default
    match s.coStatus co with
    | .suspended => do
      let res ← (if c.started then coRun r co c c.args (c.log ++ [.closeSignal])
        else do
          updCo co fun c => { c with dead := true }
          pure (true, []))
      recordM (.resumed res.1 res.2)
      pure res
    | .dead => do
      let res : Bool × List Val := match c.err with
        | some v => (false, [v])
        | none => (true, [])
      -- the error is reported once: afterwards the coroutine is simply dead
      updCo co fun c => { c with err := none }
      recordM (.resumed res.1 res.2)
      pure res
    | _ => rtError r dyn "coclose"

def yieldCo (r : Rec) (dyn : Dyn) (vs : List Val) : M (List Val) := do
  let s ← getS
  if s.costack.isEmpty then rtError r dyn "yieldmain" else
  match ← nextLog with
  | none => throw (.yield vs)
  | some (.yieldRet rs) => pure rs
  | some .closeSignal => throw .closing
  | some _ => divergence

def isFunction : Val → Bool
  | .func _ => true
  | .builtin _ => true
  | .wrapfn _ => true
  | _ => false

def newCo (f : Val) : M Nat :=
  allocCo { fn := f, args := [], started := false, dead := false, err := none, log := [] }

def builtinCall (r : Rec) (dyn : Dyn) (b : Builtin) (args : List Val) : M (List Val) :=
  let a0 := args.headD .nil
  let a1 := args.tail.headD .nil
  let a2 := args.tail.tail.headD .nil
  match b with
  | .emit => do emitEvent args; pure []
  | .args => getInput
  | .error =>
    let level : Option Int := if args.length < 2 then some 1 else toIntArg a1
    match level with
    | none => unsupported "error: non-integer level"
    | some lv =>
      match a0 with
      | .str s =>
        if lv > 0 then raise r dyn (.str ((posPrefix (dyn.lineAt lv.toNat)).toUTF8 ++ s))
        else raise r dyn a0
      | _ => raise r dyn a0
  | .pcall =>
    if args.isEmpty then rtError r dyn "badarg" else do
    let res ← tryLua (r.call ⟨0 :: dyn.stack, none⟩ a0 args.tail)
    match res with
    | .ok vs => pure (.bool true :: vs)
    | .error (v, _) => pure [.bool false, v]
  | .xpcall =>
    if args.length < 2 then rtError r dyn "badarg" else do
    let res ← tryLua (r.call ⟨0 :: dyn.stack, some a1⟩ a0 args.tail.tail)
    match res with
    | .ok vs => pure (.bool true :: vs)
    | .error (v, _) => pure [.bool false, v]
  | .assert =>
    if args.isEmpty then rtError r dyn "badarg"
    else if a0.truthy then pure args
    else if args.length < 2 then raise r dyn (.ofString "assertion failed!")
    else raise r dyn a1
  | .select =>
    if a0 = .ofString "#" then pure [intVal (args.length - 1)] else
    match toIntArg a0 with
    | none => rtError r dyn "badarg"
    | some n =>
      let cnt : Int := args.length - 1
      if n > 0 then pure (args.tail.drop (n.toNat - 1))
      else if n < 0 ∧ -n ≤ cnt then pure (args.tail.drop (cnt + n).toNat)
      else rtError r dyn "badarg"
  | .type => if args.isEmpty then rtError r dyn "badarg" else pure [.ofString a0.typeName]
  | .rawget => match a0 with
    | .table a => do let t ← getTable a; pure [t.get a1.normKey]
    | _ => rtError r dyn "badarg"
  | .rawset => match a0 with
    | .table a => do rawSetChecked r dyn a a1 a2; pure [a0]
    | _ => rtError r dyn "badarg"
  | .rawequal => if args.length < 2 then rtError r dyn "badarg" else pure [.bool (rawEq a0 a1)]
  | .rawlen => match a0 with
    | .table a => do let t ← getTable a; pure [.int (BitVec.ofNat 64 t.border)]
    | .str s => pure [.int (BitVec.ofNat 64 s.size)]
    | _ => rtError r dyn "badarg"
  | .setmetatable => match a0, a1 with
    | .table a, .nil => if args.length < 2 then rtError r dyn "badarg" else do
      let prot ← metaOf a0 "__metatable"
      if prot ≠ .nil then rtError r dyn "protected" else
      let t ← getTable a
      putTable a { t with mt := none }
      pure [a0]
    | .table a, .table m => do
      let prot ← metaOf a0 "__metatable"
      if prot ≠ .nil then rtError r dyn "protected" else
      let t ← getTable a
      putTable a { t with mt := some m }
      pure [a0]
    | _, _ => rtError r dyn "badarg"
  | .getmetatable => match a0 with
    | .table a => do
      let t ← getTable a
      match t.mt with
      | none => pure [.nil]
      | some m => do
        let prot ← metaOf a0 "__metatable"
        if prot ≠ .nil then pure [prot] else pure [.table m]
    | .str _ => unsupported "getmetatable of a string"
    | _ => if args.isEmpty then rtError r dyn "badarg" else pure [.nil]
  | .next => match a0 with
    | .table a => do
      let t ← getTable a
      match t.next a1.normKey with
      | none => rtError r dyn "badkey"
      | some none => pure [.nil]
      | some (some (k, v)) => pure [k, v]
    | _ => rtError r dyn "badarg"
  | .pairs =>
    if args.isEmpty then rtError r dyn "badarg" else do
    let h ← metaOf a0 "__pairs"
    if h ≠ .nil then (do let rs ← r.call dyn h [a0]; pure (adjust 3 rs)) else
    match a0 with
    | .table _ => pure [.builtin .next, a0, .nil]
    | _ => rtError r dyn "badarg"
  | .ipairs => if args.isEmpty then rtError r dyn "badarg" else pure [.builtin .ipairsIter, a0, intVal 0]
  | .ipairsIter => match a1 with
    | .int i => do
      let v ← r.index dyn a0 (.int (i + 1#64))
      if v = .nil then pure [.nil] else pure [.int (i + 1#64), v]
    | _ => rtError r dyn "badarg"
  | .tostring =>
    if args.isEmpty then rtError r dyn "badarg" else do
    let h ← metaOf a0 "__tostring"
    if h ≠ .nil then (do
      let v ← call1 r dyn h [a0]
      match v with
      | .str _ => pure [v]
      | _ => rtError r dyn "tostring-nonstring")
    else match a0 with
    | .nil => pure [.ofString "nil"]
    | .bool true => pure [.ofString "true"]
    | .bool false => pure [.ofString "false"]
    | .int n => pure [.str (intToBytes n)]
    | .str _ => pure [a0]
    | _ => unsupported "tostring of a float, table or function"
  | .tonumber =>
    if args.isEmpty then rtError r dyn "badarg"
    else if args.length ≥ 2 ∧ a1 ≠ .nil then unsupported "tonumber with a base"
    else match a0 with
    | .int _ => pure [a0]
    | .flt _ => pure [a0]
    | .str s => match str2num s with
      | .num n => pure [Val.ofNum n]
      | .fail => pure [.nil]
      | .unsup => unsupported "numeral outside the modelled grammar"
    | _ => pure [.nil]
  | .strLen => match strArg a0 with
    | some s => pure [intVal s.size]
    | none => rtError r dyn "badarg"
  | .strSub => match strArg a0, toIntArg a1, (if args.length < 3 ∨ a2 = .nil then some (-1) else toIntArg a2) with
    | some s, some i, some j => pure [.str (strSub s i j)]
    | _, _, _ => rtError r dyn "badarg"
  | .strRep => match strArg a0, toIntArg a1, (if args.length < 3 ∨ a2 = .nil then some ByteArray.empty else strArg a2) with
    | some s, some n, some sep =>
      if n > 10000 then unsupported "string.rep: large count" else pure [.str (bytesRep s sep n.toNat)]
    | _, _, _ => rtError r dyn "badarg"
  | .strByte => match strArg a0, (if args.length < 2 ∨ a1 = .nil then some 1 else toIntArg a1) with
    | some s, some i =>
      match (if args.length < 3 ∨ a2 = .nil then some i else toIntArg a2) with
      | some j =>
        let (x, y) := strRange s.size i j
        pure ((s.extract x y).toList.map (fun c => intVal c.toNat))
      | none => rtError r dyn "badarg"
    | _, _ => rtError r dyn "badarg"
  | .strChar =>
    match args.mapM (fun v => match toIntArg v with
      | some n => if 0 ≤ n ∧ n ≤ 255 then some (UInt8.ofNat n.toNat) else none
      | none => none) with
    | some bs => pure [.str ⟨bs.toArray⟩]
    | none => rtError r dyn "badarg"
  | .strUpper => match strArg a0 with
    | some s => pure [.str (bytesMap upperByte s)]
    | none => rtError r dyn "badarg"
  | .strLower => match strArg a0 with
    | some s => pure [.str (bytesMap lowerByte s)]
    | none => rtError r dyn "badarg"
  | .strReverse => match strArg a0 with
    | some s => pure [.str (bytesReverse s)]
    | none => rtError r dyn "badarg"
  | .mathType => if args.isEmpty then rtError r dyn "badarg" else match a0 with
    | .int _ => pure [.ofString "integer"]
    | .flt _ => pure [.ofString "float"]
    | _ => pure [.nil]
  | .mathTointeger => match a0 with
    | .int _ => pure [a0]
    | .flt f => match Num.floatToInt? f with
      | some n => pure [.int n]
      | none => pure [.nil]
    | .str _ => unsupported "math.tointeger of a string"
    | _ => if args.isEmpty then rtError r dyn "badarg" else pure [.nil]
  | .mathFloor => match a0 with
    | .int _ => pure [a0]
    | .flt f => pure [floorVal f]
    | .str _ => unsupported "math.floor of a string"
    | _ => rtError r dyn "badarg"
  | .mathAbs => match a0 with
    | .int n => pure [.int (if BitVec.slt n 0#64 then -n else n)]
    | .flt f => pure [.flt (match f with | .fin _ m => .fin false m | .inf _ => .inf false | .nan => .nan)]
    | .str _ => unsupported "math.abs of a string"
    | _ => rtError r dyn "badarg"
  | .mathMax => match a0.toNum? with
    | some n => match foldNums numMax n args.tail with
      | some m => pure [Val.ofNum m]
      | none => rtError r dyn "badarg"
    | none => rtError r dyn "badarg"
  | .mathMin => match a0.toNum? with
    | some n => match foldNums numMin n args.tail with
      | some m => pure [Val.ofNum m]
      | none => rtError r dyn "badarg"
    | none => rtError r dyn "badarg"
  | .tblUnpack => match a0 with
    | .table a => do
      let t ← getTable a
      if t.mt.isSome then unsupported "table.unpack on a table with a metatable" else
      match (if args.length < 2 ∨ a1 = .nil then some 1 else toIntArg a1),
            (if args.length < 3 ∨ a2 = .nil then some (t.border : Int) else toIntArg a2) with
      | some i, some j =>
        if j - i ≥ 1000 then unsupported "table.unpack: large range" else
        pure ((rangeVals (j - i + 1).toNat i).map (fun k => t.get k))
      | _, _ => rtError r dyn "badarg"
    | _ => rtError r dyn "badarg"
  | .tblPack => do
    let t := (setSeq Table.empty args 1).set (.ofString "n") (intVal args.length)
    let a ← allocTable t
    pure [.table a]
  | .tblInsert => match a0 with
    | .table a => do
      let t ← getTable a
      if t.mt.isSome then unsupported "table.insert on a table with a metatable"
      else if args.length ≠ 2 then unsupported "table.insert with a position"
      else do
        putTable a (t.set (intVal (t.border + 1)) a1)
        pure []
    | _ => rtError r dyn "badarg"
  | .tblRemove => match a0 with
    | .table a => do
      let t ← getTable a
      if t.mt.isSome then unsupported "table.remove on a table with a metatable"
      else if args.length ≠ 1 then unsupported "table.remove with a position"
      else if t.border = 0 then pure [.nil]
      else do
        let v := t.get (intVal t.border)
        putTable a (t.set (intVal t.border) .nil)
        pure [v]
    | _ => rtError r dyn "badarg"
  | .tblConcat => match a0 with
    | .table a => do
      let t ← getTable a
      if t.mt.isSome then unsupported "table.concat on a table with a metatable" else
      match (if args.length < 2 ∨ a1 = .nil then some ByteArray.empty else strArg a1) with
      | some sep =>
        match concatPieces ((rangeVals t.border 1).map (fun k => t.get k)) sep with
        | some s => pure [.str s]
        | none => rtError r dyn "badarg"
      | none => rtError r dyn "badarg"
    | _ => rtError r dyn "badarg"
  | .coCreate =>
    if isFunction a0 then (do let a ← newCo a0; pure [.thread a]) else rtError r dyn "badarg"
  | .coWrap =>
    if isFunction a0 then (do let a ← newCo a0; pure [.wrapfn a]) else rtError r dyn "badarg"
  | .coResume => match a0 with
    | .thread co => do
      let res ← resumeCo r co args.tail
      pure (.bool res.1 :: res.2)
    | _ => rtError r dyn "badarg"
  | .coYield => yieldCo r dyn args
  | .coStatus => match a0 with
    | .thread co => do
      let st ← readCoStatus co
      pure [.ofString st.name]
    | _ => rtError r dyn "badarg"
  | .coClose => match a0 with
    | .thread co => do
      let res ← closeCo r dyn co
      pure (.bool res.1 :: res.2)
    | _ => rtError r dyn "badarg"
  | .coIsyieldable => do
    let s ← getS
    pure [.bool !s.costack.isEmpty]
  | .coRunning => do
    let s ← getS
    pure [.thread (s.costack.headD 0), .bool s.costack.isEmpty]

/-! ### one unfolding of each judgement -/

def stepExprM (fo : FloatOps) (r : Rec) (ctx : Ctx) (e : Expr) : M (List Val) :=
  match e with
  | .nil => pure [.nil]
  | .true => pure [.bool true]
  | .false => pure [.bool false]
  | .int n => pure [.int n]
  | .flt f => pure [.flt f]
  | .str s => pure [.str s]
  | .vararg => pure ctx.varargs
  | .var name => match lookupVar ctx.env name with
    | some c => do let v ← readCell c; pure [v]
    | none => do let t ← getTable globalsAddr; pure [t.get (.ofString name)]
  | .index t k => do
    let tv ← eval1 r ctx t
    let kv ← eval1 r ctx k
    let v ← r.index ctx.here tv kv
    pure [v]
  | .call f args => do
    let fv ← eval1 r ctx f
    let as ← r.exprs ctx args
    r.call ctx.here fv as
  | .method obj name args => do
    let ov ← eval1 r ctx obj
    let fv ← r.index ctx.here ov (.str name)
    let as ← r.exprs ctx args
    r.call ctx.here fv (ov :: as)
  | .func fb => do
    let a ← allocClosure ⟨fb, ctx.env⟩
    pure [.func a]
  | .bin .and a b => do
    let av ← eval1 r ctx a
    if av.truthy then (do let bv ← eval1 r ctx b; pure [bv]) else pure [av]
  | .bin .or a b => do
    let av ← eval1 r ctx a
    if av.truthy then pure [av] else (do let bv ← eval1 r ctx b; pure [bv])
  | .bin op a b => do
    let av ← eval1 r ctx a
    let bv ← eval1 r ctx b
    let v ← binop fo r ctx.here op av bv
    pure [v]
  | .un op a => do
    let av ← eval1 r ctx a
    let v ← unop r ctx.here op av
    pure [v]
  | .paren e => do
    let v ← eval1 r ctx e
    pure [v]
  | .table fields => do
    let a ← allocTable Table.empty
    r.fields ctx a 1 fields
    pure [.table a]

def stepExprs (r : Rec) (ctx : Ctx) (es : List Expr) : M (List Val) :=
  match es with
  | [] => pure []
  | [e] => r.exprM ctx e
  | e :: rest => do
    let v ← eval1 r ctx e
    let vs ← r.exprs ctx rest
    pure (v :: vs)

def stepFields (r : Rec) (ctx : Ctx) (addr idx : Nat) (fs : List Field) : M Unit :=
  match fs with
  | [] => pure ()
  | [.pos e] => do
    let vs ← r.exprM ctx e
    let t ← getTable addr
    putTable addr (setSeq t vs idx)
  | .pos e :: rest => do
    let v ← eval1 r ctx e
    let t ← getTable addr
    putTable addr (t.set (intVal idx) v)
    r.fields ctx addr (idx + 1) rest
  | .named k v :: rest => do
    let kv ← eval1 r ctx k
    let vv ← eval1 r ctx v
    rawSetChecked r ctx.here addr kv vv
    r.fields ctx addr idx rest

/-- dynamic context of a tail call: a Lua function replaces the calling activation (so `error(…, 2)` in it refers
    to the caller's caller); anything else is called from the current line as usual -/
def tailDyn (ctx : Ctx) (fv : Val) : Dyn :=
  match fv with
  | .func _ => ctx.dyn
  | _ => ctx.here

def runBlock (r : Rec) (ctx : Ctx) (body : Block) : M Sig :=
  r.stmts ctx body none ctx.env.length 0 0

def stepStmt (r : Rec) (ctx0 : Ctx) (s : Stmt) : M Sig :=
  match s with
  | .assign line targets es =>
    let ctx := { ctx0 with line := line }
    do
      let lvs ← targets.mapM (evalTarget r ctx)
      let vs ← r.exprs ctx es
      (lvs.zip (adjust lvs.length vs)).forM (assignTo r ctx.here)
      pure .normal
  | .callS line e =>
    let ctx := { ctx0 with line := line }
    do
      let _ ← r.exprM ctx e
      pure .normal
  | .do_ body => runBlock r ctx0 body
  | .while_ line c body =>
    let ctx := { ctx0 with line := line }
    do
      let cv ← eval1 r ctx c
      if !cv.truthy then pure .normal else
      let sig ← runBlock r ctx body
      match sig with
      | .normal => r.stmt ctx0 (.while_ line c body)
      | .brk => pure .normal
      | sig => pure sig
  | .repeat_ body line c => do
    let sig ← r.stmts ctx0 body (some (line, c)) ctx0.env.length 0 0
    match sig with
    | .until_ true => pure .normal
    | .until_ false => r.stmt ctx0 (.repeat_ body line c)
    | .brk => pure .normal
    | sig => pure sig
  | .if_ line c thn els =>
    let ctx := { ctx0 with line := line }
    do
      let cv ← eval1 r ctx c
      if cv.truthy then runBlock r ctx thn else runBlock r ctx els
  | .fornum line v e1 e2 e3 body =>
    let ctx := { ctx0 with line := line }
    do
      let v1 ← eval1 r ctx e1
      let v2 ← eval1 r ctx e2
      let v3 ← eval1 r ctx (e3.getD (.int 1#64))
      match forPrep v1 v2 v3 with
      | .err cls => rtError r ctx.here cls
      | .skip => pure .normal
      | .intLoop init step count => r.fornumI ctx v init step count body
      | .fltLoop init limit step => r.fornumF ctx v init limit step body
  | .forin line names es body =>
    let ctx := { ctx0 with line := line }
    do
      let vs ← r.exprs ctx es
      match adjust 4 vs with
      | [f, s, ctl, closing] =>
        if closing ≠ .nil then unsupported "generic for with a closing value"
        else r.forin ctx names f s ctl body
      | _ => unsupported "unreachable"
  | .return_ line es =>
    let ctx := { ctx0 with line := line }
    match es, ctx0.inTbc with
    | [.call f args], false => do
      -- a tail call (§3.4.10): the called Lua function takes the place of this activation
      let fv ← eval1 r ctx f
      let as ← r.exprs ctx args
      let vs ← r.call (tailDyn ctx fv) fv as
      pure (.ret vs)
    | [.method obj name args], false => do
      let ov ← eval1 r ctx obj
      let fv ← r.index ctx.here ov (.str name)
      let as ← r.exprs ctx args
      let vs ← r.call (tailDyn ctx fv) fv (ov :: as)
      pure (.ret vs)
    | _, _ => do
      let vs ← r.exprs ctx es
      pure (.ret vs)
  | .break_ => pure .brk
  | .goto_ l => pure (.goto_ l)
  | .label _ => pure .normal
  | .local_ _ _ _ => r.stmts ctx0 [s] none ctx0.env.length 0 0
  | .localfn _ _ _ => r.stmts ctx0 [s] none ctx0.env.length 0 0

def stepStmts (r : Rec) (ctx : Ctx) (whole : Block) (tail : Option (Nat × Expr))
    (base lo i : Nat) : M Sig :=
  match whole[i]? with
  | none => match tail with
    | none => pure .normal
    | some (line, c) => do
      let cv ← eval1 r { ctx with line := line } c
      pure (.until_ cv.truthy)
  | some (.local_ line names es) => do
    let ctxl := { ctx with line := line }
    let vs ← r.exprs ctxl es
    let vs := adjust names.length vs
    let env ← bindNames (names.map (·.1)) vs ctx.env
    let ctx' := { ctx with env := env }
    match tbcOf names vs with
    | none => r.stmts ctx' whole tail base lo (i + 1)
    | some tv => do
      let h ← metaOf tv "__close"
      if h = .nil then rtError r ctxl.here "noclose" else
      let res ← tryTbc (r.stmts { ctx' with inTbc := true } whole tail base (i + 1) (i + 1))
      match res with
      | .ok sig => do
        closeVal r ctxl.here tv .nil
        pure sig
      | .error (.lua ev handled) => do
        closeVal r ctxl.here tv ev
        throw (.lua ev handled)
      | .error .closing => do
        -- the suspended coroutine this scope belongs to is being closed: as on a normal exit
        closeVal r ctxl.here tv .nil
        throw .closing
  | some (.localfn _ name fb) => do
    let c ← allocCell .nil
    let env := (name, c) :: ctx.env
    let a ← allocClosure ⟨fb, env⟩
    writeCell c (.func a)
    r.stmts { ctx with env := env } whole tail base lo (i + 1)
  | some (.label _) => r.stmts ctx whole tail base lo (i + 1)
  | some s => do
    let sig ← r.stmt ctx s
    match sig with
    | .normal => r.stmts ctx whole tail base lo (i + 1)
    | .goto_ l =>
      match findLabel l whole 0 0 with
      | some (k, d) =>
        if k ≥ lo then
          r.stmts { ctx with env := ctx.env.drop (ctx.env.length - (base + d)) } whole tail base lo (k + 1)
        else pure sig
      | none => pure sig
    | sig => pure sig

def stepCall (r : Rec) (dyn : Dyn) (f : Val) (args : List Val) : M (List Val) :=
  match f with
  | .func a => do
    let c ← getClosure a
    let np := c.body.params.length
    let env ← bindNames c.body.params (adjust np args) c.env
    let ctx : Ctx := { env := env, varargs := if c.body.isVararg then args.drop np else [],
                       line := 0, dyn := dyn }
    let sig ← r.stmts ctx c.body.body none env.length 0 0
    match sig with
    | .ret vs => pure vs
    | .normal => pure []
    | _ => unsupported "break or goto leaving a function body"
  | .builtin b => builtinCall r dyn b args
  | .wrapfn co => do
    -- a wrapped coroutine: resume it; an error inside propagates to the caller
    let res ← resumeCo r co args
    if res.1 then pure res.2 else raise r dyn (res.2.headD .nil)
  | _ => do
    let h ← metaOf f "__call"
    match f with
    | .table _ => if h = .nil then rtError r dyn "call" else r.call dyn h (f :: args)
    | _ => rtError r dyn "call"

def stepIndex (r : Rec) (dyn : Dyn) (v k : Val) : M Val :=
  match v with
  | .table a => do
    let t ← getTable a
    let raw := t.get k.normKey
    if raw ≠ .nil then pure raw else
    let h ← metaOf v "__index"
    match h with
    | .nil => pure .nil
    | .func _ => call1 r dyn h [v, k]
    | .builtin _ => call1 r dyn h [v, k]
    | _ => r.index dyn h k
  | .str _ => r.index dyn (.table stringLibAddr) k
  | _ => rtError r dyn "index"

def stepSetIndex (r : Rec) (dyn : Dyn) (t k v : Val) : M Unit :=
  match t with
  | .table a => do
    let tb ← getTable a
    if tb.get k.normKey ≠ .nil then putTable a (tb.set k.normKey v) else
    let h ← metaOf t "__newindex"
    match h with
    | .nil => rawSetChecked r dyn a k v
    | .func _ => do let _ ← r.call dyn h [t, k, v]; pure ()
    | .builtin _ => do let _ ← r.call dyn h [t, k, v]; pure ()
    | _ => r.setindex dyn h k v
  | _ => rtError r dyn "index"

def stepForin (r : Rec) (ctx : Ctx) (names : List String) (f s ctl : Val) (body : Block) : M Sig := do
  let rs ← r.call ctx.here f [s, ctl]
  let v1 := rs.headD .nil
  if v1 = .nil then pure .normal else
  let env ← bindNames names (adjust names.length rs) ctx.env
  let sig ← r.stmts { ctx with env := env } body none env.length 0 0
  match sig with
  | .normal => r.forin ctx names f s v1 body
  | .brk => pure .normal
  | sig => pure sig

def stepFornumI (r : Rec) (ctx : Ctx) (v : String) (cur step : I64) (count : Nat) (body : Block) : M Sig := do
  let c ← allocCell (.int cur)
  let env := (v, c) :: ctx.env
  let sig ← r.stmts { ctx with env := env } body none env.length 0 0
  match sig with
  | .normal => if count = 0 then pure .normal else r.fornumI ctx v (cur + step) step (count - 1) body
  | .brk => pure .normal
  | sig => pure sig

def stepFornumF (fo : FloatOps) (r : Rec) (ctx : Ctx) (v : String) (cur limit step : F64) (body : Block) : M Sig :=
  if (if F64.blt fzero step then F64.ble cur limit else F64.ble limit cur) then do
    let c ← allocCell (.flt cur)
    let env := (v, c) :: ctx.env
    let sig ← r.stmts { ctx with env := env } body none env.length 0 0
    match sig with
    | .normal => r.fornumF ctx v (fo.add cur step) limit step body
    | .brk => pure .normal
    | sig => pure sig
  else pure .normal

def step (fo : FloatOps) (r : Rec) : Rec where
  exprM := stepExprM fo r
  exprs := stepExprs r
  fields := stepFields r
  stmt := stepStmt r
  stmts := stepStmts r
  call := stepCall r
  index := stepIndex r
  setindex := stepSetIndex r
  forin := stepForin r
  fornumI := stepFornumI r
  fornumF := stepFornumF fo r

/-- no fuel: every judgement is out of fuel -/
def Rec.bot : Rec where
  exprM := fun _ _ => oof
  exprs := fun _ _ => oof
  fields := fun _ _ _ _ => oof
  stmt := fun _ _ => oof
  stmts := fun _ _ _ _ _ _ => oof
  call := fun _ _ _ => oof
  index := fun _ _ _ => oof
  setindex := fun _ _ _ _ => oof
  forin := fun _ _ _ _ _ _ => oof
  fornumI := fun _ _ _ _ _ _ => oof
  fornumF := fun _ _ _ _ _ _ => oof

/-- the evaluator with `n` levels of fuel -/
def evalN (fo : FloatOps) : Nat → Rec
  | 0 => Rec.bot
  | n + 1 => step fo (evalN fo n)

end GoluaVerif.Spec.Lua
