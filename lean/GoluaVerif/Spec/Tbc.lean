/-
  Spec.Tbc — to-be-closed variables (Lua 5.4 manual §3.3.8) on a block-structured
  mini-language, as a big-step semantics that produces the list of observable events.

  "A to-be-closed variable behaves like a constant local variable, except that its
   value is closed whenever the variable goes out of scope, including normal block
   termination, exiting its block by break/goto/return, or exiting by an error.
   … closing a value means calling its __close metamethod … with the value as first
   argument and the error object that caused the exit (if any) as second argument;
   if there was no error, the second argument is nil. … If several to-be-closed
   variables go out of scope at the same event, they are closed in the reverse order
   that they were declared.  If there is any error while running a closing method,
   that error is handled like an error in the regular code where the variable was
   defined.  After an error, the other pending closing methods will still be called."

  The semantics is the canonical one: every block keeps the list of its pending values;
  whatever way control leaves the block (`Exit`), the block closes its own pending values
  (`closeAll`) and passes the (possibly replaced) exit on to the enclosing construct.
-/
namespace GoluaVerif.Spec.Tbc

/-- error objects: user errors are numbered; `notClosable` is the error raised by
    `local x <close> = v` when v has no __close metamethod (and is not nil/false) -/
inductive Err where
  | user (n : Nat)
  | notClosable
  deriving DecidableEq, Repr, Inhabited

/-- the value given to a to-be-closed variable -/
inductive TV where
  | obj (id : Nat)   -- a value with a __close metamethod, identified by `id`
  | nilv             -- nil or false: "ignored"
  | bad              -- any other value without __close: an error at the declaration
  deriving DecidableEq, Repr, Inhabited

/-- behaviour of the __close handlers: `h id errArg` is the error the handler of value `id` raises
    when called with second argument `errArg`, or `none` if it returns normally -/
abbrev Handlers := Nat → Option Err → Option Err

inductive Ev where
  | close (id : Nat) (errArg : Option Err)   -- __close(value id, errArg) was called
  | mark (n : Nat)                           -- the plain statement number n ran
  | caught (r : Option Err)                  -- a pcall returned: `none` = true, `some e` = false, e
  | closed (r : Option Err)                  -- coroutine.close returned: `none` = true, `some e` = false, e
  deriving DecidableEq, Repr, Inhabited

inductive Prog where
  | skip
  | seq (a b : Prog)
  | tbc (v : TV)              -- local x <close> = v
  | mark (n : Nat)            -- a plain statement
  | block (p : Prog)          -- do p end
  | loop (n : Nat) (p : Prog) -- for _ = 1, n do p end
  | brk                       -- break
  | gotoOut (k : Nat)         -- goto L, where ::L:: stands right after the (k+1)-th enclosing block
  | ret                       -- return
  | err (e : Nat)             -- error(e)
  | pcall (p : Prog)          -- pcall(function() p end)
  | call (p : Prog)           -- (function() p end)()
  | retCall (p : Prog)        -- return (function() p end)()   -- a call in tail position
  | yield                     -- coroutine.yield(): the coroutine is suspended here; it is either resumed
                              -- (nothing observable) or closed with coroutine.close (parameter `kill`)
  deriving DecidableEq, Repr, Inhabited

/-- The generic `for … in f, s, ctl, closing do p end` run for `n` iterations: the manual (§3.3.5) says the
    fourth value "behaves like a to-be-closed variable", closed when the loop ends in any way.  So it is the
    block `do local c <close> = closing; <loop n p> end`.  (Seen from inside `p`, a goto index counts this
    implicit block as one more level.) -/
def Prog.forin (v : TV) (n : Nat) (p : Prog) : Prog := .block (.seq (.tbc v) (.loop n p))

/-- how control leaves a piece of code -/
inductive Exit where
  | normal
  | brk
  | goto (k : Nat)   -- k more blocks to leave after the current one
  | ret
  | err (e : Err)
  | kill (e : Option Err)   -- the suspended coroutine is being closed; `e` = error raised by a handler so far
  deriving DecidableEq, Repr, Inhabited

/-- the error object in flight -/
def Exit.errArg : Exit → Option Err
  | .err e => some e
  | .kill e => e
  | _ => none

/-- the exit after the closing handlers ran with final error state `s` -/
def Exit.withErr : Exit → Option Err → Exit
  | .kill _, s => .kill s
  | _, some e => .err e
  | x, none => x

/-- Close the pending values (most recently declared first).  `e` is the error in flight; a handler
    that raises replaces it, and the remaining handlers still run. -/
def closeAll (h : Handlers) : List TV → Option Err → Option Err × List Ev
  | [], e => (e, [])
  | .obj id :: vs, e =>
    let e' := match h id e with
      | some x => some x
      | none => e
    let r := closeAll h vs e'
    (r.1, Ev.close id e :: r.2)
  | _ :: vs, e => closeAll h vs e

/-- what an enclosing plain block makes of the exit of its body -/
def Exit.leaveBlock : Exit → Exit
  | .goto 0 => .normal
  | .goto (k + 1) => .goto k
  | x => x

/-- what a function boundary makes of the exit of the function body
    (break/goto cannot cross it; such programs are not well formed) -/
def Exit.leaveFunction : Exit → Exit
  | .err e => .err e
  | .kill e => .kill e
  | _ => .normal

/-- `return f()`: once the call has come back normally the function returns -/
def Exit.thenReturn : Exit → Exit
  | .normal => .ret
  | x => x

structure Res where
  exit : Exit
  pend : List TV      -- pending values of the current block, most recent first
  log : List Ev
  deriving Repr

/-- leave a block whose body finished with `r`: close the block's pending values -/
def closeBlock (h : Handlers) (r : Res) : Exit × List Ev :=
  let c := closeAll h r.pend r.exit.errArg
  (r.exit.withErr c.1, r.log ++ c.2)

/-- `n` iterations of a loop whose body (a block) produces `body` each time -/
def loopIter (body : Exit × List Ev) : Nat → Exit × List Ev
  | 0 => (.normal, [])
  | n + 1 =>
    match body.1 with
    | .normal =>
      let r := loopIter body n
      (r.1, body.2 ++ r.2)
    | .brk => (.normal, body.2)
    | x => (x.leaveBlock, body.2)

/-- big-step semantics; `pend` = pending values of the current block; `kill` = the coroutine is closed
    at the first `yield` it reaches (otherwise it is resumed at once) -/
def exec (h : Handlers) (kill : Bool) : Prog → List TV → Res
  | .skip, pend => ⟨.normal, pend, []⟩
  | .seq a b, pend =>
    let ra := exec h kill a pend
    match ra.exit with
    | .normal =>
      let rb := exec h kill b ra.pend
      ⟨rb.exit, rb.pend, ra.log ++ rb.log⟩
    | _ => ra
  | .tbc .bad, pend => ⟨.err .notClosable, pend, []⟩
  | .tbc v, pend => ⟨.normal, v :: pend, []⟩
  | .mark n, pend => ⟨.normal, pend, [.mark n]⟩
  | .block p, pend =>
    let c := closeBlock h (exec h kill p [])
    ⟨c.1.leaveBlock, pend, c.2⟩
  | .loop n p, pend =>
    let c := loopIter (closeBlock h (exec h kill p [])) n
    ⟨c.1, pend, c.2⟩
  | .brk, pend => ⟨.brk, pend, []⟩
  | .gotoOut k, pend => ⟨.goto k, pend, []⟩
  | .ret, pend => ⟨.ret, pend, []⟩
  | .err e, pend => ⟨.err (.user e), pend, []⟩
  | .pcall p, pend =>
    let c := closeBlock h (exec h kill p [])
    match c.1 with
    | .kill e => ⟨.kill e, pend, c.2⟩         -- closing a coroutine is not an error pcall could catch
    | x => ⟨.normal, pend, c.2 ++ [.caught x.errArg]⟩
  | .call p, pend =>
    let c := closeBlock h (exec h kill p [])
    ⟨c.1.leaveFunction, pend, c.2⟩
  | .retCall p, pend =>
    -- "a pending close disables the tail call so the handler runs after the called function returns":
    -- the call completes first, only then does the `return` close the pending values of this function
    let c := closeBlock h (exec h kill p [])
    ⟨c.1.leaveFunction.thenReturn, pend, c.2⟩
  | .yield, pend => ⟨if kill then .kill none else .normal, pend, []⟩

/-- the events of running the chunk `p` under pcall -/
def run (h : Handlers) (p : Prog) : List Ev := (exec h false (.pcall p) []).log

/-- the events of running `p` as the body of a coroutine that is resumed once and, if it is then
    suspended, closed with coroutine.close -/
def runCo (h : Handlers) (p : Prog) : List Ev :=
  let c := closeBlock h (exec h true p [])
  match c.1 with
  | .kill e => c.2 ++ [.closed e]
  | x => c.2 ++ [.caught x.errArg]

/-- well-formedness: `break` only inside a loop, `goto` only to a label of an enclosing block of the
    same function.  `depth` = number of enclosing blocks in the current function, `inLoop` = one of
    them is a loop body. -/
def wf : Prog → (depth : Nat) → (inLoop : Bool) → Bool
  | .skip, _, _ => true
  | .seq a b, d, l => wf a d l && wf b d l
  | .tbc _, _, _ => true
  | .mark _, _, _ => true
  | .block p, d, l => wf p (d + 1) l
  | .loop _ p, d, _ => wf p (d + 1) true
  | .brk, _, l => l
  | .gotoOut k, d, _ => decide (k < d)
  | .ret, _, _ => true
  | .err _, _, _ => true
  | .pcall p, _, _ => wf p 0 false
  | .call p, _, _ => wf p 0 false
  | .retCall p, _, _ => wf p 0 false
  | .yield, _, _ => true

/-- no `coroutine.yield()` anywhere in the program -/
def noYield : Prog → Bool
  | .yield => false
  | .seq a b => noYield a && noYield b
  | .block p => noYield p
  | .loop _ p => noYield p
  | .pcall p => noYield p
  | .call p => noYield p
  | .retCall p => noYield p
  | _ => true

end GoluaVerif.Spec.Tbc
