/-
  Spec.Lua — the executable reference semantics of Lua 5.4 (minus coroutines, OS, IO):
  initial store with the library, and `run`.
-/
import GoluaVerif.Spec.Lua.Eval
namespace GoluaVerif.Spec.Lua
open GoluaVerif GoluaVerif.Spec

def mkLib (l : List (String × Val)) : Table :=
  ⟨l.map (fun p => (Val.ofString p.1, p.2)), none⟩

def mathLibAddr : Nat := 2
def tableLibAddr : Nat := 3
def coLibAddr : Nat := 4

def globalsTable : Table := mkLib [
  ("emit", .builtin .emit), ("args", .builtin .args),
  ("error", .builtin .error), ("pcall", .builtin .pcall), ("xpcall", .builtin .xpcall),
  ("assert", .builtin .assert), ("select", .builtin .select), ("type", .builtin .type),
  ("rawget", .builtin .rawget), ("rawset", .builtin .rawset), ("rawequal", .builtin .rawequal),
  ("rawlen", .builtin .rawlen), ("setmetatable", .builtin .setmetatable),
  ("getmetatable", .builtin .getmetatable), ("next", .builtin .next), ("pairs", .builtin .pairs),
  ("ipairs", .builtin .ipairs), ("tostring", .builtin .tostring), ("tonumber", .builtin .tonumber),
  ("string", .table stringLibAddr), ("math", .table mathLibAddr), ("table", .table tableLibAddr),
  ("coroutine", .table coLibAddr)]

def stringLib : Table := mkLib [
  ("len", .builtin .strLen), ("sub", .builtin .strSub), ("rep", .builtin .strRep),
  ("byte", .builtin .strByte), ("char", .builtin .strChar), ("upper", .builtin .strUpper),
  ("lower", .builtin .strLower), ("reverse", .builtin .strReverse)]

def mathLib : Table := mkLib [
  ("type", .builtin .mathType), ("tointeger", .builtin .mathTointeger), ("floor", .builtin .mathFloor),
  ("abs", .builtin .mathAbs), ("max", .builtin .mathMax), ("min", .builtin .mathMin),
  ("maxinteger", .int I64.maxInt), ("mininteger", .int I64.minInt), ("huge", .flt (.inf false))]

def tableLib : Table := mkLib [
  ("unpack", .builtin .tblUnpack), ("pack", .builtin .tblPack), ("insert", .builtin .tblInsert),
  ("remove", .builtin .tblRemove), ("concat", .builtin .tblConcat)]

def coLib : Table := mkLib [
  ("create", .builtin .coCreate), ("resume", .builtin .coResume), ("yield", .builtin .coYield),
  ("wrap", .builtin .coWrap), ("status", .builtin .coStatus), ("close", .builtin .coClose),
  ("isyieldable", .builtin .coIsyieldable), ("running", .builtin .coRunning)]

def initStore (input : List Val) : Store where
  cells := #[]
  tables := #[globalsTable, stringLib, mathLib, tableLib, coLib]
  closures := #[]
  trace := #[]
  input := input

inductive Outcome where
  | outOfFuel
  /-- the chunk returned -/
  | done (rets : List Val) (final : Store)
  /-- an error value reached the embedding caller -/
  | error (v : Val) (final : Store)
  | unsupported (what : String)
  deriving Inhabited

def topCtx : Ctx := { env := [], varargs := [], line := 0, dyn := ⟨[], none⟩ }

/-- run a chunk (a vararg function called with no arguments) with `fuel` levels of fuel -/
def run (fo : FloatOps) (fuel : Nat) (prog : Block) (input : List Val) : Outcome :=
  match ((evalN fo fuel).stmts topCtx prog none 0 0 0).run (initStore input) with
  | none => .outOfFuel
  | some (.ok (.ret vs), s) => .done vs s
  | some (.ok _, s) => .done [] s
  | some (.error (.lua v _), s) => .error v s
  | some (.error (.unsupported w), _) => .unsupported w
  | some (.error (.yield _), _) => .unsupported "yield reached the top level (internal)"
  | some (.error .closing, _) => .unsupported "closing signal reached the top level (internal)"

end GoluaVerif.Spec.Lua
