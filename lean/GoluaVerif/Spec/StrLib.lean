/-
  Spec.StrLib — the non-pattern functions of the Lua 5.4 string library
  (manual §6.4: sub, byte, char, rep, reverse, upper, lower, len, plain find)
  as total executable definitions on byte strings (`List UInt8`).

  Positions are `Int` (every `lua_Integer` is one; the laws in Props/C19 are
  proved for all integers, hence for mininteger/maxinteger).  The position
  arithmetic is the reference implementation's (lstrlib.c `posrelatI`,
  `getendpos`): it never adds to a caller-supplied position before having
  compared it with the length, which is what makes it overflow-free in C.
  Core Lean only.
-/
namespace GoluaVerif.Spec.StrLib

abbrev Bytes := List UInt8

/-- lstrlib.c `posrelatI`: start position, clipped to `[1, ∞)`.
    `pos > 0 ↦ pos`, `0 ↦ 1`, `pos < -len ↦ 1`, otherwise `len + pos + 1`. -/
def posrelatI (pos : Int) (len : Nat) : Nat :=
  if pos > 0 then pos.toNat
  else if pos = 0 then 1
  else if pos < -(len : Int) then 1
  else ((len : Int) + pos + 1).toNat

/-- lstrlib.c `getendpos`: end position, clipped to `[0, len]`. -/
def getendpos (pos : Int) (len : Nat) : Nat :=
  if pos > (len : Int) then len
  else if pos ≥ 0 then pos.toNat
  else if pos < -(len : Int) then 0
  else ((len : Int) + pos + 1).toNat

/-- bytes `st..en` (1-based, inclusive); empty when `st > en`. -/
def slice (s : Bytes) (st en : Nat) : Bytes :=
  if st > en then [] else (s.drop (st - 1)).take (en - st + 1)

/-- `string.sub(s, i, j)`; the default for `j` is `-1`. -/
def sub (s : Bytes) (i : Int) (j : Int := -1) : Bytes :=
  slice s (posrelatI i s.length) (getendpos j s.length)

/-- `string.byte(s, i, j)`: the codes of `s[i..j]`; defaults `i = 1`, `j = i`
    (the *unnormalised* `i`, as in `str_byte`). -/
def byte (s : Bytes) (i : Int := 1) (j : Option Int := none) : List Nat :=
  (slice s (posrelatI i s.length) (getendpos (j.getD i) s.length)).map UInt8.toNat

/-- `string.char(...)`: `none` when some argument is outside `0..255`. -/
def char (cs : List Int) : Option Bytes :=
  if cs.all (fun c => decide (0 ≤ c ∧ c ≤ 255)) then some (cs.map fun c => UInt8.ofNat c.toNat) else none

def repNat (s sep : Bytes) : Nat → Bytes
  | 0 => []
  | 1 => s
  | k + 2 => s ++ sep ++ repNat s sep (k + 1)

/-- `string.rep(s, n, sep)` as a total function (no size limit). -/
def rep (s : Bytes) (n : Int) (sep : Bytes := []) : Bytes :=
  if n ≤ 0 then [] else repNat s sep n.toNat

/-- lstrlib.c `MAXSIZE` on a 64-bit platform -/
def maxSize : Nat := 2 ^ 63 - 1

/-- lstrlib.c `str_rep`'s "resulting string too large" test (`l + lsep > MAXSIZE / n`) -/
def repTooLarge (l lsep : Nat) (n : Int) : Bool :=
  decide (n > 0 ∧ l + lsep > maxSize / n.toNat)

def reverse (s : Bytes) : Bytes := s.reverse
def len (s : Bytes) : Nat := s.length

/-- C-locale `toupper` on one byte -/
def upByte (b : UInt8) : UInt8 := if 97 ≤ b ∧ b ≤ 122 then b - 32 else b
/-- C-locale `tolower` on one byte -/
def loByte (b : UInt8) : UInt8 := if 65 ≤ b ∧ b ≤ 90 then b + 32 else b

def upper (s : Bytes) : Bytes := s.map upByte
def lower (s : Bytes) : Bytes := s.map loByte

/-- first offset `≥ off` at which `p` occurs, scanning the remaining subject `s`
    (`off` = number of bytes already skipped) — lstrlib.c `lmemfind`. -/
def search (p : Bytes) : Bytes → Nat → Option Nat
  | [], off => if p.isEmpty then some off else none
  | c :: cs, off => if p.isPrefixOf (c :: cs) then some off else search p cs (off + 1)

/-- `string.find(s, p, init, true)`: 1-based start and end of the first occurrence of
    `p` at or after `init`, relative to the WHOLE string; `none` = fail (nil). -/
def findPlain (s p : Bytes) (init : Int := 1) : Option (Nat × Nat) :=
  let k := posrelatI init s.length - 1
  if k > s.length then none
  else (search p (s.drop k) k).map fun o => (o + 1, o + p.length)

end GoluaVerif.Spec.StrLib
