/-
  Spec.TabLib — the Lua 5.4 table library (manual §6.6: insert, remove, move,
  concat, unpack, pack, sort) as total executable definitions.

  "All functions in the table library respect metamethods": every access to
  the table goes through an abstract `Store` (`get` = `lua_geti`, `set` =
  `lua_seti`, both may raise), and the length is the value `#t` obtained once
  at the start of the call (ltablib.c `aux_getn`), passed as `n`.  Position
  arithmetic follows ltablib.c; positions are `Int`, `lua_Integer` wrap-around
  is explicit (`wrap64`, `toU`) exactly where the C code relies on it.
  `sort` is a relation (`SortSpec`), not a function.  Core Lean only.
-/
import GoluaVerif.Spec.StrLib
import GoluaVerif.Spec.Num
namespace GoluaVerif.Spec.TabLib
open GoluaVerif.Spec.StrLib (Bytes)

/-- Lua values as far as the table library distinguishes them -/
inductive Val where
  | nil
  | bool (b : Bool)
  | int (i : Int)
  | flt (bits : BitVec 64)     -- a float, by its IEEE bit pattern
  | str (s : Bytes)
  | other (tag : Nat)
  deriving DecidableEq, Repr, Inhabited

/-- error classes -/
inductive Err where
  | arg      -- raised by the library function (bad position, invalid value for concat, …)
  | handler  -- raised by an `__index` / `__newindex` handler
  | limit    -- "too many results to unpack"
  deriving DecidableEq, Repr, Inhabited

/-- what `lua_geti` / `lua_seti` do on a table-like value with state `σ` -/
structure Store (σ : Type) where
  get : σ → Int → Except Err Val
  set : σ → Int → Val → Except Err σ

def maxInt : Int := 2 ^ 63 - 1
def minInt : Int := -(2 ^ 63)
/-- `lua_Integer` wrap-around (`luaL_intop`) -/
def wrap64 (x : Int) : Int := Int.bmod x (2 ^ 64)
/-- the cast `(lua_Unsigned)x` -/
def toU (x : Int) : Int := x % (2 ^ 64)
/-- C `INT_MAX` -/
def intMaxC : Int := 2 ^ 31 - 1

/-! ### insert -/

/-- `for (i = pos+k; i > pos; i--) t[i] = t[i-1]` -/
def shiftUp (S : Store σ) (pos : Int) : Nat → σ → Except Err σ
  | 0, st => pure st
  | k + 1, st => do
    let v ← S.get st (pos + k)
    let st ← S.set st (pos + k + 1) v
    shiftUp S pos k st

/-- `table.insert(t, [pos,] v)` with `n = #t`.  (The arity rule — exactly 2 or 3
    arguments, anything else is an error — lives in the call layer.) -/
def insert (S : Store σ) (st : σ) (n : Int) (pos : Option Int) (v : Val) : Except Err σ :=
  let e := wrap64 (n + 1)
  match pos with
  | none => S.set st e v
  | some pos =>
    if toU (pos - 1) < toU e then do
      let st ← shiftUp S pos (e - pos).toNat st
      S.set st pos v
    else throw .arg

/-! ### remove -/

/-- `for ( ; pos < size; pos++) t[pos] = t[pos+1]` -/
def shiftDown (S : Store σ) (pos : Int) : Nat → σ → Except Err σ
  | 0, st => pure st
  | k + 1, st => do
    let v ← S.get st (pos + 1)
    let st ← S.set st pos v
    shiftDown S (pos + 1) k st

/-- `table.remove(t [, pos])` with `n = #t`: the removed value and the new state -/
def remove (S : Store σ) (st : σ) (n : Int) (pos : Option Int) : Except Err (Val × σ) :=
  let pos := pos.getD n
  if pos ≠ n ∧ ¬ (toU (pos - 1) ≤ toU n) then throw .arg
  else do
    let r ← S.get st pos
    let cnt := (n - pos).toNat
    let st ← shiftDown S pos cnt st
    let st ← S.set st (pos + cnt) .nil
    pure (r, st)

/-! ### move -/

/-- `for (i = 0; i < n; i++) a[t+i] = a[f+i]` within one table -/
def copyUp (S : Store σ) (f t : Int) : Nat → σ → Except Err σ
  | 0, st => pure st
  | k + 1, st => do
    let v ← S.get st f
    let st ← S.set st t v
    copyUp S (f + 1) (t + 1) k st

/-- `for (i = n-1; i >= 0; i--) a[t+i] = a[f+i]` within one table -/
def copyDown (S : Store σ) (f t : Int) : Nat → σ → Except Err σ
  | 0, st => pure st
  | k + 1, st => do
    let v ← S.get st (f + k)
    let st ← S.set st (t + k) v
    copyDown S f t k st

/-- copy between two different tables (the source does not change) -/
def copyUp2 (S1 : Store σ₁) (S2 : Store σ₂) (src : σ₁) (f t : Int) : Nat → σ₂ → Except Err σ₂
  | 0, dst => pure dst
  | k + 1, dst => do
    let v ← S1.get src f
    let dst ← S2.set dst t v
    copyUp2 S1 S2 src (f + 1) (t + 1) k dst

/-- ltablib.c `tmove` argument checks: `none` = nothing to move, `some (ascending, count)` -/
def movePlan (f e t : Int) (same : Bool) : Except Err (Option (Bool × Nat)) :=
  if e ≥ f then
    if ¬ (f > 0 ∨ e < maxInt + f) then throw .arg        -- "too many elements to move"
    else
      let n := e - f + 1
      if ¬ (t ≤ maxInt - n + 1) then throw .arg          -- "destination wrap around"
      else pure (some (decide (t > e ∨ t ≤ f ∨ same = false), n.toNat))
  else pure none

/-- `table.move(a, f, e, t)` (same table) -/
def move (S : Store σ) (st : σ) (f e t : Int) : Except Err σ := do
  match ← movePlan f e t true with
  | none => pure st
  | some (true, n) => copyUp S f t n st
  | some (false, n) => copyDown S f t n st

/-- `table.move(a1, f, e, t, a2)` with `a2` a different table: new state of `a2` -/
def move2 (S1 : Store σ₁) (S2 : Store σ₂) (src : σ₁) (dst : σ₂) (f e t : Int) : Except Err σ₂ := do
  match ← movePlan f e t false with
  | none => pure dst
  | some (_, n) => copyUp2 S1 S2 src f t n dst

/-! ### concat -/

def intBytes (i : Int) : Bytes := (toString i).toUTF8.toList

/-- `lua_isstring`: strings and numbers (only integers are modelled: the float format is unspecified) -/
def fieldBytes : Val → Option Bytes
  | .str s => some s
  | .int i => some (intBytes i)
  | _ => none

def addfield (S : Store σ) (st : σ) (i : Int) : Except Err Bytes := do
  match fieldBytes (← S.get st i) with
  | some b => pure b
  | none => throw .arg

/-- fields `i .. i+k` separated by `sep` -/
def concatFrom (S : Store σ) (st : σ) (sep : Bytes) (i : Int) : Nat → Except Err Bytes
  | 0 => addfield S st i
  | k + 1 => do
    let b ← addfield S st i
    let r ← concatFrom S st sep (i + 1) k
    pure (b ++ sep ++ r)

/-- `table.concat(t, sep, i, j)` -/
def concat (S : Store σ) (st : σ) (sep : Bytes) (i j : Int) : Except Err Bytes :=
  if i > j then pure [] else concatFrom S st sep i (j - i).toNat

/-! ### unpack, pack -/

def getRange (S : Store σ) (st : σ) (i : Int) : Nat → Except Err (List Val)
  | 0 => pure []
  | k + 1 => do
    let v ← S.get st i
    let r ← getRange S st (i + 1) k
    pure (v :: r)

/-- `table.unpack(t, i, e)`; ltablib.c refuses `e - i ≥ INT_MAX` ("too many results"), and may refuse
    less when the stack cannot grow — the call layer treats the range in between as open. -/
def unpack (S : Store σ) (st : σ) (i e : Int) : Except Err (List Val) :=
  if i > e then pure []
  else if e - i ≥ intMaxC then throw .limit
  else getRange S st i (e - i + 1).toNat

/-- the table built by `table.pack(...)`: field `n` and the positional fields -/
structure Packed where
  n : Int
  items : List Val

def pack (vs : List Val) : Packed := { n := vs.length, items := vs }

def Packed.get (p : Packed) (k : Int) : Val :=
  if 1 ≤ k then p.items.getD (k - 1).toNat .nil else .nil

/-! ### sort: a relation -/

/-- ordered by `lt`: no later element is strictly less than an earlier one -/
def Sorted (lt : α → α → Bool) (l : List α) : Prop :=
  l.Pairwise (fun a b => lt b a = false)

/-- `lt` is a strict weak order on the elements of `l` (irreflexive, transitive, negatively transitive) -/
structure SWOOn (lt : α → α → Bool) (l : List α) : Prop where
  irrefl : ∀ a ∈ l, lt a a = false
  trans : ∀ a ∈ l, ∀ b ∈ l, ∀ c ∈ l, lt a b = true → lt b c = true → lt a c = true
  negtrans : ∀ a ∈ l, ∀ b ∈ l, ∀ c ∈ l, lt a b = false → lt b c = false → lt a c = false

/-- what `table.sort` must achieve: always a permutation; ordered when the comparison is a
    strict weak order on the elements -/
def SortSpec (lt : α → α → Bool) (before after : List α) : Prop :=
  after.Perm before ∧ (SWOOn lt before → Sorted lt after)

/-- decidable permutation check used by the oracle -/
def isPerm [BEq α] : List α → List α → Bool
  | [], b => b.isEmpty
  | a :: as, b => b.contains a && isPerm as (b.erase a)

/-- decidable ordered-ness check used by the oracle: adjacent pairs only -/
def isSortedAdj (lt : α → α → Bool) : List α → Bool
  | [] => true
  | [_] => true
  | a :: b :: r => !lt b a && isSortedAdj lt (b :: r)

/-- decidable strict-weak-order check on the elements of `l` (brute force) -/
def isSWOOn (lt : α → α → Bool) (l : List α) : Bool :=
  l.all (fun a => !lt a a) &&
  l.all (fun a => l.all fun b => l.all fun c => !(lt a b && lt b c) || lt a c) &&
  l.all (fun a => l.all fun b => l.all fun c => (lt a b || lt b c) || !lt a c)

/-! ### Lua's order on values (manual §3.4.4): numbers by mathematical value (integers and floats
     compared exactly, `Spec.Num`), strings bytewise (C locale), anything else raises -/

def Val.num? : Val → Option Num
  | .int i => some (.int (BitVec.ofInt 64 i))
  | .flt b => some (.flt (F64.decode b))
  | _ => none

/-- bytewise lexicographic `<` (a proper prefix is smaller; `strcoll` in the C locale with embedded zeros) -/
def bytesLt : Bytes → Bytes → Bool
  | [], [] => false
  | [], _ :: _ => true
  | _ :: _, [] => false
  | a :: as, b :: bs => if a < b then true else if b < a then false else bytesLt as bs

/-- `a < b`; `none` = "attempt to compare …" -/
def luaLt (a b : Val) : Option Bool :=
  match a.num?, b.num? with
  | some x, some y => some (Num.lt x y)
  | _, _ => match a, b with
    | .str s, .str t => some (bytesLt s t)
    | _, _ => none

/-- Lua's `<` as a total Boolean function (a raising comparison counted as `false`) -/
def ltD (a b : Val) : Bool := (luaLt a b).getD false

/-- `a <= b` -/
def luaLe (a b : Val) : Option Bool :=
  match a.num?, b.num? with
  | some x, some y => some (Num.le x y)
  | _, _ => match a, b with
    | .str s, .str t => some (!bytesLt t s)
    | _, _ => none

/-- `a == b` (never raises; 1 == 1.0) -/
def luaEq (a b : Val) : Bool :=
  match a.num?, b.num? with
  | some x, some y => Num.eq x y
  | _, _ => a == b

/-- the comparison functions of the harness on arbitrary values: `lt gt le ge ne true false` are Lua's
    operators; `mod3` and `abs` are defined on integers only -/
def namedCmp (name : String) : Option (Val → Val → Option Bool) :=
  match name with
  | "lt" => some luaLt
  | "gt" => some fun a b => luaLt b a
  | "le" => some luaLe
  | "ge" => some fun a b => luaLe b a
  | "ne" => some fun a b => some (!luaEq a b)
  | "true" => some fun _ _ => some true
  | "false" => some fun _ _ => some false
  | "mod3" => some fun a b => match a, b with
    | .int x, .int y => some (decide (x % 3 < y % 3))
    | _, _ => none
  | "abs" => some fun a b => match a, b with
    | .int x, .int y => some (decide (x.natAbs < y.natAbs))
    | _, _ => none
  | _ => none

/-- the comparison functions the correspondence harness passes to `table.sort`, by name -/
def namedLt (name : String) : Option (Int → Int → Bool) :=
  match name with
  | "lt" => some fun a b => decide (a < b)
  | "gt" => some fun a b => decide (a > b)
  | "le" => some fun a b => decide (a ≤ b)
  | "ge" => some fun a b => decide (a ≥ b)
  | "ne" => some fun a b => a != b
  | "true" => some fun _ _ => true
  | "false" => some fun _ _ => false
  | "mod3" => some fun a b => decide (a % 3 < b % 3)
  | "abs" => some fun a b => decide (a.natAbs < b.natAbs)
  | _ => none

/-- those of them that are strict weak orders on every list of integers (Props.C19.named_comparisons_swo) -/
def provedSWO (name : String) : Bool :=
  name == "lt" || name == "gt" || name == "mod3" || name == "abs" || name == "false"

/-! A swap-only sorter as an interaction tree: it may stop, swap two positions, or ask the
    comparison about two positions and continue according to the answer (`none` = the comparison
    raised an error, which aborts the sort). -/
inductive Sorter where
  | done
  | swap (i j : Nat) (k : Sorter)
  | less (i j : Nat) (k : Bool → Sorter)

def swapList (l : List α) (i j : Nat) : List α :=
  match l[i]?, l[j]? with
  | some x, some y => (l.set i y).set j x
  | _, _ => l

/-- run a sorter against an arbitrary sequence of comparison outcomes (not even a function of
    the compared elements): `answers n` is the outcome of the n-th call -/
def Sorter.run : Sorter → (Nat → Option Bool) → Nat → List α → List α
  | .done, _, _, l => l
  | .swap i j k, ans, n, l => k.run ans n (swapList l i j)
  | .less _ _ k, ans, n, l =>
    match ans n with
    | some b => (k b).run ans (n + 1) l
    | none => l

/-- what golua's `sortf` passes to `sort.Sort` as `Swap(i, j)` (0-based): two reads, two writes -/
def storeSwap (S : Store σ) (st : σ) (i j : Int) : Except Err σ := do
  let x ← S.get st (i + 1)
  let y ← S.get st (j + 1)
  let st ← S.set st (i + 1) y
  S.set st (j + 1) x

/-- every position a sorter names is a valid 0-based index of an `n`-element sequence (what Go's
    `sort.Sort` guarantees for the calls it makes to `Less` and `Swap`) -/
def Sorter.InRange (n : Nat) : Sorter → Prop
  | .done => True
  | .swap i j k => i < n ∧ j < n ∧ Sorter.InRange n k
  | .less i j k => i < n ∧ j < n ∧ ∀ b, Sorter.InRange n (k b)

/-- the sorter run against a table: swaps go through get/set (`storeSwap`), a raising comparison aborts
    and leaves the table as it is at that moment -/
def Sorter.runStore (S : Store σ) : Sorter → (Nat → Option Bool) → Nat → σ → Except Err σ
  | .done, _, _, st => pure st
  | .swap i j k, ans, c, st => do
    let st ← storeSwap S st i j
    Sorter.runStore S k ans c st
  | .less _ _ k, ans, c, st =>
    match ans c with
    | some b => Sorter.runStore S (k b) ans (c + 1) st
    | none => pure st

/-! ### stores -/

/-- the plain mathematical store: a total function, never fails -/
def fstore : Store (Int → Val) where
  get st k := pure (st k)
  set st k v := pure (fun k' => if k' = k then v else st k')

/-- `S` behaves like a plain table seen through `view` -/
structure LawfulView (S : Store σ) (view : σ → Int → Val) : Prop where
  get_eq : ∀ st k, S.get st k = .ok (view st k)
  set_eq : ∀ st k v, ∃ st', S.set st k v = .ok st' ∧ ∀ k', view st' k' = if k' = k then v else view st k'

/-- finite maps for the executable table model (absent = nil) -/
abbrev Map := List (Int × Val)

def Map.get (m : Map) (k : Int) : Val := (m.lookup k).getD .nil

def Map.set (m : Map) (k : Int) (v : Val) : Map :=
  let m' := m.filter (fun p => p.1 != k)
  if v = .nil then m' else (k, v) :: m'

/-- `n` is a border of `m` (manual §3.4.7) -/
def Map.isBorder (m : Map) (n : Int) : Bool :=
  decide (0 ≤ n) && (n == 0 || m.get n != .nil) && m.get (n + 1) == .nil

inductive Handler where
  | none   -- no metamethod
  | back   -- a handler (function or table) that reads / writes the backing table
  | err    -- a handler that raises
  deriving DecidableEq, Repr

/-- a table with optional `__index` / `__newindex`: its own (raw) content, the backing table the
    handlers use, and what the two handlers do -/
structure MTab where
  own : Map
  back : Map
  idx : Handler
  nidx : Handler

/-- `lua_geti`: raw content first, `__index` only for an absent key -/
def MTab.get (t : MTab) (k : Int) : Except Err Val :=
  if t.own.get k ≠ .nil then pure (t.own.get k)
  else match t.idx with
    | .none => pure .nil
    | .back => pure (t.back.get k)
    | .err => throw .handler

/-- `lua_seti`: `__newindex` only when the key is absent from the raw content -/
def MTab.set (t : MTab) (k : Int) (v : Val) : Except Err MTab :=
  if t.own.get k ≠ .nil then pure { t with own := t.own.set k v }
  else match t.nidx with
    | .none => pure { t with own := t.own.set k v }
    | .back => pure { t with back := t.back.set k v }
    | .err => throw .handler

def mstore : Store MTab := ⟨MTab.get, MTab.set⟩

/-- the values at positions `1..n` as seen through `get` (`none` if a handler raises) -/
def visible (S : Store σ) (st : σ) (n : Nat) : Option (List Val) :=
  match getRange S st 1 n with
  | .ok l => some l
  | .error _ => none

end GoluaVerif.Spec.TabLib
