/-
  Spec.Map — what the Lua 5.4 manual (§2.1, §3.4.7, §6.1 `next`) and property C03
  say about tables, as plain definitions:

  * a table is a finite map from *normalised* keys to non-nil values; nil and NaN
    are not keys; a float key with an exact integer value denotes the integer key;
  * `t[k]` is the value most recently assigned to a key equal to `k`, else nil;
    assigning nil removes the key;
  * `#t` is a border;
  * a `next` traversal during which only existing fields are assigned or cleared
    visits every key that stays present exactly once and never an absent key.

  Values are opaque tokens (`Val = Nat`); nil is `none`.  Core Lean only.
-/
import GoluaVerif.Spec.Num
namespace GoluaVerif.Spec

/-- a Lua value in key position, before normalisation -/
inductive RawKey where
  | nil
  | bool (b : Bool)
  | num (x : Num)
  | str (s : List UInt8)
  /-- tables, functions, userdata…: compared by identity (`id` = equivalence class of `==`) -/
  | ref (id : Nat)
  deriving DecidableEq, Repr, Inhabited

/-- a normalised table key -/
inductive Key where
  | int (z : Int)
  | flt (f : F64)
  | str (s : List UInt8)
  | bool (b : Bool)
  | ref (id : Nat)
  deriving DecidableEq, Repr, Inhabited

/-- `ToIntNoString` on a key: the integer a key denotes, if any
    ("a float converts to an integer iff it has an exact integer value in range") -/
def Key.toInt? : Key → Option Int
  | .int z => some z
  | .flt f => (Num.floatToInt? f).map (·.toInt)
  | _ => none

/-- key normalisation: a float key with an exact integer value denotes the integer key -/
def Key.norm (k : Key) : Key :=
  match k.toInt? with
  | some z => .int z
  | none => k

/-- a number as a (not yet normalised) key -/
def Key.ofNumRaw : Num → Key
  | .int n => .int n.toInt
  | .flt f => .flt f

/-- key normalisation on numbers: `Num.normKey`, integers taken as mathematical integers -/
def Key.ofNum (x : Num) : Key := (Key.ofNumRaw x).norm

/-- the value as a key before normalisation; `none`: it cannot be a key (nil, NaN) -/
def RawKey.toKey? : RawKey → Option Key
  | .nil => none
  | .bool b => some (.bool b)
  | .num x => if x.isNaN then none else some (Key.ofNumRaw x)
  | .str s => some (.str s)
  | .ref id => some (.ref id)

/-- the normalised key a value denotes; `none`: it cannot be a key (nil, NaN) -/
def RawKey.norm (r : RawKey) : Option Key := r.toKey?.map Key.norm

/-- Lua `==` on values in key position (primitive equality, no metamethods) -/
def RawKey.eq : RawKey → RawKey → Bool
  | .nil, .nil => true
  | .bool a, .bool b => a == b
  | .num a, .num b => Num.eq a b
  | .str a, .str b => a == b
  | .ref a, .ref b => a == b
  | _, _ => false

/-- non-nil values are opaque tokens.  `false`, `0`, `-0.0`, `""` and NaN are values like any other
    (distinct tokens); only nil is "no value": a lookup answers `Option Val`, so "absent" (`none`) can
    never be confused with a present field that holds `false`. -/
abbrev Val := Nat

/-- the abstract table -/
abbrev Map := Key → Option Val

namespace Map

def empty : Map := fun _ => none

/-- `t[k] = v` (`v = none` is assignment of nil) -/
def update (m : Map) (k : Key) (v : Option Val) : Map := fun k' => if k' = k then v else m k'

/-- `t[k] = v` only when `t[k]` is non-nil (the model of `Table.Reset`) -/
def reset (m : Map) (k : Key) (v : Option Val) : Map × Bool :=
  if (m k).isSome then (m.update k v, true) else (m, false)

@[simp] theorem update_same (m : Map) (k : Key) (v : Option Val) : m.update k v k = v := by
  simp [update]

@[simp] theorem update_other (m : Map) (k k' : Key) (v : Option Val) (h : k' ≠ k) :
    m.update k v k' = m k' := by
  simp [update, h]

/-- `n` is a border: `(n = 0 or t[n] ~= nil) and t[n+1] == nil` -/
def isBorder (m : Map) (n : Nat) : Prop :=
  (n = 0 ∨ (m (.int n)).isSome) ∧ m (.int ((n : Int) + 1)) = none

instance (m : Map) (n : Nat) : Decidable (isBorder m n) := by
  unfold isBorder; exact inferInstance

end Map

/-! ### traversal

  One step of a `next`-driven traversal is `visit k v` (the call returned the pair),
  followed by any number of user updates that touch existing fields only.  The record
  of a whole traversal is checked by `Traversal.valid`. -/

/-- what a call of `next` can answer -/
inductive NextRes where
  /-- "invalid key to 'next'" -/
  | invalid
  /-- end of traversal (`nil`) -/
  | done
  | item (k : Key) (v : Val)
  deriving DecidableEq, Repr, Inhabited

end GoluaVerif.Spec
