/-
  Spec.Num — what the Lua 5.4 manual (§3.4.1–3.4.4, §6.7) prescribes for the
  integer / comparison / conversion part of number semantics, as plain functions.
  Integers are ℤ mod 2^64 (`BitVec 64`), floats are exact `F64` values.
  Float *arithmetic* (+ − × ÷, floor) is not specified here: the oracle takes it
  from the hardware (see Oracle/C02.lean); the theorems concern everything else.
-/
import GoluaVerif.Base.F64
namespace GoluaVerif.Spec

open GoluaVerif

inductive Num where
  | int (n : I64)
  | flt (f : F64)
  deriving DecidableEq, Repr, Inhabited

namespace Num

/-- the position of a non-NaN number on the extended real line, in units of 2^-1074 -/
def key : Num → Int
  | int n => F64.intKey n.toInt
  | flt f => f.key

def isNaN : Num → Bool
  | int _ => false
  | flt f => f.isNaN

/-- mathematically exact `<` (false when either side is NaN) -/
def lt (a b : Num) : Bool := !a.isNaN && !b.isNaN && decide (a.key < b.key)
def le (a b : Num) : Bool := !a.isNaN && !b.isNaN && decide (a.key ≤ b.key)
def eq (a b : Num) : Bool := !a.isNaN && !b.isNaN && decide (a.key = b.key)

/-- "float converts to integer iff it has an exact integer value in range" -/
def floatToInt? : F64 → Option I64
  | .fin neg m =>
    if m % F64.scale = 0 then
      let t : Int := (m / F64.scale : Nat)
      let v : Int := if neg then -t else t
      if -(2 ^ 63 : Int) ≤ v ∧ v < (2 ^ 63 : Int) then some (BitVec.ofInt 64 v) else none
    else none
  | _ => none

def toInt? : Num → Option I64
  | int n => some n
  | flt f => floatToInt? f

/-- floor division on integers: ⌊x / y⌋ wrapped to 64 bits (y ≠ 0) -/
def idivInt (x y : I64) : I64 := BitVec.ofInt 64 (Int.fdiv x.toInt y.toInt)
/-- modulo on integers: x − ⌊x / y⌋·y, sign of the divisor (y ≠ 0) -/
def modInt (x y : I64) : I64 := BitVec.ofInt 64 (Int.fmod x.toInt y.toInt)

/-- `<<` with a signed count: logical, zero for |n| ≥ 64, negative counts shift right -/
def shl (x n : I64) : I64 :=
  let k := n.toInt
  if k ≤ -64 ∨ 64 ≤ k then 0#64
  else if 0 ≤ k then x <<< k.toNat else x >>> (-k).toNat
def shr (x n : I64) : I64 :=
  let k := n.toInt
  if k ≤ -64 ∨ 64 ≤ k then 0#64
  else if 0 ≤ k then x >>> k.toNat else x <<< (-k).toNat

/-- C `%` as used by math.fmod on integers (truncated; d ∉ {0}) -/
def fmodInt (x d : I64) : I64 := BitVec.ofInt 64 (Int.tmod x.toInt d.toInt)

/-- table-key normalisation: a float with an exact integer value denotes the integer key -/
def normKey : Num → Num
  | int n => int n
  | flt f => match floatToInt? f with
    | some n => int n
    | none => flt f

end Num
end GoluaVerif.Spec
