/-
  Spec.Co — the Lua 5.4 coroutine status machine (manual §2.6, §6.2), as the short
  statement C09 is checked against.

  A state is the *resume stack* (head = the running coroutine, below it the coroutines
  that resumed it: status `normal`, at the bottom the main thread 0) plus, for every
  coroutine, whether it is dead, the error it died with and how many to-be-closed
  variables it has pending.  Everything not on the stack and not dead is `suspended`.

  Operations are performed by the running coroutine.  `step` returns the new state and
  the observable events: which thread receives which message (values are transferred
  exactly, in order) and which pending to-be-closed variables are run (with which
  error value).  Core Lean only; total, computable.
-/
namespace GoluaVerif.Spec.Co

abbrev Id := Nat
abbrev Val := Int

inductive Status | suspended | running | normal | dead
  deriving DecidableEq, Repr, Inhabited

/-- what a thread receives when control is handed to it / returned to it -/
inductive Msg
  | args (vs : List Val)        -- a resumed coroutine receives the resume arguments (body arguments or results of `yield`)
  | ok (vs : List Val)          -- `resume` returns true, vs  (callee yielded or returned vs)
  | fail (v : Val)              -- `resume` returns false, v  (callee raised v; v is the error object itself)
  | illegal                     -- operation refused: resume of a non-suspended coroutine, close of a running/normal one, yield from main
  | closed (e : Option Val)     -- `close` returns true (none) or false, e
  | exc                         -- the resumer is itself terminated (quota kill unwinding through the resume chain)
  deriving DecidableEq, Repr, Inhabited

inductive Event
  | deliver (to : Id) (m : Msg)
  | tbc (t : Id) (e : Option Val)   -- a pending to-be-closed variable of coroutine t is closed with error value e
  deriving DecidableEq, Repr, Inhabited

structure Co where
  dead : Bool
  err : Option Val
  tbc : Nat
  deriving DecidableEq, Repr, Inhabited

def Co.fresh : Co := ⟨false, none, 0⟩

structure State where
  n : Nat              -- coroutines 0 .. n-1 exist; 0 is the main thread
  co : Id → Co
  stack : List Id

def upd {α : Type} (f : Nat → α) (i : Nat) (v : α) : Nat → α := fun j => if j = i then v else f j

@[simp] theorem upd_same {α : Type} (f : Nat → α) (i : Nat) (v : α) : upd f i v i = v := by simp [upd]
@[simp] theorem upd_other {α : Type} (f : Nat → α) (i j : Nat) (v : α) (h : j ≠ i) : upd f i v j = f j := by
  simp [upd, h]

def init : State := ⟨1, fun _ => Co.fresh, [0]⟩

def State.cur (s : State) : Id := s.stack.headD 0

def State.status (s : State) (t : Id) : Status :=
  if s.stack.head? = some t then .running
  else if t ∈ s.stack then .normal
  else if (s.co t).dead then .dead
  else .suspended

/-- `coroutine.isyieldable()`: every coroutine but the main thread can yield -/
def State.isYieldable (s : State) : Bool := s.cur != 0

inductive Op
  | create                          -- coroutine.create / wrap: the new coroutine gets id `n`, suspended
  | resume (t : Id) (vs : List Val)
  | yield (vs : List Val)
  | ret (vs : List Val)             -- the body of the running coroutine returns vs
  | err (v : Val)                   -- the body of the running coroutine raises v (not caught inside)
  | close (t : Id)
  | exc                             -- the running coroutine is terminated by its context (one level of unwinding)
  | mark                            -- the running coroutine declares a to-be-closed variable
  | unmark (e : Option Val)         -- the scope of its innermost to-be-closed variable ends (normally: e = none;
                                    -- by an error caught further out: e = the error): the variable is closed with e
  deriving DecidableEq, Repr, Inhabited

def tbcEvents (t : Id) (k : Nat) (e : Option Val) : List Event := List.replicate k (.tbc t e)

/-- the running coroutine `c` (resumed by `r`) stops: dead, pending tbc variables run, `m` goes to `r` -/
def finish (s : State) (c r : Id) (rest : List Id) (e : Option Val) (m : Msg) : State × List Event :=
  ({ s with stack := r :: rest, co := upd s.co c ⟨true, e, 0⟩ },
   tbcEvents c (s.co c).tbc e ++ [.deliver r m])

def step (s : State) : Op → State × List Event
  | .create => ({ s with n := s.n + 1, co := upd s.co s.n Co.fresh }, [])
  | .resume t vs =>
    if t < s.n ∧ s.status t = .suspended then
      ({ s with stack := t :: s.stack }, [.deliver t (.args vs)])
    else (s, [.deliver s.cur .illegal])
  | .yield vs =>
    match s.stack with
    | _ :: r :: rest => ({ s with stack := r :: rest }, [.deliver r (.ok vs)])
    | _ => (s, [.deliver s.cur .illegal])
  | .ret vs =>
    match s.stack with
    | c :: r :: rest => finish s c r rest none (.ok vs)
    | _ => (s, [])
  | .err v =>
    match s.stack with
    | c :: r :: rest => finish s c r rest (some v) (.fail v)
    | _ => (s, [])
  | .exc =>
    match s.stack with
    | c :: r :: rest => finish s c r rest none .exc
    | _ => (s, [])
  | .close t =>
    if t < s.n ∧ s.status t = .suspended then
      ({ s with co := upd s.co t ⟨true, none, 0⟩ },
       tbcEvents t (s.co t).tbc none ++ [.deliver s.cur (.closed none)])
    else if t < s.n ∧ s.status t = .dead then (s, [.deliver s.cur (.closed (s.co t).err)])
    else (s, [.deliver s.cur .illegal])
  | .mark =>
    let c := s.cur
    ({ s with co := upd s.co c { s.co c with tbc := (s.co c).tbc + 1 } }, [])
  | .unmark e =>
    let c := s.cur
    if (s.co c).tbc = 0 then (s, [])
    else ({ s with co := upd s.co c { s.co c with tbc := (s.co c).tbc - 1 } }, [.tbc c e])

def run (s : State) : List Op → State × List Event
  | [] => (s, [])
  | op :: ops =>
    let (s1, e1) := step s op
    let (s2, e2) := run s1 ops
    (s2, e1 ++ e2)

end GoluaVerif.Spec.Co
