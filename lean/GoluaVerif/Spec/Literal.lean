/-
  Spec.Literal — the *spelling* side of string literals: how a byte string may be written.

  * `escape q bs choice`: the short literal for `bs` delimited by `q`, where byte number `i`
    is written in the form `choice i` (raw, named escape, `\ddd`, shortest `\d…`, `\xHH`,
    `\u{…}` with leading zeros, `\` + a newline sequence), optionally preceded by `\z` and
    white space.  A form that cannot express the byte falls back to `\ddd`.
  * `wrapLong lvl s`: the long literal `[`=ⁿ`[` s `]`=ⁿ`]`.

  Props.C12: `decodeShort (escape q bs choice) = some bs`,
             `decodeLong (wrapLong lvl s) = some (normaliseNL (dropFirstNL s))`.
-/
import GoluaVerif.Model.Literal
namespace GoluaVerif.Spec.Literal
open GoluaVerif.Spec.Numeral (Bytes isSpace isDigit isXDigit hexVal)
open GoluaVerif.Model.Literal

inductive NL where | lf | cr | crlf | lfcr
  deriving DecidableEq, Repr

inductive Form where
  | raw
  | named
  | dec3
  | decMin
  | hex (upper : Bool)
  | uni (zeros : Nat)
  | nl (k : NL)
  deriving DecidableEq, Repr

structure Choice where
  form : Form
  /-- white space to put after a `\z` in front of this byte's spelling (`none` = no `\z`) -/
  zskip : Option Bytes := none

def digitChar (n : Nat) : UInt8 := UInt8.ofNat (48 + n % 10)
def hexChar (upper : Bool) (n : Nat) : UInt8 :=
  let d := n % 16
  if d < 10 then UInt8.ofNat (48 + d) else UInt8.ofNat ((if upper then 55 else 87) + d)

def dec3 (b : UInt8) : Bytes := [92, digitChar (b.toNat / 100), digitChar (b.toNat / 10), digitChar b.toNat]

def named? (b : UInt8) : Option UInt8 :=
  if b == 7 then some 97 else if b == 8 then some 98 else if b == 9 then some 116
  else if b == 10 then some 110 else if b == 11 then some 118 else if b == 12 then some 102
  else if b == 13 then some 114 else if b == 92 || b == 34 || b == 39 then some b else none

def nlBytes : NL → Bytes
  | .lf => [10] | .cr => [13] | .crlf => [13, 10] | .lfcr => [10, 13]

/-- the spelling of one byte; `nd` / `nn`: the byte that follows in the literal is a decimal
    digit / a line-break byte (then the shortest-decimal and the single-byte newline forms would
    absorb it, and `\ddd` is used instead) -/
def spellB (q b : UInt8) (f : Form) (nd nn : Bool) : Bytes :=
  match f with
  | .raw => if b == q || b == 92 || b == 10 || b == 13 then dec3 b else [b]
  | .named => match named? b with
    | some c => [92, c]
    | none => dec3 b
  | .dec3 => dec3 b
  | .decMin =>
    if nd then dec3 b
    else if b.toNat < 10 then [92, digitChar b.toNat]
    else if b.toNat < 100 then [92, digitChar (b.toNat / 10), digitChar b.toNat]
    else dec3 b
  | .hex up => [92, 120, hexChar up (b.toNat / 16), hexChar up b.toNat]
  | .uni z =>
    if b.toNat < 128 then
      [92, 117, 123] ++ (List.replicate z 48 ++ ((if b.toNat < 16 then [hexChar false b.toNat] else [hexChar false (b.toNat / 16), hexChar false b.toNat]) ++ [125]))
    else dec3 b
  | .nl k =>
    if b == 10 && !nn then 92 :: nlBytes k else dec3 b

/-- the spelling of one byte; `next` is the first byte of what follows in the literal -/
def spell (q b : UInt8) (f : Form) (next : UInt8) : Bytes :=
  spellB q b f (isDigit next) (next == 10 || next == 13)

/-- `\z` + white space in front of a spelling (not in front of a raw white-space byte, which
    the `\z` would swallow) -/
def withZ (z : Option Bytes) (sp : Bytes) : Bytes :=
  match z, sp with
  | some ws, c :: _ => if ws.all isSpace && !isSpace c then [92, 122] ++ ws ++ sp else sp
  | _, _ => sp

/-- body of the literal followed by the closing quote -/
def escapeBody (q : UInt8) : Bytes → (Nat → Choice) → Bytes
  | [], _ => [q]
  | b :: r, ch =>
    let tail := escapeBody q r (fun i => ch (i + 1))
    withZ (ch 0).zskip (spell q b (ch 0).form (tail.headD q)) ++ tail

def escape (q : UInt8) (bs : Bytes) (ch : Nat → Choice) : Bytes := q :: escapeBody q bs ch

def wrapLong (lvl : Nat) (s : Bytes) : Bytes :=
  91 :: (List.replicate lvl 61 ++ 91 :: (s ++ closer lvl))

/-- no closing bracket of level `lvl` starts inside `s` when `tail` follows it -/
def noCloserBefore (lvl : Nat) : Bytes → Bytes → Bool
  | [], _ => true
  | c :: r, tail => !closerAt lvl (c :: r ++ tail) && noCloserBefore lvl r tail

end GoluaVerif.Spec.Literal
