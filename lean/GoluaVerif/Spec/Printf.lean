/-
  Spec.Printf — ISO C `printf` for the integer, character and string
  conversions that `string.format` passes through (`d i u o x X c s`), with the
  flag sets Lua 5.4 admits for each conversion:
      d i : - + space 0      u : - 0      o x X : - # 0      c s : -
  `lua_Integer` is a 64-bit `long long`; `u o x X` print its two's-complement
  unsigned value.  Strings are byte strings: width and precision count BYTES.
  Core Lean only.
-/
import GoluaVerif.Base.I64
namespace GoluaVerif.Spec.Printf
open GoluaVerif

abbrev Bytes := List UInt8

structure Dir where
  minus : Bool := false
  plus : Bool := false
  space : Bool := false
  hash : Bool := false
  zero : Bool := false
  width : Option Nat := none
  prec : Option Nat := none
  verb : UInt8 := 100
  deriving Repr, DecidableEq

def isDigit (c : UInt8) : Bool := 48 ≤ c.toNat && c.toNat ≤ 57

def takeNum : Bytes → Nat → Bool → (Option Nat × Bytes)
  | [], n, seen => (if seen then some n else none, [])
  | c :: cs, n, seen => if isDigit c then takeNum cs (n * 10 + (c.toNat - 48)) true
                        else (if seen then some n else none, c :: cs)

def takeFlags : Bytes → Dir → (Dir × Bytes)
  | [], d => (d, [])
  | c :: cs, d =>
    if c = 45 then takeFlags cs { d with minus := true }
    else if c = 43 then takeFlags cs { d with plus := true }
    else if c = 32 then takeFlags cs { d with space := true }
    else if c = 35 then takeFlags cs { d with hash := true }
    else if c = 48 then takeFlags cs { d with zero := true }
    else (d, c :: cs)

/-- parse `%[flags][width][.prec]verb` (exactly one directive, nothing after the verb) -/
def parseDir (s : Bytes) : Option Dir :=
  match s with
  | 37 :: rest =>
    let (d, r1) := takeFlags rest {}
    let (w, r2) := takeNum r1 0 false
    let (p, r3) : Option Nat × Bytes := match r2 with
      | 46 :: r => let (p, r') := takeNum r 0 false; (some (p.getD 0), r')
      | r => (none, r)
    match r3 with
    | [v] => some { d with width := w, prec := p, verb := v }
    | _ => none
  | _ => none

/-- digits of `n` in base `b`, most significant first; "" for 0; fuel = max digits -/
def digitsF (b : Nat) (upper : Bool) : Nat → Nat → Bytes
  | 0, _ => []
  | f + 1, n =>
    if n = 0 then [] else
      let d := n % b
      let ch : UInt8 := UInt8.ofNat (if d < 10 then 48 + d else (if upper then 55 else 87) + d)
      digitsF b upper f (n / b) ++ [ch]

def pad (c : UInt8) (n : Nat) : Bytes := List.replicate n c

/-- lay out `prefix ++ digits` in the field -/
def layout (d : Dir) (pfx digits : Bytes) (zeroPadOK : Bool) : Bytes :=
  let len := pfx.length + digits.length
  let fill := match d.width with | some w => w - len | none => 0
  if d.minus then pfx ++ digits ++ pad 32 fill
  else if d.zero && zeroPadOK then pfx ++ pad 48 fill ++ digits
  else pad 32 fill ++ pfx ++ digits

/-- the integer conversions -/
def fmtInt (d : Dir) (v : I64) : Option Bytes :=
  let ch := Char.ofNat d.verb.toNat
  let signed := ch = 'd' ∨ ch = 'i'
  let base : Nat := if ch = 'o' then 8 else if ch = 'x' ∨ ch = 'X' then 16 else 10
  if ¬ (signed ∨ ch = 'u' ∨ ch = 'o' ∨ ch = 'x' ∨ ch = 'X') then none else
  let neg := signed ∧ v.toInt < 0
  let mag : Nat := if signed then v.toInt.natAbs else v.toNat
  let raw := digitsF base (ch = 'X') 64 mag
  -- precision: minimum number of digits (default 1)
  let minDigits := d.prec.getD 1
  let digs := pad 48 (minDigits - raw.length) ++ raw
  -- '#': octal gets a leading 0 unless there is one; hex gets 0x / 0X when non-zero
  let digs := if d.hash ∧ ch = 'o' ∧ digs.head? ≠ some 48 then 48 :: digs else digs
  let pfx : Bytes :=
    if neg then [45]
    else if signed ∧ d.plus then [43]
    else if signed ∧ d.space then [32]
    else if d.hash ∧ (ch = 'x' ∨ ch = 'X') ∧ mag ≠ 0 then [48, d.verb]
    else []
  some (layout d pfx digs d.prec.isNone)

/-- `%s`: precision truncates, width pads, both in bytes -/
def fmtStr (d : Dir) (s : Bytes) : Bytes :=
  let s := match d.prec with | some p => s.take p | none => s
  layout { d with zero := false } [] s false

/-- `%c`: one byte -/
def fmtChar (d : Dir) (v : I64) : Bytes :=
  layout { d with zero := false } [] [UInt8.ofNat (v.toNat % 256)] false

end GoluaVerif.Spec.Printf
