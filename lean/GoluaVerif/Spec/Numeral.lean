/-
  Spec.Numeral — the Lua 5.4 numeral semantics as total computable functions on
  byte strings (`List UInt8`).

  * `str2number` is lobject.c `luaO_str2num` (what `tonumber(s)` with one argument
    and the string→number coercion of arithmetic use): first `l_str2int`, then
    `l_str2d`.
      - white space (`lisspace`: space, \t \n \v \f \r) may surround the numeral,
        nothing else may; at most ONE sign;
      - decimal integers that do not fit `lua_Integer` are *not* integers (they are
        then read as floats); hexadecimal integers wrap modulo 2^64;
      - floats are C99 `strtod` without `inf`/`nan` (l_str2d rejects any numeral whose
        first special character is `n`/`N`; the grammar below simply has no such
        production): decimal `d.d e±d`, hexadecimal `0x h.h p±d` (exponent optional),
        correctly rounded to nearest-even binary64; overflow gives ±inf (accepted by
        Lua), underflow gives ±0.
  * `lexNumeral` is llex.c `read_numeral`: the maximal-munch extent of a numeric
    literal and its value (`none` = "malformed number").

  Values are exact: `Num.int (BitVec 64)` / `Num.flt F64`, F64 finite values being
  ±mag·2^-1074.  Rounding is done with `Nat` arithmetic only.  Core Lean only.
-/
import GoluaVerif.Spec.Num
namespace GoluaVerif.Spec.Numeral
open GoluaVerif GoluaVerif.Spec

abbrev Bytes := List UInt8

/-! ### character classes (lctype.h, ASCII) -/

def isSpace (c : UInt8) : Bool := c == 32 || (9 ≤ c && c ≤ 13)
def isDigit (c : UInt8) : Bool := 48 ≤ c && c ≤ 57
def isHexLetter (c : UInt8) : Bool := (97 ≤ c && c ≤ 102) || (65 ≤ c && c ≤ 70)
def isXDigit (c : UInt8) : Bool := isDigit c || isHexLetter c
/-- `lislalpha`: letters and `_` -/
def isLAlpha (c : UInt8) : Bool := (97 ≤ c && c ≤ 122) || (65 ≤ c && c ≤ 90) || c == 95

/-- `luaO_hexavalue` (also the value of a decimal digit) -/
def hexVal (c : UInt8) : Nat :=
  if isDigit c then c.toNat - 48
  else if 97 ≤ c then c.toNat - 87 else c.toNat - 55

def isX (c : UInt8) : Bool := c == 120 || c == 88
def isE (c : UInt8) : Bool := c == 101 || c == 69
def isP (c : UInt8) : Bool := c == 112 || c == 80

/-! ### surrounding white space -/

def trimL (s : Bytes) : Bytes := s.dropWhile isSpace
def trimR (s : Bytes) : Bytes := (s.reverse.dropWhile isSpace).reverse
def trim (s : Bytes) : Bytes := trimR (trimL s)

/-- one optional sign (`isneg` in lobject.c / the sign of `strtod`) -/
def splitSign : Bytes → Bool × Bytes
  | 45 :: r => (true, r)
  | 43 :: r => (false, r)
  | s => (false, s)

/-- value of a digit string in the given base (digits already checked) -/
def digitsVal (base : Nat) (ds : Bytes) : Nat := ds.foldl (fun a c => a * base + hexVal c) 0

/-! ### l_str2int -/

/-- the unsigned magnitude with the sign applied in ℤ mod 2^64 (`l_castU2S(neg ? 0u - a : a)`) -/
def applySign (neg : Bool) (a : Nat) : I64 :=
  if neg then -(BitVec.ofNat 64 a) else BitVec.ofNat 64 a

/-- `0x` / `0X` prefix: the rest of the numeral after it -/
def hexBody : Bytes → Option Bytes
  | 48 :: x :: h => if isX x then some h else none
  | _ => none

/-- `l_str2int` on a numeral without surrounding white space.  Decimal digits whose
    value exceeds maxinteger (mininteger's magnitude when negative) are rejected
    (`a > MAXBY10 || (a == MAXBY10 && d > MAXLASTD + neg)`); hex digits wrap. -/
def str2int (core : Bytes) : Option I64 :=
  let neg := (splitSign core).1
  let r := (splitSign core).2
  match hexBody r with
  | some h =>
    if !h.isEmpty && h.all isXDigit then some (applySign neg (digitsVal 16 h)) else none
  | none =>
    if !r.isEmpty && r.all isDigit then
      let a := digitsVal 10 r
      if a ≤ 2 ^ 63 - 1 + (if neg then 1 else 0) then some (applySign neg a) else none
    else none

/-! ### correctly rounded conversion of a non-negative rational to binary64 -/

/-- round `N / D` (a magnitude in units of 2^-1074, `D > 0`) to the nearest representable
    magnitude — 53 significant bits, or an integer number of units in the subnormal
    range — ties to even; exponent range unbounded (checked by `mkF64`). -/
def roundRat (N D : Nat) : Nat :=
  let q0 := N / D
  let k := if q0 < 2 ^ 53 then 0 else Nat.log2 q0 - 52
  let D' := D * 2 ^ k
  let q := N / D'
  let r := N % D'
  let q' := if D' < 2 * r ∨ (2 * r = D' ∧ q % 2 = 1) then q + 1 else q
  q' * 2 ^ k

/-- ±(N/D units), rounded; magnitudes that round to 2^1024 or above are ±inf -/
def mkF64 (neg : Bool) (N D : Nat) : F64 :=
  let m := roundRat N D
  if 2 ^ (1024 + 1074) ≤ m then .inf neg else .fin neg m

/-- ±M·10^e, correctly rounded.  `len` bounds the number of digits of `M`
    (`M < 10^len`).  Exponents outside ±(400+len) cannot change the result
    (10^400 > 2^1024 and 10^-400 < 2^-1076) and are cut off so the evaluation stays small. -/
def decToF64 (neg : Bool) (M : Nat) (len : Nat) (e : Int) : F64 :=
  if M = 0 then .fin neg 0
  else if 400 < e then .inf neg
  else if e + (len : Int) < -400 then .fin neg 0
  else if 0 ≤ e then mkF64 neg (M * 10 ^ e.toNat * F64.scale) 1
  else mkF64 neg (M * F64.scale) (10 ^ (-e).toNat)

/-- ±M·2^e, correctly rounded (`M < 16^len`), same cut-off idea -/
def hexToF64 (neg : Bool) (M : Nat) (len : Nat) (e : Int) : F64 :=
  if M = 0 then .fin neg 0
  else if 1100 < e then .inf neg
  else if e + 4 * (len : Int) < -1200 then .fin neg 0
  else if 0 ≤ e + 1074 then mkF64 neg (M * 2 ^ (e + 1074).toNat) 1
  else mkF64 neg M (2 ^ (-(e + 1074)).toNat)

/-! ### l_str2d (C99 strtod grammar without inf / nan) -/

/-- optional exponent part: `none` = malformed, `some e` = its value (0 when absent) -/
def exponent (isMark : UInt8 → Bool) : Bytes → Option Int
  | [] => some 0
  | m :: r =>
    if isMark m then
      let (eneg, ds) := splitSign r
      if !ds.isEmpty && ds.all isDigit then
        let v : Int := digitsVal 10 ds
        some (if eneg then -v else v)
      else none
    else none

/-- optional fraction `. digits`: the digits and the rest -/
def fracPart (isDig : UInt8 → Bool) : Bytes → Bytes × Bytes
  | 46 :: t => (t.takeWhile isDig, t.dropWhile isDig)
  | r1 => ([], r1)

/-- mantissa `digits [. digits]` with at least one digit; returns integer part, fraction part, rest -/
def mantissa (isDig : UInt8 → Bool) (s : Bytes) : Option (Bytes × Bytes × Bytes) :=
  let ip := s.takeWhile isDig
  let fr := fracPart isDig (s.dropWhile isDig)
  if ip.isEmpty && fr.1.isEmpty then none else some (ip, fr.1, fr.2)

def str2d (core : Bytes) : Option F64 :=
  let neg := (splitSign core).1
  let r := (splitSign core).2
  match hexBody r with
  | some h =>
    match mantissa isXDigit h with
    | some (ip, fp, r2) =>
      match exponent isP r2 with
      | some e => some (hexToF64 neg (digitsVal 16 (ip ++ fp)) (ip.length + fp.length) (e - 4 * (fp.length : Int)))
      | none => none
    | none => none
  | none =>
    match mantissa isDigit r with
    | some (ip, fp, r2) =>
      match exponent isE r2 with
      | some e => some (decToF64 neg (digitsVal 10 (ip ++ fp)) (ip.length + fp.length) (e - (fp.length : Int)))
      | none => none
    | none => none

/-! ### luaO_str2num -/

def str2numberCore (core : Bytes) : Option Num :=
  match str2int core with
  | some n => some (.int n)
  | none => (str2d core).map .flt

/-- `tonumber(s)` / arithmetic coercion of the string `s` -/
def str2number (s : Bytes) : Option Num := str2numberCore (trim s)

/-! ### llex.c read_numeral -/

/-- the loop of `read_numeral`: exponent mark with optional sign | hex digit | '.'
    (`afterMark` = the previous byte was an exponent mark, so a sign may follow) -/
def lexBody (hex : Bool) : Bool → Bytes → Nat
  | _, [] => 0
  | afterMark, c :: r =>
    if afterMark && (c == 43 || c == 45) then 1 + lexBody hex false r
    else if (if hex then isP c else isE c) then 1 + lexBody hex true r
    else if isXDigit c || c == 46 then 1 + lexBody hex false r
    else 0

/-- number of bytes `read_numeral` consumes, for input starting with a digit, or with
    '.' followed by a digit (the two ways `llex` enters `read_numeral`) -/
def lexExtent (s : Bytes) : Option Nat :=
  let start : Bool := match s with
    | c :: d :: _ => isDigit c || (c == 46 && isDigit d)
    | [c] => isDigit c
    | [] => false
  if !start then none else
  match s with
  | [] => none
  | first :: r =>
    let (hex, n0, r) := match r with
      | x :: r' => if first == 48 && isX x then (true, 2, r') else (false, 1, r)
      | [] => (false, 1, r)
    let n := n0 + lexBody hex false r
    -- a numeral touching a letter takes the letter with it (and is then malformed)
    match s.drop n with
    | c :: _ => some (if isLAlpha c then n + 1 else n)
    | [] => some n

/-- extent and value of the numeric literal at the start of `s`
    (`some (n, none)` = "malformed number") -/
def lexNumeral (s : Bytes) : Option (Nat × Option Num) :=
  (lexExtent s).map fun n => (n, str2number (s.take n))

/-- value of `s` as ONE numeric literal token (the whole of `s`) -/
inductive Lit where
  | value (n : Num)
  | malformed
  | notOneToken
  deriving DecidableEq, Repr

def literal (s : Bytes) : Lit :=
  match lexNumeral s with
  | some (_, none) => .malformed
  | some (n, some v) => if n = s.length then .value v else .notOneToken
  | none => .notOneToken

end GoluaVerif.Spec.Numeral
