/-
  Spec.Quote — what the Lua 5.4 manual and reference implementation define for
  `string.format("%q", v)` and for reading the result back.

  * `quote`      : `addquoted` of lstrlib.c (strings)
  * `unquote`    : the short-string reader of the Lua lexer (llex.c `read_string`),
                   written independently of Model.Literal (C12) on purpose
  * `quoteInt`   : `%lld`, except `0x8000000000000000` for mininteger
  * `evalNumLit` : value of the numeric constants `%q` can produce, as read by
                   `load("return " .. lit)`: optional `-`, decimal or hexadecimal
                   integer (decimal overflow → float), `1e9999`, `(0/0)`, hex floats
  Core Lean only.
-/
import GoluaVerif.Base.F64
namespace GoluaVerif.Spec.Quote
open GoluaVerif

abbrev Bytes := List UInt8

def isDigit (c : UInt8) : Bool := 48 ≤ c.toNat && c.toNat ≤ 57
/-- C `iscntrl` in the "C" locale -/
def isCntrl (c : UInt8) : Bool := c.toNat < 32 || c.toNat = 127

def digit (n : Nat) : UInt8 := UInt8.ofNat (48 + n % 10)

/-- `%d` of a byte value -/
def dec (c : UInt8) : Bytes :=
  let n := c.toNat
  if n < 10 then [digit n] else if n < 100 then [digit (n / 10), digit n] else [digit (n / 100), digit (n / 10), digit n]

/-- `%03d` of a byte value -/
def dec3 (c : UInt8) : Bytes :=
  let n := c.toNat
  [digit (n / 100), digit (n / 10), digit n]

/-- body of `addquoted`: every byte, looking one byte ahead for the `\ddd` padding rule -/
def quoteBody : Bytes → Bytes
  | [] => []
  | c :: rest =>
    (if c = 34 ∨ c = 92 ∨ c = 10 then [92, c]
     else if isCntrl c then
       match rest with
       | d :: _ => if isDigit d then 92 :: dec3 c else 92 :: dec c
       | [] => 92 :: dec c
     else [c]) ++ quoteBody rest

/-- `string.format("%q", s)` per Lua 5.4 -/
def quote (s : Bytes) : Bytes := 34 :: (quoteBody s ++ [34])

/-! ### the reader -/

def hexVal (c : UInt8) : Option Nat :=
  let n := c.toNat
  if 48 ≤ n ∧ n ≤ 57 then some (n - 48)
  else if 97 ≤ n ∧ n ≤ 102 then some (n - 87)
  else if 65 ≤ n ∧ n ≤ 70 then some (n - 55)
  else none

/-- `luaO_utf8esc`: UTF-8 (extended to 2^31) -/
def utf8Enc (x : Nat) : Bytes :=
  let b (n : Nat) : UInt8 := UInt8.ofNat n
  if x < 0x80 then [b x]
  else if x < 0x800 then [b (0xC0 + x / 64), b (0x80 + x % 64)]
  else if x < 0x10000 then [b (0xE0 + x / 4096), b (0x80 + x / 64 % 64), b (0x80 + x % 64)]
  else if x < 0x200000 then [b (0xF0 + x / 262144), b (0x80 + x / 4096 % 64), b (0x80 + x / 64 % 64), b (0x80 + x % 64)]
  else if x < 0x4000000 then
    [b (0xF8 + x / 16777216), b (0x80 + x / 262144 % 64), b (0x80 + x / 4096 % 64), b (0x80 + x / 64 % 64), b (0x80 + x % 64)]
  else
    [b (0xFC + x / 1073741824), b (0x80 + x / 16777216 % 64), b (0x80 + x / 262144 % 64), b (0x80 + x / 4096 % 64),
     b (0x80 + x / 64 % 64), b (0x80 + x % 64)]

def isSpace (c : UInt8) : Bool := c = 32 || (9 ≤ c.toNat && c.toNat ≤ 13)

/-- reader states that span several input bytes -/
inductive St where
  | normal
  | skipWs                 -- after `\z`
  | uni (acc : Option Nat) -- inside `\u{`
  deriving DecidableEq, Repr

def emit (v : Nat) (k : Option Bytes) : Option Bytes :=
  if v ≤ 255 then k.map (UInt8.ofNat v :: ·) else none

/-- the string body after the opening `"`; succeeds only if the closing `"` is the last byte -/
def unq : St → Bytes → Option Bytes
  | _, [] => none                                             -- unfinished string
  | st, c :: rest =>
    match st with
    | .uni acc =>
      if c = 125 then                                          -- '}'
        match acc with
        | some v => (unq .normal rest).map (utf8Enc v ++ ·)
        | none => none
      else match hexVal c with
        | some d =>
          let v := (acc.getD 0) * 16 + d
          if v < 2 ^ 31 then unq (.uni (some v)) rest else none -- "UTF-8 value too large"
        | none => none
    | _ =>
      if st = .skipWs ∧ isSpace c then unq .skipWs rest
      else if c = 34 then (if rest.isEmpty then some [] else none)
      else if c = 10 ∨ c = 13 then none                        -- raw newline: unfinished string
      else if c ≠ 92 then (unq .normal rest).map (c :: ·)
      else match rest with
        | [] => none
        | e :: r1 =>
          if isDigit e then                                    -- \ddd, up to three digits, value ≤ 255
            let d1 := e.toNat - 48
            match r1 with
            | c2 :: r2 =>
              if isDigit c2 then
                let d2 := c2.toNat - 48
                match r2 with
                | c3 :: r3 =>
                  if isDigit c3 then emit (d1 * 100 + d2 * 10 + (c3.toNat - 48)) (unq .normal r3)
                  else emit (d1 * 10 + d2) (unq .normal (c3 :: r3))
                | [] => none
              else emit d1 (unq .normal (c2 :: r2))
            | [] => none
          else if e = 97 then emit 7 (unq .normal r1)          -- \a
          else if e = 98 then emit 8 (unq .normal r1)          -- \b
          else if e = 102 then emit 12 (unq .normal r1)        -- \f
          else if e = 110 then emit 10 (unq .normal r1)        -- \n
          else if e = 114 then emit 13 (unq .normal r1)        -- \r
          else if e = 116 then emit 9 (unq .normal r1)         -- \t
          else if e = 118 then emit 11 (unq .normal r1)        -- \v
          else if e = 92 ∨ e = 34 ∨ e = 39 then emit e.toNat (unq .normal r1)
          else if e = 10 then                                  -- backslash newline (and an optional CR after it)
            match r1 with
            | c2 :: r2 => if c2 = 13 then emit 10 (unq .normal r2) else emit 10 (unq .normal (c2 :: r2))
            | [] => none
          else if e = 13 then
            match r1 with
            | c2 :: r2 => if c2 = 10 then emit 10 (unq .normal r2) else emit 10 (unq .normal (c2 :: r2))
            | [] => none
          else if e = 120 then                                 -- \xXX
            match r1 with
            | h1 :: h2 :: r3 =>
              match hexVal h1, hexVal h2 with
              | some a, some b => emit (a * 16 + b) (unq .normal r3)
              | _, _ => none
            | _ => none
          else if e = 122 then unq .skipWs r1                  -- \z
          else if e = 117 then                                 -- \u{XXX}
            match r1 with
            | c2 :: r2 => if c2 = 123 then unq (.uni none) r2 else none   -- "missing '{'"
            | [] => none
          else none                                            -- invalid escape sequence

/-- value of a double-quoted short string literal (the whole input must be the literal) -/
def unquote : Bytes → Option Bytes
  | c :: rest => if c = 34 then unq .normal rest else none
  | [] => none

/-! ### numbers -/

/-- decimal digits, most significant first; `fuel` = maximal number of digits -/
def toDecF : Nat → Nat → Bytes
  | 0, _ => []
  | f + 1, n => if n < 10 then [digit n] else toDecF f (n / 10) ++ [digit n]

/-- decimal numeral of `n < 10^20` -/
def toDec (n : Nat) : Bytes := toDecF 20 n

/-- value of a digit string (no validation) -/
def ofDec (s : Bytes) : Nat := s.foldl (fun acc c => acc * 10 + (c.toNat - 48)) 0

def allDigits (s : Bytes) : Bool := !s.isEmpty && s.all isDigit

/-- `%lld` / `strconv.Itoa` / `tostring` of an integer -/
def showInt (v : I64) : Bytes :=
  if v.toInt < 0 then 45 :: toDec v.toInt.natAbs else toDec v.toNat

def hexDigit (n : Nat) : UInt8 := UInt8.ofNat (if n % 16 < 10 then 48 + n % 16 else 87 + n % 16)

/-- exactly `k` lower-case hex digits of `n`, most significant first -/
def toHexF : Nat → Nat → Bytes
  | 0, _ => []
  | k + 1, n => toHexF k (n / 16) ++ [hexDigit n]

def ofHex (s : Bytes) : Option Nat :=
  s.foldl (fun acc c => match acc, hexVal c with
    | some a, some d => some (a * 16 + d)
    | _, _ => none) (some 0)

/-- `%q` of an integer per Lua 5.4 (`quotefloat`'s sibling in lstrlib.c): `%lld`, but
    `0x8000000000000000` for mininteger, whose decimal numeral would read back as a float -/
def quoteInt (v : I64) : Bytes :=
  if v = I64.minInt then [48, 120] ++ toHexF 16 (2 ^ 63) else showInt v

inductive NumVal where
  | int (n : I64)
  | flt (f : F64)
  deriving DecidableEq, Repr

/-- nearest double to the natural number `n` (in units of 1), overflow to +inf -/
def natToF64 (n : Nat) : F64 :=
  let m := F64.roundNat n
  if m < 2 ^ 1024 then .fin false (m * F64.scale) else .inf false

/-- the double nearest to `m · 2^e` -/
def dyadicToF64 (m : Nat) (e : Int) : F64 :=
  let s := e + 1074
  let n := if s ≥ 0 then m * 2 ^ s.toNat else F64.roundNat ((m / 2 ^ (-s).toNat) +
      (let r := m % 2 ^ (-s).toNat
       let half := 2 ^ ((-s).toNat - 1)
       if half < r ∨ (r = half ∧ (m / 2 ^ (-s).toNat) % 2 = 1) then 1 else 0))
  let n := F64.roundNat n
  if n < 2 ^ (1024 + 1074) then .fin false n else .inf false

def splitAt (p : UInt8 → Bool) : Bytes → Bytes × Option Bytes
  | [] => ([], none)
  | c :: cs => if p c then ([], some cs) else
    let (a, b) := splitAt p cs
    (c :: a, b)

def signedDec (s : Bytes) : Option Int :=
  match s with
  | 43 :: d => if allDigits d then some (ofDec d) else none
  | 45 :: d => if allDigits d then some (-(ofDec d : Int)) else none
  | d => if allDigits d then some (ofDec d) else none

/-- an unsigned numeral as the Lua lexer reads it (only the shapes `%q` can produce, see the header) -/
def evalUnsigned (s : Bytes) : Option NumVal :=
  match s with
  | 48 :: x :: h =>
    if x = 120 ∨ x = 88 then
      -- hexadecimal: integer (wraps modulo 2^64) unless it has a '.' or an exponent
      let (mant, ex) := splitAt (fun c => c = 112 || c = 80) h
      let (ip, fp) := splitAt (· = 46) mant
      match ex, fp with
      | none, none => (ofHex ip).bind fun n => if ip.isEmpty then none else some (.int (BitVec.ofNat 64 n))
      | _, _ =>
        let frac := fp.getD []
        if ip.isEmpty ∧ frac.isEmpty then none else
        match ofHex (ip ++ frac), (match ex with | some e => signedDec e | none => some 0) with
        | some m, some e => some (.flt (dyadicToF64 m (e - 4 * frac.length)))
        | _, _ => none
    else decimal s
  | _ => decimal s
where
  decimal (s : Bytes) : Option NumVal :=
    let (mant, ex) := splitAt (fun c => c = 101 || c = 69) s
    if !allDigits mant then none else
    match ex with
    | none => let n := ofDec mant
      some (if n < 2 ^ 63 then .int (BitVec.ofNat 64 n) else .flt (natToF64 n))
    | some e =>
      match signedDec e with
      | some (.ofNat k) => some (.flt (natToF64 (ofDec mant * 10 ^ k)))
      | _ => none            -- negative exponents: not produced by `%q` special cases; not modelled

def NumVal.neg : NumVal → NumVal
  | .int n => .int (-n)
  | .flt f => .flt (F64.neg f)

/-- value of `load("return " .. lit)()` for the numeric constants `%q` produces -/
def evalNumLit (s : Bytes) : Option NumVal :=
  if s = [40, 48, 47, 48, 41] then some (.flt .nan)            -- (0/0)
  else match s with
    | 45 :: rest => (evalUnsigned rest).map NumVal.neg
    | _ => evalUnsigned s

/-- `tonumber(s)` for a decimal integer numeral with optional `-` (`l_str2int`, else float) -/
def strToNumber (s : Bytes) : Option NumVal :=
  match s with
  | 45 :: d =>
    if allDigits d then
      let a := ofDec d
      some (if a ≤ 2 ^ 63 then .int (BitVec.ofInt 64 (-(a : Int))) else .flt (F64.neg (natToF64 a)))
    else none
  | d =>
    if allDigits d then
      let a := ofDec d
      some (if a < 2 ^ 63 then .int (BitVec.ofNat 64 a) else .flt (natToF64 a))
    else none

/-- `%q` of a float per Lua 5.4 (`quotefloat`): `1e9999`, `-1e9999`, `(0/0)`, else a hexadecimal
    float (`%a` with all 13 fraction digits), which reads back exactly -/
def quoteFloat (f : F64) : Bytes :=
  match f with
  | .nan => [40, 48, 47, 48, 41]
  | .inf false => [49, 101, 57, 57, 57, 57]
  | .inf true => [45, 49, 101, 57, 57, 57, 57]
  | .fin neg mag =>
    let sign : Bytes := if neg then [45] else []
    if mag = 0 then sign ++ [48, 120, 48, 112, 43, 48]        -- 0x0p+0
    else
      let k := Nat.log2 mag
      let frac := if k ≥ 52 then (mag - 2 ^ k) / 2 ^ (k - 52) else (mag - 2 ^ k) * 2 ^ (52 - k)
      let e : Int := (k : Int) - 1074
      sign ++ [48, 120, 49, 46] ++ toHexF 13 frac ++ [112] ++
        (if e < 0 then 45 :: toDec e.natAbs else 43 :: toDec e.natAbs)

end GoluaVerif.Spec.Quote
