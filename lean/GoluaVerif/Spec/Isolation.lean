/-
  Spec.Isolation — which process-wide state two golua runtimes may share (C20), with the reason for
  each entry, and which shared state is a recorded defect.  Used by Props/C20.lean (the per-run
  instance) and by the oracle (mode c20), so that there is one list.
  Entries are (variable, writing function) in the spelling of Generated.Globals.
-/
namespace GoluaVerif.Spec.Isolation

/-- Allowed shared state, each with its justification. -/
def allowlist : List (String × String) := [
  -- The three standard streams are process-wide by nature; golua wraps them per runtime (each runtime has its own
  -- bufio.Writer / Reader and its own default input/output in its registry) and a host that wants separate
  -- streams passes its own io.Writer to runtime.New.  Two runtimes printing to the same terminal interleave
  -- their output; neither changes what the other computes.
  ("os.Stdout", "lib/iolib.load"),
  ("os.Stderr", "lib/iolib.load"),
  ("os.Stdin", "lib/iolib.load"),
  ("os.Stderr", "runtime.New"),          -- default warner writes "Lua warning: …" lines to stderr
  ("os.Stdin", "lib/base.loadChunk")     -- dofile()/loadfile() without a file name read the chunk from stdin
]

/-- Recorded defects (known_findings.json, property C20): none.  (Repaired: the process-wide math/rand source,
    SolemnlyDeclareCompliance on package-level GoFunctions in base.Load, collectgarbage's gcRunning / SetGCPercent.) -/
def recordedDefects : List (String × String) := []

inductive Verdict where
  | allowed | recordedDefect | unlisted
  deriving DecidableEq, Repr

def classify (w : String × String) : Verdict :=
  if allowlist.contains w then .allowed
  else if recordedDefects.contains w then .recordedDefect
  else .unlisted

end GoluaVerif.Spec.Isolation
