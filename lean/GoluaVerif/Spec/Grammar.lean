/-
  Spec.Grammar — Lua 5.4 expressions over all 21 binary and 4 unary operators, and the
  manual's precedence table (§3.4.8) written as a *printer*:

      or < and < comparison < | < ~ < & < shift < .. < + - < * / // % < unary < ^
      all binary operators left associative except `..` and `^` (right associative)

  `render e ps` prints `e` with exactly the parentheses the table requires plus, at every
  node, `ps path` redundant pairs (`path` = the list of child indices from the root; 0 = left
  operand / operand of a unary operator, 1 = right operand).  The property "the parser respects
  precedence and associativity" is then `parse (render e ps) = some e` for every `e` and `ps`
  (Props.C12.parse_render).  Core Lean only.
-/
namespace GoluaVerif.Spec.Grammar

inductive BinOp where
  | or | and | lt | le | gt | ge | eq | ne | bor | bxor | band | shl | shr | concat
  | add | sub | mul | div | idiv | mod | pow
  deriving DecidableEq, Repr, Inhabited

inductive UnOp where
  | neg | not | len | bnot
  deriving DecidableEq, Repr, Inhabited

inductive Exp where
  | atom (n : Nat)
  | bin (op : BinOp) (l r : Exp)
  | un (op : UnOp) (e : Exp)
  deriving DecidableEq, Repr, Inhabited

/-- operator symbols as the scanner delivers them: `-` and `~` are each ONE token type used
    both as binary and as unary operator -/
inductive Sym where
  | or | and | lt | le | gt | ge | eq | ne | pipe | tilde | amp | shl | shr | concat
  | plus | minus | star | slash | slashslash | pct | hat | not | hash
  deriving DecidableEq, Repr, Inhabited

inductive Token where
  | atom (n : Nat)
  | sym (s : Sym)
  | lp
  | rp
  deriving DecidableEq, Repr, Inhabited

/-- the manual's precedence levels for binary operators, lowest first (numbers as in ops/ops.go) -/
def BinOp.prec : BinOp → Nat
  | .or => 0 | .and => 1
  | .lt | .le | .gt | .ge | .eq | .ne => 2
  | .bor => 3 | .bxor => 4 | .band => 5
  | .shl | .shr => 6
  | .concat => 7
  | .add | .sub => 8
  | .mul | .div | .idiv | .mod => 9
  | .pow => 11

def BinOp.sym : BinOp → Sym
  | .or => .or | .and => .and | .lt => .lt | .le => .le | .gt => .gt | .ge => .ge | .eq => .eq | .ne => .ne
  | .bor => .pipe | .bxor => .tilde | .band => .amp | .shl => .shl | .shr => .shr | .concat => .concat
  | .add => .plus | .sub => .minus | .mul => .star | .div => .slash | .idiv => .slashslash | .mod => .pct
  | .pow => .hat

def UnOp.sym : UnOp → Sym
  | .neg => .minus | .not => .not | .len => .hash | .bnot => .tilde

/-- binding strength of an expression form: atoms 12, `^` 11, unary 10, other binary = prec -/
def Exp.level : Exp → Nat
  | .atom _ => 12
  | .un _ _ => 10
  | .bin op _ _ => op.prec

/-- what the LEFT operand of a binary operator must at least be to stand unparenthesised:
    left-associative operators accept their own level on the left; `..` needs a strictly
    tighter one; the left operand of `^` may not even be a unary expression (`-a^b` is `-(a^b)`)
    nor another `^` -/
def BinOp.needL : BinOp → Nat
  | .pow => 12
  | .concat => 8
  | op => op.prec

/-- … and the RIGHT operand: strictly tighter for left-associative operators, own level for
    `..`; the right operand of `^` may be a unary expression or another `^` (`2^-3^2`) -/
def BinOp.needR : BinOp → Nat
  | .pow => 10
  | .concat => 7
  | op => op.prec + 1

/-- redundant-parenthesis choice: path from the root ↦ number of extra pairs around that node -/
abbrev Parens := List Nat → Nat

def Parens.child (ps : Parens) (i : Nat) : Parens := fun p => ps (i :: p)

def noParens : Parens := fun _ => 0

/-- `k` pairs of parentheses around a token list -/
def wrap : Nat → List Token → List Token
  | 0, ts => ts
  | k + 1, ts => .lp :: wrap k ts ++ [.rp]

/-- print `e` where an expression of level ≥ `need` may stand -/
def renderAt : Exp → Parens → Nat → List Token
  | .atom n, ps, _ => wrap (ps []) [.atom n]
  | .un op e, ps, need =>
    let body := .sym op.sym :: renderAt e (ps.child 0) 10
    if ps [] = 0 then (if 10 < need then wrap 1 body else body) else wrap (ps []) body
  | .bin op l r, ps, need =>
    let body := renderAt l (ps.child 0) op.needL ++ .sym op.sym :: renderAt r (ps.child 1) op.needR
    if ps [] = 0 then (if op.prec < need then wrap 1 body else body) else wrap (ps []) body

/-- the printer: minimal parentheses plus the redundant ones chosen by `ps` -/
def render (e : Exp) (ps : Parens) : List Token := renderAt e ps 0

/-! ### where a token sequence stops being an expression

The expression grammar over these tokens, as the automaton of its viable prefixes: either an
operand is due (then an atom, `(` or a unary operator may come) or an operand has just ended
(then a binary operator, or `)` if a parenthesis is open).  `firstBad ts` is the index of the first
token that no expression continues with — `ts.length` if the input ends while something is
still due — i.e. the token a syntax error must be reported at. -/

def Sym.isUnary : Sym → Bool
  | .minus | .not | .hash | .tilde => true
  | _ => false

def Sym.isBinary : Sym → Bool
  | .not | .hash => false
  | _ => true

structure PState where
  /-- an operand is due (start, after an operator, after `(`) -/
  expecting : Bool
  /-- open parentheses -/
  depth : Nat
  deriving DecidableEq, Repr

def stepTok (st : PState) : Token → Option PState
  | .atom _ => if st.expecting then some { st with expecting := false } else none
  | .lp => if st.expecting then some { st with depth := st.depth + 1 } else none
  | .rp => if !st.expecting && 0 < st.depth then some { st with depth := st.depth - 1 } else none
  | .sym s =>
    if st.expecting then (if s.isUnary then some st else none)
    else (if s.isBinary then some { st with expecting := true } else none)

/-- run the automaton; `.error i` = token number `i` (counted from `i0`) is rejected -/
def scan : PState → List Token → Nat → Except Nat PState
  | st, [], _ => .ok st
  | st, t :: r, i =>
    match stepTok st t with
    | some st' => scan st' r (i + 1)
    | none => .error i

def PState.start : PState := { expecting := true, depth := 0 }
def PState.final (st : PState) : Bool := !st.expecting && st.depth == 0

def firstBad (ts : List Token) : Option Nat :=
  match scan .start ts 0 with
  | .error i => some i
  | .ok st => if st.final then none else some ts.length

/-! ### multi-valued expressions in expression lists (manual §3.4.12)

Function calls (incl. method calls) and `...` may deliver any number of values.  In a list of
expressions every expression except the last is adjusted to exactly one value; the last one
delivers all its values — unless it is enclosed in parentheses, which always yields one value. -/

inductive ListItem where
  | single                          -- any single-valued expression
  | multi (m : Nat) (paren : Bool)  -- a call / `...` delivering `m` values, possibly parenthesised
  deriving DecidableEq, Repr

/-- number of values an expression list delivers (return list, argument list, positional table
    fields, right-hand side of `=` / `local`, `for … in` list) -/
def explistCount : List ListItem → Nat
  | [] => 0
  | [.single] => 1
  | [.multi m paren] => if paren then 1 else m
  | _ :: r => 1 + explistCount r

end GoluaVerif.Spec.Grammar
