/-
  Spec.LuaPattern — what the Lua 5.4 manual (§6.4.1 Patterns, §6.4 string.find /
  match / gmatch / gsub) prescribes, as a short recursive backtracking search in
  the shape of the reference `lstrlib.c` (`do_match`, `max_expand`, `min_expand`,
  `matchbalance`, `match_capture`, `str_find_aux`, `gmatch_aux`, `str_gsub`).

  * `parse` : pattern bytes → `Pat` (items with symbolic character classes), or
      `malformed`   — the string is not in the manual's pattern grammar, or
      `unspecified` — the manual explicitly leaves the meaning open
                      (`%` followed by a letter/digit that is not a class, `[%a-z]`,
                      `[a-%d]`); the correspondence skips these at level A.
  * `matchItems` : structural recursion over the item list; greedy items try the
      longest repetition first, `-` the shortest first, `?` one then zero; the end
      anchor is the base case; captures are a functional array.
  * `find` : leftmost start position.
  * `gmatchAll`, `gsub` : the 5.4 iteration (anchored match at `src`; a match that
      ends where the previous one ended is rejected; otherwise advance one byte).

  Everything is total (structural recursion or explicit fuel that provably
  suffices) and uses core Lean only.
-/
namespace GoluaVerif.Spec.LuaPattern

abbrev Byte := UInt8
abbrev Subject := Array UInt8

/-! ## character classes (C locale, as in the manual's list) -/

def isDigit (c : Byte) : Bool := 48 ≤ c && c ≤ 57
def isLower (c : Byte) : Bool := 97 ≤ c && c ≤ 122
def isUpper (c : Byte) : Bool := 65 ≤ c && c ≤ 90
def isAlpha (c : Byte) : Bool := isLower c || isUpper c
def isAlnum (c : Byte) : Bool := isAlpha c || isDigit c
def isCntrl (c : Byte) : Bool := c < 32 || c == 127
def isGraph (c : Byte) : Bool := 33 ≤ c && c ≤ 126
def isPunct (c : Byte) : Bool := isGraph c && !isAlnum c
def isSpace (c : Byte) : Bool := (9 ≤ c && c ≤ 13) || c == 32
def isXDigit (c : Byte) : Bool := isDigit c || (97 ≤ c && c ≤ 102) || (65 ≤ c && c ≤ 70)

/-- lower-case class letters of the manual (`%z` is the deprecated "byte 0" class, still in 5.4) -/
def lowerClass? (l : Byte) : Option (Byte → Bool) :=
  if l == 97 then some isAlpha        -- a
  else if l == 99 then some isCntrl   -- c
  else if l == 100 then some isDigit  -- d
  else if l == 103 then some isGraph  -- g
  else if l == 108 then some isLower  -- l
  else if l == 112 then some isPunct  -- p
  else if l == 115 then some isSpace  -- s
  else if l == 117 then some isUpper  -- u
  else if l == 119 then some isAlnum  -- w
  else if l == 120 then some isXDigit -- x
  else if l == 122 then some (· == 0) -- z
  else none

/-- `%a … %x` and their upper-case complements -/
def classFn? (l : Byte) : Option (Byte → Bool) :=
  match lowerClass? l with
  | some f => some f
  | none =>
    if isUpper l then
      match lowerClass? (l + 32) with
      | some f => some (fun c => !f c)
      | none => none
    else none

def isClassLetter (l : Byte) : Bool := (classFn? l).isSome

/-- does byte `c` belong to class `%l` (false for a non-class letter) -/
def classMatch (l c : Byte) : Bool :=
  match classFn? l with
  | some f => f c
  | none => false

inductive SetElem where
  | ch (b : Byte)
  | range (lo hi : Byte)
  | cls (letter : Byte)
  deriving Repr, DecidableEq, Inhabited

def SetElem.matches : SetElem → Byte → Bool
  | .ch b, c => b == c
  | .range lo hi, c => lo ≤ c && c ≤ hi
  | .cls l, c => classMatch l c

/-- a single-character class -/
inductive Cls where
  | any
  | lit (b : Byte)
  | named (letter : Byte)
  | set (neg : Bool) (elems : List SetElem)
  deriving Repr, DecidableEq, Inhabited

def Cls.matches : Cls → Byte → Bool
  | .any, _ => true
  | .lit b, c => b == c
  | .named l, c => classMatch l c
  | .set neg es, c => (es.any (·.matches c)) != neg

inductive Quant where
  | one | star | plus | lazy | opt
  deriving Repr, DecidableEq, Inhabited

inductive Item where
  | char (c : Cls) (q : Quant)
  | open (n : Nat)      -- `(` of capture n
  | close (n : Nat)     -- `)` closing capture n
  | pos (n : Nat)       -- `()` position capture n
  | backref (n : Nat)   -- `%n`
  | bal (x y : Byte)    -- `%bxy`
  | frontier (c : Cls)  -- `%f[set]`
  deriving Repr, DecidableEq, Inhabited

structure Pat where
  anchorStart : Bool
  anchorEnd : Bool
  items : List Item
  ncap : Nat
  deriving Repr, DecidableEq, Inhabited

inductive PErr where
  | malformed
  | unspecified
  deriving Repr, DecidableEq, Inhabited

/-- Implementation constant, not in the manual: back-references reach `%1`–`%9`; golua
    rejects a tenth capture (reference Lua: `LUA_MAXCAPTURES` = 32). -/
def maxCaptures : Nat := 9

/-! ## parsing (fuel = remaining length + 1; every step consumes at least one byte) -/

/-- `%x` as a single-character class / set element (after the `%`) -/
def escClass (x : Byte) : Except PErr (Sum Byte Byte) :=   -- inl = class letter, inr = literal
  if isClassLetter x then .ok (.inl x)
  else if isAlnum x then .error .unspecified   -- manual: `%x` only for non-alphanumeric x
  else .ok (.inr x)

/-- elements of a set, after `[`, `[^` and the optional leading `]`; returns the rest after the closing `]` -/
def parseSetElems : Nat → List Byte → List SetElem → Except PErr (List SetElem × List Byte)
  | 0, _, _ => .error .malformed
  | _ + 1, [], _ => .error .malformed
  | _ + 1, 93 :: rest, acc => .ok (acc.reverse, rest)                     -- `]`
  | fuel + 1, 37 :: rest, acc =>                                          -- `%x`
    match rest with
    | [] => .error .malformed
    | x :: rest' =>
      match escClass x with
      | .error e => .error e
      | .ok (.inl l) =>
        match rest' with
        | 45 :: y :: _ => if y == 93 then parseSetElems fuel rest' (.cls l :: acc) else .error .unspecified  -- `[%a-z]`
        | _ => parseSetElems fuel rest' (.cls l :: acc)
      | .ok (.inr b) => parseSetElems fuel rest' (.ch b :: acc)
  | fuel + 1, c :: 45 :: y :: rest, acc =>                                -- `c-y`
    if y == 93 then parseSetElems fuel (45 :: y :: rest) (.ch c :: acc)   -- `c-]` : `-` is literal
    else if y == 37 then .error .unspecified                              -- `[a-%d]`
    else parseSetElems fuel rest (.range c y :: acc)
  | fuel + 1, c :: rest, acc => parseSetElems fuel rest (.ch c :: acc)

/-- the body of a set, after `[` and the optional `^` -/
def parseSetBody (fuel : Nat) (neg : Bool) (p : List Byte) : Except PErr (Cls × List Byte) :=
  match p with
  | 93 :: r =>                      -- a leading `]` is a member
    match r with
    | 45 :: y :: _ =>
      if y == 93 then (parseSetElems fuel r [.ch 93]).map fun x => (.set neg x.1, x.2)
      else .error .unspecified      -- `[]-x]`: a range starting at the leading `]`? the manual does not say
    | _ => (parseSetElems fuel r [.ch 93]).map fun x => (.set neg x.1, x.2)
  | _ => (parseSetElems fuel p []).map fun x => (.set neg x.1, x.2)

/-- a set, after the `[` -/
def parseSet (fuel : Nat) (p : List Byte) : Except PErr (Cls × List Byte) :=
  match p with
  | 94 :: r => parseSetBody fuel true r
  | _ => parseSetBody fuel false p

/-- one single-character class at the head of `p` -/
def parseClass (fuel : Nat) : List Byte → Except PErr (Cls × List Byte)
  | [] => .error .malformed
  | 46 :: rest => .ok (.any, rest)                                         -- `.`
  | 37 :: rest =>                                                          -- `%x`
    match rest with
    | [] => .error .malformed
    | x :: rest' =>
      match escClass x with
      | .error e => .error e
      | .ok (.inl l) => .ok (.named l, rest')
      | .ok (.inr b) => .ok (.lit b, rest')
  | 91 :: rest => parseSet fuel rest                                       -- `[`
  | c :: rest => .ok (.lit c, rest)

def parseQuant : List Byte → Quant × List Byte
  | 42 :: r => (.star, r)
  | 43 :: r => (.plus, r)
  | 45 :: r => (.lazy, r)
  | 63 :: r => (.opt, r)
  | r => (.one, r)

structure PState where
  items : List Item      -- reversed
  ncap : Nat
  stack : List Nat       -- open captures, innermost first
  anchorEnd : Bool

def parseItems : Nat → List Byte → PState → Except PErr PState
  | 0, _, _ => .error .malformed
  | _ + 1, [], st => if st.stack.isEmpty then .ok st else .error .malformed     -- unfinished capture
  | _ + 1, [36], st =>                                                           -- `$` as the last byte
    if st.stack.isEmpty then .ok { st with anchorEnd := true } else .error .malformed
  | fuel + 1, 40 :: rest, st =>                                                  -- `(`
    if st.ncap + 1 > maxCaptures then .error .malformed else
    match rest with
    | [] => .error .malformed
    | 41 :: rest' => parseItems fuel rest' { st with items := .pos (st.ncap + 1) :: st.items, ncap := st.ncap + 1 }
    | _ => parseItems fuel rest { st with items := .open (st.ncap + 1) :: st.items, ncap := st.ncap + 1,
                                          stack := (st.ncap + 1) :: st.stack }
  | fuel + 1, 41 :: rest, st =>                                                  -- `)`
    match st.stack with
    | [] => .error .malformed
    | n :: stk => parseItems fuel rest { st with items := .close n :: st.items, stack := stk }
  | fuel + 1, 37 :: 98 :: rest, st =>                                            -- `%b`
    match rest with
    | x :: y :: rest' => parseItems fuel rest' { st with items := .bal x y :: st.items }
    | _ => .error .malformed
  | fuel + 1, 37 :: 102 :: rest, st =>                                           -- `%f`
    match rest with
    | 91 :: rest' =>
      match parseSet fuel rest' with
      | .error e => .error e
      | .ok (c, rest'') => parseItems fuel rest'' { st with items := .frontier c :: st.items }
    | _ => .error .malformed
  | fuel + 1, 37 :: d :: rest, st =>
    if isDigit d then                                                            -- `%0` … `%9`
      let n := (d - 48).toNat
      if n = 0 ∨ n > st.ncap ∨ st.stack.contains n then .error .malformed        -- invalid capture index
      else parseItems fuel rest { st with items := .backref n :: st.items }
    else
      match parseClass fuel (37 :: d :: rest) with
      | .error e => .error e
      | .ok (c, rest') =>
        let (q, rest'') := parseQuant rest'
        parseItems fuel rest'' { st with items := .char c q :: st.items }
  | fuel + 1, p, st =>
    match parseClass fuel p with
    | .error e => .error e
    | .ok (c, rest') =>
      let (q, rest'') := parseQuant rest'
      parseItems fuel rest'' { st with items := .char c q :: st.items }

/-- a `^` at the very beginning is the start anchor -/
def stripCaret (p : List Byte) : Bool × List Byte :=
  match p with
  | 94 :: r => (true, r)
  | _ => (false, p)

def parse (p : List Byte) : Except PErr Pat :=
  match parseItems ((stripCaret p).2.length + 1) (stripCaret p).2
      { items := [], ncap := 0, stack := [], anchorEnd := false } with
  | .error e => .error e
  | .ok st => .ok { anchorStart := (stripCaret p).1, anchorEnd := st.anchorEnd, items := st.items.reverse, ncap := st.ncap }

/-! ## matching -/

/-- state of one capture during a match -/
inductive Cap where
  | unset
  | opened (start : Nat)
  | closed (start stop : Nat)
  | position (p : Nat)
  deriving Repr, DecidableEq, Inhabited

abbrev Caps := List Cap

def Caps.init : Caps := List.replicate (maxCaptures + 1) .unset

/-- `singlematch`: is there a byte at `p` and does it belong to `c` -/
def single (s : Subject) (c : Cls) (p : Nat) : Bool :=
  match s[p]? with
  | some b => c.matches b
  | none => false

/-- length of the longest run of `c` starting at `p` (fuel = bytes left) -/
def runLen (s : Subject) (c : Cls) (p : Nat) : Nat → Nat
  | 0 => 0
  | fuel + 1 => if single s c p then runLen s c (p + 1) fuel + 1 else 0

/-- `max_expand`: try `k (p+n)`, `k (p+n-1)`, …, `k p` -/
def maxExpand {α} (k : Nat → Option α) (p : Nat) : Nat → Option α
  | 0 => k p
  | n + 1 => (k (p + n + 1)).orElse fun _ => maxExpand k p n

/-- `min_expand`: try `k p`; on failure consume one more `c` and retry (fuel = bytes left) -/
def minExpand {α} (k : Nat → Option α) (s : Subject) (c : Cls) (p : Nat) : Nat → Option α
  | 0 => k p
  | fuel + 1 => (k p).orElse fun _ => if single s c p then minExpand k s c (p + 1) fuel else none

/-- `matchbalance`: after the opening byte at `p-1`; returns the position after the closing byte -/
def balance (s : Subject) (x y : Byte) (p : Nat) (depth : Nat) : Nat → Option Nat
  | 0 => none
  | fuel + 1 =>
    match s[p]? with
    | none => none
    | some b =>
      if b == y then (if depth = 0 then some (p + 1) else balance s x y (p + 1) (depth - 1) fuel)
      else if b == x then balance s x y (p + 1) (depth + 1) fuel
      else balance s x y (p + 1) depth fuel

def eqSlice (s : Subject) (a b len : Nat) : Bool :=
  (List.range len).all fun i => s[a + i]? == s[b + i]? && (s[a + i]?).isSome

/-- byte before / at `p`, `0` outside the subject (frontier) -/
def byteAt (s : Subject) (p : Nat) : Byte := (s[p]?).getD 0

/-- `do_match` on the parsed items.  Result: end position and captures. -/
def matchItems (s : Subject) (anchorEnd : Bool) : List Item → Nat → Caps → Option (Nat × Caps)
  | [], p, caps => if anchorEnd && p != s.size then none else some (p, caps)
  | .char c .one :: rest, p, caps =>
    if single s c p then matchItems s anchorEnd rest (p + 1) caps else none
  | .char c .star :: rest, p, caps =>
    maxExpand (fun q => matchItems s anchorEnd rest q caps) p (runLen s c p (s.size - p))
  | .char c .plus :: rest, p, caps =>
    if single s c p then
      maxExpand (fun q => matchItems s anchorEnd rest q caps) (p + 1) (runLen s c (p + 1) (s.size - (p + 1)))
    else none
  | .char c .lazy :: rest, p, caps =>
    minExpand (fun q => matchItems s anchorEnd rest q caps) s c p (s.size - p)
  | .char c .opt :: rest, p, caps =>
    if single s c p then
      (matchItems s anchorEnd rest (p + 1) caps).orElse fun _ => matchItems s anchorEnd rest p caps
    else matchItems s anchorEnd rest p caps
  | .open n :: rest, p, caps => matchItems s anchorEnd rest p (caps.set n (.opened p))
  | .close n :: rest, p, caps =>
    match caps.getD n .unset with
    | .opened st => matchItems s anchorEnd rest p (caps.set n (.closed st p))
    | _ => none
  | .pos n :: rest, p, caps => matchItems s anchorEnd rest p (caps.set n (.position p))
  | .backref n :: rest, p, caps =>
    match caps.getD n .unset with
    | .closed st en =>
      let len := en - st
      if p + len ≤ s.size && eqSlice s st p len then matchItems s anchorEnd rest (p + len) caps else none
    | _ => none     -- a position capture holds no string: never matches (as in the reference)
  | .bal x y :: rest, p, caps =>
    if s[p]? == some x then
      match balance s x y (p + 1) 0 (s.size - p) with
      | some q => matchItems s anchorEnd rest q caps
      | none => none
    else none
  | .frontier c :: rest, p, caps =>
    let prev := if p = 0 then (0 : Byte) else byteAt s (p - 1)
    if !c.matches prev && c.matches (byteAt s p) then matchItems s anchorEnd rest p caps else none

/-- a successful match: whole-match bounds and captures 1..ncap -/
structure MatchRes where
  start : Nat
  stop : Nat
  caps : List Cap
  deriving Repr, DecidableEq, Inhabited

/-- anchored attempt at exactly `p` -/
def matchAt (pat : Pat) (s : Subject) (p : Nat) : Option MatchRes :=
  match matchItems s pat.anchorEnd pat.items p Caps.init with
  | some (e, caps) => some { start := p, stop := e, caps := (caps.drop 1).take pat.ncap }
  | none => none

/-- leftmost: try `p`, `p+1`, …, `p+n` -/
def scan (pat : Pat) (s : Subject) (p : Nat) : Nat → Option MatchRes
  | 0 => matchAt pat s p
  | n + 1 => (matchAt pat s p).orElse fun _ => scan pat s (p + 1) n

/-- `str_find_aux` on 0-based `init ≤ #s` (anchor honoured) -/
def findParsed (pat : Pat) (s : Subject) (init : Nat) : Option MatchRes :=
  if init > s.size then none
  else if pat.anchorStart then matchAt pat s init
  else scan pat s init (s.size - init)

inductive Outcome where
  | error
  | unspecified
  | noMatch
  | found (m : MatchRes)
  deriving Repr, DecidableEq, Inhabited

/-- THE specification function: pattern bytes, subject, 0-based start position -/
def find (p : List Byte) (s : Subject) (init : Nat) : Outcome :=
  match parse p with
  | .error .malformed => .error
  | .error .unspecified => .unspecified
  | .ok pat =>
    match findParsed pat s init with
    | some m => .found m
    | none => .noMatch

/-! ## the Lua-level functions -/

/-- Lua values that these functions return -/
inductive LVal where
  | nil
  | int (n : Int)
  | str (b : List Byte)
  deriving Repr, DecidableEq, Inhabited

def slice (s : Subject) (a b : Nat) : List Byte := (s.toList.drop a).take (b - a)

def capValue (s : Subject) : Cap → LVal
  | .closed a b => .str (slice s a b)
  | .position p => .int (p + 1)
  | .opened _ => .nil
  | .unset => .nil

/-- captures as returned by match/gmatch/gsub: the whole match when the pattern has none -/
def capValues (s : Subject) (m : MatchRes) : List LVal :=
  if m.caps.isEmpty then [.str (slice s m.start m.stop)] else m.caps.map (capValue s)

/-- §6.4: translate a 1-based, possibly negative `init` into a 0-based offset (`posrelatI`) -/
def normInit (len : Nat) (init : Int) : Nat :=
  if init > 0 then (init - 1).toNat
  else if init = 0 then 0
  else if -init > len then 0
  else (len + init).toNat

inductive Res where
  | error
  | unspecified
  | vals (vs : List LVal)
  deriving Repr, DecidableEq, Inhabited

def withPat (p : List Byte) (f : Pat → Res) : Res :=
  match parse p with
  | .error .malformed => .error
  | .error .unspecified => .unspecified
  | .ok pat => f pat

/-- first occurrence of `needle` in `s` at or after `from` (plain find) -/
def plainFind (s : Subject) (needle : List Byte) (pos : Nat) : Nat → Option Nat
  | 0 => if slice s pos (pos + needle.length) == needle && pos + needle.length ≤ s.size then some pos else none
  | n + 1 =>
    if slice s pos (pos + needle.length) == needle && pos + needle.length ≤ s.size then some pos
    else plainFind s needle (pos + 1) n

/-- `init` beyond `#s + 1`: the reference answers "no match" before it ever looks at the pattern, golua
    compiles the pattern first in `match`/`gmatch`; for a malformed pattern the manual does not say which
    comes first, so that corner is left open. -/
def beyondEnd (p : List Byte) (noMatch : List LVal) : Res :=
  match parse p with
  | .ok _ => .vals noMatch
  | .error _ => .unspecified

def strFind (s : Subject) (p : List Byte) (init : Int) (plain : Bool) : Res :=
  let i := normInit s.size init
  if plain then
    if i > s.size then .vals [.nil]
    else match plainFind s p i (s.size - i) with
      | some k => .vals [.int (k + 1), .int (k + p.length)]
      | none => .vals [.nil]
  else if i > s.size then beyondEnd p [.nil]
  else withPat p fun pat =>
    match findParsed pat s i with
    | some m => .vals ([.int (m.start + 1), .int m.stop] ++ m.caps.map (capValue s))
    | none => .vals [.nil]

def strMatch (s : Subject) (p : List Byte) (init : Int) : Res :=
  let i := normInit s.size init
  if i > s.size then beyondEnd p [.nil]
  else withPat p fun pat =>
    match findParsed pat s i with
    | some m => .vals (capValues s m)
    | none => .vals [.nil]

/-- `gmatch_aux` iterated: all successive matches.  `src` scans; `last` = end of the previous match. -/
def gmatchLoop (pat : Pat) (s : Subject) : Nat → Nat → Option Nat → List MatchRes
  | 0, _, _ => []
  | fuel + 1, src, last =>
    if src > s.size then [] else
    match matchAt pat s src with
    | some m =>
      if some m.stop != last then m :: gmatchLoop pat s fuel m.stop (some m.stop)
      else gmatchLoop pat s fuel (src + 1) last
    | none => gmatchLoop pat s fuel (src + 1) last

/-- fuel: every iteration either advances `src` or is the (single) empty match at `src` -/
def gmatchFuel (s : Subject) : Nat := 2 * s.size + 4

/-- all results of iterating `string.gmatch(s, p, init)`; a pattern starting with `^` is left open
    by the manual ("does not work as an anchor") -/
def strGmatch (s : Subject) (p : List Byte) (init : Int) : Res :=
  let i := normInit s.size init
  if i > s.size then beyondEnd p []
  else withPat p fun pat =>
    if pat.anchorStart then .unspecified else
    let ms := gmatchLoop pat s (gmatchFuel s) i none
    .vals (ms.map (fun m => capValues s m)).flatten

/-- expansion of a replacement string: `%0`–`%9`, `%%`.  A `%` followed by anything else (or by nothing)
    is not given a meaning by the manual (`unspecified`; the reference raises an error, golua raises an
    error except for a trailing `%` or `%` before a newline, which it copies).  `%d` beyond the number of
    captures is an error. -/
def expandRepl (s : Subject) (m : MatchRes) : List Byte → Except PErr (List Byte)
  | [] => .ok []
  | 37 :: [] => .error .unspecified
  | 37 :: d :: rest =>
    if d == 37 then (expandRepl s m rest).map (37 :: ·)
    else if isDigit d then
      let n := (d - 48).toNat
      let v : Except PErr (List Byte) :=
        if n = 0 then .ok (slice s m.start m.stop)
        else if m.caps.isEmpty then (if n = 1 then .ok (slice s m.start m.stop) else .error .malformed)
        else match m.caps[n - 1]? with
          | some (.closed a b) => .ok (slice s a b)
          | some (.position q) => .ok (toString (q + 1)).toUTF8.toList
          | _ => .error .malformed
      match v with
      | .error e => .error e
      | .ok bytes => (expandRepl s m rest).map (bytes ++ ·)
    else .error .unspecified
  | c :: rest => (expandRepl s m rest).map (c :: ·)

structure GsubAcc where
  out : List Byte
  count : Nat

/-- `str_gsub` main loop -/
def gsubLoop (pat : Pat) (s : Subject) (repl : List Byte) (maxN : Nat) :
    Nat → Nat → Option Nat → GsubAcc → Except PErr GsubAcc
  | 0, _, _, acc => .ok acc
  | fuel + 1, src, last, acc =>
    if acc.count ≥ maxN then .ok { acc with out := acc.out ++ slice s src s.size } else
    let m? := match matchAt pat s src with
      | some m => if some m.stop != last then some m else none
      | none => none
    match m? with
    | some m =>
      match expandRepl s m repl with
      | .error e => .error e
      | .ok r =>
        let acc' : GsubAcc := { out := acc.out ++ r, count := acc.count + 1 }
        if pat.anchorStart then .ok { acc' with out := acc'.out ++ slice s m.stop s.size }
        else gsubLoop pat s repl maxN fuel m.stop (some m.stop) acc'
    | none =>
      if src < s.size then
        let acc' : GsubAcc := { acc with out := acc.out ++ [s[src]!] }
        if pat.anchorStart then .ok { acc' with out := acc'.out ++ slice s (src + 1) s.size }
        else gsubLoop pat s repl maxN fuel (src + 1) last acc'
      else .ok acc

/-- `string.gsub(s, p, repl [, n])` for a string `repl`; `maxN = none` = no limit -/
def strGsub (s : Subject) (p : List Byte) (repl : List Byte) (maxN : Option Nat) : Res :=
  withPat p fun pat =>
    match gsubLoop pat s repl (maxN.getD (s.size + 1)) (gmatchFuel s) 0 none { out := [], count := 0 } with
    | .error .malformed => .error
    | .error .unspecified => .unspecified
    | .ok acc => .vals [.str acc.out, .int acc.count]

end GoluaVerif.Spec.LuaPattern
