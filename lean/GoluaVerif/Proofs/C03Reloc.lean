/-
  Proofs.C03Reloc — the three hashed-mode cases of `insertNewKeyValue` preserve `HashInv`
  (`HashedInsertOK`).
-/
import GoluaVerif.Proofs.C03Chain
namespace GoluaVerif.Model.Table
open GoluaVerif.Spec (Key Val Map)

section
variable (hash : Key → Nat)

theorem idx_congr {α} (l : List α) (a b : Nat) (e : a = b) (ha : a < l.length) : l[a] = l[b]'(e ▸ ha) := by
  subst e; rfl

/-- a chain that avoids the rewritten slots is unchanged -/
theorem chain_frame (slots s' : List Slot) (f q : Nat) (l : List Nat) (h : chain slots f q = some l)
    (hlen : s'.length = slots.length)
    (hsame : ∀ x ∈ l, ∀ (hx : x < slots.length), s'[x]'(hlen ▸ hx) = slots[x]) :
    chain s' f q = some l := by
  have := chain_map slots s' id f q l h (by
    intro x hx hxl
    refine ⟨hlen ▸ hxl, ?_, ?_⟩
    · simp only [id]; rw [hsame x hx hxl]
    · intro _; simp only [id]; rw [hsame x hx hxl])
  simpa using this

/-- `ChainInv` is preserved when the rewritten slots keep every old chain intact (frame) and the new
    facts about the rewritten slots are supplied separately -/
theorem nextFreeOk_after_fill (slots s : List Slot) (nf : Nat) (hl : s.length = slots.length)
    (hnf : nf < slots.length)
    (habove : ∀ j (h : j < slots.length), nf < j → slots[j].key ≠ none)
    (hkeep : ∀ j (h : j < slots.length), slots[j].key ≠ none → (s[j]'(hl ▸ h)).key ≠ none) :
    ∃ r, updateNextFree s (some nf) = some r ∧ NextFreeOk s r := by
  apply updateNextFree_ok s nf (hl ▸ hnf)
  intro j hj hlt
  exact hkeep j (hl ▸ hj) (habove j (hl ▸ hj) hlt)

/-- case 1: the primary slot of the new key is empty -/
theorem insertNew_emptyPrimary (t : HashTable) (asize : Nat) (kk : Key) (v : Val) (inv : HashInv hash t asize)
    (hm : smallHashTableSize ≤ t.mask) (nk : NewKeyOK t.slots asize kk) (nf : Nat) (hnf : t.nextFree = some nf)
    (p : Nat) (hpe : prim hash t.mask kk = p) (hp : p < t.slots.length) (hempty : (t.slots[p]).key = none) :
    InsertNewResult hash t asize kk v := by
  have ci := inv.chains hm
  have nfo := inv.next_free
  rw [hnf] at nfo
  obtain ⟨hnfl, hnfe, habove⟩ := nfo
  let it : Slot := ⟨some kk, some v, 0, false, false⟩
  let s := t.slots.set p it
  have hl : s.length = t.slots.length := List.length_set
  have ge : ∀ j (hj : j < s.length), s[j] = if p = j then it else t.slots[j]'(hl ▸ hj) := by
    intro j hj; simp only [s]; rw [List.getElem_set]
  obtain ⟨ki', hlook⟩ := keysInv_set_empty t.slots asize inv.keysInv p hp kk nk it rfl
  -- nextFree
  have hnf' : ∃ nf', (if (t.nextFree = some p) then updateNextFree s t.nextFree else some t.nextFree) = some nf' ∧
      NextFreeOk s nf' := by
    by_cases e : t.nextFree = some p
    · simp only [e, if_true]
      have epn : p = nf := by rw [hnf] at e; exact (Option.some.inj e).symm
      refine nextFreeOk_after_fill t.slots s p hl hp (by rw [epn]; exact habove) ?_
      intro j hj hne
      rw [ge]; split
      · simp [it]
      · exact hne
    · simp only [e, if_false]
      refine ⟨t.nextFree, rfl, ?_⟩
      rw [hnf]
      have hpn : ¬ p = nf := by intro e'; apply e; rw [hnf, e']
      refine ⟨hl ▸ hnfl, by rw [ge]; simp [hpn, hnfe], ?_⟩
      intro j hj hlt
      rw [ge]; split
      · simp [it]
      · exact habove j (hl ▸ hj) hlt
  obtain ⟨nf', enf, hnfok⟩ := hnf'
  -- members of old chains are non-empty, hence different from p
  have frame : ∀ (q : Nat) (l : List Nat) (f : Nat), chain t.slots f q = some l → (∀ x ∈ l, x ≠ p) →
      chain s f q = some l := by
    intro q l f hc hne
    apply chain_frame t.slots s f q l hc hl
    intro x hx hxl
    have : ¬ p = x := fun e => hne x hx e.symm
    rw [ge]; simp [this]
  have cnt' : cnt s = cnt t.slots + 1 := cnt_set_empty _ _ hp hempty it rfl
  refine ⟨s, decide (t.nextFree = some p), nf', ?_, by simpa using enf, ?_, ?_, cnt',
    hasKey_set_empty _ _ hp hempty it kk rfl⟩
  · have hsm : ¬ t.mask < smallHashTableSize := by omega
    have e1 : hash kk &&& t.mask = p := hpe
    simp only [insertNew, hsm, if_false, e1, List.getElem?_eq_getElem hp, Option.bind_eq_bind, Option.bind_some]
    have hke : (t.slots[p]).key = none := hempty
    simp [hke, setAt, hp, s, it]
  · refine ⟨by rw [hl]; exact inv.size, hnfok, ki'.empty_zero, ki'.nodup, ki'.disjoint, ki'.normal, ?_⟩
    intro _
    have hmask : (HashTable.mk s nf' t.base).mask = t.mask := rfl
    rw [hmask]
    refine ⟨?_, ?_, ?_⟩
    · intro i hi k hk hc
      rw [ge] at hk hc
      by_cases e : p = i
      · simp only [e, if_true, it, Option.some.injEq] at hk
        rw [← hk, ← e]; exact hpe
      · simp only [e, if_false] at hk hc
        exact ci.unchained_primary i (hl ▸ hi) k hk hc
    · intro i hi k hk
      rw [ge] at hk
      by_cases e : p = i
      · simp only [e, if_true, it, Option.some.injEq] at hk
        subst hk
        unfold onChain
        rw [hpe, cnt']
        have : chain s (cnt t.slots + 1) p = some [p] := by
          rw [chain, List.getElem?_eq_getElem (hl ▸ hp), ge]
          simp [it]
        rw [this, List.getElem?_eq_getElem (hl ▸ hp), ge]
        simp [e, it]
      · simp only [e, if_false] at hk
        obtain ⟨l, hpl, hc, hm', hch, k0, hk0, _⟩ := on_chain_head hash t.slots t.mask ci inv.empty_zero i (hl ▸ hi) k hk
        have hmem := chain_members hash t.slots t.mask ci _ _ l hc k0 hpl hk0
        have hne : ∀ x ∈ l, x ≠ p := by
          intro x hx ex
          obtain ⟨hx', ⟨kx, hkx, _⟩, _⟩ := hmem x hx
          subst ex
          rw [hempty] at hkx; cases hkx
        have hc' := chain_mono _ _ _ _ (frame _ l _ hc hne)
        unfold onChain
        rw [cnt', hc', List.getElem?_eq_getElem (hl ▸ hpl), ge]
        have : ¬ p = prim hash t.mask k := by
          intro e'
          have : prim hash t.mask k ∈ l := by
            obtain ⟨tail, el, _⟩ := chain_head _ _ _ _ hc
            rw [el]; simp
          exact hne _ this e'.symm
        simp [this, hch, hm']
    · intro j hj hn
      rw [ge] at hn
      by_cases e : p = j
      · simp [e, it] at hn
      · simp only [e, if_false] at hn
        obtain ⟨hnx, hch, k, k', e1, e2, e3⟩ := ci.next_ok j (hl ▸ hj) hn
        have hjs : s[j] = t.slots[j]'(hl ▸ hj) := by rw [ge]; simp [e]
        have hnp : ¬ p = t.slots[j].next := by
          intro e'
          have h2 := idx_congr t.slots _ _ e' hp
          have h3 : (t.slots[p]).key = none := hempty
          rw [h2, e2] at h3; cases h3
        have hns : s[t.slots[j].next]'(by omega) = t.slots[t.slots[j].next] := by rw [ge]; simp [hnp]
        have hnx9 : s[j].next = t.slots[j].next := by rw [hjs]
        refine ⟨by show s[j].next < s.length; omega, ?_, k, k', ?_, ?_, e3⟩
        · simp only [hjs]; rw [hns]; exact hch
        · rw [hjs]; exact e1
        · simp only [hjs]; rw [hns]; exact e2
  · intro k'
    rw [hlook k']
    have : ¬ (t.slots[p]).key = some k' := by rw [hempty]; simp
    simp [this, it]

/-- rewriting the chain fields of a non-empty slot (same key, same value) changes neither the key
    invariants nor the bindings -/
theorem keysInv_set_same_kv (slots : List Slot) (asize : Nat) (ki : KeysInv slots asize) (j : Nat) (hj : j < slots.length)
    (x : Slot) (hk : x.key = slots[j].key) (hv : x.val = slots[j].val) (hne : slots[j].key ≠ none) :
    KeysInv (slots.set j x) asize ∧ (∀ k', hashLookup (slots.set j x) k' = hashLookup slots k') ∧
      cnt (slots.set j x) = cnt slots ∧ (∀ k', HasKey (slots.set j x) k' ↔ HasKey slots k') := by
  have hl : (slots.set j x).length = slots.length := List.length_set
  have gk : ∀ i (hi : i < (slots.set j x).length), (slots.set j x)[i].key = (slots[i]'(hl ▸ hi)).key := by
    intro i hi; rw [List.getElem_set]; split
    · rename_i e; subst e; exact hk
    · rfl
  have gv : ∀ i (hi : i < (slots.set j x).length), (slots.set j x)[i].val = (slots[i]'(hl ▸ hi)).val := by
    intro i hi; rw [List.getElem_set]; split
    · rename_i e; subst e; exact hv
    · rfl
  have nd' : NoDup (slots.set j x) := by
    intro a ha b hb h1 h2
    rw [gk] at h1 h2; rw [gk] at h2
    exact ki.nodup a (hl ▸ ha) b (hl ▸ hb) h1 h2
  refine ⟨⟨?_, nd', ?_, ?_⟩, ?_, ?_, ?_⟩
  · intro i hi hke
    have hke' := hke
    rw [gk] at hke'
    rw [List.getElem_set]; split
    · rename_i e; subst e; exact absurd hke' hne
    · exact ki.empty_zero i (hl ▸ hi) hke'
  · intro i hi z hz; rw [gk] at hz; exact ki.disjoint i (hl ▸ hi) z hz
  · intro i hi k hkk; rw [gk] at hkk; exact ki.normal i (hl ▸ hi) k hkk
  · intro k'
    by_cases hex : ∃ i, ∃ (hi : i < slots.length), slots[i].key = some k'
    · obtain ⟨i, hi, hki⟩ := hex
      rw [hashLookup_found _ nd' i (hl ▸ hi) k' (by rw [gk]; exact hki), hashLookup_found _ ki.nodup i hi k' hki, gv]
    · have habs : ∀ i (hi : i < slots.length), slots[i].key ≠ some k' := fun i hi h => hex ⟨i, hi, h⟩
      rw [hashLookup_absent _ _ habs, hashLookup_absent]
      intro i hi; rw [gk]; exact habs i (hl ▸ hi)
  · unfold cnt
    rw [List.countP_set hj]
    have h1 : (slots[j]).key.isSome = true := by
      cases h : slots[j].key with
      | none => exact absurd h hne
      | some _ => rfl
    have h2 : x.key.isSome = true := by rw [hk]; exact h1
    simp only [h1, h2, if_true]
    have : 0 < List.countP (fun x => x.key.isSome) slots :=
      List.countP_pos_iff.2 ⟨slots[j], List.getElem_mem hj, h1⟩
    omega
  · intro k'
    constructor
    · rintro ⟨i, hi, hki⟩; rw [gk] at hki; exact ⟨i, hl ▸ hi, hki⟩
    · rintro ⟨i, hi, hki⟩; exact ⟨i, hl ▸ hi, by rw [gk]; exact hki⟩

/-- case 3: the primary slot of the new key holds an item that is in ITS primary slot: that item moves
    to `nextFree` (flagged chained) and the new item becomes the head of the chain -/
theorem insertNew_occupantPrimary (t : HashTable) (asize : Nat) (kk : Key) (v : Val) (inv : HashInv hash t asize)
    (hm : smallHashTableSize ≤ t.mask) (nk : NewKeyOK t.slots asize kk) (nf : Nat) (hnf : t.nextFree = some nf)
    (p : Nat) (hpe : prim hash t.mask kk = p) (hp : p < t.slots.length) (ck : Key)
    (hck : (t.slots[p]).key = some ck) (hnc : (t.slots[p]).chained = false) :
    InsertNewResult hash t asize kk v := by
  have ci := inv.chains hm
  have ki := inv.keysInv
  have nfo := inv.next_free
  rw [hnf] at nfo
  obtain ⟨hnfl, hnfe, habove⟩ := nfo
  have hpn : ¬ p = nf := by intro e; subst e; rw [hnfe] at hck; cases hck
  have hnp : ¬ nf = p := fun e => hpn e.symm
  have hkne : ¬ ck = kk := by intro e; subst e; exact nk.absent p hp hck
  have hpck : prim hash t.mask ck = p := ci.unchained_primary p hp ck hck hnc
  let c' : Slot := { t.slots[p] with chained := true }
  let itp : Slot := ⟨some kk, some v, nf, true, false⟩
  let s := (t.slots.set nf c').set p itp
  have hl : s.length = t.slots.length := by simp [s]
  have ge : ∀ j (hj : j < s.length), s[j] = if p = j then itp else if nf = j then c' else t.slots[j]'(hl ▸ hj) := by
    intro j hj; simp only [s]; rw [List.getElem_set, List.getElem_set]
  -- keys, values
  have hcomm : s = (t.slots.set p itp).set nf c' := by simp only [s]; rw [List.set_comm _ _ hnp]
  obtain ⟨kiA, lookA⟩ := keysInv_set_empty t.slots asize ki p hp kk nk itp rfl
  have hlA : (t.slots.set p itp).length = t.slots.length := List.length_set
  have geA : ∀ j (hj : j < (t.slots.set p itp).length), (t.slots.set p itp)[j] = if p = j then itp else t.slots[j]'(hlA ▸ hj) := by
    intro j hj; rw [List.getElem_set]
  have nkB : NewKeyOK (t.slots.set p itp) asize ck := by
    refine ⟨?_, ki.normal p hp ck hck, fun z ez => by subst ez; exact ki.disjoint p hp z hck⟩
    intro i hi hki
    rw [geA] at hki
    by_cases e : p = i
    · simp only [e, if_true, itp, Option.some.injEq] at hki; exact hkne hki.symm
    · simp only [e, if_false] at hki
      exact e (ki.nodup p hp i (hlA ▸ hi) (by simp [hck]) (by rw [hck, hki]))
  obtain ⟨kiB, lookB⟩ := keysInv_set_empty (t.slots.set p itp) asize kiA nf (hlA ▸ hnfl) ck nkB c' hck
  rw [← hcomm] at kiB lookB
  have hAnf : ((t.slots.set p itp)[nf]'(hlA ▸ hnfl)).key = none := by rw [geA]; simp [hpn, hnfe]
  have hlook : ∀ k', hashLookup s k' = if k' = kk then some v else hashLookup t.slots k' := by
    intro k'
    rw [lookB k', lookA k']
    have hfound := hashLookup_found t.slots ki.nodup p hp ck hck
    by_cases e1 : k' = ck
    · subst e1
      simp [hkne, c', hfound]
    · have : ¬ ((t.slots.set p itp)[nf]'(hlA ▸ hnfl)).key = some k' := by rw [hAnf]; simp
      simp only [e1, if_false, this]
      by_cases e2 : k' = kk
      · simp [e2, itp]
      · have : ¬ (t.slots[p]).key = some k' := by rw [hck]; intro h; exact e1 (Option.some.inj h).symm
        simp [e2, this]
  have hcnt : cnt s = cnt t.slots + 1 := by
    rw [hcomm, cnt_set_empty _ _ (hlA ▸ hnfl) hAnf c' (by simp [c', hck])]
    congr 1
    unfold cnt
    rw [List.countP_set hp]
    simp [hck, itp]
    have : 0 < List.countP (fun x => x.key.isSome) t.slots := by
      apply List.countP_pos_iff.2
      exact ⟨t.slots[p], List.getElem_mem hp, by simp [hck]⟩
    omega
  have hkeys : ∀ k', HasKey s k' ↔ k' = kk ∨ HasKey t.slots k' := by
    intro k'
    constructor
    · rintro ⟨i, hi, hki⟩
      rw [ge] at hki
      by_cases e : p = i
      · simp only [e, if_true, itp, Option.some.injEq] at hki; exact Or.inl hki.symm
      · by_cases e2 : nf = i
        · simp only [e, e2, if_false, if_true, c'] at hki
          exact Or.inr ⟨p, hp, hki⟩
        · simp only [e, e2, if_false] at hki
          exact Or.inr ⟨i, hl ▸ hi, hki⟩
    · rintro (e | ⟨i, hi, hki⟩)
      · subst e; exact ⟨p, hl ▸ hp, by rw [ge]; simp [itp]⟩
      · by_cases e : p = i
        · subst e
          refine ⟨nf, hl ▸ hnfl, ?_⟩
          rw [ge]; simp [hpn, c', hki]
        · have e2 : ¬ nf = i := by intro e2; subst e2; rw [hnfe] at hki; cases hki
          exact ⟨i, hl ▸ hi, by rw [ge]; simp [e, e2, hki]⟩
  -- nextFree
  obtain ⟨nf', enf, hnfok⟩ := nextFreeOk_after_fill t.slots s nf hl hnfl habove (by
    intro j hj hne
    rw [ge]
    by_cases e : p = j
    · simp [e, itp]
    · by_cases e2 : nf = j
      · simp [e, e2, c', hck]
      · simp [e, e2, hne])
  -- the chain that starts in p
  obtain ⟨l, _, hc, _, _, _⟩ := on_chain_head hash t.slots t.mask ci inv.empty_zero p hp ck hck
  rw [hpck] at hc
  obtain ⟨tail, el, _, htnone, htsome⟩ := chain_head t.slots _ _ l hc
  subst el
  have hmem := chain_members hash t.slots t.mask ci _ _ _ hc ck hp hck
  have htail_ne : ∀ x ∈ tail, x ≠ p ∧ x ≠ nf := by
    intro x hx
    obtain ⟨hx', ⟨kx, hkx, _⟩, hcx⟩ := hmem x (List.mem_cons_of_mem _ hx)
    constructor
    · intro e; subst e
      have hnd := chain_nodup t.slots _ _ _ hc
      rw [List.nodup_cons] at hnd
      exact hnd.1 hx
    · intro e; subst e; rw [hnfe] at hkx; cases hkx
  -- frame for chains that avoid p and nf
  have frame : ∀ (q : Nat) (l : List Nat) (f : Nat), chain t.slots f q = some l → (∀ x ∈ l, x ≠ p ∧ x ≠ nf) →
      chain s f q = some l := by
    intro q l f hcq hne
    apply chain_frame t.slots s f q l hcq hl
    intro x hx hxl
    have h1 : ¬ p = x := fun e => (hne x hx).1 e.symm
    have h2 : ¬ nf = x := fun e => (hne x hx).2 e.symm
    rw [ge]; simp [h1, h2]
  have hcnt_pos : 1 ≤ cnt t.slots := by
    apply List.countP_pos_iff.2
    exact ⟨t.slots[p], List.getElem_mem hp, by simp [hck]⟩
  -- the new chain from p: p, nf, then the old tail
  have hnew : chain s (cnt s) p = some (p :: nf :: tail) := by
    rw [hcnt]
    rw [chain, List.getElem?_eq_getElem (hl ▸ hp), ge]
    simp only [if_true, itp]
    obtain ⟨f0, ef0⟩ : ∃ f0, cnt t.slots = f0 + 1 := ⟨cnt t.slots - 1, by omega⟩
    rw [ef0, chain, List.getElem?_eq_getElem (hl ▸ hnfl), ge]
    simp only [hpn, if_false, if_true, c']
    by_cases hn : (t.slots[p]).hasNext = true
    · obtain ⟨f', ef', hct⟩ := htsome hn
      have : f' = f0 := by omega
      subst this
      simp only [hn, if_true]
      rw [frame _ tail _ hct htail_ne]
      rfl
    · have := htnone (by simpa using hn)
      subst this
      simp [hn]
  refine ⟨s, true, nf', ?_, by rw [hnf]; simpa using enf, ?_, hlook, hcnt, hkeys⟩
  · have hsm : ¬ t.mask < smallHashTableSize := by omega
    have e1 : hash kk &&& t.mask = p := hpe
    simp only [insertNew, hsm, if_false, e1, List.getElem?_eq_getElem hp, Option.bind_eq_bind, Option.bind_some, hck,
      hnc, hnf, Bool.false_eq_true, setAt, hnfl, if_true]
    simp [hp, hck, s, c', itp]
  · refine ⟨by rw [hl]; exact inv.size, hnfok, kiB.empty_zero, kiB.nodup, kiB.disjoint, kiB.normal, ?_⟩
    intro _
    have hmask : (HashTable.mk s nf' t.base).mask = t.mask := rfl
    rw [hmask]
    refine ⟨?_, ?_, ?_⟩
    · intro i hi k hk hc'
      rw [ge] at hk hc'
      by_cases e : p = i
      · simp only [e, if_true, itp, Option.some.injEq] at hk
        rw [← hk, ← e]; exact hpe
      · by_cases e2 : nf = i
        · simp [e, e2, c'] at hc'
        · simp only [e, e2, if_false] at hk hc'
          exact ci.unchained_primary i (hl ▸ hi) k hk hc'
    · intro i hi k hk
      rw [ge] at hk
      have headOK : (s[p]'(hl ▸ hp)).chained = false := by rw [ge]; simp [itp]
      by_cases e : p = i
      · simp only [e, if_true, itp, Option.some.injEq] at hk
        subst hk
        subst e
        unfold onChain
        rw [hpe, hnew, List.getElem?_eq_getElem (hl ▸ hp)]
        simp [headOK]
      · by_cases e2 : nf = i
        · simp only [e, e2, if_false, if_true, c'] at hk
          rw [hck] at hk; cases hk
          unfold onChain
          rw [hpck, hnew, List.getElem?_eq_getElem (hl ▸ hp)]
          simp [headOK, e2]
        · simp only [e, e2, if_false] at hk
          obtain ⟨l2, hpl, hc2, hm2, hch2, k0, hk0, hp0⟩ :=
            on_chain_head hash t.slots t.mask ci inv.empty_zero i (hl ▸ hi) k hk
          by_cases eq : prim hash t.mask k = p
          · -- same chain: i is in the old tail
            rw [eq] at hc2
            have := chain_fuel_irrel _ _ _ _ _ _ hc2 hc
            subst this
            have hit : i ∈ tail := by
              rcases List.mem_cons.1 hm2 with e' | e'
              · exact absurd e'.symm e
              · exact e'
            unfold onChain
            rw [eq, hnew, List.getElem?_eq_getElem (hl ▸ hp)]
            simp [headOK, hit]
          · -- another chain: it avoids p and nf
            have hmem2 := chain_members hash t.slots t.mask ci _ _ l2 hc2 k0 hpl hk0
            have hne2 : ∀ x ∈ l2, x ≠ p ∧ x ≠ nf := by
              intro x hx
              obtain ⟨hx', ⟨kx, hkx, hpx⟩, _⟩ := hmem2 x hx
              constructor
              · intro e'; subst e'
                rw [hck] at hkx; cases hkx
                rw [hpck, hp0] at hpx; exact eq hpx.symm
              · intro e'; subst e'; rw [hnfe] at hkx; cases hkx
            have hc2' := chain_mono _ _ _ _ (frame _ l2 _ hc2 hne2)
            have hq1 : ¬ p = prim hash t.mask k := fun e' => eq e'.symm
            have hq2 : ¬ nf = prim hash t.mask k := by
              intro e'
              have := idx_congr t.slots _ _ e' hnfl
              rw [this, hk0] at hnfe; cases hnfe
            unfold onChain
            rw [hcnt, hc2', List.getElem?_eq_getElem (hl ▸ hpl), ge]
            simp [hq1, hq2, hch2, hm2]
    · intro j hj hn
      rw [ge] at hn
      by_cases e : p = j
      · -- the new head points at nf
        have hsj : s[j] = itp := by rw [ge]; simp [e]
        have hsnf : s[nf]'(hl ▸ hnfl) = c' := by rw [ge]; simp [hpn]
        have e9 : s[j].next = nf := by rw [hsj]
        refine ⟨by show s[j].next < s.length; omega, ?_, kk, ck, by rw [hsj], ?_, by rw [hpck, hpe]⟩
        · rw [idx_congr s _ _ e9 (by show s[j].next < s.length; omega), hsnf]
        · rw [idx_congr s _ _ e9 (by show s[j].next < s.length; omega), hsnf]; exact hck
      · by_cases e2 : nf = j
        · -- the moved item keeps the successor it had in p
          have hsj : s[j] = c' := by rw [ge]; simp [e, e2]
          simp only [e, e2, if_false, if_true, c'] at hn
          obtain ⟨hnx, hch, k, k', e1, e3, e4⟩ := ci.next_ok p hp hn
          have hx1 : ¬ p = (t.slots[p]).next := by
            intro e'
            have := idx_congr t.slots _ _ e' hp
            rw [← this, hnc] at hch; cases hch
          have hx2 : ¬ nf = (t.slots[p]).next := by
            intro e'
            have := idx_congr t.slots _ _ e' hnfl
            rw [this, e3] at hnfe; cases hnfe
          have e9 : s[j].next = (t.slots[p]).next := by rw [hsj]
          have hsx : s[(t.slots[p]).next]'(by omega) = t.slots[(t.slots[p]).next] := by rw [ge]; simp [hx1, hx2]
          refine ⟨by show s[j].next < s.length; omega, ?_, k, k', by rw [hsj]; exact e1, ?_, e4⟩
          · rw [idx_congr s _ _ e9 (by show s[j].next < s.length; omega), hsx]; exact hch
          · rw [idx_congr s _ _ e9 (by show s[j].next < s.length; omega), hsx]; exact e3
        · simp only [e, e2, if_false] at hn
          have hsj : s[j] = t.slots[j]'(hl ▸ hj) := by rw [ge]; simp [e, e2]
          obtain ⟨hnx, hch, k, k', e1, e3, e4⟩ := ci.next_ok j (hl ▸ hj) hn
          have hx1 : ¬ p = (t.slots[j]'(hl ▸ hj)).next := by
            intro e'
            have := idx_congr t.slots _ _ e' hp
            rw [← this, hnc] at hch; cases hch
          have hx2 : ¬ nf = (t.slots[j]'(hl ▸ hj)).next := by
            intro e'
            have := idx_congr t.slots _ _ e' hnfl
            rw [this, e3] at hnfe; cases hnfe
          have e9 : s[j].next = (t.slots[j]'(hl ▸ hj)).next := by rw [hsj]
          have hsx : s[(t.slots[j]'(hl ▸ hj)).next]'(by omega) = t.slots[(t.slots[j]'(hl ▸ hj)).next] := by
            rw [ge]; simp [hx1, hx2]
          refine ⟨by show s[j].next < s.length; omega, ?_, k, k', by rw [hsj]; exact e1, ?_, e4⟩
          · rw [idx_congr s _ _ e9 (by show s[j].next < s.length; omega), hsx]; exact hch
          · rw [idx_congr s _ _ e9 (by show s[j].next < s.length; omega), hsx]; exact e3

/-- case 2: the primary slot of the new key holds an item that is chained (it belongs to the chain of
    another primary slot): that item moves to `nextFree`, its predecessor is relinked, and the new item
    starts a chain of its own -/
theorem insertNew_occupantChained (t : HashTable) (asize : Nat) (kk : Key) (v : Val) (inv : HashInv hash t asize)
    (hm : smallHashTableSize ≤ t.mask) (nk : NewKeyOK t.slots asize kk) (nf : Nat) (hnf : t.nextFree = some nf)
    (p : Nat) (hpe : prim hash t.mask kk = p) (hp : p < t.slots.length) (ck : Key)
    (hck : (t.slots[p]).key = some ck) (hch : (t.slots[p]).chained = true) :
    InsertNewResult hash t asize kk v := by
  have ci := inv.chains hm
  have ki := inv.keysInv
  have nfo := inv.next_free
  rw [hnf] at nfo
  obtain ⟨hnfl, hnfe, habove⟩ := nfo
  have hpn : ¬ p = nf := by intro e; subst e; rw [hnfe] at hck; cases hck
  have hnp : ¬ nf = p := fun e => hpn e.symm
  have hkne : ¬ ck = kk := by intro e; subst e; exact nk.absent p hp hck
  -- the chain on which the occupant lies
  obtain ⟨l, hq0, hc, hpl, hq0c, k0, hk0, hp0⟩ := on_chain_head hash t.slots t.mask ci inv.empty_zero p hp ck hck
  generalize hq0e : prim hash t.mask ck = q0 at hq0 hc hq0c hk0 hp0
  have hpq0 : p ≠ q0 := by intro e; subst e; rw [hch] at hq0c; cases hq0c
  have hnd := chain_nodup t.slots _ _ _ hc
  have hmem := chain_members hash t.slots t.mask ci _ _ l hc k0 hq0 hk0
  -- its predecessor
  obtain ⟨pidx, efp, hpil, hpip, hpilen, hpin, hpinext⟩ := findPred_spec t.slots p _ _ l hc hpl hpq0
  have efp' := findPred_mono_le t.slots p _ t.slots.length q0 pidx (cnt_le_length _) efp
  obtain ⟨_, ⟨kpi, hkpi, hppi⟩, _⟩ := hmem pidx hpil
  have hpinf : ¬ pidx = nf := by intro e; subst e; rw [hnfe] at hkpi; cases hkpi
  have hnfpi : ¬ nf = pidx := fun e => hpinf e.symm
  have hppidx : ¬ p = pidx := fun e => hpip e.symm
  -- any slot that points at p is pidx
  have pred_unique : ∀ j (hj : j < t.slots.length), (t.slots[j]).hasNext = true → (t.slots[j]).next = p → j = pidx := by
    intro j hj hjn hjx
    obtain ⟨hnx, _, kj, kx, e1, e2, e3⟩ := ci.next_ok j hj hjn
    obtain ⟨lj, hqj, hcj, hjl, _, kj0, hkj0, _⟩ := on_chain_head hash t.slots t.mask ci inv.empty_zero j hj kj e1
    -- p is on the chain of j, hence that chain is l
    have hpj : prim hash t.mask kj = q0 := by
      have := idx_congr t.slots _ _ hjx hnx
      rw [this, hck] at e2
      cases e2
      rw [← e3, hq0e]
    rw [hpj] at hcj
    have := chain_fuel_irrel _ _ _ _ _ _ hcj hc
    subst this
    exact chain_pred_unique t.slots _ _ _ hc j pidx p hjl hpil hj hpilen hjn hpin hjx hpinext
  -- the new slots
  let itp : Slot := ⟨some kk, some v, 0, false, false⟩
  let pit' : Slot := { t.slots[pidx] with next := nf, hasNext := true }
  let s := ((t.slots.set nf t.slots[p]).set p itp).set pidx pit'
  have hl : s.length = t.slots.length := by simp [s]
  have ge : ∀ j (hj : j < s.length), s[j] = if pidx = j then pit' else if p = j then itp else if nf = j then t.slots[p]
      else t.slots[j]'(hl ▸ hj) := by
    intro j hj; simp only [s]; rw [List.getElem_set, List.getElem_set, List.getElem_set]
  -- keys and values: replace ck by kk in p, put ck back in nf, then rewrite the chain fields of pidx
  have hcomm : (t.slots.set nf t.slots[p]).set p itp = (t.slots.set p itp).set nf t.slots[p] := by
    rw [List.set_comm _ _ hnp]
  obtain ⟨kiA, lookA⟩ := keysInv_set_empty t.slots asize ki p hp kk nk itp rfl
  have hlA : (t.slots.set p itp).length = t.slots.length := List.length_set
  have geA : ∀ j (hj : j < (t.slots.set p itp).length), (t.slots.set p itp)[j] = if p = j then itp else t.slots[j]'(hlA ▸ hj) := by
    intro j hj; rw [List.getElem_set]
  have nkB : NewKeyOK (t.slots.set p itp) asize ck := by
    refine ⟨?_, ki.normal p hp ck hck, fun z ez => by subst ez; exact ki.disjoint p hp z hck⟩
    intro i hi hki
    rw [geA] at hki
    by_cases e : p = i
    · simp only [e, if_true, itp, Option.some.injEq] at hki; exact hkne hki.symm
    · simp only [e, if_false] at hki
      exact e (ki.nodup p hp i (hlA ▸ hi) (by simp [hck]) (by rw [hck, hki]))
  obtain ⟨kiB, lookB⟩ := keysInv_set_empty (t.slots.set p itp) asize kiA nf (hlA ▸ hnfl) ck nkB t.slots[p] hck
  have hAnf : ((t.slots.set p itp)[nf]'(hlA ▸ hnfl)).key = none := by rw [geA]; simp [hpn, hnfe]
  let B := (t.slots.set p itp).set nf t.slots[p]
  have hlB : B.length = t.slots.length := by simp [B]
  have geB : ∀ j (hj : j < B.length), B[j] = if nf = j then t.slots[p] else if p = j then itp else t.slots[j]'(hlB ▸ hj) := by
    intro j hj; simp only [B]; rw [List.getElem_set, List.getElem_set]
  have hBpi : B[pidx]'(hlB ▸ hpilen) = t.slots[pidx] := by rw [geB]; simp [hnfpi, hppidx]
  obtain ⟨kiC, lookC, cntC, keysC⟩ := keysInv_set_same_kv B asize kiB pidx (hlB ▸ hpilen) pit'
    (by rw [hBpi]) (by rw [hBpi]) (by rw [hBpi, hkpi]; simp)
  have hsB : s = B.set pidx pit' := by simp only [s, B]; rw [hcomm]
  rw [← hsB] at kiC lookC cntC keysC
  have hlook : ∀ k', hashLookup s k' = if k' = kk then some v else hashLookup t.slots k' := by
    intro k'
    rw [lookC k', lookB k', lookA k']
    have hfound := hashLookup_found t.slots ki.nodup p hp ck hck
    by_cases e1 : k' = ck
    · subst e1
      simp [hkne, hfound]
    · have : ¬ ((t.slots.set p itp)[nf]'(hlA ▸ hnfl)).key = some k' := by rw [hAnf]; simp
      simp only [e1, if_false, this]
      by_cases e2 : k' = kk
      · simp [e2, itp]
      · have : ¬ (t.slots[p]).key = some k' := by rw [hck]; intro h; exact e1 (Option.some.inj h).symm
        simp [e2, this]
  have hcnt : cnt s = cnt t.slots + 1 := by
    rw [cntC, cnt_set_empty _ _ (hlA ▸ hnfl) hAnf t.slots[p] (by simp [hck])]
    congr 1
    unfold cnt
    rw [List.countP_set hp]
    simp [hck, itp]
    have : 0 < List.countP (fun x => x.key.isSome) t.slots :=
      List.countP_pos_iff.2 ⟨t.slots[p], List.getElem_mem hp, by simp [hck]⟩
    omega
  have hkeys : ∀ k', HasKey s k' ↔ k' = kk ∨ HasKey t.slots k' := by
    intro k'
    rw [keysC k']
    constructor
    · rintro ⟨i, hi, hki⟩
      rw [geB] at hki
      by_cases e2 : nf = i
      · simp only [e2, if_true] at hki; exact Or.inr ⟨p, hp, hki⟩
      · by_cases e : p = i
        · simp only [e2, e, if_false, if_true, itp, Option.some.injEq] at hki; exact Or.inl hki.symm
        · simp only [e, e2, if_false] at hki
          exact Or.inr ⟨i, hlB ▸ hi, hki⟩
    · rintro (e | ⟨i, hi, hki⟩)
      · subst e; exact ⟨p, hlB ▸ hp, by rw [geB]; simp [hnp, itp]⟩
      · by_cases e : p = i
        · subst e
          exact ⟨nf, hlB ▸ hnfl, by rw [geB]; simp [hki]⟩
        · have e2 : ¬ nf = i := by intro e2; subst e2; rw [hnfe] at hki; cases hki
          exact ⟨i, hlB ▸ hi, by rw [geB]; simp [e, e2, hki]⟩
  -- nextFree
  obtain ⟨nf', enf, hnfok⟩ := nextFreeOk_after_fill t.slots s nf hl hnfl habove (by
    intro j hj hne
    rw [ge]
    by_cases e0 : pidx = j
    · simp [e0, pit', hkpi]
      subst e0; rw [hkpi]; simp
    · by_cases e : p = j
      · simp [e0, e, itp]
      · by_cases e2 : nf = j
        · simp [e0, e, e2, hck]
        · simp [e0, e, e2, hne])
  -- renaming of chain members: p ↦ nf
  let φ : Nat → Nat := fun x => if x = p then nf else x
  have hmap : ∀ f, chain t.slots f q0 = some l → chain s f q0 = some (l.map φ) := by
    intro f hcf
    have hq0np : ¬ q0 = p := fun e => hpq0 e.symm
    have hq0p : φ q0 = q0 := by simp [φ, hq0np]
    have := chain_map t.slots s φ f q0 l hcf (by
      intro x hx hxl
      obtain ⟨_, ⟨kx, hkx, _⟩, _⟩ := hmem x hx
      have hxnf : ¬ nf = x := by intro e; subst e; rw [hnfe] at hkx; cases hkx
      by_cases exp : x = p
      · -- the occupant, now in nf, keeps its successor (which is not p)
        subst exp
        have hφ : φ x = nf := by simp [φ]
        have hsnf : s[nf]'(hl ▸ hnfl) = t.slots[x] := by rw [ge]; simp [hpinf, hpn]
        refine ⟨by rw [hφ, hl]; exact hnfl, ?_, ?_⟩
        · rw [idx_congr s _ _ hφ (by rw [hφ, hl]; exact hnfl), hsnf]
        · intro hxn
          rw [idx_congr s _ _ hφ (by rw [hφ, hl]; exact hnfl), hsnf]
          have : ¬ (t.slots[x]).next = x := by
            intro e
            exact absurd (pred_unique x hp hxn e) hppidx
          simp [φ, this]
      · have hφ : φ x = x := by simp [φ, exp]
        by_cases expi : x = pidx
        · subst expi
          have hsx : s[x]'(hl ▸ hxl) = pit' := by rw [ge]; simp
          refine ⟨by rw [hφ, hl]; exact hxl, ?_, ?_⟩
          · rw [idx_congr s _ _ hφ (by rw [hφ, hl]; exact hxl), hsx]; simp [pit', hpin]
          · intro _
            rw [idx_congr s _ _ hφ (by rw [hφ, hl]; exact hxl), hsx, hpinext]
            simp [pit', φ]
        · have h1 : ¬ pidx = x := fun e => expi e.symm
          have h2 : ¬ p = x := fun e => exp e.symm
          have hsx : s[x]'(hl ▸ hxl) = t.slots[x] := by
            rw [ge]; simp [h1, h2, hxnf]
          refine ⟨by rw [hφ, hl]; exact hxl, ?_, ?_⟩
          · rw [idx_congr s _ _ hφ (by rw [hφ, hl]; exact hxl), hsx]
          · intro hxn
            rw [idx_congr s _ _ hφ (by rw [hφ, hl]; exact hxl), hsx]
            have : ¬ (t.slots[x]).next = p := fun e => expi (pred_unique x hxl hxn e)
            simp [φ, this])
    rw [hq0p] at this
    exact this
  -- frame for chains that avoid p, nf and pidx
  have frame : ∀ (q : Nat) (l' : List Nat) (f : Nat), chain t.slots f q = some l' →
      (∀ x ∈ l', x ≠ p ∧ x ≠ nf ∧ x ≠ pidx) → chain s f q = some l' := by
    intro q l' f hcq hne
    apply chain_frame t.slots s f q l' hcq hl
    intro x hx hxl
    have h1 : ¬ p = x := fun e => (hne x hx).1 e.symm
    have h2 : ¬ nf = x := fun e => (hne x hx).2.1 e.symm
    have h3 : ¬ pidx = x := fun e => (hne x hx).2.2 e.symm
    rw [ge]; simp [h1, h2, h3]
  have hsp : s[p]'(hl ▸ hp) = itp := by rw [ge]; simp [hpip]
  have hsnf : s[nf]'(hl ▸ hnfl) = t.slots[p] := by rw [ge]; simp [hpinf, hpn]
  have hspi : s[pidx]'(hl ▸ hpilen) = pit' := by rw [ge]; simp
  have hsother : ∀ j (hj : j < t.slots.length), j ≠ p → j ≠ nf → j ≠ pidx → s[j]'(hl ▸ hj) = t.slots[j] := by
    intro j hj h1 h2 h3
    have g1 : ¬ p = j := fun e => h1 e.symm
    have g2 : ¬ nf = j := fun e => h2 e.symm
    have g3 : ¬ pidx = j := fun e => h3 e.symm
    rw [ge]; simp [g1, g2, g3]
  -- the head of the chain of the occupant is still unchained
  have hq0nf : q0 ≠ nf := by intro e; subst e; rw [hnfe] at hk0; cases hk0
  have hheadq0 : (s[q0]'(hl ▸ hq0)).chained = false := by
    by_cases e : q0 = pidx
    · rw [idx_congr s _ _ e (hl ▸ hq0), hspi]
      simp only [pit']
      rw [← idx_congr t.slots _ _ e hq0]; exact hq0c
    · rw [hsother q0 hq0 (fun e' => hpq0 e'.symm) hq0nf e]; exact hq0c
  refine ⟨s, true, nf', ?_, by rw [hnf]; simpa using enf, ?_, hlook, hcnt, hkeys⟩
  · have hsm : ¬ t.mask < smallHashTableSize := by omega
    have e1 : hash kk &&& t.mask = p := hpe
    have e2 : hash ck &&& t.mask = q0 := hq0e
    have hp1 : p < (t.slots.set nf t.slots[p]).length := by simpa using hp
    have hpi2 : pidx < ((t.slots.set nf t.slots[p]).set p itp).length := by simpa using hpilen
    have hs2pi : ((t.slots.set nf t.slots[p]).set p itp)[pidx]'hpi2 = t.slots[pidx] := by
      rw [List.getElem_set, List.getElem_set]; simp [hppidx, hnfpi]
    simp only [insertNew, hsm, if_false, e1, List.getElem?_eq_getElem hp, Option.bind_eq_bind, Option.bind_some, hck,
      hch, if_true, e2, efp', hnf, setAt, hnfl, hp1]
    simp only [itp] at hpi2 hs2pi
    simp [hpilen, List.getElem?_eq_getElem hpi2, hs2pi, s, pit', itp]
  · refine ⟨by rw [hl]; exact inv.size, hnfok, kiC.empty_zero, kiC.nodup, kiC.disjoint, kiC.normal, ?_⟩
    intro _
    have hmask : (HashTable.mk s nf' t.base).mask = t.mask := rfl
    rw [hmask]
    refine ⟨?_, ?_, ?_⟩
    · -- unchained items sit in their primary slot
      intro i hi k hk hc'
      by_cases e0 : i = pidx
      · subst e0
        rw [hspi] at hk hc'
        exact ci.unchained_primary i hpilen k hk hc'
      · by_cases e : i = p
        · subst e
          rw [hsp] at hk
          simp only [itp, Option.some.injEq] at hk
          rw [← hk]; exact hpe
        · by_cases e2 : i = nf
          · subst e2
            rw [hsnf] at hc'
            rw [hch] at hc'; cases hc'
          · rw [hsother i (hl ▸ hi) e e2 e0] at hk hc'
            exact ci.unchained_primary i (hl ▸ hi) k hk hc'
    · -- every item is on the chain of its primary slot
      intro i hi k hk
      by_cases e : i = p
      · subst e
        rw [hsp] at hk
        simp only [itp, Option.some.injEq] at hk
        subst hk
        unfold onChain
        rw [hpe, hcnt]
        have : chain s (cnt t.slots + 1) i = some [i] := by
          rw [chain, List.getElem?_eq_getElem (hl ▸ hp), hsp]
          simp [itp]
        rw [this, List.getElem?_eq_getElem (hl ▸ hp), hsp]
        simp [itp]
      · by_cases e2 : i = nf
        · subst e2
          rw [hsnf, hck] at hk
          cases hk
          unfold onChain
          rw [hq0e, hcnt, chain_mono _ _ _ _ (hmap _ hc), List.getElem?_eq_getElem (hl ▸ hq0)]
          have : i ∈ l.map φ := List.mem_map.2 ⟨p, hpl, by simp [φ]⟩
          simp [this, hheadq0]
        · -- an old item (possibly pidx)
          have hkold : (t.slots[i]'(hl ▸ hi)).key = some k := by
            by_cases e0 : i = pidx
            · subst e0; rw [hspi] at hk; exact hk
            · rw [hsother i (hl ▸ hi) e e2 e0] at hk; exact hk
          obtain ⟨l2, hpl2, hc2, hm2, hch2, k2, hk2, hp2⟩ :=
            on_chain_head hash t.slots t.mask ci inv.empty_zero i (hl ▸ hi) k hkold
          by_cases eq : prim hash t.mask k = q0
          · rw [eq] at hc2
            have := chain_fuel_irrel _ _ _ _ _ _ hc2 hc
            subst this
            unfold onChain
            rw [eq, hcnt, chain_mono _ _ _ _ (hmap _ hc), List.getElem?_eq_getElem (hl ▸ hq0)]
            have : i ∈ l2.map φ := List.mem_map.2 ⟨i, hm2, by simp [φ, e]⟩
            simp [this, hheadq0]
          · have hmem2 := chain_members hash t.slots t.mask ci _ _ l2 hc2 k2 hpl2 hk2
            have hne2 : ∀ x ∈ l2, x ≠ p ∧ x ≠ nf ∧ x ≠ pidx := by
              intro x hx
              obtain ⟨hx', ⟨kx, hkx, hpx⟩, _⟩ := hmem2 x hx
              refine ⟨?_, ?_, ?_⟩
              · intro e'; subst e'
                rw [hck] at hkx; cases hkx
                rw [hq0e, hp2] at hpx; exact eq hpx.symm
              · intro e'; subst e'; rw [hnfe] at hkx; cases hkx
              · intro e'; subst e'
                rw [hkpi] at hkx; cases hkx
                rw [hppi, hp0, hp2] at hpx
                exact eq hpx.symm
            have hc2' := chain_mono _ _ _ _ (frame _ l2 _ hc2 hne2)
            have hhd := hne2 _ (by obtain ⟨tl, el, _⟩ := chain_head _ _ _ _ hc2; rw [el]; exact List.mem_cons_self)
            unfold onChain
            rw [hcnt, hc2', List.getElem?_eq_getElem (hl ▸ hpl2), hsother _ hpl2 hhd.1 hhd.2.1 hhd.2.2]
            simp [hch2, hm2]
    · -- next leads to a chained item with the same primary slot
      intro j hj hn
      by_cases e : j = p
      · subst e; rw [hsp] at hn; simp [itp] at hn
      · by_cases e0 : j = pidx
        · subst e0
          have e9 : s[j].next = nf := by rw [hspi]
          refine ⟨by show s[j].next < s.length; omega, ?_, kpi, ck, by rw [hspi]; exact hkpi, ?_, ?_⟩
          · rw [idx_congr s _ _ e9 (by show s[j].next < s.length; omega), hsnf]; exact hch
          · rw [idx_congr s _ _ e9 (by show s[j].next < s.length; omega), hsnf]; exact hck
          · rw [hppi, hq0e, hp0]
        · -- j is nf (the moved occupant) or an untouched slot: the target is an old, untouched-or-pidx slot
          have hold : ∃ (j0 : Nat) (hj0 : j0 < t.slots.length), s[j] = t.slots[j0] ∧ (t.slots[j0]).hasNext = true ∧ j0 ≠ pidx := by
            by_cases e2 : j = nf
            · subst e2
              refine ⟨p, hp, hsnf, ?_, fun e' => hppidx e'⟩
              rw [hsnf] at hn; exact hn
            · refine ⟨j, hl ▸ hj, hsother j (hl ▸ hj) e e2 e0, ?_, e0⟩
              rw [hsother j (hl ▸ hj) e e2 e0] at hn; exact hn
          obtain ⟨j0, hj0, esj, hn0, hj0pi⟩ := hold
          obtain ⟨hnx, hchx, k, k', e1, e3, e4⟩ := ci.next_ok j0 hj0 hn0
          have hy1 : (t.slots[j0]).next ≠ p := fun e' => hj0pi (pred_unique j0 hj0 hn0 e')
          have hy2 : (t.slots[j0]).next ≠ nf := by
            intro e'
            have := idx_congr t.slots _ _ e' hnx
            rw [this, hnfe] at e3; cases e3
          have e9 : s[j].next = (t.slots[j0]).next := by rw [esj]
          have hsy : (s[(t.slots[j0]).next]'(by omega)).chained = true ∧ (s[(t.slots[j0]).next]'(by omega)).key = some k' := by
            by_cases ey : (t.slots[j0]).next = pidx
            · rw [idx_congr s _ _ ey (by omega), hspi]
              simp only [pit']
              rw [← idx_congr t.slots _ _ ey hnx]
              exact ⟨hchx, e3⟩
            · rw [hsother _ hnx hy1 hy2 ey]; exact ⟨hchx, e3⟩
          refine ⟨by show s[j].next < s.length; omega, ?_, k, k', by rw [esj]; exact e1, ?_, e4⟩
          · rw [idx_congr s _ _ e9 (by show s[j].next < s.length; omega)]; exact hsy.1
          · rw [idx_congr s _ _ e9 (by show s[j].next < s.length; omega)]; exact hsy.2

/-- the three hashed-mode cases of `insertNewKeyValue` preserve `HashInv` -/
theorem hashedInsertOK : HashedInsertOK hash := by
  intro t asize kk v inv hm nk hnf
  cases hn : t.nextFree with
  | none => exact absurd hn hnf
  | some nf =>
    have hp := prim_lt hash t inv.size kk
    cases hk : (t.slots[prim hash t.mask kk]'hp).key with
    | none => exact insertNew_emptyPrimary hash t asize kk v inv hm nk nf hn _ rfl hp hk
    | some ck =>
      cases hc : (t.slots[prim hash t.mask kk]'hp).chained with
      | true => exact insertNew_occupantChained hash t asize kk v inv hm nk nf hn _ rfl hp ck hk hc
      | false => exact insertNew_occupantPrimary hash t asize kk v inv hm nk nf hn _ rfl hp ck hk hc

end
end GoluaVerif.Model.Table
