/-
  Proofs.C18Ops — what the close-time operations (`finAll`, `popRel`) add to a pool's trace.
-/
import GoluaVerif.Proofs.C18Rt
namespace GoluaVerif.Proofs.C18
open GoluaVerif.Spec.Gc GoluaVerif.Model.ClonePool GoluaVerif.Model.GcRuntime GoluaVerif.Model

theorem use_of_not_fatal {p : Pool} (h : p.fatal = false) (u : Use) :
    ClonePool.use p u = (match u with
      | .mark o f r => ClonePool.mark p o f r
      | .fire o => ClonePool.fire p o
      | .xPF => xPF p | .xPR => xPR p | .xAF => xAF p | .xAR => xAR p
      | .step => xPR (xPF p) | .finAll => xAF p | .popRel => xAR (skipAF p)) := by
  unfold ClonePool.use; simp only [h, Bool.false_eq_true, if_false]; cases u <;> rfl

theorem finAll_tr {p : Pool} (h : p.fatal = false) :
    (ClonePool.use p .finAll).tr = p.tr ++ finEvs .af (afOut p) := by
  rw [use_of_not_fatal h]; simp [xAF, afState]

theorem popRel_tr {p : Pool} (h : p.fatal = false) :
    (ClonePool.use p .popRel).tr = p.tr ++ (skipEvs (afOut p) ++ relEvs .ar (arOut (skipAF p))) := by
  rw [use_of_not_fatal h]; simp [xAR, skipAF, afState, List.append_assoc]

theorem delta_of_append {p p' : Pool} {ext : List TEv} (h : p'.tr = p.tr ++ ext) : delta p p' = ext := by
  unfold delta; rw [h, List.drop_left]

theorem finOrders_filter_log (l : List TEv) : finOrders (l.filter isLogEv) = finOrders l := by
  induction l with
  | nil => rfl
  | cons e t ih => cases e <;> simp [List.filter, isLogEv, finOrders, ih]

theorem relOrders_filter_log (l : List TEv) : relOrders (l.filter isLogEv) = relOrders l := by
  induction l with
  | nil => rfl
  | cons e t ih => cases e <;> simp [List.filter, isLogEv, relOrders, ih]

/-- every entry still owed a finaliser is handed out by `finAll` -/
theorem finAll_covers {p : Pool} (h : p.fatal = false) {e : Entry} (he : e ∈ regL p) (hf : e.fin = false) :
    e.order ∈ finOrders (ClonePool.use p .finAll).tr := by
  rw [finAll_tr h, finOrders_append, finOrders_finEvs, afOut_eq]
  apply List.mem_append_right
  exact mem_ords_sortDesc.mpr (mem_ords.mpr ⟨e, List.mem_append_right _ (List.mem_filter.mpr ⟨he, by simpa using hf⟩), rfl⟩)

/-- … and so is everything already queued in `pendingFinalize` -/
theorem finAll_covers_pending {p : Pool} (h : p.fatal = false) {n : Nat} (hn : n ∈ ords p.pf) :
    n ∈ finOrders (ClonePool.use p .finAll).tr := by
  rw [finAll_tr h, finOrders_append, finOrders_finEvs, afOut_eq]
  apply List.mem_append_right
  obtain ⟨e, he, heo⟩ := mem_ords.mp hn
  exact mem_ords_sortDesc.mpr (mem_ords.mpr ⟨e, List.mem_append_left _ he, heo⟩)

theorem regL_skipAF (p : Pool) : regL (skipAF p) = setFinAll (regL p) := regL_afState p

/-- every entry still owed a release, and everything queued for release, is released by `popRel` -/
theorem popRel_covers {p : Pool} (h : p.fatal = false) {n : Nat}
    (hn : (∃ e ∈ regL p, e.rel = false ∧ e.order = n) ∨ n ∈ ords p.pr) :
    n ∈ relOrders (ClonePool.use p .popRel).tr := by
  rw [popRel_tr h, relOrders_append, relOrders_append, relOrders_skipEvs,
    relOrders_relEvs, arOut_eq]
  apply List.mem_append_right
  simp only [List.nil_append]
  apply mem_ords_sortDesc.mpr
  unfold ords
  rw [List.map_append, List.mem_append]
  rcases hn with ⟨e, he, hr, heo⟩ | hn
  · right
    rw [regL_skipAF]
    refine List.mem_map.mpr ⟨{ e with fin := true }, List.mem_filter.mpr ⟨?_, by simpa using hr⟩, heo⟩
    unfold setFinAll
    exact List.mem_map.mpr ⟨e, he, rfl⟩
  · left; exact hn

/-- `popRel` hands nothing to a finaliser -/
theorem popRel_no_fin {p : Pool} : finOrders (ClonePool.use p .popRel).tr = finOrders p.tr := by
  by_cases h : p.fatal = false
  · rw [popRel_tr h, finOrders_append, finOrders_append, finOrders_skipEvs, finOrders_relEvs]; simp
  · unfold ClonePool.use; simp at h; simp [h]

end GoluaVerif.Proofs.C18
