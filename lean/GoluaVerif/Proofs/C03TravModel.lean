/-
  Proofs.C03TravModel — from the flat traversal theorem to `Model.Table.next`.
-/
import GoluaVerif.Proofs.C03Trav
import GoluaVerif.Proofs.C03Migrate
namespace GoluaVerif.Model.Table
open GoluaVerif.Spec (Key Val Map NextRes)

theorem cellsFrom_keys (vs vs' : List (Option Val)) (h : vs.length = vs'.length) (i : Nat) :
    (cellsFrom vs i).map (·.1) = (cellsFrom vs' i).map (·.1) := by
  induction vs generalizing vs' i with
  | nil =>
    cases vs' with
    | nil => rfl
    | cons _ _ => simp at h
  | cons v rest ih =>
    cases vs' with
    | nil => simp at h
    | cons v' rest' =>
      simp only [cellsFrom, List.map_cons]
      rw [ih rest' (by simpa using h)]

theorem hashCells_keys (h : Option HashTable) : (hashCells h).map (·.1) = hashKeys h := by
  cases h with
  | none => rfl
  | some h => simp [hashCells, hashKeys]

theorem flat_keys_same (t t' : Mixed) (sp : SamePositions t t') :
    (flat t').map (·.1) = (flat t).map (·.1) := by
  obtain ⟨hsz, hk, hsa, _⟩ := sp
  unfold flat
  rw [List.map_append, List.map_append, hashCells_keys, hashCells_keys, hk]
  congr 1
  cases ha : t.arr with
  | none =>
    cases ha' : t'.arr with
    | none => rfl
    | some a' => rw [ha, ha'] at hsa; simp at hsa
  | some a =>
    cases ha' : t'.arr with
    | none => rw [ha, ha'] at hsa; simp at hsa
    | some a' =>
      rw [ha, ha'] at hsz
      simp only [arrSize] at hsz
      exact cellsFrom_keys _ _ hsz 0

section
variable (hash : Key → Nat)

theorem lookup_some_slot (slots : List Slot) (k : Key) (v : Val) (h : hashLookup slots k = some v) :
    ∃ i, ∃ (hi : i < slots.length), slots[i].key = some k ∧ slots[i].val = some v := by
  unfold hashLookup at h
  cases hf : slots.find? (fun s => decide (s.key = some k)) with
  | none => simp [hf] at h
  | some s =>
    rw [hf] at h
    have hm := List.mem_of_find?_eq_some hf
    have hp := List.find?_some hf
    obtain ⟨i, hi, e⟩ := List.getElem_of_mem hm
    exact ⟨i, hi, by rw [e]; simpa using hp, by rw [e]; exact h⟩

theorem flat_getElem_cases (t : Mixed) (q : Nat) (hq : q < (flat t).length) :
    (∃ a, t.arr = some a ∧ ∃ (h : q < a.values.length), (flat t)[q] = (some (.int ((q : Int) + 1)), a.values[q])) ∨
    (∃ h, t.hash = some h ∧ arrSize t.arr ≤ q ∧ ∃ (hh : q - arrSize t.arr < h.slots.length),
      (flat t)[q] = (h.slots[q - arrSize t.arr].key, h.slots[q - arrSize t.arr].val)) := by
  obtain ⟨th, ta⟩ := t
  unfold flat at hq ⊢
  simp only at hq ⊢
  by_cases hlt : q < (arrCells ta).length
  · left
    cases ta with
    | none => simp [arrCells] at hlt
    | some a =>
      have hlt' : q < (cellsFrom a.values 0).length := hlt
      have hql : q < a.values.length := by rw [cellsFrom_length] at hlt'; exact hlt'
      refine ⟨a, rfl, hql, ?_⟩
      rw [List.getElem_append_left hlt]
      show (cellsFrom a.values 0)[q] = _
      rw [cellsFrom_getElem]
      simp
  · right
    have hge : (arrCells ta).length ≤ q := Nat.le_of_not_lt hlt
    have hsz := arrCells_length ta
    cases th with
    | none => simp [hashCells] at hq; omega
    | some h =>
      have hq2 : q - (arrCells ta).length < h.slots.length := by
        simp [hashCells] at hq; omega
      refine ⟨h, rfl, by omega, by rw [← hsz]; exact hq2, ?_⟩
      rw [List.getElem_append_right hge]
      simp only [hashCells, List.getElem_map, hsz]

/-- a live cell of the flat view is a binding of the abstract map -/
theorem flat_cell_abs (t : Mixed) (inv : Inv hash t) (q : Nat) (hq : q < (flat t).length) (k : Key) (v : Val)
    (e : (flat t)[q] = (some k, some v)) : abs t k = some v := by
  rcases flat_getElem_cases t q hq with ⟨a, ha, hql, e'⟩ | ⟨h, hh, hge, hql, e'⟩
  · rw [e] at e'
    simp only [Prod.mk.injEq, Option.some.injEq] at e'
    obtain ⟨ek, ev⟩ := e'
    subst ek
    have hin : inArr t.arr ((q : Int) + 1) := by simp only [inArr, ha, arrSize]; omega
    rw [abs_int_in t _ hin, ha]
    have : ((q : Int) + 1).toNat - 1 = q := by omega
    simp [arrAt, this, List.getElem?_eq_getElem hql, ← ev]
  · rw [e] at e'
    simp only [Prod.mk.injEq] at e'
    obtain ⟨ek, ev⟩ := e'
    have hinv := inv.hash h hh
    have hout : ∀ z, k = .int z → ¬ inArr t.arr z := by
      intro z ez hin
      subst ez
      exact hinv.disjoint _ hql z ek.symm hin
    have hl := hashLookup_found h.slots hinv.nodup _ hql k ek.symm
    cases k with
    | int z => rw [abs_int_out t z (hout z rfl)]; simp [hashAbs, hh, hl, ← ev]
    | _ => rw [abs_nonint t _ (fun z => by simp)]; simp [hashAbs, hh, hl, ← ev]

/-- a binding of the abstract map is a live cell of the flat view -/
theorem abs_flat_cell (t : Mixed) (inv : Inv hash t) (k : Key) (v : Val) (h : abs t k = some v) :
    ∃ q, ∃ (hq : q < (flat t).length), (flat t)[q] = (some k, some v) := by
  have hashCase : hashAbs t.hash k = some v → ∃ q, ∃ (hq : q < (flat t).length), (flat t)[q] = (some k, some v) := by
    intro hl
    cases hh : t.hash with
    | none => simp [hashAbs, hh] at hl
    | some ht =>
      simp only [hashAbs, hh] at hl
      obtain ⟨i, hi, ek, ev⟩ := lookup_some_slot ht.slots k v hl
      have hsz := arrCells_length t.arr
      refine ⟨(arrCells t.arr).length + i, by unfold flat; simp [hashCells, hh]; omega, ?_⟩
      unfold flat
      rw [List.getElem_append_right (by omega)]
      simp [hashCells, hh, ek, ev]
  cases k with
  | int z =>
    by_cases hin : inArr t.arr z
    · rw [abs_int_in t z hin] at h
      cases ha : t.arr with
      | none => rw [ha] at hin; exact absurd hin (not_inArr_none z)
      | some a =>
        rw [ha] at h hin
        simp only [inArr, arrSize] at hin
        have hql : z.toNat - 1 < a.values.length := by omega
        simp only [arrAt, List.getElem?_eq_getElem hql] at h
        have hcl : z.toNat - 1 < (cellsFrom a.values 0).length := by rw [cellsFrom_length]; exact hql
        refine ⟨z.toNat - 1, by unfold flat; rw [ha]; simp [arrCells, cellsFrom_length]; omega, ?_⟩
        unfold flat
        have : (arrCells t.arr ++ hashCells t.hash)[z.toNat - 1]'(by rw [ha]; simp [arrCells, cellsFrom_length]; omega)
            = (cellsFrom a.values 0)[z.toNat - 1] := by
          rw [List.getElem_append_left (by rw [ha]; exact hcl)]
          simp [ha, arrCells]
        rw [this, cellsFrom_getElem]
        simp only [Prod.mk.injEq, Option.some.injEq, Key.int.injEq]
        refine ⟨by omega, ?_⟩
        cases hv : a.values[z.toNat - 1] with
        | none => simp [hv] at h
        | some x => simpa [hv] using h
    · rw [abs_int_out t z hin] at h; exact hashCase h
  | flt f => rw [abs_nonint t _ (fun z => by simp)] at h; exact hashCase h
  | str f => rw [abs_nonint t _ (fun z => by simp)] at h; exact hashCase h
  | bool f => rw [abs_nonint t _ (fun z => by simp)] at h; exact hashCase h
  | ref f => rw [abs_nonint t _ (fun z => by simp)] at h; exact hashCase h

/-- no key has two positions -/
theorem flat_keys_distinct (t : Mixed) (inv : Inv hash t) : KeysDistinct ((flat t).map (·.1)) := by
  intro i hi j hj hne heq
  simp only [List.length_map] at hi hj
  simp only [List.getElem_map] at hne heq
  rcases flat_getElem_cases t i hi with ⟨a, ha, hil, ei⟩ | ⟨h, hh, hgei, hil, ei⟩ <;>
  rcases flat_getElem_cases t j hj with ⟨a', ha', hjl, ej⟩ | ⟨h', hh', hgej, hjl, ej⟩
  · rw [ei, ej] at heq
    simp only [Option.some.injEq, Key.int.injEq] at heq
    omega
  · rw [ei, ej] at heq
    simp only at heq
    have hinv := inv.hash h' hh'
    have := hinv.disjoint _ hjl ((i : Int) + 1) heq.symm
    simp only [ha, arrSize] at this
    exact absurd ⟨by omega, by omega⟩ this
  · rw [ei, ej] at heq
    simp only at heq
    have hinv := inv.hash h hh
    have := hinv.disjoint _ hil ((j : Int) + 1) heq
    simp only [ha', arrSize] at this
    exact absurd ⟨by omega, by omega⟩ this
  · rw [hh] at hh'
    cases hh'
    rw [ei] at hne
    rw [ei, ej] at heq
    simp only at hne heq
    have hinv := inv.hash h hh
    have := hinv.nodup _ hil _ hjl hne heq
    omega

/-- what a traversal tolerates between two calls of `next`: any number of steps that clear a field
    (`remove`), assign an existing field through `Table.Reset` (`reset`, a no-op on an absent key) or
    assign an EXISTING field through `Table.Set` (`insert` on a key that is present — also when the hash
    part is full: it no longer grows) -/
inductive Evolves : Mixed → Mixed → Prop
  | refl (t : Mixed) : Evolves t t
  | remove (t t1 t2 : Mixed) (k : Key) (w : Bool) : remove hash t k = some (t1, w) → Evolves t1 t2 → Evolves t t2
  | reset (t t1 t2 : Mixed) (k : Key) (v : Val) (w : Bool) : reset hash t k v = some (t1, w) → Evolves t1 t2 → Evolves t t2
  | set (t t1 t2 : Mixed) (k : Key) (v : Val) : (abs t k.norm).isSome = true → insert hash t k v = some t1 →
      Evolves t1 t2 → Evolves t t2

theorem samePositions_refl (t : Mixed) : SamePositions t t := ⟨rfl, rfl, rfl, rfl⟩

theorem samePositions_trans {t1 t2 t3 : Mixed} (a : SamePositions t1 t2) (b : SamePositions t2 t3) :
    SamePositions t1 t3 :=
  ⟨b.1.trans a.1, b.2.1.trans a.2.1, b.2.2.1.trans a.2.2.1, b.2.2.2.trans a.2.2.2⟩

theorem evolves_inv {t t' : Mixed} (ev : Evolves hash t t') (inv : Inv hash t) :
    Inv hash t' ∧ SamePositions t t' := by
  induction ev with
  | refl t => exact ⟨inv, samePositions_refl t⟩
  | remove t t1 t2 k w e _ ih =>
    obtain ⟨t1', e', i1, _, sp⟩ := remove_spec hash t inv k
    rw [e] at e'
    cases e'
    obtain ⟨i2, sp2⟩ := ih i1
    exact ⟨i2, samePositions_trans sp sp2⟩
  | reset t t1 t2 k v w e _ ih =>
    obtain ⟨t1', w', e', i1, sp⟩ := reset_inv hash t inv k v
    rw [e] at e'
    cases e'
    obtain ⟨i2, sp2⟩ := ih i1
    exact ⟨i2, samePositions_trans sp sp2⟩
  | set t t1 t2 k v hp e _ ih =>
    obtain ⟨t1', e', i1, _, sp⟩ := insert_spec hash (hashedInsertOK hash) (arrayMigrationOK hash) t inv k v
    rw [e] at e'
    cases e'
    obtain ⟨i2, sp2⟩ := ih i1
    exact ⟨i2, samePositions_trans (sp hp) sp2⟩

/-- a `next`-driven traversal: `states` are the tables at the successive calls of `next`, between two
    calls the table evolves by clearing / assigning existing fields only (`Evolves`); the cursor is the
    key returned last -/
inductive Trav : Mixed → Option Key → List Mixed → List (Key × Val) → Prop
  | done (t : Mixed) (k : Option Key) : next hash t k = some .done → Trav t k [t] []
  | step (t t' : Mixed) (k : Option Key) (k' : Key) (v : Val) (states : List Mixed) (visited : List (Key × Val)) :
      next hash t k = some (.item k' v) → Evolves hash t t' → Trav t' (some k') states visited →
      Trav t k (t :: states) ((k', v) :: visited)

/-- the position after the cursor -/
def startPos (ks : List (Option Key)) : Option Key → Option Nat
  | none => some 0
  | some k => (ks.findIdx? (fun c => decide (c = some k))).map (· + 1)

theorem flatNext_start (cells : List Cell) (k : Option Key) (s : Nat)
    (hs : startPos (cells.map (·.1)) (k.map Key.norm) = some s) :
    flatNext cells (k.map Key.norm) = scan (cells.drop s) := by
  cases k with
  | none => simp [startPos] at hs; subst hs; rfl
  | some k =>
    simp only [Option.map_some, startPos, List.findIdx?_map] at hs
    simp only [Option.map_some, flatNext]
    have e : (fun c : Cell => decide (c.1 = some k.norm)) = ((fun c => decide (c = some k.norm)) ∘ fun x : Cell => x.1) := rfl
    rw [e]
    cases hf : cells.findIdx? ((fun c => decide (c = some k.norm)) ∘ fun x : Cell => x.1) with
    | none => rw [hf] at hs; simp at hs
    | some p => rw [hf] at hs; simp at hs; subst hs; rfl

theorem trav_flatRun (t : Mixed) (k : Option Key) (states : List Mixed) (visited : List (Key × Val))
    (tr : Trav hash t k states visited) (inv : Inv hash t) :
    ∀ s, startPos ((flat t).map (·.1)) (k.map Key.norm) = some s →
      FlatRun ((flat t).map (·.1)) s (states.map flat) visited ∧
      (∀ st ∈ states, Inv hash st ∧ (flat st).map (·.1) = (flat t).map (·.1)) := by
  induction tr with
  | done t k hn =>
    intro s hs
    rw [next_refines hash t inv k, flatNext_start _ k s hs] at hn
    refine ⟨FlatRun.done s (flat t) rfl (Option.some.inj hn), ?_⟩
    intro st hst
    simp only [List.mem_singleton] at hst
    subst hst; exact ⟨inv, rfl⟩
  | step t t' k k' v states visited hn ev _ ih =>
    intro s hs
    rw [next_refines hash t inv k, flatNext_start _ k s hs] at hn
    have hn' := Option.some.inj hn
    obtain ⟨inv', sp⟩ := evolves_inv hash ev inv
    have hkeys := flat_keys_same t t' sp
    obtain ⟨q, hq, hsq, ecell, _⟩ := scan_drop_item (flat t) s k' v hn'
    -- the key returned is in normal form: it is its own cursor
    have habs := flat_cell_abs hash t inv q hq k' v ecell
    have hnorm : k'.norm = k' := by
      rcases flat_getElem_cases t q hq with ⟨a, ha, hql, e'⟩ | ⟨h, hh, hge, hql, e'⟩
      · rw [ecell] at e'
        simp only [Prod.mk.injEq, Option.some.injEq] at e'
        rw [e'.1]; rfl
      · rw [ecell] at e'
        simp only [Prod.mk.injEq] at e'
        exact (inv.hash h hh).normal _ hql k' e'.1.symm
    have hqk : q < ((flat t).map (·.1)).length := by simpa using hq
    have hkq : ((flat t).map (·.1))[q] = some k' := by simp [ecell]
    have hstart : startPos ((flat t').map (·.1)) ((some k').map Key.norm) = some (q + 1) := by
      rw [hkeys]
      simp only [Option.map_some, hnorm, startPos]
      have : ((flat t).map (·.1)).findIdx? (fun c => decide (c = some k')) = some q := by
        rw [List.findIdx?_eq_some_iff_getElem]
        refine ⟨hqk, by simp [hkq], ?_⟩
        intro j hj
        simp only [decide_eq_true_eq]
        intro hkj
        have := flat_keys_distinct hash t inv j (by omega) q hqk (by rw [hkj]; simp) (by rw [hkj, hkq])
        omega
      rw [this]; rfl
    obtain ⟨run', hst'⟩ := ih inv' (q + 1) hstart
    rw [hkeys] at run'
    refine ⟨FlatRun.step s (flat t) (states.map flat) k' v q visited rfl hn' hqk hkq run', ?_⟩
    intro st hst
    rcases List.mem_cons.1 hst with e | hst2
    · subst e; exact ⟨inv, rfl⟩
    · obtain ⟨i2, k2⟩ := hst' st hst2
      exact ⟨i2, by rw [k2, hkeys]⟩

end

section
variable (hash : Key → Nat)

/-- every key that is present at every call of `next` is visited, and no key is visited twice -/
theorem trav_complete_nodup (t : Mixed) (inv : Inv hash t) (states : List Mixed) (visited : List (Key × Val))
    (tr : Trav hash t none states visited) :
    (visited.map (·.1)).Nodup ∧
    (∀ kk, (∀ st ∈ states, (abs st kk).isSome = true) → kk ∈ visited.map (·.1)) := by
  obtain ⟨run, hst⟩ := trav_flatRun hash t none states visited tr inv 0 rfl
  have hd := flat_keys_distinct hash t inv
  obtain ⟨_, hnodup, hall⟩ := flatRun_spec _ hd 0 _ visited run
  refine ⟨hnodup, ?_⟩
  intro kk hpres
  -- `t` is the first state
  have ht : t ∈ states := by cases tr <;> simp
  cases hv : abs t kk with
  | none => have := hpres t ht; rw [hv] at this; simp at this
  | some v =>
    obtain ⟨p, hp, ecell⟩ := abs_flat_cell hash t inv kk v hv
    have hpk : p < ((flat t).map (·.1)).length := by simpa using hp
    have hkp : ((flat t).map (·.1))[p] = some kk := by simp [ecell]
    refine hall p hpk kk (Nat.zero_le _) hkp ?_
    intro cells hcells hpl
    obtain ⟨st, hstm, e⟩ := List.mem_map.1 hcells
    subst e
    obtain ⟨sinv, skeys⟩ := hst st hstm
    cases hv' : abs st kk with
    | none => have := hpres st hstm; rw [hv'] at this; simp at this
    | some v' =>
      obtain ⟨q, hq, ecell'⟩ := abs_flat_cell hash st sinv kk v' hv'
      have hqk : q < ((flat t).map (·.1)).length := by rw [← skeys]; simpa using hq
      have hkq : ((flat t).map (·.1))[q] = some kk := by
        have : ((flat st).map (·.1))[q]'(by simpa using hq) = some kk := by simp [ecell']
        simpa [skeys] using this
      have : q = p := hd q hqk p hpk (by rw [hkq]; simp) (by rw [hkq, hkp])
      subst this
      simp [ecell']

/-- never an absent key: each pair returned was a binding of the table at the time of the call -/
theorem trav_visited_present (t : Mixed) (k : Option Key) (states : List Mixed) (visited : List (Key × Val))
    (tr : Trav hash t k states visited) (inv : Inv hash t) :
    states.length = visited.length + 1 ∧
    ∀ i (hi : i < visited.length) (hs : i < states.length), abs states[i] visited[i].1 = some visited[i].2 := by
  induction tr with
  | done t k _ => exact ⟨rfl, fun i hi => absurd hi (Nat.not_lt_zero _)⟩
  | step t t' k k' v states visited hn ev _ ih =>
    obtain ⟨inv', _⟩ := evolves_inv hash ev inv
    obtain ⟨hl, hrest⟩ := ih inv'
    refine ⟨by simp [hl], ?_⟩
    intro i hi hs
    cases i with
    | zero =>
      simp only [List.getElem_cons_zero]
      rw [next_refines hash t inv k] at hn
      have hn' := Option.some.inj hn
      -- the answer of flatNext is a scan of a suffix of the flat view
      have : ∃ s, flatNext (flat t) (k.map Key.norm) = scan ((flat t).drop s) := by
        cases k with
        | none => exact ⟨0, rfl⟩
        | some kk =>
          simp only [Option.map_some, flatNext] at hn' ⊢
          cases hf : (flat t).findIdx? (fun c => decide (c.1 = some kk.norm)) with
          | none => rw [hf] at hn'; simp at hn'
          | some p => exact ⟨p + 1, rfl⟩
      obtain ⟨s, hs'⟩ := this
      rw [hs'] at hn'
      obtain ⟨q, hq, _, ecell, _⟩ := scan_drop_item (flat t) s k' v hn'
      exact flat_cell_abs hash t inv q hq k' v ecell
    | succ i =>
      simp only [List.getElem_cons_succ]
      exact hrest i (by simpa using hi) (by simpa using hs)

/-- `next k` stays defined for a key returned by the traversal, also after the key has been cleared -/
theorem next_defined_after_update (t t' : Mixed) (inv : Inv hash t) (k : Option Key) (k' : Key) (v : Val)
    (hn : next hash t k = some (.item k' v)) (ev : Evolves hash t t') :
    ∃ r, next hash t' (some k') = some r ∧ r ≠ .invalid := by
  obtain ⟨inv', sp⟩ := evolves_inv hash ev inv
  rw [next_refines hash t' inv' (some k')]
  refine ⟨_, rfl, ?_⟩
  -- the key returned has a position in `t`, hence (same keys) in `t'`
  rw [next_refines hash t inv k] at hn
  have hn' := Option.some.inj hn
  have : ∃ s, flatNext (flat t) (k.map Key.norm) = scan ((flat t).drop s) := by
    cases k with
    | none => exact ⟨0, rfl⟩
    | some kk =>
      simp only [Option.map_some, flatNext] at hn' ⊢
      cases hf : (flat t).findIdx? (fun c => decide (c.1 = some kk.norm)) with
      | none => rw [hf] at hn'; simp at hn'
      | some p => exact ⟨p + 1, rfl⟩
  obtain ⟨s, hs'⟩ := this
  rw [hs'] at hn'
  obtain ⟨q, hq, _, ecell, _⟩ := scan_drop_item (flat t) s k' v hn'
  have hnorm : k'.norm = k' := by
    rcases flat_getElem_cases t q hq with ⟨a, ha, hql, e'⟩ | ⟨h, hh, hge, hql, e'⟩
    · rw [ecell] at e'
      simp only [Prod.mk.injEq, Option.some.injEq] at e'
      rw [e'.1]; rfl
    · rw [ecell] at e'
      simp only [Prod.mk.injEq] at e'
      exact (inv.hash h hh).normal _ hql k' e'.1.symm
  simp only [Option.map_some, hnorm, flatNext]
  have hkeys := flat_keys_same t t' sp
  have hmem : some k' ∈ (flat t').map (·.1) := by
    rw [hkeys]
    exact List.mem_map.2 ⟨(flat t)[q], List.getElem_mem hq, by rw [ecell]⟩
  cases hf : (flat t').findIdx? (fun c => decide (c.1 = some k')) with
  | none =>
    rw [List.findIdx?_eq_none_iff] at hf
    obtain ⟨c, hc, e⟩ := List.mem_map.1 hmem
    have := hf c hc
    simp [e] at this
  | some p => exact scan_ne_invalid _

end
end GoluaVerif.Model.Table
