/-
  Proofs.PatRefineSpec — pattern strings: `build` then the machine, against `parse` then the recursive search.
-/
import GoluaVerif.Proofs.PatBuildRefine
import GoluaVerif.Proofs.PatMono
namespace GoluaVerif.Model.PatMatch
open GoluaVerif.Model GoluaVerif.Spec

/-- the captures of a parsed pattern are well-formed: indices 1..9, opened once, closed only when open, `%n` only to a
    closed or position capture, all closed at the end -/
def CapturesWF (pat : LuaPattern.Pat) : Prop :=
  WFfrom (fun _ => Shape.unset) pat.items ∧ AllClosed (shapeAfter (fun _ => Shape.unset) pat.items) pat.ncap

theorem patRel_of_build (p : Array UInt8) (pat : LuaPattern.Pat) (hparse : LuaPattern.parse p.toList = .ok pat)
    (hwf : CapturesWF pat) (hsize : p.size ≤ Generated.ByteSetTable.maxPatternSize) :
    ∃ P, PatBuild.build p = .ok P ∧ PatRel P pat := by
  obtain ⟨P, h1, h2, h3, h4, h5, h6⟩ := PatBuild.build_refines_parse p pat hparse hsize
  exact ⟨P, h1, ⟨⟨Nat.zero_le _, by simpa using h2⟩, hwf.1, hwf.2, h3, h6, h5.symm, h4.symm⟩⟩

/-- MACHINE ⊑ SPEC on pattern strings -/
theorem machine_refines_spec_str (p : Array UInt8) (s : Subject) (init : Nat) (hinit : init ≤ s.size)
    (pat : LuaPattern.Pat) (hparse : LuaPattern.parse p.toList = .ok pat)
    (hwf : CapturesWF pat) (hsize : p.size ≤ Generated.ByteSetTable.maxPatternSize) :
    ∃ P, PatBuild.build p = .ok P ∧ ∃ N, ∀ fuel, N ≤ fuel →
      (matchFromStart P s fuel init 0).captures = (LuaPattern.findParsed pat s init).map toCaptures ∧
      (matchFromStart P s fuel init 0).escapedPanic = none ∧
      (matchFromStart P s fuel init 0).outOfFuel = false := by
  obtain ⟨P, h1, hp⟩ := patRel_of_build p pat hparse hwf hsize
  exact ⟨P, h1, matchFromStart_refines P s pat hp init hinit⟩

/-- no recovered index panic, for every fuel, on pattern strings -/
theorem match_total_str (p : Array UInt8) (s : Subject) (init : Nat) (hinit : init ≤ s.size)
    (pat : LuaPattern.Pat) (hparse : LuaPattern.parse p.toList = .ok pat)
    (hwf : CapturesWF pat) (hsize : p.size ≤ Generated.ByteSetTable.maxPatternSize) :
    ∃ P, PatBuild.build p = .ok P ∧ ∀ fuel, (matchFromStart P s fuel init 0).escapedPanic = none := by
  obtain ⟨P, h1, hp⟩ := patRel_of_build p pat hparse hwf hsize
  exact ⟨P, h1, fun fuel => matchFromStart_no_panic P s pat hp init hinit fuel⟩

end GoluaVerif.Model.PatMatch
