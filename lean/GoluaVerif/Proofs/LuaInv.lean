/-
  Proofs.LuaInv — a small relational Hoare logic for the evaluation monad and the invariant
  "the store only grows": no judgement of the reference semantics ever removes a cell, a table or
  a closure, changes the input tuple, or retracts an emitted event — whether it finishes normally
  or with an error.  Proved for ALL judgements and all fuel by one induction over `evalN`.
-/
import Lean
import GoluaVerif.Spec.Lua
set_option linter.unusedSimpArgs false
set_option linter.unusedVariables false
namespace GoluaVerif.Spec.Lua

/-- the store `t` extends the store `s` -/
structure Store.Le (s t : Store) : Prop where
  cells : s.cells.size ≤ t.cells.size
  tables : s.tables.size ≤ t.tables.size
  closures : s.closures.size ≤ t.closures.size
  cos : s.cos.size ≤ t.cos.size
  input : t.input = s.input
  trace : ∃ ev, t.trace.toList = s.trace.toList ++ ev

theorem Store.Le.refl (s : Store) : Store.Le s s :=
  ⟨Nat.le_refl _, Nat.le_refl _, Nat.le_refl _, Nat.le_refl _, rfl, ⟨[], by simp⟩⟩

theorem Store.Le.trans {a b c : Store} (h1 : Store.Le a b) (h2 : Store.Le b c) : Store.Le a c :=
  ⟨Nat.le_trans h1.cells h2.cells, Nat.le_trans h1.tables h2.tables, Nat.le_trans h1.closures h2.closures,
   Nat.le_trans h1.cos h2.cos, h2.input.trans h1.input, by
     obtain ⟨e1, h1⟩ := h1.trace
     obtain ⟨e2, h2⟩ := h2.trace
     exact ⟨e1 ++ e2, by rw [h2, h1, List.append_assoc]⟩⟩

/-- every finished run of `x` (normal or erroneous) ends in an extension of the store it started in -/
structure Grows {α} (x : M α) : Prop where
  out : ∀ s r s', x.run.run s = some (r, s') → Store.Le s s'

theorem grows_pure {α} (a : α) : Grows (pure a : M α) := by
  refine ⟨fun s r s' h => ?_⟩
  simp [ExceptT.run, pure, ExceptT.pure, ExceptT.mk, StateT.run, StateT.pure] at h
  obtain ⟨_, rfl⟩ := h
  exact Store.Le.refl _

theorem grows_throw {α} (e : Err) : Grows (throw e : M α) := by
  refine ⟨fun s r s' h => ?_⟩
  simp [ExceptT.run, throw, throwThe, MonadExceptOf.throw, ExceptT.mk, StateT.run, pure, StateT.pure] at h
  obtain ⟨_, rfl⟩ := h
  exact Store.Le.refl _

theorem grows_oof {α} : Grows (oof : M α) := by
  refine ⟨fun s r s' h => ?_⟩
  simp [oof, ExceptT.run, ExceptT.mk, StateT.run] at h

theorem grows_bind {α β} {x : M α} {f : α → M β} (hx : Grows x) (hf : ∀ a, Grows (f a)) :
    Grows (x >>= f) := by
  refine ⟨fun s r s' h => ?_⟩
  simp only [ExceptT.run, bind, ExceptT.bind, ExceptT.mk, ExceptT.bindCont, StateT.run, StateT.bind] at h
  cases hxs : x s with
  | none => simp [hxs] at h
  | some p =>
    obtain ⟨r1, s1⟩ := p
    simp only [hxs] at h
    have h1 : Store.Le s s1 := hx.out s r1 s1 (by simpa [ExceptT.run, StateT.run] using hxs)
    cases r1 with
    | ok a =>
      exact Store.Le.trans h1 ((hf a).out s1 r s' (by simpa [ExceptT.run, StateT.run] using h))
    | error e =>
      simp [pure, StateT.pure] at h
      obtain ⟨_, rfl⟩ := h
      exact h1

theorem grows_unsupported {α} (w : String) : Grows (unsupported w : M α) := grows_throw _

theorem grows_tryLua {α} {x : M α} (hx : Grows x) : Grows (tryLua x) := by
  refine ⟨fun s r s' h => ?_⟩
  simp only [tryLua, ExceptT.run, ExceptT.mk, bind, StateT.bind, StateT.run] at h
  cases hxs : x s with
  | none => simp [hxs, ExceptT.run] at h
  | some p =>
    obtain ⟨r1, s1⟩ := p
    have h1 : Store.Le s s1 := hx.out s r1 s1 (by simpa [ExceptT.run, StateT.run] using hxs)
    simp only [hxs, ExceptT.run] at h
    cases r1 with
    | ok a => simp [pure, StateT.pure] at h; obtain ⟨_, rfl⟩ := h; exact h1
    | error e => cases e <;> (simp [pure, StateT.pure] at h; obtain ⟨_, rfl⟩ := h; exact h1)

/-- a state-reading computation -/
theorem grows_get_bind {β} {f : Store → M β} (hf : ∀ a, Grows (f a)) :
    Grows ((get : M Store) >>= f) := by
  refine ⟨fun s r s' h => ?_⟩
  have : ((get : M Store) >>= f).run.run s = (f s).run.run s := by
    simp [ExceptT.run, bind, ExceptT.bind, ExceptT.mk, ExceptT.bindCont, StateT.run, StateT.bind, get, getThe,
      MonadStateOf.get, liftM, monadLift, MonadLift.monadLift, ExceptT.lift, StateT.get, Functor.map, StateT.map, pure, StateT.pure]
  rw [this] at h
  exact (hf s).out s r s' h

theorem grows_set {t : Store → Store} (ht : ∀ s, Store.Le s (t s)) : Grows (modify t : M Unit) := by
  refine ⟨fun s r s' h => ?_⟩
  simp [ExceptT.run, StateT.run, modify, modifyGet, MonadStateOf.modifyGet, liftM, monadLift, MonadLift.monadLift,
    ExceptT.lift, StateT.modifyGet, Functor.map, StateT.map, pure, StateT.pure, ExceptT.mk, bind, StateT.bind] at h
  obtain ⟨_, rfl⟩ := h
  exact ht s


/-! ### store primitives -/

theorem Store.Le.record (s : Store) (e : LogEntry) : Store.Le s (s.record e) := by
  unfold Store.record; split <;> exact ⟨Nat.le_refl _, Nat.le_refl _, Nat.le_refl _, Nat.le_refl _, rfl, ⟨[], by simp⟩⟩

theorem Store.Le.of_same {s t : Store} (h1 : t.cells.size = s.cells.size) (h2 : t.tables.size = s.tables.size)
    (h3 : t.closures.size = s.closures.size) (h4 : t.cos.size = s.cos.size) (h5 : t.input = s.input)
    (h6 : t.trace = s.trace) : Store.Le s t :=
  ⟨by omega, by omega, by omega, by omega, h5, ⟨[], by simp [h6]⟩⟩

/-- every primitive is `get >>= fun s => …` with the new state described from `s` -/
theorem grows_of_run {α} {x : M α} (h : ∀ s r s', x.run.run s = some (r, s') → Store.Le s s') : Grows x := ⟨h⟩

macro "prim_simp" h:ident : tactic => `(tactic|
  simp [ExceptT.run, bind, ExceptT.bind, ExceptT.mk, ExceptT.bindCont, StateT.run, StateT.bind, get, getThe,
    MonadStateOf.get, liftM, monadLift, MonadLift.monadLift, ExceptT.lift, StateT.get, Functor.map, StateT.map, pure, StateT.pure,
    set, MonadStateOf.set, StateT.set, ExceptT.pure, modify, modifyGet, MonadStateOf.modifyGet, StateT.modifyGet,
    divergence, unsupported, throw, throwThe, MonadExceptOf.throw] at $h:ident)

theorem grows_divergence {α} : Grows (divergence : M α) := grows_unsupported _

theorem grows_getS : Grows getS := by
  refine ⟨fun s r s' h => ?_⟩
  unfold getS at h; prim_simp h
  obtain ⟨_, rfl⟩ := h; exact Store.Le.refl _

theorem grows_allocCell (v : Val) : Grows (allocCell v) := by
  refine ⟨fun s r s' h => ?_⟩
  unfold allocCell at h
  cases hr : s.replay with
  | nil =>
    prim_simp h; simp [hr] at h; obtain ⟨_, rfl⟩ := h
    refine Store.Le.trans ?_ (Store.Le.record _ _)
    exact ⟨by simp, Nat.le_refl _, Nat.le_refl _, Nat.le_refl _, rfl, ⟨[], by simp⟩⟩
  | cons e rest =>
    prim_simp h; simp [hr] at h
    cases e <;> simp at h <;> (obtain ⟨_, rfl⟩ := h; exact Store.Le.of_same rfl rfl rfl rfl rfl rfl)

theorem grows_allocTable (t : Table) : Grows (allocTable t) := by
  refine ⟨fun s r s' h => ?_⟩
  unfold allocTable at h
  cases hr : s.replay with
  | nil =>
    prim_simp h; simp [hr] at h; obtain ⟨_, rfl⟩ := h
    refine Store.Le.trans ?_ (Store.Le.record _ _)
    exact ⟨Nat.le_refl _, by simp, Nat.le_refl _, Nat.le_refl _, rfl, ⟨[], by simp⟩⟩
  | cons e rest =>
    prim_simp h; simp [hr] at h
    cases e <;> simp at h <;> (obtain ⟨_, rfl⟩ := h; exact Store.Le.of_same rfl rfl rfl rfl rfl rfl)

theorem grows_allocClosure (c : Closure) : Grows (allocClosure c) := by
  refine ⟨fun s r s' h => ?_⟩
  unfold allocClosure at h
  cases hr : s.replay with
  | nil =>
    prim_simp h; simp [hr] at h; obtain ⟨_, rfl⟩ := h
    refine Store.Le.trans ?_ (Store.Le.record _ _)
    exact ⟨Nat.le_refl _, Nat.le_refl _, by simp, Nat.le_refl _, rfl, ⟨[], by simp⟩⟩
  | cons e rest =>
    prim_simp h; simp [hr] at h
    cases e <;> simp at h <;> (obtain ⟨_, rfl⟩ := h; exact Store.Le.of_same rfl rfl rfl rfl rfl rfl)

theorem grows_allocCo (c : CoState) : Grows (allocCo c) := by
  refine ⟨fun s r s' h => ?_⟩
  unfold allocCo at h
  cases hr : s.replay with
  | nil =>
    prim_simp h; simp [hr] at h; obtain ⟨_, rfl⟩ := h
    refine Store.Le.trans ?_ (Store.Le.record _ _)
    exact ⟨Nat.le_refl _, Nat.le_refl _, Nat.le_refl _, by simp, rfl, ⟨[], by simp⟩⟩
  | cons e rest =>
    prim_simp h; simp [hr] at h
    cases e <;> simp at h <;> (obtain ⟨_, rfl⟩ := h; exact Store.Le.of_same rfl rfl rfl rfl rfl rfl)

theorem grows_readCell (i : Nat) : Grows (readCell i) := by
  refine ⟨fun s r s' h => ?_⟩
  unfold readCell at h
  cases hr : s.replay with
  | nil => prim_simp h; simp [hr] at h; obtain ⟨_, rfl⟩ := h; exact Store.Le.record _ _
  | cons e rest =>
    prim_simp h; simp [hr] at h
    cases e <;> simp at h <;> (obtain ⟨_, rfl⟩ := h; exact Store.Le.of_same rfl rfl rfl rfl rfl rfl)

theorem grows_getTable (a : Nat) : Grows (getTable a) := by
  refine ⟨fun s r s' h => ?_⟩
  unfold getTable at h
  cases hr : s.replay with
  | nil => prim_simp h; simp [hr] at h; obtain ⟨_, rfl⟩ := h; exact Store.Le.record _ _
  | cons e rest =>
    prim_simp h; simp [hr] at h
    cases e <;> simp at h <;> (obtain ⟨_, rfl⟩ := h; exact Store.Le.of_same rfl rfl rfl rfl rfl rfl)

theorem grows_readCoStatus (a : Nat) : Grows (readCoStatus a) := by
  refine ⟨fun s r s' h => ?_⟩
  unfold readCoStatus at h
  cases hr : s.replay with
  | nil => prim_simp h; simp [hr] at h; obtain ⟨_, rfl⟩ := h; exact Store.Le.record _ _
  | cons e rest =>
    prim_simp h; simp [hr] at h
    cases e <;> simp at h <;> (obtain ⟨_, rfl⟩ := h; exact Store.Le.of_same rfl rfl rfl rfl rfl rfl)

theorem grows_nextLog : Grows nextLog := by
  refine ⟨fun s r s' h => ?_⟩
  unfold nextLog at h
  cases hr : s.replay with
  | nil => prim_simp h; simp [hr] at h; obtain ⟨_, rfl⟩ := h; exact Store.Le.refl _
  | cons e rest => prim_simp h; simp [hr] at h; obtain ⟨_, rfl⟩ := h; exact Store.Le.of_same rfl rfl rfl rfl rfl rfl

theorem grows_getClosure (a : Nat) : Grows (getClosure a) := by
  refine ⟨fun s r s' h => ?_⟩
  unfold getClosure at h; prim_simp h
  obtain ⟨_, rfl⟩ := h; exact Store.Le.refl _
theorem grows_getInput : Grows getInput := by
  refine ⟨fun s r s' h => ?_⟩
  unfold getInput at h; prim_simp h
  obtain ⟨_, rfl⟩ := h; exact Store.Le.refl _

theorem grows_modify {t : Store → Store} (ht : ∀ s, Store.Le s (t s)) : Grows (modify t : M Unit) := grows_set ht

theorem grows_writeCell (i : Nat) (v : Val) : Grows (writeCell i v) := by
  unfold writeCell
  exact grows_modify fun s => by split <;> first | exact Store.Le.refl _ | exact Store.Le.of_same (by simp) rfl rfl rfl rfl rfl
theorem grows_putTable (a : Nat) (t : Table) : Grows (putTable a t) := by
  unfold putTable
  exact grows_modify fun s => by split <;> first | exact Store.Le.refl _ | exact Store.Le.of_same rfl (by simp) rfl rfl rfl rfl
theorem grows_emitEvent (vs : List Val) : Grows (emitEvent vs) := by
  unfold emitEvent
  exact grows_modify fun s => by
    split
    · exact ⟨Nat.le_refl _, Nat.le_refl _, Nat.le_refl _, Nat.le_refl _, rfl, ⟨[vs], by simp⟩⟩
    · exact Store.Le.refl _
theorem grows_recordM (e : LogEntry) : Grows (recordM e) := by
  unfold recordM; exact grows_modify fun s => Store.Le.record s e
theorem grows_updCo (co : Nat) (f : CoState → CoState) : Grows (updCo co f) := by
  unfold updCo; exact grows_modify fun s => Store.Le.of_same rfl rfl rfl (by simp) rfl rfl
theorem grows_coEnter (co c first log) : Grows (coEnter co c first log) := by
  unfold coEnter; exact grows_modify fun s => Store.Le.of_same rfl rfl rfl (by simp) rfl rfl
theorem grows_coLeave (co upd) : Grows (coLeave co upd) := by
  unfold coLeave; exact grows_modify fun s => Store.Le.of_same rfl rfl rfl (by simp) rfl rfl

theorem grows_tryTbc {α} {x : M α} (hx : Grows x) : Grows (tryTbc x) := by
  refine ⟨fun s r s' h => ?_⟩
  simp only [tryTbc, ExceptT.run, ExceptT.mk, bind, StateT.bind, StateT.run] at h
  cases hxs : x s with
  | none => simp [hxs, ExceptT.run] at h
  | some p =>
    obtain ⟨r1, s1⟩ := p
    have h1 : Store.Le s s1 := hx.out s r1 s1 (by simpa [ExceptT.run, StateT.run] using hxs)
    simp only [hxs, ExceptT.run] at h
    cases r1 with
    | ok a => simp [pure, StateT.pure] at h; obtain ⟨_, rfl⟩ := h; exact h1
    | error e => cases e <;> (simp [pure, StateT.pure] at h; obtain ⟨_, rfl⟩ := h; exact h1)

theorem grows_tryCo {x : M (List Val)} (hx : Grows x) : Grows (tryCo x) := by
  refine ⟨fun s r s' h => ?_⟩
  simp only [tryCo, ExceptT.run, ExceptT.mk, bind, StateT.bind, StateT.run] at h
  cases hxs : x s with
  | none => simp [hxs, ExceptT.run] at h
  | some p =>
    obtain ⟨r1, s1⟩ := p
    have h1 : Store.Le s s1 := hx.out s r1 s1 (by simpa [ExceptT.run, StateT.run] using hxs)
    simp only [hxs, ExceptT.run] at h
    cases r1 with
    | ok a => simp [pure, StateT.pure] at h; obtain ⟨_, rfl⟩ := h; exact h1
    | error e => cases e <;> (simp [pure, StateT.pure] at h; obtain ⟨_, rfl⟩ := h; exact h1)

theorem grows_newCo (f : Val) : Grows (newCo f) := by unfold newCo; exact grows_allocCo _

end GoluaVerif.Spec.Lua

set_option linter.unusedSimpArgs false
set_option linter.unusedVariables false
namespace GoluaVerif.Spec.Lua

/-- all judgements of `r` only grow the store -/
structure RecGrows (r : Rec) : Prop where
  exprM : ∀ c e, Grows (r.exprM c e)
  exprs : ∀ c e, Grows (r.exprs c e)
  fields : ∀ c a i l, Grows (r.fields c a i l)
  stmt : ∀ c s, Grows (r.stmt c s)
  stmts : ∀ c w t b l i, Grows (r.stmts c w t b l i)
  call : ∀ d f a, Grows (r.call d f a)
  index : ∀ d v k, Grows (r.index d v k)
  setindex : ∀ d t k v, Grows (r.setindex d t k v)
  forin : ∀ c n f s ctl b, Grows (r.forin c n f s ctl b)
  fornumI : ∀ c v cur st cnt b, Grows (r.fornumI c v cur st cnt b)
  fornumF : ∀ c v cur lim st b, Grows (r.fornumF c v cur lim st b)

theorem grows_mapM {α β} {f : α → M β} (hf : ∀ a, Grows (f a)) : ∀ l : List α, Grows (l.mapM f) := by
  intro l
  induction l with
  | nil => simp only [List.mapM_nil]; exact grows_pure _
  | cons a l ih =>
    simp only [List.mapM_cons]
    exact grows_bind (hf a) fun _ => grows_bind ih fun _ => grows_pure _

theorem grows_forM {α} {f : α → M PUnit} (hf : ∀ a, Grows (f a)) : ∀ l : List α, Grows (l.forM f) := by
  intro l
  induction l with
  | nil => exact grows_pure _
  | cons a l ih => exact grows_bind (hf a) fun _ => ih

theorem grows_bindNames : ∀ (ns : List String) (vs : List Val) (env), Grows (bindNames ns vs env) := by
  intro ns
  induction ns with
  | nil => intro vs env; unfold bindNames; exact grows_pure _
  | cons n ns ih =>
    intro vs env; unfold bindNames
    exact grows_bind (grows_allocCell _) fun _ => ih _ _

theorem grows_zeta {α β} (v : β) (f : β → M α) (h : Grows (f v)) : Grows (let x := v; f x) := h

open Lean Elab Tactic Meta in
/-- One syntax-directed step on a goal `Grows x` (no unfolding, no backtracking search): the head symbol of
    `x` selects the rule — `>>=`, `pure`, `throw`, `if`/`match` (split), a `let` (zeta), a projection of the
    record of judgements (induction hypothesis), or a named function `f` (lemma `grows_f`). -/
elab "grows_head" : tactic => withMainContext do
  let g ← getMainGoal
  let t ← instantiateMVars (← g.getType)
  let t := t.consumeMData
  if t.isForall then
    evalTactic (← `(tactic| intro _))
    return
  unless t.isAppOf ``Grows do throwError "grows_head: not a Grows goal{indentExpr t}"
  let x := t.appArg!.consumeMData
  if x.isLet then
    let x' := (x.letBody!.instantiate1 x.letValue!)
    let g' ← g.change (mkApp t.appFn! x')
    replaceMainGoal [g']
    return
  if x.isMData then throwError "mdata"
  let fn := x.getAppFn
  match fn with
  | .const n _ =>
    if n == ``Bind.bind then evalTactic (← `(tactic| apply grows_bind))
    else if n == ``Pure.pure then evalTactic (← `(tactic| exact grows_pure _))
    else if n == ``MonadExcept.throw || n == ``throw || n == ``throwThe || n == ``MonadExceptOf.throw then
      evalTactic (← `(tactic| exact grows_throw _))
    else if n == ``ite || n == ``dite then evalTactic (← `(tactic| split))
    else if n == ``List.mapM then evalTactic (← `(tactic| apply grows_mapM))
    else if n == ``List.forM || n == ``forM || n == ``ForM.forM then evalTactic (← `(tactic| apply grows_forM))
    else if (← isMatcher n) then evalTactic (← `(tactic| split))
    else
      let last := n.componentsRev.head!
      if n.getPrefix == ``Rec then
        let lem := mkIdent (``RecGrows ++ last)
        evalTactic (← `(tactic| exact $lem ‹_› ..))
      else
        let lem := mkIdent (n.getPrefix ++ Name.mkSimple ("grows_" ++ last.toString))
        evalTactic (← `(tactic| first | apply $lem ‹RecGrows _› | apply $lem))
  | _ => throwError "grows_head: no rule for{indentExpr x}"

macro "grows_auto" : tactic => `(tactic| repeat (first | assumption | grows_head))

section helpers
variable {r : Rec} (hr : RecGrows r)
include hr

theorem grows_raise {α} (d v) : Grows (raise r d v : M α) := by unfold raise; grows_auto
theorem grows_rtError {α} (d c) : Grows (rtError r d c : M α) := grows_raise hr _ _
theorem grows_eval1 (c e) : Grows (eval1 r c e) := by unfold eval1; grows_auto
theorem grows_call1 (d f a) : Grows (call1 r d f a) := by unfold call1; grows_auto
omit hr in
theorem grows_metaOf (v n) : Grows (metaOf v n) := by unfold metaOf; grows_auto
theorem grows_finishBin (d raw mm a b) : Grows (finishBin r d raw mm a b) := by unfold finishBin; grows_auto
theorem grows_eqVals (d a b) : Grows (eqVals r d a b) := by unfold eqVals; grows_auto
omit hr in
theorem grows_truthyM {x : M Val} (hx : Grows x) : Grows (truthyM x) := by unfold truthyM; grows_auto
theorem grows_binop (fo d op a b) : Grows (binop fo r d op a b) := by
  unfold binop; cases op <;> simp only [] <;> grows_auto
theorem grows_lenOf (d a) : Grows (lenOf r d a) := by unfold lenOf; grows_auto
theorem grows_unop (d op a) : Grows (unop r d op a) := by
  unfold unop; cases op <;> simp only [] <;> grows_auto
theorem grows_rawSetChecked (d a k v) : Grows (rawSetChecked r d a k v) := by unfold rawSetChecked; grows_auto
theorem grows_evalTarget (c e) : Grows (evalTarget r c e) := by unfold evalTarget; grows_auto
theorem grows_assignTo (d p) : Grows (assignTo r d p) := by unfold assignTo; grows_auto
theorem grows_closeVal (d v e) : Grows (closeVal r d v e) := by unfold closeVal; grows_auto
theorem grows_runBlock (c b) : Grows (runBlock r c b) := by unfold runBlock; grows_auto
theorem grows_coRun (co c first log) : Grows (coRun r co c first log) := by unfold coRun; grows_auto
theorem grows_resumeCo (co a) : Grows (resumeCo r co a) := by unfold resumeCo; grows_auto
theorem grows_closeCo (d co) : Grows (closeCo r d co) := by unfold closeCo; grows_auto
theorem grows_yieldCo (d vs) : Grows (yieldCo r d vs) := by unfold yieldCo; grows_auto
theorem grows_builtinCall (d b a) : Grows (builtinCall r d b a) := by
  unfold builtinCall; cases b <;> simp only [] <;> grows_auto

theorem grows_stepExprM (fo c e) : Grows (stepExprM fo r c e) := by unfold stepExprM; grows_auto
theorem grows_stepExprs (c es) : Grows (stepExprs r c es) := by unfold stepExprs; grows_auto
theorem grows_stepFields (c a i fs) : Grows (stepFields r c a i fs) := by unfold stepFields; grows_auto
theorem grows_stepStmt (c s) : Grows (stepStmt r c s) := by unfold stepStmt; grows_auto
theorem grows_stepStmts (c w t b l i) : Grows (stepStmts r c w t b l i) := by unfold stepStmts; grows_auto
theorem grows_stepCall (d f a) : Grows (stepCall r d f a) := by unfold stepCall; grows_auto
theorem grows_stepIndex (d v k) : Grows (stepIndex r d v k) := by unfold stepIndex; grows_auto
theorem grows_stepSetIndex (d t k v) : Grows (stepSetIndex r d t k v) := by unfold stepSetIndex; grows_auto
theorem grows_stepForin (c n f s ctl b) : Grows (stepForin r c n f s ctl b) := by unfold stepForin; grows_auto
theorem grows_stepFornumI (c v cur st cnt b) : Grows (stepFornumI r c v cur st cnt b) := by
  unfold stepFornumI; grows_auto
theorem grows_stepFornumF (fo c v cur lim st b) : Grows (stepFornumF fo r c v cur lim st b) := by
  unfold stepFornumF; grows_auto
end helpers

theorem step_grows (fo : FloatOps) {r : Rec} (hr : RecGrows r) : RecGrows (step fo r) where
  exprM := grows_stepExprM hr fo
  exprs := grows_stepExprs hr
  fields := grows_stepFields hr
  stmt := grows_stepStmt hr
  stmts := grows_stepStmts hr
  call := grows_stepCall hr
  index := grows_stepIndex hr
  setindex := grows_stepSetIndex hr
  forin := grows_stepForin hr
  fornumI := grows_stepFornumI hr
  fornumF := grows_stepFornumF hr fo

theorem bot_grows : RecGrows Rec.bot where
  exprM := fun _ _ => grows_oof
  exprs := fun _ _ => grows_oof
  fields := fun _ _ _ _ => grows_oof
  stmt := fun _ _ => grows_oof
  stmts := fun _ _ _ _ _ _ => grows_oof
  call := fun _ _ _ => grows_oof
  index := fun _ _ _ => grows_oof
  setindex := fun _ _ _ _ => grows_oof
  forin := fun _ _ _ _ _ _ => grows_oof
  fornumI := fun _ _ _ _ _ _ => grows_oof
  fornumF := fun _ _ _ _ _ _ => grows_oof

/-- every judgement of the evaluator, with any fuel, only grows the store -/
theorem evalN_grows (fo : FloatOps) : ∀ n, RecGrows (evalN fo n)
  | 0 => bot_grows
  | n + 1 => step_grows fo (evalN_grows fo n)

end GoluaVerif.Spec.Lua
