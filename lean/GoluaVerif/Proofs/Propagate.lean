/-
  Proofs.Propagate — consequences of commit 0426709 (propagateTermination) in the bracketed model:
  a bracket without a limit of its own cannot absorb a termination caused by the limit it inherited.
-/
import GoluaVerif.Proofs.CallCtx
namespace GoluaVerif.Proofs.Propagate
open GoluaVerif.Generated.Resources GoluaVerif.Model.Ctx GoluaVerif.Spec.Quota GoluaVerif.Proofs.Ctx
open GoluaVerif.Model.CallCtx GoluaVerif.Proofs.CallCtx

/-! ### what a bracket without a limit of its own inherits -/

theorem Remove_Cpu_eq (r v : RuntimeResources) (h : v.Cpu.toNat ≤ r.Cpu.toNat) :
    (r.Remove v).Cpu = r.Cpu - v.Cpu := by
  apply BitVec.eq_of_toNat_eq
  rw [Remove_Cpu, BitVec.toNat_sub_of_le (by simpa [BitVec.le_def] using h)]

theorem Remove_Memory_eq (r v : RuntimeResources) (h : v.Memory.toNat ≤ r.Memory.toNat) :
    (r.Remove v).Memory = r.Memory - v.Memory := by
  apply BitVec.eq_of_toNat_eq
  rw [Remove_Memory, BitVec.toNat_sub_of_le (by simpa [BitVec.le_def] using h)]

theorem smallerLimit_zero (m : BitVec 64) : smallerLimit 0#64 m = false := by
  cases h : smallerLimit 0#64 m
  · rfl
  · exact absurd rfl ((smallerLimit_iff _ _).mp h).1

theorem child_inherits_cpu (f : Frame) (d : CtxDef) (hd : d.hard.Cpu = 0#64) :
    (f.child d).hard.Cpu = (f.hard.Remove f.used).Cpu := by
  show ((f.hard.Remove f.used).Merge d.hard).Cpu = _
  rw [Merge_Cpu, hd, smallerLimit_zero]; rfl

theorem child_inherits_mem (f : Frame) (d : CtxDef) (hd : d.hard.Memory = 0#64) :
    (f.child d).hard.Memory = (f.hard.Remove f.used).Memory := by
  show ((f.hard.Remove f.used).Merge d.hard).Memory = _
  rw [Merge_Memory, hd, smallerLimit_zero]; rfl

theorem afterPop_killed_fire (a1 : Acc) (res : TermRes) (s2 : St) (p q : Frame) (ps : List Frame)
    (h : p.propagate s2.cur.popped res = (q, .terminated)) :
    afterPop a1 (.killed res) s2 p ps = ({ a1 with st := ⟨q, ps⟩ }, .killed res) := by
  unfold afterPop; simp only [h]

theorem afterPop_killed_nofire (a1 : Acc) (res : TermRes) (s2 : St) (p q : Frame) (ps : List Frame)
    (h : p.propagate s2.cur.popped res = (q, .ok)) :
    afterPop a1 (.killed res) s2 p ps =
      ({ a1 with st := ⟨q, ps⟩, results := mkResult (.killed res) s2 :: a1.results }, .done) := by
  unfold afterPop; simp only [h]

theorem popped_same (f : Frame) : f.popped.hard = f.hard ∧ f.popped.used = f.used := by
  unfold Frame.popped; split <;> exact ⟨rfl, rfl⟩

theorem charged_used_cpu (p c : Frame) (ht : p.trackCpu = true) :
    (charged p c).used.Cpu = p.used.Cpu + c.used.Cpu := by
  have h2 := chargeMem_same (chargeCpu p c.used.Cpu) c.used.Memory
  unfold charged; rw [h2.2.2.2.2.2.1]; unfold chargeCpu; rw [ht]; rfl

theorem charged_used_mem (p c : Frame) (ht : p.trackMem = true) :
    (charged p c).used.Memory = p.used.Memory + c.used.Memory := by
  have h1 := chargeCpu_same p c.used.Cpu
  unfold charged chargeMem; rw [h1.2.2.2.2.2.2.2.2, ht, if_pos rfl]
  show (chargeCpu p c.used.Cpu).used.Memory + c.used.Memory = _
  rw [h1.2.2.2.2.2.1]

theorem afterBody_inh (ex : Exit) (s : St) :
    (afterBody ex s).cur.inhCpu = s.cur.inhCpu ∧ (afterBody ex s).cur.inhMem = s.cur.inhMem := by
  unfold afterBody; split <;> exact ⟨rfl, rfl⟩

/-- a bracket without a limit of its own under a limited parent is flagged as inheriting -/
theorem child_inh_cpu (f : Frame) (d : CtxDef) (hd : d.hard.Cpu = 0#64) (hL : f.hard.Cpu ≠ 0#64) :
    (f.child d).inhCpu = true := by
  show (BitVec.ult 0#64 f.hard.Cpu && !(smallerLimit d.hard.Cpu (f.hard.Remove f.used).Cpu)) = true
  rw [hd, smallerLimit_zero, (ult_zero_iff _).mpr hL]; rfl

theorem child_inh_mem (f : Frame) (d : CtxDef) (hd : d.hard.Memory = 0#64) (hL : f.hard.Memory ≠ 0#64) :
    (f.child d).inhMem = true := by
  show (BitVec.ult 0#64 f.hard.Memory && !(smallerLimit d.hard.Memory (f.hard.Remove f.used).Memory)) = true
  rw [hd, smallerLimit_zero, (ult_zero_iff _).mpr hL]; rfl

/-- propagateTermination fires for a child flagged as inheriting, whenever the parent is live -/
theorem propagate_cpu_fires {p c : Frame} (hl : p.live = true) (hc : c.inhCpu = true) :
    (charged p c).propagate c.popped .cpu = ((charged p c).kill, .terminated) := by
  have hs := charged_same p c
  have h3 : (charged p c).live = true := by unfold Frame.live; rw [hs.2.2.2.1]; exact hl
  simp only [Frame.propagate, (popped_inh c).1, hc, h3]; rfl

theorem propagate_mem_fires {p c : Frame} (hl : p.live = true) (hc : c.inhMem = true) :
    (charged p c).propagate c.popped .mem = ((charged p c).kill, .terminated) := by
  have hs := charged_same p c
  have h3 : (charged p c).live = true := by unfold Frame.live; rw [hs.2.2.2.1]; exact hl
  simp only [Frame.propagate, (popped_inh c).2, hc, h3]; rfl

/-- **A bracket without a CPU limit of its own cannot absorb a CPU termination**: whatever its body
is, if the body is terminated for CPU, the bracket's parent (when it is CPU-limited) is terminated
too — the call exits with the same termination, the parent is `killed`, the stack is aligned, and
nothing was executed in between (the events are those of the body). -/
theorem limitless_bracket_propagates_cpu (a : Acc) (d : CtxDef) (body hs : List Item) (hw : wfBody body = true)
    (hwh : wfBody hs = true)
    (hi : Inv a.st) (hl : a.st.cur.live = true) (hd : d.hard.Cpu = 0#64) (hL : a.st.cur.hard.Cpu ≠ 0#64)
    (hk : (runCall a d body hs).2 = .killed .cpu) :
    (runItem a (.call d body hs)).2 = .killed .cpu ∧
    (runItem a (.call d body hs)).1.st.cur.status = StatusKilled ∧
    LowerL (runItem a (.call d body hs)).1.st.parents a.st.parents ∧
    (runItem a (.call d body hs)).1.events = (runCall a d body hs).1.events ∧
    (runItem a (.call d body hs)).1.results = (runCall a d body hs).1.results := by
  have gb := good_call a d body hs hw hwh hi hl
  cases hr : runCall a d body hs with
  | mk a1 ex =>
    rw [hr] at gb hk
    simp only at hk; subst hk
    obtain ⟨p', ps', _, hlp, hlps, hc2, hcp, hp, hpl, hrest, hrun⟩ := call_unfold a d body hs a1 _ hr gb hl
    have hflag : (afterBody (Exit.killed .cpu) a1.st).cur.inhCpu = true := by
      rw [(afterBody_inh _ a1.st).1, gb.inh.1]; exact child_inh_cpu a.st.cur d hd hL
    have hfire := propagate_cpu_fires (c := (afterBody (Exit.killed .cpu) a1.st).cur) hpl hflag
    rw [hrun, afterPop_killed_fire _ _ _ _ _ _ hfire]
    exact ⟨rfl, rfl, hlps, rfl, rfl⟩

/-- the same for memory — with the flag of 52f8e49 no proviso is needed: releases that cascade into
the parent during the body (8007e69) do not change the flag recorded at push. -/
theorem limitless_bracket_propagates_mem (a : Acc) (d : CtxDef) (body hs : List Item) (hw : wfBody body = true)
    (hwh : wfBody hs = true)
    (hi : Inv a.st) (hl : a.st.cur.live = true) (hd : d.hard.Memory = 0#64) (hL : a.st.cur.hard.Memory ≠ 0#64)
    (hk : (runCall a d body hs).2 = .killed .mem) :
    (runItem a (.call d body hs)).2 = .killed .mem ∧
    (runItem a (.call d body hs)).1.st.cur.status = StatusKilled ∧
    LowerL (runItem a (.call d body hs)).1.st.parents a.st.parents ∧
    (runItem a (.call d body hs)).1.events = (runCall a d body hs).1.events ∧
    (runItem a (.call d body hs)).1.results = (runCall a d body hs).1.results := by
  have gb := good_call a d body hs hw hwh hi hl
  cases hr : runCall a d body hs with
  | mk a1 ex =>
    rw [hr] at gb hk
    simp only at hk; subst hk
    obtain ⟨p', ps', _, hlp, hlps, hc2, hcp, hp, hpl, hrest, hrun⟩ := call_unfold a d body hs a1 _ hr gb hl
    have hflag : (afterBody (Exit.killed .mem) a1.st).cur.inhMem = true := by
      rw [(afterBody_inh _ a1.st).2, gb.inh.2]; exact child_inh_mem a.st.cur d hd hL
    have hfire := propagate_mem_fires (c := (afterBody (Exit.killed .mem) a1.st).cur) hpl hflag
    rw [hrun, afterPop_killed_fire _ _ _ _ _ _ hfire]
    exact ⟨rfl, rfl, hlps, rfl, rfl⟩

/-- **A child with a tighter limit of its own dies alone**: if the bracket's own CPU limit is
strictly below what the parent has left (or the parent is not CPU-limited) and its body is
terminated for CPU, the call returns normally, hands back a context with status `killed`, and the
parent stays live. -/
theorem own_limit_dies_alone (a : Acc) (d : CtxDef) (body hs : List Item) (hw : wfBody body = true)
    (hwh : wfBody hs = true)
    (hi : Inv a.st) (hl : a.st.cur.live = true) (hd : d.hard.Cpu ≠ 0#64)
    (htight : a.st.cur.hard.Cpu = 0#64 ∨ d.hard.Cpu.toNat < a.st.cur.hard.Cpu.toNat - a.st.cur.used.Cpu.toNat)
    (hk : (runCall a d body hs).2 = .killed .cpu) :
    (runItem a (.call d body hs)).2 = .done ∧ (runItem a (.call d body hs)).1.st.cur.live = true ∧
    LowerL (runItem a (.call d body hs)).1.st.parents a.st.parents ∧
    ∃ r, (runItem a (.call d body hs)).1.results = r :: (runCall a d body hs).1.results ∧
      r.status = StatusKilled ∧ r.exit = .killed .cpu := by
  have gb := good_call a d body hs hw hwh hi hl
  cases hr : runCall a d body hs with
  | mk a1 ex =>
    rw [hr] at gb hk
    simp only at hk; subst hk
    obtain ⟨p', ps', _, hlp, hlps, hc2, hcp, hp, hpl, hrest, hrun⟩ := call_unfold a d body hs a1 _ hr gb hl
    have hsame := afterBody_same (Exit.killed .cpu) a1.st
    have hs := charged_same p' (afterBody (Exit.killed .cpu) a1.st).cur
    -- the child is not flagged: its limit is its own
    have hflag : (afterBody (Exit.killed .cpu) a1.st).cur.inhCpu = false := by
      rw [(afterBody_inh _ a1.st).1, gb.inh.1]
      show (BitVec.ult 0#64 a.st.cur.hard.Cpu && !(smallerLimit d.hard.Cpu (a.st.cur.hard.Remove a.st.cur.used).Cpu)) = false
      rcases htight with h0 | hlt
      · rw [h0]; rfl
      · have : smallerLimit d.hard.Cpu (a.st.cur.hard.Remove a.st.cur.used).Cpu = true := by
          rw [smallerLimit_iff]; exact ⟨hd, Or.inr (by rw [Remove_Cpu]; exact hlt)⟩
        rw [this]; simp
    have hnofire : (charged p' (afterBody (Exit.killed .cpu) a1.st).cur).propagate
        (afterBody (Exit.killed .cpu) a1.st).cur.popped .cpu =
        (charged p' (afterBody (Exit.killed .cpu) a1.st).cur, .ok) := by
      simp only [Frame.propagate, (popped_inh _).1, hflag]; rfl
    have hlive3 : (charged p' (afterBody (Exit.killed .cpu) a1.st).cur).live = true := by
      unfold Frame.live; rw [hs.2.2.2.1]; exact hpl
    rw [hrun, afterPop_killed_nofire _ _ _ _ _ _ hnofire]
    refine ⟨rfl, hlive3, hlps, _, rfl, ?_, rfl⟩
    show (afterBody (Exit.killed .cpu) a1.st).cur.popped.status = StatusKilled
    have hk := gb.killed .cpu rfl
    rw [hsame.2.2.2.2 (fun c => nomatch c)]
    unfold Frame.popped Frame.live; rw [hk]; simp [StatusKilled, StatusLive]; exact hk

/-! ### exactness through any nesting of limit-less brackets -/

mutual
  theorem pcallCpu_wf (it : Item) (h : it.pcallCpu = true) : it.wf = true := by
    match it with
    | .op o => cases o <;> simp [Item.pcallCpu] at h <;> rfl
    | .err => simp [Item.pcallCpu] at h
    | .call d body hs =>
      unfold Item.pcallCpu at h; unfold Item.wf
      simp only [Bool.and_eq_true, decide_eq_true_eq] at h
      rw [h.1.2]
      simp only [Bool.and_eq_true]
      exact ⟨bodyPcallCpu_wf body h.2, rfl⟩
  theorem bodyPcallCpu_wf (body : List Item) (h : bodyPcallCpu body = true) : wfBody body = true := by
    match body with
    | [] => rfl
    | it :: rest =>
      unfold bodyPcallCpu at h; unfold wfBody
      simp only [Bool.and_eq_true] at h ⊢
      exact ⟨pcallCpu_wf it h.1, bodyPcallCpu_wf rest h.2⟩
end

mutual
  theorem fits_mono_item {B B' : Nat} (hle : B' ≤ B) (it : Item) (h : it.fits B) : it.fits B' := by
    match it with
    | .op o => cases o <;> first | trivial | (unfold Item.fits at h ⊢; omega)
    | .err => trivial
    | .call d body hs => unfold Item.fits at h ⊢; exact fits_mono_body hle body h
  theorem fits_mono_body {B B' : Nat} (hle : B' ≤ B) (body : List Item) (h : bodyFits B body) : bodyFits B' body := by
    match body with
    | [] => trivial
    | it :: rest => unfold bodyFits at h ⊢; exact ⟨fits_mono_item hle it h.1, fits_mono_body hle rest h.2⟩
end

/-- the new events of a run are all granted requests -/
def EvOk (a a' : Acc) : Prop := ∃ new, a'.events = new ++ a.events ∧ ∀ e ∈ new, e.out = Outcome.ok

/-- the new events of a run are granted requests followed by one refused request, which is the
last thing that was executed -/
def EvKill (a a' : Acc) : Prop :=
  ∃ k oks, a'.events = k :: (oks ++ a.events) ∧ k.out = Outcome.terminated ∧ ∀ e ∈ oks, e.out = Outcome.ok

theorem EvOk.refl (a : Acc) : EvOk a a := ⟨[], rfl, fun _ h => nomatch h⟩

theorem EvOk.trans {a b c : Acc} (h1 : EvOk a b) (h2 : EvOk b c) : EvOk a c := by
  obtain ⟨n1, e1, o1⟩ := h1
  obtain ⟨n2, e2, o2⟩ := h2
  refine ⟨n2 ++ n1, by rw [e2, e1, List.append_assoc], fun e he => ?_⟩
  rcases List.mem_append.mp he with h | h
  · exact o2 e h
  · exact o1 e h

theorem EvOk.thenKill {a b c : Acc} (h1 : EvOk a b) (h2 : EvKill b c) : EvKill a c := by
  obtain ⟨n1, e1, o1⟩ := h1
  obtain ⟨k, oks, e2, hk, o2⟩ := h2
  refine ⟨k, oks ++ n1, by rw [e2, e1, List.append_assoc], hk, fun e he => ?_⟩
  rcases List.mem_append.mp he with h | h
  · exact o2 e h
  · exact o1 e h

/-- what a run of a pcall-only CPU program does in a metered frame -/
structure Exact (a : Acc) (cost : Nat) (r : Acc × Exit) : Prop where
  survive : a.st.cur.used.Cpu.toNat + cost < a.st.cur.hard.Cpu.toNat →
    r.2 = .done ∧ Metered r.1.st.cur ∧ r.1.st.cur.used.Cpu.toNat = a.st.cur.used.Cpu.toNat + cost ∧
    r.1.st.cur.hard = a.st.cur.hard ∧ LowerL r.1.st.parents a.st.parents ∧ Inv r.1.st ∧ EvOk a r.1
  die : a.st.cur.hard.Cpu.toNat ≤ a.st.cur.used.Cpu.toNat + cost →
    r.2 = .killed .cpu ∧ r.1.st.cur.status = StatusKilled ∧ LowerL r.1.st.parents a.st.parents ∧ EvKill a r.1

theorem child_none_metered {p : Frame} (hp : Metered p) (hpo : FrameOk p) :
    Metered (p.child CtxDef.none) ∧
    (p.child CtxDef.none).hard.Cpu.toNat = p.hard.Cpu.toNat - p.used.Cpu.toNat ∧
    (p.child CtxDef.none).used.Cpu = 0#64 := by
  have hh : (p.child CtxDef.none).hard.Cpu.toNat = p.hard.Cpu.toNat - p.used.Cpu.toNat := by
    rw [child_inherits_cpu p CtxDef.none rfl, Remove_Cpu]
  have hb := hp.below
  have h0 : (p.child CtxDef.none).hard.Cpu ≠ 0#64 := by rw [ne_zero_iff, hh]; omega
  refine ⟨⟨rfl, hp.nostop, ?_, h0, ?_⟩, hh, rfl⟩
  · show (BitVec.ult 0#64 (p.child CtxDef.none).hard.Cpu || _ || _) = true
    rw [(ult_zero_iff _).mpr h0]; rfl
  · show (0#64 : BitVec 64).toNat < _
    rw [hh]; simp; omega

mutual
  theorem exact_body (a : Acc) (body : List Item) (hw : bodyPcallCpu body = true) (hi : Inv a.st)
      (hm : Metered a.st.cur) (hf : bodyFits a.st.cur.hard.Cpu.toNat body) :
      Exact a (bodyCost body) (runBody a body) := by
    match body with
    | [] =>
      constructor
      · intro _; exact ⟨rfl, hm, by simp [bodyCost, runBody], rfl, LowerL.refl _, hi, EvOk.refl a⟩
      · intro h; have := hm.below; simp [bodyCost] at h; omega
    | it :: rest =>
      have hw' : it.pcallCpu = true ∧ bodyPcallCpu rest = true := by
        have := hw; unfold bodyPcallCpu at this; simpa using this
      have hf' : it.fits a.st.cur.hard.Cpu.toNat ∧ bodyFits a.st.cur.hard.Cpu.toNat rest := by
        have := hf; unfold bodyFits at this; exact this
      have e1 := exact_item a it hw'.1 hi hm hf'.1
      have hcost : bodyCost (it :: rest) = it.cost + bodyCost rest := by simp [bodyCost]
      rw [hcost]
      unfold runBody
      by_cases hlt : a.st.cur.used.Cpu.toNat + it.cost < a.st.cur.hard.Cpu.toNat
      · obtain ⟨hd, hm1, hu1, hh1, hp1, hi1, hev1⟩ := e1.survive hlt
        cases hr : runItem a it with
        | mk a1 x1 =>
          rw [hr] at hd hm1 hu1 hh1 hp1 hi1 hev1
          simp only at hd; subst hd
          simp only
          have e2 := exact_body a1 rest hw'.2 hi1 hm1 (by rw [hh1]; exact hf'.2)
          constructor
          · intro h
            obtain ⟨hd2, hm2, hu2, hh2, hp2, hi2, hev2⟩ := e2.survive (by rw [hu1, hh1]; omega)
            exact ⟨hd2, hm2, by rw [hu2, hu1]; omega, hh2.trans hh1, hp2.trans hp1, hi2, hev1.trans hev2⟩
          · intro h
            obtain ⟨hk2, hs2, hp2, hev2⟩ := e2.die (by rw [hu1, hh1]; omega)
            exact ⟨hk2, hs2, hp2.trans hp1, hev1.thenKill hev2⟩
      · obtain ⟨hk, hs, hp1, hev⟩ := e1.die (by omega)
        cases hr : runItem a it with
        | mk a1 x1 =>
          rw [hr] at hk hs hp1 hev
          simp only at hk; subst hk
          simp only
          constructor
          · intro h; omega
          · intro _; exact ⟨rfl, hs, hp1, hev⟩

  theorem exact_item (a : Acc) (it : Item) (hw : it.pcallCpu = true) (hi : Inv a.st)
      (hm : Metered a.st.cur) (hf : it.fits a.st.cur.hard.Cpu.toNat) :
      Exact a it.cost (runItem a it) := by
    match it with
    | .err => simp [Item.pcallCpu] at hw
    | .op o =>
      cases o with
      | reqCpu n =>
        have hn : n.toNat + a.st.cur.hard.Cpu.toNat ≤ 2 ^ 64 := by unfold Item.fits at hf; exact hf
        have hinv := inv_step (.reqCpu n) hi hm.live
        have hcost : (Item.op (.reqCpu n)).cost = n.toNat := by simp [Item.cost]
        rw [hcost]
        unfold runItem
        simp only [step, onCur]
        rcases metered_step n hm hn with ⟨hge, e⟩ | ⟨hlt, hok, hm', hh, hu⟩
        · rw [e]
          simp only
          constructor
          · intro h; omega
          · intro _
            refine ⟨?_, rfl, LowerL.refl _, ⟨⟨_, _, .terminated⟩, [], rfl, rfl, fun _ h => nomatch h⟩⟩
            show Exit.killed (killCause a.st.cur (.reqCpu n)) = _
            simp [killCause, hm.nostop]
        · have hinv' : Inv ⟨(a.st.cur.requireCPU n).1, a.st.parents⟩ := hinv
          cases hreq : a.st.cur.requireCPU n with
          | mk f' o' =>
            rw [hreq] at hok hm' hh hu hinv'
            simp only at hok; subst hok
            simp only
            constructor
            · intro _
              exact ⟨rfl, hm', hu, hh, LowerL.refl _, hinv', ⟨[⟨_, _, .ok⟩], rfl, fun e he => by
                simp only [List.mem_singleton] at he; rw [he]⟩⟩
            · intro h; omega
      | push d => simp [Item.pcallCpu] at hw
      | pop => simp [Item.pcallCpu] at hw
      | reqMem n => simp [Item.pcallCpu] at hw
      | relMem n => simp [Item.pcallCpu] at hw
      | stop l => simp [Item.pcallCpu] at hw
      | due => simp [Item.pcallCpu] at hw
    | .call d body hs =>
      have hw' : (d = CtxDef.none ∧ hs = []) ∧ bodyPcallCpu body = true := by
        have := hw; unfold Item.pcallCpu at this; simpa using this
      obtain ⟨⟨rfl, rfl⟩, hwb⟩ := hw'
      have hcost : (Item.call CtxDef.none body []).cost = bodyCost body := by simp [Item.cost]
      rw [hcost]
      have hpo : FrameOk a.st.cur := hi.1
      obtain ⟨hcm, hch, hcu⟩ := child_none_metered hm hpo
      have hi0 : Inv (push a.st CtxDef.none) := inv_step (.push CtxDef.none) hi hm.live
      have hb := hm.below
      have hfb : bodyFits (a.st.cur.child CtxDef.none).hard.Cpu.toNat body := by
        have : bodyFits a.st.cur.hard.Cpu.toNat body := by unfold Item.fits at hf; exact hf
        exact fits_mono_body (by rw [hch]; omega) body this
      have eb := exact_body { a with st := push a.st CtxDef.none } body hwb hi0 hcm hfb
      have hwf := bodyPcallCpu_wf body hwb
      have hcu0 : ({ a with st := push a.st CtxDef.none } : Acc).st.cur.used.Cpu.toNat = 0 := by
        show (a.st.cur.child CtxDef.none).used.Cpu.toNat = 0; rw [hcu]; rfl
      have hch' : ({ a with st := push a.st CtxDef.none } : Acc).st.cur.hard.Cpu.toNat =
          a.st.cur.hard.Cpu.toNat - a.st.cur.used.Cpu.toNat := hch
      constructor
      · intro hlt
        obtain ⟨hd, hm1, hu1, hh1, hp1, hi1, hev1⟩ := eb.survive (by rw [hcu0, hch']; omega)
        have gb := good_body { a with st := push a.st CtxDef.none } body hwf hi0 rfl
        cases hr : runBody { a with st := push a.st CtxDef.none } body with
        | mk a1 ex =>
          rw [hr] at hd hm1 hu1 hh1 hp1 hi1 hev1 gb
          simp only at hd; subst hd
          obtain ⟨p', ps', _, hlp, hlps, hc2, hcp, hp, hpl, hrest, hrun⟩ :=
            call_unfold a CtxDef.none body [] a1 _ (by rw [runCall_nil]; exact hr) gb hm.live
          have hab : afterBody Exit.done a1.st = a1.st := (afterBody_same Exit.done a1.st).2.2.2.2 (fun c => nomatch c)
          rw [hab] at hc2 hcp hrun
          have hdone : afterPop a1 Exit.done a1.st (charged p' a1.st.cur) ps' =
              ({ a1 with st := ⟨charged p' a1.st.cur, ps'⟩,
                         results := mkResult Exit.done a1.st :: a1.results }, Exit.done) := rfl
          rw [hrun, hdone]
          have hps := hlp.same
          have hs := charged_same p' a1.st.cur
          have hlim' : p'.hard.Cpu ≠ 0#64 := by rw [hps.1]; exact hm.lim
          have hsum := (charge_cpu_below hc2 hp hcp).2 hlim'
          have hcuv := charged_used_cpu p' a1.st.cur (by rw [hps.2.2.2.2.2.1]; exact hm.track)
          have hu1' : a1.st.cur.used.Cpu.toNat = bodyCost body := by rw [hu1, hcu0]; omega
          have hused : (charged p' a1.st.cur).used.Cpu.toNat = a.st.cur.used.Cpu.toNat + bodyCost body := by
            rw [hcuv, hsum, hu1', hps.2.2.2.2.2.2.2.1]
          have hinv3 : Inv ⟨charged p' a1.st.cur, ps'⟩ :=
            ⟨charged_frameOk hc2 hp hcp, chainInv_congr hs.1 hs.2.2.1 hrest⟩
          have hh3 : (charged p' a1.st.cur).hard = a.st.cur.hard := hs.1.trans hps.1
          refine ⟨rfl, ⟨?_, ?_, ?_, ?_, ?_⟩, hused, hh3, hlps, hinv3, ?_⟩
          · unfold Frame.live; rw [hs.2.2.2.1]; exact hpl
          · unfold Frame.hardStopped; rw [hs.2.2.2.2.1, hps.2.2.2.2.1]; exact hm.nostop
          · rw [hs.2.2.2.2.2.1, hps.2.2.2.2.2.1]; exact hm.track
          · rw [hh3]; exact hm.lim
          · rw [hh3, hused]; exact hlt
          · obtain ⟨new, en, on⟩ := hev1
            exact ⟨new, en, on⟩
      · intro hge
        obtain ⟨hk, hs1, hp1, hev1⟩ := eb.die (by rw [hcu0, hch']; omega)
        obtain ⟨h1, h2, h3, h4, _⟩ := limitless_bracket_propagates_cpu a CtxDef.none body [] hwf rfl hi hm.live rfl
          hm.lim (by rw [runCall_nil]; exact hk)
        refine ⟨h1, h2, h3, ?_⟩
        obtain ⟨k, oks, ek, hkt, hoks⟩ := hev1
        exact ⟨k, oks, by rw [h4, runCall_nil]; exact ek, hkt, hoks⟩
end

theorem runItem_op (a : Acc) (o : Op) :
    runItem a (.op o) = (({ a with st := (step a.st o).1, events := ⟨a.st.depth, o, (step a.st o).2⟩ :: a.events } : Acc),
      match (step a.st o).2 with
      | .ok => Exit.done
      | .terminated => Exit.killed (killCause a.st.cur o)
      | .crash => Exit.crashed) := by
  unfold runItem; simp only; cases (step a.st o).2 <;> rfl


/-! ### memory programs: a termination is always a memory termination and cannot be absorbed -/

mutual
  theorem pcallMem_wf (it : Item) (h : it.pcallMem = true) : it.wf = true := by
    match it with
    | .op o => cases o <;> simp [Item.pcallMem] at h <;> rfl
    | .err => simp [Item.pcallMem] at h
    | .call d body hs =>
      unfold Item.pcallMem at h; unfold Item.wf
      simp only [Bool.and_eq_true, decide_eq_true_eq] at h
      rw [h.1.2]
      simp only [Bool.and_eq_true]
      exact ⟨bodyPcallMem_wf body h.2, rfl⟩
  theorem bodyPcallMem_wf (body : List Item) (h : bodyPcallMem body = true) : wfBody body = true := by
    match body with
    | [] => rfl
    | it :: rest =>
      unfold bodyPcallMem at h; unfold wfBody
      simp only [Bool.and_eq_true] at h ⊢
      exact ⟨pcallMem_wf it h.1, bodyPcallMem_wf rest h.2⟩
end

/-- a release covered by the active context stays in the active context -/
theorem releaseStack_local (f : Frame) (rest : List Frame) (n : BitVec 64) (h0 : f.hard.Memory ≠ 0#64)
    (hn : n.toNat ≤ f.used.Memory.toNat) :
    releaseStack f rest n = (({ f with used := { f.used with Memory := f.used.Memory - n } }, rest), .ok) := by
  cases rest with
  | nil =>
    show (((f.releaseMem n).1, []), (f.releaseMem n).2) = _
    rcases releaseMem_cases f n with ⟨hz, _⟩ | ⟨_, _, e⟩ | ⟨_, hlt, _⟩
    · exact absurd hz h0
    · rw [e]
    · omega
  | cons p ps =>
    unfold releaseStack
    rw [(ult_zero_iff _).mpr h0, if_pos rfl]
    have : BitVec.ule n f.used.Memory = true := by simpa [BitVec.ule] using hn
    rw [this, if_pos rfl]

/-- a context without hard memory limit ignores every release -/
theorem releaseStack_unlimited (f : Frame) (rest : List Frame) (n : BitVec 64) (h0 : f.hard.Memory = 0#64) :
    releaseStack f rest n = ((f, rest), .ok) := by
  cases rest with
  | nil =>
    show (((f.releaseMem n).1, []), (f.releaseMem n).2) = _
    rcases releaseMem_cases f n with ⟨_, e⟩ | ⟨hne, _⟩ | ⟨hne, _⟩
    · rw [e]
    · exact absurd h0 hne
    · exact absurd h0 hne
  | cons p ps =>
    unfold releaseStack
    have : BitVec.ult 0#64 f.hard.Memory = false := by rw [h0]; rfl
    rw [this]; rfl

/-- an uncovered release in a limited context drains it and goes on in the parent -/
theorem releaseStack_cascade (f p : Frame) (ps : List Frame) (n : BitVec 64) (h0 : f.hard.Memory ≠ 0#64)
    (hn : f.used.Memory.toNat < n.toNat) :
    releaseStack f (p :: ps) n =
      (({ f with used := { f.used with Memory := 0#64 } },
        (releaseStack p ps (n - f.used.Memory)).1.1 :: (releaseStack p ps (n - f.used.Memory)).1.2),
       (releaseStack p ps (n - f.used.Memory)).2) := by
  conv => lhs; unfold releaseStack
  have : BitVec.ule n f.used.Memory = false := by simp [BitVec.ule]; omega
  rw [(ult_zero_iff _).mpr h0, this]; rfl

/-- what a run of a memory program guarantees in a memory-limited frame that was not hard-stopped -/
structure MemRun (r : Acc × Exit) : Prop where
  nostop : r.1.st.cur.hardStopped = false
  cause : ∀ res, r.2 = .killed res → res = .mem

theorem child_none_stop (p : Frame) : (p.child CtxDef.none).hardStopped = p.hardStopped := rfl

theorem child_none_mem_ne {p : Frame} (hpo : FrameOk p) (h0 : p.hard.Memory ≠ 0#64) :
    (p.child CtxDef.none).hard.Memory ≠ 0#64 := by
  rw [child_inherits_mem p CtxDef.none rfl, ne_zero_iff, Remove_Memory]
  rcases hpo.mem with h | h
  · exact absurd h h0
  · omega

mutual
  theorem memrun_body (a : Acc) (body : List Item) (hw : bodyPcallMem body = true) (hi : Inv a.st)
      (hl : a.st.cur.live = true) (hs : a.st.cur.hardStopped = false) (h0 : a.st.cur.hard.Memory ≠ 0#64) :
      MemRun (runBody a body) := by
    match body with
    | [] => exact ⟨hs, (fun _ h => nomatch h)⟩
    | it :: rest =>
      have hw' : it.pcallMem = true ∧ bodyPcallMem rest = true := by
        have := hw; unfold bodyPcallMem at this; simpa using this
      have m1 := memrun_item a it hw'.1 hi hl hs h0
      have g1 := good_item a it (pcallMem_wf it hw'.1) hi hl
      unfold runBody
      cases hr : runItem a it with
      | mk a1 e1 =>
        rw [hr] at m1 g1
        cases e1 with
        | done =>
          exact memrun_body a1 rest hw'.2 g1.inv (g1.live (fun _ h => nomatch h)) m1.nostop
            (by rw [g1.hard]; exact h0)
        | error => exact ⟨m1.nostop, m1.cause⟩
        | killed r => exact ⟨m1.nostop, m1.cause⟩
        | crashed => exact ⟨m1.nostop, m1.cause⟩

  theorem memrun_item (a : Acc) (it : Item) (hw : it.pcallMem = true) (hi : Inv a.st)
      (hl : a.st.cur.live = true) (hs : a.st.cur.hardStopped = false) (h0 : a.st.cur.hard.Memory ≠ 0#64) :
      MemRun (runItem a it) := by
    match it with
    | .err => simp [Item.pcallMem] at hw
    | .op o =>
      cases o with
      | reqMem n =>
        rw [runItem_op]
        have hstep : step a.st (.reqMem n) = (⟨(a.st.cur.requireMem n).1, a.st.parents⟩, (a.st.cur.requireMem n).2) := rfl
        rw [hstep]
        rcases requireMem_live a.st.cur n hl with ⟨ht, _⟩ | ⟨_, hk, e⟩ | ⟨_, _, _, e⟩
        · rw [hi.1.tmem h0] at ht; cases ht
        · rw [e]
          refine ⟨hs, fun res h => ?_⟩
          simp only at h
          injection h with h
          rw [← h]; simp [killCause, hs]
        · rw [e]; exact ⟨hs, (fun _ h => nomatch h)⟩
      | relMem n =>
        rw [runItem_op]
        have hlow := releaseStack_lower a.st.cur a.st.parents n
        have hnt := releaseStack_not_terminated a.st.cur a.st.parents n
        refine ⟨?_, fun res h => ?_⟩
        · show (releaseStack a.st.cur a.st.parents n).1.1.hardStopped = false
          rw [hlow.1.hardStopped]; exact hs
        · exfalso
          have hst : (step a.st (.relMem n)).2 = (releaseStack a.st.cur a.st.parents n).2 := rfl
          cases hc : (releaseStack a.st.cur a.st.parents n).2 with
          | ok => simp only [hst, hc] at h; cases h
          | crash => simp only [hst, hc] at h; cases h
          | terminated => exact hnt hc
      | push d => simp [Item.pcallMem] at hw
      | pop => simp [Item.pcallMem] at hw
      | reqCpu n => simp [Item.pcallMem] at hw
      | stop l => simp [Item.pcallMem] at hw
      | due => simp [Item.pcallMem] at hw
    | .call d body hs =>
      have hw' : (d = CtxDef.none ∧ hs = []) ∧ bodyPcallMem body = true := by
        have := hw; unfold Item.pcallMem at this; simpa using this
      obtain ⟨⟨rfl, rfl⟩, hwb⟩ := hw'
      have hwf := bodyPcallMem_wf body hwb
      have hi0 : Inv (push a.st CtxDef.none) := inv_step (.push CtxDef.none) hi hl
      have mb := memrun_body { a with st := push a.st CtxDef.none } body hwb hi0 rfl hs
        (child_none_mem_ne hi.1 h0)
      have gb := good_body { a with st := push a.st CtxDef.none } body hwf hi0 rfl
      cases hr : runBody { a with st := push a.st CtxDef.none } body with
      | mk a1 ex =>
        rw [hr] at mb gb
        obtain ⟨p', ps', hpe, hlp, hlps, hc2, hcp, hp, hpl, hrest, hrun⟩ :=
          call_unfold a CtxDef.none body [] a1 ex (by rw [runCall_nil]; exact hr) gb hl
        have hsame := charged_same p' (afterBody ex a1.st).cur
        have hstop : (charged p' (afterBody ex a1.st).cur).hardStopped = false := by
          unfold Frame.hardStopped; rw [hsame.2.2.2.2.1, hlp.same.2.2.2.2.1]; exact hs
        cases ex with
        | killed res =>
          have hres := mb.cause res rfl
          subst hres
          have hk : (runCall a CtxDef.none body []).2 = .killed .mem := by rw [runCall_nil, hr]
          obtain ⟨h1, _, _, _, _⟩ := limitless_bracket_propagates_mem a CtxDef.none body [] hwf rfl hi hl rfl h0 hk
          have hflag : (afterBody (Exit.killed .mem) a1.st).cur.inhMem = true := by
            rw [(afterBody_inh _ a1.st).2, gb.inh.2]; exact child_inh_mem a.st.cur CtxDef.none rfl h0
          have hfire := propagate_mem_fires (c := (afterBody (Exit.killed .mem) a1.st).cur) hpl hflag
          refine ⟨?_, fun res h => by rw [h1] at h; injection h with h; exact h.symm⟩
          rw [hrun, afterPop_killed_fire _ _ _ _ _ _ hfire]; exact hstop
        | done => rw [hrun]; exact ⟨hstop, (fun _ h => nomatch h)⟩
        | error => rw [hrun]; exact ⟨hstop, (fun _ h => nomatch h)⟩
        | crashed => rw [hrun]; exact ⟨hstop, (fun _ h => nomatch h)⟩
end

/-! ### two runs of the same memory program under limits `M' ≤ M` -/

/-- the same frame in the run with the larger limit (`f`) and the smaller one (`f'`): equal except
for the hard memory limit, which is `δ` larger in `f` (and for soft.Memory, which nothing but `due`
reads) -/
structure RelF (δ : Nat) (f f' : Frame) : Prop where
  used : f.used = f'.used
  status : f.status = f'.status
  stop : f.stop = f'.stop
  flags : f.flags = f'.flags
  tc : f.trackCpu = f'.trackCpu
  tm : f.trackMem = f'.trackMem
  hcpu : f.hard.Cpu = f'.hard.Cpu
  hms : f.hard.Millis = f'.hard.Millis
  scpu : f.soft.Cpu = f'.soft.Cpu
  sms : f.soft.Millis = f'.soft.Millis
  hmem : f.hard.Memory.toNat = f'.hard.Memory.toNat + δ
  hmem0 : f'.hard.Memory ≠ 0#64

/-- the frames below: related pairwise as long as they are memory-limited; from the first context
without hard memory limit on (which absorbs every release) the two stacks are identical -/
inductive RelL (δ : Nat) : List Frame → List Frame → Prop where
  | nil : RelL δ [] []
  | cons {f f' : Frame} {l l' : List Frame} : RelF δ f f' → RelL δ l l' → RelL δ (f :: l) (f' :: l')
  | absorb (f : Frame) (l : List Frame) : f.hard.Memory = 0#64 → RelL δ (f :: l) (f :: l)

def RelS (δ : Nat) (s s' : St) : Prop := RelF δ s.cur s'.cur ∧ RelL δ s.parents s'.parents

theorem RelF.live {δ : Nat} {f f' : Frame} (h : RelF δ f f') : f.live = f'.live := by
  unfold Frame.live; rw [h.status]

theorem RelF.hs {δ : Nat} {f f' : Frame} (h : RelF δ f f') : f.hardStopped = f'.hardStopped := by
  unfold Frame.hardStopped; rw [h.stop]

theorem RelF.hmem_ne {δ : Nat} {f f' : Frame} (h : RelF δ f f') : f.hard.Memory ≠ 0#64 := by
  rw [ne_zero_iff, h.hmem]; have := (ne_zero_iff _).mp h.hmem0; omega

theorem Merge_zero_cpu (r : RuntimeResources) : (r.Merge Res.zero).Cpu = r.Cpu := by
  rw [Merge_Cpu]; show (if smallerLimit 0#64 r.Cpu then _ else _) = _; rw [smallerLimit_zero]; rfl
theorem Merge_zero_mem (r : RuntimeResources) : (r.Merge Res.zero).Memory = r.Memory := by
  rw [Merge_Memory]; show (if smallerLimit 0#64 r.Memory then _ else _) = _; rw [smallerLimit_zero]; rfl
theorem Merge_zero_ms (r : RuntimeResources) : (r.Merge Res.zero).Millis = r.Millis := by
  rw [Merge_Millis]; show (if smallerLimit 0#64 r.Millis then _ else _) = _; rw [smallerLimit_zero]; rfl

/-- the frame pushed by a limit-less bracket, field by field -/
theorem child_none_fields (f : Frame) :
    (f.child CtxDef.none).hard.Cpu = (f.hard.Remove f.used).Cpu ∧
    (f.child CtxDef.none).hard.Memory = (f.hard.Remove f.used).Memory ∧
    (f.child CtxDef.none).hard.Millis = (f.hard.Remove f.used).Millis ∧
    (f.child CtxDef.none).soft.Cpu =
      (if smallerLimit f.soft.Cpu (f.hard.Remove f.used).Cpu then f.soft.Cpu else (f.hard.Remove f.used).Cpu) ∧
    (f.child CtxDef.none).soft.Millis =
      (if smallerLimit f.soft.Millis (f.hard.Remove f.used).Millis then f.soft.Millis
       else (f.hard.Remove f.used).Millis) ∧
    (f.child CtxDef.none).used = Res.zero ∧ (f.child CtxDef.none).status = StatusLive ∧
    (f.child CtxDef.none).stop = f.stop := by
  have hh : (f.child CtxDef.none).hard = (f.hard.Remove f.used).Merge Res.zero := rfl
  have hs : (f.child CtxDef.none).soft = ((f.child CtxDef.none).hard.Merge f.soft).Merge Res.zero := rfl
  refine ⟨?_, ?_, ?_, ?_, ?_, rfl, rfl, rfl⟩
  · rw [hh, Merge_zero_cpu]
  · rw [hh, Merge_zero_mem]
  · rw [hh, Merge_zero_ms]
  · rw [hs, Merge_zero_cpu, Merge_Cpu, hh, Merge_zero_cpu]
  · rw [hs, Merge_zero_ms, Merge_Millis, hh, Merge_zero_ms]

theorem remove_cpu_congr {h h' u u' : RuntimeResources} (e1 : h.Cpu = h'.Cpu) (e2 : u.Cpu = u'.Cpu) :
    (h.Remove u).Cpu = (h'.Remove u').Cpu := by
  apply BitVec.eq_of_toNat_eq; rw [Remove_Cpu, Remove_Cpu, e1, e2]

theorem remove_ms_congr {h h' u u' : RuntimeResources} (e1 : h.Millis = h'.Millis) (e2 : u.Millis = u'.Millis) :
    (h.Remove u).Millis = (h'.Remove u').Millis := by
  apply BitVec.eq_of_toNat_eq; rw [Remove_Millis, Remove_Millis, e1, e2]

theorem relF_child {δ : Nat} {f f' : Frame} (h : RelF δ f f') (hok' : FrameOk f') :
    RelF δ (f.child CtxDef.none) (f'.child CtxDef.none) := by
  have c := child_none_fields f
  have c' := child_none_fields f'
  have hu : f'.used.Memory.toNat < f'.hard.Memory.toNat := by
    rcases hok'.mem with h0 | h0
    · exact absurd h0 h.hmem0
    · exact h0
  have ecpu := remove_cpu_congr h.hcpu (congrArg (·.Cpu) h.used)
  have ems := remove_ms_congr h.hms (congrArg (·.Millis) h.used)
  have hm : (f.child CtxDef.none).hard.Memory.toNat = (f'.child CtxDef.none).hard.Memory.toNat + δ := by
    rw [c.2.1, c'.2.1, Remove_Memory, Remove_Memory, h.hmem, h.used]; omega
  have hm0 : (f'.child CtxDef.none).hard.Memory ≠ 0#64 := by
    rw [ne_zero_iff, c'.2.1, Remove_Memory]; omega
  have hm0' : (f.child CtxDef.none).hard.Memory ≠ 0#64 := by
    rw [ne_zero_iff, hm]; have := (ne_zero_iff _).mp hm0; omega
  have hhc : (f.child CtxDef.none).hard.Cpu = (f'.child CtxDef.none).hard.Cpu := by rw [c.1, c'.1, ecpu]
  have hhm : (f.child CtxDef.none).hard.Millis = (f'.child CtxDef.none).hard.Millis := by
    rw [c.2.2.1, c'.2.2.1, ems]
  have hsc : (f.child CtxDef.none).soft.Cpu = (f'.child CtxDef.none).soft.Cpu := by
    rw [c.2.2.2.1, c'.2.2.2.1, ecpu, h.scpu]
  have hsm : (f.child CtxDef.none).soft.Millis = (f'.child CtxDef.none).soft.Millis := by
    rw [c.2.2.2.2.1, c'.2.2.2.2.1, ems, h.sms]
  refine ⟨by rw [c.2.2.2.2.2.1, c'.2.2.2.2.2.1], rfl, h.stop, ?_, ?_, ?_, hhc, hhm, hsc, hsm, hm, hm0⟩
  · show f.flags ||| _ ||| _ = f'.flags ||| _ ||| _; rw [h.flags]
  · show (BitVec.ult 0#64 (f.child CtxDef.none).hard.Cpu || BitVec.ult 0#64 (f.child CtxDef.none).soft.Cpu ||
        (BitVec.ult 0#64 (f.child CtxDef.none).hard.Millis || BitVec.ult 0#64 (f.child CtxDef.none).soft.Millis)) =
      (BitVec.ult 0#64 (f'.child CtxDef.none).hard.Cpu || BitVec.ult 0#64 (f'.child CtxDef.none).soft.Cpu ||
        (BitVec.ult 0#64 (f'.child CtxDef.none).hard.Millis || BitVec.ult 0#64 (f'.child CtxDef.none).soft.Millis))
    rw [hhc, hsc, hhm, hsm]
  · show (BitVec.ult 0#64 (f.child CtxDef.none).hard.Memory || _) = (BitVec.ult 0#64 (f'.child CtxDef.none).hard.Memory || _)
    rw [(ult_zero_iff _).mpr hm0, (ult_zero_iff _).mpr hm0']; rfl

theorem relF_setStatus {δ : Nat} {f f' : Frame} (h : RelF δ f f') (st : BitVec 16) :
    RelF δ { f with status := st } { f' with status := st } :=
  ⟨h.used, rfl, h.stop, h.flags, h.tc, h.tm, h.hcpu, h.hms, h.scpu, h.sms, h.hmem, h.hmem0⟩

theorem relF_setUsed {δ : Nat} {f f' : Frame} (h : RelF δ f f') (u : RuntimeResources) :
    RelF δ { f with used := u } { f' with used := u } :=
  ⟨rfl, h.status, h.stop, h.flags, h.tc, h.tm, h.hcpu, h.hms, h.scpu, h.sms, h.hmem, h.hmem0⟩

theorem relS_afterBody {δ : Nat} {s s' : St} (ex : Exit) (h : RelS δ s s') :
    RelS δ (afterBody ex s) (afterBody ex s') := by
  unfold afterBody; split
  · exact ⟨relF_setStatus h.1 StatusError, h.2⟩
  · exact h

theorem relF_chargeCpu {δ : Nat} {p p' : Frame} (hp : RelF δ p p') (n : BitVec 64) :
    RelF δ (chargeCpu p n) (chargeCpu p' n) := by
  have ht := hp.tc
  unfold chargeCpu
  split <;> split
  · refine ⟨?_, hp.status, hp.stop, hp.flags, hp.tc, hp.tm, hp.hcpu, hp.hms, hp.scpu, hp.sms, hp.hmem, hp.hmem0⟩
    show ({ p.used with Cpu := p.used.Cpu + n } : RuntimeResources) = { p'.used with Cpu := p'.used.Cpu + n }
    rw [hp.used]
  · rename_i h1 h2; rw [ht] at h1; exact absurd h1 h2
  · rename_i h1 h2; rw [ht] at h1; exact absurd h2 h1
  · exact hp

theorem relF_chargeMem {δ : Nat} {p p' : Frame} (hp : RelF δ p p') (n : BitVec 64) :
    RelF δ (chargeMem p n) (chargeMem p' n) := by
  have ht := hp.tm
  unfold chargeMem
  split <;> split
  · refine ⟨?_, hp.status, hp.stop, hp.flags, hp.tc, hp.tm, hp.hcpu, hp.hms, hp.scpu, hp.sms, hp.hmem, hp.hmem0⟩
    show ({ p.used with Memory := p.used.Memory + n } : RuntimeResources) = { p'.used with Memory := p'.used.Memory + n }
    rw [hp.used]
  · rename_i h1 h2; rw [ht] at h1; exact absurd h1 h2
  · rename_i h1 h2; rw [ht] at h1; exact absurd h2 h1
  · exact hp

theorem relF_charged {δ : Nat} {p p' c c' : Frame} (hp : RelF δ p p') (hc : c.used = c'.used) :
    RelF δ (charged p c) (charged p' c') := by
  unfold charged; rw [hc]; exact relF_chargeMem (relF_chargeCpu hp _) _

def NotKilled (e : Exit) : Prop := ∀ res, e ≠ .killed res

/-- a memory request in the two runs: if the run under the smaller limit is not terminated, the run
under the larger limit has the same outcome and the frames stay related -/
theorem sim_req {δ : Nat} {f f' : Frame} (h : RelF δ f f') (hl' : f'.live = true) (n : BitVec 64)
    (hnk : (f'.requireMem n).2 ≠ .terminated) :
    (f.requireMem n).2 = (f'.requireMem n).2 ∧ RelF δ (f.requireMem n).1 (f'.requireMem n).1 := by
  have hl : f.live = true := by rw [h.live]; exact hl'
  rcases requireMem_live f' n hl' with ⟨ht', e'⟩ | ⟨_, _, e'⟩ | ⟨ht', hs', ha', e'⟩
  · rcases requireMem_live f n hl with ⟨_, e⟩ | ⟨ht, _, _⟩ | ⟨ht, _, _, _⟩
    · rw [e, e']; exact ⟨rfl, h⟩
    · rw [h.tm, ht'] at ht; cases ht
    · rw [h.tm, ht'] at ht; cases ht
  · rw [e'] at hnk; exact absurd rfl hnk
  · have hb' : (f'.used.Memory + n).toNat < f'.hard.Memory.toNat := by
      rcases (atLimit_false_iff _ _).mp ha' with h0 | h0
      · exact absurd h0 h.hmem0
      · exact h0
    have ha : atLimit (f.used.Memory + n) f.hard.Memory = false :=
      (atLimit_false_iff _ _).mpr (Or.inr (by rw [h.used, h.hmem]; omega))
    have e := requireMem_charge f n hl (by rw [h.hs]; exact hs') ha
    have e2 := requireMem_charge f' n hl' hs' ha'
    rw [e, e2]; exact ⟨rfl, relF_chargeMem h n⟩

theorem relF_setMem {δ : Nat} {f f' : Frame} (h : RelF δ f f') (m : BitVec 64) :
    RelF δ { f with used := { f.used with Memory := m } } { f' with used := { f'.used with Memory := m } } := by
  refine ⟨?_, h.status, h.stop, h.flags, h.tc, h.tm, h.hcpu, h.hms, h.scpu, h.sms, h.hmem, h.hmem0⟩
  show ({ f.used with Memory := m } : RuntimeResources) = { f'.used with Memory := m }
  rw [h.used]

/-- a release in the two runs cascades identically: same outcome, related stacks -/
theorem sim_release {δ : Nat} {rest rest' : List Frame} (hl : RelL δ rest rest') :
    ∀ {f f' : Frame} (n : BitVec 64), RelF δ f f' →
      (releaseStack f rest n).2 = (releaseStack f' rest' n).2 ∧
      RelF δ (releaseStack f rest n).1.1 (releaseStack f' rest' n).1.1 ∧
      RelL δ (releaseStack f rest n).1.2 (releaseStack f' rest' n).1.2 := by
  induction hl with
  | nil =>
    intro f f' n h
    have hu : f.used.Memory = f'.used.Memory := by rw [h.used]
    by_cases hn : n.toNat ≤ f'.used.Memory.toNat
    · rw [releaseStack_local f [] n h.hmem_ne (by rw [hu]; exact hn), releaseStack_local f' [] n h.hmem0 hn, hu]
      exact ⟨rfl, relF_setMem h _, .nil⟩
    · have e : releaseStack f [] n = ((f, []), .crash) := by
        show (((f.releaseMem n).1, []), (f.releaseMem n).2) = _
        rcases releaseMem_cases f n with ⟨h0, _⟩ | ⟨_, hle, _⟩ | ⟨_, _, e⟩
        · exact absurd h0 h.hmem_ne
        · rw [hu] at hle; omega
        · rw [e]
      have e' : releaseStack f' [] n = ((f', []), .crash) := by
        show (((f'.releaseMem n).1, []), (f'.releaseMem n).2) = _
        rcases releaseMem_cases f' n with ⟨h0, _⟩ | ⟨_, hle, _⟩ | ⟨_, _, e⟩
        · exact absurd h0 h.hmem0
        · omega
        · rw [e]
      rw [e, e']; exact ⟨rfl, h, .nil⟩
  | @cons p p' l l' hp hl ih =>
    intro f f' n h
    have hu : f.used.Memory = f'.used.Memory := by rw [h.used]
    by_cases hn : n.toNat ≤ f'.used.Memory.toNat
    · rw [releaseStack_local f _ n h.hmem_ne (by rw [hu]; exact hn), releaseStack_local f' _ n h.hmem0 hn, hu]
      exact ⟨rfl, relF_setMem h _, .cons hp hl⟩
    · rw [releaseStack_cascade f p l n h.hmem_ne (by rw [hu]; omega),
        releaseStack_cascade f' p' l' n h.hmem0 (by omega), hu]
      obtain ⟨i1, i2, i3⟩ := ih (n - f'.used.Memory) hp
      exact ⟨i1, relF_setMem h _, .cons i2 i3⟩
  | absorb p l hp0 =>
    intro f f' n h
    have hu : f.used.Memory = f'.used.Memory := by rw [h.used]
    by_cases hn : n.toNat ≤ f'.used.Memory.toNat
    · rw [releaseStack_local f _ n h.hmem_ne (by rw [hu]; exact hn), releaseStack_local f' _ n h.hmem0 hn, hu]
      exact ⟨rfl, relF_setMem h _, .absorb p l hp0⟩
    · rw [releaseStack_cascade f p l n h.hmem_ne (by rw [hu]; omega),
        releaseStack_cascade f' p l n h.hmem0 (by omega), hu, releaseStack_unlimited p l _ hp0]
      exact ⟨rfl, relF_setMem h _, .absorb p l hp0⟩

mutual
  theorem sim_body (δ : Nat) (a a' : Acc) (body : List Item) (hw : bodyPcallMem body = true)
      (hr : RelS δ a.st a'.st) (hi : Inv a.st) (hi' : Inv a'.st) (hl' : a'.st.cur.live = true)
      (hs' : a'.st.cur.hardStopped = false) (hnk : NotKilled (runBody a' body).2) :
      (runBody a body).2 = (runBody a' body).2 ∧ RelS δ (runBody a body).1.st (runBody a' body).1.st := by
    match body with
    | [] => exact ⟨rfl, hr⟩
    | it :: rest =>
      have hw' : it.pcallMem = true ∧ bodyPcallMem rest = true := by
        have := hw; unfold bodyPcallMem at this; simpa using this
      have hl : a.st.cur.live = true := by rw [hr.1.live]; exact hl'
      have g1 := good_item a it (pcallMem_wf it hw'.1) hi hl
      have g1' := good_item a' it (pcallMem_wf it hw'.1) hi' hl'
      have m1' := memrun_item a' it hw'.1 hi' hl' hs' hr.1.hmem0
      have hnk1 : NotKilled (runItem a' it).2 := by
        intro res hk
        have : (runBody a' (it :: rest)).2 = .killed res := by
          unfold runBody
          cases hri : runItem a' it with
          | mk x e => rw [hri] at hk; simp only at hk; subst hk; rfl
        exact hnk res this
      have s1 := sim_item δ a a' it hw'.1 hr hi hi' hl' hs' hnk1
      unfold runBody at hnk ⊢
      cases hri : runItem a it with
      | mk a1 e1 =>
        cases hri' : runItem a' it with
        | mk a1' e1' =>
          rw [hri, hri'] at s1
          rw [hri] at g1
          rw [hri'] at g1' m1' hnk
          obtain ⟨he, hrel⟩ := s1
          simp only at he; subst he
          cases e1 with
          | done =>
            simp only at hnk ⊢
            exact sim_body δ a1 a1' rest hw'.2 hrel g1.inv g1'.inv (g1'.live (fun _ h => nomatch h)) m1'.nostop hnk
          | error => exact ⟨rfl, hrel⟩
          | killed r => exact ⟨rfl, hrel⟩
          | crashed => exact ⟨rfl, hrel⟩

  theorem sim_item (δ : Nat) (a a' : Acc) (it : Item) (hw : it.pcallMem = true)
      (hr : RelS δ a.st a'.st) (hi : Inv a.st) (hi' : Inv a'.st) (hl' : a'.st.cur.live = true)
      (hs' : a'.st.cur.hardStopped = false) (hnk : NotKilled (runItem a' it).2) :
      (runItem a it).2 = (runItem a' it).2 ∧ RelS δ (runItem a it).1.st (runItem a' it).1.st := by
    match it with
    | .err => simp [Item.pcallMem] at hw
    | .op o =>
      cases o with
      | reqMem n =>
        rw [runItem_op] at hnk ⊢
        rw [runItem_op]
        have hst : step a.st (.reqMem n) = (⟨(a.st.cur.requireMem n).1, a.st.parents⟩, (a.st.cur.requireMem n).2) := rfl
        have hst' : step a'.st (.reqMem n) = (⟨(a'.st.cur.requireMem n).1, a'.st.parents⟩, (a'.st.cur.requireMem n).2) := rfl
        rw [hst'] at hnk
        rw [hst, hst']
        have hnt : (a'.st.cur.requireMem n).2 ≠ .terminated := by
          intro hc
          exact hnk (killCause a'.st.cur (.reqMem n)) (by simp only [hc])
        obtain ⟨ho, hrel⟩ := sim_req hr.1 hl' n hnt
        refine ⟨?_, hrel, hr.2⟩
        simp only [ho]
        cases hc : (a'.st.cur.requireMem n).2 with
        | ok => rfl
        | crash => rfl
        | terminated => exact absurd hc hnt
      | relMem n =>
        rw [runItem_op, runItem_op]
        obtain ⟨h1, h2, h3⟩ := sim_release hr.2 n hr.1
        have hst : step a.st (.relMem n) = ((⟨(releaseStack a.st.cur a.st.parents n).1.1,
            (releaseStack a.st.cur a.st.parents n).1.2⟩ : St), (releaseStack a.st.cur a.st.parents n).2) := rfl
        have hst' : step a'.st (.relMem n) = ((⟨(releaseStack a'.st.cur a'.st.parents n).1.1,
            (releaseStack a'.st.cur a'.st.parents n).1.2⟩ : St), (releaseStack a'.st.cur a'.st.parents n).2) := rfl
        rw [hst, hst']
        refine ⟨?_, h2, h3⟩
        simp only [h1]
        cases (releaseStack a'.st.cur a'.st.parents n).2 <;> rfl
      | push d => simp [Item.pcallMem] at hw
      | pop => simp [Item.pcallMem] at hw
      | reqCpu n => simp [Item.pcallMem] at hw
      | stop l => simp [Item.pcallMem] at hw
      | due => simp [Item.pcallMem] at hw
    | .call d body hs =>
      have hw' : (d = CtxDef.none ∧ hs = []) ∧ bodyPcallMem body = true := by
        have := hw; unfold Item.pcallMem at this; simpa using this
      obtain ⟨⟨rfl, rfl⟩, hwb⟩ := hw'
      have hwf := bodyPcallMem_wf body hwb
      have hl : a.st.cur.live = true := by rw [hr.1.live]; exact hl'
      have hi0 : Inv (push a.st CtxDef.none) := inv_step (.push CtxDef.none) hi hl
      have hi0' : Inv (push a'.st CtxDef.none) := inv_step (.push CtxDef.none) hi' hl'
      have gb := good_body { a with st := push a.st CtxDef.none } body hwf hi0 rfl
      have gb' := good_body { a' with st := push a'.st CtxDef.none } body hwf hi0' rfl
      have hr0 : RelS δ (push a.st CtxDef.none) (push a'.st CtxDef.none) :=
        ⟨relF_child hr.1 hi'.1, RelL.cons hr.1 hr.2⟩
      have mb' := memrun_body { a' with st := push a'.st CtxDef.none } body hwb hi0' rfl hs'
        (child_none_mem_ne hi'.1 hr.1.hmem0)
      -- the body of the primed run is not killed: otherwise the bracket would propagate the termination
      have hnkb : NotKilled (runBody { a' with st := push a'.st CtxDef.none } body).2 := by
        intro res hk
        have := mb'.cause res hk
        subst this
        exact hnk _ (limitless_bracket_propagates_mem a' CtxDef.none body [] hwf rfl hi' hl' rfl hr.1.hmem0
          (by rw [runCall_nil]; exact hk)).1
      have sb := sim_body δ { a with st := push a.st CtxDef.none } { a' with st := push a'.st CtxDef.none } body hwb
        hr0 hi0 hi0' rfl hs' hnkb
      cases hrb : runBody { a with st := push a.st CtxDef.none } body with
      | mk a1 ex =>
        cases hrb' : runBody { a' with st := push a'.st CtxDef.none } body with
        | mk a1' ex' =>
          rw [hrb, hrb'] at sb
          rw [hrb] at gb
          rw [hrb'] at gb' hnkb
          obtain ⟨he, hrel⟩ := sb
          simp only at he; subst he
          obtain ⟨p1, ps1, hpe, hlp, _, _, _, _, _, _, hrun⟩ :=
            call_unfold a CtxDef.none body [] a1 ex (by rw [runCall_nil]; exact hrb) gb hl
          obtain ⟨p1', ps1', hpe', _, _, _, _, _, _, _, hrun'⟩ :=
            call_unfold a' CtxDef.none body [] a1' ex (by rw [runCall_nil]; exact hrb') gb' hl'
          rw [hrun, hrun']
          have hab := relS_afterBody ex hrel
          -- the frames restored by the two pops are related
          have hpar : RelL δ (p1 :: ps1) (p1' :: ps1') := by
            have := hrel.2; rw [hpe, hpe'] at this; exact this
          have hpp : RelF δ p1 p1' ∧ RelL δ ps1 ps1' := by
            cases hpar with
            | cons h1 h2 => exact ⟨h1, h2⟩
            | absorb _ _ h0 =>
              have : p1.hard.Memory ≠ 0#64 := by rw [hlp.same.1]; exact hr.1.hmem_ne
              exact absurd h0 this
          have hch : RelF δ (charged p1 (afterBody ex a1.st).cur) (charged p1' (afterBody ex a1'.st).cur) :=
            relF_charged hpp.1 hab.1.used
          unfold afterPop
          cases ex with
          | killed res => exact absurd rfl (hnkb res)
          | done => exact ⟨rfl, hch, hpp.2⟩
          | error => exact ⟨rfl, hch, hpp.2⟩
          | crashed => exact ⟨rfl, hch, hpp.2⟩
end

end GoluaVerif.Proofs.Propagate
