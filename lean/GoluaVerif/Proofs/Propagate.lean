/-
  Proofs.Propagate — consequences of commit 0426709 (propagateTermination) in the bracketed model:
  a bracket without a limit of its own cannot absorb a termination caused by the limit it inherited.
-/
import GoluaVerif.Proofs.CallCtx
namespace GoluaVerif.Proofs.Propagate
open GoluaVerif.Generated.Resources GoluaVerif.Model.Ctx GoluaVerif.Spec.Quota GoluaVerif.Proofs.Ctx
open GoluaVerif.Model.CallCtx GoluaVerif.Proofs.CallCtx

/-! ### what a bracket without a limit of its own inherits -/

theorem Remove_Cpu_eq (r v : RuntimeResources) (h : v.Cpu.toNat ≤ r.Cpu.toNat) :
    (r.Remove v).Cpu = r.Cpu - v.Cpu := by
  apply BitVec.eq_of_toNat_eq
  rw [Remove_Cpu, BitVec.toNat_sub_of_le (by simpa [BitVec.le_def] using h)]

theorem Remove_Memory_eq (r v : RuntimeResources) (h : v.Memory.toNat ≤ r.Memory.toNat) :
    (r.Remove v).Memory = r.Memory - v.Memory := by
  apply BitVec.eq_of_toNat_eq
  rw [Remove_Memory, BitVec.toNat_sub_of_le (by simpa [BitVec.le_def] using h)]

theorem smallerLimit_zero (m : BitVec 64) : smallerLimit 0#64 m = false := by
  cases h : smallerLimit 0#64 m
  · rfl
  · exact absurd rfl ((smallerLimit_iff _ _).mp h).1

theorem child_inherits_cpu (f : Frame) (d : CtxDef) (hd : d.hard.Cpu = 0#64) :
    (f.child d).hard.Cpu = (f.hard.Remove f.used).Cpu := by
  show ((f.hard.Remove f.used).Merge d.hard).Cpu = _
  rw [Merge_Cpu, hd, smallerLimit_zero]; rfl

theorem child_inherits_mem (f : Frame) (d : CtxDef) (hd : d.hard.Memory = 0#64) :
    (f.child d).hard.Memory = (f.hard.Remove f.used).Memory := by
  show ((f.hard.Remove f.used).Merge d.hard).Memory = _
  rw [Merge_Memory, hd, smallerLimit_zero]; rfl

theorem afterPop_killed_fire (a1 : Acc) (res : TermRes) (s2 : St) (p q : Frame) (ps : List Frame)
    (h : p.propagate s2.cur.popped res = (q, .terminated)) :
    afterPop a1 (.killed res) s2 p ps = ({ a1 with st := ⟨q, ps⟩ }, .killed res) := by
  unfold afterPop; simp only [h]

theorem afterPop_killed_nofire (a1 : Acc) (res : TermRes) (s2 : St) (p q : Frame) (ps : List Frame)
    (h : p.propagate s2.cur.popped res = (q, .ok)) :
    afterPop a1 (.killed res) s2 p ps =
      ({ a1 with st := ⟨q, ps⟩, results := mkResult (.killed res) s2 :: a1.results }, .done) := by
  unfold afterPop; simp only [h]

theorem popped_same (f : Frame) : f.popped.hard = f.hard ∧ f.popped.used = f.used := by
  unfold Frame.popped; split <;> exact ⟨rfl, rfl⟩

theorem charged_used_cpu (p c : Frame) (ht : p.trackCpu = true) :
    (charged p c).used.Cpu = p.used.Cpu + c.used.Cpu := by
  have h2 := chargeMem_same (chargeCpu p c.used.Cpu) c.used.Memory
  unfold charged; rw [h2.2.2.2.2.2.1]; unfold chargeCpu; rw [ht]; rfl

theorem charged_used_mem (p c : Frame) (ht : p.trackMem = true) :
    (charged p c).used.Memory = p.used.Memory + c.used.Memory := by
  have h1 := chargeCpu_same p c.used.Cpu
  unfold charged chargeMem; rw [h1.2.2.2.2.2.2.2.2, ht, if_pos rfl]
  show (chargeCpu p c.used.Cpu).used.Memory + c.used.Memory = _
  rw [h1.2.2.2.2.2.1]

/-- the test of propagateTermination succeeds for a child that inherited all its parent had left -/
theorem propagate_cpu_fires {p c : Frame} (hp : FrameOk p) (hl : p.live = true) (hL : p.hard.Cpu ≠ 0#64)
    (hc : c.hard.Cpu = (p.hard.Remove p.used).Cpu) :
    (charged p c).propagate c.popped .cpu = ((charged p c).kill, .terminated) := by
  have hs := charged_same p c
  have hu : p.used.Cpu.toNat < p.hard.Cpu.toNat := by
    rcases hp.cpu with h | h
    · exact absurd h hL
    · exact h
  have hrem := Remove_Cpu_eq p.hard p.used (Nat.le_of_lt hu)
  have hcu := charged_used_cpu p c (hp.tcpu hL)
  have hpp := popped_same c
  simp only [Frame.propagate]
  have h1 : BitVec.ult 0#64 (charged p c).hard.Cpu = true := by rw [hs.1]; exact (ult_zero_iff _).mpr hL
  have h2 : (c.popped.hard.Cpu == (charged p c).hard.Cpu - ((charged p c).used.Cpu - c.popped.used.Cpu)) = true := by
    rw [hpp.1, hpp.2, hs.1, hcu, hc, hrem, BitVec.add_sub_cancel]; exact beq_self_eq_true _
  have h3 : (charged p c).live = true := by unfold Frame.live; rw [hs.2.2.2.1]; exact hl
  rw [h1, h2, h3]; rfl

theorem propagate_mem_fires {p c : Frame} (hp : FrameOk p) (hl : p.live = true) (hL : p.hard.Memory ≠ 0#64)
    (hc : c.hard.Memory = (p.hard.Remove p.used).Memory) :
    (charged p c).propagate c.popped .mem = ((charged p c).kill, .terminated) := by
  have hs := charged_same p c
  have hu : p.used.Memory.toNat < p.hard.Memory.toNat := by
    rcases hp.mem with h | h
    · exact absurd h hL
    · exact h
  have hrem := Remove_Memory_eq p.hard p.used (Nat.le_of_lt hu)
  have hcu := charged_used_mem p c (hp.tmem hL)
  have hpp := popped_same c
  simp only [Frame.propagate]
  have h1 : BitVec.ult 0#64 (charged p c).hard.Memory = true := by rw [hs.1]; exact (ult_zero_iff _).mpr hL
  have h2 : (c.popped.hard.Memory ==
      (charged p c).hard.Memory - ((charged p c).used.Memory - c.popped.used.Memory)) = true := by
    rw [hpp.1, hpp.2, hs.1, hcu, hc, hrem, BitVec.add_sub_cancel]; exact beq_self_eq_true _
  have h3 : (charged p c).live = true := by unfold Frame.live; rw [hs.2.2.2.1]; exact hl
  rw [h1, h2, h3]; rfl

/-- **A bracket without a CPU limit of its own cannot absorb a CPU termination**: whatever its body
is, if the body is terminated for CPU, the bracket's parent (when it is CPU-limited) is terminated
too — the call exits with the same termination, the parent is `killed`, the stack is aligned, and
nothing was executed in between (the events are those of the body). -/
theorem limitless_bracket_propagates_cpu (a : Acc) (d : CtxDef) (body : List Item) (hw : wfBody body = true)
    (hi : Inv a.st) (hl : a.st.cur.live = true) (hd : d.hard.Cpu = 0#64) (hL : a.st.cur.hard.Cpu ≠ 0#64)
    (hk : (runBody { a with st := push a.st d } body).2 = .killed .cpu) :
    (runItem a (.call d body)).2 = .killed .cpu ∧
    (runItem a (.call d body)).1.st.cur.status = StatusKilled ∧
    LowerL (runItem a (.call d body)).1.st.parents a.st.parents ∧
    (runItem a (.call d body)).1.events = (runBody { a with st := push a.st d } body).1.events ∧
    (runItem a (.call d body)).1.results = (runBody { a with st := push a.st d } body).1.results := by
  have gb := good_body { a with st := push a.st d } body hw (inv_step (.push d) hi hl) rfl
  cases hr : runBody { a with st := push a.st d } body with
  | mk a1 ex =>
    rw [hr] at gb hk
    simp only at hk; subst hk
    obtain ⟨p', ps', _, hlp, hlps, hc2, hcp, hp, hpl, hrest, hrun⟩ := call_unfold a d body a1 _ hr gb hl
    have hsame := afterBody_same (Exit.killed .cpu) a1.st
    have hps := hlp.same
    have hhard : (afterBody (Exit.killed .cpu) a1.st).cur.hard.Cpu = (p'.hard.Remove p'.used).Cpu := by
      rw [hsame.2.1, gb.hard]
      have : (a.st.cur.child d).hard.Cpu = (a.st.cur.hard.Remove a.st.cur.used).Cpu := child_inherits_cpu a.st.cur d hd
      show (a.st.cur.child d).hard.Cpu = _
      rw [this]
      apply BitVec.eq_of_toNat_eq; rw [Remove_Cpu, Remove_Cpu, hps.1, hps.2.2.2.2.2.2.2.1]
    have hfire := propagate_cpu_fires (c := (afterBody (Exit.killed .cpu) a1.st).cur) hp hpl
      (by rw [hps.1]; exact hL) hhard
    rw [hrun, afterPop_killed_fire _ _ _ _ _ _ hfire]
    exact ⟨rfl, rfl, hlps, rfl, rfl⟩

/-- the same for memory — provided the body did not release memory of the enclosing context: a
release that cascades into the parent (8007e69) leaves the bracket with a limit that is no longer
"all the parent has left", and the test of propagateTermination (an equality) then fails: see
`stale_limit_absorbs_counterexample` in Props/C06. -/
theorem limitless_bracket_propagates_mem (a : Acc) (d : CtxDef) (body : List Item) (hw : wfBody body = true)
    (hi : Inv a.st) (hl : a.st.cur.live = true) (hd : d.hard.Memory = 0#64) (hL : a.st.cur.hard.Memory ≠ 0#64)
    (hk : (runBody { a with st := push a.st d } body).2 = .killed .mem)
    (hund : ∀ p' ps', (runBody { a with st := push a.st d } body).1.st.parents = p' :: ps' →
      p'.used.Memory = a.st.cur.used.Memory) :
    (runItem a (.call d body)).2 = .killed .mem ∧
    (runItem a (.call d body)).1.st.cur.status = StatusKilled ∧
    LowerL (runItem a (.call d body)).1.st.parents a.st.parents ∧
    (runItem a (.call d body)).1.events = (runBody { a with st := push a.st d } body).1.events ∧
    (runItem a (.call d body)).1.results = (runBody { a with st := push a.st d } body).1.results := by
  have gb := good_body { a with st := push a.st d } body hw (inv_step (.push d) hi hl) rfl
  cases hr : runBody { a with st := push a.st d } body with
  | mk a1 ex =>
    rw [hr] at gb hk hund
    simp only at hk; subst hk
    obtain ⟨p', ps', hpe, hlp, hlps, hc2, hcp, hp, hpl, hrest, hrun⟩ := call_unfold a d body a1 _ hr gb hl
    have hsame := afterBody_same (Exit.killed .mem) a1.st
    have hps := hlp.same
    have hum := hund p' ps' hpe
    have hhard : (afterBody (Exit.killed .mem) a1.st).cur.hard.Memory = (p'.hard.Remove p'.used).Memory := by
      rw [hsame.2.1, gb.hard]
      have : (a.st.cur.child d).hard.Memory = (a.st.cur.hard.Remove a.st.cur.used).Memory :=
        child_inherits_mem a.st.cur d hd
      show (a.st.cur.child d).hard.Memory = _
      rw [this]
      apply BitVec.eq_of_toNat_eq; rw [Remove_Memory, Remove_Memory, hps.1, hum]
    have hfire := propagate_mem_fires (c := (afterBody (Exit.killed .mem) a1.st).cur) hp hpl
      (by rw [hps.1]; exact hL) hhard
    rw [hrun, afterPop_killed_fire _ _ _ _ _ _ hfire]
    exact ⟨rfl, rfl, hlps, rfl, rfl⟩

/-- **A child with a tighter limit of its own dies alone**: if the bracket's own CPU limit is
strictly below what the parent has left (or the parent is not CPU-limited) and its body is
terminated for CPU, the call returns normally, hands back a context with status `killed`, and the
parent stays live. -/
theorem own_limit_dies_alone (a : Acc) (d : CtxDef) (body : List Item) (hw : wfBody body = true)
    (hi : Inv a.st) (hl : a.st.cur.live = true) (hd : d.hard.Cpu ≠ 0#64)
    (htight : a.st.cur.hard.Cpu = 0#64 ∨ d.hard.Cpu.toNat < a.st.cur.hard.Cpu.toNat - a.st.cur.used.Cpu.toNat)
    (hk : (runBody { a with st := push a.st d } body).2 = .killed .cpu) :
    (runItem a (.call d body)).2 = .done ∧ (runItem a (.call d body)).1.st.cur.live = true ∧
    LowerL (runItem a (.call d body)).1.st.parents a.st.parents ∧
    ∃ r, (runItem a (.call d body)).1.results = r :: (runBody { a with st := push a.st d } body).1.results ∧
      r.status = StatusKilled ∧ r.exit = .killed .cpu := by
  have gb := good_body { a with st := push a.st d } body hw (inv_step (.push d) hi hl) rfl
  cases hr : runBody { a with st := push a.st d } body with
  | mk a1 ex =>
    rw [hr] at gb hk
    simp only at hk; subst hk
    obtain ⟨p', ps', _, hlp, hlps, hc2, hcp, hp, hpl, hrest, hrun⟩ := call_unfold a d body a1 _ hr gb hl
    have hsame := afterBody_same (Exit.killed .cpu) a1.st
    have hps := hlp.same
    have hs := charged_same p' (afterBody (Exit.killed .cpu) a1.st).cur
    have hpp := popped_same (afterBody (Exit.killed .cpu) a1.st).cur
    have htight' : p'.hard.Cpu = 0#64 ∨ d.hard.Cpu.toNat < p'.hard.Cpu.toNat - p'.used.Cpu.toNat := by
      rw [hps.1, hps.2.2.2.2.2.2.2.1]; exact htight
    -- the child's hard limit is its own
    have hch : (afterBody (Exit.killed .cpu) a1.st).cur.hard.Cpu = d.hard.Cpu := by
      rw [hsame.2.1, gb.hard]
      show ((a.st.cur.hard.Remove a.st.cur.used).Merge d.hard).Cpu = _
      rw [Merge_Cpu]
      have : smallerLimit d.hard.Cpu (a.st.cur.hard.Remove a.st.cur.used).Cpu = true := by
        rw [smallerLimit_iff]; refine ⟨hd, ?_⟩
        rcases htight with h0 | hlt
        · left; apply BitVec.eq_of_toNat_eq; rw [Remove_Cpu, h0]; simp
        · right; rw [Remove_Cpu]; exact hlt
      rw [this]; rfl
    have hnofire : (charged p' (afterBody (Exit.killed .cpu) a1.st).cur).propagate
        (afterBody (Exit.killed .cpu) a1.st).cur.popped .cpu =
        (charged p' (afterBody (Exit.killed .cpu) a1.st).cur, .ok) := by
      simp only [Frame.propagate]
      rcases htight' with h0 | hlt
      · have : BitVec.ult 0#64 (charged p' (afterBody (Exit.killed .cpu) a1.st).cur).hard.Cpu = false := by
          rw [hs.1, h0]; rfl
        rw [this]; rfl
      · have hL : p'.hard.Cpu ≠ 0#64 := by rw [ne_zero_iff]; omega
        have hu : p'.used.Cpu.toNat < p'.hard.Cpu.toNat := by
          rcases hp.cpu with h | h
          · exact absurd h hL
          · exact h
        have hcu := charged_used_cpu p' (afterBody (Exit.killed .cpu) a1.st).cur (hp.tcpu hL)
        have hne : ((afterBody (Exit.killed .cpu) a1.st).cur.popped.hard.Cpu ==
            (charged p' (afterBody (Exit.killed .cpu) a1.st).cur).hard.Cpu -
              ((charged p' (afterBody (Exit.killed .cpu) a1.st).cur).used.Cpu -
                (afterBody (Exit.killed .cpu) a1.st).cur.popped.used.Cpu)) = false := by
          rw [hpp.1, hpp.2, hs.1, hcu, BitVec.add_sub_cancel, hch]
          apply beq_false_of_ne
          intro heq
          have := congrArg BitVec.toNat heq
          rw [BitVec.toNat_sub_of_le (by simpa [BitVec.le_def] using Nat.le_of_lt hu)] at this
          omega
        rw [hne]; simp
    have hlive3 : (charged p' (afterBody (Exit.killed .cpu) a1.st).cur).live = true := by
      unfold Frame.live; rw [hs.2.2.2.1]; exact hpl
    rw [hrun, afterPop_killed_nofire _ _ _ _ _ _ hnofire]
    refine ⟨rfl, hlive3, hlps, _, rfl, ?_, rfl⟩
    show (afterBody (Exit.killed .cpu) a1.st).cur.popped.status = StatusKilled
    have hk := gb.killed .cpu rfl
    rw [hsame.2.2.2.2 (fun c => nomatch c)]
    unfold Frame.popped Frame.live; rw [hk]; simp [StatusKilled, StatusLive]; exact hk

/-! ### exactness through any nesting of limit-less brackets -/

mutual
  theorem pcallCpu_wf (it : Item) (h : it.pcallCpu = true) : it.wf = true := by
    match it with
    | .op o => cases o <;> simp [Item.pcallCpu] at h <;> rfl
    | .err => simp [Item.pcallCpu] at h
    | .call d body =>
      unfold Item.pcallCpu at h; unfold Item.wf
      simp only [Bool.and_eq_true] at h
      exact bodyPcallCpu_wf body h.2
  theorem bodyPcallCpu_wf (body : List Item) (h : bodyPcallCpu body = true) : wfBody body = true := by
    match body with
    | [] => rfl
    | it :: rest =>
      unfold bodyPcallCpu at h; unfold wfBody
      simp only [Bool.and_eq_true] at h ⊢
      exact ⟨pcallCpu_wf it h.1, bodyPcallCpu_wf rest h.2⟩
end

mutual
  theorem fits_mono_item {B B' : Nat} (hle : B' ≤ B) (it : Item) (h : it.fits B) : it.fits B' := by
    match it with
    | .op o => cases o <;> first | trivial | (unfold Item.fits at h ⊢; omega)
    | .err => trivial
    | .call d body => unfold Item.fits at h ⊢; exact fits_mono_body hle body h
  theorem fits_mono_body {B B' : Nat} (hle : B' ≤ B) (body : List Item) (h : bodyFits B body) : bodyFits B' body := by
    match body with
    | [] => trivial
    | it :: rest => unfold bodyFits at h ⊢; exact ⟨fits_mono_item hle it h.1, fits_mono_body hle rest h.2⟩
end

/-- the new events of a run are all granted requests -/
def EvOk (a a' : Acc) : Prop := ∃ new, a'.events = new ++ a.events ∧ ∀ e ∈ new, e.out = Outcome.ok

/-- the new events of a run are granted requests followed by one refused request, which is the
last thing that was executed -/
def EvKill (a a' : Acc) : Prop :=
  ∃ k oks, a'.events = k :: (oks ++ a.events) ∧ k.out = Outcome.terminated ∧ ∀ e ∈ oks, e.out = Outcome.ok

theorem EvOk.refl (a : Acc) : EvOk a a := ⟨[], rfl, fun _ h => nomatch h⟩

theorem EvOk.trans {a b c : Acc} (h1 : EvOk a b) (h2 : EvOk b c) : EvOk a c := by
  obtain ⟨n1, e1, o1⟩ := h1
  obtain ⟨n2, e2, o2⟩ := h2
  refine ⟨n2 ++ n1, by rw [e2, e1, List.append_assoc], fun e he => ?_⟩
  rcases List.mem_append.mp he with h | h
  · exact o2 e h
  · exact o1 e h

theorem EvOk.thenKill {a b c : Acc} (h1 : EvOk a b) (h2 : EvKill b c) : EvKill a c := by
  obtain ⟨n1, e1, o1⟩ := h1
  obtain ⟨k, oks, e2, hk, o2⟩ := h2
  refine ⟨k, oks ++ n1, by rw [e2, e1, List.append_assoc], hk, fun e he => ?_⟩
  rcases List.mem_append.mp he with h | h
  · exact o2 e h
  · exact o1 e h

/-- what a run of a pcall-only CPU program does in a metered frame -/
structure Exact (a : Acc) (cost : Nat) (r : Acc × Exit) : Prop where
  survive : a.st.cur.used.Cpu.toNat + cost < a.st.cur.hard.Cpu.toNat →
    r.2 = .done ∧ Metered r.1.st.cur ∧ r.1.st.cur.used.Cpu.toNat = a.st.cur.used.Cpu.toNat + cost ∧
    r.1.st.cur.hard = a.st.cur.hard ∧ LowerL r.1.st.parents a.st.parents ∧ Inv r.1.st ∧ EvOk a r.1
  die : a.st.cur.hard.Cpu.toNat ≤ a.st.cur.used.Cpu.toNat + cost →
    r.2 = .killed .cpu ∧ r.1.st.cur.status = StatusKilled ∧ LowerL r.1.st.parents a.st.parents ∧ EvKill a r.1

theorem child_none_metered {p : Frame} (hp : Metered p) (hpo : FrameOk p) :
    Metered (p.child CtxDef.none) ∧
    (p.child CtxDef.none).hard.Cpu.toNat = p.hard.Cpu.toNat - p.used.Cpu.toNat ∧
    (p.child CtxDef.none).used.Cpu = 0#64 := by
  have hh : (p.child CtxDef.none).hard.Cpu.toNat = p.hard.Cpu.toNat - p.used.Cpu.toNat := by
    rw [child_inherits_cpu p CtxDef.none rfl, Remove_Cpu]
  have hb := hp.below
  have h0 : (p.child CtxDef.none).hard.Cpu ≠ 0#64 := by rw [ne_zero_iff, hh]; omega
  refine ⟨⟨rfl, hp.nostop, ?_, h0, ?_⟩, hh, rfl⟩
  · show (BitVec.ult 0#64 (p.child CtxDef.none).hard.Cpu || _ || _) = true
    rw [(ult_zero_iff _).mpr h0]; rfl
  · show (0#64 : BitVec 64).toNat < _
    rw [hh]; simp; omega

mutual
  theorem exact_body (a : Acc) (body : List Item) (hw : bodyPcallCpu body = true) (hi : Inv a.st)
      (hm : Metered a.st.cur) (hf : bodyFits a.st.cur.hard.Cpu.toNat body) :
      Exact a (bodyCost body) (runBody a body) := by
    match body with
    | [] =>
      constructor
      · intro _; exact ⟨rfl, hm, by simp [bodyCost, runBody], rfl, LowerL.refl _, hi, EvOk.refl a⟩
      · intro h; have := hm.below; simp [bodyCost] at h; omega
    | it :: rest =>
      have hw' : it.pcallCpu = true ∧ bodyPcallCpu rest = true := by
        have := hw; unfold bodyPcallCpu at this; simpa using this
      have hf' : it.fits a.st.cur.hard.Cpu.toNat ∧ bodyFits a.st.cur.hard.Cpu.toNat rest := by
        have := hf; unfold bodyFits at this; exact this
      have e1 := exact_item a it hw'.1 hi hm hf'.1
      have hcost : bodyCost (it :: rest) = it.cost + bodyCost rest := by simp [bodyCost]
      rw [hcost]
      unfold runBody
      by_cases hlt : a.st.cur.used.Cpu.toNat + it.cost < a.st.cur.hard.Cpu.toNat
      · obtain ⟨hd, hm1, hu1, hh1, hp1, hi1, hev1⟩ := e1.survive hlt
        cases hr : runItem a it with
        | mk a1 x1 =>
          rw [hr] at hd hm1 hu1 hh1 hp1 hi1 hev1
          simp only at hd; subst hd
          simp only
          have e2 := exact_body a1 rest hw'.2 hi1 hm1 (by rw [hh1]; exact hf'.2)
          constructor
          · intro h
            obtain ⟨hd2, hm2, hu2, hh2, hp2, hi2, hev2⟩ := e2.survive (by rw [hu1, hh1]; omega)
            exact ⟨hd2, hm2, by rw [hu2, hu1]; omega, hh2.trans hh1, hp2.trans hp1, hi2, hev1.trans hev2⟩
          · intro h
            obtain ⟨hk2, hs2, hp2, hev2⟩ := e2.die (by rw [hu1, hh1]; omega)
            exact ⟨hk2, hs2, hp2.trans hp1, hev1.thenKill hev2⟩
      · obtain ⟨hk, hs, hp1, hev⟩ := e1.die (by omega)
        cases hr : runItem a it with
        | mk a1 x1 =>
          rw [hr] at hk hs hp1 hev
          simp only at hk; subst hk
          simp only
          constructor
          · intro h; omega
          · intro _; exact ⟨rfl, hs, hp1, hev⟩

  theorem exact_item (a : Acc) (it : Item) (hw : it.pcallCpu = true) (hi : Inv a.st)
      (hm : Metered a.st.cur) (hf : it.fits a.st.cur.hard.Cpu.toNat) :
      Exact a it.cost (runItem a it) := by
    match it with
    | .err => simp [Item.pcallCpu] at hw
    | .op o =>
      cases o with
      | reqCpu n =>
        have hn : n.toNat + a.st.cur.hard.Cpu.toNat ≤ 2 ^ 64 := by unfold Item.fits at hf; exact hf
        have hinv := inv_step (.reqCpu n) hi hm.live
        have hcost : (Item.op (.reqCpu n)).cost = n.toNat := by simp [Item.cost]
        rw [hcost]
        unfold runItem
        simp only [step, onCur]
        rcases metered_step n hm hn with ⟨hge, e⟩ | ⟨hlt, hok, hm', hh, hu⟩
        · rw [e]
          simp only
          constructor
          · intro h; omega
          · intro _
            refine ⟨?_, rfl, LowerL.refl _, ⟨⟨_, _, .terminated⟩, [], rfl, rfl, fun _ h => nomatch h⟩⟩
            show Exit.killed (killCause a.st.cur (.reqCpu n)) = _
            simp [killCause, hm.nostop]
        · have hinv' : Inv ⟨(a.st.cur.requireCPU n).1, a.st.parents⟩ := hinv
          cases hreq : a.st.cur.requireCPU n with
          | mk f' o' =>
            rw [hreq] at hok hm' hh hu hinv'
            simp only at hok; subst hok
            simp only
            constructor
            · intro _
              exact ⟨rfl, hm', hu, hh, LowerL.refl _, hinv', ⟨[⟨_, _, .ok⟩], rfl, fun e he => by
                simp only [List.mem_singleton] at he; rw [he]⟩⟩
            · intro h; omega
      | push d => simp [Item.pcallCpu] at hw
      | pop => simp [Item.pcallCpu] at hw
      | reqMem n => simp [Item.pcallCpu] at hw
      | relMem n => simp [Item.pcallCpu] at hw
      | stop l => simp [Item.pcallCpu] at hw
      | due => simp [Item.pcallCpu] at hw
    | .call d body =>
      have hw' : d = CtxDef.none ∧ bodyPcallCpu body = true := by
        have := hw; unfold Item.pcallCpu at this; simpa using this
      obtain ⟨rfl, hwb⟩ := hw'
      have hcost : (Item.call CtxDef.none body).cost = bodyCost body := by simp [Item.cost]
      rw [hcost]
      have hpo : FrameOk a.st.cur := hi.1
      obtain ⟨hcm, hch, hcu⟩ := child_none_metered hm hpo
      have hi0 : Inv (push a.st CtxDef.none) := inv_step (.push CtxDef.none) hi hm.live
      have hb := hm.below
      have hfb : bodyFits (a.st.cur.child CtxDef.none).hard.Cpu.toNat body := by
        have : bodyFits a.st.cur.hard.Cpu.toNat body := by unfold Item.fits at hf; exact hf
        exact fits_mono_body (by rw [hch]; omega) body this
      have eb := exact_body { a with st := push a.st CtxDef.none } body hwb hi0 hcm hfb
      have hwf := bodyPcallCpu_wf body hwb
      have hcu0 : ({ a with st := push a.st CtxDef.none } : Acc).st.cur.used.Cpu.toNat = 0 := by
        show (a.st.cur.child CtxDef.none).used.Cpu.toNat = 0; rw [hcu]; rfl
      have hch' : ({ a with st := push a.st CtxDef.none } : Acc).st.cur.hard.Cpu.toNat =
          a.st.cur.hard.Cpu.toNat - a.st.cur.used.Cpu.toNat := hch
      constructor
      · intro hlt
        obtain ⟨hd, hm1, hu1, hh1, hp1, hi1, hev1⟩ := eb.survive (by rw [hcu0, hch']; omega)
        have gb := good_body { a with st := push a.st CtxDef.none } body hwf hi0 rfl
        cases hr : runBody { a with st := push a.st CtxDef.none } body with
        | mk a1 ex =>
          rw [hr] at hd hm1 hu1 hh1 hp1 hi1 hev1 gb
          simp only at hd; subst hd
          obtain ⟨p', ps', _, hlp, hlps, hc2, hcp, hp, hpl, hrest, hrun⟩ :=
            call_unfold a CtxDef.none body a1 _ hr gb hm.live
          have hab : afterBody Exit.done a1.st = a1.st := (afterBody_same Exit.done a1.st).2.2.2.2 (fun c => nomatch c)
          rw [hab] at hc2 hcp hrun
          have hdone : afterPop a1 Exit.done a1.st (charged p' a1.st.cur) ps' =
              ({ a1 with st := ⟨charged p' a1.st.cur, ps'⟩,
                         results := mkResult Exit.done a1.st :: a1.results }, Exit.done) := rfl
          rw [hrun, hdone]
          have hps := hlp.same
          have hs := charged_same p' a1.st.cur
          have hlim' : p'.hard.Cpu ≠ 0#64 := by rw [hps.1]; exact hm.lim
          have hsum := (charge_cpu_below hc2 hp hcp).2 hlim'
          have hcuv := charged_used_cpu p' a1.st.cur (by rw [hps.2.2.2.2.2.1]; exact hm.track)
          have hu1' : a1.st.cur.used.Cpu.toNat = bodyCost body := by rw [hu1, hcu0]; omega
          have hused : (charged p' a1.st.cur).used.Cpu.toNat = a.st.cur.used.Cpu.toNat + bodyCost body := by
            rw [hcuv, hsum, hu1', hps.2.2.2.2.2.2.2.1]
          have hinv3 : Inv ⟨charged p' a1.st.cur, ps'⟩ :=
            ⟨charged_frameOk hc2 hp hcp, chainInv_congr hs.1 hs.2.2.1 hrest⟩
          have hh3 : (charged p' a1.st.cur).hard = a.st.cur.hard := hs.1.trans hps.1
          refine ⟨rfl, ⟨?_, ?_, ?_, ?_, ?_⟩, hused, hh3, hlps, hinv3, ?_⟩
          · unfold Frame.live; rw [hs.2.2.2.1]; exact hpl
          · unfold Frame.hardStopped; rw [hs.2.2.2.2.1, hps.2.2.2.2.1]; exact hm.nostop
          · rw [hs.2.2.2.2.2.1, hps.2.2.2.2.2.1]; exact hm.track
          · rw [hh3]; exact hm.lim
          · rw [hh3, hused]; exact hlt
          · obtain ⟨new, en, on⟩ := hev1
            exact ⟨new, en, on⟩
      · intro hge
        obtain ⟨hk, hs1, hp1, hev1⟩ := eb.die (by rw [hcu0, hch']; omega)
        obtain ⟨h1, h2, h3, h4, _⟩ := limitless_bracket_propagates_cpu a CtxDef.none body hwf hi hm.live rfl hm.lim hk
        refine ⟨h1, h2, h3, ?_⟩
        obtain ⟨k, oks, ek, hkt, hoks⟩ := hev1
        exact ⟨k, oks, by rw [h4]; exact ek, hkt, hoks⟩
end

theorem runItem_op (a : Acc) (o : Op) :
    runItem a (.op o) = (({ a with st := (step a.st o).1, events := ⟨a.st.depth, o, (step a.st o).2⟩ :: a.events } : Acc),
      match (step a.st o).2 with
      | .ok => Exit.done
      | .terminated => Exit.killed (killCause a.st.cur o)
      | .crash => Exit.crashed) := by
  unfold runItem; simp only; cases (step a.st o).2 <;> rfl


/-! ### memory programs: a termination is always a memory termination and cannot be absorbed -/

mutual
  theorem pcallMem_wf (it : Item) (h : it.pcallMem = true) : it.wf = true := by
    match it with
    | .op o => cases o <;> simp [Item.pcallMem] at h <;> rfl
    | .err => simp [Item.pcallMem] at h
    | .call d body =>
      unfold Item.pcallMem at h; unfold Item.wf
      simp only [Bool.and_eq_true] at h
      exact bodyPcallMem_wf body h.2
  theorem bodyPcallMem_wf (body : List Item) (h : bodyPcallMem body = true) : wfBody body = true := by
    match body with
    | [] => rfl
    | it :: rest =>
      unfold bodyPcallMem at h; unfold wfBody
      simp only [Bool.and_eq_true] at h ⊢
      exact ⟨pcallMem_wf it h.1, bodyPcallMem_wf rest h.2⟩
end

/-- a release covered by the active context stays in the active context -/
theorem releaseStack_local (f : Frame) (rest : List Frame) (n : BitVec 64) (h0 : f.hard.Memory ≠ 0#64)
    (hn : n.toNat ≤ f.used.Memory.toNat) :
    releaseStack f rest n = (({ f with used := { f.used with Memory := f.used.Memory - n } }, rest), .ok) := by
  cases rest with
  | nil =>
    show (((f.releaseMem n).1, []), (f.releaseMem n).2) = _
    rcases releaseMem_cases f n with ⟨hz, _⟩ | ⟨_, _, e⟩ | ⟨_, hlt, _⟩
    · exact absurd hz h0
    · rw [e]
    · omega
  | cons p ps =>
    unfold releaseStack
    rw [(ult_zero_iff _).mpr h0, if_pos rfl]
    have : BitVec.ule n f.used.Memory = true := by simpa [BitVec.ule] using hn
    rw [this, if_pos rfl]

theorem step_relMem_local (s : St) (n : BitVec 64) (h0 : s.cur.hard.Memory ≠ 0#64)
    (hn : n.toNat ≤ s.cur.used.Memory.toNat) :
    step s (.relMem n) =
      (⟨{ s.cur with used := { s.cur.used with Memory := s.cur.used.Memory - n } }, s.parents⟩, .ok) := by
  show ((⟨(releaseStack s.cur s.parents n).1.1, (releaseStack s.cur s.parents n).1.2⟩ : St),
    (releaseStack s.cur s.parents n).2) = _
  rw [releaseStack_local s.cur s.parents n h0 hn]

/-- what a run of a memory program whose brackets release only their own memory guarantees, in a
memory-limited frame that was not hard-stopped -/
structure MemRun (a : Acc) (b' : Nat) (r : Acc × Exit) : Prop where
  nostop : r.1.st.cur.hardStopped = false
  cause : ∀ res, r.2 = .killed res → res = .mem
  parents : r.1.st.parents = a.st.parents
  bal : r.2 = .done → b' ≤ r.1.st.cur.used.Memory.toNat

theorem child_none_stop (p : Frame) : (p.child CtxDef.none).hardStopped = p.hardStopped := rfl

theorem child_none_mem_ne {p : Frame} (hpo : FrameOk p) (h0 : p.hard.Memory ≠ 0#64) :
    (p.child CtxDef.none).hard.Memory ≠ 0#64 := by
  rw [child_inherits_mem p CtxDef.none rfl, ne_zero_iff, Remove_Memory]
  rcases hpo.mem with h | h
  · exact absurd h h0
  · omega

theorem child_none_mem_le (p : Frame) : (p.child CtxDef.none).hard.Memory.toNat ≤ p.hard.Memory.toNat := by
  rw [child_inherits_mem p CtxDef.none rfl, Remove_Memory]; omega

mutual
  theorem localRel_mono_item {B B' b : Nat} (hle : B ≤ B') (it : Item) (h : it.localRel B' b) : it.localRel B b := by
    match it with
    | .op o => cases o <;> first | trivial | (unfold Item.localRel at h ⊢; omega)
    | .err => trivial
    | .call d body => unfold Item.localRel at h ⊢; exact localRel_mono_body' hle body h
  theorem localRel_mono_body' {B B' b : Nat} (hle : B ≤ B') (body : List Item) (h : bodyLocalRel B' b body) :
      bodyLocalRel B b body := by
    match body with
    | [] => trivial
    | it :: rest =>
      unfold bodyLocalRel at h ⊢; exact ⟨localRel_mono_item hle it h.1, localRel_mono_body' hle rest h.2⟩
end

def bodyBal (b : Nat) : List Item → Nat
  | [] => b
  | it :: rest => bodyBal (it.bal b) rest

mutual
  theorem memrun_body (B b : Nat) (a : Acc) (body : List Item) (hw : bodyPcallMem body = true)
      (hlr : bodyLocalRel B b body) (hi : Inv a.st)
      (hl : a.st.cur.live = true) (hs : a.st.cur.hardStopped = false) (h0 : a.st.cur.hard.Memory ≠ 0#64)
      (hB : a.st.cur.hard.Memory.toNat ≤ B) (hb : b ≤ a.st.cur.used.Memory.toNat) :
      MemRun a (bodyBal b body) (runBody a body) := by
    match body with
    | [] => exact ⟨hs, (fun _ h => nomatch h), rfl, fun _ => hb⟩
    | it :: rest =>
      have hw' : it.pcallMem = true ∧ bodyPcallMem rest = true := by
        have := hw; unfold bodyPcallMem at this; simpa using this
      have hlr' : it.localRel B b ∧ bodyLocalRel B (it.bal b) rest := by
        have := hlr; unfold bodyLocalRel at this; exact this
      have m1 := memrun_item B b a it hw'.1 hlr'.1 hi hl hs h0 hB hb
      have g1 := good_item a it (pcallMem_wf it hw'.1) hi hl
      unfold runBody
      show MemRun a (bodyBal (it.bal b) rest) _
      cases hr : runItem a it with
      | mk a1 e1 =>
        rw [hr] at m1 g1
        cases e1 with
        | done =>
          have m2 := memrun_body B (it.bal b) a1 rest hw'.2 hlr'.2 g1.inv (g1.live (fun _ h => nomatch h)) m1.nostop
            (by rw [g1.hard]; exact h0) (by rw [g1.hard]; exact hB) (m1.bal rfl)
          exact ⟨m2.nostop, m2.cause, m2.parents.trans m1.parents, m2.bal⟩
        | error => exact ⟨m1.nostop, m1.cause, m1.parents, (fun h => nomatch h)⟩
        | killed r => exact ⟨m1.nostop, m1.cause, m1.parents, (fun h => nomatch h)⟩
        | crashed => exact ⟨m1.nostop, m1.cause, m1.parents, (fun h => nomatch h)⟩

  theorem memrun_item (B b : Nat) (a : Acc) (it : Item) (hw : it.pcallMem = true) (hlr : it.localRel B b)
      (hi : Inv a.st)
      (hl : a.st.cur.live = true) (hs : a.st.cur.hardStopped = false) (h0 : a.st.cur.hard.Memory ≠ 0#64)
      (hB : a.st.cur.hard.Memory.toNat ≤ B) (hb : b ≤ a.st.cur.used.Memory.toNat) :
      MemRun a (it.bal b) (runItem a it) := by
    match it with
    | .err => simp [Item.pcallMem] at hw
    | .op o =>
      cases o with
      | reqMem n =>
        have hn : n.toNat + B ≤ 2 ^ 64 := by unfold Item.localRel at hlr; exact hlr
        have hu : a.st.cur.used.Memory.toNat < a.st.cur.hard.Memory.toNat := by
          rcases hi.1.mem with h | h
          · exact absurd h h0
          · exact h
        rw [runItem_op]
        show MemRun a (b + n.toNat) _
        have hstep : step a.st (.reqMem n) = (⟨(a.st.cur.requireMem n).1, a.st.parents⟩, (a.st.cur.requireMem n).2) := rfl
        rw [hstep]
        rcases requireMem_live a.st.cur n hl with ⟨ht, _⟩ | ⟨_, hk, e⟩ | ⟨_, _, _, e⟩
        · rw [hi.1.tmem h0] at ht; cases ht
        · rw [e]
          refine ⟨hs, fun res h => ?_, rfl, (fun h => nomatch h)⟩
          simp only at h
          injection h with h
          rw [← h]; simp [killCause, hs]
        · rw [e]
          refine ⟨hs, (fun _ h => nomatch h), rfl, fun _ => ?_⟩
          show b + n.toNat ≤ (a.st.cur.used.Memory + n).toNat
          rw [BitVec.toNat_add, Nat.mod_eq_of_lt (by omega)]; omega
      | relMem n =>
        have hn : n.toNat ≤ b := by unfold Item.localRel at hlr; exact hlr
        rw [runItem_op, step_relMem_local a.st n h0 (by omega)]
        refine ⟨hs, (fun _ h => nomatch h), rfl, fun _ => ?_⟩
        show b - n.toNat ≤ (a.st.cur.used.Memory - n).toNat
        rw [BitVec.toNat_sub_of_le (by simp [BitVec.le_def]; omega)]; omega
      | push d => simp [Item.pcallMem] at hw
      | pop => simp [Item.pcallMem] at hw
      | reqCpu n => simp [Item.pcallMem] at hw
      | stop l => simp [Item.pcallMem] at hw
      | due => simp [Item.pcallMem] at hw
    | .call d body =>
      have hw' : d = CtxDef.none ∧ bodyPcallMem body = true := by
        have := hw; unfold Item.pcallMem at this; simpa using this
      obtain ⟨rfl, hwb⟩ := hw'
      have hlrb : bodyLocalRel B 0 body := by unfold Item.localRel at hlr; exact hlr
      have hwf := bodyPcallMem_wf body hwb
      have hi0 : Inv (push a.st CtxDef.none) := inv_step (.push CtxDef.none) hi hl
      have mb := memrun_body B 0 { a with st := push a.st CtxDef.none } body hwb hlrb hi0 rfl hs
        (child_none_mem_ne hi.1 h0) (Nat.le_trans (child_none_mem_le a.st.cur) hB) (Nat.zero_le _)
      have gb := good_body { a with st := push a.st CtxDef.none } body hwf hi0 rfl
      show MemRun a b _
      cases hr : runBody { a with st := push a.st CtxDef.none } body with
      | mk a1 ex =>
        rw [hr] at mb gb
        obtain ⟨p', ps', hpe, hlp, hlps, hc2, hcp, hp, hpl, hrest, hrun⟩ :=
          call_unfold a CtxDef.none body a1 ex hr gb hl
        -- no release of the body reached the caller: the frame below the child is the caller's, unchanged
        have hpar : a1.st.parents = a.st.cur :: a.st.parents := mb.parents
        have hpp : p' = a.st.cur ∧ ps' = a.st.parents := by
          rw [hpe] at hpar; injection hpar with h1 h2; exact ⟨h1, h2⟩
        obtain ⟨rfl, rfl⟩ := hpp
        have hsame := charged_same a.st.cur (afterBody ex a1.st).cur
        have hstop : (charged a.st.cur (afterBody ex a1.st).cur).hardStopped = false := by
          unfold Frame.hardStopped; rw [hsame.2.2.2.2.1]; exact hs
        have hbal : b ≤ (charged a.st.cur (afterBody ex a1.st).cur).used.Memory.toNat := by
          rw [charged_used_mem _ _ (hi.1.tmem h0), (charge_mem_below hc2 hp hcp).2 h0]; omega
        cases ex with
        | killed res =>
          have hres := mb.cause res rfl
          subst hres
          have hk : (runBody { a with st := push a.st CtxDef.none } body).2 = .killed .mem := by rw [hr]
          have hund : ∀ p' ps', (runBody { a with st := push a.st CtxDef.none } body).1.st.parents = p' :: ps' →
              p'.used.Memory = a.st.cur.used.Memory := by
            intro q qs hq; rw [hr] at hq; simp only at hq; rw [hpe] at hq; injection hq with h1 _; rw [← h1]
          obtain ⟨h1, h2, _, _, _⟩ := limitless_bracket_propagates_mem a CtxDef.none body hwf hi hl rfl h0 hk hund
          have hfire := propagate_mem_fires (c := (afterBody (Exit.killed .mem) a1.st).cur) hp hl h0
            (by rw [(afterBody_same _ a1.st).2.1, gb.hard]; exact child_inherits_mem a.st.cur CtxDef.none rfl)
          refine ⟨?_, fun res h => by rw [h1] at h; injection h with h; exact h.symm, ?_, fun h => by rw [h1] at h; cases h⟩
          · rw [hrun, afterPop_killed_fire _ _ _ _ _ _ hfire]; exact hstop
          · rw [hrun, afterPop_killed_fire _ _ _ _ _ _ hfire]
        | done => rw [hrun]; exact ⟨hstop, (fun _ h => nomatch h), rfl, fun _ => hbal⟩
        | error => rw [hrun]; exact ⟨hstop, (fun _ h => nomatch h), rfl, fun _ => hbal⟩
        | crashed => rw [hrun]; exact ⟨hstop, (fun _ h => nomatch h), rfl, (fun h => nomatch h)⟩
end

/-! ### two runs of the same memory program under limits `M' ≤ M` -/

/-- the same frame in the run with the larger limit (`f`) and the smaller one (`f'`): equal except
for the hard memory limit, which is `δ` larger in `f` (and for soft.Memory, which nothing but `due`
reads) -/
structure RelF (δ : Nat) (f f' : Frame) : Prop where
  used : f.used = f'.used
  status : f.status = f'.status
  stop : f.stop = f'.stop
  flags : f.flags = f'.flags
  tc : f.trackCpu = f'.trackCpu
  tm : f.trackMem = f'.trackMem
  hcpu : f.hard.Cpu = f'.hard.Cpu
  hms : f.hard.Millis = f'.hard.Millis
  scpu : f.soft.Cpu = f'.soft.Cpu
  sms : f.soft.Millis = f'.soft.Millis
  hmem : f.hard.Memory.toNat = f'.hard.Memory.toNat + δ
  hmem0 : f'.hard.Memory ≠ 0#64

/-- two states whose active frames are related (the frames below are not touched by a body) -/
def RelS (δ : Nat) (s s' : St) : Prop := RelF δ s.cur s'.cur

theorem RelF.live {δ : Nat} {f f' : Frame} (h : RelF δ f f') : f.live = f'.live := by
  unfold Frame.live; rw [h.status]

theorem RelF.hs {δ : Nat} {f f' : Frame} (h : RelF δ f f') : f.hardStopped = f'.hardStopped := by
  unfold Frame.hardStopped; rw [h.stop]

theorem RelF.hmem_ne {δ : Nat} {f f' : Frame} (h : RelF δ f f') : f.hard.Memory ≠ 0#64 := by
  rw [ne_zero_iff, h.hmem]; have := (ne_zero_iff _).mp h.hmem0; omega

theorem Merge_zero_cpu (r : RuntimeResources) : (r.Merge Res.zero).Cpu = r.Cpu := by
  rw [Merge_Cpu]; show (if smallerLimit 0#64 r.Cpu then _ else _) = _; rw [smallerLimit_zero]; rfl
theorem Merge_zero_mem (r : RuntimeResources) : (r.Merge Res.zero).Memory = r.Memory := by
  rw [Merge_Memory]; show (if smallerLimit 0#64 r.Memory then _ else _) = _; rw [smallerLimit_zero]; rfl
theorem Merge_zero_ms (r : RuntimeResources) : (r.Merge Res.zero).Millis = r.Millis := by
  rw [Merge_Millis]; show (if smallerLimit 0#64 r.Millis then _ else _) = _; rw [smallerLimit_zero]; rfl

/-- the frame pushed by a limit-less bracket, field by field -/
theorem child_none_fields (f : Frame) :
    (f.child CtxDef.none).hard.Cpu = (f.hard.Remove f.used).Cpu ∧
    (f.child CtxDef.none).hard.Memory = (f.hard.Remove f.used).Memory ∧
    (f.child CtxDef.none).hard.Millis = (f.hard.Remove f.used).Millis ∧
    (f.child CtxDef.none).soft.Cpu =
      (if smallerLimit f.soft.Cpu (f.hard.Remove f.used).Cpu then f.soft.Cpu else (f.hard.Remove f.used).Cpu) ∧
    (f.child CtxDef.none).soft.Millis =
      (if smallerLimit f.soft.Millis (f.hard.Remove f.used).Millis then f.soft.Millis
       else (f.hard.Remove f.used).Millis) ∧
    (f.child CtxDef.none).used = Res.zero ∧ (f.child CtxDef.none).status = StatusLive ∧
    (f.child CtxDef.none).stop = f.stop := by
  have hh : (f.child CtxDef.none).hard = (f.hard.Remove f.used).Merge Res.zero := rfl
  have hs : (f.child CtxDef.none).soft = ((f.child CtxDef.none).hard.Merge f.soft).Merge Res.zero := rfl
  refine ⟨?_, ?_, ?_, ?_, ?_, rfl, rfl, rfl⟩
  · rw [hh, Merge_zero_cpu]
  · rw [hh, Merge_zero_mem]
  · rw [hh, Merge_zero_ms]
  · rw [hs, Merge_zero_cpu, Merge_Cpu, hh, Merge_zero_cpu]
  · rw [hs, Merge_zero_ms, Merge_Millis, hh, Merge_zero_ms]

theorem remove_cpu_congr {h h' u u' : RuntimeResources} (e1 : h.Cpu = h'.Cpu) (e2 : u.Cpu = u'.Cpu) :
    (h.Remove u).Cpu = (h'.Remove u').Cpu := by
  apply BitVec.eq_of_toNat_eq; rw [Remove_Cpu, Remove_Cpu, e1, e2]

theorem remove_ms_congr {h h' u u' : RuntimeResources} (e1 : h.Millis = h'.Millis) (e2 : u.Millis = u'.Millis) :
    (h.Remove u).Millis = (h'.Remove u').Millis := by
  apply BitVec.eq_of_toNat_eq; rw [Remove_Millis, Remove_Millis, e1, e2]

theorem relF_child {δ : Nat} {f f' : Frame} (h : RelF δ f f') (hok' : FrameOk f') :
    RelF δ (f.child CtxDef.none) (f'.child CtxDef.none) := by
  have c := child_none_fields f
  have c' := child_none_fields f'
  have hu : f'.used.Memory.toNat < f'.hard.Memory.toNat := by
    rcases hok'.mem with h0 | h0
    · exact absurd h0 h.hmem0
    · exact h0
  have ecpu := remove_cpu_congr h.hcpu (congrArg (·.Cpu) h.used)
  have ems := remove_ms_congr h.hms (congrArg (·.Millis) h.used)
  have hm : (f.child CtxDef.none).hard.Memory.toNat = (f'.child CtxDef.none).hard.Memory.toNat + δ := by
    rw [c.2.1, c'.2.1, Remove_Memory, Remove_Memory, h.hmem, h.used]; omega
  have hm0 : (f'.child CtxDef.none).hard.Memory ≠ 0#64 := by
    rw [ne_zero_iff, c'.2.1, Remove_Memory]; omega
  have hm0' : (f.child CtxDef.none).hard.Memory ≠ 0#64 := by
    rw [ne_zero_iff, hm]; have := (ne_zero_iff _).mp hm0; omega
  have hhc : (f.child CtxDef.none).hard.Cpu = (f'.child CtxDef.none).hard.Cpu := by rw [c.1, c'.1, ecpu]
  have hhm : (f.child CtxDef.none).hard.Millis = (f'.child CtxDef.none).hard.Millis := by
    rw [c.2.2.1, c'.2.2.1, ems]
  have hsc : (f.child CtxDef.none).soft.Cpu = (f'.child CtxDef.none).soft.Cpu := by
    rw [c.2.2.2.1, c'.2.2.2.1, ecpu, h.scpu]
  have hsm : (f.child CtxDef.none).soft.Millis = (f'.child CtxDef.none).soft.Millis := by
    rw [c.2.2.2.2.1, c'.2.2.2.2.1, ems, h.sms]
  refine ⟨by rw [c.2.2.2.2.2.1, c'.2.2.2.2.2.1], rfl, h.stop, ?_, ?_, ?_, hhc, hhm, hsc, hsm, hm, hm0⟩
  · show f.flags ||| _ ||| _ = f'.flags ||| _ ||| _; rw [h.flags]
  · show (BitVec.ult 0#64 (f.child CtxDef.none).hard.Cpu || BitVec.ult 0#64 (f.child CtxDef.none).soft.Cpu ||
        (BitVec.ult 0#64 (f.child CtxDef.none).hard.Millis || BitVec.ult 0#64 (f.child CtxDef.none).soft.Millis)) =
      (BitVec.ult 0#64 (f'.child CtxDef.none).hard.Cpu || BitVec.ult 0#64 (f'.child CtxDef.none).soft.Cpu ||
        (BitVec.ult 0#64 (f'.child CtxDef.none).hard.Millis || BitVec.ult 0#64 (f'.child CtxDef.none).soft.Millis))
    rw [hhc, hsc, hhm, hsm]
  · show (BitVec.ult 0#64 (f.child CtxDef.none).hard.Memory || _) = (BitVec.ult 0#64 (f'.child CtxDef.none).hard.Memory || _)
    rw [(ult_zero_iff _).mpr hm0, (ult_zero_iff _).mpr hm0']; rfl

theorem relF_setStatus {δ : Nat} {f f' : Frame} (h : RelF δ f f') (st : BitVec 16) :
    RelF δ { f with status := st } { f' with status := st } :=
  ⟨h.used, rfl, h.stop, h.flags, h.tc, h.tm, h.hcpu, h.hms, h.scpu, h.sms, h.hmem, h.hmem0⟩

theorem relF_setUsed {δ : Nat} {f f' : Frame} (h : RelF δ f f') (u : RuntimeResources) :
    RelF δ { f with used := u } { f' with used := u } :=
  ⟨rfl, h.status, h.stop, h.flags, h.tc, h.tm, h.hcpu, h.hms, h.scpu, h.sms, h.hmem, h.hmem0⟩

theorem relS_afterBody {δ : Nat} {s s' : St} (ex : Exit) (h : RelS δ s s') :
    RelS δ (afterBody ex s) (afterBody ex s') := by
  unfold afterBody; split
  · exact relF_setStatus h StatusError
  · exact h

theorem relF_chargeCpu {δ : Nat} {p p' : Frame} (hp : RelF δ p p') (n : BitVec 64) :
    RelF δ (chargeCpu p n) (chargeCpu p' n) := by
  have ht := hp.tc
  unfold chargeCpu
  split <;> split
  · refine ⟨?_, hp.status, hp.stop, hp.flags, hp.tc, hp.tm, hp.hcpu, hp.hms, hp.scpu, hp.sms, hp.hmem, hp.hmem0⟩
    show ({ p.used with Cpu := p.used.Cpu + n } : RuntimeResources) = { p'.used with Cpu := p'.used.Cpu + n }
    rw [hp.used]
  · rename_i h1 h2; rw [ht] at h1; exact absurd h1 h2
  · rename_i h1 h2; rw [ht] at h1; exact absurd h2 h1
  · exact hp

theorem relF_chargeMem {δ : Nat} {p p' : Frame} (hp : RelF δ p p') (n : BitVec 64) :
    RelF δ (chargeMem p n) (chargeMem p' n) := by
  have ht := hp.tm
  unfold chargeMem
  split <;> split
  · refine ⟨?_, hp.status, hp.stop, hp.flags, hp.tc, hp.tm, hp.hcpu, hp.hms, hp.scpu, hp.sms, hp.hmem, hp.hmem0⟩
    show ({ p.used with Memory := p.used.Memory + n } : RuntimeResources) = { p'.used with Memory := p'.used.Memory + n }
    rw [hp.used]
  · rename_i h1 h2; rw [ht] at h1; exact absurd h1 h2
  · rename_i h1 h2; rw [ht] at h1; exact absurd h2 h1
  · exact hp

theorem relF_charged {δ : Nat} {p p' c c' : Frame} (hp : RelF δ p p') (hc : c.used = c'.used) :
    RelF δ (charged p c) (charged p' c') := by
  unfold charged; rw [hc]; exact relF_chargeMem (relF_chargeCpu hp _) _

def NotKilled (e : Exit) : Prop := ∀ res, e ≠ .killed res

/-- a memory request in the two runs: if the run under the smaller limit is not terminated, the run
under the larger limit has the same outcome and the frames stay related -/
theorem sim_req {δ : Nat} {f f' : Frame} (h : RelF δ f f') (hl' : f'.live = true) (n : BitVec 64)
    (hnk : (f'.requireMem n).2 ≠ .terminated) :
    (f.requireMem n).2 = (f'.requireMem n).2 ∧ RelF δ (f.requireMem n).1 (f'.requireMem n).1 := by
  have hl : f.live = true := by rw [h.live]; exact hl'
  rcases requireMem_live f' n hl' with ⟨ht', e'⟩ | ⟨_, _, e'⟩ | ⟨ht', hs', ha', e'⟩
  · rcases requireMem_live f n hl with ⟨_, e⟩ | ⟨ht, _, _⟩ | ⟨ht, _, _, _⟩
    · rw [e, e']; exact ⟨rfl, h⟩
    · rw [h.tm, ht'] at ht; cases ht
    · rw [h.tm, ht'] at ht; cases ht
  · rw [e'] at hnk; exact absurd rfl hnk
  · have hb' : (f'.used.Memory + n).toNat < f'.hard.Memory.toNat := by
      rcases (atLimit_false_iff _ _).mp ha' with h0 | h0
      · exact absurd h0 h.hmem0
      · exact h0
    have ha : atLimit (f.used.Memory + n) f.hard.Memory = false :=
      (atLimit_false_iff _ _).mpr (Or.inr (by rw [h.used, h.hmem]; omega))
    have e := requireMem_charge f n hl (by rw [h.hs]; exact hs') ha
    have e2 := requireMem_charge f' n hl' hs' ha'
    rw [e, e2]; exact ⟨rfl, relF_chargeMem h n⟩

mutual
  theorem sim_body (δ B b : Nat) (a a' : Acc) (body : List Item) (hw : bodyPcallMem body = true)
      (hlr : bodyLocalRel B b body)
      (hr : RelS δ a.st a'.st) (hi : Inv a.st) (hi' : Inv a'.st) (hl' : a'.st.cur.live = true)
      (hs' : a'.st.cur.hardStopped = false) (hB : a.st.cur.hard.Memory.toNat ≤ B)
      (hb : b ≤ a'.st.cur.used.Memory.toNat) (hnk : NotKilled (runBody a' body).2) :
      (runBody a body).2 = (runBody a' body).2 ∧ RelS δ (runBody a body).1.st (runBody a' body).1.st := by
    match body with
    | [] => exact ⟨rfl, hr⟩
    | it :: rest =>
      have hw' : it.pcallMem = true ∧ bodyPcallMem rest = true := by
        have := hw; unfold bodyPcallMem at this; simpa using this
      have hlr' : it.localRel B b ∧ bodyLocalRel B (it.bal b) rest := by
        have := hlr; unfold bodyLocalRel at this; exact this
      have hl : a.st.cur.live = true := by rw [hr.live]; exact hl'
      have g1 := good_item a it (pcallMem_wf it hw'.1) hi hl
      have g1' := good_item a' it (pcallMem_wf it hw'.1) hi' hl'
      have hB' : a'.st.cur.hard.Memory.toNat ≤ B := by have := hr.hmem; omega
      have m1' := memrun_item B b a' it hw'.1 hlr'.1 hi' hl' hs' hr.hmem0 hB' hb
      have hnk1 : NotKilled (runItem a' it).2 := by
        intro res hk
        have : (runBody a' (it :: rest)).2 = .killed res := by
          unfold runBody
          cases hri : runItem a' it with
          | mk x e => rw [hri] at hk; simp only at hk; subst hk; rfl
        exact hnk res this
      have s1 := sim_item δ B b a a' it hw'.1 hlr'.1 hr hi hi' hl' hs' hB hb hnk1
      unfold runBody at hnk ⊢
      cases hri : runItem a it with
      | mk a1 e1 =>
        cases hri' : runItem a' it with
        | mk a1' e1' =>
          rw [hri, hri'] at s1
          rw [hri] at g1
          rw [hri'] at g1' m1' hnk
          obtain ⟨he, hrel⟩ := s1
          simp only at he; subst he
          cases e1 with
          | done =>
            simp only at hnk ⊢
            exact sim_body δ B (it.bal b) a1 a1' rest hw'.2 hlr'.2 hrel g1.inv g1'.inv
              (g1'.live (fun _ h => nomatch h)) m1'.nostop (by rw [g1.hard]; exact hB) (m1'.bal rfl) hnk
          | error => exact ⟨rfl, hrel⟩
          | killed r => exact ⟨rfl, hrel⟩
          | crashed => exact ⟨rfl, hrel⟩

  theorem sim_item (δ B b : Nat) (a a' : Acc) (it : Item) (hw : it.pcallMem = true) (hlr : it.localRel B b)
      (hr : RelS δ a.st a'.st) (hi : Inv a.st) (hi' : Inv a'.st) (hl' : a'.st.cur.live = true)
      (hs' : a'.st.cur.hardStopped = false) (hB : a.st.cur.hard.Memory.toNat ≤ B)
      (hb : b ≤ a'.st.cur.used.Memory.toNat) (hnk : NotKilled (runItem a' it).2) :
      (runItem a it).2 = (runItem a' it).2 ∧ RelS δ (runItem a it).1.st (runItem a' it).1.st := by
    match it with
    | .err => simp [Item.pcallMem] at hw
    | .op o =>
      cases o with
      | reqMem n =>
        rw [runItem_op] at hnk ⊢
        rw [runItem_op]
        have hst : step a.st (.reqMem n) = (⟨(a.st.cur.requireMem n).1, a.st.parents⟩, (a.st.cur.requireMem n).2) := rfl
        have hst' : step a'.st (.reqMem n) = (⟨(a'.st.cur.requireMem n).1, a'.st.parents⟩, (a'.st.cur.requireMem n).2) := rfl
        rw [hst'] at hnk
        rw [hst, hst']
        have hnt : (a'.st.cur.requireMem n).2 ≠ .terminated := by
          intro hc
          exact hnk (killCause a'.st.cur (.reqMem n)) (by simp only [hc])
        obtain ⟨ho, hrel⟩ := sim_req hr hl' n hnt
        refine ⟨?_, hrel⟩
        simp only [ho]
        cases hc : (a'.st.cur.requireMem n).2 with
        | ok => rfl
        | crash => rfl
        | terminated => exact absurd hc hnt
      | relMem n =>
        have hn : n.toNat ≤ b := by unfold Item.localRel at hlr; exact hlr
        have hu : a.st.cur.used = a'.st.cur.used := hr.used
        rw [runItem_op, runItem_op, step_relMem_local a'.st n hr.hmem0 (by omega),
          step_relMem_local a.st n hr.hmem_ne (by rw [hu]; omega)]
        refine ⟨rfl, ?_, hr.status, hr.stop, hr.flags, hr.tc, hr.tm, hr.hcpu, hr.hms, hr.scpu, hr.sms, hr.hmem, hr.hmem0⟩
        show ({ a.st.cur.used with Memory := a.st.cur.used.Memory - n } : RuntimeResources) =
          { a'.st.cur.used with Memory := a'.st.cur.used.Memory - n }
        rw [hu]
      | push d => simp [Item.pcallMem] at hw
      | pop => simp [Item.pcallMem] at hw
      | reqCpu n => simp [Item.pcallMem] at hw
      | stop l => simp [Item.pcallMem] at hw
      | due => simp [Item.pcallMem] at hw
    | .call d body =>
      have hw' : d = CtxDef.none ∧ bodyPcallMem body = true := by
        have := hw; unfold Item.pcallMem at this; simpa using this
      obtain ⟨rfl, hwb⟩ := hw'
      have hlrb : bodyLocalRel B 0 body := by unfold Item.localRel at hlr; exact hlr
      have hwf := bodyPcallMem_wf body hwb
      have hl : a.st.cur.live = true := by rw [hr.live]; exact hl'
      have hi0 : Inv (push a.st CtxDef.none) := inv_step (.push CtxDef.none) hi hl
      have hi0' : Inv (push a'.st CtxDef.none) := inv_step (.push CtxDef.none) hi' hl'
      have gb := good_body { a with st := push a.st CtxDef.none } body hwf hi0 rfl
      have gb' := good_body { a' with st := push a'.st CtxDef.none } body hwf hi0' rfl
      have hr0 : RelS δ (push a.st CtxDef.none) (push a'.st CtxDef.none) := relF_child hr hi'.1
      have hB' : a'.st.cur.hard.Memory.toNat ≤ B := by have := hr.hmem; omega
      have hBc : (a.st.cur.child CtxDef.none).hard.Memory.toNat ≤ B :=
        Nat.le_trans (child_none_mem_le a.st.cur) hB
      have hBc' : (a'.st.cur.child CtxDef.none).hard.Memory.toNat ≤ B :=
        Nat.le_trans (child_none_mem_le a'.st.cur) hB'
      have mb' := memrun_body B 0 { a' with st := push a'.st CtxDef.none } body hwb hlrb hi0' rfl hs'
        (child_none_mem_ne hi'.1 hr.hmem0) hBc' (Nat.zero_le _)
      -- no release of the bodies reaches the callers (needed for the propagation and for the pop)
      have mb := memrun_body B 0 { a with st := push a.st CtxDef.none } body hwb hlrb hi0 rfl
        (by show a.st.cur.hardStopped = false; rw [hr.hs]; exact hs')
        (child_none_mem_ne hi.1 hr.hmem_ne) hBc (Nat.zero_le _)
      -- the body of the primed run is not killed: otherwise the bracket would propagate the termination
      have hnkb : NotKilled (runBody { a' with st := push a'.st CtxDef.none } body).2 := by
        intro res hk
        have := mb'.cause res hk
        subst this
        have hund : ∀ p' ps', (runBody { a' with st := push a'.st CtxDef.none } body).1.st.parents = p' :: ps' →
            p'.used.Memory = a'.st.cur.used.Memory := by
          intro q qs hq
          have := mb'.parents
          rw [hq] at this
          have : q :: qs = a'.st.cur :: a'.st.parents := this
          injection this with h1 _; rw [h1]
        exact hnk _ (limitless_bracket_propagates_mem a' CtxDef.none body hwf hi' hl' rfl hr.hmem0 hk hund).1
      have sb := sim_body δ B 0 { a with st := push a.st CtxDef.none } { a' with st := push a'.st CtxDef.none } body hwb
        hlrb hr0 hi0 hi0' rfl hs' hBc (Nat.zero_le _) hnkb
      cases hrb : runBody { a with st := push a.st CtxDef.none } body with
      | mk a1 ex =>
        cases hrb' : runBody { a' with st := push a'.st CtxDef.none } body with
        | mk a1' ex' =>
          rw [hrb, hrb'] at sb
          rw [hrb] at gb mb
          rw [hrb'] at gb' hnkb mb'
          obtain ⟨he, hrel⟩ := sb
          simp only at he; subst he
          obtain ⟨p1, ps1, hpe, _, _, _, _, _, _, _, hrun⟩ := call_unfold a CtxDef.none body a1 ex hrb gb hl
          obtain ⟨p1', ps1', hpe', _, _, _, _, _, _, _, hrun'⟩ := call_unfold a' CtxDef.none body a1' ex hrb' gb' hl'
          have e1 : p1 = a.st.cur := by
            have := mb.parents; rw [hpe] at this
            have : p1 :: ps1 = a.st.cur :: a.st.parents := this
            injection this
          have e1' : p1' = a'.st.cur := by
            have := mb'.parents; rw [hpe'] at this
            have : p1' :: ps1' = a'.st.cur :: a'.st.parents := this
            injection this
          subst e1 e1'
          rw [hrun, hrun']
          have hab := relS_afterBody ex hrel
          have hch : RelF δ (charged a.st.cur (afterBody ex a1.st).cur) (charged a'.st.cur (afterBody ex a1'.st).cur) :=
            relF_charged hr hab.used
          unfold afterPop
          cases ex with
          | killed res => exact absurd rfl (hnkb res)
          | done => exact ⟨rfl, hch⟩
          | error => exact ⟨rfl, hch⟩
          | crashed => exact ⟨rfl, hch⟩
end

end GoluaVerif.Proofs.Propagate
