/-
  Proofs.Pools — invariants of Model.Pools and the simulation against plain allocation.
-/
import GoluaVerif.Model.Pools
namespace GoluaVerif.Proofs.Pools
open GoluaVerif.Model.Pools

def zeroed (c : RegSet) : Prop := c.vals = List.replicate c.vals.length 0

/-- every set sitting in the pool is all zeros -/
def PoolZeroed (p : VPool) : Prop := ∀ c, some c ∈ p.slots → zeroed c

theorem findLen_spec (sz : Nat) (l : List (Option RegSet)) (k i : Nat) (h : findLen sz l k = some i) :
    k ≤ i ∧ i - k < l.length ∧ slotLen (l.getD (i - k) none) = sz := by
  induction l generalizing k with
  | nil => simp [findLen] at h
  | cons s rest ih =>
    unfold findLen at h
    split at h
    · injection h with h; subst h; simp_all
    · have := ih (k + 1) h
      obtain ⟨h1, h2, h3⟩ := this
      refine ⟨by omega, by simp; omega, ?_⟩
      have : i - k = (i - (k + 1)) + 1 := by omega
      rw [this]; simpa using h3

theorem mem_set_none {l : List (Option RegSet)} {i : Nat} {c : RegSet} (h : some c ∈ l.set i none) : some c ∈ l := by
  have := List.mem_or_eq_of_mem_set h
  rcases this with h | h
  · exact h
  · cases h

theorem get_zeroed (p : VPool) (sz : Nat) (hp : PoolZeroed p) :
    (p.get sz).2.vals = List.replicate sz 0 ∧ PoolZeroed (p.get sz).1 := by
  unfold VPool.get
  simp only
  split
  · rename_i i hi
    have hs := findLen_spec sz p.slots 0 i hi
    simp only [Nat.sub_zero] at hs
    constructor
    · have h3 := hs.2.2
      cases hc : p.slots.getD i none with
      | none =>
        rw [hc] at h3
        simp only [slotLen] at h3
        simp [← h3]
      | some c =>
        rw [hc] at h3
        simp only [slotLen] at h3
        have hmem : some c ∈ p.slots := by
          have hlt := hs.2.1
          have h4 : p.slots[i]? = some (some c) := by
            rw [List.getD_eq_getElem?_getD, List.getElem?_eq_getElem hlt] at hc
            rw [List.getElem?_eq_getElem hlt]
            simpa using hc
          exact List.mem_of_getElem? h4
        have hz := hp c hmem
        unfold zeroed at hz
        show c.vals = List.replicate sz 0
        rw [hz, h3]
    · intro c hc
      exact hp c (mem_set_none hc)
  · split
    · rename_i h0; subst h0; exact ⟨rfl, fun c hc => hp c hc⟩
    · exact ⟨rfl, fun c hc => hp c hc⟩

theorem release_zeroed (p : VPool) (c : RegSet) (hp : PoolZeroed p) : PoolZeroed (p.release c) := by
  unfold VPool.release
  split
  · intro d hd
    simp only at hd
    rcases List.mem_or_eq_of_mem_set hd with h | h
    · exact hp d h
    · injection h with h; subst h; simp [zeroed]
  · exact hp

theorem new_zeroed (size maxAge : Nat) : PoolZeroed (VPool.new size maxAge) := by
  intro c hc
  simp [VPool.new] at hc

/-! ### simulation of the pooled client by the plain-allocation client -/

def Rel (s : Sys) (r : Ref) : Prop :=
  s.held.map (fun bc => (bc.1, bc.2.vals)) = r.held ∧ PoolZeroed s.pool

theorem rel_getElem? {s : Sys} {r : Ref} (h : Rel s r) (i : Nat) :
    r.held[i]? = (s.held[i]?).map (fun bc => (bc.1, bc.2.vals)) := by
  rw [← h.1]; simp

theorem step_sim (s : Sys) (r : Ref) (op : Op) (h : Rel s r) :
    (s.step op).2 = (r.step op).2 ∧ Rel (s.step op).1 (r.step op).1 := by
  cases op with
  | get sz =>
    have hg := get_zeroed s.pool sz h.2
    simp only [Sys.step, Ref.step]
    refine ⟨by first | rfl | trivial, ?_, hg.2⟩
    simp [h.1, hg.1]
  | write hd idx v =>
    simp only [Sys.step, Ref.step]
    rw [rel_getElem? h hd]
    cases hs : s.held[hd]? with
    | none => simp [h]
    | some bc =>
      obtain ⟨b, c⟩ := bc
      cases b
      · simp [h]
      · simp only [Option.map_some]
        refine ⟨by first | rfl | trivial, ?_, h.2⟩
        simp [← h.1, List.map_set]
  | read hd idx =>
    simp only [Sys.step, Ref.step]
    rw [rel_getElem? h hd]
    cases hs : s.held[hd]? with
    | none => simp [h]
    | some bc =>
      obtain ⟨b, c⟩ := bc
      cases b <;> simp [h]
  | release hd =>
    simp only [Sys.step, Ref.step]
    rw [rel_getElem? h hd]
    cases hs : s.held[hd]? with
    | none => simp [h]
    | some bc =>
      obtain ⟨b, c⟩ := bc
      cases b
      · simp [h]
      · simp only [Option.map_some]
        refine ⟨by first | rfl | trivial, ?_, release_zeroed _ _ h.2⟩
        simp [← h.1, List.map_set]

theorem run_sim (ops : List Op) (s : Sys) (r : Ref) (h : Rel s r) :
    (s.run ops).2 = (r.run ops).2 := by
  induction ops generalizing s r with
  | nil => rfl
  | cons op ops ih =>
    have hs := step_sim s r op h
    simp only [Sys.run, Ref.run]
    rw [hs.1, ih _ _ hs.2]

/-! ### no aliasing between live register sets and the pool -/

def heldP (i : Nat) (bc : Bool × RegSet) : Bool := bc.1 && bc.2.id == i
def poolP (i : Nat) (o : Option RegSet) : Bool := match o with | some c => c.id == i | none => false

def heldCount (s : Sys) (i : Nat) : Nat := s.held.countP (heldP i)
def poolCount (p : VPool) (i : Nat) : Nat := p.slots.countP (poolP i)

/-- no register set (identity ≥ 1, i.e. non-empty) has two owners, and identities not yet
allocated are owned by nobody -/
def NoAlias (s : Sys) : Prop :=
  ∀ i, 1 ≤ i → heldCount s i + poolCount s.pool i ≤ 1 ∧ (s.pool.nextId ≤ i → heldCount s i + poolCount s.pool i = 0)

theorem boole_le_countP {α} (p : α → Bool) (l : List α) (k : Nat) (h : k < l.length) :
    (if p l[k] = true then 1 else 0) ≤ l.countP p := List.boole_getElem_le_countP (p := p) h

theorem noalias_init (size maxAge : Nat) : NoAlias (Sys.init size maxAge) := by
  intro i _
  have : (List.replicate size (none : Option RegSet)).countP (poolP i) = 0 := by
    rw [List.countP_eq_zero]; intro a ha; rw [List.mem_replicate] at ha; simp [ha.2, poolP]
  simp [heldCount, poolCount, Sys.init, VPool.new, this]


theorem heldCount_append (s : Sys) (p : VPool) (c : RegSet) (i : Nat) :
    heldCount { pool := p, held := s.held ++ [(true, c)] } i = heldCount s i + (if c.id == i then 1 else 0) := by
  simp [heldCount, heldP, List.countP_append, List.countP_cons]

theorem noalias_get (s : Sys) (sz : Nat) (h : NoAlias s) : NoAlias (s.step (.get sz)).1 := by
  intro i hi
  obtain ⟨h1, h2⟩ := h i hi
  simp only [Sys.step, VPool.get]
  split
  · rename_i k hk
    have hs := findLen_spec sz s.pool.slots 0 k hk
    simp only [Nat.sub_zero] at hs
    have hlt := hs.2.1
    rw [heldCount_append]
    simp only [poolCount]
    rw [List.countP_set hlt]
    have hb := boole_le_countP (poolP i) s.pool.slots k hlt
    have hgd : s.pool.slots.getD k none = s.pool.slots[k] := by
      rw [List.getD_eq_getElem?_getD, List.getElem?_eq_getElem hlt]; rfl
    rw [hgd]
    simp only [poolCount] at h1 h2
    cases hc : s.pool.slots[k] with
    | none =>
      simp only [hc, poolP] at hb ⊢
      have : ((0 : Nat) == i) = false := by simp; omega
      simp only [this, Bool.false_eq_true, if_false, Nat.sub_zero, Nat.add_zero]
      exact ⟨h1, h2⟩
    | some c =>
      simp only [hc, poolP] at hb ⊢
      simp only [Bool.false_eq_true, if_false, Nat.add_zero]
      by_cases hci : (c.id == i) = true
      · simp only [hci, if_true] at hb ⊢
        exact ⟨by omega, fun hn => by have := h2 hn; omega⟩
      · simp only [hci, Bool.false_eq_true, ↓reduceIte, Nat.sub_zero, Nat.add_zero]
        exact ⟨h1, h2⟩
  · split
    · rw [heldCount_append]
      have : ((0 : Nat) == i) = false := by simp; omega
      simp only [this, Bool.false_eq_true, if_false, Nat.add_zero]
      exact ⟨h1, h2⟩
    · rw [heldCount_append]
      simp only [poolCount] at h1 h2 ⊢
      by_cases hin : s.pool.nextId ≤ i
      · have h0 := h2 hin
        by_cases hci : (s.pool.nextId == i) = true
        · simp only [hci, if_true]
          have : s.pool.nextId = i := by simpa using hci
          exact ⟨by omega, fun hn => by omega⟩
        · simp only [hci, Bool.false_eq_true, ↓reduceIte, Nat.add_zero]
          exact ⟨by omega, fun _ => h0⟩
      · have : (s.pool.nextId == i) = false := by simp; omega
        simp only [this, Bool.false_eq_true, if_false, Nat.add_zero]
        exact ⟨h1, fun hn => by omega⟩

theorem getElem?_some_lt {α} {l : List α} {k : Nat} {a : α} (h : l[k]? = some a) : ∃ hlt : k < l.length, l[k] = a :=
  List.getElem?_eq_some_iff.mp h

theorem noalias_step (s : Sys) (op : Op) (h : NoAlias s) : NoAlias (s.step op).1 := by
  cases op with
  | get sz => exact noalias_get s sz h
  | read hd idx =>
    simp only [Sys.step]
    split <;> exact h
  | write hd idx v =>
    simp only [Sys.step]
    split
    · rename_i c hc
      obtain ⟨hlt, hget⟩ := getElem?_some_lt hc
      intro i hi
      have := h i hi
      simp only [heldCount, poolCount] at this ⊢
      rw [List.countP_set hlt, hget]
      have hb := boole_le_countP (heldP i) s.held hd hlt
      rw [hget] at hb
      simp only [heldP] at hb ⊢
      by_cases hci : (c.id == i) = true
      · simp only [hci, Bool.and_self, if_true] at hb ⊢
        exact ⟨by omega, fun hn => by have := this.2 hn; omega⟩
      · simp only [hci, Bool.and_false, Bool.false_eq_true, ↓reduceIte, Nat.sub_zero, Nat.add_zero]
        exact this
    · exact h
  | release hd =>
    simp only [Sys.step]
    split
    · rename_i c hc
      obtain ⟨hlt, hget⟩ := getElem?_some_lt hc
      intro i hi
      have := h i hi
      simp only [heldCount, poolCount] at this ⊢
      rw [List.countP_set hlt, hget]
      have hb := boole_le_countP (heldP i) s.held hd hlt
      rw [hget] at hb
      simp only [heldP, Bool.true_and, Bool.false_and, Bool.false_eq_true, ↓reduceIte, Nat.add_zero] at hb ⊢
      cases hfe : findExpired s.pool.gen s.pool.exps 0 with
      | none =>
        simp only [VPool.release, hfe]
        exact ⟨by omega, fun hn => by have := this.2 hn; omega⟩
      | some k =>
        simp only [VPool.release, hfe]
        by_cases hkl : k < s.pool.slots.length
        · rw [List.countP_set hkl]
          have hb2 := boole_le_countP (poolP i) s.pool.slots k hkl
          simp only [poolP]
          by_cases hci : (c.id == i) = true
          · simp only [hci, if_true] at hb ⊢
            exact ⟨by omega, fun hn => by have := this.2 hn; omega⟩
          · simp only [hci, Bool.false_eq_true, ↓reduceIte, Nat.sub_zero, Nat.add_zero] at hb ⊢
            exact ⟨by omega, fun hn => by have := this.2 hn; omega⟩
        · rw [List.set_eq_of_length_le (by omega)]
          exact ⟨by omega, fun hn => by have := this.2 hn; omega⟩
    · exact h

theorem noalias_run (ops : List Op) (s : Sys) (h : NoAlias s) : NoAlias (s.run ops).1 := by
  induction ops generalizing s with
  | nil => exact h
  | cons op ops ih =>
    simp only [Sys.run]
    exact ih _ (noalias_step s op h)

/-! ### continuation pools -/

def CInv (s : CSys) : Prop :=
  (s.live ++ s.pool.conts).Nodup ∧ ∀ c ∈ s.live ++ s.pool.conts, c < s.pool.nextId

theorem cinv_init (cap : Nat) : CInv (CSys.init cap) := by
  simp [CInv, CSys.init, CPool.new]

theorem cinv_step (s : CSys) (op : COp) (h : CInv s) : CInv (s.step op) := by
  obtain ⟨hnd, hlt⟩ := h
  cases op with
  | get =>
    simp only [CSys.step, CPool.get]
    cases hl : s.pool.conts with
    | nil =>
      simp only [hl, List.append_nil] at hnd hlt
      refine ⟨?_, ?_⟩
      · simp only [List.append_nil, List.nodup_cons]
        exact ⟨fun hm => Nat.lt_irrefl _ (hlt _ hm), hnd⟩
      · intro c hc
        simp only [List.append_nil, List.mem_cons] at hc
        rcases hc with rfl | hc
        · exact Nat.lt_succ_self _
        · exact Nat.lt_succ_of_lt (hlt c hc)
    | cons c rest =>
      rw [hl] at hnd hlt
      refine ⟨?_, ?_⟩
      · have hp : (s.live ++ c :: rest).Perm (c :: s.live ++ rest) := by
          simp
        exact (List.Perm.nodup_iff hp).mp hnd
      · intro d hd
        apply hlt
        simp only [List.cons_append, List.mem_cons, List.mem_append] at hd ⊢
        rcases hd with rfl | hd | hd
        · right; left; rfl
        · left; exact hd
        · right; right; exact hd
  | release c =>
    simp only [CSys.step]
    split
    · rename_i hmem
      simp only [CPool.release]
      split
      · refine ⟨?_, ?_⟩
        · exact (List.Sublist.append (List.erase_sublist ..) (List.Sublist.refl _)).nodup hnd
        · intro d hd
          apply hlt
          simp only [List.mem_append] at hd ⊢
          rcases hd with hd | hd
          · left; exact List.mem_of_mem_erase hd
          · right; exact hd
      · refine ⟨?_, ?_⟩
        · have hp : (s.live ++ s.pool.conts).Perm (s.live.erase c ++ c :: s.pool.conts) := by
            have h1 := (List.perm_cons_erase hmem).append_right s.pool.conts
            exact h1.trans (by simpa using (List.perm_middle (a := c) (l₁ := s.live.erase c) (l₂ := s.pool.conts)).symm)
          exact (List.Perm.nodup_iff hp).mp hnd
        · intro d hd
          apply hlt
          simp only [List.mem_append, List.mem_cons] at hd ⊢
          rcases hd with hd | rfl | hd
          · left; exact List.mem_of_mem_erase hd
          · left; exact hmem
          · right; exact hd
    · exact ⟨hnd, hlt⟩

def CSys.run (s : CSys) : List COp → CSys
  | [] => s
  | op :: ops => CSys.run (s.step op) ops

theorem cinv_run (ops : List COp) (s : CSys) (h : CInv s) : CInv (CSys.run s ops) := by
  induction ops generalizing s with
  | nil => exact h
  | cons op ops ih => exact ih _ (cinv_step s op h)

end GoluaVerif.Proofs.Pools
