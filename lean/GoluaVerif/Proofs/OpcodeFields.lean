/-
  Proofs.OpcodeFields — the REGENERATED constructors and getters of code/opcodes.go
  (Generated.Opcode) characterised in the bit-field algebra of Proofs.OpcodeBits:
  every constructor is an OR of `place`d fields, every getter is an `extract`.
  If a field position or width changes in opcodes.go these lemmas stop elaborating.
-/
import GoluaVerif.Generated.Opcode
import GoluaVerif.Proofs.OpcodeBits
namespace GoluaVerif.Proofs.OpcodeFields
open GoluaVerif.Generated.Opcode GoluaVerif.Proofs.OpcodeBits

/-! constants as fields -/
theorem c255 : 255#32 = BitVec.setWidth 32 (BitVec.allOnes 8) := by decide
theorem c1 : 1#32 = BitVec.setWidth 32 (BitVec.allOnes 1) := by decide
theorem c3 : 3#32 = BitVec.setWidth 32 (BitVec.allOnes 2) := by decide
theorem c15 : 15#32 = BitVec.setWidth 32 (BitVec.allOnes 4) := by decide
theorem pfx1 : 2147483648#32 = place 1 31 1#1 := by decide
theorem pfx2 : 1879048192#32 = place 4 28 7#4 := by decide
theorem pfx3 : 1610612736#32 = place 4 28 6#4 := by decide
theorem pfx4 : 1342177280#32 = place 4 28 5#4 := by decide
theorem pfx5 : 1073741824#32 = place 4 28 4#4 := by decide
theorem pfx6 : 805306368#32 = place 4 28 3#4 := by decide
theorem pfx7 : 536870912#32 = place 4 28 2#4 := by decide
theorem flag4a : 16777216#32 = place 1 24 1#1 := by decide
theorem maskPfx : 4026531840#32 = place 4 28 (BitVec.allOnes 4) := by decide
theorem maskHi16 : 4294901760#32 = place 16 16 (BitVec.allOnes 16) := by decide
theorem bit27 : 134217728#32 = place 1 27 (BitVec.allOnes 1) := by decide
theorem bit31 : 2147483648#32 = place 1 31 (BitVec.allOnes 1) := by decide
theorem bit24 : 16777216#32 = place 1 24 (BitVec.allOnes 1) := by decide

/-! register fields -/
theorem toA_eq (r : Reg) : Reg.toA r = place 8 16 r.idx ||| place 8 26 r.tp := by
  simp only [Reg.toA, Reg.Idx, Reg.RegType, Id.run, pure, BitVec.zeroExtend_eq_setWidth, fold_place]
theorem toB_eq (r : Reg) : Reg.toB r = place 8 8 r.idx ||| place 8 25 r.tp := by
  simp only [Reg.toB, Reg.Idx, Reg.RegType, Id.run, pure, BitVec.zeroExtend_eq_setWidth, fold_place]
theorem toC_eq (r : Reg) : Reg.toC r = place 8 0 r.idx ||| place 8 24 r.tp := by
  simp only [Reg.toC, Reg.Idx, Reg.RegType, Id.run, pure, BitVec.zeroExtend_eq_setWidth, fold_place]
  rw [place_zero_shift]

theorem getA_eq (c : BitVec 32) : Opcode.GetA c = ⟨BitVec.setWidth 8 (extract 1 26 c), extract 8 16 c⟩ := by
  simp only [Opcode.GetA, Id.run, pure, c255, c1, BitVec.truncate_eq_setWidth]
  rw [getfield 8 1 26 c (by omega) (by omega), getfield 8 8 16 c (by omega) (by omega)]
  simp
theorem getB_eq (c : BitVec 32) : Opcode.GetB c = ⟨BitVec.setWidth 8 (extract 1 25 c), extract 8 8 c⟩ := by
  simp only [Opcode.GetB, Id.run, pure, c255, c1, BitVec.truncate_eq_setWidth]
  rw [getfield 8 1 25 c (by omega) (by omega), getfield 8 8 8 c (by omega) (by omega)]
  simp
theorem getC_eq (c : BitVec 32) : Opcode.GetC c = ⟨BitVec.setWidth 8 (extract 1 24 c), extract 8 0 c⟩ := by
  simp only [Opcode.GetC, Id.run, pure, c255, c1, BitVec.truncate_eq_setWidth]
  rw [getfield 8 1 24 c (by omega) (by omega)]
  rw [← BitVec.ushiftRight_zero c, getfield 8 8 0 c (by omega) (by omega)]
  simp

theorem pfx4a : 1358954496#32 = place 4 28 5#4 ||| place 1 24 1#1 := by decide

/-! the other field encoders -/
theorem encodeX_eq (op : BitVec 8) : BinOp.encodeX op = place 8 27 op := by
  simp only [BinOp.encodeX, Id.run, pure, BitVec.zeroExtend_eq_setWidth, fold_place]
theorem encodeF_eq (f : BitVec 8) : Flag.encodeF f = place 8 27 f := by
  simp only [Flag.encodeF, Id.run, pure, BitVec.zeroExtend_eq_setWidth, fold_place]
theorem encodeY_eq (op : BitVec 8) : UnOpK16.encodeY op = place 8 24 op := by
  simp only [UnOpK16.encodeY, Id.run, pure, BitVec.zeroExtend_eq_setWidth, fold_place]
theorem encodeJ_eq (op : BitVec 8) : JumpOp.encodeJ op = place 8 24 op := by
  simp only [JumpOp.encodeJ, Id.run, pure, BitVec.zeroExtend_eq_setWidth, fold_place]
theorem encodeN_eq (l : BitVec 16) : Lit16.encodeN l = place 16 0 l := by
  simp only [Lit16.encodeN, Id.run, pure, BitVec.zeroExtend_eq_setWidth, place_zero_shift]
theorem kencodeN_eq (l : BitVec 16) : KIndex.encodeN l = place 16 0 l := by
  simp only [KIndex.encodeN, Id.run, pure, BitVec.zeroExtend_eq_setWidth, place_zero_shift]
theorem encodeD_eq (d : BitVec 16) : Offset.encodeD d = place 16 0 d := by
  simp only [Offset.encodeD, Id.run, pure, BitVec.zeroExtend_eq_setWidth, place_zero_shift]
theorem clencodeD_eq (d : BitVec 16) : ClStackOffset.encodeD d = place 16 0 d := by
  simp only [ClStackOffset.encodeD, Id.run, pure, BitVec.zeroExtend_eq_setWidth, place_zero_shift]
theorem encodeZ_eq (op : BitVec 8) : UnOp.encodeZ op = place 8 0 op := by
  simp only [UnOp.encodeZ, Id.run, pure, BitVec.zeroExtend_eq_setWidth, place_zero_shift]
theorem kencodeZ_eq (op : BitVec 8) : UnOpK.encodeZ op = place 8 0 op := by
  simp only [UnOpK.encodeZ, Id.run, pure, BitVec.zeroExtend_eq_setWidth, place_zero_shift]
theorem encodeL_eq (l : BitVec 8) : Lit8.encodeL l = place 8 8 l := by
  simp only [Lit8.encodeL, Id.run, pure, BitVec.zeroExtend_eq_setWidth, fold_place]
theorem encodeM_eq (i : BitVec 8) : Index8.encodeM i = place 8 0 i := by
  simp only [Index8.encodeM, Id.run, pure, BitVec.zeroExtend_eq_setWidth, place_zero_shift]

/-! the getters -/
theorem getX_eq (c : BitVec 32) : Opcode.GetX c = BitVec.setWidth 8 (extract 4 27 c) := by
  simp only [Opcode.GetX, Id.run, pure, c15, BitVec.truncate_eq_setWidth]
  rw [getfield 8 4 27 c (by omega) (by omega)]
theorem getYorJ_eq (c : BitVec 32) : Opcode.getYorJ c = BitVec.setWidth 8 (extract 2 24 c) := by
  simp only [Opcode.getYorJ, Id.run, pure, c3, BitVec.truncate_eq_setWidth]
  rw [getfield 8 2 24 c (by omega) (by omega)]
theorem getY_eq (c : BitVec 32) : Opcode.GetY c = BitVec.setWidth 8 (extract 2 24 c) := by
  simp only [Opcode.GetY, Id.run, pure, getYorJ_eq]
theorem getJ_eq (c : BitVec 32) : Opcode.GetJ c = BitVec.setWidth 8 (extract 2 24 c) := by
  simp only [Opcode.GetJ, Id.run, pure, getYorJ_eq]
theorem getF_eq (c : BitVec 32) : Opcode.GetF c = (extract 1 27 c != 0#1) := by
  simp only [Opcode.GetF, Id.run, pure, bit27]
  rw [and_field_mask 1 27 c (by omega), bne_place_zero 1 27 _ (by omega)]
theorem hasType1_eq (c : BitVec 32) : Opcode.HasType1 c = (extract 1 31 c != 0#1) := by
  simp only [Opcode.HasType1, Id.run, pure, bit31]
  rw [and_field_mask 1 31 c (by omega), bne_place_zero 1 31 _ (by omega)]
theorem hasType4a_eq (c : BitVec 32) : Opcode.HasType4a c = (extract 1 24 c != 0#1) := by
  simp only [Opcode.HasType4a, Id.run, pure, bit24]
  rw [and_field_mask 1 24 c (by omega), bne_place_zero 1 24 _ (by omega)]
theorem hasType0_eq (c : BitVec 32) : Opcode.HasType0 c = (extract 4 28 c == 0#4) := by
  simp only [Opcode.HasType0, Id.run, pure, maskPfx]
  rw [and_field_mask 4 28 c (by omega), beq_place_zero 4 28 _ (by omega)]
theorem typePfx_eq (c : BitVec 32) : Opcode.TypePfx c = place 4 28 (extract 4 28 c) := by
  simp only [Opcode.TypePfx, Id.run, pure, maskPfx]
  rw [and_field_mask 4 28 c (by omega)]
theorem getN_eq (c : BitVec 32) : Opcode.GetN c = extract 16 0 c := by
  simp only [Opcode.GetN, Id.run, pure, BitVec.truncate_eq_setWidth, extract_zero_shift]
theorem getKIndex_eq (c : BitVec 32) : Opcode.GetKIndex c = extract 16 0 c := by
  simp only [Opcode.GetKIndex, Id.run, pure, BitVec.truncate_eq_setWidth, extract_zero_shift]
theorem getOffset_eq (c : BitVec 32) : Opcode.GetOffset c = extract 16 0 c := by
  simp only [Opcode.GetOffset, Id.run, pure, BitVec.truncate_eq_setWidth, extract_zero_shift]
theorem getClStackOffset_eq (c : BitVec 32) : Opcode.GetClStackOffset c = extract 16 0 c := by
  simp only [Opcode.GetClStackOffset, Id.run, pure, BitVec.truncate_eq_setWidth, extract_zero_shift]
theorem getM_eq (c : BitVec 32) : Opcode.GetM c = extract 8 0 c := by
  simp only [Opcode.GetM, Id.run, pure, BitVec.truncate_eq_setWidth, extract_zero_shift]
theorem getL_eq (c : BitVec 32) : Opcode.GetL c = extract 8 8 c := by
  simp only [Opcode.GetL, Id.run, pure, BitVec.truncate_eq_setWidth, fold_extract]
theorem getUnOp_eq (c : BitVec 32) : Opcode.GetUnOp c = extract 8 0 c := by
  simp only [Opcode.GetUnOp, Id.run, pure, c255, BitVec.truncate_eq_setWidth]
  rw [← BitVec.ushiftRight_zero c, getfield 8 8 0 c (by omega) (by omega)]
  simp
theorem getUnOpK_eq (c : BitVec 32) : Opcode.GetUnOpK c = extract 8 0 c := by
  simp only [Opcode.GetUnOpK, Id.run, pure, c255, BitVec.truncate_eq_setWidth]
  rw [← BitVec.ushiftRight_zero c, getfield 8 8 0 c (by omega) (by omega)]
  simp

/-! the setters -/
theorem setOffset_eq (c : BitVec 32) (n : BitVec 16) :
    Opcode.SetOffset c n = place 16 16 (extract 16 16 c) ||| place 16 0 n := by
  simp only [Opcode.SetOffset, Id.run, pure, maskHi16, encodeD_eq]
  rw [and_field_mask 16 16 c (by omega)]
theorem setKIndex_eq (c : BitVec 32) (n : BitVec 16) :
    Opcode.SetKIndex c n = place 16 16 (extract 16 16 c) ||| place 16 0 n := by
  simp only [Opcode.SetKIndex, Id.run, pure, maskHi16, kencodeN_eq]
  rw [and_field_mask 16 16 c (by omega)]

/-- bit view of a 16-bit setter result: low half is the new field, high half is untouched -/
theorem set_low16_bits (c : BitVec 32) (n : BitVec 16) (i : Nat) :
    (place 16 16 (extract 16 16 c) ||| place 16 0 n).getLsbD i = if i < 16 then n.getLsbD i else c.getLsbD i := by
  simp only [BitVec.getLsbD_or, getLsbD_place, getLsbD_extract]
  by_cases h : i < 16
  · have : i < 32 := by omega
    simp [h, this]
  · by_cases h2 : i < 32
    · have h3 : i - 16 < 16 := by omega
      have h4 : 16 + (i - 16) = i := by omega
      have h5 : n.getLsbD i = false := BitVec.getLsbD_of_ge n i (by omega)
      simp [h, h2, h3, h4, h5]
    · have h5 : c.getLsbD i = false := BitVec.getLsbD_of_ge c i (by omega)
      simp [h, h2, h5]

/-- narrowing helpers used with `place_narrow` -/
theorem lt_two_of_le_one {x : BitVec 8} (h : x.toNat ≤ 1) : x.toNat < 2 ^ 1 := by omega
theorem narrow1_roundtrip : ∀ x : BitVec 8, x.toNat ≤ 1 → BitVec.setWidth 8 (BitVec.setWidth 1 x) = x := by decide
theorem narrow2_roundtrip : ∀ x : BitVec 8, x.toNat < 4 → BitVec.setWidth 8 (BitVec.setWidth 2 x) = x := by decide
theorem narrow4_roundtrip : ∀ x : BitVec 8, x.toNat < 16 → BitVec.setWidth 8 (BitVec.setWidth 4 x) = x := by decide
theorem narrow1_flag : ∀ x : BitVec 8, x.toNat ≤ 1 → (BitVec.setWidth 1 x != 0#1) = (x == 1#8) := by decide

end GoluaVerif.Proofs.OpcodeFields
