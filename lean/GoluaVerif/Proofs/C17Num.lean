/-
  Proofs.C17Num — decimal numerals: printing then reading gives the number back.
-/
import GoluaVerif.Proofs.C17Quote
namespace GoluaVerif.Spec.Quote
open GoluaVerif

theorem ofDec_append (l : Bytes) (d : UInt8) : ofDec (l ++ [d]) = ofDec l * 10 + (d.toNat - 48) := by
  simp [ofDec, List.foldl_append]

theorem toDecF_spec : ∀ (f n : Nat), n < 10 ^ f → 1 ≤ f →
    ofDec (toDecF f n) = n ∧ (toDecF f n).all isDigit = true ∧ toDecF f n ≠ [] := by
  intro f
  induction f with
  | zero => intro n _ h1; omega
  | succ f ih =>
    intro n hn _
    unfold toDecF
    by_cases h : n < 10
    · simp only [h, if_true]
      refine ⟨?_, by simp [isDigit_digit], by simp⟩
      simp [ofDec, dig_sub]; omega
    · simp only [h, if_false]
      have hf : 1 ≤ f := by
        cases f with
        | zero => simp at hn; omega
        | succ f => omega
      have hlt : n / 10 < 10 ^ f := by
        rw [Nat.pow_succ] at hn
        exact Nat.div_lt_of_lt_mul (by omega)
      obtain ⟨i1, i2, _⟩ := ih (n / 10) hlt hf
      refine ⟨?_, by simp [i2, isDigit_digit], by simp⟩
      rw [ofDec_append, i1, dig_sub]; omega

theorem toDec_spec (n : Nat) (h : n < 2 ^ 64) :
    ofDec (toDec n) = n ∧ (toDec n).all isDigit = true ∧ toDec n ≠ [] :=
  toDecF_spec 20 n (by omega) (by omega)

theorem splitAt_none (p : UInt8 → Bool) (s : Bytes) (h : ∀ c ∈ s, p c = false) : splitAt p s = (s, none) := by
  induction s with
  | nil => rfl
  | cons c cs ih =>
    have hc := h c (by simp)
    have := ih (fun x hx => h x (by simp [hx]))
    simp [splitAt, hc, this]

theorem digit_not (c : UInt8) (h : isDigit c = true) :
    c ≠ 101 ∧ c ≠ 69 ∧ c ≠ 120 ∧ c ≠ 88 ∧ c ≠ 45 ∧ c ≠ 40 := by
  simp only [isDigit, Bool.and_eq_true, decide_eq_true_eq] at h
  refine ⟨?_, ?_, ?_, ?_, ?_, ?_⟩ <;> (intro e; subst e; simp at h)

/-- reading an all-digit numeral below 2^63 gives that integer -/
theorem evalUnsigned_digits (s : Bytes) (hd : s.all isDigit = true) (hne : s ≠ []) (hlt : ofDec s < 2 ^ 63) :
    evalUnsigned s = some (.int (BitVec.ofNat 64 (ofDec s))) := by
  have hall : ∀ c ∈ s, isDigit c = true := by simpa [List.all_eq_true] using hd
  have hdec : evalUnsigned.decimal s = some (.int (BitVec.ofNat 64 (ofDec s))) := by
    unfold evalUnsigned.decimal
    rw [splitAt_none _ s (by
      intro c hc
      have := digit_not c (hall c hc)
      simp [this.1, this.2.1])]
    have : allDigits s = true := by
      cases s with
      | nil => exact absurd rfl hne
      | cons a t => simp [allDigits, hd]
    simp [this, hlt]
  unfold evalUnsigned
  split
  · rename_i _ xc tl
    have hx := digit_not xc (hall xc (by simp))
    simp [hx.2.2.1, hx.2.2.2.1, hdec]
  · exact hdec

theorem toInt_cases' (v : I64) :
    (v.toNat < 2 ^ 63 ∧ v.toInt = (v.toNat : Int)) ∨ (2 ^ 63 ≤ v.toNat ∧ v.toInt = (v.toNat : Int) - 2 ^ 64) := by
  have h := BitVec.toInt_eq_toNat_cond v
  have hl := v.isLt
  by_cases c : 2 * v.toNat < 2 ^ 64
  · left; simp [c] at h; omega
  · right; simp [c] at h; omega

/-- a numeral made of digits only, read by `evalNumLit` -/
theorem evalNumLit_digits (s : Bytes) (hd : s.all isDigit = true) (hne : s ≠ []) :
    evalNumLit s = evalUnsigned s := by
  cases s with
  | nil => exact absurd rfl hne
  | cons a t =>
    have ha : isDigit a = true := by simp [List.all_cons] at hd; exact hd.1
    have hx := digit_not a ha
    unfold evalNumLit
    have : ¬ (a :: t = [40, 48, 47, 48, 41]) := by
      intro e; injection e with e1 _; exact hx.2.2.2.2.2 e1
    simp only [this, if_false]
    split
    · rename_i r heq
      injection heq with e1 _
      exact absurd e1.symm (by intro e; exact hx.2.2.2.2.1 e.symm)
    · rfl

theorem evalNumLit_neg_digits (s : Bytes) :
    evalNumLit (45 :: s) = (evalUnsigned s).map NumVal.neg := by
  unfold evalNumLit
  have : ¬ ((45 : UInt8) :: s = [40, 48, 47, 48, 41]) := by
    intro e; injection e with e1 _; exact absurd e1 (by decide)
  simp only [this, if_false]

theorem neg_ofNat_natAbs (v : I64) (h : v.toInt < 0) : -(BitVec.ofNat 64 v.toInt.natAbs) = v := by
  apply BitVec.eq_of_toNat_eq
  have hl := v.isLt
  rcases toInt_cases' v with ⟨hc, ht⟩ | ⟨hc, ht⟩
  · omega
  · have : v.toInt.natAbs = 2 ^ 64 - v.toNat := by omega
    rw [this]
    simp only [BitVec.toNat_neg, BitVec.toNat_ofNat]
    omega

/-- golua's `%q` / `tostring` text of an integer other than mininteger reads back (Lua lexer + unary minus) as that integer -/
theorem evalNumLit_showInt (v : I64) (hmin : v ≠ I64.minInt) : evalNumLit (showInt v) = some (.int v) := by
  have hl := v.isLt
  unfold showInt
  rcases toInt_cases' v with ⟨hc, ht⟩ | ⟨hc, ht⟩
  · have : ¬ v.toInt < 0 := by omega
    simp only [this, if_false]
    obtain ⟨h1, h2, h3⟩ := toDec_spec v.toNat hl
    rw [evalNumLit_digits _ h2 h3, evalUnsigned_digits _ h2 h3 (by rw [h1]; exact hc), h1]
    congr 2
    apply BitVec.eq_of_toNat_eq; simp
  · have hneg : v.toInt < 0 := by omega
    simp only [hneg, if_true]
    have hne : v.toNat ≠ 2 ^ 63 := by
      intro e; apply hmin; apply BitVec.eq_of_toNat_eq; rw [e]; rfl
    have ha : v.toInt.natAbs < 2 ^ 63 := by omega
    obtain ⟨h1, h2, h3⟩ := toDec_spec v.toInt.natAbs (by omega)
    rw [evalNumLit_neg_digits, evalUnsigned_digits _ h2 h3 (by rw [h1]; exact ha), h1]
    simp only [Option.map, NumVal.neg]
    rw [neg_ofNat_natAbs v hneg]

/-- **`%q` round trip for integers (Lua 5.4 definition), every integer including mininteger.** -/
theorem evalNumLit_quoteInt (v : I64) : evalNumLit (quoteInt v) = some (.int v) := by
  unfold quoteInt
  by_cases h : v = I64.minInt
  · subst h; decide
  · simp only [h, if_false]; exact evalNumLit_showInt v h

/-- `tonumber(tostring(n)) = n` for every integer, with the integer subtype preserved -/
theorem strToNumber_showInt (v : I64) : strToNumber (showInt v) = some (.int v) := by
  have hl := v.isLt
  unfold showInt
  rcases toInt_cases' v with ⟨hc, ht⟩ | ⟨hc, ht⟩
  · have : ¬ v.toInt < 0 := by omega
    simp only [this, if_false]
    obtain ⟨h1, h2, h3⟩ := toDec_spec v.toNat hl
    obtain ⟨a, t, hat⟩ : ∃ a t, toDec v.toNat = a :: t := by
      cases hh : toDec v.toNat with
      | nil => exact absurd hh h3
      | cons a t => exact ⟨a, t, rfl⟩
    have ha : isDigit a = true := by rw [hat] at h2; simp [List.all_cons] at h2; exact h2.1
    have hx := digit_not a ha
    have had : allDigits (toDec v.toNat) = true := by rw [hat] at h2 ⊢; simp [allDigits, h2]
    unfold strToNumber
    split
    · rename_i d heq
      rw [hat] at heq; injection heq with e1 _; exact absurd e1 hx.2.2.2.2.1
    · simp only [had, if_true, h1, hc]
      congr 2
      apply BitVec.eq_of_toNat_eq; simp
  · have hneg : v.toInt < 0 := by omega
    simp only [hneg, if_true]
    have ha : v.toInt.natAbs ≤ 2 ^ 63 := by omega
    obtain ⟨h1, h2, h3⟩ := toDec_spec v.toInt.natAbs (by omega)
    have had : allDigits (toDec v.toInt.natAbs) = true := by
      cases hh : toDec v.toInt.natAbs with
      | nil => exact absurd hh h3
      | cons a t => rw [hh] at h2; simp [allDigits, h2]
    simp only [strToNumber, had, if_true, h1, ha]
    congr 2
    have : (-(v.toInt.natAbs : Int)) = v.toInt := by omega
    rw [this]; exact BitVec.ofInt_toInt

end GoluaVerif.Spec.Quote
