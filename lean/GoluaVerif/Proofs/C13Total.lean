/-
  Proofs.C13Total — the reader is total on every byte string: with the fuel `unmarshal` supplies it never runs
  out of fuel, and every successful read leaves a suffix no longer than what it was given.
-/
import GoluaVerif.Model.Marshal
namespace GoluaVerif.Model.Marshal
open GoluaVerif

theorem takeN_len {n : Nat} {bs w r : Bytes} (h : takeN n bs = .ok (w, r)) : r.length ≤ bs.length := by
  unfold takeN at h
  split at h
  · exact absurd h (by simp)
  · simp only [Except.ok.injEq, Prod.mk.injEq] at h
    rw [← h.2]; simp

theorem takeN_nofuel (n : Nat) (bs : Bytes) : takeN n bs ≠ .error .fuel := by
  unfold takeN; split <;> simp

theorem getU_len {k : Nat} {bs : Bytes} {u : Nat} {r : Bytes} (h : getU k bs = .ok (u, r)) : r.length ≤ bs.length := by
  unfold getU at h
  split at h
  · exact absurd h (by simp)
  · rename_i w r' hw
    simp only [Except.ok.injEq, Prod.mk.injEq] at h
    rw [← h.2]; exact takeN_len hw

theorem getU_nofuel (k : Nat) (bs : Bytes) : getU k bs ≠ .error .fuel := by
  unfold getU
  split
  · rename_i e he
    intro h; injection h with h; subst h
    exact takeN_nofuel _ _ he
  · simp

theorem getSize_len {e : Nat} {bs : Bytes} {u : Nat} {r : Bytes} (h : getSize e bs = .ok (u, r)) : r.length ≤ bs.length := by
  unfold getSize at h
  split at h
  · exact absurd h (by simp)
  · rename_i u' r' hu
    split at h
    · exact absurd h (by simp)
    · split at h
      · exact absurd h (by simp)
      · simp only [Except.ok.injEq, Prod.mk.injEq] at h
        rw [← h.2]; exact getU_len hu

theorem getSize_nofuel (e : Nat) (bs : Bytes) : getSize e bs ≠ .error .fuel := by
  unfold getSize
  split
  · rename_i e' he
    intro h; injection h with h; subst h
    exact getU_nofuel _ _ he
  · split
    · simp
    · split <;> simp

theorem getStr_len {bs s r : Bytes} (h : getStr bs = .ok (s, r)) : r.length ≤ bs.length := by
  unfold getStr at h
  split at h
  · exact absurd h (by simp)
  · rename_i n r' hn
    exact Nat.le_trans (takeN_len h) (getSize_len hn)

theorem getStr_nofuel (bs : Bytes) : getStr bs ≠ .error .fuel := by
  unfold getStr
  split
  · rename_i e' he
    intro h; injection h with h; subst h
    exact getSize_nofuel _ _ he
  · exact takeN_nofuel _ _

theorem getWords_len : ∀ (n : Nat) (bs : Bytes) (ws : List (BitVec 32)) (r : Bytes),
    getWords n bs = .ok (ws, r) → r.length ≤ bs.length := by
  intro n
  induction n with
  | zero => intro bs ws r h; simp [getWords] at h; rw [h.2]; exact Nat.le_refl _
  | succ n ih =>
    intro bs ws r h
    unfold getWords at h
    split at h
    · exact absurd h (by simp)
    · rename_i w r1 h1
      split at h
      · exact absurd h (by simp)
      · rename_i ws' r2 h2
        simp only [Except.ok.injEq, Prod.mk.injEq] at h
        rw [← h.2]
        exact Nat.le_trans (ih _ _ _ h2) (getU_len h1)

theorem getWords_nofuel : ∀ (n : Nat) (bs : Bytes), getWords n bs ≠ .error .fuel := by
  intro n
  induction n with
  | zero => intro bs; simp [getWords]
  | succ n ih =>
    intro bs
    unfold getWords
    split
    · rename_i e he
      intro h; injection h with h; subst h
      exact getU_nofuel _ _ he
    · split
      · rename_i e he
        intro h; injection h with h; subst h
        exact ih _ he
      · simp

theorem getStrs_len : ∀ (n : Nat) (bs : Bytes) (ss : List Bytes) (r : Bytes),
    getStrs n bs = .ok (ss, r) → r.length ≤ bs.length := by
  intro n
  induction n with
  | zero => intro bs ss r h; simp [getStrs] at h; rw [h.2]; exact Nat.le_refl _
  | succ n ih =>
    intro bs ss r h
    unfold getStrs at h
    split at h
    · exact absurd h (by simp)
    · rename_i s r1 h1
      split at h
      · exact absurd h (by simp)
      · rename_i ss' r2 h2
        simp only [Except.ok.injEq, Prod.mk.injEq] at h
        rw [← h.2]
        exact Nat.le_trans (ih _ _ _ h2) (getStr_len h1)

theorem getStrs_nofuel : ∀ (n : Nat) (bs : Bytes), getStrs n bs ≠ .error .fuel := by
  intro n
  induction n with
  | zero => intro bs; simp [getStrs]
  | succ n ih =>
    intro bs
    unfold getStrs
    split
    · rename_i e he
      intro h; injection h with h; subst h
      exact getStr_nofuel _ he
    · split
      · rename_i e he
        intro h; injection h with h; subst h
        exact ih _ he
      · simp

/-- a successful `getConst` consumes at least the tag byte; `getConsts` never gives back more than it got -/
theorem get_len : ∀ fuel : Nat,
    (∀ (bs : Bytes) (c : Const) (r : Bytes), getConst fuel bs = .ok (c, r) → r.length < bs.length) ∧
    (∀ (n : Nat) (bs : Bytes) (ks : List Const) (r : Bytes), getConsts fuel n bs = .ok (ks, r) → r.length ≤ bs.length) := by
  intro fuel
  induction fuel with
  | zero =>
    constructor
    · intro bs c r h; simp [getConst] at h
    · intro n bs ks r h; simp [getConsts] at h
  | succ fuel ih =>
    constructor
    · intro bs c r h
      cases bs with
      | nil => simp [getConst] at h
      | cons tag bs' =>
        unfold getConst at h
        simp only [List.length_cons]
        split at h
        · split at h
          · exact absurd h (by simp)
          · rename_i u r' hu
            simp only [Except.ok.injEq, Prod.mk.injEq] at h
            rw [← h.2]; have := getU_len hu; omega
        split at h
        · split at h
          · exact absurd h (by simp)
          · rename_i u r' hu
            simp only [Except.ok.injEq, Prod.mk.injEq] at h
            rw [← h.2]; have := getU_len hu; omega
        split at h
        · split at h
          · exact absurd h (by simp)
          · rename_i u r' hu
            simp only [Except.ok.injEq, Prod.mk.injEq] at h
            rw [← h.2]; have := getStr_len hu; omega
        split at h
        rotate_left
        · exact absurd h (by simp)
        split at h
        · exact absurd h (by simp)
        rename_i src r1 h1
        have l1 := getStr_len h1
        split at h
        · exact absurd h (by simp)
        rename_i name r2 h2
        have l2 := getStr_len h2
        split at h
        · exact absurd h (by simp)
        rename_i nops r3 h3
        have l3 := getSize_len h3
        split at h
        · exact absurd h (by simp)
        rename_i ops r4 h4
        have l4 := getWords_len _ _ _ _ h4
        split at h
        · exact absurd h (by simp)
        rename_i nlines r5 h5
        have l5 := getSize_len h5
        split at h
        · exact absurd h (by simp)
        rename_i lines r6 h6
        have l6 := getWords_len _ _ _ _ h6
        split at h
        · exact absurd h (by simp)
        rename_i nks r7 h7
        have l7 := getSize_len h7
        split at h
        · exact absurd h (by simp)
        rename_i ks r8 h8
        have l8 := ih.2 _ _ _ _ h8
        split at h
        · exact absurd h (by simp)
        rename_i uv r9 h9
        have l9 := getU_len h9
        split at h
        · exact absurd h (by simp)
        rename_i rc r10 h10
        have l10 := getU_len h10
        split at h
        · exact absurd h (by simp)
        rename_i cc r11 h11
        have l11 := getU_len h11
        split at h
        · exact absurd h (by simp)
        split at h
        · exact absurd h (by simp)
        rename_i nups r12 h12
        have l12 := getSize_len h12
        split at h
        · exact absurd h (by simp)
        rename_i ups r13 h13
        have l13 := getStrs_len _ _ _ _ h13
        simp only [Except.ok.injEq, Prod.mk.injEq] at h
        rw [← h.2]
        omega
    · intro n bs ks r h
      cases n with
      | zero => simp [getConsts] at h; rw [h.2]; exact Nat.le_refl _
      | succ n =>
        unfold getConsts at h
        split at h
        · exact absurd h (by simp)
        rename_i k r1 h1
        split at h
        · exact absurd h (by simp)
        rename_i ks' r2 h2
        simp only [Except.ok.injEq, Prod.mk.injEq] at h
        rw [← h.2]
        have := ih.1 _ _ _ h1
        have := ih.2 _ _ _ _ h2
        omega

/-- with fuel 2·|input|+1 (resp. +2) the reader never runs out of fuel, whatever the input -/
theorem get_nofuel : ∀ fuel : Nat,
    (∀ bs : Bytes, 2 * bs.length + 1 ≤ fuel → getConst fuel bs ≠ .error .fuel) ∧
    (∀ (n : Nat) (bs : Bytes), 2 * bs.length + 2 ≤ fuel → getConsts fuel n bs ≠ .error .fuel) := by
  intro fuel
  induction fuel with
  | zero =>
    constructor
    · intro bs h; omega
    · intro n bs h; omega
  | succ fuel ih =>
    constructor
    · intro bs hf h
      cases bs with
      | nil => simp [getConst] at h
      | cons tag bs' =>
        simp only [List.length_cons] at hf
        unfold getConst at h
        split at h
        · split at h
          · rename_i e he
            injection h with h; subst h
            exact getU_nofuel _ _ he
          · exact absurd h (by simp)
        split at h
        · split at h
          · rename_i e he
            injection h with h; subst h
            exact getU_nofuel _ _ he
          · exact absurd h (by simp)
        split at h
        · split at h
          · rename_i e he
            injection h with h; subst h
            exact getStr_nofuel _ he
          · exact absurd h (by simp)
        split at h
        rotate_left
        · exact absurd h (by simp)
        split at h
        · rename_i e he
          injection h with h; subst h
          exact getStr_nofuel _ he
        rename_i src r1 h1
        have l1 := getStr_len h1
        split at h
        · rename_i e he
          injection h with h; subst h
          exact getStr_nofuel _ he
        rename_i name r2 h2
        have l2 := getStr_len h2
        split at h
        · rename_i e he
          injection h with h; subst h
          exact getSize_nofuel _ _ he
        rename_i nops r3 h3
        have l3 := getSize_len h3
        split at h
        · rename_i e he
          injection h with h; subst h
          exact getWords_nofuel _ _ he
        rename_i ops r4 h4
        have l4 := getWords_len _ _ _ _ h4
        split at h
        · rename_i e he
          injection h with h; subst h
          exact getSize_nofuel _ _ he
        rename_i nlines r5 h5
        have l5 := getSize_len h5
        split at h
        · rename_i e he
          injection h with h; subst h
          exact getWords_nofuel _ _ he
        rename_i lines r6 h6
        have l6 := getWords_len _ _ _ _ h6
        split at h
        · rename_i e he
          injection h with h; subst h
          exact getSize_nofuel _ _ he
        rename_i nks r7 h7
        have l7 := getSize_len h7
        split at h
        · rename_i e he
          injection h with h; subst h
          exact ih.2 _ _ (by omega) he
        rename_i ks r8 h8
        have l8 := (get_len fuel).2 _ _ _ _ h8
        split at h
        · rename_i e he
          injection h with h; subst h
          exact getU_nofuel _ _ he
        rename_i uv r9 h9
        have l9 := getU_len h9
        split at h
        · rename_i e he
          injection h with h; subst h
          exact getU_nofuel _ _ he
        rename_i rc r10 h10
        have l10 := getU_len h10
        split at h
        · rename_i e he
          injection h with h; subst h
          exact getU_nofuel _ _ he
        rename_i cc r11 h11
        have l11 := getU_len h11
        split at h
        · exact absurd h (by simp)
        split at h
        · rename_i e he
          injection h with h; subst h
          exact getSize_nofuel _ _ he
        rename_i nups r12 h12
        have l12 := getSize_len h12
        split at h
        · rename_i e he
          injection h with h; subst h
          exact getStrs_nofuel _ _ he
        rename_i ups r13 h13
        have l13 := getStrs_len _ _ _ _ h13
        exact absurd h (by simp)
    · intro n bs hf h
      cases n with
      | zero => simp [getConsts] at h
      | succ n =>
        unfold getConsts at h
        split at h
        · rename_i e he
          injection h with h; subst h
          exact ih.1 _ (by omega) he
        rename_i k r1 h1
        have l1 := (get_len fuel).1 _ _ _ h1
        split at h
        · rename_i e he
          injection h with h; subst h
          exact ih.2 _ _ (by omega) he
        exact absurd h (by simp)

/-- **`UnmarshalConst` is total**: on every byte string the reader returns a constant and the unread rest, or one
    of the errors `eof`, `badType`, `badPrefix`, `badSize` — the fuel it is given always suffices -/
theorem unmarshal_nofuel (bs : Bytes) : unmarshal bs ≠ .error .fuel := by
  unfold unmarshal
  split
  · exact (get_nofuel _).1 _ (by omega)
  · simp

/-- what is left after a successful read is shorter than the input -/
theorem unmarshal_consumes (bs : Bytes) (c : Const) (r : Bytes) (h : unmarshal bs = .ok (c, r)) :
    r.length < bs.length := by
  unfold unmarshal at h
  split at h
  · have := (get_len _).1 _ _ _ h
    simp only [List.length_cons]; omega
  · exact absurd h (by simp)

end GoluaVerif.Model.Marshal
