/-
  Proofs.C13Canon — the reader only accepts what the writer produces: a successful read determines the bytes read.
-/
import GoluaVerif.Proofs.C13Marshal
import GoluaVerif.Proofs.C13Total
namespace GoluaVerif.Model.Marshal
open GoluaVerif
open GoluaVerif.Model.Pack (leBytes ofLE leBytes_length ofLE_leBytes)

theorem ofLE_lt (w : Bytes) : ofLE w < 256 ^ w.length := by
  induction w with
  | nil => simp [ofLE]
  | cons b t ih =>
    have hb := b.toNat_lt
    simp only [ofLE, List.length_cons, Nat.pow_succ]
    omega

theorem leBytes_ofLE (w : Bytes) : leBytes w.length (ofLE w) = w := by
  induction w with
  | nil => rfl
  | cons b t ih =>
    have hb := b.toNat_lt
    simp only [List.length_cons, leBytes, ofLE]
    have h1 : (b.toNat + 256 * ofLE t) % 256 = b.toNat := by omega
    have h2 : (b.toNat + 256 * ofLE t) / 256 = ofLE t := by omega
    rw [h1, h2, ih]
    simp

theorem takeN_inv {n : Nat} {bs w r : Bytes} (h : takeN n bs = .ok (w, r)) : bs = w ++ r ∧ w.length = n := by
  unfold takeN at h
  split at h
  · exact absurd h (by simp)
  · rename_i hl
    simp only [Except.ok.injEq, Prod.mk.injEq] at h
    rw [← h.1, ← h.2]
    exact ⟨(List.take_append_drop n bs).symm, by simp; omega⟩

theorem getU_inv {k : Nat} {bs : Bytes} {u : Nat} {r : Bytes} (h : getU k bs = .ok (u, r)) :
    bs = leBytes k u ++ r ∧ u < 256 ^ k := by
  unfold getU at h
  split at h
  · exact absurd h (by simp)
  · rename_i w r' hw
    simp only [Except.ok.injEq, Prod.mk.injEq] at h
    obtain ⟨e1, e2⟩ := takeN_inv hw
    rw [← h.1, ← h.2, ← e2]
    exact ⟨by rw [leBytes_ofLE]; exact e1, ofLE_lt w⟩

/-- **every count that reaches `make` is bounded by the rest of the input**: `item` bytes per element -/
theorem getSize_inv {item : Nat} {bs : Bytes} {n : Nat} {r : Bytes} (h : getSize item bs = .ok (n, r)) :
    bs = leBytes 8 n ++ r ∧ n < 2 ^ 63 ∧ n ≤ r.length / item := by
  unfold getSize at h
  split at h
  · exact absurd h (by simp)
  · rename_i u r' hu
    split at h
    · exact absurd h (by simp)
    · split at h
      · exact absurd h (by simp)
      · simp only [Except.ok.injEq, Prod.mk.injEq] at h
        obtain ⟨e1, _⟩ := getU_inv hu
        rw [← h.1, ← h.2]
        exact ⟨e1, by omega, by omega⟩

theorem getStr_inv {bs s r : Bytes} (h : getStr bs = .ok (s, r)) : bs = putStr s ++ r ∧ s.length < 2 ^ 63 := by
  unfold getStr at h
  split at h
  · exact absurd h (by simp)
  · rename_i n r' hn
    obtain ⟨e1, e2, _⟩ := getSize_inv hn
    obtain ⟨e3, e4⟩ := takeN_inv h
    rw [e1, e3, putStr, e4, List.append_assoc]
    exact ⟨rfl, by omega⟩

theorem getWords_inv : ∀ (n : Nat) (bs : Bytes) (ws : List (BitVec 32)) (r : Bytes),
    getWords n bs = .ok (ws, r) → bs = putWords ws ++ r ∧ ws.length = n := by
  intro n
  induction n with
  | zero => intro bs ws r h; simp [getWords] at h; rw [h.1, h.2]; simp [putWords]
  | succ n ih =>
    intro bs ws r h
    unfold getWords at h
    split at h
    · exact absurd h (by simp)
    · rename_i w r1 h1
      split at h
      · exact absurd h (by simp)
      · rename_i ws' r2 h2
        simp only [Except.ok.injEq, Prod.mk.injEq] at h
        obtain ⟨e1, e2⟩ := getU_inv h1
        obtain ⟨e3, e4⟩ := ih _ _ _ h2
        rw [← h.1, ← h.2, e1, e3]
        have : (BitVec.ofNat 32 w).toNat = w := by simp; omega
        simp [putWords, this, e4]

theorem getStrs_inv : ∀ (n : Nat) (bs : Bytes) (ss : List Bytes) (r : Bytes),
    getStrs n bs = .ok (ss, r) → bs = putStrs ss ++ r ∧ ss.length = n ∧ ∀ u ∈ ss, okLen u.length 1 := by
  intro n
  induction n with
  | zero => intro bs ss r h; simp [getStrs] at h; rw [h.1, h.2]; simp [putStrs]
  | succ n ih =>
    intro bs ss r h
    unfold getStrs at h
    split at h
    · exact absurd h (by simp)
    · rename_i s r1 h1
      split at h
      · exact absurd h (by simp)
      · rename_i ss' r2 h2
        simp only [Except.ok.injEq, Prod.mk.injEq] at h
        obtain ⟨e1, e2⟩ := getStr_inv h1
        obtain ⟨e3, e4, e5⟩ := ih _ _ _ h2
        rw [← h.1, ← h.2, e1, e3]
        refine ⟨by simp [putStrs], by simp [e4], ?_⟩
        intro u hu
        simp only [List.mem_cons] at hu
        rcases hu with rfl | hu
        · exact e2
        · exact e5 u hu

theorem ofNat64_toNat (u : Nat) (h : u < 256 ^ 8) : (BitVec.ofNat 64 u).toNat = u := by simp; omega
theorem ofNat16_toNat (u : Nat) (h : u < 2 ^ 15) : (BitVec.ofNat 16 u).toNat = u := by simp; omega

/-- a successful read determines the bytes it consumed, and what it returns is well formed -/
theorem get_canon : ∀ fuel : Nat,
    (∀ (bs : Bytes) (c : Const) (r : Bytes), getConst fuel bs = .ok (c, r) → bs = putConst c ++ r ∧ wf c) ∧
    (∀ (n : Nat) (bs : Bytes) (ks : List Const) (r : Bytes), getConsts fuel n bs = .ok (ks, r) →
      bs = putConsts ks ++ r ∧ wfs ks ∧ ks.length = n) := by
  intro fuel
  induction fuel with
  | zero =>
    constructor
    · intro bs c r h; simp [getConst] at h
    · intro n bs ks r h; simp [getConsts] at h
  | succ fuel ih =>
    constructor
    · intro bs c r h
      cases bs with
      | nil => simp [getConst] at h
      | cons tag bs' =>
        unfold getConst at h
        split at h
        · rename_i ht
          split at h
          · exact absurd h (by simp)
          · rename_i u r' hu
            simp only [Except.ok.injEq, Prod.mk.injEq] at h
            obtain ⟨e1, e2⟩ := getU_inv hu
            rw [← h.1, ← h.2, ht, e1]
            simp [putConst, ofNat64_toNat u e2, wf]
        split at h
        · rename_i ht
          split at h
          · exact absurd h (by simp)
          · rename_i u r' hu
            simp only [Except.ok.injEq, Prod.mk.injEq] at h
            obtain ⟨e1, e2⟩ := getU_inv hu
            rw [← h.1, ← h.2, ht, e1]
            simp [putConst, ofNat64_toNat u e2, wf]
        split at h
        · rename_i ht
          split at h
          · exact absurd h (by simp)
          · rename_i u r' hu
            simp only [Except.ok.injEq, Prod.mk.injEq] at h
            obtain ⟨e1, e2⟩ := getStr_inv hu
            rw [← h.1, ← h.2, ht, e1]
            simp [putConst, wf, okLen, e2]
        split at h
        rotate_left
        · exact absurd h (by simp)
        rename_i ht
        split at h
        · exact absurd h (by simp)
        rename_i src r1 h1
        split at h
        · exact absurd h (by simp)
        rename_i name r2 h2
        split at h
        · exact absurd h (by simp)
        rename_i nops r3 h3
        split at h
        · exact absurd h (by simp)
        rename_i ops r4 h4
        split at h
        · exact absurd h (by simp)
        rename_i nlines r5 h5
        split at h
        · exact absurd h (by simp)
        rename_i lines r6 h6
        split at h
        · exact absurd h (by simp)
        rename_i nks r7 h7
        split at h
        · exact absurd h (by simp)
        rename_i ks r8 h8
        split at h
        · exact absurd h (by simp)
        rename_i uv r9 h9
        split at h
        · exact absurd h (by simp)
        rename_i rc r10 h10
        split at h
        · exact absurd h (by simp)
        rename_i cc r11 h11
        split at h
        · exact absurd h (by simp)
        rename_i hneg
        split at h
        · exact absurd h (by simp)
        rename_i nups r12 h12
        split at h
        · exact absurd h (by simp)
        rename_i ups r13 h13
        simp only [Except.ok.injEq, Prod.mk.injEq] at h
        obtain ⟨a1, b1⟩ := getStr_inv h1
        obtain ⟨a2, b2⟩ := getStr_inv h2
        obtain ⟨a3, b3, _⟩ := getSize_inv h3
        obtain ⟨a4, b4⟩ := getWords_inv _ _ _ _ h4
        obtain ⟨a5, b5, _⟩ := getSize_inv h5
        obtain ⟨a6, b6⟩ := getWords_inv _ _ _ _ h6
        obtain ⟨a7, b7, _⟩ := getSize_inv h7
        obtain ⟨a8, b8, c8⟩ := ih.2 _ _ _ _ h8
        obtain ⟨a9, b9⟩ := getU_inv h9
        obtain ⟨a10, b10⟩ := getU_inv h10
        obtain ⟨a11, b11⟩ := getU_inv h11
        obtain ⟨a12, b12, _⟩ := getSize_inv h12
        obtain ⟨a13, b13, c13⟩ := getStrs_inv _ _ _ _ h13
        have huv : uv < 2 ^ 15 := by omega
        have hrc : rc < 2 ^ 15 := by omega
        have hcc : cc < 2 ^ 15 := by omega
        rw [← h.1, ← h.2, ht, a1, a2, a3, a4, a5, a6, a7, a8, a9, a10, a11, a12, a13]
        refine ⟨?_, ?_⟩
        · simp only [putConst, b4, b6, c8, b13, ofNat16_toNat _ huv, ofNat16_toNat _ hrc, ofNat16_toNat _ hcc,
            List.cons_append, List.append_assoc]
        · simp only [wf, okLen, b4, b6, c8, b13, ofNat16_toNat _ huv, ofNat16_toNat _ hrc, ofNat16_toNat _ hcc]
          exact ⟨b1, b2, b3, b5, b7, b12, c13, b8, huv, hrc, hcc⟩
    · intro n bs ks r h
      cases n with
      | zero => simp [getConsts] at h; rw [h.1, h.2]; simp [putConsts, wfs]
      | succ n =>
        unfold getConsts at h
        split at h
        · exact absurd h (by simp)
        rename_i k r1 h1
        split at h
        · exact absurd h (by simp)
        rename_i ks' r2 h2
        simp only [Except.ok.injEq, Prod.mk.injEq] at h
        obtain ⟨a1, b1⟩ := ih.1 _ _ _ h1
        obtain ⟨a2, b2, c2⟩ := ih.2 _ _ _ _ h2
        rw [← h.1, ← h.2, a1, a2]
        exact ⟨by simp [putConsts], ⟨b1, b2⟩, by simp [c2]⟩

/-- **canonicity**: whatever `unmarshal` accepts is exactly the writer's encoding of what it returns,
    followed by the unread rest; and what it returns is well formed -/
theorem unmarshal_canonical (bs : Bytes) (c : Const) (r : Bytes) (h : unmarshal bs = .ok (c, r)) :
    bs = marshal c ++ r ∧ wf c := by
  unfold unmarshal at h
  split at h
  · rename_i body
    obtain ⟨e1, e2⟩ := (get_canon _).1 _ _ _ h
    exact ⟨by simp [marshal, prefix3, e1], e2⟩
  · exact absurd h (by simp)

end GoluaVerif.Model.Marshal
