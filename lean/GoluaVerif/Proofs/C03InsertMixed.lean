/-
  Proofs.C03InsertMixed — `mixedTable.grow` (hash-doubling branches; the array-migration branch is
  the stated obligation `ArrayMigrationOK`) and `mixedTable.insert`.
-/
import GoluaVerif.Proofs.C03Grow
namespace GoluaVerif.Model.Table
open GoluaVerif.Spec (Key Val Map)

section
variable (hash : Key → Nat)

theorem abs_hash_congr (t : Mixed) (h' : Option HashTable) (he : ∀ k, hashAbs h' k = hashAbs t.hash k) :
    ∀ k, abs { t with hash := h' } k = abs t k := by
  intro k
  cases k with
  | int z =>
    by_cases hz : inArr t.arr z
    · have e1 : abs { t with hash := h' } (.int z) = arrAt t.arr z := abs_int_in { t with hash := h' } z hz
      rw [e1, abs_int_in t z hz]
    · have e1 : abs { t with hash := h' } (.int z) = hashAbs h' (.int z) := abs_int_out { t with hash := h' } z hz
      rw [e1, abs_int_out t z hz, he]
  | flt f =>
    have e1 : abs { t with hash := h' } (.flt f) = hashAbs h' (.flt f) := abs_nonint _ _ (fun z => by simp)
    have e2 : abs t (.flt f) = hashAbs t.hash (.flt f) := abs_nonint _ _ (fun z => by simp)
    rw [e1, e2, he]
  | str f =>
    have e1 : abs { t with hash := h' } (.str f) = hashAbs h' (.str f) := abs_nonint _ _ (fun z => by simp)
    have e2 : abs t (.str f) = hashAbs t.hash (.str f) := abs_nonint _ _ (fun z => by simp)
    rw [e1, e2, he]
  | bool f =>
    have e1 : abs { t with hash := h' } (.bool f) = hashAbs h' (.bool f) := abs_nonint _ _ (fun z => by simp)
    have e2 : abs t (.bool f) = hashAbs t.hash (.bool f) := abs_nonint _ _ (fun z => by simp)
    rw [e1, e2, he]
  | ref f =>
    have e1 : abs { t with hash := h' } (.ref f) = hashAbs h' (.ref f) := abs_nonint _ _ (fun z => by simp)
    have e2 : abs t (.ref f) = hashAbs t.hash (.ref f) := abs_nonint _ _ (fun z => by simp)
    rw [e1, e2, he]

/-- what `mixedTable.grow` has to achieve -/
def GrowResult (t t' : Mixed) : Prop :=
  Inv hash t' ∧ (∀ k, abs t' k = abs t k) ∧ hFull t'.hash = false ∧ (∀ i, inArr t.arr i → inArr t'.arr i)

/-- the obligation left to the array-migration branch of `mixedTable.grow` (`array.grow`, the loop
    that moves integer keys into the array, `cleanup`) -/
def ArrayMigrationOK : Prop :=
  ∀ t : Mixed, Inv hash t → growCase t = GrowCase.array → ∃ t', grow hash t = some t' ∧ GrowResult hash t t'

theorem grow_hash_branch (hins : HashedInsertOK hash) (t : Mixed) (inv : Inv hash t) :
    ∃ h', hGrow hash t.hash = some h' ∧ GrowResult hash t { t with hash := some h' } := by
  obtain ⟨h', e, hinv, hlook, hnf⟩ := hGrow_spec hash hins t.hash _ inv.hash
  refine ⟨h', e, ⟨inv.arr, ?_, inv.pow2⟩, ?_, ?_, fun i hi => hi⟩
  · intro x hx; cases hx; exact hinv
  · exact abs_hash_congr t (some h') (fun k => hlook k)
  · simp only [hFull]
    cases hn : h'.nextFree with
    | none => exact absurd hn hnf
    | some _ => rfl

theorem grow_spec (hins : HashedInsertOK hash) (hmig : ArrayMigrationOK hash) (t : Mixed) (inv : Inv hash t) :
    ∃ t', grow hash t = some t' ∧ GrowResult hash t t' := by
  by_cases hc : growCase t = GrowCase.array
  · exact hmig t inv hc
  · obtain ⟨h', e, hres⟩ := grow_hash_branch hash hins t inv
    refine ⟨{ t with hash := some h' }, ?_, hres⟩
    unfold growCase at hc
    unfold grow
    cases hcl : hClassify t.hash (List.replicate 64 0) with
    | mk counts idxCount =>
      simp only [hcl] at hc ⊢
      by_cases h0 : idxCount = 0
      · simp [h0, e]
      · simp only [h0, if_false] at hc ⊢
        by_cases h1 : calculateArraySize (arrClassify t.arr counts) ≤ arrSize t.arr
        · simp [h1, e]
        · simp [h1] at hc

theorem hFull_false (h : Option HashTable) (hf : hFull h = false) : ∃ x, h = some x ∧ x.nextFree ≠ none := by
  cases h with
  | none => simp [hFull] at hf
  | some x =>
    refine ⟨x, rfl, ?_⟩
    intro hn; simp [hFull, hn] at hf

/-- the tail of `insert`: the key goes to the hash part -/
theorem insertHash_spec (hins : HashedInsertOK hash) (t : Mixed) (inv : Inv hash t) (kk : Key) (v : Val)
    (hnorm : kk.norm = kk) (hout : ∀ z, kk = .int z → ¬ inArr t.arr z) (hnf : hFull t.hash = false) :
    ∃ t', insertHash hash t kk v = some t' ∧ Inv hash t' ∧
      (∀ k', abs t' k' = if k' = kk then some v else abs t k') := by
  obtain ⟨x, hx, hxn⟩ := hFull_false t.hash hnf
  obtain ⟨x', e, hinv, _, hlook⟩ := hSet_spec hash hins x (arrSize t.arr) (inv.hash x hx) kk v hnorm
    (fun z ez => by simpa [inArr] using hout z ez) (fun _ => hxn)
  refine ⟨{ t with hash := some x' }, ?_, ⟨inv.arr, ?_, inv.pow2⟩, ?_⟩
  · simp [insertHash, hx, e]
  · intro y hy; cases hy; exact hinv
  · refine abs_hash_update t (some x') kk (some v) hout ?_
    intro k'
    simp only [hashAbs, hx]
    exact hlook k'

/-- `t[k] = v` (v not nil): no panic, `Inv` is kept, the abstract map is updated at the normalised key -/
theorem insert_spec (hins : HashedInsertOK hash) (hmig : ArrayMigrationOK hash) (t : Mixed) (inv : Inv hash t)
    (k : Key) (v : Val) :
    ∃ t', insert hash t k v = some t' ∧ Inv hash t' ∧
      (∀ k', abs t' k' = if k' = k.norm then some v else abs t k') ∧
      ((abs t k.norm).isSome = true → SamePositions t t') := by
  -- inserting into the hash part, growing first when it is full
  have viaGrow : ∀ kk : Key, kk.norm = kk → (∀ z, kk = .int z → ¬ inArr t.arr z) →
      ∃ t', (if hFull t.hash = true then
          (grow hash t).bind (fun t' =>
            match toInt kk with
            | some i => (arrSetValue t'.arr i (some v)).bind (fun r =>
                if r.2 = true then some { t' with arr := r.1 } else insertHash hash t' kk v)
            | none => insertHash hash t' kk v)
        else insertHash hash t kk v) = some t' ∧ Inv hash t' ∧
        (∀ k', abs t' k' = if k' = kk then some v else abs t k') := by
    intro kk hnorm hout
    by_cases hf : hFull t.hash = true
    · simp only [hf, if_true]
      obtain ⟨tg, eg, ginv, gabs, gnf, gin⟩ := grow_spec hash hins hmig t inv
      simp only [eg, Option.bind_some]
      cases hti : toInt kk with
      | none =>
        obtain ⟨hn, hni⟩ := norm_of_toInt_none kk hti
        obtain ⟨t', e, i', a'⟩ := insertHash_spec hash hins tg ginv kk v hnorm (fun z ez => absurd ez (hni z)) gnf
        exact ⟨t', e, i', fun k' => by rw [a' k', gabs k']⟩
      | some i =>
        have ek : kk = .int i := normal_toInt kk hnorm i hti
        subst ek
        by_cases hin : inArr tg.arr i
        · cases ha : tg.arr with
          | none => rw [ha] at hin; exact absurd hin (not_inArr_none i)
          | some a =>
            rw [ha] at hin
            obtain ⟨a', e, ainv', hlen, hat⟩ := arrSetValue_in a i v hin (ginv.arr a ha)
            refine ⟨{ tg with arr := some a' }, by simp [e], inv_arr_update hash tg ginv a a' ha hlen ainv', ?_⟩
            intro k'
            rw [abs_arr_update tg a a' ha hlen i hin (some v) hat k', gabs k']
        · simp only [arrSetValue_out tg.arr i v hin, Option.bind_some, Bool.false_eq_true, if_false]
          obtain ⟨t', e, i', a'⟩ := insertHash_spec hash hins tg ginv (.int i) v hnorm
            (fun z ez => by cases ez; exact hin) gnf
          exact ⟨t', e, i', fun k' => by rw [a' k', gabs k']⟩
    · have hf' : hFull t.hash = false := by simpa using hf
      simp only [hf, if_false, Bool.false_eq_true]
      exact insertHash_spec hash hins t inv kk v hnorm hout hf'
  -- the hash part: `reset` first (an existing field is assigned in place), then grow / insert
  have viaHash : ∀ kk : Key, kk.norm = kk → (∀ z, kk = .int z → ¬ inArr t.arr z) →
      ∃ t', ((hReset hash t.hash kk v).bind (fun r =>
          if r.2 = true then some { t with hash := r.1 }
          else if hFull t.hash = true then
            (grow hash t).bind (fun t' =>
              match toInt kk with
              | some i => (arrSetValue t'.arr i (some v)).bind (fun r =>
                  if r.2 = true then some { t' with arr := r.1 } else insertHash hash t' kk v)
              | none => insertHash hash t' kk v)
          else insertHash hash t kk v)) = some t' ∧ Inv hash t' ∧
        (∀ k', abs t' k' = if k' = kk then some v else abs t k') ∧
        ((abs t kk).isSome = true → SamePositions t t') := by
    intro kk hnorm hout
    obtain ⟨h', e, hinv, habs, hkeys, hsome⟩ := hReset_spec hash t.hash _ inv.hash kk v
    have e0 : abs t kk = hashAbs t.hash kk := by
      cases kk with
      | int z => exact abs_int_out t z (hout z rfl)
      | _ => exact abs_nonint t _ (fun z => by simp)
    by_cases hs : (hashAbs t.hash kk).isSome = true
    · refine ⟨{ t with hash := h' }, by simp [e, hs], ⟨inv.arr, hinv, inv.pow2⟩, ?_, fun _ => ⟨rfl, hkeys, rfl, hsome⟩⟩
      simp only [hs, and_true] at habs
      exact abs_hash_update t h' kk (some v) hout habs
    · obtain ⟨t', e', i', a'⟩ := viaGrow kk hnorm hout
      refine ⟨t', ?_, i', a', ?_⟩
      · simp only [e, Option.bind_some, hs, Bool.false_eq_true, if_false]
        exact e'
      · intro hp; rw [e0] at hp; exact absurd hp hs
  unfold insert
  cases hti : toInt k with
  | none =>
    obtain ⟨hn, hni⟩ := norm_of_toInt_none k hti
    rw [hn]
    have := viaHash k hn (fun z ez => absurd ez (hni z))
    simp only [hti] at this
    obtain ⟨t', e, i', a', sp⟩ := this
    refine ⟨t', ?_, i', a', sp⟩
    rw [← e]
    cases hr : hReset hash t.hash k v with
    | none => rfl
    | some r =>
      obtain ⟨h, w⟩ := r
      cases w <;> by_cases hf : hFull t.hash = true <;> simp [hf]
  | some i =>
    rw [norm_of_toInt_some k i hti]
    by_cases hin : inArr t.arr i
    · cases ha : t.arr with
      | none => rw [ha] at hin; exact absurd hin (not_inArr_none i)
      | some a =>
        rw [ha] at hin
        obtain ⟨a', e, ainv', hlen, hat⟩ := arrSetValue_in a i v hin (inv.arr a ha)
        have hsz : arrSize (some a') = arrSize t.arr := by simp [arrSize, hlen, ha]
        exact ⟨{ t with arr := some a' }, by simp [e], inv_arr_update hash t inv a a' ha hlen ainv',
          abs_arr_update t a a' ha hlen i hin (some v) hat, fun _ => ⟨hsz, rfl, by simp [ha], rfl⟩⟩
    · simp only [arrSetValue_out t.arr i v hin, Option.bind_eq_bind, Option.bind_some, Bool.false_eq_true, if_false]
      have := viaHash (.int i) (by simp [Key.norm, Key.toInt?]) (fun z ez => by cases ez; exact hin)
      simp only [toInt, Key.toInt?] at this
      obtain ⟨t', e, i', a', sp⟩ := this
      refine ⟨t', ?_, i', a', sp⟩
      rw [← e]
      cases hr : hReset hash t.hash (.int i) v with
      | none => rfl
      | some r =>
        obtain ⟨h, w⟩ := r
        cases w <;> by_cases hf : hFull t.hash = true <;> simp [hf]

end
end GoluaVerif.Model.Table
