/-
  Proofs.F64Bits — the bit-pattern side of the binary64 model: `decode`/`encode`
  are mutually inverse on non-NaN values, everything `decode` produces is
  well-formed, `float64(n)` and `fmod` stay well-formed, and `key` is an order
  embedding (injective up to the two zeros).  Core Lean only.
-/
import GoluaVerif.Proofs.F64Lemmas
namespace GoluaVerif.Proofs
open GoluaVerif

/-! ### representability again -/

theorem magOK_intro {m : Nat} (h1 : F64.roundNat m = m) (h2 : m < 2 ^ (1024 + 1074)) :
    F64.magOK m = true := by
  unfold F64.magOK
  rw [Bool.and_eq_true]
  exact ⟨beq_iff_eq.mpr h1, decide_eq_true h2⟩

theorem magOK_lt {m : Nat} (h : F64.magOK m = true) : m < 2 ^ (1024 + 1074) := by
  unfold F64.magOK at h
  rw [Bool.and_eq_true] at h
  exact of_decide_eq_true h.2

/-- at most 53 significant bits ⇔ the low `log2 m - 52` bits are zero -/
theorem roundNat_fix_iff_dvd (m : Nat) : F64.roundNat m = m ↔ 2 ^ (m.log2 - 52) ∣ m := by
  by_cases h : m < 2 ^ 53
  · have hk : m.log2 - 52 = 0 := by
      by_cases h0 : m = 0
      · subst h0; simp
      · have := (Nat.log2_lt h0).mpr h; omega
    rw [hk]
    exact ⟨fun _ => Nat.one_dvd _, fun _ => roundNat_of_lt h⟩
  · rw [roundNat_eq_self_iff (by omega)]
    exact ⟨Nat.dvd_of_mod_eq_zero, Nat.mod_eq_zero_of_dvd⟩

/-- for `a ≥ 2^52` the leading 53 bits form a number in [2^52, 2^53) -/
theorem quot_shape {a : Nat} (h : 2 ^ 52 ≤ a) :
    2 ^ 52 ≤ a / 2 ^ (a.log2 - 52) ∧ a / 2 ^ (a.log2 - 52) < 2 ^ 53 := by
  have ha : a ≠ 0 := by
    intro h0; subst h0; simp at h
  have hl : 52 ≤ a.log2 := (Nat.le_log2 ha).mpr h
  have h1 := Nat.log2_self_le ha
  have h2 := @Nat.lt_log2_self a
  have e1 : 2 ^ a.log2 = 2 ^ 52 * 2 ^ (a.log2 - 52) := by
    rw [← Nat.pow_add]; congr 1; omega
  have e2 : 2 ^ (a.log2 + 1) = 2 ^ 53 * 2 ^ (a.log2 - 52) := by
    rw [← Nat.pow_add]; congr 1; omega
  have hp : 0 < 2 ^ (a.log2 - 52) := Nat.two_pow_pos _
  refine ⟨?_, ?_⟩
  · rw [Nat.le_div_iff_mul_le hp, ← e1]; exact h1
  · rw [Nat.div_lt_iff_lt_mul hp, ← e2]; exact h2

/-- scaling by a power of two preserves "at most 53 significant bits" -/
theorem roundNat_fix_scale {t : Nat} (h : F64.roundNat t = t) (j : Nat) :
    F64.roundNat (t * 2 ^ j) = t * 2 ^ j := by
  by_cases ht : t < 2 ^ 53
  · exact roundNat_idem_of_repr rfl ht
  · have ht' : 2 ^ 53 ≤ t := by omega
    have hs := round_shape ht'
    rw [roundNat_eq_self_iff ht'] at h
    have hd := Nat.div_add_mod t (2 ^ (t.log2 - 52))
    rw [h, Nat.add_zero, Nat.mul_comm] at hd
    refine roundNat_idem_of_repr (q := t / 2 ^ (t.log2 - 52)) (k := t.log2 - 52 + j) ?_ hs.2.2
    rw [Nat.pow_add, ← Nat.mul_assoc, hd]

theorem log2_normal {m : Nat} (hm : m < 2 ^ 52) (j : Nat) : ((2 ^ 52 + m) * 2 ^ j).log2 = 52 + j := by
  rw [log2_mul_two_pow (by omega)]
  have : (2 ^ 52 + m).log2 = 52 := (Nat.log2_eq_iff (by omega)).mpr ⟨by omega, by omega⟩
  rw [this]

/-! ### the three fields of a bit pattern -/

/-- the value with sign `neg`, biased exponent `e` and fraction `m` (what `decode` computes) -/
def ofFields (neg : Bool) (e m : Nat) : F64 :=
  if e = 2047 then (if m = 0 then .inf neg else .nan)
  else if e = 0 then .fin neg m
  else .fin neg ((2 ^ 52 + m) * 2 ^ (e - 1))

/-- the bit pattern with the given fields -/
def bitsOf (neg : Bool) (e m : Nat) : BitVec 64 :=
  BitVec.ofNat 64 ((if neg then 2 ^ 63 else 0) + e * 2 ^ 52 + m)

theorem decode_eq_ofFields (b : BitVec 64) :
    F64.decode b = ofFields b.msb ((b.toNat / 2 ^ 52) % 2048) (b.toNat % 2 ^ 52) := rfl

theorem fields_lt (b : BitVec 64) :
    (b.toNat / 2 ^ 52) % 2048 < 2048 ∧ b.toNat % 2 ^ 52 < 2 ^ 52 := by
  constructor <;> omega

theorem bits_decomp (b : BitVec 64) :
    b = bitsOf b.msb ((b.toNat / 2 ^ 52) % 2048) (b.toNat % 2 ^ 52) := by
  apply BitVec.eq_of_toNat_eq
  have hx := b.isLt
  unfold bitsOf
  rw [BitVec.toNat_ofNat, BitVec.msb_eq_decide]
  generalize b.toNat = x at *
  by_cases h63 : 2 ^ (64 - 1) ≤ x
  · simp only [h63, decide_true, if_true]; omega
  · simp only [h63, decide_false, Bool.false_eq_true, if_false]; omega

theorem fields_bitsOf {neg : Bool} {e m : Nat} (he : e < 2048) (hm : m < 2 ^ 52) :
    (bitsOf neg e m).msb = neg ∧ ((bitsOf neg e m).toNat / 2 ^ 52) % 2048 = e ∧
      (bitsOf neg e m).toNat % 2 ^ 52 = m := by
  unfold bitsOf
  rw [BitVec.msb_eq_decide, BitVec.toNat_ofNat]
  cases neg
  · simp only [Bool.false_eq_true, if_false]
    refine ⟨?_, by omega, by omega⟩
    rw [decide_eq_false_iff_not]; omega
  · simp only [if_true]
    refine ⟨?_, by omega, by omega⟩
    rw [decide_eq_true_iff]; omega

theorem decode_bitsOf {neg : Bool} {e m : Nat} (he : e < 2048) (hm : m < 2 ^ 52) :
    F64.decode (bitsOf neg e m) = ofFields neg e m := by
  obtain ⟨h1, h2, h3⟩ := fields_bitsOf (neg := neg) he hm
  rw [decode_eq_ofFields, h1, h2, h3]

theorem encode_ofFields {neg : Bool} {e m : Nat} (he : e < 2048) (hm : m < 2 ^ 52)
    (hn : (ofFields neg e m).isNaN = false) : F64.encode (ofFields neg e m) = bitsOf neg e m := by
  unfold ofFields at hn ⊢
  by_cases h1 : e = 2047
  · rw [if_pos h1] at hn ⊢
    by_cases h2 : m = 0
    · rw [if_pos h2]; subst h1; subst h2; rfl
    · rw [if_neg h2] at hn; exact absurd hn (by decide)
  · rw [if_neg h1]
    by_cases h2 : e = 0
    · rw [if_pos h2]; subst h2
      unfold F64.encode bitsOf
      simp only [hm, if_true, Nat.zero_mul, Nat.add_zero]
    · rw [if_neg h2]
      have hp : 0 < 2 ^ (e - 1) := Nat.two_pow_pos _
      have hge : ¬ (2 ^ 52 + m) * 2 ^ (e - 1) < 2 ^ 52 := by
        have : 2 ^ 52 + m ≤ (2 ^ 52 + m) * 2 ^ (e - 1) := Nat.le_mul_of_pos_right _ hp
        omega
      unfold F64.encode bitsOf
      simp only []
      rw [if_neg hge, log2_normal hm, Nat.add_sub_cancel_left, Nat.mul_div_cancel _ hp,
        Nat.add_sub_cancel_left, Nat.sub_add_cancel (by omega)]

/-- every well-formed non-NaN value has fields -/
theorem exists_fields (f : F64) (hf : f.WF = true) (hn : f.isNaN = false) :
    ∃ neg e m, e < 2048 ∧ m < 2 ^ 52 ∧ f = ofFields neg e m := by
  cases f with
  | nan => exact absurd hn (by decide)
  | inf neg => exact ⟨neg, 2047, 0, by decide, by decide, rfl⟩
  | fin neg m =>
    have hm : F64.magOK m = true := hf
    by_cases hsub : m < 2 ^ 52
    · exact ⟨neg, 0, m, by decide, hsub, rfl⟩
    · have hge : 2 ^ 52 ≤ m := by omega
      have hm0 : m ≠ 0 := by omega
      have hq := quot_shape hge
      have hdvd := (roundNat_fix_iff_dvd m).mp (magOK_round hm)
      have hl : m.log2 < 1024 + 1074 := (Nat.log2_lt hm0).mpr (magOK_lt hm)
      have hl2 : 52 ≤ m.log2 := (Nat.le_log2 hm0).mpr hge
      have hmul : m / 2 ^ (m.log2 - 52) * 2 ^ (m.log2 - 52) = m := Nat.div_mul_cancel hdvd
      refine ⟨neg, m.log2 - 52 + 1, m / 2 ^ (m.log2 - 52) - 2 ^ 52, by omega, by omega, ?_⟩
      unfold ofFields
      rw [if_neg (by omega), if_neg (by omega), Nat.add_sub_cancel,
        Nat.add_sub_cancel' hq.1, hmul]

set_option exponentiation.threshold 4096 in
theorem ofFields_wf {neg : Bool} {e m : Nat} (he : e < 2048) (hm : m < 2 ^ 52) :
    (ofFields neg e m).WF = true := by
  unfold ofFields
  split
  · split <;> rfl
  · split
    · refine magOK_intro (roundNat_of_lt (by omega)) ?_
      have h52 : 52 ≤ 1024 + 1074 := by decide
      exact Nat.lt_of_lt_of_le hm (Nat.pow_le_pow_right (by decide) h52)
    · refine magOK_intro (roundNat_idem_of_repr rfl (by omega)) ?_
      have h1 : (2 ^ 52 + m) * 2 ^ (e - 1) < 2 ^ 53 * 2 ^ (e - 1) :=
        Nat.mul_lt_mul_of_pos_right (by omega) (Nat.two_pow_pos _)
      have h2 : 2 ^ 53 * 2 ^ (e - 1) ≤ 2 ^ 53 * 2 ^ 2045 :=
        Nat.mul_le_mul_left _ (Nat.pow_le_pow_right (by decide) (by omega))
      have e3 : 53 + 2045 = 1024 + 1074 := by decide
      rw [← Nat.pow_add 2 53 2045, e3] at h2
      exact Nat.lt_of_lt_of_le h1 h2

/-! ### float64(n) is well-formed -/

theorem roundNat_two64 : F64.roundNat (2 ^ 64) = 2 ^ 64 := by decide

set_option exponentiation.threshold 4096 in
theorem ofInt_magOK {n : Int} (h : n.natAbs ≤ 2 ^ 64) :
    F64.magOK (F64.roundNat n.natAbs * F64.scale) = true := by
  have h1 : F64.roundNat n.natAbs ≤ 2 ^ 64 := by
    have := roundNat_mono h
    rw [roundNat_two64] at this
    exact this
  rw [scale_eq]
  refine magOK_intro (roundNat_fix_scale (roundNat_idem _) _) ?_
  have hp : 0 < 2 ^ 1074 := Nat.two_pow_pos _
  have h2 : F64.roundNat n.natAbs * 2 ^ 1074 ≤ 2 ^ 64 * 2 ^ 1074 := Nat.mul_le_mul_right _ h1
  have h3 : 2 ^ 64 * 2 ^ 1074 < 2 ^ 1024 * 2 ^ 1074 :=
    Nat.mul_lt_mul_of_pos_right (Nat.pow_lt_pow_right (by decide) (by decide)) hp
  rw [← Nat.pow_add 2 1024 1074] at h3
  exact Nat.lt_of_le_of_lt h2 h3

/-! ### fmod is exact: the remainder of two doubles is a double -/

theorem roundNat_fix_mod {m d : Nat} (hm : F64.roundNat m = m) (hd : F64.roundNat d = d) :
    F64.roundNat (m % d) = m % d := by
  by_cases hd0 : d = 0
  · subst hd0; rw [Nat.mod_zero]; exact hm
  by_cases hlt : m < d
  · rw [Nat.mod_eq_of_lt hlt]; exact hm
  have hge : d ≤ m := by omega
  have hm0 : m ≠ 0 := by omega
  have hr := Nat.mod_lt m (Nat.pos_of_ne_zero hd0)
  rw [roundNat_fix_iff_dvd] at hm hd ⊢
  by_cases hr0 : m % d = 0
  · rw [hr0]; exact Nat.dvd_zero _
  have hld : d.log2 ≤ m.log2 :=
    (Nat.le_log2 hm0).mpr (Nat.le_trans (Nat.log2_self_le hd0) hge)
  have hlr : (m % d).log2 ≤ d.log2 :=
    (Nat.le_log2 hd0).mpr (Nat.le_trans (Nat.log2_self_le hr0) (Nat.le_of_lt hr))
  have h1 : 2 ^ (d.log2 - 52) ∣ m := Nat.dvd_trans (Nat.pow_dvd_pow 2 (by omega)) hm
  have h2 : 2 ^ (d.log2 - 52) ∣ m % d := (Nat.dvd_mod_iff hd).mpr h1
  exact Nat.dvd_trans (Nat.pow_dvd_pow 2 (by omega)) h2

theorem magOK_mod {m d : Nat} (hm : F64.magOK m = true) (hd : F64.magOK d = true) :
    F64.magOK (m % d) = true :=
  magOK_intro (roundNat_fix_mod (magOK_round hm) (magOK_round hd))
    (Nat.lt_of_le_of_lt (Nat.mod_le _ _) (magOK_lt hm))

/-! ### `key` is an order embedding of the well-formed non-NaN values -/

set_option exponentiation.threshold 4096 in
theorem magOK_lt_huge {m : Nat} (h : F64.magOK m = true) : (m : Int) < (F64.huge : Int) := by
  have h1 := magOK_lt h
  have h2 : 2 ^ (1024 + 1074) < F64.huge := by
    unfold F64.huge; exact Nat.pow_lt_pow_right (by decide) (by decide)
  exact Int.ofNat_lt.mpr (Nat.lt_trans h1 h2)

set_option exponentiation.threshold 4096 in
theorem key_inj {f g : F64} (hf : f.WF = true) (hg : g.WF = true)
    (hfn : f.isNaN = false) (hgn : g.isNaN = false) (hk : f.key = g.key) :
    f = g ∨ ∃ s s', f = .fin s 0 ∧ g = .fin s' 0 := by
  cases f with
  | nan => exact absurd hfn (by decide)
  | inf a =>
    cases g with
    | nan => exact absurd hgn (by decide)
    | inf b =>
      have hh : (0 : Int) < (F64.huge : Int) := Int.natCast_pos.mpr (Nat.two_pow_pos _)
      cases a <;> cases b <;> simp only [F64.key] at hk <;> first | (left; rfl) | omega
    | fin b m =>
      have := magOK_lt_huge (m := m) hg
      cases a <;> cases b <;> simp only [F64.key] at hk <;> omega
  | fin a m =>
    cases g with
    | nan => exact absurd hgn (by decide)
    | inf b =>
      have := magOK_lt_huge (m := m) hf
      cases a <;> cases b <;> simp only [F64.key] at hk <;> omega
    | fin b m' =>
      cases a <;> cases b <;> simp only [F64.key] at hk
      · left; congr 1; omega
      · right; exact ⟨_, _, by congr 1; omega, by congr 1; omega⟩
      · right; exact ⟨_, _, by congr 1; omega, by congr 1; omega⟩
      · left; congr 1; omega

end GoluaVerif.Proofs
