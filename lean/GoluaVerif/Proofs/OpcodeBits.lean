/-
  Proofs.OpcodeBits — a small algebra of bit fields in a 32-bit word, used by Props/C04.lean to
  prove the encode/decode theorems about the REGENERATED opcode constructors and getters.
  `place w s x` puts the w-bit value x at bit offset s; `extract w s c` reads w bits at offset s.
  Core Lean only; kernel-checked proofs by extensionality over bits (`BitVec.getLsbD` lemmas + omega).
-/
namespace GoluaVerif.Proofs.OpcodeBits

def place (w s : Nat) (x : BitVec w) : BitVec 32 := (BitVec.setWidth 32 x) <<< s
def extract (w s : Nat) (c : BitVec 32) : BitVec w := BitVec.setWidth w (c >>> s)

theorem extract_or (w s : Nat) (a b : BitVec 32) :
    extract w s (a ||| b) = extract w s a ||| extract w s b := by
  simp only [extract, BitVec.ushiftRight_or_distrib, BitVec.setWidth_or]

theorem extract_zero (w s : Nat) : extract w s 0#32 = 0#w := by
  simp [extract]

theorem extract_place_same (w s : Nat) (x : BitVec w) (h : s + w ≤ 32) :
    extract w s (place w s x) = x := by
  apply BitVec.eq_of_getLsbD_eq
  intro i hi
  simp only [extract, place, BitVec.getLsbD_setWidth, BitVec.getLsbD_ushiftRight, BitVec.getLsbD_shiftLeft]
  have h1 : s + i < 32 := by omega
  have h2 : ¬ (s + i < s) := by omega
  have h3 : s + i - s = i := by omega
  have h4 : i < 32 := by omega
  simp [hi, h1, h2, h3, h4]

theorem extract_place_disjoint (w s w' s' : Nat) (x : BitVec w') (h : s' + w' ≤ s ∨ s + w ≤ s') :
    extract w s (place w' s' x) = 0#w := by
  apply BitVec.eq_of_getLsbD_eq
  intro i hi
  simp only [extract, place, BitVec.getLsbD_setWidth, BitVec.getLsbD_ushiftRight, BitVec.getLsbD_shiftLeft,
    BitVec.getLsbD_zero]
  rcases h with h | h
  · -- the placed field lies entirely below the extracted one
    have hz : x.getLsbD (s + i - s') = false := BitVec.getLsbD_of_ge x _ (by omega)
    simp [hz]
  · have : s + i < s' := by omega
    simp [this]

/-- a value that fits in k bits can be placed as a k-bit field -/
theorem place_narrow (w k s : Nat) (x : BitVec w) (hk : k ≤ w) (hx : x.toNat < 2 ^ k) :
    place w s x = place k s (BitVec.setWidth k x) := by
  apply BitVec.eq_of_getLsbD_eq
  intro i hi
  simp only [place, BitVec.getLsbD_shiftLeft, BitVec.getLsbD_setWidth]
  by_cases h1 : i - s < k
  · have : i - s < w := by omega
    simp [h1, this]
  · have hz : x.getLsbD (i - s) = false := by
      simp only [BitVec.getLsbD]
      exact Nat.testBit_lt_two_pow (Nat.lt_of_lt_of_le hx (Nat.pow_le_pow_right (by omega) (by omega)))
    simp [h1, hz]

theorem fold_place (w s : Nat) (x : BitVec w) : (BitVec.setWidth 32 x) <<< s = place w s x := rfl
theorem fold_extract (w s : Nat) (c : BitVec 32) : BitVec.setWidth w (c >>> s) = extract w s c := rfl

theorem place_zero_shift (w : Nat) (x : BitVec w) : BitVec.setWidth 32 x = place w 0 x := by
  simp [place]

theorem extract_zero_shift (w : Nat) (c : BitVec 32) : BitVec.setWidth w c = extract w 0 c := by
  simp [extract]

/-- the getters' `(c >>> s) &&& (2^k - 1)` followed by a conversion to w ≥ k bits is `extract k s` -/
theorem getfield (w k s : Nat) (c : BitVec 32) (_hk : k ≤ w) (hw : k ≤ 32) :
    BitVec.setWidth w ((c >>> s) &&& BitVec.setWidth 32 (BitVec.allOnes k)) = BitVec.setWidth w (extract k s c) := by
  apply BitVec.eq_of_getLsbD_eq
  intro i hi
  simp only [extract, BitVec.getLsbD_setWidth, BitVec.getLsbD_and, BitVec.getLsbD_ushiftRight, BitVec.getLsbD_allOnes]
  by_cases h1 : i < k
  · have : i < 32 := by omega
    simp [h1, hi, this]
  · simp [h1]

/-- `c &&& mask` where the mask is a run of k ones at offset s keeps exactly that field -/
theorem and_field_mask (k s : Nat) (c : BitVec 32) (h : s + k ≤ 32) :
    c &&& place k s (BitVec.allOnes k) = place k s (extract k s c) := by
  apply BitVec.eq_of_getLsbD_eq
  intro i hi
  simp only [place, extract, BitVec.getLsbD_and, BitVec.getLsbD_shiftLeft, BitVec.getLsbD_setWidth,
    BitVec.getLsbD_allOnes, BitVec.getLsbD_ushiftRight]
  by_cases h1 : i < s
  · simp [h1]
  · by_cases h2 : i - s < k
    · have : s + (i - s) = i := by omega
      have h3 : i - s < 32 := by omega
      simp [h1, h2, hi, this, h3]
    · simp [h2]

theorem place_eq_zero_iff (k s : Nat) (x : BitVec k) (h : s + k ≤ 32) : place k s x = 0#32 ↔ x = 0#k := by
  constructor
  · intro hp
    have := congrArg (extract k s) hp
    rw [extract_place_same k s x h, extract_zero] at this
    exact this
  · intro hx; subst hx; simp [place]

theorem place_inj (k s : Nat) (x y : BitVec k) (h : s + k ≤ 32) : place k s x = place k s y ↔ x = y := by
  constructor
  · intro hp
    have := congrArg (extract k s) hp
    rwa [extract_place_same k s x h, extract_place_same k s y h] at this
  · intro hx; subst hx; rfl

/-- `extract w s` only looks at bits s and above -/
theorem extract_eq_of_bits (w s : Nat) (a b : BitVec 32) (h : ∀ i, s ≤ i → a.getLsbD i = b.getLsbD i) :
    extract w s a = extract w s b := by
  apply BitVec.eq_of_getLsbD_eq
  intro i hi
  simp only [extract, BitVec.getLsbD_setWidth, BitVec.getLsbD_ushiftRight]
  rw [h (s + i) (by omega)]

theorem getLsbD_place (w s : Nat) (x : BitVec w) (i : Nat) :
    (place w s x).getLsbD i = (decide (i < 32) && !decide (i < s) && x.getLsbD (i - s)) := by
  simp only [place, BitVec.getLsbD_shiftLeft, BitVec.getLsbD_setWidth]
  by_cases h1 : i < 32
  · by_cases h2 : i - s < 32
    · simp [h1, h2]
    · omega
  · simp [h1]

theorem getLsbD_extract (w s : Nat) (c : BitVec 32) (i : Nat) :
    (extract w s c).getLsbD i = (decide (i < w) && c.getLsbD (s + i)) := by
  simp only [extract, BitVec.getLsbD_setWidth, BitVec.getLsbD_ushiftRight]

theorem bne_place_zero (k s : Nat) (x : BitVec k) (h : s + k ≤ 32) : (place k s x != 0#32) = (x != 0#k) := by
  have := place_eq_zero_iff k s x h
  by_cases hx : x = 0#k
  · have hp : place k s x = 0#32 := this.mpr hx
    rw [hp, hx]; rfl
  · have hp : ¬ place k s x = 0#32 := fun hp => hx (this.mp hp)
    rw [bne_iff_ne.mpr hp, bne_iff_ne.mpr hx]

theorem beq_place_zero (k s : Nat) (x : BitVec k) (h : s + k ≤ 32) : (place k s x == 0#32) = (x == 0#k) := by
  have := place_eq_zero_iff k s x h
  by_cases hx : x = 0#k
  · have hp : place k s x = 0#32 := this.mpr hx
    rw [hp, hx]; simp
  · have hp : ¬ place k s x = 0#32 := fun hp => hx (this.mp hp)
    rw [beq_eq_false_iff_ne.mpr hp, beq_eq_false_iff_ne.mpr hx]

end GoluaVerif.Proofs.OpcodeBits
