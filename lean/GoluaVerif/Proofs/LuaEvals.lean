/-
  Proofs.LuaEvals — big-step reading of the evaluation monad: `Evals x s r s'` = "started in store
  `s`, the computation `x` finishes (it does not run out of fuel) with result `r` (a value or an
  error) in store `s'`", with the composition and inversion rules for `>>=`, `pure`, `throw`, `tryLua`.
-/
import GoluaVerif.Proofs.LuaInv
import GoluaVerif.Proofs.LuaMono
set_option linter.unusedSimpArgs false
set_option linter.unusedVariables false
namespace GoluaVerif.Spec.Lua

def Evals {α} (x : M α) (s : Store) (r : Except Err α) (s' : Store) : Prop :=
  x.run.run s = some (r, s')

theorem Evals.det {α} {x : M α} {s r1 s1 r2 s2} (h1 : Evals x s r1 s1) (h2 : Evals x s r2 s2) :
    r1 = r2 ∧ s1 = s2 := by
  unfold Evals at h1 h2
  rw [h1] at h2
  cases h2
  exact ⟨rfl, rfl⟩

theorem evals_pure {α} (a : α) (s : Store) : Evals (pure a : M α) s (.ok a) s := by
  simp [Evals, ExceptT.run, pure, ExceptT.pure, ExceptT.mk, StateT.run, StateT.pure]

theorem evals_throw {α} (e : Err) (s : Store) : Evals (throw e : M α) s (.error e) s := by
  simp [Evals, ExceptT.run, throw, throwThe, MonadExceptOf.throw, ExceptT.mk, StateT.run, pure, StateT.pure]

theorem evals_pure_iff {α} {a : α} {s r s'} : Evals (pure a : M α) s r s' ↔ r = .ok a ∧ s' = s := by
  constructor
  · intro h; obtain ⟨h1, h2⟩ := Evals.det h (evals_pure a s); exact ⟨h1, h2⟩
  · rintro ⟨rfl, rfl⟩; exact evals_pure _ _

theorem evals_throw_iff {α} {e : Err} {s r s'} : Evals (throw e : M α) s r s' ↔ r = .error e ∧ s' = s := by
  constructor
  · intro h; obtain ⟨h1, h2⟩ := Evals.det h (evals_throw e s); exact ⟨h1, h2⟩
  · rintro ⟨rfl, rfl⟩; exact evals_throw _ _

theorem evals_bind_ok {α β} {x : M α} {f : α → M β} {s a s1 r s2}
    (h1 : Evals x s (.ok a) s1) (h2 : Evals (f a) s1 r s2) : Evals (x >>= f) s r s2 := by
  unfold Evals at *
  simp only [ExceptT.run, bind, ExceptT.bind, ExceptT.mk, ExceptT.bindCont, StateT.run, StateT.bind] at *
  simp only [h1]
  exact h2

theorem evals_bind_err {α β} {x : M α} {f : α → M β} {s e s1}
    (h1 : Evals x s (.error e) s1) : Evals (x >>= f) s (.error e) s1 := by
  unfold Evals at *
  simp only [ExceptT.run, bind, ExceptT.bind, ExceptT.mk, ExceptT.bindCont, StateT.run, StateT.bind] at *
  simp only [h1]
  rfl

/-- inversion of `>>=` -/
theorem evals_bind_inv {α β} {x : M α} {f : α → M β} {s r s2} (h : Evals (x >>= f) s r s2) :
    (∃ a s1, Evals x s (.ok a) s1 ∧ Evals (f a) s1 r s2) ∨ (∃ e, Evals x s (.error e) s2 ∧ r = .error e) := by
  unfold Evals at *
  simp only [ExceptT.run, bind, ExceptT.bind, ExceptT.mk, ExceptT.bindCont, StateT.run, StateT.bind] at *
  cases hx : x s with
  | none => simp [hx] at h
  | some p =>
    obtain ⟨r1, s1⟩ := p
    simp only [hx] at h
    cases r1 with
    | ok a => exact .inl ⟨a, s1, rfl, h⟩
    | error e =>
      simp [pure, StateT.pure] at h
      obtain ⟨rfl, rfl⟩ := h
      exact .inr ⟨e, rfl, rfl⟩

theorem evals_tryLua_ok {α} {x : M α} {s a s1} (h : Evals x s (.ok a) s1) :
    Evals (tryLua x) s (.ok (.ok a)) s1 := by
  unfold Evals at *
  simp only [tryLua, ExceptT.run, ExceptT.mk, bind, StateT.bind, StateT.run] at *
  simp [h, pure, StateT.pure]

theorem evals_tryLua_lua {α} {x : M α} {s v hd s1} (h : Evals x s (.error (.lua v hd)) s1) :
    Evals (tryLua x) s (.ok (.error (v, hd))) s1 := by
  unfold Evals at *
  simp only [tryLua, ExceptT.run, ExceptT.mk, bind, StateT.bind, StateT.run] at *
  simp [h, pure, StateT.pure]

theorem evals_tryLua_unsup {α} {x : M α} {s w s1} (h : Evals x s (.error (.unsupported w)) s1) :
    Evals (tryLua x) s (.error (.unsupported w)) s1 := by
  unfold Evals at *
  simp only [tryLua, ExceptT.run, ExceptT.mk, bind, StateT.bind, StateT.run] at *
  simp [h, pure, StateT.pure]

theorem evals_tryLua_other {α} {x : M α} {s e s1} (h : Evals x s (.error e) s1) (he : ∀ v hd, e ≠ .lua v hd) :
    Evals (tryLua x) s (.error e) s1 := by
  unfold Evals at *
  simp only [tryLua, ExceptT.run, ExceptT.mk, bind, StateT.bind, StateT.run] at *
  cases e with
  | lua v hd => exact absurd rfl (he v hd)
  | unsupported w => simp [h, pure, StateT.pure]
  | yield vs => simp [h, pure, StateT.pure]
  | closing => simp [h, pure, StateT.pure]

theorem evals_tryTbc_yield {α} {x : M α} {s vs s1} (h : Evals x s (.error (.yield vs)) s1) :
    Evals (tryTbc x) s (.error (.yield vs)) s1 := by
  unfold Evals at *
  simp only [tryTbc, ExceptT.run, ExceptT.mk, bind, StateT.bind, StateT.run] at *
  simp [h, pure, StateT.pure]

theorem evals_tryCo_err {x : M (List Val)} {s v hd s1} (h : Evals x s (.error (.lua v hd)) s1) :
    Evals (tryCo x) s (.ok (.err v)) s1 := by
  unfold Evals at *
  simp only [tryCo, ExceptT.run, ExceptT.mk, bind, StateT.bind, StateT.run] at *
  simp [h, pure, StateT.pure]

theorem evals_tryCo_yield {x : M (List Val)} {s vs s1} (h : Evals x s (.error (.yield vs)) s1) :
    Evals (tryCo x) s (.ok (.yielded vs)) s1 := by
  unfold Evals at *
  simp only [tryCo, ExceptT.run, ExceptT.mk, bind, StateT.bind, StateT.run] at *
  simp [h, pure, StateT.pure]

theorem evals_tryCo_ret {x : M (List Val)} {s vs s1} (h : Evals x s (.ok vs) s1) :
    Evals (tryCo x) s (.ok (.ret vs)) s1 := by
  unfold Evals at *
  simp only [tryCo, ExceptT.run, ExceptT.mk, bind, StateT.bind, StateT.run] at *
  simp [h, pure, StateT.pure]

/-- a finished computation only grows the store -/
theorem Evals.grows {α} {x : M α} (hx : Grows x) {s r s'} (h : Evals x s r s') : Store.Le s s' :=
  hx.out s r s' h

/-- more fuel: the same result -/
theorem Evals.mono {α} {x y : M α} (hxy : Lean.Order.PartialOrder.rel x y) {s r s'} (h : Evals x s r s') :
    Evals y s r s' :=
  M.eq_of_le hxy s h

/-! ### store primitives, on the main thread (no coroutine is running or being re-executed) -/

/-- the main thread is running live: nothing is being replayed and nobody records -/
def Store.Main (s : Store) : Prop := s.replay = [] ∧ s.recs = []

theorem Store.Main.record {s : Store} (h : s.Main) (e : LogEntry) : s.record e = s := by
  unfold Store.record; rw [h.2]

macro "prim_eval" : tactic => `(tactic|
  simp [Evals, ExceptT.run, bind, ExceptT.bind, ExceptT.mk, ExceptT.bindCont, StateT.run, StateT.bind, get, getThe,
    MonadStateOf.get, liftM, monadLift, MonadLift.monadLift, ExceptT.lift, StateT.get, Functor.map, StateT.map, pure, StateT.pure,
    set, MonadStateOf.set, StateT.set, ExceptT.pure, modify, modifyGet, MonadStateOf.modifyGet, StateT.modifyGet,
    Store.record, *])

theorem evals_allocCell (v : Val) (s : Store) (hm : s.Main) :
    Evals (allocCell v) s (.ok s.cells.size) { s with cells := s.cells.push v } := by
  have h1 := hm.1
  have h3 := hm.2
  unfold allocCell
  prim_eval

theorem evals_readCell (i : Nat) (s : Store) (hm : s.Main) : Evals (readCell i) s (.ok (s.cells.getD i .nil)) s := by
  have h1 := hm.1
  have h3 := hm.2
  unfold readCell
  prim_eval

theorem evals_writeCell (i : Nat) (v : Val) (s : Store) (hm : s.Main) :
    Evals (writeCell i v) s (.ok ()) { s with cells := s.cells.setIfInBounds i v } := by
  have h1 := hm.1
  have h3 := hm.2
  unfold writeCell
  prim_eval

theorem evals_getS (s : Store) : Evals getS s (.ok s) s := by
  unfold getS; prim_eval

theorem evals_nextLog_live (s : Store) (h : s.replay = []) : Evals nextLog s (.ok none) s := by
  unfold nextLog; prim_eval

theorem evals_modify (f : Store → Store) (s : Store) : Evals (modify f : M Unit) s (.ok ()) (f s) := by
  prim_eval

theorem evals_allocClosure (c : Closure) (s : Store) (hm : s.Main) :
    Evals (allocClosure c) s (.ok s.closures.size) { s with closures := s.closures.push c } := by
  have h1 := hm.1
  have h3 := hm.2
  unfold allocClosure
  prim_eval

end GoluaVerif.Spec.Lua
