/-
  Proofs.C19Pos — the regenerated Go position functions (StringNormPos, maxpos, minpos) as
  statements about `toInt`, and the equivalence of Model.StrLib (mirror of stringlib.go) with
  Spec.StrLib (lstrlib.c posrelatI / getendpos).
-/
import GoluaVerif.Spec.StrLib
import GoluaVerif.Model.StrLib
import GoluaVerif.Proofs.C19Str
namespace GoluaVerif.Proofs.C19Pos
open GoluaVerif GoluaVerif.Spec.StrLib GoluaVerif.Model.StrLib
open GoluaVerif.Generated.StrNorm GoluaVerif.Generated.StrPos

theorem toInt_bounds (x : I64) : -9223372036854775808 ≤ x.toInt ∧ x.toInt < 9223372036854775808 := by
  have h1 := BitVec.le_toInt x
  have h2 := BitVec.toInt_lt (x := x)
  simp at h1 h2
  exact ⟨h1, h2⟩

theorem toNat_of_nonneg (x : I64) (h : 0 ≤ x.toInt) : (x.toNat : Int) = x.toInt := by
  have hlt := x.isLt
  rw [BitVec.toInt_eq_toNat_cond] at h ⊢
  split at h <;> rename_i hc
  · simp [hc]
  · exfalso; simp at hlt; omega

/-- StringNormPos never wraps: for every p (mininteger included) and every real string length -/
theorem normpos_toInt (len p : I64) (hl : 0 ≤ len.toInt) :
    (StringNormPos len p).toInt = if p.toInt < 0 then len.toInt + 1 + p.toInt else p.toInt := by
  have ⟨b1, b2⟩ := toInt_bounds len
  have ⟨b3, b4⟩ := toInt_bounds p
  unfold StringNormPos
  simp only [Id.run, pure, BitVec.slt]
  split <;> rename_i h
  all_goals (simp at h)
  · simp only [h, if_true, BitVec.toInt_add, Int.bmod_def]
    simp
    omega
  · have : ¬ (p.toInt < 0) := by omega
    simp only [this, if_false]

theorem maxpos_toInt (a b : I64) : (maxpos a b).toInt = max a.toInt b.toInt := by
  unfold maxpos
  simp only [Id.run, pure, BitVec.slt]
  split <;> rename_i h
  all_goals (simp at h)
  all_goals omega

theorem minpos_toInt (a b : I64) : (minpos a b).toInt = min a.toInt b.toInt := by
  unfold minpos
  simp only [Id.run, pure, BitVec.slt]
  split <;> rename_i h
  all_goals (simp at h)
  all_goals omega

theorem lenOf_toInt (s : Bytes) (hs : s.length < 2 ^ 63) : (lenOf s).toInt = s.length := by
  unfold lenOf
  rw [BitVec.toInt_eq_toNat_cond]
  simp only [BitVec.toNat_ofNat]
  have : s.length % 2 ^ 64 = s.length := Nat.mod_eq_of_lt (by omega)
  rw [this]
  split <;> omega

/-- the start position computed by the Go code is lstrlib.c's posrelatI, for every int64 -/
theorem go_start_eq (len : Nat) (L i : I64) (hL : L.toInt = len) :
    (maxpos 1#64 (StringNormPos L i)).toInt = posrelatI i.toInt len := by
  have ⟨b3, b4⟩ := toInt_bounds i
  rw [maxpos_toInt, normpos_toInt L i (by omega), hL]
  unfold posrelatI
  have one : (1#64 : I64).toInt = 1 := by decide
  rw [one]
  split <;> split <;> try split <;> try split
  all_goals omega

/-- the end position computed by the Go code is lstrlib.c's getendpos whenever that is ≥ 1;
    otherwise it is ≤ 0 (where getendpos gives 0) -/
theorem go_end_eq (len : Nat) (L j : I64) (hL : L.toInt = len) :
    let e := (minpos L (StringNormPos L j)).toInt
    (1 ≤ e ∨ 1 ≤ getendpos j.toInt len → e = getendpos j.toInt len) ∧ (e ≤ 0 → getendpos j.toInt len = 0) := by
  have ⟨b3, b4⟩ := toInt_bounds j
  simp only
  rw [minpos_toInt, normpos_toInt L j (by omega), hL]
  unfold getendpos
  split <;> split <;> try split <;> try split
  all_goals omega

theorem goSub_eq_spec (s : Bytes) (hs : s.length < 2 ^ 63) (i j : I64) :
    goSub s i j = sub s i.toInt j.toInt := by
  have hL := lenOf_toInt s hs
  have hst := go_start_eq s.length (lenOf s) i hL
  have hen := go_end_eq s.length (lenOf s) j hL
  simp only at hen
  have hp := Proofs.C19Str.posrelatI_pos i.toInt s.length
  have hg := Proofs.C19Str.getendpos_le j.toInt s.length
  unfold goSub goSubRange sub slice
  simp only [BitVec.sle]
  generalize hI : maxpos 1#64 (StringNormPos (lenOf s) i) = I at *
  generalize hJ : minpos (lenOf s) (StringNormPos (lenOf s) j) = J at *
  generalize posrelatI i.toInt s.length = st at *
  generalize getendpos j.toInt s.length = en at *
  by_cases hc : I.toInt ≤ (lenOf s).toInt ∧ I.toInt ≤ J.toInt
  · have hc' : (decide (I.toInt ≤ (lenOf s).toInt) && decide (I.toInt ≤ J.toInt)) = true := by simp [hc]
    simp only [hc', if_true]
    have hJe := hen.1 (by omega)
    have hnot : ¬ (st > en) := by omega
    simp only [hnot, if_false]
    have hJn := toNat_of_nonneg J (by omega)
    have hIn := toNat_of_nonneg I (by omega)
    have hsub : (I - 1#64).toNat = st - 1 := by
      rw [BitVec.toNat_sub]
      have : (1#64 : I64).toNat = 1 := by decide
      rw [this]
      have := I.isLt
      omega
    rw [hsub]
    have : J.toNat - (st - 1) = en - st + 1 := by omega
    rw [this]
  · have hc' : (decide (I.toInt ≤ (lenOf s).toInt) && decide (I.toInt ≤ J.toInt)) = false := by
      simp only [Bool.and_eq_false_iff, decide_eq_false_iff_not]
      omega
    simp only [hc']
    have hgt : st > en := by
      by_cases h0 : J.toInt ≤ 0
      · have := hen.2 h0; omega
      · have := hen.1 (by omega); omega
    simp [hgt]

theorem goByte_eq_spec (s : Bytes) (hs : s.length < 2 ^ 63) (i : I64) (j : Option I64) :
    goByte s i j = byte s i.toInt (j.map BitVec.toInt) := by
  have hL := lenOf_toInt s hs
  have hst := go_start_eq s.length (lenOf s) i hL
  have hp := Proofs.C19Str.posrelatI_pos i.toInt s.length
  -- the two cases (j absent: the normalised i is reused; j given) have the same shape
  have key : ∀ jj : I64, (if BitVec.sle (maxpos 1#64 (StringNormPos (lenOf s) i)) (minpos (lenOf s) (StringNormPos (lenOf s) jj)) = true
        then List.map UInt8.toNat (List.take ((minpos (lenOf s) (StringNormPos (lenOf s) jj)).toNat -
            (maxpos 1#64 (StringNormPos (lenOf s) i)).toNat + 1)
          (List.drop ((maxpos 1#64 (StringNormPos (lenOf s) i)).toNat - 1) s))
        else []) = List.map UInt8.toNat (slice s (posrelatI i.toInt s.length) (getendpos jj.toInt s.length)) := by
    intro jj
    have hen := go_end_eq s.length (lenOf s) jj hL
    simp only at hen
    have hg := Proofs.C19Str.getendpos_le jj.toInt s.length
    unfold slice
    simp only [BitVec.sle]
    generalize hI : maxpos 1#64 (StringNormPos (lenOf s) i) = I at *
    generalize hJ : minpos (lenOf s) (StringNormPos (lenOf s) jj) = J at *
    generalize posrelatI i.toInt s.length = st at *
    generalize getendpos jj.toInt s.length = en at *
    by_cases hc : I.toInt ≤ J.toInt
    · simp only [hc, decide_true, if_true]
      have hJe := hen.1 (by omega)
      have hnot : ¬ (st > en) := by omega
      simp only [hnot, if_false]
      have hJn := toNat_of_nonneg J (by omega)
      have hIn := toNat_of_nonneg I (by omega)
      have e1 : I.toNat - 1 = st - 1 := by omega
      have e2 : J.toNat - I.toNat + 1 = en - st + 1 := by omega
      rw [e1, e2]
    · simp only [hc, decide_false]
      have hgt : st > en := by
        by_cases h0 : J.toInt ≤ 0
        · have := hen.2 h0; omega
        · have := hen.1 (by omega); omega
      simp [hgt]
  cases j with
  | none => exact key i
  | some jj => exact key jj

/-- matching.go's start index is lstrlib.c's `posrelatI(init) - 1`, and the nil branch is `init > len + 1` -/
theorem goFindStart_eq (len : Nat) (L init : I64) (hL : L.toInt = len) :
    goFindStart L init =
      if posrelatI init.toInt len - 1 > len then none else some (BitVec.ofNat 64 (posrelatI init.toInt len - 1)) := by
  have ⟨b1, b2⟩ := toInt_bounds L
  have ⟨b3, b4⟩ := toInt_bounds init
  have hn := normpos_toInt L init (by omega)
  have hp := Proofs.C19Str.posrelatI_pos init.toInt len
  unfold goFindStart
  simp only [BitVec.slt]
  have zero : (0#64 : I64).toInt = 0 := by decide
  have hsub : (StringNormPos L init - 1#64).toInt = (StringNormPos L init).toInt - 1 := by
    rw [BitVec.toInt_sub, Int.bmod_def]
    have one : (1#64 : I64).toInt = 1 := by decide
    rw [one]
    have ⟨c1, c2⟩ := toInt_bounds (StringNormPos L init)
    rw [hn] at c1 c2 ⊢
    simp
    split <;> omega
  generalize hN : StringNormPos L init - 1#64 = N at *
  rw [hn] at hsub
  simp only [zero]
  -- relate the spec side
  have hk : ((posrelatI init.toInt len - 1 : Nat) : Int) = max 0 N.toInt := by
    rw [hsub]; unfold posrelatI
    split <;> try split <;> try split
    all_goals omega
  by_cases hneg : N.toInt < 0
  · simp only [hneg, decide_true, if_true, zero]
    have h0 : posrelatI init.toInt len - 1 = 0 := by omega
    simp [h0, hL]
  · simp only [hneg, decide_false, Bool.false_eq_true, if_false, Bool.false_or]
    have hN' := toNat_of_nonneg N (by omega)
    by_cases hgt : L.toInt < N.toInt
    · simp only [hgt, decide_true, if_true]
      have : posrelatI init.toInt len - 1 > len := by omega
      simp [this]
    · simp only [hgt, decide_false]
      have : ¬ (posrelatI init.toInt len - 1 > len) := by omega
      simp only [this, if_false, Bool.false_eq_true]
      congr 1
      apply BitVec.eq_of_toNat_eq
      simp only [BitVec.toNat_ofNat]
      have : posrelatI init.toInt len - 1 = N.toNat := by omega
      rw [this]
      exact (Nat.mod_eq_of_lt N.isLt).symm

theorem search_offset (p : Bytes) : ∀ (t : Bytes) (off : Nat), search p t off = (search p t 0).map (· + off) := by
  intro t
  induction t with
  | nil => intro off; unfold search; split <;> simp
  | cons c cs ih =>
    intro off
    unfold search
    split
    · simp
    · rw [ih (off + 1), ih (0 + 1)]
      simp only [Option.map_map]
      congr 1
      funext x
      simp only [Function.comp]
      omega

theorem toInt_ofNat_small (n : Nat) (h : n < 2 ^ 63) : (BitVec.ofNat 64 n).toInt = n := by
  rw [BitVec.toInt_eq_toNat_cond]
  simp only [BitVec.toNat_ofNat]
  have : n % 2 ^ 64 = n := Nat.mod_eq_of_lt (by omega)
  rw [this]
  split <;> omega

/-- matching.go's plain find is the manual's, for every subject, pattern and int64 init: the Go `int`
    additions `si+i+1`, `si+i+len(ptn)` cannot wrap because they are bounded by `len(s) + 1` -/
theorem goFindPlain_eq (s p : Bytes) (hs : s.length + 1 < 2 ^ 63) (init : I64) :
    goFindPlain s p init = (findPlain s p init.toInt).map fun (a, b) => ((a : Int), (b : Int)) := by
  have hL := lenOf_toInt s (by omega)
  unfold goFindPlain findPlain
  rw [goFindStart_eq s.length (lenOf s) init hL]
  simp only
  generalize posrelatI init.toInt s.length - 1 = k
  by_cases hk : k > s.length
  · simp [hk]
  · simp only [hk, if_false]
    have hkn : (BitVec.ofNat 64 k).toNat = k := by
      simp only [BitVec.toNat_ofNat]; exact Nat.mod_eq_of_lt (by omega)
    rw [hkn, search_offset p (s.drop k) k]
    cases hsr : search p (s.drop k) 0 with
    | none => simp
    | some o =>
      obtain ⟨_, h2, h3, _⟩ := Proofs.C19Str.search_some p _ _ _ hsr
      simp only [Nat.sub_zero, List.length_drop] at h2
      have hpl : p.length ≤ s.length - k - o := by
        rw [List.isPrefixOf_iff_prefix] at h3
        have := h3.length_le
        simp only [Nat.sub_zero, List.length_drop] at this
        exact this
      have e1 : BitVec.ofNat 64 k + BitVec.ofNat 64 o + 1#64 = BitVec.ofNat 64 (k + o + 1) := by
        rw [BitVec.ofNat_add, BitVec.ofNat_add]
      have e2 : BitVec.ofNat 64 k + BitVec.ofNat 64 o + BitVec.ofNat 64 p.length = BitVec.ofNat 64 (k + o + p.length) := by
        rw [BitVec.ofNat_add, BitVec.ofNat_add]
      simp only [Option.map_some, e1, e2]
      rw [toInt_ofNat_small _ (by omega), toInt_ofNat_small _ (by omega)]
      simp
      omega

end GoluaVerif.Proofs.C19Pos
