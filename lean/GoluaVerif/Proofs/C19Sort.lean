/-
  Proofs.C19Sort — the decidable checkers the C19 oracle uses for `table.sort` are correct, and a
  swap-only sorter can only permute.
-/
import GoluaVerif.Spec.TabLib
import GoluaVerif.Proofs.C19Tab
namespace GoluaVerif.Proofs.C19Sort
open GoluaVerif GoluaVerif.Spec GoluaVerif.Spec.TabLib
open GoluaVerif.Proofs.C19Tab (viewRange viewRange_length viewRange_getElem?)

theorem isPerm_iff {α : Type} [DecidableEq α] : ∀ (a b : List α), isPerm a b = true ↔ a.Perm b := by
  intro a
  induction a with
  | nil =>
    intro b
    simp only [isPerm, List.nil_perm, List.isEmpty_iff]
  | cons x xs ih =>
    intro b
    simp only [isPerm, Bool.and_eq_true, List.contains_iff_mem, ih, List.cons_perm_iff_perm_erase]

theorem isSortedAdj_sound {α : Type} (lt : α → α → Bool) : ∀ (l : List α),
    (∀ a ∈ l, ∀ b ∈ l, ∀ c ∈ l, lt a b = false → lt b c = false → lt a c = false) →
    isSortedAdj lt l = true → Sorted lt l := by
  intro l
  induction l with
  | nil => intro _ _; exact List.Pairwise.nil
  | cons a r ih =>
    intro hnt h
    cases r with
    | nil => exact List.pairwise_singleton _ _
    | cons b r =>
      simp only [isSortedAdj, Bool.and_eq_true, Bool.not_eq_true'] at h
      obtain ⟨hba, hrest⟩ := h
      have hr : Sorted lt (b :: r) :=
        ih (fun x hx y hy z hz => hnt x (List.mem_cons_of_mem _ hx) y (List.mem_cons_of_mem _ hy) z (List.mem_cons_of_mem _ hz)) hrest
      unfold Sorted at hr ⊢
      rw [List.pairwise_cons]
      refine ⟨?_, hr⟩
      intro x hx
      rcases List.mem_cons.mp hx with rfl | hx'
      · exact hba
      · have hxb : lt x b = false := (List.pairwise_cons.mp hr).1 x hx'
        exact hnt x (List.mem_cons_of_mem _ hx) b (List.mem_cons_of_mem _ (List.mem_cons_self)) a (List.mem_cons_self) hxb hba

theorem isSortedAdj_complete {α : Type} (lt : α → α → Bool) : ∀ (l : List α), Sorted lt l → isSortedAdj lt l = true := by
  intro l
  induction l with
  | nil => intro _; rfl
  | cons a r ih =>
    intro h
    cases r with
    | nil => rfl
    | cons b r =>
      unfold Sorted at h
      rw [List.pairwise_cons] at h
      simp only [isSortedAdj, Bool.and_eq_true, Bool.not_eq_true']
      exact ⟨h.1 b List.mem_cons_self, ih h.2⟩

theorem isSWOOn_iff {α : Type} (lt : α → α → Bool) (l : List α) : isSWOOn lt l = true ↔ SWOOn lt l := by
  unfold isSWOOn
  simp only [Bool.and_eq_true, List.all_eq_true, Bool.or_eq_true, Bool.not_eq_true']
  constructor
  · intro ⟨⟨h1, h2⟩, h3⟩
    refine ⟨h1, ?_, ?_⟩
    · intro a ha b hb c hc hab hbc
      rcases h2 a ha b hb c hc with h | h
      · simp [hab, hbc] at h
      · exact h
    · intro a ha b hb c hc hab hbc
      rcases h3 a ha b hb c hc with h | h
      · simp [hab, hbc] at h
      · exact h
  · intro ⟨h1, h2, h3⟩
    refine ⟨⟨h1, ?_⟩, ?_⟩
    · intro a ha b hb c hc
      by_cases hab : lt a b = true
      · by_cases hbc : lt b c = true
        · right; exact h2 a ha b hb c hc hab hbc
        · left; simp [hbc]
      · left; simp [hab]
    · intro a ha b hb c hc
      by_cases hab : lt a b = true
      · left; left; exact hab
      · by_cases hbc : lt b c = true
        · left; right; exact hbc
        · right
          exact h3 a ha b hb c hc (by simpa using hab) (by simpa using hbc)

/-! ### swaps permute -/

theorem swapList_perm {α : Type} [DecidableEq α] (l : List α) (i j : Nat) : (swapList l i j).Perm l := by
  unfold swapList
  cases hi : l[i]? with
  | none => exact List.Perm.refl _
  | some x =>
    cases hj : l[j]? with
    | none => exact List.Perm.refl _
    | some y =>
      simp only
      obtain ⟨hil, hix⟩ := List.getElem?_eq_some_iff.mp hi
      obtain ⟨hjl, hjy⟩ := List.getElem?_eq_some_iff.mp hj
      rw [List.perm_iff_count]
      intro b
      have hjl' : j < (l.set i y).length := by simpa using hjl
      rw [List.count_set hjl', List.count_set hil]
      have e : (l.set i y)[j] = y := by
        rw [List.getElem_set]
        split
        · rfl
        · exact hjy
      rw [e, hix]
      have hmem : x ∈ l := hix ▸ List.getElem_mem hil
      by_cases hxb : (x == b) = true
      · have hxb' : x = b := by simpa using hxb
        have : 0 < List.count b l := List.count_pos_iff.mpr (hxb' ▸ hmem)
        by_cases hyb : (y == b) = true
        · simp only [hxb, hyb, if_true]; omega
        · have hyb0 : (y == b) = false := by simpa using hyb
          simp only [hxb, hyb0, if_true, Bool.false_eq_true, if_false]; omega
      · have hxb0 : (x == b) = false := by simpa using hxb
        by_cases hyb : (y == b) = true
        · simp only [hxb0, hyb, if_true, Bool.false_eq_true, if_false]; omega
        · have hyb0 : (y == b) = false := by simpa using hyb
          simp only [hxb0, hyb0, Bool.false_eq_true, if_false]; omega

/-- for ANY sequence of comparison outcomes — inconsistent, random, raising — a sorter that only
    swaps leaves a permutation -/
theorem sorter_run_perm {α : Type} [DecidableEq α] : ∀ (s : Sorter) (ans : Nat → Option Bool) (n : Nat) (l : List α),
    (s.run ans n l).Perm l := by
  intro s
  induction s with
  | done => intro ans n l; exact List.Perm.refl _
  | swap i j k ih =>
    intro ans n l
    simp only [Sorter.run]
    exact (ih ans n _).trans (swapList_perm l i j)
  | less i j k ih =>
    intro ans n l
    simp only [Sorter.run]
    cases ans n with
    | none => exact List.Perm.refl _
    | some b => exact ih b ans (n + 1) l

/-! ### the named comparisons -/

theorem swo_of_key {α : Type} (f : α → Int) (l : List α) : SWOOn (fun a b => decide (f a < f b)) l := by
  refine ⟨?_, ?_, ?_⟩
  · intro a _; simp
  · intro a _ b _ c _ h1 h2
    simp only [decide_eq_true_eq] at h1 h2 ⊢; omega
  · intro a _ b _ c _ h1 h2
    simp only [decide_eq_false_iff_not] at h1 h2 ⊢; omega

theorem swo_false {α : Type} (l : List α) : SWOOn (fun _ _ => false) l :=
  ⟨fun _ _ => rfl, fun _ _ _ _ _ _ h _ => h, fun _ _ _ _ _ _ _ _ => rfl⟩

theorem named_swo (name : String) (lt : Int → Int → Bool) (h : namedLt name = some lt) (hp : provedSWO name = true)
    (l : List Int) : SWOOn lt l := by
  unfold provedSWO at hp
  simp only [Bool.or_eq_true, beq_iff_eq] at hp
  rcases hp with (((rfl | rfl) | rfl) | rfl) | rfl
  all_goals (simp only [namedLt, Option.some.injEq] at h; subst h)
  · exact swo_of_key (fun a => a) l
  · have := swo_of_key (fun a : Int => -a) l
    refine ⟨?_, ?_, ?_⟩
    · intro a _; simp
    · intro a _ b _ c _ h1 h2
      simp only [decide_eq_true_eq] at h1 h2 ⊢; omega
    · intro a _ b _ c _ h1 h2
      simp only [decide_eq_false_iff_not] at h1 h2 ⊢; omega
  · exact swo_of_key (fun a => a % 3) l
  · have := swo_of_key (fun a : Int => (a.natAbs : Int)) l
    refine ⟨?_, ?_, ?_⟩
    · intro a _; simp
    · intro a _ b _ c _ h1 h2
      simp only [decide_eq_true_eq] at h1 h2 ⊢; omega
    · intro a _ b _ c _ h1 h2
      simp only [decide_eq_false_iff_not] at h1 h2 ⊢; omega
  · exact swo_false l

/-! ### golua's Swap through get/set is a swap -/

theorem storeSwap_view {σ : Type} {S : Store σ} {view : σ → Int → Val} (hL : LawfulView S view) (st : σ) (i j : Int) :
    ∃ st', storeSwap S st i j = .ok st' ∧
      ∀ k, view st' k = if k = j + 1 then view st (i + 1) else if k = i + 1 then view st (j + 1) else view st k := by
  obtain ⟨st1, hs1, hv1⟩ := hL.set_eq st (i + 1) (view st (j + 1))
  obtain ⟨st2, hs2, hv2⟩ := hL.set_eq st1 (j + 1) (view st (i + 1))
  refine ⟨st2, ?_, ?_⟩
  · simp only [storeSwap, hL.get_eq, hs1, hs2, bind, Except.bind]
  · intro k
    rw [hv2 k]
    split
    · rfl
    · rw [hv1 k]

/-! ### a swap-only sorter run against a table -/

theorem viewRange_congr (v w : Int → Val) : ∀ (n : Nat) (i : Int), (∀ k : Nat, k < n → v (i + k) = w (i + k)) →
    viewRange v i n = viewRange w i n := by
  intro n; induction n with
  | zero => intro i _; rfl
  | succ n ih =>
    intro i h
    simp only [viewRange]
    have h0 := h 0 (by omega)
    simp only [Int.natCast_zero, Int.add_zero] at h0
    rw [h0, ih (i + 1)]
    intro k hk
    have := h (k + 1) (by omega)
    have e : i + ((k + 1 : Nat) : Int) = i + 1 + (k : Int) := by omega
    rw [e] at this; exact this

theorem storeSwap_viewRange {σ : Type} {S : Store σ} {view : σ → Int → Val} (hL : LawfulView S view)
    (st : σ) (n i j : Nat) (hi : i < n) (hj : j < n) :
    ∃ st', storeSwap S st i j = .ok st' ∧
      viewRange (view st') 1 n = swapList (viewRange (view st) 1 n) i j ∧
      ∀ k : Int, k < 1 ∨ k > n → view st' k = view st k := by
  obtain ⟨st', hrun, hv⟩ := storeSwap_view hL st (i : Int) (j : Int)
  refine ⟨st', hrun, ?_, ?_⟩
  · apply List.ext_getElem?
    intro k
    unfold swapList
    rw [viewRange_getElem? _ _ _ _ hi, viewRange_getElem? _ _ _ _ hj]
    simp only
    by_cases hk : k < n
    · rw [viewRange_getElem? _ _ _ _ hk, hv]
      rw [List.getElem?_set, List.getElem?_set]
      simp only [List.length_set, viewRange_length]
      by_cases h1 : j = k
      · subst h1
        have : (1 : Int) + (j : Int) = (j : Int) + 1 := by omega
        simp [this, hj]
        congr 1; omega
      · have c1 : ¬ ((1 : Int) + (k : Int) = (j : Int) + 1) := by omega
        simp only [c1, if_false, h1]
        by_cases h2 : i = k
        · subst h2
          have : (1 : Int) + (i : Int) = (i : Int) + 1 := by omega
          simp [this, hi]
          congr 1; omega
        · have c2 : ¬ ((1 : Int) + (k : Int) = (i : Int) + 1) := by omega
          simp only [c2, if_false, h2]
          rw [viewRange_getElem? _ _ _ _ hk]
    · have l1 : (viewRange (view st') 1 n).length ≤ k := by rw [viewRange_length]; omega
      have l2 : (((viewRange (view st) 1 n).set i (view st (1 + (j : Int)))).set j (view st (1 + (i : Int)))).length ≤ k := by
        simp only [List.length_set, viewRange_length]; omega
      rw [List.getElem?_eq_none l1, List.getElem?_eq_none l2]
  · intro k hk
    rw [hv]
    have c1 : ¬ (k = (j : Int) + 1) := by omega
    have c2 : ¬ (k = (i : Int) + 1) := by omega
    simp only [c1, c2, if_false]

theorem runStore_refines {σ : Type} {S : Store σ} {view : σ → Int → Val} (hL : LawfulView S view) (n : Nat) :
    ∀ (s : Sorter) (ans : Nat → Option Bool) (c : Nat) (st : σ), Sorter.InRange n s →
    ∃ st', Sorter.runStore S s ans c st = .ok st' ∧
      viewRange (view st') 1 n = s.run ans c (viewRange (view st) 1 n) ∧
      ∀ k : Int, k < 1 ∨ k > n → view st' k = view st k := by
  intro s
  induction s with
  | done => intro ans c st _; exact ⟨st, rfl, rfl, fun _ _ => rfl⟩
  | swap i j k ih =>
    intro ans c st ⟨hi, hj, hk⟩
    obtain ⟨st1, h1, hv1, ho1⟩ := storeSwap_viewRange hL st n i j hi hj
    obtain ⟨st2, h2, hv2, ho2⟩ := ih ans c st1 hk
    refine ⟨st2, ?_, ?_, ?_⟩
    · simp only [Sorter.runStore, h1, bind, Except.bind, h2]
    · simp only [Sorter.run]; rw [hv2, hv1]
    · intro x hx; rw [ho2 x hx, ho1 x hx]
  | less i j k ih =>
    intro ans c st ⟨_, _, hk⟩
    simp only [Sorter.runStore, Sorter.run]
    cases ans c with
    | none => exact ⟨st, rfl, rfl, fun _ _ => rfl⟩
    | some b => exact ih b ans (c + 1) st (hk b)

/-! ### Lua's `<` on numbers (exact, no NaN) and on strings (bytewise) is a strict weak order -/

theorem ltD_num (a b : Val) (x y : Num) (ha : a.num? = some x) (hb : b.num? = some y)
    (hx : x.isNaN = false) (hy : y.isNaN = false) : ltD a b = decide (x.key < y.key) := by
  unfold ltD luaLt
  simp [ha, hb, Num.lt, hx, hy]

theorem lua_lt_swo_numbers (l : List Val) (h : ∀ v ∈ l, ∃ x, v.num? = some x ∧ x.isNaN = false) :
    SWOOn ltD l := by
  refine ⟨?_, ?_, ?_⟩
  · intro a ha
    obtain ⟨x, hx, hn⟩ := h a ha
    rw [ltD_num a a x x hx hx hn hn]; simp
  · intro a ha b hb c hc
    obtain ⟨x, hx, hxn⟩ := h a ha
    obtain ⟨y, hy, hyn⟩ := h b hb
    obtain ⟨z, hz, hzn⟩ := h c hc
    rw [ltD_num a b x y hx hy hxn hyn, ltD_num b c y z hy hz hyn hzn, ltD_num a c x z hx hz hxn hzn]
    simp only [decide_eq_true_eq]; omega
  · intro a ha b hb c hc
    obtain ⟨x, hx, hxn⟩ := h a ha
    obtain ⟨y, hy, hyn⟩ := h b hb
    obtain ⟨z, hz, hzn⟩ := h c hc
    rw [ltD_num a b x y hx hy hxn hyn, ltD_num b c y z hy hz hyn hzn, ltD_num a c x z hx hz hxn hzn]
    simp only [decide_eq_false_iff_not]; omega

theorem bytesLt_irrefl : ∀ a : StrLib.Bytes, bytesLt a a = false := by
  intro a; induction a with
  | nil => rfl
  | cons x xs ih => simp [bytesLt, ih]

theorem u8_lt_iff (a b : UInt8) : a < b ↔ a.toNat < b.toNat := UInt8.lt_iff_toNat_lt
theorem u8_eq_of (a b : UInt8) (h1 : ¬ a < b) (h2 : ¬ b < a) : a = b := by
  rw [u8_lt_iff] at h1 h2
  exact UInt8.toNat_inj.mp (by omega)

theorem bytesLt_trans : ∀ a b c : StrLib.Bytes, bytesLt a b = true → bytesLt b c = true → bytesLt a c = true := by
  intro a
  induction a with
  | nil =>
    intro b c h1 h2
    cases b with
    | nil => simp [bytesLt] at h1
    | cons y ys => cases c with
      | nil => simp [bytesLt] at h2
      | cons z zs => simp [bytesLt]
  | cons x xs ih =>
    intro b c h1 h2
    cases b with
    | nil => simp [bytesLt] at h1
    | cons y ys =>
      cases c with
      | nil => simp [bytesLt] at h2
      | cons z zs =>
        simp only [bytesLt] at h1 h2 ⊢
        by_cases xy : x < y
        · by_cases yz : y < z
          · have : x < z := by rw [u8_lt_iff] at *; omega
            simp [this]
          · by_cases zy : z < y
            · simp [yz, zy] at h2
            · have := u8_eq_of y z yz zy; subst this; simp [xy]
        · by_cases yx : y < x
          · simp [xy, yx] at h1
          · have := u8_eq_of x y xy yx; subst this
            simp only [xy, if_false] at h1
            by_cases xz : x < z
            · simp [xz]
            · by_cases zx : z < x
              · simp [xz, zx] at h2
              · simp only [xz, zx, if_false] at h2 ⊢
                exact ih ys zs h1 h2

theorem bytesLt_negtrans : ∀ a b c : StrLib.Bytes, bytesLt a b = false → bytesLt b c = false → bytesLt a c = false := by
  intro a
  induction a with
  | nil =>
    intro b c h1 h2
    cases b with
    | nil => cases c with
      | nil => rfl
      | cons z zs => simp [bytesLt] at h2
    | cons y ys => simp [bytesLt] at h1
  | cons x xs ih =>
    intro b c h1 h2
    cases c with
    | nil => simp [bytesLt]
    | cons z zs =>
      cases b with
      | nil => simp [bytesLt] at h2
      | cons y ys =>
        simp only [bytesLt] at h1 h2 ⊢
        by_cases xy : x < y
        · simp [xy] at h1
        · by_cases yz : y < z
          · simp [yz] at h2
          · by_cases yx : y < x
            · have nxz : ¬ x < z := by rw [u8_lt_iff] at *; omega
              have zx : z < x := by rw [u8_lt_iff] at *; omega
              simp [nxz, zx]
            · have := u8_eq_of x y xy yx; subst this
              simp only [xy, if_false] at h1
              by_cases zx : z < x
              · simp [yz, zx]
              · simp only [yz, zx, if_false] at h2 ⊢
                exact ih ys zs h1 h2

theorem lua_lt_swo_strings (l : List Val) (h : ∀ v ∈ l, ∃ s, v = .str s) : SWOOn ltD l := by
  have e : ∀ s t : StrLib.Bytes, ltD (.str s) (.str t) = bytesLt s t := by
    intro s t; simp [ltD, luaLt, Val.num?]
  refine ⟨?_, ?_, ?_⟩
  · intro a ha
    obtain ⟨s, rfl⟩ := h a ha
    rw [e]; exact bytesLt_irrefl s
  · intro a ha b hb c hc
    obtain ⟨s, rfl⟩ := h a ha
    obtain ⟨t, rfl⟩ := h b hb
    obtain ⟨u, rfl⟩ := h c hc
    rw [e, e, e]; exact bytesLt_trans s t u
  · intro a ha b hb c hc
    obtain ⟨s, rfl⟩ := h a ha
    obtain ⟨t, rfl⟩ := h b hb
    obtain ⟨u, rfl⟩ := h c hc
    rw [e, e, e]; exact bytesLt_negtrans s t u

end GoluaVerif.Proofs.C19Sort
