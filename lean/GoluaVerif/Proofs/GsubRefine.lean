/-
  Proofs.GsubRefine — golua's gsub loop (search with `pat.Match`/`MatchFromStart`, `allowEmpty`, lazy copying through
  `sj`) against the Lua 5.4 loop of the Spec (anchored attempt at `src`, reject a match ending at `lastmatch`, copy
  one byte).  Result: the substituted STRING is the Spec's; golua's COUNT is the Spec's plus the number of empty
  matches it rejected (the recorded defect C15-gsub-count-rejected-empty).
-/
import GoluaVerif.Proofs.GmatchRefine
namespace GoluaVerif.Model.PatMatch
open GoluaVerif.Model GoluaVerif.Spec
open GoluaVerif.Model.Gsub (Matcher GsubState GsubOut ReplOut advance sliceE)
open GoluaVerif.Spec.LuaPattern (slice GsubAcc)

variable {pat : LuaPattern.Pat} {s : Subject} {matcher : Matcher}

/-! ### slices -/

theorem slice_self (s : Subject) (a : Nat) : slice s a a = [] := by simp [slice]

theorem slice_append (s : Subject) {a b c : Nat} (h1 : a ≤ b) (h2 : b ≤ c) :
    slice s a b ++ slice s b c = slice s a c := by
  unfold slice
  have e : c - a = (b - a) + (c - b) := by omega
  rw [e, List.take_add, List.drop_drop]
  have : a + (b - a) = b := by omega
  rw [this]

theorem slice_one (s : Subject) {a : Nat} (h : a < s.size) : slice s a (a + 1) = [s[a]!] := by
  unfold slice
  have : a + 1 - a = 1 := by omega
  rw [this]
  have hl : a < s.toList.length := by simpa using h
  rw [List.drop_eq_getElem_cons hl]
  simp [h]

theorem sliceE_nat (s : Subject) {a b : Nat} (h1 : a ≤ b) (h2 : b ≤ s.size) :
    sliceE s (a : Int) (b : Int) = .ok (slice s a b) := by
  unfold sliceE slice
  have : (0 : Int) ≤ a ∧ (a : Int) ≤ b ∧ (b : Int) ≤ (s.size : Int) := by omega
  simp [this]

/-! ### the matcher seen through positions without a match -/

theorem Link.skip_hit (hl : Link pat s matcher) : ∀ (k g : Nat) (m : LuaPattern.MatchRes), g + k ≤ s.size →
    (∀ q, g ≤ q → q < g + k → LuaPattern.matchAt pat s q = none) → LuaPattern.matchAt pat s (g + k) = some m →
    matcher (g : Int) = some (toCaptures m) := by
  intro k
  induction k with
  | zero => intro g m hle _ hm; exact hl.hit (by omega) hm
  | succ k ih =>
    intro g m hle hnone hm
    rw [hl.miss_lt (by omega) (hnone g (Nat.le_refl _) (by omega))]
    apply ih (g + 1) m (by omega) (fun q h1 h2 => hnone q (by omega) (by omega))
    rw [Nat.add_assoc, Nat.add_comm 1 k]; exact hm

theorem Link.skip_none (hl : Link pat s matcher) : ∀ (k g : Nat), g + k = s.size →
    (∀ q, g ≤ q → q ≤ s.size → LuaPattern.matchAt pat s q = none) → matcher (g : Int) = none := by
  intro k
  induction k with
  | zero => intro g hle hnone; exact hl.miss_eq (by omega) (hnone g (Nat.le_refl _) (by omega))
  | succ k ih =>
    intro g hle hnone
    rw [hl.miss_lt (by omega) (hnone g (Nat.le_refl _) (by omega))]
    exact ih (g + 1) (by omega) (fun q h1 h2 => hnone q (by omega) h2)

/-! ### one iteration of golua's loop -/

variable {replG : List Capture → ReplOut}

theorem gsub_none (f : Nat) (st : GsubState) (h : matcher st.si = none) :
    Gsub.gsubLoop s matcher replG none false (f + 1) st = .done { st with visited := st.si :: st.visited } := by
  rw [Gsub.gsubLoop]
  simp [h]

theorem gsub_accept (f : Nat) (st : GsubState) (gc : Capture) (rest : List Capture) (r pre : List UInt8)
    (h : matcher st.si = some (gc :: rest))
    (hc : (st.allowEmpty || gc.start != st.si || gc.stop != st.si) = true)
    (hr : replG (gc :: rest) = .ok r) (hs : sliceE s st.sj gc.start = .ok pre) :
    Gsub.gsubLoop s matcher replG none false (f + 1) st =
      Gsub.gsubLoop s matcher replG none false f
        (advance { st with visited := st.si :: st.visited, out := st.out ++ pre ++ r, sj := gc.stop, wrote := true,
                           accepted := (gc.start, gc.stop) :: st.accepted } gc.start gc.stop) := by
  rw [Gsub.gsubLoop]
  simp [h, hc, hr, hs]

theorem gsub_accept_err (f : Nat) (st : GsubState) (gc : Capture) (rest : List Capture)
    (h : matcher st.si = some (gc :: rest))
    (hc : (st.allowEmpty || gc.start != st.si || gc.stop != st.si) = true)
    (hr : replG (gc :: rest) = .err) :
    Gsub.gsubLoop s matcher replG none false (f + 1) st = .replErr := by
  rw [Gsub.gsubLoop]
  simp [h, hc, hr]

theorem gsub_reject (f : Nat) (st : GsubState) (gc : Capture) (rest : List Capture)
    (h : matcher st.si = some (gc :: rest))
    (hc : (st.allowEmpty || gc.start != st.si || gc.stop != st.si) = false) :
    Gsub.gsubLoop s matcher replG none false (f + 1) st =
      Gsub.gsubLoop s matcher replG none false f
        (advance { st with visited := st.si :: st.visited } gc.start gc.stop) := by
  rw [Gsub.gsubLoop]
  simp [h, hc]

/-! ### the simulation -/

/-- what golua will return: everything written plus the part of the subject not yet copied -/
def V (s : Subject) (st : GsubState) : List UInt8 := st.out ++ slice s st.sj.toNat s.size

/-- the situation of golua's state relative to the Spec's `(src, lastmatch)` -/
inductive Sit (pat : LuaPattern.Pat) (s : Subject) (st : GsubState) (src : Nat) (last : Option Nat) : Prop
  /-- golua waits at `g ≤ src` with `allowEmpty`; the Spec has found no match in `[g, src)` -/
  | free (g : Nat) (hae : st.allowEmpty = true) (hsi : st.si = g) (hg : g ≤ src)
      (hnone : ∀ q, g ≤ q → q < src → LuaPattern.matchAt pat s q = none) (hlast : ∀ l, last = some l → l < src)
      (hj : st.sj ≤ g)
  /-- just after a non-empty match that ended at `e`; no match in `[e, src)` -/
  | after (e : Nat) (hae : st.allowEmpty = false) (hsi : st.si = e) (hsj : st.sj = e) (hlast : last = some e)
      (he : e ≤ src) (hnone : ∀ q, e ≤ q → q < src → LuaPattern.matchAt pat s q = none)
  /-- golua has stepped over the empty match at `src` which the Spec is about to reject -/
  | pending (m0 : LuaPattern.MatchRes) (hae : st.allowEmpty = true) (hsi : st.si = ((src + 1 : Nat) : Int))
      (hlast : last = some src) (hm0 : LuaPattern.matchAt pat s src = some m0) (he : m0.stop = src)
      (hj : st.sj ≤ src)

/-- bookkeeping common to all situations -/
structure Common (s : Subject) (st : GsubState) (src : Nat) (last : Option Nat) (acc : GsubAcc) : Prop where
  j : ∃ j : Nat, st.sj = j ∧ j ≤ src ∧ acc.out = st.out ++ slice s j src
  src_le : src ≤ s.size
  wrote : st.wrote = false → st.out = [] ∧ st.sj = 0
  cnt : acc.count ≤ st.matchCount
  bound : acc.count ≤ src + 1 ∧ (acc.count = src + 1 → last = some src)

/-- the replacement closure of golua against the Spec's expansion, on every match of the pattern -/
def ReplLink (pat : LuaPattern.Pat) (s : Subject) (repl : List UInt8) (replG : List Capture → ReplOut) : Prop :=
  ∀ (q : Nat) (m : LuaPattern.MatchRes), q ≤ s.size → LuaPattern.matchAt pat s q = some m →
    match LuaPattern.expandRepl s m repl with
    | .ok r => replG (toCaptures m) = .ok r
    | .error .malformed => replG (toCaptures m) = .err
    | .error .unspecified => True

/-- what the theorem concludes about golua's run, given the Spec's result -/
def GRes (s : Subject) (matcher : Matcher) (replG : List Capture → ReplOut) (st : GsubState) (fG : Nat) :
    Except LuaPattern.PErr GsubAcc → Prop
  | .ok accF => ∃ stF, Gsub.gsubLoop s matcher replG none false fG st = .done stF ∧ V s stF = accF.out ∧
      accF.count ≤ stF.matchCount ∧ (stF.wrote = false → stF.out = [] ∧ stF.sj = 0) ∧ 0 ≤ stF.sj ∧ stF.sj ≤ s.size
  | .error .malformed => Gsub.gsubLoop s matcher replG none false fG st = .replErr
  | .error .unspecified => True

theorem V_of_common {st : GsubState} {src : Nat} {last : Option Nat} {acc : GsubAcc} (hc : Common s st src last acc)
    (hsrc : src = s.size) : V s st = acc.out := by
  obtain ⟨j, h1, h2, h3⟩ := hc.j
  unfold V
  rw [h3, h1, hsrc]; simp

/-- golua's loop ends when its matcher finds nothing -/
theorem golua_done {st : GsubState} {fG : Nat} {accF : GsubAcc} (hf : 1 ≤ fG) (hm : matcher st.si = none)
    (hv : V s st = accF.out) (hcnt : accF.count ≤ st.matchCount) (hw : st.wrote = false → st.out = [] ∧ st.sj = 0)
    (h0 : 0 ≤ st.sj) (h1 : st.sj ≤ s.size) : GRes s matcher replG st fG (.ok accF) := by
  obtain ⟨g, rfl⟩ : ∃ g, fG = g + 1 := ⟨fG - 1, by omega⟩
  exact ⟨_, gsub_none g st hm, hv, hcnt, hw, h0, h1⟩

theorem golua_reject {st : GsubState} {fG : Nat} {R : Except LuaPattern.PErr GsubAcc} (gc : Capture) (rest : List Capture)
    (h : matcher st.si = some (gc :: rest))
    (hc : (st.allowEmpty || gc.start != st.si || gc.stop != st.si) = false)
    (hR : GRes s matcher replG (advance { st with visited := st.si :: st.visited } gc.start gc.stop) fG R) :
    GRes s matcher replG st (fG + 1) R := by
  unfold GRes at hR ⊢
  rw [gsub_reject fG st gc rest h hc]
  exact hR

theorem golua_accept {st : GsubState} {fG : Nat} {R : Except LuaPattern.PErr GsubAcc} (gc : Capture) (rest : List Capture)
    (r pre : List UInt8) (h : matcher st.si = some (gc :: rest))
    (hc : (st.allowEmpty || gc.start != st.si || gc.stop != st.si) = true)
    (hr : replG (gc :: rest) = .ok r) (hs : sliceE s st.sj gc.start = .ok pre)
    (hR : GRes s matcher replG
      (advance { st with visited := st.si :: st.visited, out := st.out ++ pre ++ r, sj := gc.stop, wrote := true,
                         accepted := (gc.start, gc.stop) :: st.accepted } gc.start gc.stop) fG R) :
    GRes s matcher replG st (fG + 1) R := by
  unfold GRes at hR ⊢
  rw [gsub_accept fG st gc rest r pre h hc hr hs]
  exact hR

/-- `GRes` only looks at the string and the count of the Spec's result -/
theorem GRes.congr {st : GsubState} {fG : Nat} {a b : GsubAcc} (ho : a.out = b.out) (hc : a.count = b.count)
    (h : GRes s matcher replG st fG (.ok a)) : GRes s matcher replG st fG (.ok b) := by
  simp only [GRes] at h ⊢
  rw [← ho, ← hc]; exact h

/-! ### one iteration of the Spec's loop (unanchored pattern) -/

theorem spec_limit (repl : List UInt8) (f src : Nat) (last : Option Nat) (acc : GsubAcc) (h : acc.count ≥ s.size + 1) :
    LuaPattern.gsubLoop pat s repl (s.size + 1) (f + 1) src last acc =
      .ok { acc with out := acc.out ++ slice s src s.size } := by
  rw [LuaPattern.gsubLoop]; simp [h]

theorem spec_accept (hanch : pat.anchorStart = false) (repl : List UInt8) (f src : Nat) (last : Option Nat) (acc : GsubAcc)
    (h : ¬ acc.count ≥ s.size + 1) (m : LuaPattern.MatchRes) (hm : LuaPattern.matchAt pat s src = some m)
    (hne : (some m.stop != last) = true) :
    LuaPattern.gsubLoop pat s repl (s.size + 1) (f + 1) src last acc =
      match LuaPattern.expandRepl s m repl with
      | .error e => .error e
      | .ok r => LuaPattern.gsubLoop pat s repl (s.size + 1) f m.stop (some m.stop)
                   { out := acc.out ++ r, count := acc.count + 1 } := by
  rw [LuaPattern.gsubLoop]
  simp only [h, if_false, hm, hne, if_true, hanch, Bool.false_eq_true]
  cases LuaPattern.expandRepl s m repl <;> rfl

theorem spec_skip (hanch : pat.anchorStart = false) (repl : List UInt8) (f src : Nat) (last : Option Nat) (acc : GsubAcc)
    (h : ¬ acc.count ≥ s.size + 1)
    (hm : LuaPattern.matchAt pat s src = none ∨
      ∃ m, LuaPattern.matchAt pat s src = some m ∧ (some m.stop != last) = false) :
    LuaPattern.gsubLoop pat s repl (s.size + 1) (f + 1) src last acc =
      if src < s.size then
        LuaPattern.gsubLoop pat s repl (s.size + 1) f (src + 1) last { acc with out := acc.out ++ [s[src]!] }
      else .ok acc := by
  rw [LuaPattern.gsubLoop]
  rcases hm with hm | ⟨m, hm, hne⟩
  · simp only [h, if_false, hm, hanch, Bool.false_eq_true]
  · simp only [h, if_false, hm, hne, hanch, Bool.false_eq_true]

/-- the fuel the Spec's loop needs from `(src, last)` -/
def specFuel (s : Subject) (src : Nat) (last : Option Nat) : Nat :=
  match last with
  | some l => if l = src then 2 * (s.size + 1 - src) else 2 * (s.size + 1 - src) + 1
  | none => 2 * (s.size + 1 - src) + 1

theorem specFuel_le (s : Subject) (src : Nat) (last : Option Nat) : specFuel s src last ≤ 2 * (s.size + 1 - src) + 1 := by
  unfold specFuel; split <;> (try split) <;> omega

theorem specFuel_same (s : Subject) (src : Nat) : specFuel s src (some src) = 2 * (s.size + 1 - src) := by
  simp [specFuel]

theorem specFuel_ne (s : Subject) (src : Nat) (last : Option Nat) (h : last ≠ some src) :
    specFuel s src last = 2 * (s.size + 1 - src) + 1 := by
  unfold specFuel
  cases last with
  | none => rfl
  | some l =>
    have : l ≠ src := fun e => h (by rw [e])
    simp [this]

theorem advance_fields (st : GsubState) (a b : Int) :
    (advance st a b).si = (if a ≥ b then a + 1 else b) ∧ (advance st a b).allowEmpty = decide (a ≥ b) ∧
    (advance st a b).sj = st.sj ∧ (advance st a b).out = st.out ∧ (advance st a b).wrote = st.wrote ∧
    (advance st a b).matchCount = st.matchCount + 1 := by
  simp [advance]

/-- THE GSUB SIMULATION (unanchored pattern, no limit `n`) -/
theorem gsub_core (hl : Link pat s matcher) (hanch : pat.anchorStart = false) {repl : List UInt8}
    (hrep : ReplLink pat s repl replG) : ∀ (fS : Nat) (st : GsubState) (src : Nat) (last : Option Nat) (acc : GsubAcc) (fG : Nat),
    Sit pat s st src last → Common s st src last acc → specFuel s src last ≤ fS →
    (s.size : Int) + 2 ≤ fG + st.si →
    GRes s matcher replG st fG (LuaPattern.gsubLoop pat s repl (s.size + 1) fS src last acc) := by
  intro fS
  induction fS with
  | zero =>
    intro st src last acc fG hsit hc hf _
    have := hc.src_le
    unfold specFuel at hf
    split at hf <;> (try split at hf) <;> omega
  | succ f ih =>
    intro st src last acc fG hsit hc hf hfG
    have hsrc := hc.src_le
    obtain ⟨j, hj1, hj2, hj3⟩ := hc.j
    have hsi_le : st.si ≤ (s.size : Int) + 1 := by
      cases hsit with
      | free g _ hsi hg _ _ _ => omega
      | after e _ hsi _ _ he _ => omega
      | pending m0 _ hsi _ _ _ _ => omega
    have hfG1 : 1 ≤ fG := by omega
    -- (E) the Spec is at the end of the subject without an acceptable match, and golua's matcher finds nothing
    have fin : matcher st.si = none → src = s.size → GRes s matcher replG st fG (.ok acc) := fun hm hsz =>
      golua_done hfG1 hm (V_of_common hc hsz) hc.cnt hc.wrote (by omega) (by omega)
    -- (S) the Spec copies one byte and moves on; golua's state does not change
    have skip : ∀ (hsit' : Sit pat s st (src + 1) last), src < s.size → (last ≠ some src → True) →
        specFuel s (src + 1) last ≤ f →
        GRes s matcher replG st fG
          (LuaPattern.gsubLoop pat s repl (s.size + 1) f (src + 1) last { acc with out := acc.out ++ [s[src]!] }) := by
      intro hsit' hlt _ hf'
      refine ih st (src + 1) last _ fG hsit' ⟨⟨j, hj1, by omega, ?_⟩, by omega, hc.wrote, hc.cnt, ?_⟩ hf' hfG
      · show acc.out ++ [s[src]!] = st.out ++ slice s j (src + 1)
        rw [hj3, List.append_assoc, ← slice_one s hlt, slice_append s hj2 (by omega)]
      · have := hc.bound.1
        exact ⟨by show acc.count ≤ src + 1 + 1; omega, fun h => by
          have : acc.count = src + 1 + 1 := h
          omega⟩
    -- (A) a match `m` at `src` that both sides accept
    have accept : ∀ (m : LuaPattern.MatchRes), LuaPattern.matchAt pat s src = some m → (some m.stop != last) = true →
        matcher st.si = some (toCaptures m) →
        (st.allowEmpty || ((m.start : Int) != st.si) || ((m.stop : Int) != st.si)) = true →
        st.si ≤ (src : Int) → ¬ acc.count ≥ s.size + 1 →
        GRes s matcher replG st fG (LuaPattern.gsubLoop pat s repl (s.size + 1) (f + 1) src last acc) := by
      intro m hm hne hmat hcond hsile hmax
      obtain ⟨h1, h2, h3⟩ := hl.ok src m hsrc hm
      rw [spec_accept hanch repl f src last acc hmax m hm hne]
      have hr := hrep src m hsrc hm
      obtain ⟨g, rfl⟩ : ∃ g, fG = g + 1 := ⟨fG - 1, by omega⟩
      have hsl : sliceE s st.sj ((⟨(m.start : Int), (m.stop : Int)⟩ : Capture)).start = .ok (slice s j src) := by
        simp only [hj1, h1]; exact sliceE_nat s hj2 hsrc
      cases he : LuaPattern.expandRepl s m repl with
      | error e =>
        rw [he] at hr
        cases e with
        | malformed =>
          simp only at hr ⊢
          unfold GRes
          simp only
          exact gsub_accept_err g st _ _ (by simpa [toCaptures] using hmat) (by simpa using hcond) (by simpa [toCaptures] using hr)
        | unspecified => trivial
      | ok r =>
        rw [he] at hr
        simp only at hr ⊢
        refine golua_accept (⟨(m.start : Int), (m.stop : Int)⟩ : Capture) (m.caps.map capOf) r (slice s j src)
          (by simpa [toCaptures] using hmat) (by simpa using hcond) (by simpa [toCaptures] using hr) hsl ?_
        -- the new golua state
        have hne' : last ≠ some m.stop := by
          intro e; rw [e] at hne; simp at hne
        have hcnt_le : acc.count ≤ m.stop := by
          have hb := hc.bound
          by_cases hms : m.stop = src
          · have : acc.count ≠ src + 1 := fun e => hne' (by rw [hms]; exact hb.2 e)
            omega
          · omega
        have hfuel : specFuel s m.stop (some m.stop) ≤ f := by
          rw [specFuel_same]
          by_cases hms : m.stop = src
          · have := specFuel_ne s src last (by rw [← hms]; exact hne')
            rw [hms]; omega
          · have := specFuel_le s src last
            have hge : 2 * (s.size + 1 - src) ≤ specFuel s src last := by
              unfold specFuel; split <;> (try split) <;> omega
            omega
        apply ih _ m.stop (some m.stop) _ g
        · -- situation
          by_cases hms : m.stop = src
          · refine .pending m ?_ ?_ rfl (by rw [hms]; exact hm) rfl ?_
            · simp [advance, h1, hms]
            · simp [advance, h1, hms]
            · simp [advance]
          · refine .after m.stop ?_ ?_ ?_ rfl (Nat.le_refl _) (fun q a b => by omega)
            · have : ¬ ((m.start : Int) ≥ (m.stop : Int)) := by omega
              simp [advance, this]
            · have : ¬ ((m.start : Int) ≥ (m.stop : Int)) := by omega
              simp [advance, this]
            · simp [advance]
        · -- bookkeeping
          refine ⟨⟨m.stop, by simp [advance], Nat.le_refl _, ?_⟩, h3, fun h => by simp [advance] at h, ?_, ?_⟩
          · simp only [advance, slice_self, List.append_nil]
            rw [hj3]
          · simp only [advance]; have := hc.cnt; omega
          · exact ⟨by show acc.count + 1 ≤ m.stop + 1; omega, fun _ => rfl⟩
        · exact hfuel
        · rw [(advance_fields _ _ _).1]
          simp only
          split <;> omega
    by_cases hmax : acc.count ≥ s.size + 1
    · -- the Spec's limit (`#s + 1` substitutions) can only be reached at the very end, where nothing is left to do
      rw [spec_limit repl f src last acc hmax]
      have hsz : src = s.size := by have := hc.bound.1; omega
      have hlast : last = some src := hc.bound.2 (by have := hc.bound.1; omega)
      have hout : acc.out ++ slice s src s.size = acc.out := by rw [hsz, slice_self]; simp
      apply GRes.congr (a := acc) (b := { acc with out := acc.out ++ slice s src s.size }) hout.symm rfl
      cases hsit with
      | free g _ _ _ _ hlast' _ => have := hlast' src hlast; omega
      | after e hae hsi hsj hlast' he hnone =>
        have hee : e = src := by rw [hlast] at hlast'; injection hlast' with h; exact h.symm
        subst hee
        cases hm : LuaPattern.matchAt pat s e with
        | none => exact fin (by rw [hsi]; exact hl.miss_eq hsz hm) hsz
        | some m =>
          obtain ⟨h1, h2, h3⟩ := hl.ok e m hsrc hm
          have hms : m.stop = e := by omega
          obtain ⟨g, rfl⟩ : ∃ g, fG = g + 1 := ⟨fG - 1, by omega⟩
          have hmat : matcher st.si = some ((⟨(m.start : Int), (m.stop : Int)⟩ : Capture) :: m.caps.map capOf) := by
            rw [hsi]; exact hl.hit hsrc hm
          refine golua_reject _ _ hmat (by simp [hae, hsi, h1, hms]) ?_
          refine golua_done (by omega) ?_ ?_ ?_ ?_ ?_ ?_
          · simp only [advance, h1, hms]
            have : ((e : Int) ≥ (e : Int)) := by omega
            simp only [this, if_true]
            exact hl.beyond (e + 1) (by omega)
          · have := V_of_common hc hsz
            simpa [V, advance] using this
          · simp only [advance]; have := hc.cnt; omega
          · simpa [advance] using hc.wrote
          · simp only [advance]; omega
          · simp only [advance]; omega
      | pending m0 hae hsi _ _ _ _ =>
        exact fin (by rw [hsi]; exact hl.beyond _ (by omega)) hsz
    · cases hsit with
      | free g hae hsi hg hnone hlast hjg =>
        cases hm : LuaPattern.matchAt pat s src with
        | none =>
          rw [spec_skip hanch repl f src last acc hmax (Or.inl hm)]
          have hnone' : ∀ q, g ≤ q → q < src + 1 → LuaPattern.matchAt pat s q = none := fun q a b => by
            by_cases hq : q < src
            · exact hnone q a hq
            · have : q = src := by omega
              rw [this]; exact hm
          by_cases hlt : src < s.size
          · simp only [hlt, if_true]
            refine skip (.free g hae hsi (by omega) hnone' (fun l hl' => by have := hlast l hl'; omega) hjg) hlt (fun _ => trivial) ?_
            have h1 := specFuel_ne s src last (fun e => by have := hlast src e; omega)
            have h2 := specFuel_le s (src + 1) last
            omega
          · simp only [hlt, if_false]
            have hsz : src = s.size := by omega
            refine fin ?_ hsz
            rw [hsi]
            exact hl.skip_none (s.size - g) g (by omega) (fun q a b => hnone' q a (by omega))
        | some m =>
          obtain ⟨h1, h2, h3⟩ := hl.ok src m hsrc hm
          have hne : (some m.stop != last) = true := by
            cases last with
            | none => rfl
            | some l => have := hlast l rfl; simp; omega
          refine accept m hm hne ?_ (by simp [hae]) (by omega) hmax
          rw [hsi]
          obtain ⟨k, rfl⟩ : ∃ k, src = g + k := ⟨src - g, by omega⟩
          exact hl.skip_hit k g m hsrc hnone hm
      | after e hae hsi hsj hlast he hnone =>
        cases hm : LuaPattern.matchAt pat s src with
        | none =>
          rw [spec_skip hanch repl f src last acc hmax (Or.inl hm)]
          have hnone' : ∀ q, e ≤ q → q < src + 1 → LuaPattern.matchAt pat s q = none := fun q a b => by
            by_cases hq : q < src
            · exact hnone q a hq
            · have : q = src := by omega
              rw [this]; exact hm
          by_cases hlt : src < s.size
          · simp only [hlt, if_true]
            refine skip (.after e hae hsi hsj hlast (by omega) hnone') hlt (fun _ => trivial) ?_
            have hge : 2 * (s.size + 1 - src) ≤ specFuel s src last := by
              unfold specFuel; split <;> (try split) <;> omega
            have h2 := specFuel_le s (src + 1) last
            omega
          · simp only [hlt, if_false]
            have hsz : src = s.size := by omega
            refine fin ?_ hsz
            rw [hsi]
            exact hl.skip_none (s.size - e) e (by omega) (fun q a b => hnone' q a (by omega))
        | some m =>
          obtain ⟨h1, h2, h3⟩ := hl.ok src m hsrc hm
          by_cases hrej : src = e ∧ m.stop = e
          · -- the empty match right after a match: rejected by both
            obtain ⟨hse, hms⟩ := hrej
            subst hse
            have hne : (some m.stop != last) = false := by rw [hlast, hms]; simp
            rw [spec_skip hanch repl f src last acc hmax (Or.inr ⟨m, hm, hne⟩)]
            obtain ⟨g, rfl⟩ : ∃ g, fG = g + 1 := ⟨fG - 1, by omega⟩
            have hmat : matcher st.si = some ((⟨(m.start : Int), (m.stop : Int)⟩ : Capture) :: m.caps.map capOf) := by
              rw [hsi]; exact hl.hit hsrc hm
            refine golua_reject _ _ hmat (by simp [hae, hsi, h1, hms]) ?_
            have hge : ((m.start : Int) ≥ (m.stop : Int)) := by omega
            have hge2 : ((src : Int) ≥ (m.stop : Int)) := by omega
            by_cases hlt : src < s.size
            · simp only [hlt, if_true]
              refine ih _ (src + 1) last _ g ?_ ⟨⟨j, by simp [advance, hj1], by omega, ?_⟩, by omega, by simpa [advance] using hc.wrote,
                by simp only [advance]; have := hc.cnt; omega, ?_⟩ ?_ ?_
              · refine .free (src + 1) (by simp [advance, hge, hge2]) (by simp [advance, hge, hge2, h1]) (Nat.le_refl _)
                  (fun q a b => by omega) (fun l hl' => by rw [hlast] at hl'; injection hl' with e'; omega) ?_
                simp only [advance]; omega
              · show acc.out ++ [s[src]!] = _ ++ slice s j (src + 1)
                simp only [advance]
                rw [hj3, List.append_assoc, ← slice_one s hlt, slice_append s hj2 (by omega)]
              · have := hc.bound.1
                exact ⟨by show acc.count ≤ src + 1 + 1; omega, fun h => by
                  have : acc.count = src + 1 + 1 := h
                  omega⟩
              · have h1' : specFuel s src last = 2 * (s.size + 1 - src) := by rw [hlast]; exact specFuel_same s src
                have h2' := specFuel_le s (src + 1) last
                omega
              · simp only [advance, hge, hge2, if_true, h1]; omega
            · simp only [hlt, if_false]
              have hsz : src = s.size := by omega
              refine golua_done (by omega) ?_ ?_ ?_ ?_ ?_ ?_
              · simp only [advance, hge, hge2, if_true, h1]
                exact hl.beyond (src + 1) (by omega)
              · have := V_of_common hc hsz
                simpa [V, advance] using this
              · simp only [advance]; have := hc.cnt; omega
              · simpa [advance] using hc.wrote
              · simp only [advance]; omega
              · simp only [advance]; omega
          · have hne : (some m.stop != last) = true := by
              rw [hlast]; simp
              intro hh; apply hrej; omega
            refine accept m hm hne ?_ ?_ (by omega) hmax
            · rw [hsi]
              obtain ⟨k, rfl⟩ : ∃ k, src = e + k := ⟨src - e, by omega⟩
              exact hl.skip_hit k e m hsrc hnone hm
            · have : ((m.start : Int) ≠ st.si) ∨ ((m.stop : Int) ≠ st.si) := by
                by_cases hse : src = e
                · right; rw [hsi]; intro hh; apply hrej; omega
                · left; rw [hsi]; omega
              rcases this with h | h <;> simp [h]
      | pending m0 hae hsi hlast hm0 he hjp =>
        have hne : (some m0.stop != last) = false := by rw [hlast, he]; simp
        rw [spec_skip hanch repl f src last acc hmax (Or.inr ⟨m0, hm0, hne⟩)]
        by_cases hlt : src < s.size
        · simp only [hlt, if_true]
          refine skip (.free (src + 1) hae hsi (Nat.le_refl _) (fun q a b => by omega)
            (fun l hl' => by rw [hlast] at hl'; injection hl' with e'; omega) (by omega)) hlt (fun _ => trivial) ?_
          have h1' : specFuel s src last = 2 * (s.size + 1 - src) := by rw [hlast]; exact specFuel_same s src
          have h2' := specFuel_le s (src + 1) last
          omega
        · simp only [hlt, if_false]
          exact fin (by rw [hsi]; exact hl.beyond _ (by omega)) (by omega)

end GoluaVerif.Model.PatMatch
