/-
  Proofs.C03Counts — `classifyIndices` / `calculateArraySize`: when the array is to grow to `2^b`,
  some live integer key of the hash part lies in `(old size, 2^b]` (so the migration frees a slot).
-/
import GoluaVerif.Proofs.C03Grow
import Init.Data.List.Nat.Modify
namespace GoluaVerif.Model.Table
open GoluaVerif.Spec (Key Val Map)

/-- the counter for bit length `l` -/
def cntAt (counts : List Nat) (l : Nat) : Nat := (counts[l]?).getD 0

theorem cntAt_bump (counts : List Nat) (l l' : Nat) :
    cntAt (bump counts l) l' = if l' = l ∧ l < counts.length then cntAt counts l' + 1 else cntAt counts l' := by
  unfold cntAt bump
  rw [List.getElem?_modify]
  by_cases e : l = l'
  · subst e
    by_cases hl : l < counts.length
    · simp [hl, List.getElem?_eq_getElem hl]
    · simp [hl, List.getElem?_eq_none (Nat.le_of_not_lt hl)]
  · have : ¬ l' = l := fun x => e x.symm
    simp [e, this]

theorem cntAt_bump_ge (counts : List Nat) (l l' : Nat) : cntAt counts l' ≤ cntAt (bump counts l) l' := by
  rw [cntAt_bump]; split <;> omega

/-- bit length: `bitsLen x = l` pins `x` between `2^(l-1)` and `2^l` -/
theorem bitsLen_lt (x : Nat) : x < 2 ^ bitsLen x := by
  unfold bitsLen
  split
  · rename_i h; subst h; simp
  · exact Nat.lt_log2_self

theorem bitsLen_ge (x : Nat) (h : 1 ≤ bitsLen x) : 2 ^ (bitsLen x - 1) ≤ x := by
  unfold bitsLen at h ⊢
  split
  · rename_i h0; simp [h0] at h
  · rename_i h0
    simp only [Nat.add_sub_cancel]
    exact Nat.log2_self_le h0

/-! ### hash part -/

/-- what `hashTable.classifyIndices` adds for one slot -/
def hStep (acc : List Nat × Nat) (it : Slot) : List Nat × Nat :=
  match it.val, it.key with
  | some _, some (.int i) => if i > 0 then (bump acc.1 (bitsLen (i.toNat - 1)), acc.2 + 1) else acc
  | _, _ => acc

theorem hClassify_eq (t : HashTable) (counts : List Nat) :
    hClassify (some t) counts = t.slots.foldl hStep (counts, 0) := rfl

/-- a live positive integer key of the slot list with bit length `l` -/
def HashContrib (slots : List Slot) (l : Nat) : Prop :=
  ∃ s ∈ slots, ∃ v i, s.val = some v ∧ s.key = some (.int i) ∧ 0 < i ∧ bitsLen (i.toNat - 1) = l

theorem hfold_spec (slots : List Slot) : ∀ (acc : List Nat × Nat) (l : Nat),
    cntAt acc.1 l ≤ cntAt (slots.foldl hStep acc).1 l ∧
    (cntAt acc.1 l < cntAt (slots.foldl hStep acc).1 l → HashContrib slots l) := by
  induction slots with
  | nil => intro acc l; exact ⟨Nat.le_refl _, fun h => absurd h (Nat.lt_irrefl _)⟩
  | cons s rest ih =>
    intro acc l
    simp only [List.foldl_cons]
    obtain ⟨h1, h2⟩ := ih (hStep acc s) l
    have hstep_ge : cntAt acc.1 l ≤ cntAt (hStep acc s).1 l := by
      unfold hStep; split
      · split
        · exact cntAt_bump_ge _ _ _
        · exact Nat.le_refl _
      · exact Nat.le_refl _
    refine ⟨Nat.le_trans hstep_ge h1, ?_⟩
    · intro hlt
      by_cases hr : cntAt (hStep acc s).1 l < cntAt (List.foldl hStep (hStep acc s) rest).1 l
      · obtain ⟨x, hx, rest'⟩ := h2 hr
        exact ⟨x, List.mem_cons_of_mem _ hx, rest'⟩
      · have hs : cntAt acc.1 l < cntAt (hStep acc s).1 l := by omega
        unfold hStep at hs
        split at hs
        · rename_i v i hv hk
          split at hs
          · rename_i hi
            rw [cntAt_bump] at hs
            split at hs
            · rename_i hc
              exact ⟨s, List.mem_cons_self, v, i, hv, hk, hi, hc.1.symm⟩
            · omega
          · omega
        · omega

/-! ### array part -/

/-- a live cell of the array with bit length `l` (index `idx`, i.e. key `idx + 1`) -/
def ArrContrib (vs : List (Option Val)) (i0 l : Nat) : Prop :=
  ∃ idx, ∃ (h : idx < vs.length), (vs[idx]).isSome = true ∧ bitsLen (i0 + idx) = l

theorem arrGo_spec (vs : List (Option Val)) : ∀ (i0 : Nat) (counts : List Nat) (l : Nat),
    cntAt counts l ≤ cntAt (arrClassify.go vs i0 counts) l ∧
    (cntAt counts l < cntAt (arrClassify.go vs i0 counts) l → ArrContrib vs i0 l) := by
  induction vs with
  | nil => intro i0 counts l; exact ⟨Nat.le_refl _, fun h => absurd h (Nat.lt_irrefl _)⟩
  | cons v rest ih =>
    intro i0 counts l
    rw [arrClassify.go]
    obtain ⟨h1, h2⟩ := ih (i0 + 1) (if v.isSome then bump counts (bitsLen i0) else counts) l
    have hstep : cntAt counts l ≤ cntAt (if v.isSome then bump counts (bitsLen i0) else counts) l := by
      split
      · exact cntAt_bump_ge _ _ _
      · exact Nat.le_refl _
    refine ⟨Nat.le_trans hstep h1, ?_⟩
    intro hlt
    by_cases hr : cntAt (if v.isSome then bump counts (bitsLen i0) else counts) l <
        cntAt (arrClassify.go rest (i0 + 1) (if v.isSome then bump counts (bitsLen i0) else counts)) l
    · obtain ⟨idx, hidx, hv, hb⟩ := h2 hr
      exact ⟨idx + 1, by simp; omega, by simpa using hv, by rw [← hb]; congr 1; omega⟩
    · have hs : cntAt counts l < cntAt (if v.isSome then bump counts (bitsLen i0) else counts) l := by omega
      split at hs
      · rename_i hv
        rw [cntAt_bump] at hs
        split at hs
        · rename_i hc
          exact ⟨0, by simp, by simpa using hv, by simpa using hc.1.symm⟩
        · omega
      · omega

/-! ### calculateArraySize -/

theorem calcLoop_spec (cs : List Nat) : ∀ (l : Nat) (base : Option Nat) (acc b : Nat),
    calcLoop cs l base acc = some b → base = some b ∨ ∃ j c, cs[j]? = some c ∧ c ≠ 0 ∧ b = l + j := by
  induction cs with
  | nil => intro l base acc b h; left; simpa [calcLoop] using h
  | cons c rest ih =>
    intro l base acc b h
    rw [calcLoop] at h
    rcases ih _ _ _ _ h with e | ⟨j, c', hj, hc', eb⟩
    · by_cases hcond : c ≠ 0 ∧ (l = 0 ∨ acc + c ≥ 2 ^ (l - 1))
      · rw [if_pos hcond] at e
        right
        exact ⟨0, c, by simp, hcond.1, by simpa using (Option.some.inj e).symm⟩
      · rw [if_neg hcond] at e
        left; exact e
    · right
      exact ⟨j + 1, c', by simpa using hj, hc', by omega⟩

theorem calculateArraySize_spec (counts : List Nat) (sz : Nat) (h : calculateArraySize counts = sz) (hpos : 0 < sz) :
    ∃ b, sz = 2 ^ b ∧ cntAt counts b ≠ 0 := by
  unfold calculateArraySize at h
  cases hc : calcLoop counts 0 none 0 with
  | none => rw [hc] at h; simp at h; omega
  | some b =>
    rw [hc] at h
    refine ⟨b, h.symm, ?_⟩
    rcases calcLoop_spec counts 0 none 0 b hc with e | ⟨j, c, hj, hc', eb⟩
    · cases e
    · have : b = j := by omega
      subst this
      simp [cntAt, hj, hc']

end GoluaVerif.Model.Table
